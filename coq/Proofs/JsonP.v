From AP.Model Require Import Prelude Bytes Json JsonLeaf.

(* A string body is "closed" when, scanning left to right, every backslash is followed by one more byte
   (the escape it starts) and no quote and no byte below 0x20 occurs outside such a pair: a JSON scanner
   that looks for the closing quote cannot stop inside it. *)
Fixpoint body_closed_go (esc : bool) (s : bytes) : bool :=
  match s with
  | [] => negb esc
  | c :: r =>
      if esc then body_closed_go false r
      else if Byte.eqb c bslash then body_closed_go true r
      else if Byte.eqb c dquote then false
      else if (byteN c <? 32)%N then false
      else body_closed_go false r
  end.
Definition body_closed (s : bytes) : bool := body_closed_go false s.

Lemma body_closed_app a b : body_closed a = true -> body_closed b = true -> body_closed (a ++ b) = true.
Proof.
  unfold body_closed. generalize false at 1 3 as e. intros e. revert e.
  induction a as [|c a IH]; intros e Ha Hb; simpl in *.
  - destruct e; [discriminate|exact Hb].
  - destruct e; [apply IH; assumption|].
    destruct (Byte.eqb c bslash); [apply IH; assumption|].
    destruct (Byte.eqb c dquote); [discriminate|].
    destruct (byteN c <? 32)%N; [discriminate|]. apply IH; assumption.
Qed.

(* per-byte facts by a sweep over all 256 bytes *)
Lemma all_bytes_complete b : In b all_bytes.
Proof.
  unfold all_bytes. apply in_map_iff. exists (Byte.to_N b). split.
  - unfold byte_of_N_total. rewrite Byte.of_to_N. reflexivity.
  - apply in_map_iff. exists (N.to_nat (Byte.to_N b)). split; [apply N2Nat.id|].
    apply in_seq. pose proof (Byte.to_N_bounded b). lia.
Qed.

Definition unit_ok (html : bool) (b : byte) : bool :=
  (* the bytes string_bytes_go emits for one ASCII input byte form a closed unit *)
  if (byteN b <? 128)%N then
    body_closed
      (if json_safe html b then [b]
       else bslash ::
            (if Byte.eqb b bslash || Byte.eqb b dquote then [b]
             else if Byte.eqb b x0a then B "n"
             else if Byte.eqb b x0d then B "r"
             else if Byte.eqb b x09 then B "t"
             else B "u00" ++ [hexdigit (N.shiftr (byteN b) 4); hexdigit (N.land (byteN b) 15)]))
  else true.

Lemma unit_ok_all html b : unit_ok html b = true.
Proof.
  assert (forallb (unit_ok html) all_bytes = true) as H by (destruct html; vm_compute; reflexivity).
  rewrite forallb_forall in H. apply H. apply all_bytes_complete.
Qed.

(* a run of bytes >= 0x80 is closed (no quote, no backslash, no control byte among them) *)
Definition high_ok (b : byte) : bool := if (128 <=? byteN b)%N then body_closed [b] else true.
Lemma high_ok_all b : high_ok b = true.
Proof.
  assert (forallb high_ok all_bytes = true) as H by (vm_compute; reflexivity).
  rewrite forallb_forall in H. apply H. apply all_bytes_complete.
Qed.

Lemma high_run_closed s : forallb (fun b => (128 <=? byteN b)%N) s = true -> body_closed s = true.
Proof.
  induction s as [|b s IH]; [reflexivity|]. simpl. rewrite andb_true_iff. intros [Hb Hs].
  change (b :: s) with ([b] ++ s). apply body_closed_app; [|apply IH; exact Hs].
  pose proof (high_ok_all b) as H. unfold high_ok in H. rewrite Hb in H. exact H.
Qed.

(* utf8_size accepts only sequences whose bytes are all >= 0x80 (when the lead byte is) *)
Lemma utf8_size_high s sz :
  utf8_size s = Some sz -> (match s with b :: _ => (128 <=? byteN b)%N | [] => false end) = true ->
  forallb (fun b => (128 <=? byteN b)%N) (firstn sz s) = true.
Proof.
  destruct s as [|b0 r]; [discriminate|]. simpl. intros H H0.
  assert ((byteN b0 <? 128)%N = false) as Hlt by (apply N.ltb_ge; apply N.leb_le; exact H0).
  rewrite Hlt in H.
  unfold is_cont in H.
  destruct ((194 <=? byteN b0) && (byteN b0 <=? 223))%N.
  { destruct r as [|b1 r]; [discriminate|].
    destruct ((128 <=? byteN b1) && (byteN b1 <=? 191))%N eqn:E1; [|discriminate].
    inversion H; subst. simpl. rewrite H0. apply andb_true_iff in E1. destruct E1 as [E1 _]. rewrite E1. reflexivity. }
  destruct ((224 <=? byteN b0) && (byteN b0 <=? 239))%N.
  { destruct r as [|b1 [|b2 r]]; try discriminate.
    destruct (((if (byteN b0 =? 224)%N then 160%N else 128%N) <=? byteN b1) && (byteN b1 <=? (if (byteN b0 =? 237)%N then 159%N else 191%N)))%N eqn:E1; [|discriminate].
    destruct ((128 <=? byteN b2) && (byteN b2 <=? 191))%N eqn:E2; [|discriminate].
    inversion H; subst. simpl. rewrite H0.
    apply andb_true_iff in E1, E2. destruct E1 as [E1 _], E2 as [E2 _].
    assert ((128 <=? byteN b1)%N = true) as -> by (apply N.leb_le; apply N.leb_le in E1; destruct (byteN b0 =? 224)%N; lia).
    rewrite E2. reflexivity. }
  destruct ((240 <=? byteN b0) && (byteN b0 <=? 244))%N; [|discriminate].
  destruct r as [|b1 [|b2 [|b3 r]]]; try discriminate.
  destruct (((if (byteN b0 =? 240)%N then 144%N else 128%N) <=? byteN b1) && (byteN b1 <=? (if (byteN b0 =? 244)%N then 143%N else 191%N)))%N eqn:E1; [|discriminate].
  destruct ((128 <=? byteN b2) && (byteN b2 <=? 191))%N eqn:E2; [|discriminate].
  destruct ((128 <=? byteN b3) && (byteN b3 <=? 191))%N eqn:E3; [|discriminate].
  inversion H; subst. simpl. rewrite H0.
  apply andb_true_iff in E1, E2, E3. destruct E1 as [E1 _], E2 as [E2 _], E3 as [E3 _].
  assert ((128 <=? byteN b1)%N = true) as -> by (apply N.leb_le; apply N.leb_le in E1; destruct (byteN b0 =? 240)%N; lia).
  rewrite E2, E3. reflexivity.
Qed.

Lemma string_bytes_go_closed fuel html s : body_closed (string_bytes_go fuel html s) = true.
Proof.
  revert s. induction fuel as [|fuel IH]; intros s; [reflexivity|].
  destruct s as [|b r]; [reflexivity|].
  cbn [string_bytes_go].
  destruct (byteN b <? 128)%N eqn:Hlt.
  - pose proof (unit_ok_all html b) as Hu. unfold unit_ok in Hu. rewrite Hlt in Hu.
    destruct (json_safe html b).
    + change (b :: string_bytes_go fuel html r) with ([b] ++ string_bytes_go fuel html r).
      apply body_closed_app; [exact Hu|apply IH].
    + apply body_closed_app; [exact Hu|apply IH].
  - destruct (utf8_size (b :: r)) as [sz|] eqn:Hsz.
    + destruct (bytes_eqb (firstn 3 (b :: r)) [xe2; x80; xa8]).
      { apply body_closed_app; [vm_compute; reflexivity|apply IH]. }
      destruct (bytes_eqb (firstn 3 (b :: r)) [xe2; x80; xa9]).
      { apply body_closed_app; [vm_compute; reflexivity|apply IH]. }
      apply body_closed_app; [|apply IH].
      apply high_run_closed. apply utf8_size_high; [exact Hsz|].
      apply N.leb_le. apply N.ltb_ge in Hlt. exact Hlt.
    + apply body_closed_app; [vm_compute; reflexivity|apply IH].
Qed.

Lemma string_bytes_body_closed html s : body_closed (string_bytes_body html s) = true.
Proof. apply string_bytes_go_closed. Qed.

Lemma join_closed sep l :
  body_closed sep = true -> Forall (fun x => body_closed x = true) l -> body_closed (join_with sep l) = true.
Proof.
  intros Hsep H. induction H as [|x l Hx Hl IH]; [reflexivity|].
  destruct l as [|y l']; [exact Hx|].
  change (join_with sep (x :: y :: l')) with (x ++ sep ++ join_with sep (y :: l')).
  apply body_closed_app; [exact Hx|]. apply body_closed_app; [exact Hsep|exact IH].
Qed.

Lemma escape_quote_closed s : body_closed (escape_quote s) = true.
Proof.
  unfold escape_quote. apply join_closed; [vm_compute; reflexivity|].
  apply Forall_forall. intros x Hx. apply in_map_iff in Hx. destruct Hx as [p [<- _]].
  apply string_bytes_body_closed.
Qed.
