(* C07, payload half: what the JSON normal form of a well-formed object keeps (every property that was set, normalised),
   used by Props/C07.v to read "carries the id and properties that were written" off C01's round-trip theorem. *)
From AP.Model Require Import Prelude Bytes Vocab Pred Layout Dispatch Text Equal Coll JsonTables JsonDec Json JsonNorm KindRt.
From AP.Proofs Require Import NlvP TabEqP ShapeP C01LeafP C01RoundP.

Section Payload.
  Variable lay : kind -> list fdecl.
  Variable reg lsw : bytes -> option kind.
  Variable acts actors links : list bytes.
  Notation wfv := (wf_fval lay reg lsw acts actors links).
  Notation wf := (wf_item lay reg lsw acts actors links).

  Lemma is_elem_norm x : is_elem x = true -> norm_item lay x <> INil.
  Proof. destruct x; simpl; try discriminate; intros _ H; discriminate H. Qed.

  (* a well-formed property value is still set after normalisation *)
  Lemma wf_fval_norm_set ty v : wfv ty v = true -> fval_is_zero (norm_fval lay v) = false.
  Proof.
    destruct ty, v; try discriminate; intro H.
    - (* item *)
      destruct i as [| |p s|p k fs|p [[|x [|y r]]|]|]; try discriminate H; try reflexivity.
      (* a one-element list: its element *)
      simpl in H. apply andb_prop in H. destruct H as [H _]. apply andb_prop in H. destruct H as [H _].
      apply andb_prop in H. destruct H as [He _].
      pose proof (is_elem_norm x He) as Hn. change (norm_fval lay (FItem (IItems p (Some [x])))) with (FItem (norm_item lay x)).
      cbn [fval_is_zero]. destruct (norm_item lay x); try reflexivity. congruence.
    - destruct l as [[|x r]|]; try discriminate H; reflexivity.
    - destruct l as [l|]; [|discriminate H]. simpl in H. unfold text_ok in H.
      destruct l as [|e [|e' r]]; try discriminate H; destruct e; reflexivity.
    - simpl in H. unfold string_ok in H. destruct s; [discriminate H|reflexivity].
    - simpl in H. unfold time_ok in H. apply andb_prop in H. destruct H as [_ H].
      apply negb_true_iff in H. unfold norm_fval, norm_time, fval_is_zero, vtime_is_zero. cbn [vsecs vnanos]. rewrite H. reflexivity.
    - simpl in H. unfold dur_ok in H. apply andb_prop in H. destruct H as [H _]. apply andb_prop in H. destruct H as [_ H].
      apply negb_true_iff in H. exact H.
    - simpl in H. apply andb_prop in H. destruct H as [H _]. simpl. destruct n; [discriminate H|reflexivity].
    - simpl in H. apply andb_prop in H. destruct H as [H _]. apply andb_prop in H. destruct H as [H _]. apply negb_true_iff in H. exact H.
    - change (b = true) in H. subst b. reflexivity.
    - simpl in H. apply andb_prop in H. destruct H as [H _]. apply negb_true_iff in H. exact H.
    - (* source *)
      cbn [wf_fval] in H. rewrite !andb_true_iff, negb_true_iff in H. destruct H as [[_ Hc] Hnz].
      change (norm_fval lay (FSource mt c)) with (FSource mt (norm_nlv c)). cbn [fval_is_zero] in Hnz |- *.
      destruct mt; [|reflexivity]. destruct c as [l|]; [|discriminate Hnz]. destruct l as [|[r0 v0] [|e2 l']]; reflexivity.
    - (* endpoints *)
      destruct e as [e|]; [|discriminate H]. rewrite norm_endpoints. reflexivity.
    - (* public key *)
      cbn [wf_fval] in H. rewrite !andb_true_iff, negb_true_iff in H. destruct H as [_ Hnz].
      change (norm_fval lay (FPubKey id owner pem)) with (FPubKey id owner pem). cbn [fval_is_zero].
      cbn [fval_is_zero] in Hnz. destruct id, owner, pem; try reflexivity; discriminate Hnz.
  Qed.

  Lemma getf_norm_fields g fs : getf g (norm_fields lay fs) = option_map (norm_fval lay) (getf g fs).
  Proof.
    induction fs as [|[f v] r IH]; [reflexivity|]. cbn [norm_fields map fst snd getf].
    destruct (fid_beq g f); [reflexivity|exact IH].
  Qed.

  Lemma getf_in g (fs : list (fid * fval)) v : getf g fs = Some v -> In (g, v) fs.
  Proof.
    induction fs as [|[f w] r IH]; [discriminate|]. cbn [getf]. destruct (fid_beq g f) eqn:E.
    - intro H. injection H as ->. apply internal_fid_dec_bl in E. subst. left. reflexivity.
    - intro H. right. exact (IH H).
  Qed.

  (* the normal form of a well-formed object keeps every property that was set, normalised *)
  Theorem wf_norm_keeps p k fs : wf (IObj p k fs) = true ->
    exists fs', norm_item lay (IObj p k fs) = IObj true k fs' /\
                forall g v, getf g fs = Some v -> getf g fs' = Some (norm_fval lay v).
  Proof.
    intro Hw. exists (canon_fields lay k (norm_fields lay fs)). split; [apply norm_obj|].
    intros g v Hg. rewrite getf_canon_fields, getf_norm_fields, Hg. cbn [option_map].
    simpl in Hw. apply andb_prop in Hw. destruct Hw as [_ Hf].
    destruct (wf_fields lay reg lsw acts actors links k fs Hf g v (getf_in g fs v Hg)) as (d & Hd & Hv).
    rewrite (wf_fval_norm_set _ _ Hv).
    unfold decl_of in Hd. apply find_some in Hd. destruct Hd as [Hin Hb].
    replace (existsb (fun d0 => fid_beq (fd_fid d0) g) (lay k)) with true; [reflexivity|].
    symmetry. apply existsb_exists. exists d. split; assumption.
  Qed.
End Payload.

(* a well-formed object's item-valued and list-valued properties hold well-formed values *)
Section Inner.
  Variable lay : kind -> list fdecl.
  Variable reg lsw : bytes -> option kind.
  Variable acts actors links : list bytes.
  Notation wfv := (wf_fval lay reg lsw acts actors links).
  Notation wf := (wf_item lay reg lsw acts actors links).

  Lemma wf_property p k fs g v : wf (IObj p k fs) = true -> getf g fs = Some v ->
    exists d, decl_of lay k g = Some d /\ wfv (fd_type d) v = true.
  Proof.
    intros Hw Hg. simpl in Hw. apply andb_prop in Hw. destruct Hw as [_ Hf].
    exact (wf_fields lay reg lsw acts actors links k fs Hf g v (getf_in g fs v Hg)).
  Qed.

  (* the value in an item-valued property *)
  Lemma wf_item_property p k fs g x : wf (IObj p k fs) = true -> getf g fs = Some (FItem x) ->
    (forall d, decl_of lay k g = Some d -> fd_type d = TItem) -> wf x = true.
  Proof.
    intros Hw Hg Ht. destruct (wf_property p k fs g _ Hw Hg) as (d & Hd & Hv). rewrite (Ht d Hd) in Hv. exact Hv.
  Qed.

  (* the second member of a two-element list-valued property *)
  Lemma wf_list_property p k fs g a x : wf (IObj p k fs) = true -> getf g fs = Some (FItems (Some [a; x])) ->
    (forall d, decl_of lay k g = Some d -> fd_type d = TItems) -> wf x = true.
  Proof.
    intros Hw Hg Ht. destruct (wf_property p k fs g _ Hw Hg) as (d & Hd & Hv). rewrite (Ht d Hd) in Hv.
    simpl in Hv. apply andb_prop in Hv. destruct Hv as [Hv _]. apply andb_prop in Hv. destruct Hv as [_ Hv].
    apply andb_prop in Hv. destruct Hv as [Hv _]. apply andb_prop in Hv. destruct Hv as [_ Hv]. exact Hv.
  Qed.
End Inner.
