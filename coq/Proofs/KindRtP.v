(* C07, kind half of "the value decoded for a type name is of the Go type the registry gives for it", over the codec
   models, generic in the dispatch tables:
     JSON  for every decoder (any read tables, layouts, type lists) whose registry / JSONLoadItem switch satisfy
           json_kind_cond, every listed name n, EVERY document whose type member is n: what JSONLoadItem returns
           for it - at top level, in an item position, in a list position, at any nesting depth - is a pointer to
           the struct kind of n's family, or nothing (an object the decoder finds empty);
     gob   for every environment satisfying gob_whole_ok and gob_kind_cond, every listed name n, EVERY value x of
           the struct kind of n's family whose Type is n and whose properties hold values of their Go types:
           gobDecodeItem on what gobEncodeItem wrote for x - at top level or as the bytes of a nested property,
           whatever decoder level reads them - returns, when it returns a value, a pointer to that struct kind. *)
From AP.Model Require Import Prelude Bytes Vocab Pred Layout Dispatch Text Equal Coll JsonTables JsonDec GobTables Gob GobCheck GobNorm GobWhole KindRt.
From AP.Spec Require Import Vocabulary.
From AP.Proofs Require Import NlvP TabEqP GobP GobLeafP GobWireP GobRtP.

Lemma okind_eqb_some a k : okind_eqb a (Some k) = true -> a = Some k.
Proof. destruct a as [x|]; simpl; [|discriminate]. intro H. apply internal_kind_dec_bl in H. subst. reflexivity. Qed.

(* ---------------------------------------------------------------- JSON *)
Section Json.
  Variable jr : list (bytes * list rstmt).
  Variable lay : kind -> list fdecl.
  Variable reg lsw : bytes -> option kind.
  Variable acts actors links : list bytes.
  Variable names : list (bytes * family).
  Hypothesis Hcond : json_kind_cond reg lsw names = true.

  Notation LEVEL := (load_item_level jr lay reg lsw acts actors links).
  Notation LOAD := (load_item jr lay reg lsw acts actors links).

  Lemma name_facts n f : In (n, f) names ->
    n <> [] /\ reg n = Some (kind_of_family f) /\ lsw n = Some (kind_of_family f).
  Proof.
    intro Hin. unfold json_kind_cond in Hcond. rewrite forallb_forall in Hcond. specialize (Hcond _ Hin).
    unfold json_kind_entry_ok in Hcond. cbn [fst snd] in Hcond.
    apply andb_prop in Hcond. destruct Hcond as [H H3]. apply andb_prop in H. destruct H as [H1 H2].
    repeat split; [|apply okind_eqb_some; exact H2|apply okind_eqb_some; exact H3].
    intro E. subst n. discriminate H1.
  Qed.

  (* one level of JSONLoadItem, whatever loads the embedded values *)
  Theorem json_kind_level n f rec v i : In (n, f) names -> type_name_of v = n ->
    LEVEL rec v = Some i -> kind_or_nothing (kind_of_family f) i.
  Proof.
    intros Hin Ht. destruct (name_facts n f Hin) as (Hne & Hr & Hs).
    unfold load_item_level. unfold type_name_of in Ht. rewrite Ht.
    assert (as_string_iri n v = Some None) as -> by (unfold as_string_iri; destruct n; [congruence|reflexivity]).
    rewrite Hr, Hs. rewrite (internal_kind_dec_lb _ _ eq_refl).
    match goal with |- match ?r with Some _ => _ | None => _ end = _ -> _ => destruct r as [fs|]; [|discriminate] end.
    intro H. injection H as <-.
    destruct (not_empty _ _ _ _); [right; eexists; reflexivity|left; reflexivity].
  Qed.

  (* JSONLoadItem at any nesting depth *)
  Theorem json_kind_load n f fuel v i : In (n, f) names -> type_name_of v = n ->
    LOAD fuel v = Some i -> kind_or_nothing (kind_of_family f) i.
  Proof. intros Hin Ht. destruct fuel as [|g]; [discriminate|]. cbn [load_item]. apply (json_kind_level n f); assumption. Qed.

  (* top level: the tree of a document, and the bytes of a document *)
  Theorem json_kind_top_tree n f kvs i : In (n, f) names -> type_name_of (FObj kvs) = n ->
    unmarshal_to_item jr lay reg lsw acts actors links (FObj kvs) = Some i -> kind_or_nothing (kind_of_family f) i.
  Proof.
    intros Hin Ht. unfold unmarshal_to_item. destruct (keys_clean (FObj kvs)); [|discriminate].
    unfold unmarshal_core. apply (json_kind_load n f json_dec_fuel (FObj kvs) i Hin Ht).
  Qed.

  Theorem json_kind_top n f b kvs i : In (n, f) names -> fj_parse b = Ok (FObj kvs) -> type_name_of (FObj kvs) = n ->
    unmarshal_json jr lay reg lsw acts actors links b = Some (Ok i) -> kind_or_nothing (kind_of_family f) i.
  Proof.
    intros Hin Hp Ht. unfold unmarshal_json. rewrite Hp.
    destruct (unmarshal_to_item _ _ _ _ _ _ _ _) as [j|] eqn:E; [|discriminate].
    intro H. injection H as <-. apply (json_kind_top_tree n f kvs j Hin Ht E).
  Qed.

  (* item position: the value of an item-valued property (JSONGetItem / JSONGetURIItem) that is an object *)
  Theorem json_kind_item_position n f fuel val prop kvs i : In (n, f) names ->
    jget val prop = Some (FObj kvs) -> type_name_of (FObj kvs) = n ->
    (jget_item (LOAD fuel) val prop = Some i \/ jget_uri_item (LOAD fuel) val prop = Some i) ->
    kind_or_nothing (kind_of_family f) i.
  Proof.
    intros Hin Hg Ht. unfold jget_item, jget_uri_item. rewrite Hg.
    intros [H|H]; apply (json_kind_load n f fuel (FObj kvs) i Hin Ht H).
  Qed.

  (* list position: every member of a loaded list is what JSONLoadItem made of one element of the array, and is not
     nothing *)
  Lemma g_append1_in (acc : list item) x y : In y (ic_append acc [x]) -> In y acc \/ y = x.
  Proof.
    unfold ic_append, g_append. cbn [fold_left]. unfold g_append1. destruct (g_contains _ _ acc x); [auto|].
    intro H. apply in_app_or in H. destruct H as [H|[H|[]]]; auto.
  Qed.

  Lemma items_go_members rec l : forall acc its, items_go rec l acc = Some its ->
    forall y, In y its -> In y acc \/ (exists v, In v l /\ rec v = Some y /\ y <> INil).
  Proof.
    induction l as [|x l IH]; intros acc its H y Hy; cbn [items_go] in H.
    - injection H as <-. left. exact Hy.
    - destruct (rec x) as [j|] eqn:Ex; [|discriminate].
      assert (Hstep : forall acc', items_go rec l acc' = Some its ->
                (forall z, In z acc' -> In z acc \/ (z = j /\ j <> INil)) ->
                In y acc \/ (exists v, In v (x :: l) /\ rec v = Some y /\ y <> INil)).
      { intros acc' H' Hacc'. destruct (IH acc' its H' y Hy) as [Hin|(v & Hv & Hr & Hn)].
        - destruct (Hacc' y Hin) as [Ha|[-> Hn]]; [left; exact Ha|]. right. exists x. repeat split; [left; reflexivity|exact Ex|exact Hn].
        - right. exists v. repeat split; [right; exact Hv|exact Hr|exact Hn]. }
      destruct j; try (apply (Hstep _ H); intros z Hz; apply g_append1_in in Hz; destruct Hz as [Hz|Hz]; [left; exact Hz|right; split; [exact Hz|discriminate]]).
      apply (Hstep acc H). intros z Hz. left. exact Hz.
  Qed.

  Theorem json_kind_list_position n f fuel val prop l its i : In (n, f) names ->
    jget val prop = Some (FArr l) -> jget_items (LOAD fuel) val prop = Some (Some its) -> In i its ->
    exists v, In v l /\ LOAD fuel v = Some i /\ i <> INil /\
              (type_name_of v = n -> has_kind (kind_of_family f) i).
  Proof.
    intros Hin Hg. unfold jget_items. rewrite Hg. unfold items_fn.
    destruct (items_go (LOAD fuel) l []) as [[|a r]|] eqn:E; try discriminate.
    intro H. injection H as <-. intro Hi.
    destruct (items_go_members (LOAD fuel) l [] (a :: r) E i Hi) as [[]|(v & Hv & Hr & Hn)].
    exists v. repeat split; try assumption.
    intro Ht. destruct (json_kind_load n f fuel v i Hin Ht Hr) as [->|Hk]; [congruence|exact Hk].
  Qed.

  (* a top-level array *)
  Theorem json_kind_top_array n f l its i : In (n, f) names ->
    unmarshal_to_item jr lay reg lsw acts actors links (FArr l) = Some (IItems false (Some its)) -> In i its ->
    exists v, In v l /\ LOAD json_dec_fuel v = Some i /\ i <> INil /\ (type_name_of v = n -> has_kind (kind_of_family f) i).
  Proof.
    intros Hin. unfold unmarshal_to_item. destruct (keys_clean (FArr l)); [|discriminate].
    unfold unmarshal_core, items_fn. destruct (items_go (LOAD json_dec_fuel) l []) as [acc|] eqn:E; [|discriminate].
    intro H. injection H as <-. intro Hi.
    destruct (items_go_members (LOAD json_dec_fuel) l [] acc E i Hi) as [[]|(v & Hv & Hr & Hn)].
    exists v. repeat split; try assumption.
    intro Ht. destruct (json_kind_load n f json_dec_fuel v i Hin Ht Hr) as [->|Hk]; [congruence|exact Hk].
  Qed.
End Json.

(* ---------------------------------------------------------------- gob *)
Section GobKind.
  Variable E : gob_env.
  Hypothesis Hwhole : gob_whole_ok E = true.
  Variable names : list (bytes * family).
  Hypothesis Hcond : gob_kind_cond E names = true.

  Lemma gob_name_facts n f : In (n, f) names -> n <> [] /\ type_selects E (kind_of_family f) n = true.
  Proof.
    intro Hin. unfold gob_kind_cond in Hcond. rewrite forallb_forall in Hcond. specialize (Hcond _ Hin).
    unfold gob_kind_entry_ok in Hcond. cbn [fst snd] in Hcond. apply andb_prop in Hcond. destruct Hcond as [H1 H2].
    split; [|exact H2]. intro Eq. subst n. discriminate H1.
  Qed.

  Section Value.
    Variables (n : bytes) (f : family) (p : bool) (fs : list (fid * fval)).
    Hypothesis Hin : In (n, f) names.
    Hypothesis Hty : get_str F_Type fs = n.
    Hypothesis Hshape : shapes_ok E (kind_of_family f) fs.
    Notation k := (kind_of_family f).

    (* what gobEncodeItem writes for the value: a property map whose "type" entry is the name *)
    Theorem gob_kind_written : exists mm,
      genc E (IObj p k fs) = WMap mm /\
      match aget (B "type") mm with Some r => wire_bytes_or_garbage r | None => [] end = n.
    Proof.
      destruct (gob_name_facts n f Hin) as [Hne Hsel].
      rewrite (genc_obj E Hwhole p k fs), (enc_struct_obj E k fs) by (rewrite Hty; exact Hsel).
      unfold enc_obj, enc_map_gen.
      pose proof (type_on_wire E Hwhole k fs Hshape) as Htw.
      destruct (kind_struct_ok E Hwhole k) as [Hsok _].
      destruct (whole_parts E Hwhole) as (_ & _ & _ & Htf & _ & _).
      unfold type_fields_ok in Htf. rewrite forallb_forall in Htf.
      assert (Hinl : in_fields (ge_layout E k) F_Type = true) by (apply Htf; destruct k; simpl; tauto).
      destruct (in_fields_In _ _ Hinl) as (d & Hd & Hdf).
      assert (Hg : getf (fd_fid d) fs = Some (Vocab.FStr n)).
      { rewrite Hdf. unfold get_str in Hty. destruct (getf F_Type fs) as [v|] eqn:Eg.
        - pose proof (Hshape d v Hd) as Hs. rewrite Hdf in Hs. specialize (Hs Eg).
          destruct v; subst n; first [reflexivity|congruence].
        - subst n. congruence. }
      destruct (set_field_written_gen E (wenc E) _ _ _ _ _ Hsok fs d (Vocab.FStr n) Hd Hg) as [Hhas _].
      { apply (Hshape d _ Hd Hg). }
      { destruct n; [congruence|discriminate]. }
      destruct (gmap_gen (wenc E) (wtable E k) (pre_fields E fs)) as [mm has] eqn:Hgm.
      cbn [snd] in Hhas. subst has. exists mm. split; [reflexivity|]. cbn [fst] in Htw. rewrite Htw. exact Hty.
    Qed.

    (* gobDecodeItem on those bytes, whatever decodes the nested byte strings: a value, if any, of the kind *)
    Theorem gob_kind_step rec y : dec_step E rec (genc E (IObj p k fs)) = Ok y -> has_kind k y.
    Proof.
      destruct gob_kind_written as (mm & -> & Ht). destruct (gob_name_facts n f Hin) as [Hne Hsel].
      unfold dec_step. rewrite (sniff_map E (whole_codecs E Hwhole) rec _ (sniff_here E Hwhole)). unfold dec_object. rewrite Ht.
      unfold type_selects in Hsel.
      apply andb_true_iff in Hsel. destruct Hsel as [Hsel _]. apply andb_true_iff in Hsel. destruct Hsel as [Hsel Hfresh].
      apply andb_true_iff in Hsel. destruct Hsel as [Hsel _]. apply andb_true_iff in Hsel. destruct Hsel as [Htyper Hdec].
      apply okind_eqb_some in Htyper. apply okind_eqb_some in Hdec. apply bytes_eqb_true in Hfresh.
      rewrite Htyper. cbv zeta. rewrite Hfresh, Hdec. rewrite (internal_kind_dec_lb _ _ eq_refl).
      destruct (gunmap _ _ _ _ _) as [out| | |]; cbn [obind]; try discriminate.
      intro H. injection H as <-. eexists. reflexivity.
    Qed.

    (* top level *)
    Theorem gob_kind_top y : gdec E (genc E (IObj p k fs)) = Ok y -> has_kind k y.
    Proof. rewrite gdec_unfold. apply gob_kind_step. Qed.

    (* nested: the bytes of the value as a property of an enclosing value are read by gobDecodeItem one level down,
       i.e. by dec_fuel at a smaller fuel *)
    Theorem gob_kind_nested m y : dec_fuel E m (genc E (IObj p k fs)) = Ok y -> has_kind k y.
    Proof. destruct m as [|m]; [discriminate|]. cbn [dec_fuel]. apply gob_kind_step. Qed.
  End Value.
End GobKind.

