(* C05, the decode side of the three leaf structs (Source, Endpoints, PublicKey), generic over their read tables.
   The object-level theorems of Proofs/ShapeP.v (fields_read, shape_independence) say of a struct-valued property only
   "its field holds what its getter returns".  Here the getters themselves are opened:
     - the read table of a leaf struct (property statements only, getters that do not call a further table) runs as
       the fold apply_reads of Model/Shape.v, whatever the depth left to the interpreter (run_leaf_apply), so every
       part of the struct holds exactly what its entry reads under its term from the struct's JSON object, and a part
       without an entry stays unset (leaf_fields_read);
     - every endpoint is read by an item getter: IRI string, embedded object or array give the same member
       (leaf_member_shapes);
     - the struct value is assembled from those parts as the code does (publickey_read, endpoints_read, source_read).
   Conditions on the tables are decidable (leaf_reads_ok) and evaluated on the generated tables in Props/C05.v. *)
From AP.Model Require Import Prelude Bytes Vocab Pred Url IriEq Nlv Text Equal Coll Dispatch Layout JsonTables JsonLeaf JsonCheck JsonDec
     JsonRoundCheck Shape.
From AP.Proofs Require Import NlvP CopyP ShapeP.
Local Open Scope nat_scope.

Definition struct_getter (g : bytes) : bool :=
  bytes_eqb g (B "GetAPSource") || bytes_eqb g (B "JSONGetActorEndpoints") || bytes_eqb g (B "JSONGetPublicKey").

(* the read table `name` holds property statements only, reads no part twice and calls no further table *)
Definition leaf_reads_ok (jr_tables : list (bytes * list rstmt)) (name : bytes) : bool :=
  match jr_table jr_tables name with
  | Some stmts =>
      match leaf_reads stmts with
      | Some rs => fids_nodup (map rf_fid rs) && forallb (fun r => negb (struct_getter (rf_getter r))) rs
      | None => false
      end
  | None => false
  end.

Section LeafRead.
  Variable jr_tables : list (bytes * list rstmt).
  Variable rec : fjv -> option item.

  (* a getter that calls no table answers alike at every depth of the interpreter *)
  Lemma get_value_depth d1 d2 val g t c : struct_getter g = false ->
    get_value jr_tables rec (S d1) val g t c = get_value jr_tables rec (S d2) val g t c.
  Proof.
    unfold struct_getter. rewrite !orb_false_iff. intros [[H1 H2] H3]. cbn [get_value].
    repeat (match goal with |- (if ?b then _ else _) = (if ?b then _ else _) => destruct b; [reflexivity|] end).
    rewrite H1, H2, H3. reflexivity.
  Qed.

  Lemma run_stmts_apply dg sub stmts rs : leaf_reads stmts = Some rs ->
    forallb (fun r => negb (struct_getter (rf_getter r))) rs = true ->
    forall acc, run_stmts (get_value jr_tables rec (S dg)) sub stmts acc = apply_reads jr_tables rec sub rs acc.
  Proof.
    revert rs. induction stmts as [|s r IH]; intros rs H Hg acc.
    - inversion H. reflexivity.
    - destruct s as [f t g c gd pos|on fn pos|src pos]; [|discriminate H|discriminate H].
      cbn [leaf_reads] in H. destruct (leaf_reads r) as [rs'|] eqn:Er; [|discriminate H]. inversion H; subst rs. clear H.
      cbn [forallb rf_getter] in Hg. apply andb_true_iff in Hg. destruct Hg as [Hg1 Hg2]. apply negb_true_iff in Hg1.
      cbn [apply_reads]. unfold entry_value. cbn [rf_getter rf_term rf_conv rf_guard rf_fid].
      change (run_stmts (get_value jr_tables rec (S dg)) sub (RProp f t g c gd pos :: r) acc)
        with (match get_value jr_tables rec (S dg) sub g t c with
              | None => None
              | Some None => run_stmts (get_value jr_tables rec (S dg)) sub r acc
              | Some (Some x) => run_stmts (get_value jr_tables rec (S dg)) sub r
                                   (if fval_is_zero (link_guard gd x) then acc else setf f (link_guard gd x) acc)
              end).
      rewrite (get_value_depth dg 2 sub g t c Hg1).
      destruct (get_value jr_tables rec 3 sub g t c) as [[x|]|]; [|exact (IH rs' eq_refl Hg2 acc)|reflexivity].
      cbv zeta. destruct (fval_is_zero (link_guard gd x)); exact (IH rs' eq_refl Hg2 _).
  Qed.

  (* ---- part by part ---- *)
  Theorem leaf_fields_read name dg sub acc : leaf_reads_ok jr_tables name = true ->
    run_leaf jr_tables (get_value jr_tables rec (S dg)) name sub = Some acc ->
    exists stmts rs, jr_table jr_tables name = Some stmts /\ leaf_reads stmts = Some rs /\
      (forall r, In r rs -> exists ov, entry_value jr_tables rec sub r = Some ov /\ getf (rf_fid r) acc = ov) /\
      (forall f, ~ In f (map rf_fid rs) -> getf f acc = None).
  Proof.
    unfold leaf_reads_ok, run_leaf. destruct (jr_table jr_tables name) as [stmts|]; [|discriminate].
    destruct (leaf_reads stmts) as [rs|] eqn:Er; [|discriminate]. rewrite andb_true_iff. intros [Hnd Hg] Hrun.
    rewrite (run_stmts_apply dg sub stmts rs Er Hg []) in Hrun.
    destruct (apply_reads_spec jr_tables rec sub rs [] acc (fids_nodup_spec _ Hnd) Hrun) as [H1 H2].
    exists stmts, rs. split; [reflexivity|]. split; [exact Er|]. split.
    - intros r Hr. destruct (H1 r Hr) as [ov [E1 E2]]. exists ov. split; [exact E1|]. rewrite E2. destruct ov; reflexivity.
    - exact H2.
  Qed.

  (* ---- an endpoint (any part read by an item getter) in its three shapes ---- *)
  Theorem leaf_member_shapes name dg sub acc : leaf_reads_ok jr_tables name = true ->
    run_leaf jr_tables (get_value jr_tables rec (S dg)) name sub = Some acc ->
    forall stmts rs r, jr_table jr_tables name = Some stmts -> leaf_reads stmts = Some rs -> In r rs ->
    is_item_getter r = true \/ is_uri_getter r = true ->
    let m := jget sub (rf_term r) in
    (forall x i, m = Some x -> elem_loads rec x i -> getf (rf_fid r) acc = Some (FItem i)) /\
    (forall l its, m = Some (FArr l) -> Forall2 (elem_loads rec) l its ->
                   getf (rf_fid r) acc = Some (FItem (IItems false (Some (list_value its))))) /\
    (m = None -> getf (rf_fid r) acc = None).
  Proof.
    intros Hok Hrun stmts rs r Hj Hl Hr Hg m.
    destruct (leaf_fields_read name dg sub acc Hok Hrun) as [stmts' [rs' [Hj' [Hl' [H1 _]]]]].
    rewrite Hj in Hj'. inversion Hj'; subst stmts'. rewrite Hl in Hl'. inversion Hl'; subst rs'.
    destruct (H1 r Hr) as [ov [Ev Eg]]. rewrite Eg. clear Eg.
    destruct Hg as [Hg|Hg].
    - rewrite (entry_value_item jr_tables rec sub r Hg) in Ev. repeat split.
      + intros x i Hm He. rewrite (jget_item_one rec sub (rf_term r) x i Hm He) in Ev. destruct He as [_ [Hn _]].
        destruct i; try congruence; inversion Ev; reflexivity.
      + intros l its Hm Hf. rewrite (jget_item_list rec sub (rf_term r) l its Hm Hf) in Ev. inversion Ev. reflexivity.
      + intros Hm. unfold jget_item in Ev. fold m in Ev. rewrite Hm in Ev. inversion Ev. reflexivity.
    - rewrite (entry_value_uri jr_tables rec sub r Hg) in Ev. repeat split.
      + intros x i Hm He. rewrite (jget_uri_item_one rec sub (rf_term r) x i Hm He) in Ev. destruct He as [_ [Hn _]].
        destruct i; try congruence; inversion Ev; reflexivity.
      + intros l its Hm Hf. rewrite (jget_uri_item_list rec sub (rf_term r) l its Hm Hf) in Ev. inversion Ev. reflexivity.
      + intros Hm. unfold jget_uri_item in Ev. fold m in Ev. rewrite Hm in Ev. inversion Ev. reflexivity.
  Qed.

  (* ---- the struct values, assembled from the parts ---- *)
  Theorem publickey_read dg val term conv ov :
    get_value jr_tables rec (S (S dg)) val (B "JSONGetPublicKey") term conv = Some ov ->
    match jget val term with
    | None => ov = None
    | Some sub => exists acc, run_leaf jr_tables (get_value jr_tables rec (S dg)) (B "JSONLoadPublicKey") sub = Some acc /\
        ov = match get_str F_ID acc, get_str F_Owner acc, get_str F_PublicKeyPem acc with
             | [], [], [] => None
             | a, b, c => Some (FPubKey a b c)
             end
    end.
  Proof.
    change (get_value jr_tables rec (S (S dg)) val (B "JSONGetPublicKey") term conv)
      with (match jget val term with
            | None => Some None
            | Some sub => match run_leaf jr_tables (get_value jr_tables rec (S dg)) (B "JSONLoadPublicKey") sub with
                          | Some fs => Some (match get_str F_ID fs, get_str F_Owner fs, get_str F_PublicKeyPem fs with
                                             | [], [], [] => None
                                             | a, b, c => Some (FPubKey a b c)
                                             end)
                          | None => None
                          end
            end).
    destruct (jget val term) as [sub|]; [|intros H; inversion H; reflexivity].
    destruct (run_leaf jr_tables (get_value jr_tables rec (S dg)) (B "JSONLoadPublicKey") sub) as [acc|]; [|discriminate].
    intros H. inversion H. exists acc. split; reflexivity.
  Qed.

  Theorem endpoints_read dg val term conv ov :
    get_value jr_tables rec (S (S dg)) val (B "JSONGetActorEndpoints") term conv = Some ov ->
    match jget val term with
    | None => ov = None
    | Some sub => exists acc, run_leaf jr_tables (get_value jr_tables rec (S dg)) (B "JSONGetActorEndpoints") sub = Some acc /\
        ov = Some (FEndpoints (Some (endpoints_in_struct_order
                                       (flat_map (fun p => match snd p with FItem i => [(fst p, i)] | _ => [] end) acc))))
    end.
  Proof.
    change (get_value jr_tables rec (S (S dg)) val (B "JSONGetActorEndpoints") term conv)
      with (match jget val term with
            | None => Some None
            | Some sub => match run_leaf jr_tables (get_value jr_tables rec (S dg)) (B "JSONGetActorEndpoints") sub with
                          | Some fs => Some (Some (FEndpoints (Some (endpoints_in_struct_order
                                         (flat_map (fun p => match snd p with FItem i => [(fst p, i)] | _ => [] end) fs)))))
                          | None => None
                          end
            end).
    destruct (jget val term) as [sub|]; [|intros H; inversion H; reflexivity].
    destruct (run_leaf jr_tables (get_value jr_tables rec (S dg)) (B "JSONGetActorEndpoints") sub) as [acc|]; [|discriminate].
    intros H. inversion H. exists acc. split; reflexivity.
  Qed.

  (* GetAPSource runs on the object itself: its entries name the parts "<member>.<part>" *)
  Theorem source_read dg val term conv ov :
    get_value jr_tables rec (S (S dg)) val (B "GetAPSource") term conv = Some ov ->
    exists acc, run_leaf jr_tables (get_value jr_tables rec (S dg)) (B "GetAPSource") val = Some acc /\
      ov = match get_str F_MediaType acc, get_nlv F_Content acc with
           | [], None => None
           | mt, c => Some (FSource mt c)
           end.
  Proof.
    change (get_value jr_tables rec (S (S dg)) val (B "GetAPSource") term conv)
      with (match run_leaf jr_tables (get_value jr_tables rec (S dg)) (B "GetAPSource") val with
            | Some fs => Some (match get_str F_MediaType fs, get_nlv F_Content fs with
                               | [], None => None
                               | mt, c => Some (FSource mt c)
                               end)
            | None => None
            end).
    destruct (run_leaf jr_tables (get_value jr_tables rec (S dg)) (B "GetAPSource") val) as [acc|]; [|discriminate].
    intros H. inversion H. exists acc. split; reflexivity.
  Qed.
End LeafRead.
