(* What the members written by the instant and duration writers denote, against the standards: the string of every
   member written by JSONWriteTimeProp is a date-time of RFC 3339 (Spec/Rfc3339.v), the string of every member written
   by JSONWriteDurationProp lies in the lexical space of xsd:duration (Spec/XsdDuration.v) - for the object written for
   ANY struct value, through the assembly lemma of JsonGenGP (tables of this run). *)
From AP.Model Require Import Prelude Bytes Vocab Layout Json JsonLeaf JsonTables JsonEnc JsonCheck JsonGrammarCheck JsonCodec.
From AP.Spec Require Import Rfc8259 Rfc3339 XsdDuration.
From AP.Proofs Require Import Rfc8259P JsonLeafGP JsonEncGP JsonGenGP XsdDurP Rfc3339P.
From AP.Gen Require Import Layout JsonW.
Open Scope Z_scope.

Lemma denotes_time via v j : denotes (B "JSONWriteTimeProp") via v j ->
  exists t, v = Some (FTime t) /\ time_writable t = true /\ j = VStr (fmt_rfc3339_utc (vsecs t)) /\ Rfc3339_date_time (fmt_rfc3339_utc (vsecs t)).
Proof.
  unfold denotes.
  change (bytes_eqb (B "JSONWriteTimeProp") (B "JSONWriteItemProp")) with false.
  change (bytes_eqb (B "JSONWriteTimeProp") (B "JSONWriteItemCollectionProp")) with false.
  change (bytes_eqb (B "JSONWriteTimeProp") (B "JSONWriteNaturalLanguageProp")) with false.
  change (bytes_eqb (B "JSONWriteTimeProp") (B "JSONWriteProp")) with false.
  change (bytes_eqb (B "JSONWriteTimeProp") (B "JSONWriteTimeProp")) with true. cbv iota.
  intros [t [Ev [Tw Ej]]]. exists t. split; [exact Ev|]. split; [exact Tw|]. split; [exact Ej|]. apply w_time_rfc3339. exact Tw.
Qed.

Lemma denotes_duration via v j : denotes (B "JSONWriteDurationProp") via v j ->
  exists d s, v = Some (FDur d) /\ fmt_xsd_duration d = Some s /\ j = VStr s /\ Xsd_duration s.
Proof.
  unfold denotes.
  change (bytes_eqb (B "JSONWriteDurationProp") (B "JSONWriteItemProp")) with false.
  change (bytes_eqb (B "JSONWriteDurationProp") (B "JSONWriteItemCollectionProp")) with false.
  change (bytes_eqb (B "JSONWriteDurationProp") (B "JSONWriteNaturalLanguageProp")) with false.
  change (bytes_eqb (B "JSONWriteDurationProp") (B "JSONWriteProp")) with false.
  change (bytes_eqb (B "JSONWriteDurationProp") (B "JSONWriteTimeProp")) with false.
  change (bytes_eqb (B "JSONWriteDurationProp") (B "JSONWriteDurationProp")) with true. cbv iota.
  intros [d [s [Ev [Ef Ej]]]]. exists d, s. split; [exact Ev|]. split; [exact Ef|]. split; [exact Ej|].
  destruct (fmt_xsd_is_duration d) as [b [Eb Hb]]. rewrite Ef in Eb. injection Eb as <-. exact Hb.
Qed.

(* the standards' view of one member: nothing is said about the other writers here (C02_members_denote does) *)
Definition leaf_standard (writer : bytes) (j : jv) : Prop :=
  (writer = B "JSONWriteTimeProp" -> exists s, j = VStr s /\ Rfc3339_date_time s) /\
  (writer = B "JSONWriteDurationProp" -> exists s, j = VStr s /\ Xsd_duration s).

Lemma denotes_leaf_standard writer via v j : denotes writer via v j -> leaf_standard writer j.
Proof.
  intros H. split; intros ->.
  - destruct (denotes_time via v j H) as [t [_ [_ [-> K]]]]. eexists. split; [reflexivity|exact K].
  - destruct (denotes_duration via v j H) as [d [s [_ [_ [-> K]]]]]. eexists. split; [reflexivity|exact K].
Qed.

Theorem struct_members_standards p k fs b :
  nums_in_range (IObj p k fs) = true -> enc (IObj p k fs) = Some b ->
  b = [] \/ exists ms es es', Jvalue b (VObj ms) /\ entries_of jw_tables k = Some es /\ subseq es' es /\
    Forall2 (fun kv e => In (fst kv) (names_of e) /\ leaf_standard (wf_writer e) (snd kv)) ms es'.
Proof.
  intros H1 H. destruct (struct_members_denote p k fs b H1 H) as [->|[ms [es [es' [Hj [_ [He [Hs F]]]]]]]]; [left; reflexivity|].
  right. exists ms, es, es'. split; [exact Hj|]. split; [exact He|]. split; [exact Hs|].
  clear - F. induction F as [|kv e ms es' [Hn Hd] _ IH]; constructor; [|exact IH].
  split; [exact Hn|]. eapply denotes_leaf_standard. exact Hd.
Qed.

(* the same for every table set that satisfies the decidable condition of the assembly theorem *)
Theorem struct_members_standards_generic T : grammar_tables_ok T = true -> forall p k fs b,
  nums_in_range (IObj p k fs) = true -> marshal_json T (IObj p k fs) = Some b ->
  b = [] \/ exists ms es es', Jvalue b (VObj ms) /\ flatten_w T 6 (marshal_table k) = Some es /\ subseq es' es /\
    Forall2 (fun kv e => In (fst kv) (names_of e) /\ leaf_standard (wf_writer e) (snd kv)) ms es'.
Proof.
  intros HT p k fs b H1 H.
  destruct (enc_obj_full T HT _ p k fs b (idom_intro _ H1) H)
    as [->|[f [kvs [es [es' [_ [Hj [Hu [F [S1 [Nm Pv]]]]]]]]]]]; [left; reflexivity|].
  right. exists kvs, es, es'. split; [exact Hj|]. split; [exact F|]. split; [exact S1|].
  pose proof (Forall2_names_prov _ _ kvs es' Nm Pv) as K.
  clear - K. induction K as [|kv e kvs es' [Hn [_ Hd]] Hr IH]; constructor; [|exact IH].
  split; [exact Hn|]. eapply denotes_leaf_standard. exact Hd.
Qed.

(* JSONWriteDurationProp answers for EVERY duration: the writer of the encoder model is total on durations *)
Theorem write_duration_total ei rt via term d :
  exists b, write_value ei rt (B "JSONWriteDurationProp") via term (Some (FDur d)) = Some (term, dquote :: b ++ [dquote], true) /\
            fmt_xsd_duration d = Some b /\ Xsd_duration b.
Proof.
  destruct (fmt_xsd_is_duration d) as [b [Eb Hb]]. exists b. split; [|split; assumption].
  unfold write_value.
  change (bytes_eqb (B "JSONWriteDurationProp") (B "JSONWriteItemProp")) with false.
  change (bytes_eqb (B "JSONWriteDurationProp") (B "JSONWriteItemCollectionProp")) with false.
  change (bytes_eqb (B "JSONWriteDurationProp") (B "JSONWriteNaturalLanguageProp")) with false.
  change (bytes_eqb (B "JSONWriteDurationProp") (B "JSONWriteProp")) with false.
  change (bytes_eqb (B "JSONWriteDurationProp") (B "JSONWriteTimeProp")) with false.
  change (bytes_eqb (B "JSONWriteDurationProp") (B "JSONWriteDurationProp")) with true. cbv iota. rewrite Eb. reflexivity.
Qed.

(* JSONWriteTimeProp answers for EVERY instant *)
Theorem write_time_total ei rt via term t :
  write_value ei rt (B "JSONWriteTimeProp") via term (Some (FTime t)) =
  Some (if time_writable t then (term, w_time t, true) else (term, [], false)).
Proof.
  unfold write_value.
  change (bytes_eqb (B "JSONWriteTimeProp") (B "JSONWriteItemProp")) with false.
  change (bytes_eqb (B "JSONWriteTimeProp") (B "JSONWriteItemCollectionProp")) with false.
  change (bytes_eqb (B "JSONWriteTimeProp") (B "JSONWriteNaturalLanguageProp")) with false.
  change (bytes_eqb (B "JSONWriteTimeProp") (B "JSONWriteProp")) with false.
  change (bytes_eqb (B "JSONWriteTimeProp") (B "JSONWriteTimeProp")) with true. cbv iota. destruct (time_writable t); reflexivity.
Qed.

(* non-vacuity of struct_members_standards: an object with two instants (one of them in the year 10000: left out), a
   sub-second duration whose seconds show a double rounding, and the most negative duration embedded *)
Definition leaf_example_value : item :=
  IObj true KObject
    [(F_ID, FStr (B "https://example.com/o")); (F_Type, FStr (B "Note"));
     (F_Published, FTime {| vsecs := 951782400; vnanos := 5; voff := 3600 |});
     (F_Updated, FTime {| vsecs := 253402300800; vnanos := 0; voff := 0 |});
     (F_Duration, FDur 1534577137);
     (F_Attachment, FItem (IObj true KObject [(F_Duration, FDur (-9223372036854775808))]))].
Example leaf_example :
  nums_in_range leaf_example_value = true /\
  enc leaf_example_value =
    Some (B "{""id"":""https://example.com/o"",""type"":""Note"",""attachment"":{""duration"":""-P106751DT23H47M16.854775808S""},""published"":""2000-02-29T00:00:00Z"",""duration"":""PT1.5345771369999999S""}").
Proof. split; vm_compute; reflexivity. Qed.
