(* The URL grammar model (Model/Url.v, Model/Bytes.v) is case-homomorphic: splitting, searching, classifying and
   path cleaning commute with ASCII lower-casing, because every delimiter is a non-letter and every alphabet
   of the grammar is closed under letter case.  Per-byte facts by sweep over all 256 bytes. *)
From AP.Model Require Import Prelude Bytes Url IriEq IriNf.
From AP.Proofs Require Import NlvP.

(* ================================================================ byte sweeps *)
Lemma all_bytes_in (b : byte) : In b all_bytes.
Proof.
  unfold all_bytes. apply in_map_iff. exists (Byte.to_N b). split.
  - unfold byte_of_N_total. rewrite Byte.of_to_N. reflexivity.
  - apply in_map_iff. exists (N.to_nat (Byte.to_N b)). split.
    + apply N2Nat.id.
    + apply in_seq. pose proof (Byte.to_N_bounded b). lia.
Qed.

Lemma sweep (P : byte -> bool) : forallb P all_bytes = true -> forall b, P b = true.
Proof. intros H b. rewrite forallb_forall in H. apply H. apply all_bytes_in. Qed.

Lemma beqb_eq (a b : byte) : Byte.eqb a b = true <-> a = b.
Proof. split; [apply Byte.byte_dec_bl | apply Byte.byte_dec_lb]. Qed.
Lemma beqb_refl (a : byte) : Byte.eqb a a = true.
Proof. apply beqb_eq. reflexivity. Qed.
Lemma beqb_sym (a b : byte) : Byte.eqb a b = Byte.eqb b a.
Proof.
  destruct (Byte.eqb a b) eqn:E.
  - apply beqb_eq in E. subst. symmetry. apply beqb_refl.
  - destruct (Byte.eqb b a) eqn:E'; [|reflexivity]. apply beqb_eq in E'. subst. rewrite beqb_refl in E. discriminate.
Qed.

(* a delimiter: not a letter.  Lower-casing fixes it and maps nothing else onto it *)
Lemma lower_byte_delim_all :
  forallb (fun c => forallb (fun b => implb (negb (is_alpha c)) (Bool.eqb (Byte.eqb (lower_byte b) c) (Byte.eqb b c))) all_bytes) all_bytes = true.
Proof. vm_compute. reflexivity. Qed.

Lemma lower_byte_delim c b : is_alpha c = false -> Byte.eqb (lower_byte b) c = Byte.eqb b c.
Proof.
  intros Hc. pose proof (sweep _ lower_byte_delim_all c) as H. cbv beta in H.
  rewrite forallb_forall in H. specialize (H b (all_bytes_in b)). rewrite Hc in H. simpl in H.
  apply eqb_prop in H. exact H.
Qed.

Lemma lower_byte_fixed c : is_alpha c = false -> lower_byte c = c.
Proof. intros Hc. apply beqb_eq. rewrite lower_byte_delim by exact Hc. apply beqb_refl. Qed.

Lemma lower_byte_idem b : lower_byte (lower_byte b) = lower_byte b.
Proof. apply beqb_eq. revert b. apply sweep. vm_compute. reflexivity. Qed.

(* the alphabets of the grammar are closed under letter case *)
Definition case_closed (P : byte -> bool) : Prop := forall b, P (lower_byte b) = P b.

Ltac closed_by_sweep :=
  intros b; apply eqb_prop; revert b; apply sweep; vm_compute; reflexivity.

Lemma is_alpha_closed : case_closed is_alpha.          Proof. closed_by_sweep. Qed.
Lemma is_digit_closed : case_closed is_digit.          Proof. closed_by_sweep. Qed.
Lemma is_unreserved_closed : case_closed is_unreserved. Proof. closed_by_sweep. Qed.
Lemma is_scheme_char_closed : case_closed is_scheme_char. Proof. closed_by_sweep. Qed.
Lemma is_host_char_closed : case_closed is_host_char.  Proof. closed_by_sweep. Qed.
Lemma is_path_char_closed : case_closed is_path_char.  Proof. closed_by_sweep. Qed.
Lemma is_query_char_closed : case_closed is_query_char. Proof. closed_by_sweep. Qed.
Lemma is_frag_char_closed : case_closed is_frag_char.  Proof. closed_by_sweep. Qed.
Lemma is_word_char_closed : case_closed (fun b => is_unreserved b || Byte.eqb b slash). Proof. closed_by_sweep. Qed.

Lemma forallb_lower P s : case_closed P -> forallb P (lower s) = forallb P s.
Proof. intros HP. induction s as [|x s IH]; simpl; [reflexivity|]. rewrite HP, IH. reflexivity. Qed.

(* ================================================================ lists *)
Lemma lower_app a b : lower (a ++ b) = lower a ++ lower b.
Proof. apply map_app. Qed.
Lemma lower_cons x s : lower (x :: s) = lower_byte x :: lower s.
Proof. reflexivity. Qed.
Lemma lower_length s : length (lower s) = length s.
Proof. apply map_length. Qed.
Lemma lower_idem s : lower (lower s) = lower s.
Proof. induction s as [|x s IH]; simpl; [reflexivity|]. rewrite lower_byte_idem. f_equal. exact IH. Qed.
Lemma lower_firstn n s : lower (firstn n s) = firstn n (lower s).
Proof. symmetry. apply firstn_map. Qed.
Lemma lower_skipn n s : lower (skipn n s) = skipn n (lower s).
Proof. symmetry. apply skipn_map. Qed.
Lemma lower_nil_iff s : lower s = [] <-> s = [].
Proof. destruct s; simpl; split; congruence. Qed.

(* a word made of delimiters only is fixed, and only itself lower-cases to it *)
Definition delims (t : bytes) : bool := forallb (fun c => negb (is_alpha c)) t.

Lemma lower_delims t : delims t = true -> lower t = t.
Proof.
  induction t as [|c t IH]; simpl; [reflexivity|]. rewrite andb_true_iff, negb_true_iff. intros [Hc Ht].
  rewrite lower_byte_fixed by exact Hc. f_equal. apply IH. exact Ht.
Qed.

Lemma bytes_eqb_lower_delims t : delims t = true -> forall s, bytes_eqb (lower s) t = bytes_eqb s t.
Proof.
  induction t as [|c t IH]; intros Ht [|x s]; simpl; try reflexivity.
  simpl in Ht. rewrite andb_true_iff, negb_true_iff in Ht. destruct Ht as [Hc Ht].
  rewrite lower_byte_delim by exact Hc. rewrite IH by exact Ht. reflexivity.
Qed.

Lemma is_prefix_lower t : delims t = true -> forall s, is_prefix t (lower s) = is_prefix t s.
Proof.
  induction t as [|c t IH]; intros Ht [|x s]; simpl; try reflexivity.
  simpl in Ht. rewrite andb_true_iff, negb_true_iff in Ht. destruct Ht as [Hc Ht].
  rewrite (beqb_sym c (lower_byte x)), lower_byte_delim, (beqb_sym x c) by exact Hc.
  rewrite IH by exact Ht. reflexivity.
Qed.

Lemma index_from_lower t : delims t = true -> forall s n, index_from n t (lower s) = index_from n t s.
Proof.
  intros Ht. induction s as [|x s IH]; intros n.
  - reflexivity.
  - change (lower (x :: s)) with (lower_byte x :: lower s).
    change (index_from n t (lower_byte x :: lower s))
      with (if is_prefix t (lower_byte x :: lower s) then Some n else index_from (S n) t (lower s)).
    change (index_from n t (x :: s)) with (if is_prefix t (x :: s) then Some n else index_from (S n) t s).
    change (lower_byte x :: lower s) with (lower (x :: s)). rewrite is_prefix_lower by exact Ht.
    rewrite IH. reflexivity.
Qed.

Lemma index_lower t s : delims t = true -> index t (lower s) = index t s.
Proof. intros Ht. apply index_from_lower. exact Ht. Qed.

Definition omap_b (f : bytes -> bytes) (o : option bytes) : option bytes :=
  match o with Some x => Some (f x) | None => None end.

Lemma cut_byte_lower c : is_alpha c = false -> forall s,
  cut_byte c (lower s) = (lower (fst (cut_byte c s)), omap_b lower (snd (cut_byte c s))).
Proof.
  intros Hc. induction s as [|x s IH]; [reflexivity|].
  simpl. rewrite lower_byte_delim by exact Hc. destruct (Byte.eqb x c); [reflexivity|].
  fold (lower s). rewrite IH. destruct (cut_byte c s) as [a b]. reflexivity.
Qed.

Lemma split_byte_nonnil c s : split_byte c s <> [].
Proof. induction s as [|x s IH]; simpl; [discriminate|]. destruct (split_byte c s); [discriminate|]. destruct (Byte.eqb x c); discriminate. Qed.

Lemma split_byte_lower c : is_alpha c = false -> forall s, split_byte c (lower s) = map lower (split_byte c s).
Proof.
  intros Hc. induction s as [|x s IH]; [reflexivity|].
  simpl. fold (lower s). rewrite IH, lower_byte_delim by exact Hc.
  destruct (split_byte c s) as [|seg segs]; [reflexivity|]. simpl. destruct (Byte.eqb x c); reflexivity.
Qed.

Lemma join_with_lower sep l : lower (join_with sep l) = join_with (lower sep) (map lower l).
Proof.
  induction l as [|x l IH]; [reflexivity|]. destruct l as [|y l]; [reflexivity|].
  change (join_with sep (x :: y :: l)) with (x ++ sep ++ join_with sep (y :: l)).
  change (map lower (x :: y :: l)) with (lower x :: map lower (y :: l)).
  change (join_with (lower sep) (lower x :: map lower (y :: l)))
    with (lower x ++ lower sep ++ join_with (lower sep) (map lower (y :: l))).
  rewrite !lower_app, IH. reflexivity.
Qed.

(* ================================================================ path/filepath.Clean *)
Lemma dot_delims : delims (B ".") = true.   Proof. reflexivity. Qed.
Lemma dotdot_delims : delims (B "..") = true. Proof. reflexivity. Qed.

Lemma clean_segs_lower rooted segs : forall stack,
  clean_segs (map lower stack) rooted (map lower segs) = map lower (clean_segs stack rooted segs).
Proof.
  induction segs as [|seg r IH]; intros stack.
  - simpl. rewrite map_rev. reflexivity.
  - change (map lower (seg :: r)) with (lower seg :: map lower r).
    destruct seg as [|c seg].
    + simpl. apply IH.
    + remember (c :: seg) as sg eqn:Hsg.
      assert (clean_segs (map lower stack) rooted (lower sg :: map lower r) =
              if bytes_eqb (lower sg) (B ".") then clean_segs (map lower stack) rooted (map lower r)
              else if bytes_eqb (lower sg) (B "..") then
                     match map lower stack with
                     | top :: stack' =>
                         if bytes_eqb top (B "..") then clean_segs (lower sg :: map lower stack) rooted (map lower r)
                         else clean_segs stack' rooted (map lower r)
                     | [] => if rooted then clean_segs [] rooted (map lower r) else clean_segs [lower sg] rooted (map lower r)
                     end
                   else clean_segs (lower sg :: map lower stack) rooted (map lower r)) as ->.
      { subst sg. reflexivity. }
      assert (clean_segs stack rooted (@cons bytes sg r) =
              if bytes_eqb sg (B ".") then clean_segs stack rooted r
              else if bytes_eqb sg (B "..") then
                     match stack with
                     | top :: stack' =>
                         if bytes_eqb top (B "..") then clean_segs (sg :: stack) rooted r
                         else clean_segs stack' rooted r
                     | [] => if rooted then clean_segs [] rooted r else clean_segs [sg] rooted r
                     end
                   else clean_segs (sg :: stack) rooted r) as ->.
      { subst sg. reflexivity. }
      rewrite !bytes_eqb_lower_delims by reflexivity.
      destruct (bytes_eqb sg (B ".")); [apply IH|].
      destruct (bytes_eqb sg (B "..")).
      * destruct stack as [|top stack']; simpl map; cbv iota.
        -- destruct rooted; [apply (IH [])|apply (IH [sg])].
        -- rewrite bytes_eqb_lower_delims by reflexivity.
           destruct (bytes_eqb top (B "..")); [apply (IH (sg :: top :: stack'))|apply IH].
      * apply (IH (sg :: stack)).
Qed.

Lemma slash_delim : is_alpha slash = false. Proof. reflexivity. Qed.

Lemma path_clean_lower p : path_clean (lower p) = lower (path_clean p).
Proof.
  destruct p as [|c p]; [reflexivity|].
  unfold path_clean. change (lower (c :: p)) with (lower_byte c :: lower p).
  cbv iota beta. rewrite lower_byte_delim by reflexivity.
  change (lower_byte c :: lower p) with (lower (c :: p)).
  rewrite split_byte_lower by reflexivity.
  pose proof (clean_segs_lower (Byte.eqb c slash) (split_byte slash (c :: p)) []) as Hcs.
  change (map lower []) with (@nil bytes) in Hcs. rewrite Hcs. clear Hcs.
  destruct (Byte.eqb c slash).
  - rewrite lower_cons, join_with_lower. reflexivity.
  - destruct (clean_segs [] false (split_byte slash (c :: p))) as [|s1 sr] eqn:E; [reflexivity|].
    rewrite join_with_lower. reflexivity.
Qed.

Lemma clean_url_path_lower p :
  clean_url_path path_clean (lower p) = lower (clean_url_path path_clean p).
Proof.
  unfold clean_url_path. destruct p as [|c p]; [reflexivity|].
  change (lower (c :: p)) with (lower_byte c :: lower p). cbv iota.
  change (lower_byte c :: lower p) with (lower (c :: p)). apply path_clean_lower.
Qed.

(* paths that differ in letter case only have cleaned forms that differ in letter case only *)
Lemma clean_url_path_fold p1 p2 :
  lower p1 = lower p2 ->
  lower (clean_url_path path_clean p1) = lower (clean_url_path path_clean p2).
Proof. intros H. rewrite <- !clean_url_path_lower, H. reflexivity. Qed.

(* ================================================================ url.Parse on the grammar *)
Definition lower_url (u : url) : url :=
  {| u_scheme := lower (u_scheme u); u_host := lower (u_host u); u_path := lower (u_path u);
     u_query := lower (u_query u); u_frag := lower (u_frag u) |}.
Definition lower_class (c : url_class) : url_class :=
  match c with UValid u => UValid (lower_url u) | UFallback => UFallback | UUnmodelled => UUnmodelled end.

Lemma host_ok_lower h : host_ok (lower h) = host_ok h.
Proof.
  unfold host_ok. rewrite cut_byte_lower by reflexivity.
  destruct (cut_byte colon h) as [name port]. simpl fst. simpl snd.
  rewrite (forallb_lower _ name is_host_char_closed).
  destruct port as [p|]; simpl; [|reflexivity].
  rewrite (forallb_lower _ p is_digit_closed). reflexivity.
Qed.

Theorem url_classify_lower s : url_classify (lower s) = lower_class (url_classify s).
Proof.
  destruct s as [|c0 s]; [reflexivity|].
  unfold url_classify. change (lower (c0 :: s)) with (lower_byte c0 :: lower s). cbv iota beta.
  change (lower_byte c0 :: lower s) with (lower (c0 :: s)).
  rewrite (cut_byte_lower hash) by reflexivity.
  destruct (cut_byte hash (c0 :: s)) as [nofrag frag]. simpl fst. simpl snd.
  rewrite (cut_byte_lower qmark) by reflexivity.
  destruct (cut_byte qmark nofrag) as [noquery query]. simpl fst. simpl snd.
  rewrite index_lower by reflexivity.
  destruct (index (B "://") noquery) as [n|].
  - rewrite <- lower_skipn, <- lower_firstn. rewrite (cut_byte_lower slash) by reflexivity.
    destruct (cut_byte slash (skipn (n + 3) noquery)) as [hostport pathrest]. simpl fst. simpl snd.
    rewrite is_alpha_closed, (forallb_lower _ _ is_scheme_char_closed), host_ok_lower.
    assert (forallb is_path_char (match omap_b lower pathrest with None => [] | Some p => slash :: p end)
            = forallb is_path_char (match pathrest with None => [] | Some p => slash :: p end)) as ->.
    { destruct pathrest as [p|]; [|reflexivity]. simpl. rewrite (forallb_lower _ p is_path_char_closed). reflexivity. }
    assert (forallb is_query_char (match omap_b lower query with Some q => q | None => [] end)
            = forallb is_query_char (match query with Some q => q | None => [] end)) as ->.
    { destruct query as [q|]; [|reflexivity]. simpl. apply forallb_lower. exact is_query_char_closed. }
    assert (forallb is_frag_char (match omap_b lower frag with Some f => f | None => [] end)
            = forallb is_frag_char (match frag with Some f => f | None => [] end)) as ->.
    { destruct frag as [f|]; [|reflexivity]. simpl. apply forallb_lower. exact is_frag_char_closed. }
    match goal with |- (if ?c then _ else _) = _ => destruct c end; [|reflexivity].
    destruct hostport as [|h0 hp]; [reflexivity|].
    simpl lower. cbv iota. unfold lower_class, lower_url. simpl.
    f_equal. f_equal.
    + destruct pathrest; reflexivity.
    + destruct query; reflexivity.
    + destruct frag; reflexivity.
  - rewrite (forallb_lower _ (c0 :: s) is_word_char_closed).
    destruct (forallb _ (c0 :: s)); reflexivity.
Qed.

(* ================================================================ URL.Query on the grammar *)
Lemma query_pairs_lower q : query_pairs (lower q) = map (fun kv => (lower (fst kv), lower (snd kv))) (query_pairs q).
Proof.
  unfold query_pairs. rewrite split_byte_lower by reflexivity.
  induction (split_byte amp q) as [|piece r IH]; [reflexivity|].
  simpl. rewrite IH. rewrite map_app. f_equal.
  destruct piece as [|c piece]; [reflexivity|].
  change (lower (c :: piece)) with (lower_byte c :: lower piece). cbv iota.
  change (lower_byte c :: lower piece) with (lower (c :: piece)).
  rewrite (cut_byte_lower eqsign) by reflexivity.
  destruct (cut_byte eqsign (c :: piece)) as [k v]. simpl. destruct v; reflexivity.
Qed.

(* ================================================================ one-case strings *)
Lemma no_upper_spec s : no_upper s = true <-> lower s = s.
Proof.
  unfold no_upper. induction s as [|x s IH]; simpl; [tauto|].
  rewrite andb_true_iff, beqb_eq, IH. split; [intros [-> ->]; reflexivity|intros H; inversion H; split; congruence].
Qed.

Lemma no_upper_inj q q' : no_upper q = true -> no_upper q' = true -> lower q = lower q' -> q = q'.
Proof. rewrite !no_upper_spec. congruence. Qed.

Lemma upper_lower_roundtrip b : Byte.eqb (upper_byte b) b = true -> upper_byte (lower_byte b) = b.
Proof.
  intros H. apply beqb_eq.
  assert (forall b, implb (Byte.eqb (upper_byte b) b) (Byte.eqb (upper_byte (lower_byte b)) b) = true) as S
    by (apply sweep; vm_compute; reflexivity).
  specialize (S b). rewrite H in S. exact S.
Qed.

Lemma no_lower_inj q : forall q', no_lower q = true -> no_lower q' = true -> lower q = lower q' -> q = q'.
Proof.
  unfold no_lower. induction q as [|x q IH]; intros [|y q']; simpl; try congruence.
  rewrite !andb_true_iff. intros [Hx Hq] [Hy Hq'] H. inversion H as [[H1 H2]].
  f_equal; [|apply IH; assumption].
  rewrite <- (upper_lower_roundtrip x Hx), <- (upper_lower_roundtrip y Hy), H1. reflexivity.
Qed.
