(* What the length test of sameCollectionName (typer.go) buys.  A string decodes to at most as many runes as it has
   bytes, and to exactly as many only when every rune took ONE byte: an ASCII byte, or an invalid byte (U+FFFD).
   strings.EqualFold needs equally many runes on both sides; so against an ASCII name, "same length in bytes and
   EqualFold" leaves the ASCII case variants of the name and nothing else - a rune outside ASCII that folds onto an
   ASCII letter (U+212A, U+017F) takes more than one byte, and U+FFFD folds onto itself only.
   Model/CollIriU.name_eqb against an ASCII name IS Prelude.fold_eqb (name_eqb_ascii). *)
From AP.Model Require Import Prelude Bytes Url IriEq IriNf Vocab Pred CollIri Utf8 FoldTab Fold UrlU IriEqU CollIriU.
From AP.Proofs Require Import NlvP LowerP Utf8P FoldP UrlUP.

Definition byte_rune (b : byte) : N := if is_asciib b then byteN b else rune_error.

(* Go's decoding (every invalid byte is U+FFFD): the instances of the generic lemmas of Utf8P.v *)
Lemma runes_cons p0 r : runes (p0 :: r) =
  match lead_of p0 with
  | LAscii => byteN p0 :: runes r
  | LBad => rune_error :: runes r
  | L2 => match r with
          | b1 :: r1 => if is_cont b1 then rune2 p0 b1 :: runes r1 else rune_error :: runes r
          | _ => rune_error :: runes r
          end
  | L3 lo hi => match r with
          | b1 :: b2 :: r2 => if is_cont b1 && in_rng lo hi b1 && is_cont b2 then rune3 p0 b1 b2 :: runes r2 else rune_error :: runes r
          | _ => rune_error :: runes r
          end
  | L4 lo hi => match r with
          | b1 :: b2 :: b3 :: r3 => if is_cont b1 && in_rng lo hi b1 && is_cont b2 && is_cont b3
                                    then rune4 p0 b1 b2 b3 :: runes r3 else rune_error :: runes r
          | _ => rune_error :: runes r
          end
  end.
Proof. reflexivity. Qed.
Lemma runes_ascii s : forallb is_asciib s = true -> runes s = map byteN s.
Proof. apply (Utf8P.runes_ascii lax_err). Qed.

Lemma runes_length_n n : forall s, length s <= n ->
  length (runes s) <= length s /\ (length (runes s) = length s -> runes s = map byte_rune s).
Proof.
  induction n as [|n IH]; intros s Hl.
  - destruct s; [split; [simpl; lia|reflexivity]|simpl in Hl; lia].
  - destruct s as [|p0 r]; [split; [simpl; lia|reflexivity]|]. simpl in Hl.
    assert (Step : forall z, length z <= length r ->
              length (rune_error :: runes z) <= S (length z) /\
              (is_asciib p0 = false -> length (rune_error :: runes z) = S (length z) -> rune_error :: runes z = byte_rune p0 :: map byte_rune z)).
    { intros z Hz. destruct (IH z ltac:(lia)) as [L E]. split; [simpl; lia|]. intros A Q. simpl in Q.
      unfold byte_rune at 1. rewrite A. f_equal. apply E. lia. }
    assert (Strict : forall (x : N) z k, length z + k <= length r -> 1 <= k ->
              length (x :: runes z) <= S (k + length z) /\
              (length (x :: runes z) = S (k + length z) -> x :: runes z = byte_rune p0 :: map byte_rune (firstn 0 z))).
    { intros x z k Hz Hk. destruct (IH z ltac:(lia)) as [L _]. split; [simpl; lia|]. simpl. intros Q. lia. }
    rewrite runes_cons. destruct (lead_of p0) as [| | |lo hi|lo hi] eqn:Ld.
    + destruct (IH r ltac:(lia)) as [L E]. split; [simpl; lia|]. intros Q. simpl in Q. cbn [map].
      unfold byte_rune at 1. rewrite (lead_ascii_inv p0 Ld). f_equal. apply E. lia.
    + assert (A : is_asciib p0 = false) by (apply lead_multi_nonascii; rewrite Ld; reflexivity).
      destruct (Step r (Nat.le_refl _)) as [L E]. split; [exact L|]. intros Q. exact (E A Q).
    + assert (A : is_asciib p0 = false) by (apply lead_multi_nonascii; rewrite Ld; reflexivity).
      destruct r as [|b1 r1]; [destruct (Step [] (Nat.le_refl _)) as [L E]; split; [exact L|intros Q; exact (E A Q)]|].
      destruct (is_cont b1).
      * destruct (IH r1 ltac:(simpl in Hl; lia)) as [L _]. split; [simpl; lia|]. simpl. intros Q. lia.
      * destruct (Step (b1 :: r1) (Nat.le_refl _)) as [L E]. split; [exact L|intros Q; exact (E A Q)].
    + assert (A : is_asciib p0 = false) by (apply lead_multi_nonascii; rewrite Ld; reflexivity).
      destruct r as [|b1 [|b2 r2]];
        try (match goal with |- context [runes ?z] => destruct (Step z (Nat.le_refl _)) as [L E] end; split; [exact L|intros Q; exact (E A Q)]).
      destruct (is_cont b1 && in_rng lo hi b1 && is_cont b2).
      * destruct (IH r2 ltac:(simpl in Hl; lia)) as [L _]. split; [simpl; lia|]. simpl. intros Q. lia.
      * destruct (Step (b1 :: b2 :: r2) (Nat.le_refl _)) as [L E]. split; [exact L|intros Q; exact (E A Q)].
    + assert (A : is_asciib p0 = false) by (apply lead_multi_nonascii; rewrite Ld; reflexivity).
      destruct r as [|b1 [|b2 [|b3 r3]]];
        try (match goal with |- context [runes ?z] => destruct (Step z (Nat.le_refl _)) as [L E] end; split; [exact L|intros Q; exact (E A Q)]).
      destruct (is_cont b1 && in_rng lo hi b1 && is_cont b2 && is_cont b3).
      * destruct (IH r3 ltac:(simpl in Hl; lia)) as [L _]. split; [simpl; lia|]. simpl. intros Q. lia.
      * destruct (Step (b1 :: b2 :: b3 :: r3) (Nat.le_refl _)) as [L E]. split; [exact L|intros Q; exact (E A Q)].
Qed.

Lemma runes_length s : length (runes s) <= length s.
Proof. apply (runes_length_n (length s) s (Nat.le_refl _)). Qed.
Lemma runes_single_bytes s : length (runes s) = length s -> runes s = map byte_rune s.
Proof. apply (runes_length_n (length s) s (Nat.le_refl _)). Qed.

Lemma canon_rune_error : canon rune_error = rune_error.
Proof. vm_compute. reflexivity. Qed.

(* the length test: EqualFold with an ASCII string of the same length in bytes is ASCII case-insensitivity *)
Lemma same_length_fold_ascii a n : forallb is_asciib n = true -> length a = length n -> ucanon a = ucanon n ->
  forallb is_asciib a = true /\ lower a = lower n.
Proof.
  intros An Hl E.
  assert (R : runes a = map byte_rune a).
  { apply runes_single_bytes. apply (f_equal (@length N)) in E. unfold ucanon, ucanon_with in E.
    rewrite !map_length, (runes_ascii n An), map_length in E. lia. }
  assert (Aa : forallb is_asciib a = true).
  { unfold ucanon, ucanon_with in E. rewrite R, (runes_ascii n An), !map_map in E.
    clear R. revert n An Hl E. induction a as [|x a IH]; intros [|y n] An Hl E; try discriminate; [reflexivity|].
    simpl in An. apply andb_true_iff in An. destruct An as [Ay An]. simpl in E. injection E as E1 E2.
    simpl. rewrite (IH n An ltac:(simpl in Hl; lia) E2), andb_true_r.
    destruct (is_asciib x) eqn:Ax; [reflexivity|]. exfalso. unfold byte_rune in E1. rewrite Ax in E1.
    change (canon_with fold_tab rune_error) with (canon rune_error) in E1. rewrite canon_rune_error in E1.
    rewrite (canon_ascii fold_tab) in E1 by (apply N.ltb_lt; exact Ay).
    pose proof (ascii_canon_lt (byteN y) ltac:(apply N.ltb_lt; exact Ay)) as L. rewrite <- E1 in L. vm_compute in L. discriminate. }
  split; [exact Aa|]. apply (ucanon_ascii_lower a n Aa An). exact E.
Qed.

Lemma lower_length s : length (lower s) = length s.
Proof. apply map_length. Qed.

Lemma lower_nonascii_all : forallb (fun b => implb (negb (is_asciib b)) (negb (is_asciib (lower_byte b)))) all_bytes = true.
Proof. vm_compute. reflexivity. Qed.

Lemma lower_eq_ascii a : forall n, forallb is_asciib n = true -> lower a = lower n -> forallb is_asciib a = true.
Proof.
  induction a as [|x a IH]; intros [|y n] An E; try discriminate; [reflexivity|].
  simpl in An. apply andb_true_iff in An. destruct An as [Ay An]. simpl in E. injection E as E1 E2.
  simpl. rewrite (IH n An E2), andb_true_r. destruct (is_asciib x) eqn:Ax; [reflexivity|]. exfalso.
  pose proof (sweep _ lower_nonascii_all x) as S. cbv beta in S. rewrite Ax in S. simpl in S.
  rewrite E1 in S. pose proof (sweep _ UrlUP.lower_byte_ascii_all y) as T. cbv beta in T. rewrite Ay in T. simpl in T.
  rewrite T in S. discriminate.
Qed.

Theorem name_eqb_ascii a n : forallb is_asciib n = true -> name_eqb a n = fold_eqb a n.
Proof.
  intros An. unfold name_eqb. destruct (fold_eqb a n) eqn:F.
  - unfold fold_eqb in F. apply bytes_eqb_eq in F.
    pose proof (lower_eq_ascii a n An F) as Aa. rewrite (ufold_eqb_ascii a n Aa An).
    assert (length a = length n) as -> by (rewrite <- (lower_length a), F, lower_length; reflexivity).
    rewrite Nat.eqb_refl. unfold fold_eqb. rewrite F. apply bytes_eqb_refl.
  - destruct (Nat.eqb (length a) (length n)) eqn:L; [|reflexivity]. apply Nat.eqb_eq in L. cbn [andb].
    destruct (ufold_eqb a n) eqn:U; [|reflexivity]. apply ufold_eqb_eq in U.
    destruct (same_length_fold_ascii a n An L U) as [_ E]. unfold fold_eqb in F. rewrite E, bytes_eqb_refl in F. discriminate.
Qed.

Lemma name_eqb_refl a : name_eqb a a = true.
Proof. unfold name_eqb. rewrite Nat.eqb_refl, ufold_eqb_refl. reflexivity. Qed.

(* against names that are ASCII, the repaired Contains is the ASCII one of Model/CollIri.v *)
Theorem contains_u_ascii names c : forallb (forallb is_asciib) names = true -> contains_u names c = contains names c.
Proof.
  intros H. unfold contains_u, contains_with, contains. induction names as [|n l IH]; [reflexivity|].
  simpl in H. apply andb_true_iff in H. destruct H as [Hn Hl]. simpl. rewrite (name_eqb_ascii c n Hn), (IH Hl). reflexivity.
Qed.
