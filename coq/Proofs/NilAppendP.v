(* Append of a nil-like item (property C20, the rows "Append(nil-like)" of the matrix): what the regenerated body of
   (ptr ItemCollection).Append (Gen/CollT.v, property C13's tables) does with an item for which IsNil holds. *)
From AP.Model Require Import Prelude Vocab Pred Equal Coll GoBody CollTab.
From AP.Proofs Require Import EqualP GoBodyP CollTabP.
From AP.Model Require ItemsEqTab.

(* ItemsEqual(member, n) for a nil n: true exactly for the members that are nil themselves *)
Lemma items_eqb_nil x n : is_nil n = true -> items_eqb x n = is_nil x.
Proof.
  intro Hn. unfold items_eqb. destruct (is_nil x) eqn:Hx.
  - rewrite (proj1 (ieq_nil x n Hx) Hn). reflexivity.
  - rewrite (proj2 (proj2 (ieq_nil n x Hn) Hx)). reflexivity.
Qed.

Lemma ic_contains_nil l n : is_nil n = true -> ic_contains l n = existsb is_nil l.
Proof.
  intro Hn. unfold ic_contains, g_contains. induction l as [|x r IH]; [reflexivity|].
  simpl. rewrite (items_eqb_nil x n Hn), IH. reflexivity.
Qed.

(* the list afterwards *)
Definition append_nil_like (lo : option (list item)) (n : item) : option (list item) :=
  if existsb is_nil (lst lo) then lo else Some (lst lo ++ [n]).

Lemma ic_append_o_nil lo n : is_nil n = true -> ic_append_o lo [n] = append_nil_like lo n.
Proof. intro Hn. unfold ic_append_o, append_nil_like. cbn [fold_left]. rewrite (ic_contains_nil (lst lo) n Hn). reflexivity. Qed.

(* for every body table and every ItemsEqual-helper table satisfying C13's conditions: Append(n) of an item for which
   IsNil holds returns the nil error and makes n a MEMBER - the typed nil pointer as it is - unless the list already
   holds a member for which IsNil holds, in which case nothing changes *)
Theorem append_nil_like_tie : forall tbl, coll_table_ok tbl = true -> forall ietbl, ic_callees_ok ietbl = true ->
  forall lo n, is_nil n = true ->
    run_named (coll_env_t ietbl) tbl n_ic_append (Some (pic lo)) [vitems (Some [n])]
    = Ok ([GvNil], Some (pic (append_nil_like lo n))).
Proof.
  intros tbl Ht ietbl Hc lo n Hn.
  rewrite (ic_append_both tbl Ht ietbl Hc lo (Some [n])). cbn [lst]. rewrite (ic_append_o_nil lo n Hn). reflexivity.
Qed.

Lemma append_nil_like_examples :
  append_nil_like (Some [IIri false (B "https://example.com/a")]) (ITNil KObject)
    = Some [IIri false (B "https://example.com/a"); ITNil KObject] /\
  append_nil_like (Some [IIri false (B "https://example.com/a"); INil]) (ITNil KObject)
    = Some [IIri false (B "https://example.com/a"); INil] /\
  append_nil_like None INil = Some [INil] /\
  append_nil_like (Some [IIri false (B "-")]) (ITNil KActor) = Some [IIri false (B "-")].
Proof. vm_compute. repeat split; reflexivity. Qed.
