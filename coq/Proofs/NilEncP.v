(* C20, embedded part, JSON encoder: over the interpreter of Model/JsonEnc.v, for EVERY write table that
   satisfies nil_transparent (Model/NilEmbed.v), a nil-like item nested at any depth is written exactly as an
   unset property / as the untyped nil: erasing it does not change the bytes.  Also: the fuel of enc_item does
   not matter once it exceeds the size of the value. *)
From AP.Model Require Import Prelude Bytes Vocab Pred Json JsonLeaf JsonTables Dispatch JsonEnc NilMatrix NilEmbed.
From AP.Proofs Require Import NlvP RecipP.

(* ------------------------------------------------------------------ generalities *)
Lemma eval_guards_true_all fs b gs :
  eval_guards fs b gs = Some true -> forall g, In g gs -> eval_guard fs b g = Some true.
Proof.
  induction gs as [|g0 r IH]; intros H g Hg; [contradiction|].
  cbn [eval_guards] in H. destruct (eval_guard fs b g0) as [[|]|] eqn:E; try discriminate.
  destruct Hg as [<-|Hg]; [exact E|apply IH; assumption].
Qed.

Lemma find_some_in {A} (p : A -> bool) l x : find p l = Some x -> In x l.
Proof. intro H. apply find_some in H. tauto. Qed.

Lemma orel_some RI v v' : vrel RI v v' -> orel RI (Some v) (Some v').
Proof. intro H. unfold orel. destruct v; exact H. Qed.

Section Sim.
  Variable tbls : list (bytes * bool * list wstmt).
  Hypothesis Htbl : nil_transparent tbls = true.
  Variable RI : item -> item -> Prop.
  Hypothesis RI_nil_l : forall i i', RI i i' -> i = INil -> i' = INil.
  Hypothesis RI_nil_r : forall i i', RI i i' -> i' = INil -> nil_like i = true.

  (* the six ways two looked-up values can be related *)
  Lemma orel_inv o o' : orel RI o o' ->
    (o = None /\ o' = None) \/
    (exists i, o = Some (FItem i) /\ o' = None /\ nil_like i = true) \/
    (exists i i', o = Some (FItem i) /\ o' = Some (FItem i') /\ RI i i') \/
    (exists l l', o = Some (FItems l) /\ o' = Some (FItems l') /\ RI (IItems false l) (IItems false l') /\ lrel RI l l') \/
    (exists e e', o = Some (FEndpoints (Some e)) /\ o' = Some (FEndpoints (Some e')) /\
                  forall f, irel RI (getf f (endpoints_fields e)) (getf f (endpoints_fields e'))) \/
    (exists v, o = Some v /\ o' = Some v /\ is_leaf v).
  Proof.
    destruct o as [v|], o' as [v'|]; cbn [orel].
    - intro H.
      destruct v as [i|l|n|s|t|d|u|z|b|m|mt c|e|a1 a2 a3]; try (destruct e as [e|]);
        destruct v' as [i'|l'|n'|s'|t'|d'|u'|z'|b'|m'|mt' c'|e'|a1' a2' a3']; try (destruct e' as [e'|]);
        cbn [vrel] in H;
        try (destruct H as [Hl He]; first [contradiction Hl | (inversion He; subst; do 5 right; eexists; repeat split; exact Hl)]).
      + do 2 right. left. eauto.
      + destruct H as [H1 H2]. do 3 right. left. eauto 8.
      + do 4 right. left. eauto 8.
    - intro H. destruct v; try contradiction. right. left. eauto.
    - contradiction.
    - intros _. left. auto.
  Qed.

  (* ---- guards ---- *)
  Lemma g_ne_nil_rel o o' : orel RI o o' ->
    g_ne_nil o = g_ne_nil o' \/
    (g_ne_nil o = true /\ g_ne_nil o' = false /\ exists k, o = Some (FItem (ITNil k))).
  Proof.
    intro H. destruct (orel_inv o o' H) as [[-> ->]|[[i [-> [-> Hn]]]|[[i [i' [-> [-> Hr]]]]|[[l [l' [-> [-> [_ Hl]]]]]|[[e [e' [-> [-> _]]]]|[v [-> [-> _]]]]]]]].
    - left. reflexivity.
    - destruct i; try discriminate; [left; reflexivity|right; repeat split; eauto].
    - destruct i.
      + rewrite (RI_nil_l _ _ Hr eq_refl). left. reflexivity.
      + destruct i'; try (left; reflexivity). right. repeat split; eauto.
      + destruct i'; try (left; reflexivity). pose proof (RI_nil_r _ _ Hr eq_refl). discriminate.
      + destruct i'; try (left; reflexivity). pose proof (RI_nil_r _ _ Hr eq_refl). discriminate.
      + destruct i'; try (left; reflexivity). pose proof (RI_nil_r _ _ Hr eq_refl). discriminate.
      + destruct i'; try (left; reflexivity). pose proof (RI_nil_r _ _ Hr eq_refl). discriminate.
    - left. destruct l, l'; cbn [lrel] in Hl; try contradiction; reflexivity.
    - left. reflexivity.
    - left. reflexivity.
  Qed.

  Lemma g_len_gt0_rel o o' : orel RI o o' -> g_len_gt0 o = g_len_gt0 o'.
  Proof.
    intro H. destruct (orel_inv o o' H) as [[-> ->]|[[i [-> [-> Hn]]]|[[i [i' [-> [-> Hr]]]]|[[l [l' [-> [-> [_ Hl]]]]]|[[e [e' [-> [-> _]]]]|[v [-> [-> _]]]]]]]];
      try reflexivity.
    destruct l as [a|], l' as [b|]; cbn [lrel] in Hl; try contradiction; try reflexivity.
    destruct Hl; reflexivity.
  Qed.

  Lemma g_not_zero_time_rel o o' : orel RI o o' -> g_not_zero_time o = g_not_zero_time o'.
  Proof.
    intro H. destruct (orel_inv o o' H) as [[-> ->]|[[i [-> [-> Hn]]]|[[i [i' [-> [-> Hr]]]]|[[l [l' [-> [-> [_ Hl]]]]]|[[e [e' [-> [-> _]]]]|[v [-> [-> _]]]]]]]];
      reflexivity.
  Qed.

  Lemma num_of_rel o o' : orel RI o o' -> num_of o = num_of o'.
  Proof.
    intro H. destruct (orel_inv o o' H) as [[-> ->]|[[i [-> [-> Hn]]]|[[i [i' [-> [-> Hr]]]]|[[l [l' [-> [-> [_ Hl]]]]]|[[e [e' [-> [-> _]]]]|[v [-> [-> _]]]]]]]];
      reflexivity.
  Qed.

  Lemma pubkey_rel o o' : orel RI o o' -> pubkey_guard o = pubkey_guard o'.
  Proof.
    intro H. destruct (orel_inv o o' H) as [[-> ->]|[[i [-> [-> Hn]]]|[[i [i' [-> [-> Hr]]]]|[[l [l' [-> [-> [_ Hl]]]]]|[[e [e' [-> [-> _]]]]|[v [-> [-> _]]]]]]]];
      reflexivity.
  Qed.

  Lemma bool_rel o o' : orel RI o o' ->
    match o with Some (FBool true) => B "true" | _ => B "false" end =
    match o' with Some (FBool true) => B "true" | _ => B "false" end.
  Proof.
    intro H. destruct (orel_inv o o' H) as [[-> ->]|[[i [-> [-> Hn]]]|[[i [i' [-> [-> Hr]]]]|[[l [l' [-> [-> [_ Hl]]]]]|[[e [e' [-> [-> _]]]]|[v [-> [-> _]]]]]]]];
      reflexivity.
  Qed.

  Definition gap (fs : list (fid * fval)) (g : wguard) : Prop :=
    exists f k, g = GNeNil f /\ getf f fs = Some (FItem (ITNil k)).

  Lemma eval_guard_rel fs fs' b g : frel RI fs fs' ->
    eval_guard fs' b g = eval_guard fs b g \/
    (gap fs g /\ eval_guard fs b g = Some true /\ eval_guard fs' b g = Some false).
  Proof.
    intro H. destruct g as [f|f|f|f|f| |src]; cbn [eval_guard].
    - destruct (g_ne_nil_rel _ _ (H f)) as [E|[E1 [E2 [k Ek]]]].
      + left. rewrite E. reflexivity.
      + right. split; [exists f, k; auto|]. rewrite E1, E2. auto.
    - left. rewrite (g_len_gt0_rel _ _ (H f)). reflexivity.
    - left. rewrite (g_not_zero_time_rel _ _ (H f)). reflexivity.
    - left. rewrite (num_of_rel _ _ (H f)). reflexivity.
    - left. rewrite (num_of_rel _ _ (H f)). reflexivity.
    - left. reflexivity.
    - left. destruct (bytes_eqb src _); [|reflexivity]. rewrite (pubkey_rel _ _ (H F_PublicKey)). reflexivity.
  Qed.

  Lemma eval_guards_rel fs fs' b gs r : frel RI fs fs' ->
    eval_guards fs b gs = Some r ->
    eval_guards fs' b gs = Some r \/
    (r = true /\ eval_guards fs' b gs = Some false /\
     exists g, In g gs /\ gap fs g /\ eval_guard fs' b g = Some false).
  Proof.
    intro H. induction gs as [|g rest IH]; intro E; [left; exact E|].
    cbn [eval_guards] in *. destruct (eval_guard_rel fs fs' b g H) as [Eg|[Hgap [E1 E2]]].
    - rewrite Eg. destruct (eval_guard fs b g) as [[|]|]; try discriminate; [|left; exact E].
      destruct (IH E) as [IH1|[-> [IH2 [g' [Hin Hg']]]]]; [left; exact IH1|].
      right. split; [reflexivity|]. split; [exact IH2|]. exists g'. split; [right; exact Hin|exact Hg'].
    - rewrite E1 in E. rewrite E2. destruct r.
      + right. split; [reflexivity|]. split; [reflexivity|]. exists g. split; [left; reflexivity|]. split; assumption.
      + left. reflexivity.
  Qed.

  Section Enc.
    Variables E E' : item -> option bytes.
    Hypothesis HE : forall i i' b, RI i i' -> E i = Some b -> E' i' = Some b.
    Hypothesis HEnil : forall n b, nil_like n = true -> E n = Some b -> b = [].
    Variables R R' : bytes -> list (fid * fval) -> option (list bytes * bool).
    Hypothesis HR : forall name fs fs' r, frel RI fs fs' -> R name fs = Some r -> R' name fs' = Some r.

    (* the array writer over related lists *)
    Lemma coll_go_rel term l l' : Forall2 RI l l' -> forall acc res,
      (fix go (l : list item) (acc : list bytes) : option (bytes * bytes * bool) :=
         match l with
         | [] => Some (term, x5b :: join_with comma (rev acc) ++ [x5d], true)
         | i :: r => match E i with Some [] => go r acc | Some b => go r (b :: acc) | None => None end
         end) l acc = Some res ->
      (fix go (l : list item) (acc : list bytes) : option (bytes * bytes * bool) :=
         match l with
         | [] => Some (term, x5b :: join_with comma (rev acc) ++ [x5d], true)
         | i :: r => match E' i with Some [] => go r acc | Some b => go r (b :: acc) | None => None end
         end) l' acc = Some res.
    Proof.
      induction 1 as [|x y l l' Hxy Hl IH]; intros acc res H; [exact H|].
      destruct (E x) as [b|] eqn:Ex; [|discriminate]. rewrite (HE _ _ _ Hxy Ex).
      destruct b; apply IH; exact H.
    Qed.

    Lemma frel_endpoints e e' :
      (forall f, irel RI (getf f (endpoints_fields e)) (getf f (endpoints_fields e'))) ->
      frel RI (endpoints_fields e) (endpoints_fields e').
    Proof.
      intros H f. specialize (H f). unfold irel, orel in *.
      destruct (getf f (endpoints_fields e)) as [[]|], (getf f (endpoints_fields e')) as [[]|]; try contradiction; exact H.
    Qed.

    Lemma frel_leaves fs : Forall (fun fv => is_leaf (snd fv)) fs -> frel RI fs fs.
    Proof.
      intros H f. induction H as [|[g v] r Hv Hr IH]; cbn [getf]; [exact I|].
      destruct (fid_beq f g); [|exact IH]. cbn [orel snd] in *.
      destruct v; try contradiction; try (split; [exact I|reflexivity]).
      destruct e; [contradiction|split; [exact I|reflexivity]].
    Qed.

    Lemma pubkey_leaves a b c : Forall (fun fv => is_leaf (snd fv)) (pubkey_fields a b c).
    Proof. unfold pubkey_fields. destruct a, b, c; repeat constructor. Qed.
    Lemma source_leaves mt c : Forall (fun fv => is_leaf (snd fv)) (source_fields mt c).
    Proof. unfold source_fields. destruct mt, c; repeat constructor. Qed.

    Lemma write_value_rel writer via term o o' res : orel RI o o' ->
      write_value E R writer via term o = Some res -> write_value E' R' writer via term o' = Some res.
    Proof.
      intros H. unfold write_value.
      destruct (orel_inv o o' H) as [[-> ->]|[[i [-> [-> Hn]]]|[[i [i' [-> [-> Hr]]]]|[[l [l' [-> [-> [Hw Hl]]]]]|[[e [e' [-> [-> He]]]]|[v [-> [-> Hv]]]]]]]].
      - (* both unset *)
        repeat (match goal with |- context [if ?c then _ else _] => destruct c end); auto.
      - (* a nil-like item against nothing *)
        repeat (match goal with |- context [if ?c then _ else _] => destruct c end); auto; try discriminate.
        destruct (E i) as [b|] eqn:Ei; [|discriminate]. rewrite (HEnil i b Hn Ei). auto.
      - (* items *)
        repeat (match goal with |- context [if ?c then _ else _] => destruct c end); auto; try discriminate.
        destruct (E i) as [b|] eqn:Ei; [|discriminate]. rewrite (HE _ _ _ Hr Ei). auto.
      - (* lists *)
        repeat (match goal with |- context [if ?c then _ else _] => destruct c end); auto; try discriminate.
        + destruct (E (IItems false l)) as [b|] eqn:Ei; [|discriminate]. rewrite (HE _ _ _ Hw Ei). auto.
        + destruct l as [[|x a]|], l' as [[|y b]|]; cbn [lrel] in Hl; try contradiction; auto; try (inversion Hl; fail).
          intro Hgo. exact (coll_go_rel term _ _ Hl [] res Hgo).
      - (* Endpoints *)
        repeat (match goal with |- context [if ?c then _ else _] => destruct c end); auto; try discriminate.
        destruct (R (B "Endpoints_MarshalJSON") (endpoints_fields e)) as [r|] eqn:Er; [|discriminate].
        rewrite (HR _ _ _ _ (frel_endpoints e e' He) Er). auto.
      - (* the same leaf on both sides *)
        repeat (match goal with |- context [if ?c then _ else _] => destruct c end); auto; try discriminate;
          destruct v as [i|l|n|s|t|d|u|z|b|m|mt c|e|a1 a2 a3]; try contradiction; auto.
        all: try (destruct e; [contradiction|auto]).
        all: match goal with
             | |- match R ?n (source_fields ?a ?b) with _ => _ end = _ -> _ =>
                 destruct (R n (source_fields a b)) as [r|] eqn:Er; [|discriminate];
                 rewrite (HR _ _ _ _ (frel_leaves _ (source_leaves a b)) Er); auto
             | |- match R ?n (pubkey_fields ?a ?b ?c) with _ => _ end = _ -> _ =>
                 destruct (R n (pubkey_fields a b c)) as [r|] eqn:Er; [|discriminate];
                 rewrite (HR _ _ _ _ (frel_leaves _ (pubkey_leaves a b c)) Er); auto
             end.
    Qed.

    (* a typed nil pointer handed to a writer: only the item writer produces anything, namely nothing *)
    Lemma write_value_tnil writer via term k res :
      total_writer writer = false ->
      write_value E R writer via term (Some (FItem (ITNil k))) = Some res ->
      bytes_eqb writer (B "JSONWriteItemProp") = true /\ res = (term, [], false).
    Proof.
      intros Ht. unfold total_writer in Ht. apply orb_false_iff in Ht. destruct Ht as [Ht Hb].
      apply orb_false_iff in Ht. destruct Ht as [Hi Hf].
      unfold write_value. rewrite Hi, Hf, Hb.
      destruct (bytes_eqb writer (B "JSONWriteItemProp")).
      - destruct (E (ITNil k)) as [b|] eqn:Ek; [|discriminate].
        rewrite (HEnil (ITNil k) b eq_refl Ek). intro H. inversion H. auto.
      - repeat (match goal with |- context [if ?c then _ else _] => destruct c end); discriminate.
    Qed.

    Lemma path_get_rel path fs fs' : frel RI fs fs' -> orel RI (path_get path fs) (path_get path fs').
    Proof.
      intro H. destruct path as [|f [|g [|h r]]]; cbn [path_get]; try exact I; [apply H|].
      destruct (orel_inv _ _ (H f)) as [[-> ->]|[[i [-> [-> Hn]]]|[[i [i' [-> [-> Hr]]]]|[[l [l' [-> [-> [Hw Hl]]]]]|[[e [e' [-> [-> He]]]]|[v [-> [-> Hv]]]]]]]];
        try exact I.
      destruct v; try exact I.
      - exact (frel_leaves _ (source_leaves mt c) g).
      - exact (frel_leaves _ (pubkey_leaves id owner pem) g).
    Qed.

    Lemma filter_guard_in g gs :
      In g (filter (fun g => match g with GValNonEmpty => false | _ => true end) gs) -> In g gs.
    Proof. intro H. apply filter_In in H. tauto. Qed.

    Lemma enc_stmts_rel stmts : forallb stmt_nil_ok stmts = true ->
      forall fs fs' st r, frel RI fs fs' ->
      enc_stmts E R stmts fs st = Some r -> enc_stmts E' R' stmts fs' st = Some r.
    Proof.
      induction stmts as [|s rest IH]; intros Hok fs fs' st r Hf H; [exact H|].
      cbn [forallb] in Hok. apply andb_true_iff in Hok. destruct Hok as [Hs Hrest].
      specialize (IH Hrest). destruct st as [ms ne]. cbn [enc_stmts] in *.
      destruct s as [term writer path via guards acc pos|on fn acc pos|src pos]; [| |discriminate].
      - (* a property *)
        set (G := filter (fun g => match g with GValNonEmpty => false | _ => true end) guards) in *.
        destruct (eval_guards fs [x30] G) as [[|]|] eqn:E1; [| |discriminate].
        + destruct (eval_guards_rel fs fs' [x30] G true Hf E1) as [E1'|[_ [E1' [g [Hin [[f [k [-> Hk]]] Hg']]]]]]; rewrite E1'.
          * (* the guards agree *)
            destruct (write_value E R writer via term (path_get path fs)) as [[[term' b] rr]|] eqn:Ew; [|discriminate].
            rewrite (write_value_rel writer via term _ _ _ (path_get_rel path fs fs' Hf) Ew).
            destruct (eval_guards fs b guards) as [[|]|] eqn:E2; [| |discriminate].
            -- destruct (eval_guards_rel fs fs' b guards true Hf E2) as [E2'|[_ [_ [g [Hin [[f [k [-> Hk]]] Hg']]]]]].
               ++ rewrite E2'. destruct (apply_acc acc rr ne); [|discriminate]. apply (IH fs fs' _ _ Hf); assumption.
               ++ (* impossible: that guard was true in the first phase *)
                  assert (HinG : In (GNeNil f) G) by (apply filter_In; split; [exact Hin|reflexivity]).
                  pose proof (eval_guards_true_all fs' [x30] G E1' _ HinG) as T.
                  cbn [eval_guard] in T, Hg'. rewrite T in Hg'. discriminate.
            -- destruct (eval_guards_rel fs fs' b guards false Hf E2) as [E2'|[X _]]; [|discriminate].
               rewrite E2'. apply (IH fs fs' _ _ Hf); assumption.
          * (* a typed nil pointer passed the guard `!= nil` that its erasure does not pass *)
            apply filter_guard_in in Hin.
            cbn [stmt_nil_ok] in Hs. rewrite forallb_forall in Hs. specialize (Hs _ Hin). cbn beta iota in Hs.
            apply andb_true_iff in Hs. destruct Hs as [Hs Hacc]. apply andb_true_iff in Hs. destruct Hs as [Hp Hw].
            apply negb_true_iff in Hw.
            destruct path as [|f' [|? ?]]; try discriminate. apply fid_beq_true in Hp. subst f'.
            cbn [path_get] in H. rewrite Hk in H.
            destruct (write_value E R writer via term (Some (FItem (ITNil k)))) as [[[term' b] rr]|] eqn:Ew; [|discriminate].
            destruct (write_value_tnil writer via term k _ Hw Ew) as [Hwi Hres]. inversion Hres; subst term' b rr.
            destruct (eval_guards fs [] guards) as [[|]|] eqn:E2; [| |discriminate].
            -- rewrite Hwi in Hacc. cbn [negb orb] in Hacc.
               assert (Hnv : existsb guard_is_val guards = false).
               { destruct (existsb guard_is_val guards) eqn:X; [|reflexivity].
                 apply existsb_exists in X. destruct X as [g [Hg Hv]]. destruct g; try discriminate.
                 pose proof (eval_guards_true_all fs [] guards E2 _ Hg) as T. cbn [eval_guard] in T. discriminate. }
               rewrite Hnv, orb_false_r in Hacc. destruct acc; try discriminate.
               cbn [apply_acc orb] in H. apply (IH fs fs' _ _ Hf); assumption.
            -- apply (IH fs fs' _ _ Hf); assumption.
        + destruct (eval_guards_rel fs fs' [x30] G false Hf E1) as [E1'|[X _]]; [|discriminate].
          rewrite E1'. apply (IH fs fs' _ _ Hf); assumption.
      - (* a delegation *)
        destruct fn as [|c fn]; [apply (IH fs fs' _ _ Hf); assumption|].
        destruct (R (c :: fn) fs) as [[ms' rr]|] eqn:Er; [|discriminate].
        rewrite (HR _ _ _ _ Hf Er). destruct (apply_acc acc rr ne); [|discriminate]. apply (IH fs fs' _ _ Hf); assumption.
    Qed.
  End Enc.

  Lemma jw_table_ok name init stmts : jw_table tbls name = Some (init, stmts) -> forallb stmt_nil_ok stmts = true.
  Proof.
    unfold jw_table. destruct (find _ tbls) as [t|] eqn:F; [|discriminate]. intro H. inversion H; subst.
    apply find_some_in in F. unfold nil_transparent in Htbl. rewrite forallb_forall in Htbl. exact (Htbl t F).
  Qed.

  Lemma run_table_rel E E' :
    (forall i i' b, RI i i' -> E i = Some b -> E' i' = Some b) ->
    (forall n b, nil_like n = true -> E n = Some b -> b = []) ->
    forall d name fs fs' r, frel RI fs fs' ->
    run_table tbls d E name fs = Some r -> run_table tbls d E' name fs' = Some r.
  Proof.
    intros HE HEnil. induction d as [|d IH]; intros name fs fs' r Hf H; [discriminate|].
    cbn [run_table] in *. destruct (jw_table tbls name) as [[init stmts]|] eqn:T; [|discriminate].
    exact (enc_stmts_rel E E' HE HEnil (run_table tbls d E) (run_table tbls d E') IH stmts
             (jw_table_ok name init stmts T) fs fs' _ r Hf H).
  Qed.
End Sim.

(* ------------------------------------------------------------------ sizes *)
Local Open Scope nat_scope.
Fixpoint fields_size (fs : list (fid * fval)) : nat :=
  match fs with [] => 0 | (_, v) :: r => fval_size v + fields_size r end.
Fixpoint items_size (l : list item) : nat :=
  match l with [] => 0 | x :: r => item_size x + items_size r end.
Fixpoint entries_size (e : list (fid * item)) : nat :=
  match e with [] => 0 | (_, x) :: r => item_size x + entries_size r end.

Lemma item_size_obj p k fs : item_size (IObj p k fs) = S (fields_size fs).
Proof. reflexivity. Qed.
Lemma item_size_items p l : item_size (IItems p (Some l)) = S (items_size l).
Proof. reflexivity. Qed.
Lemma fval_size_items l : fval_size (FItems (Some l)) = S (items_size l).
Proof. reflexivity. Qed.
Lemma fval_size_endp e : fval_size (FEndpoints (Some e)) = S (entries_size e).
Proof. reflexivity. Qed.
Lemma item_size_pos i : 1 <= item_size i.
Proof. destruct i as [| | | | p [l|] |]; cbn [item_size]; lia. Qed.

Lemma getf_size f fs v : getf f fs = Some v -> fval_size v <= fields_size fs.
Proof.
  induction fs as [|[g w] r IH]; [discriminate|]. cbn [getf fields_size]. destruct (fid_beq f g).
  - intro H. inversion H; subst. lia.
  - intro H. specialize (IH H). lia.
Qed.
Lemma in_items_size x l : In x l -> item_size x <= items_size l.
Proof.
  induction l as [|y r IH]; [contradiction|]. cbn [items_size]. intros [->|H]; [lia|]. specialize (IH H). lia.
Qed.
Lemma getf_endpoints_size f e i : getf f (endpoints_fields e) = Some (FItem i) -> item_size i <= entries_size e.
Proof.
  induction e as [|[g x] r IH]; [discriminate|]. cbn [endpoints_fields map getf fst snd entries_size].
  destruct (fid_beq f g).
  - intro H. inversion H; subst. lia.
  - intro H. specialize (IH H). lia.
Qed.
Lemma getf_endpoints_item f e v : getf f (endpoints_fields e) = Some v -> exists i, v = FItem i.
Proof.
  induction e as [|[g x] r IH]; [discriminate|]. cbn [endpoints_fields map getf fst snd].
  destruct (fid_beq f g); [intro H; inversion H; eauto|exact IH].
Qed.

(* ------------------------------------------------------------------ the fuel does not matter beyond the size *)
Section Fuel.
  Variable tbls : list (bytes * bool * list wstmt).
  Hypothesis Htbl : nil_transparent tbls = true.

  Definition below (bound : nat) (i i' : item) : Prop := i = i' /\ item_size i < bound.

  Lemma below_nil_l bound i i' : below bound i i' -> i = INil -> i' = INil.
  Proof. intros [<- _] H. exact H. Qed.
  Lemma below_nil_r bound i i' : below bound i i' -> i' = INil -> nil_like i = true.
  Proof. intros [<- _] ->. reflexivity. Qed.

  Lemma forall2_below bound l : items_size l < bound -> Forall2 (below bound) l l.
  Proof.
    induction l as [|x r IH]; intro H; [constructor|]. cbn [items_size] in H.
    constructor; [split; [reflexivity|lia]|apply IH; lia].
  Qed.

  Lemma vrel_below bound v : fval_size v < bound -> vrel (below bound) v v.
  Proof.
    intro H. destruct v as [i|[l|]| | | | | | | | | |[e|]|]; cbn [vrel]; try (split; [exact I|reflexivity]).
    - split; [reflexivity|exact H].
    - rewrite fval_size_items in H. split.
      + split; [reflexivity|]. rewrite item_size_items. exact H.
      + cbn [lrel]. apply forall2_below. lia.
    - split; [split; [reflexivity|exact H]|exact I].
    - rewrite fval_size_endp in H. intro f. unfold irel.
      destruct (getf f (endpoints_fields e)) as [v|] eqn:G; [|exact I].
      destruct (getf_endpoints_item f e v G) as [i ->]. split; [reflexivity|].
      pose proof (getf_endpoints_size f e i G). lia.
  Qed.

  Lemma frel_below bound fs : fields_size fs < bound -> frel (below bound) fs fs.
  Proof.
    intros H f. unfold orel. destruct (getf f fs) as [v|] eqn:G; [|exact I].
    pose proof (getf_size f fs v G). apply orel_some. apply vrel_below. lia.
  Qed.

  Lemma enc_nil_empty fuel n b : nil_like n = true -> enc_item tbls fuel n = Some b -> b = [].
  Proof. destruct fuel; [discriminate|]. destruct n; try discriminate; cbn [enc_item]; intros _ H; inversion H; reflexivity. Qed.

  (* the array loop of enc_item *)
  Lemma items_go_rel (E E' : item -> option bytes) (RI : item -> item -> Prop) :
    (forall i i' b, RI i i' -> E i = Some b -> E' i' = Some b) ->
    forall l l', Forall2 RI l l' -> forall acc res,
    (fix go (l : list item) (acc : list bytes) : option bytes :=
       match l with
       | [] => Some (x5b :: join_with comma (rev acc) ++ [x5d])
       | x :: r => match E x with Some [] => go r acc | Some b => go r (b :: acc) | None => None end
       end) l acc = Some res ->
    (fix go (l : list item) (acc : list bytes) : option bytes :=
       match l with
       | [] => Some (x5b :: join_with comma (rev acc) ++ [x5d])
       | x :: r => match E' x with Some [] => go r acc | Some b => go r (b :: acc) | None => None end
       end) l' acc = Some res.
  Proof.
    intros HE l l'. induction 1 as [|x y l l' Hxy Hl IH]; intros acc res H; [exact H|].
    destruct (E x) as [b|] eqn:Ex; [|discriminate]. rewrite (HE _ _ _ Hxy Ex).
    destruct b; apply IH; exact H.
  Qed.

  Lemma enc_fuel_indep : forall f f' x b,
    item_size x < f -> item_size x < f' -> enc_item tbls f x = Some b -> enc_item tbls f' x = Some b.
  Proof.
    induction f as [|f IH]; intros f' x b Hf Hf' H; [lia|].
    destruct f' as [|f']; [lia|].
    destruct x as [|k|p s|p k fs|p [l|]|p l]; try exact H.
    - (* struct *)
      rewrite item_size_obj in Hf, Hf'. cbn [enc_item] in *.
      destruct (run_table tbls 6 (enc_item tbls f) (marshal_table k) fs) as [[ms ne]|] eqn:T; [|discriminate].
      assert (T' : run_table tbls 6 (enc_item tbls f') (marshal_table k) fs = Some (ms, ne)).
      { apply (run_table_rel tbls Htbl (below (S (fields_size fs))) (below_nil_l _) (below_nil_r _)
                 (enc_item tbls f) (enc_item tbls f')) with (fs := fs); [| |apply frel_below; lia|exact T].
        - intros i i' b0 [<- Hi] Hb. apply (IH f' i b0); [lia|lia|exact Hb].
        - apply enc_nil_empty. }
      rewrite T'. exact H.
    - (* list *)
      rewrite item_size_items in Hf, Hf'. cbn [enc_item] in *.
      destruct l as [|x [|y r]]; [exact H| |].
      + cbn [items_size] in *. apply (IH f' x b); [lia|lia|exact H].
      + assert (HE : forall i i' b0, below (S (items_size (x :: y :: r))) i i' ->
                     enc_item tbls f i = Some b0 -> enc_item tbls f' i' = Some b0).
        { intros i i' b0 [<- Hi] Hb. apply (IH f' i b0); [lia|lia|exact Hb]. }
        assert (HF : Forall2 (below (S (items_size (x :: y :: r)))) (x :: y :: r) (x :: y :: r))
          by (apply forall2_below; lia).
        exact (items_go_rel _ _ _ HE _ _ HF [] b H).
  Qed.
End Fuel.

(* ------------------------------------------------------------------ erasures *)
Section Erase.
  Variable tbls : list (bytes * bool * list wstmt).
  Hypothesis Htbl : nil_transparent tbls = true.

  Section OneSim.
    Variable RI : item -> item -> Prop.
    Hypothesis Hsim : erasure_sim RI.

    Lemma sim_nil_l i i' : RI i i' -> i = INil -> i' = INil.
    Proof. intros H ->. apply Hsim in H. destruct i'; try contradiction. reflexivity. Qed.
    Lemma sim_nil_r i i' : RI i i' -> i' = INil -> nil_like i = true.
    Proof. intros H ->. apply Hsim in H. destruct i; try contradiction; reflexivity. Qed.

    Lemma enc_item_sim : forall fuel x x' b,
      RI x x' -> enc_item tbls fuel x = Some b -> enc_item tbls fuel x' = Some b.
    Proof.
      induction fuel as [|f IH]; intros x x' b Hr H; [discriminate|].
      pose proof (Hsim x x' Hr) as Hs.
      destruct x as [|k|p s|p k fs|p l|p l]; destruct x' as [|k'|p' s'|p' k' fs'|p' l'|p' l']; cbn [shape] in Hs;
        try contradiction; try exact H.
      - destruct Hs as [-> ->]. exact H.
      - destruct Hs as [-> [-> Hf]]. cbn [enc_item] in *.
        destruct (run_table tbls 6 (enc_item tbls f) (marshal_table k') fs) as [[ms ne]|] eqn:T; [|discriminate].
        rewrite (run_table_rel tbls Htbl RI sim_nil_l sim_nil_r (enc_item tbls f) (enc_item tbls f) (IH) 
                   (enc_nil_empty tbls f) 6 _ fs fs' _ Hf T).
        exact H.
      - destruct Hs as [-> Hl]. destruct l as [l|], l' as [l'|]; cbn [lrel] in Hl; try contradiction; [|exact H].
        cbn [enc_item] in *. destruct Hl as [|x y l l' Hxy Hl]; [exact H|].
        destruct Hl as [|x2 y2 l l' Hxy2 Hl]; [exact (IH _ _ _ Hxy H)|].
        exact (items_go_rel _ _ RI IH _ _ (Forall2_cons _ _ Hxy (Forall2_cons _ _ Hxy2 Hl)) [] b H).
      - destruct Hs as [-> ->]. exact H.
    Qed.

    Lemma marshal_json_sim x x' b :
      RI x x' -> marshal_json tbls x = Some b -> marshal_json tbls x' = Some b.
    Proof.
      unfold marshal_json. intros Hr H.
      set (F := S (Nat.max (item_size x) (item_size x'))).
      assert (H1 : enc_item tbls F x = Some b) by (apply (enc_fuel_indep tbls Htbl _ F _ _ (Nat.lt_succ_diag_r _)); [unfold F; lia|exact H]).
      pose proof (enc_item_sim F x x' b Hr H1) as H2.
      apply (enc_fuel_indep tbls Htbl F); [unfold F; lia|lia|exact H2].
    Qed.
  End OneSim.

  Theorem marshal_json_erases x x' b :
    erases x x' -> marshal_json tbls x = Some b -> marshal_json tbls x' = Some b.
  Proof. intros [RI [Hsim Hr]]. exact (marshal_json_sim RI Hsim x x' b Hr). Qed.
  Theorem enc_item_erases fuel x x' b :
    erases x x' -> enc_item tbls fuel x = Some b -> enc_item tbls fuel x' = Some b.
  Proof. intros [RI [Hsim Hr]]. exact (enc_item_sim RI Hsim fuel x x' b Hr). Qed.
End Erase.

(* ---- `erases` is closed under the rules one would write for it as an inductive relation ---- *)
Section Mono.
  Variables RI RJ : item -> item -> Prop.
  Hypothesis Hsub : forall a b, RI a b -> RJ a b.

  Lemma lrel_mono l l' : lrel RI l l' -> lrel RJ l l'.
  Proof.
    destruct l as [a|], l' as [b|]; cbn [lrel]; auto.
    induction 1; constructor; auto.
  Qed.
  Lemma irel_mono o o' : irel RI o o' -> irel RJ o o'.
  Proof. unfold irel. destruct o as [[]|], o' as [[]|]; auto. Qed.
  Lemma vrel_mono v v' : vrel RI v v' -> vrel RJ v v'.
  Proof.
    destruct v as [i|l|n|s|t|d|u|z|b|m|mt c|e|a1 a2 a3]; try (destruct e as [e|]);
      destruct v' as [i'|l'|n'|s'|t'|d'|u'|z'|b'|m'|mt' c'|e'|a1' a2' a3']; try (destruct e' as [e'|]);
      cbn [vrel]; auto.
    - intros [H1 H2]. split; [auto|apply lrel_mono; exact H2].
    - intros H f. apply irel_mono. apply H.
  Qed.
  Lemma orel_mono o o' : orel RI o o' -> orel RJ o o'.
  Proof.
    destruct o as [v|], o' as [v'|]; cbn [orel]; auto.
    intro H. destruct v; try exact (vrel_mono _ _ H).
  Qed.
  Lemma shape_mono x x' : shape RI x x' -> shape RJ x x'.
  Proof.
    destruct x, x'; cbn [shape]; auto.
    - intros [H1 [H2 H3]]. repeat split; auto. intro f. apply orel_mono. apply H3.
    - intros [H1 H2]. split; [auto|apply lrel_mono; exact H2].
  Qed.
End Mono.

Lemma erases_unfold x x' : erases x x' -> shape erases x x'.
Proof.
  intros [RI [Hsim Hr]]. apply (shape_mono RI erases); [|apply Hsim; exact Hr].
  intros a b Hab. exists RI. auto.
Qed.

(* adding one pair whose shape is justified by erases *)
Lemma erases_intro x x' : shape erases x x' -> erases x x'.
Proof.
  intro Hs. exists (fun a b => erases a b \/ (a = x /\ b = x')). split; [|right; auto].
  intros a b [H|[-> ->]].
  - apply (shape_mono erases); [intros; left; assumption|apply erases_unfold; exact H].
  - apply (shape_mono erases); [intros; left; assumption|exact Hs].
Qed.

Lemma er_nil a : nil_like a = true -> erases a INil.
Proof. intro H. apply erases_intro. destruct a; try discriminate; exact I. Qed.
Lemma er_obj p k fs fs' : frel erases fs fs' -> erases (IObj p k fs) (IObj p k fs').
Proof. intro H. apply erases_intro. cbn [shape]. auto. Qed.
Lemma er_items p l l' : lrel erases l l' -> erases (IItems p l) (IItems p l').
Proof. intro H. apply erases_intro. cbn [shape]. auto. Qed.

(* ------------------------------------------------------------------ induction over values, Endpoints entries included *)
Section ItemInd3.
  Variables (P : item -> Prop) (Q : fval -> Prop).
  Hypotheses
    (HNil : P INil) (HTNil : forall k, P (ITNil k)) (HIri : forall p s, P (IIri p s))
    (HObj : forall p k fs, Forall (fun fv => Q (snd fv)) fs -> P (IObj p k fs))
    (HItemsN : forall p, P (IItems p None))
    (HItems : forall p l, Forall P l -> P (IItems p (Some l)))
    (HIris : forall p l, P (IIris p l))
    (QItem : forall i, P i -> Q (FItem i))
    (QItemsN : Q (FItems None))
    (QItems : forall l, Forall P l -> Q (FItems (Some l)))
    (QEndpN : Q (FEndpoints None))
    (QEndp : forall e, Forall (fun fx => P (snd fx)) e -> Q (FEndpoints (Some e)))
    (QLeaf : forall v, is_leaf v -> Q v).

  Fixpoint item_ind3 (i : item) : P i :=
    match i as i0 return P i0 with
    | INil => HNil
    | ITNil k => HTNil k
    | IIri p s => HIri p s
    | IObj p k fs =>
        HObj p k fs
          ((fix go (fs : list (fid * fval)) : Forall (fun fv => Q (snd fv)) fs :=
              match fs as fs0 return Forall (fun fv => Q (snd fv)) fs0 with
              | [] => Forall_nil _
              | fv :: r => Forall_cons fv (fval_ind3 (snd fv)) (go r)
              end) fs)
    | IItems p None => HItemsN p
    | IItems p (Some l) =>
        HItems p l
          ((fix go (l : list item) : Forall P l :=
              match l as l0 return Forall P l0 with
              | [] => Forall_nil _
              | x :: r => Forall_cons x (item_ind3 x) (go r)
              end) l)
    | IIris p l => HIris p l
    end
  with fval_ind3 (v : fval) : Q v :=
    match v as v0 return Q v0 with
    | FItem i => QItem i (item_ind3 i)
    | FItems None => QItemsN
    | FItems (Some l) =>
        QItems l
          ((fix go (l : list item) : Forall P l :=
              match l as l0 return Forall P l0 with
              | [] => Forall_nil _
              | x :: r => Forall_cons x (item_ind3 x) (go r)
              end) l)
    | FEndpoints None => QEndpN
    | FEndpoints (Some e) =>
        QEndp e
          ((fix go (e : list (fid * item)) : Forall (fun fx => P (snd fx)) e :=
              match e as e0 return Forall (fun fx => P (snd fx)) e0 with
              | [] => Forall_nil _
              | fx :: r => Forall_cons fx (item_ind3 (snd fx)) (go r)
              end) e)
    | FNlv l => QLeaf (FNlv l) I | FStr s => QLeaf (FStr s) I | FTime t => QLeaf (FTime t) I
    | FDur d => QLeaf (FDur d) I | FUint n => QLeaf (FUint n) I | FInt z => QLeaf (FInt z) I
    | FBool b => QLeaf (FBool b) I | FFloat m => QLeaf (FFloat m) I
    | FSource mt c => QLeaf (FSource mt c) I | FPubKey a b c => QLeaf (FPubKey a b c) I
    end.
End ItemInd3.

Lemma getf_forall (Q : fval -> Prop) f fs v : Forall (fun fv => Q (snd fv)) fs -> getf f fs = Some v -> Q v.
Proof.
  induction 1 as [|[g w] r Hw Hr IH]; [discriminate|]. cbn [getf]. destruct (fid_beq f g); [|exact IH].
  intro H. inversion H; subst. exact Hw.
Qed.
Lemma forall_forall2_diag {A} (R : A -> A -> Prop) l : Forall (fun x => R x x) l -> Forall2 R l l.
Proof. induction 1; constructor; auto. Qed.
Lemma getf_endpoints_forall (P : item -> Prop) f e i :
  Forall (fun fx => P (snd fx)) e -> getf f (endpoints_fields e) = Some (FItem i) -> P i.
Proof.
  induction 1 as [|[g x] r Hx Hr IH]; [discriminate|]. cbn [endpoints_fields map getf fst snd].
  destruct (fid_beq f g); [|exact IH]. intro H. inversion H; subst. exact Hx.
Qed.

(* ---- reflexivity ---- *)
Lemma erases_vrel_refl : (forall x, erases x x) /\ (forall v, vrel erases v v).
Proof.
  assert (H : forall x, erases x x).
  { apply (item_ind3 (fun x => erases x x) (fun v => vrel erases v v)).
    - apply er_nil. reflexivity.
    - intro k. apply erases_intro. reflexivity.
    - intros p s. apply erases_intro. cbn [shape]. auto.
    - intros p k fs F. apply er_obj. intro f. destruct (getf f fs) as [v|] eqn:G; [|exact I].
      apply orel_some. exact (getf_forall (fun v => vrel erases v v) f fs v F G).
    - intro p. apply er_items. exact I.
    - intros p l F. apply er_items. cbn [lrel]. apply forall_forall2_diag. exact F.
    - intros p l. apply erases_intro. cbn [shape]. auto.
    - intros i Hi. exact Hi.
    - split; [apply er_items; exact I|exact I].
    - intros l F. split; [apply er_items|]; cbn [lrel]; apply forall_forall2_diag; exact F.
    - split; [exact I|reflexivity].
    - intros e F f. unfold irel. destruct (getf f (endpoints_fields e)) as [v|] eqn:G; [|exact I].
      destruct (getf_endpoints_item f e v G) as [i ->]. exact (getf_endpoints_forall (fun x => erases x x) f e i F G).
    - intros v Hv. destruct v; try contradiction; try (split; [exact I|reflexivity]).
      destruct e; [contradiction|split; [exact I|reflexivity]]. }
  split; [exact H|].
  intro v. destruct v as [i|[l|]| | | | | | | | | |[e|]|]; cbn [vrel]; try (split; [exact I|reflexivity]).
  - apply H.
  - split; [apply H|]. cbn [lrel]. apply forall_forall2_diag. apply Forall_forall. intros; apply H.
  - split; [apply H|exact I].
  - intro f. unfold irel. destruct (getf f (endpoints_fields e)) as [v|] eqn:G; [|exact I].
    destruct (getf_endpoints_item f e v G) as [i ->]. apply H.
Qed.
Lemma erases_refl x : erases x x.
Proof. apply erases_vrel_refl. Qed.
Lemma vrel_refl v : vrel erases v v.
Proof. apply erases_vrel_refl. Qed.
Lemma orel_refl o : orel erases o o.
Proof. destruct o as [v|]; [apply orel_some; apply vrel_refl|exact I]. Qed.

(* ---- nilify is an erasure ---- *)
Definition nilify_fields (fs : list (fid * fval)) : list (fid * fval) := map (fun fv => (fst fv, nilify_fval (snd fv))) fs.
Lemma nilify_obj p k fs : nilify (IObj p k fs) = IObj p k (nilify_fields fs).
Proof.
  cbn [nilify]. f_equal. unfold nilify_fields. induction fs as [|[f v] r IH]; [reflexivity|].
  cbn [map fst snd]. rewrite <- IH. reflexivity.
Qed.
Lemma nilify_items p l : nilify (IItems p (Some l)) = IItems p (Some (map nilify l)).
Proof. reflexivity. Qed.
Lemma nilify_fval_items l : nilify_fval (FItems (Some l)) = FItems (Some (map nilify l)).
Proof. reflexivity. Qed.
Lemma nilify_fval_endp e : nilify_fval (FEndpoints (Some e)) = FEndpoints (Some (map (fun fx => (fst fx, nilify (snd fx))) e)).
Proof. cbn [nilify_fval]. do 2 f_equal. induction e as [|[f x] r IH]; [reflexivity|]. cbn [map fst snd]. rewrite <- IH. reflexivity. Qed.

Lemma getf_nilify_fields f fs : getf f (nilify_fields fs) = option_map nilify_fval (getf f fs).
Proof.
  unfold nilify_fields. induction fs as [|[g v] r IH]; [reflexivity|]. cbn [map fst snd getf].
  destruct (fid_beq f g); [reflexivity|exact IH].
Qed.
Lemma getf_endpoints_map f e :
  getf f (endpoints_fields (map (fun fx => (fst fx, nilify (snd fx))) e))
  = option_map nilify_fval (getf f (endpoints_fields e)).
Proof.
  induction e as [|[g x] r IH]; [reflexivity|]. cbn [endpoints_fields map fst snd getf] in *.
  destruct (fid_beq f g); [reflexivity|exact IH].
Qed.
Lemma forall2_map_r {A} (R : A -> A -> Prop) (h : A -> A) l : Forall (fun x => R x (h x)) l -> Forall2 R l (map h l).
Proof. induction 1; constructor; auto. Qed.

Lemma erases_nilify x : erases x (nilify x).
Proof.
  apply (item_ind3 (fun x => erases x (nilify x)) (fun v => vrel erases v (nilify_fval v))).
  - apply er_nil. reflexivity.
  - intro k. apply er_nil. reflexivity.
  - intros p s. apply erases_refl.
  - intros p k fs F. rewrite nilify_obj. apply er_obj. intro f. rewrite getf_nilify_fields.
    destruct (getf f fs) as [v|] eqn:G; [|exact I]. apply orel_some. exact (getf_forall (fun v => vrel erases v (nilify_fval v)) f fs v F G).
  - intro p. apply erases_refl.
  - intros p l F. rewrite nilify_items. apply er_items. cbn [lrel]. apply forall2_map_r. exact F.
  - intros p l. apply erases_refl.
  - intros i Hi. exact Hi.
  - apply vrel_refl.
  - intros l F. rewrite nilify_fval_items. split; [apply er_items|]; cbn [lrel]; apply forall2_map_r; exact F.
  - apply vrel_refl.
  - intros e F. rewrite nilify_fval_endp. intro f. rewrite getf_endpoints_map. unfold irel.
    destruct (getf f (endpoints_fields e)) as [v|] eqn:G; [|exact I].
    destruct (getf_endpoints_item f e v G) as [i ->]. exact (getf_endpoints_forall (fun x => erases x (nilify x)) f e i F G).
  - intros v Hv. assert (E : nilify_fval v = v) by (destruct v; try contradiction; try reflexivity; destruct e; [contradiction|reflexivity]).
    rewrite E. apply vrel_refl.
Qed.

(* ---- one nil-like item at a time, anywhere: untyped, or its property dropped ---- *)
Inductive erase1 : item -> item -> Prop :=
| e1_nil a : nil_like a = true -> erase1 a INil
| e1_drop p k fs f n : getf f fs = Some (FItem n) -> nil_like n = true ->
    erase1 (IObj p k fs) (IObj p k (delf f fs))
| e1_field p k fs f i i' : erase1 i i' -> getf f fs = Some (FItem i) ->
    erase1 (IObj p k fs) (IObj p k (replf f (FItem i') fs))
| e1_list_field p k fs f a x x' b : erase1 x x' -> getf f fs = Some (FItems (Some (a ++ x :: b))) ->
    erase1 (IObj p k fs) (IObj p k (replf f (FItems (Some (a ++ x' :: b))) fs))
| e1_member p a x x' b : erase1 x x' -> erase1 (IItems p (Some (a ++ x :: b))) (IItems p (Some (a ++ x' :: b))).

Lemma forall2_middle a x x' b : erases x x' -> Forall2 erases (a ++ x :: b) (a ++ x' :: b).
Proof.
  intro H. apply Forall2_app; [apply forall_forall2_diag; apply Forall_forall; intros; apply erases_refl|].
  constructor; [exact H|apply forall_forall2_diag; apply Forall_forall; intros; apply erases_refl].
Qed.

Lemma erase1_erases x x' : erase1 x x' -> erases x x'.
Proof.
  induction 1 as [a Ha|p k fs f n G Hn|p k fs f i i' _ IH G|p k fs f a x x' b _ IH G|p a x x' b _ IH].
  - apply er_nil. exact Ha.
  - apply er_obj. intro g. destruct (fid_beq g f) eqn:E.
    + apply fid_beq_true in E. subst g. rewrite G, getf_delf_same. exact Hn.
    + rewrite getf_delf_other by (intro X; subst; rewrite fid_beq_refl in E; discriminate). apply orel_refl.
  - apply er_obj. intro g. destruct (fid_beq g f) eqn:E.
    + apply fid_beq_true in E. subst g. rewrite G, getf_replf_same. exact IH.
    + rewrite getf_replf_other by (intro X; subst; rewrite fid_beq_refl in E; discriminate). apply orel_refl.
  - apply er_obj. intro g. destruct (fid_beq g f) eqn:E.
    + apply fid_beq_true in E. subst g. rewrite G, getf_replf_same. cbn [orel vrel lrel].
      split; [apply er_items; cbn [lrel]|]; apply forall2_middle; exact IH.
    + rewrite getf_replf_other by (intro X; subst; rewrite fid_beq_refl in E; discriminate). apply orel_refl.
  - apply er_items. cbn [lrel]. apply forall2_middle. exact IH.
Qed.

Inductive erase_star : item -> item -> Prop :=
| es_refl x : erase_star x x
| es_step x y z : erase1 x y -> erase_star y z -> erase_star x z.

Theorem marshal_json_erase_star tbls : nil_transparent tbls = true ->
  forall x x', erase_star x x' -> forall b, marshal_json tbls x = Some b -> marshal_json tbls x' = Some b.
Proof.
  intros Ht x x'. induction 1 as [x|x y z H1 _ IH]; intros b H; [exact H|].
  apply IH. exact (marshal_json_erases tbls Ht x y b (erase1_erases x y H1) H).
Qed.

Theorem marshal_json_nilify tbls : nil_transparent tbls = true ->
  forall x b, marshal_json tbls x = Some b -> marshal_json tbls (nilify x) = Some b.
Proof. intros Ht x b. apply (marshal_json_erases tbls Ht). apply erases_nilify. Qed.
