(* C20, embedded part, ItemsEqual: two values that agree once every typed nil pointer inside them is replaced by
   the untyped nil are equal under the C09 model of ItemsEqual (Model/Equal.v) - at any depth, in both orders.
   In particular a value equals its untyped twin: ieq x (nilify x) = ieq (nilify x) x = Ok true.
   The proof follows the reflexivity proof of Proofs/EqualP.v with two field lists instead of one. *)
From AP.Model Require Import Prelude Vocab Pred IriEq Nlv Equal NilMatrix NilEmbed.
From AP.Gen Require Import TypeLists.
From AP.Proofs Require Import NlvP IriEqP EqualP RecipP NilEncP.

Definition nsame (a b : item) : Prop := nilify a = nilify b.

Lemma nsame_sym a b : nsame a b -> nsame b a.
Proof. unfold nsame. auto. Qed.

(* ---- nilify and the observers ItemsEqual uses ---- *)
Lemma is_nil_nilify' x : is_nil (nilify x) = is_nil x.
Proof. destruct x as [|k|p s|p k fs|p [l|]|p l]; reflexivity. Qed.
Lemma typ_nilify x : typ (nilify x) = typ x.
Proof. destruct x as [|k|p s|p k fs|p [l|]|p l]; try reflexivity. rewrite nilify_obj. unfold typ. cbn [get_type].
  unfold get_str. rewrite getf_nilify_fields. destruct (getf F_Type fs) as [[i|[l|]| | | | | | | | | |[e|]|]|]; reflexivity. Qed.
Lemma lnk_nilify x : lnk (nilify x) = lnk x.
Proof. destruct x as [|k|p s|p k fs|p [l|]|p l]; try reflexivity. rewrite nilify_obj. unfold lnk. cbn [get_link].
  unfold get_str. rewrite getf_nilify_fields. destruct (getf F_ID fs) as [[i|[l|]| | | | | | | | | |[e|]|]|]; reflexivity. Qed.

Lemma nsame_is_nil a b : nsame a b -> is_nil a = is_nil b.
Proof. intro H. rewrite <- (is_nil_nilify' a), <- (is_nil_nilify' b), H. reflexivity. Qed.
Lemma nsame_typ a b : nsame a b -> typ a = typ b.
Proof. intro H. rewrite <- (typ_nilify a), <- (typ_nilify b), H. reflexivity. Qed.
Lemma nsame_lnk a b : nsame a b -> lnk a = lnk b.
Proof. intro H. rewrite <- (lnk_nilify a), <- (lnk_nilify b), H. reflexivity. Qed.

Lemma esize_nilify : forall x, esize (nilify x) = esize x.
Proof.
  apply (item_ind3 (fun x => esize (nilify x) = esize x) (fun v => efsize (nilify_fval v) = efsize v)); try reflexivity.
  - intros p k fs F. rewrite nilify_obj, !esize_obj. f_equal. unfold nilify_fields.
    induction F as [|[f v] r Hv Hr IH]; [reflexivity|]. cbn [map fst snd]. rewrite !fsize_cons, IH. cbn [snd] in Hv. rewrite Hv. reflexivity.
  - intros p l F. rewrite nilify_items, !esize_items. f_equal.
    induction F as [|x r Hx Hr IH]; [reflexivity|]. cbn [map]. rewrite !lsize_cons, IH, Hx. reflexivity.
  - intros i Hi. exact Hi.
  - intros l F. rewrite nilify_fval_items, !efsize_items. f_equal.
    induction F as [|x r Hx Hr IH]; [reflexivity|]. cbn [map]. rewrite !lsize_cons, IH, Hx. reflexivity.
  - intros v Hv. destruct v; try contradiction; try reflexivity. destruct e; [contradiction|reflexivity].
Qed.
Lemma nsame_esize a b : nsame a b -> esize a = esize b.
Proof. intro H. rewrite <- (esize_nilify a), <- (esize_nilify b), H. reflexivity. Qed.

(* head constructors of two non-nil values that agree after nilify *)
Lemma nsame_inv a b : nsame a b -> is_nil a = false ->
  match a, b with
  | IIri p s, IIri p' s' => p = p' /\ s = s'
  | IObj p k fs, IObj p' k' gs => p = p' /\ k = k' /\ nilify_fields fs = nilify_fields gs
  | IItems p (Some l), IItems p' (Some l') => p = p' /\ map nilify l = map nilify l'
  | IItems true None, IItems true None => True
  | IIris p l, IIris p' l' => p = p' /\ l = l'
  | _, _ => False
  end.
Proof.
  unfold nsame. intros H Hn.
  destruct a as [|k|p s|p k fs|p [l|]|p l]; try discriminate;
    destruct b as [|k'|p' s'|p' k' gs|p' [l'|]|p' l']; try rewrite !nilify_obj in H; try rewrite !nilify_items in H;
    cbn [nilify] in H; try discriminate; try (inversion H; auto; fail).
  - inversion H as [[Hp Hl]]. destruct p'; split; reflexivity.
  - destruct p; [|discriminate]. destruct p'; inversion H. exact I.
Qed.

(* ---- fields of two structs that agree after nilify ---- *)
Lemma nilify_fval_cases v v' : nilify_fval v = nilify_fval v' ->
  (exists i j, v = FItem i /\ v' = FItem j /\ nilify i = nilify j) \/
  (exists l l', v = FItems l /\ v' = FItems l' /\ option_map (map nilify) l = option_map (map nilify) l') \/
  (exists e e', v = FEndpoints e /\ v' = FEndpoints e') \/
  (v = v' /\ match v with FItem _ | FItems _ | FEndpoints _ => False | _ => True end).
Proof.
  destruct v as [i|[l|]|n|s|t|d|u|z|b|m|mt c|[e|]|a1 a2 a3];
    destruct v' as [i'|[l'|]|n'|s'|t'|d'|u'|z'|b'|m'|mt' c'|[e'|]|a1' a2' a3'];
    try rewrite !nilify_fval_items; try rewrite !nilify_fval_endp; cbn [nilify_fval]; intro H; try discriminate;
    try (do 3 right; split; [exact H|exact I]).
  - left. inversion H. eauto.
  - right. left. exists (Some l), (Some l'). inversion H as [H1]. cbn [option_map]. rewrite H1. auto.
  - right. left. exists None, None. auto.
  - do 2 right. left. eauto.
  - do 2 right. left. eauto.
Qed.

Section Fields.
  Variables fs gs : fields.
  Hypothesis Hf : nilify_fields fs = nilify_fields gs.

  Lemma getf_n f : option_map nilify_fval (getf f fs) = option_map nilify_fval (getf f gs).
  Proof. rewrite <- !getf_nilify_fields, Hf. reflexivity. Qed.

  Lemma getf_cases f :
    (getf f fs = None /\ getf f gs = None) \/
    (exists v v', getf f fs = Some v /\ getf f gs = Some v' /\ nilify_fval v = nilify_fval v').
  Proof.
    pose proof (getf_n f) as G. destruct (getf f fs) as [v|], (getf f gs) as [v'|]; try discriminate; [|left; auto].
    right. exists v, v'. inversion G. auto.
  Qed.

  Ltac leaf_getter f :=
    destruct (getf_cases f) as [[-> ->]|[v [v' [-> [-> G]]]]]; [reflexivity|];
    destruct (nilify_fval_cases v v' G) as [[i [j [-> [-> _]]]]|[[l [l' [-> [-> _]]]]|[[e [e' [-> ->]]]|[-> _]]]]; reflexivity.

  Lemma get_str_n f : get_str f fs = get_str f gs.
  Proof. unfold get_str. leaf_getter f. Qed.
  Lemma get_nlv_n f : get_nlv f fs = get_nlv f gs.
  Proof. unfold get_nlv. leaf_getter f. Qed.
  Lemma get_time_n f : get_time f fs = get_time f gs.
  Proof. unfold get_time. leaf_getter f. Qed.
  Lemma get_dur_n f : get_dur f fs = get_dur f gs.
  Proof. unfold get_dur. leaf_getter f. Qed.
  Lemma get_uint_n f : get_uint f fs = get_uint f gs.
  Proof. unfold get_uint. leaf_getter f. Qed.

  Lemma get_item_n f : nsame (get_item f fs) (get_item f gs).
  Proof.
    unfold get_item, nsame.
    destruct (getf_cases f) as [[-> ->]|[v [v' [-> [-> G]]]]]; [reflexivity|].
    destruct (nilify_fval_cases v v' G) as [[i [j [-> [-> E]]]]|[[l [l' [-> [-> _]]]]|[[e [e' [-> ->]]]|[-> _]]]]; try reflexivity.
    exact E.
  Qed.

  Lemma get_items_n f : option_map (map nilify) (get_items f fs) = option_map (map nilify) (get_items f gs).
  Proof.
    unfold get_items.
    destruct (getf_cases f) as [[-> ->]|[v [v' [-> [-> G]]]]]; [reflexivity|].
    destruct (nilify_fval_cases v v' G) as [[i [j [-> [-> _]]]]|[[l [l' [-> [-> E]]]]|[[e [e' [-> ->]]]|[-> _]]]]; try reflexivity.
    exact E.
  Qed.

  Lemma view_items_n : option_map (map nilify) (view_items fs) = option_map (map nilify) (view_items gs).
  Proof.
    unfold view_items. pose proof (get_items_n F_Items) as H1. pose proof (get_items_n F_OrderedItems) as H2.
    destruct (get_items F_Items fs) as [a|], (get_items F_Items gs) as [b|]; try discriminate; [exact H1|exact H2].
  Qed.
End Fields.

Lemma map_nilify_forall2 l l' : map nilify l = map nilify l' -> Forall2 nsame l l'.
Proof.
  revert l'. induction l as [|x r IH]; intros [|y r'] H; try discriminate; [constructor|].
  inversion H. constructor; [assumption|apply IH; assumption].
Qed.
Lemma forall2_in_l {A} (R : A -> A -> Prop) l l' x : Forall2 R l l' -> In x l -> exists y, In y l' /\ R x y.
Proof.
  induction 1 as [|a b l l' Hab Hl IH]; [intros []|]. intros [<-|H]; [exists b; split; [left; reflexivity|exact Hab]|].
  destruct (IH H) as [y [Hy Ry]]. exists y. split; [right; exact Hy|exact Ry].
Qed.
Lemma forall2_length {A} (R : A -> A -> Prop) l l' : Forall2 R l l' -> length l = length l'.
Proof. induction 1; simpl; auto. Qed.

(* ---- the comparison blocks on two field lists that agree after nilify ---- *)
Section Cmp.
  Variable n : nat.
  Hypothesis IH : forall a b, nsame a b -> esize a <= n -> ieq a b = Ok true.

  Lemma contains_n l' x : (exists m, In m l' /\ ieq m x = Ok true) -> contains_m ieq l' x = Ok true.
  Proof.
    induction l' as [|m t IHl]; [intros [? [[] _]]|]. intros [m0 [Hin Hm]]. cbn [contains_m].
    destruct (ieq_total m x) as [b Hb]. rewrite Hb. cbn [obind]. destruct b; [reflexivity|].
    destruct Hin as [->|Hin]; [congruence|]. apply IHl. eauto.
  Qed.

  Lemma all_contained_n i l' :
    (forall x, In x i -> exists m, In m l' /\ ieq m x = Ok true) -> all_contained cfg_fixed ieq i l' = Ok true.
  Proof.
    induction i as [|x t IHi]; [reflexivity|]. intro H. cbn [all_contained]. fixed_cfg.
    rewrite contains_n by (apply H; left; reflexivity). cbn [obind].
    apply IHi. intros z Hz. apply H. right. exact Hz.
  Qed.

  Lemma itemcoll_n l w l' :
    is_item_collection w = true -> is_nil w = false -> to_item_collection w = Some l' ->
    Forall2 nsame l l' -> (forall x, In x l -> esize x <= n) -> itemcoll_equals cfg_fixed ieq l w = Ok true.
  Proof.
    intros Hc Hn Hl HF Hs. unfold itemcoll_equals. rewrite Hn, Hl. fixed_cfg.
    assert (C : is_collection_m w = true) by (destruct w; try discriminate; reflexivity).
    rewrite C. cbn [negb].
    assert (T : bytes_eqb (typ w) collection_of_items || true && bytes_eqb (typ w) collection_of_iris = true).
    { destruct w; try discriminate; vm_compute; reflexivity. }
    rewrite T. cbn [negb]. rewrite all_matched_fresh. rewrite <- (forall2_length _ _ _ HF), Nat.eqb_refl. cbn [negb].
    (* members that agree position by position are matched position by position *)
    apply all_removed_pointwise. clear Hl. induction HF as [|x m l0 l0' Hxm HF' IHF]; constructor.
    - apply IH; [apply nsame_sym; exact Hxm|]. rewrite <- (nsame_esize _ _ Hxm). apply Hs. left; reflexivity.
    - apply IHF. intros z Hz. apply Hs. right; exact Hz.
  Qed.

  Section TwoFields.
    Variables fs gs : fields.
    Hypothesis Hf : nilify_fields fs = nilify_fields gs.
    Hypothesis Hsz : fsize fs <= n.

    Lemma items_pair_n (a b : option (list item)) :
      option_map (map nilify) a = option_map (map nilify) b ->
      (forall l, a = Some l -> S (lsize l) <= fsize fs) ->
      match b with
      | None => True
      | Some l => ieq (IItems false a) (IItems false (Some l)) = Ok true
      end.
    Proof.
      intros E Hs. destruct b as [l|]; [|exact I]. destruct a as [l0|]; [|discriminate].
      cbn [option_map] in E. inversion E as [E']. apply IH.
      - unfold nsame. rewrite !nilify_items, E'. reflexivity.
      - rewrite esize_items. specialize (Hs l0 eq_refl). lia.
    Qed.

    Lemma cmp_one_n c : cmp_one cfg_fixed ieq c fs gs = Ok true.
    Proof.
      destruct c; cbn [cmp_one]; fixed_cfg.
      - rewrite <- (get_nlv_n fs gs Hf). destruct (nl_of (get_nlv f fs)) eqn:E; [reflexivity|]. rewrite nl_equals_refl. reflexivity.
      - rewrite <- (get_nlv_n fs gs Hf). destruct (get_nlv f fs) as [w|] eqn:E; [|reflexivity]. cbn [nl_of]. rewrite nl_equals_refl. reflexivity.
      - pose proof (get_item_n fs gs Hf f) as N.
        destruct (get_item f gs) eqn:E; try reflexivity; rewrite <- E in *;
          (destruct (is_nil (get_item f fs)) eqn:Z;
           [apply ieq_nil; [exact Z|rewrite <- (nsame_is_nil _ _ N); exact Z]
           |apply IH; [exact N|apply Nat.le_trans with (fsize fs); [apply get_item_size; intro X; rewrite X in Z; discriminate|exact Hsz]]]).
      - pose proof (items_pair_n (get_items f fs) (get_items f gs) (get_items_n fs gs Hf f)
                      (fun l E => get_items_size f fs l E)) as P.
        destruct (get_items f gs); [exact P|reflexivity].
      - pose proof (items_pair_n (view_items fs) (view_items gs) (view_items_n fs gs Hf)
                      (fun l E => view_items_size fs l E)) as P.
        destruct (view_items gs); [exact P|reflexivity].
      - pose proof (view_items_n fs gs Hf) as E.
        destruct (view_items gs) as [l|] eqn:Eg; [|reflexivity].
        destruct (view_items fs) as [l0|] eqn:Ef; [|discriminate]. cbn [option_map] in E. inversion E as [E'].
        apply (itemcoll_n l0 (IItems false (Some l)) l); try reflexivity.
        + apply map_nilify_forall2. exact E'.
        + intros x Hx. apply in_lsize in Hx. apply view_items_size in Ef. lia.
      - pose proof (get_item_n fs gs Hf F_URL) as N.
        rewrite <- (nsame_is_nil _ _ N). destruct (is_nil (get_item F_URL fs)) eqn:Z; [reflexivity|].
        (* url goes through ItemsEqual like its siblings (fix "Object.Equals compared url by GetLink() only") *)
        apply IH; [exact N|]. apply Nat.le_trans with (fsize fs); [|exact Hsz].
        apply get_item_size. intro X. rewrite X in Z. discriminate.
      - rewrite <- (get_time_n fs gs Hf). destruct (vtime_is_zero _); [reflexivity|]. unfold time_equal. rewrite !Z.eqb_refl. reflexivity.
      - rewrite <- (get_dur_n fs gs Hf). destruct (_ =? 0)%Z; [reflexivity|]. rewrite Z.eqb_refl. reflexivity.
      - rewrite <- (get_uint_n fs gs Hf). destruct (_ =? 0)%N; [reflexivity|]. rewrite N.eqb_refl. reflexivity.
      - rewrite <- (get_str_n fs gs Hf). destruct (get_str f fs) as [|b0 s0] eqn:E; [reflexivity|]. f_equal. exact (bytes_eqb_refl (b0 :: s0)).
      - rewrite <- (get_str_n fs gs Hf). destruct (get_str f fs) eqn:E; [reflexivity|]. rewrite iri_eqb_refl. reflexivity.
    Qed.

    Lemma all_cmp_n cs : all_cmp cfg_fixed ieq cs fs gs = Ok true.
    Proof. induction cs as [|c r IHc]; [reflexivity|]. cbn [all_cmp]. rewrite cmp_one_n. exact IHc. Qed.

    Lemma object_equals_n p k : k <> KLink -> object_equals cfg_fixed ieq fs (IObj p k gs) = Ok true.
    Proof.
      intro Hk. unfold object_equals. rewrite nil_guard_obj. cbn [is_item_collection].
      unfold lnk, typ. cbn [get_link get_type].
      rewrite <- (get_str_n fs gs Hf F_ID), <- (get_str_n fs gs Hf F_Type), iri_eqb_refl, fold_eqb_refl. cbn [negb].
      unfold as_kind. replace (cast_ok KObject k) with true by (destruct k; try reflexivity; congruence).
      apply all_cmp_n.
    Qed.

    Lemma intransitive_equals_n p k :
      cast_ok KIntransitive k = true -> intransitive_equals cfg_fixed ieq fs (IObj p k gs) = Ok true.
    Proof.
      intro Hk. unfold intransitive_equals. rewrite nil_guard_obj. unfold as_kind. rewrite Hk.
      rewrite object_equals_n by discriminate. cbn [obind]. rewrite all_cmp_n. reflexivity.
    Qed.
    Lemma activity_equals_n p k :
      cast_ok KActivity k = true -> activity_equals cfg_fixed ieq fs (IObj p k gs) = Ok true.
    Proof.
      intro Hk. unfold activity_equals. rewrite nil_guard_obj. unfold as_kind. rewrite Hk.
      rewrite intransitive_equals_n by reflexivity. cbn [obind]. rewrite all_cmp_n. reflexivity.
    Qed.
    Lemma actor_equals_n p k :
      cast_ok KActor k = true -> actor_equals cfg_fixed ieq fs (IObj p k gs) = Ok true.
    Proof.
      intro Hk. unfold actor_equals. rewrite nil_guard_obj. unfold as_kind. rewrite Hk.
      rewrite object_equals_n by discriminate. cbn [obind]. rewrite all_cmp_n. reflexivity.
    Qed.
    Lemma collection_equals_n p k :
      cast_ok KCollection k = true -> collection_equals cfg_fixed ieq fs (IObj p k gs) = Ok true.
    Proof.
      intro Hk. unfold collection_equals. cbn [is_nil]. fixed_cfg.
      replace (is_collection_m (IObj p k gs)) with true by (destruct k; try discriminate; reflexivity).
      cbn [negb]. unfold as_kind. rewrite Hk.
      rewrite object_equals_n by discriminate. cbn [obind]. rewrite all_cmp_n. reflexivity.
    Qed.
    Lemma page_equals_n p k :
      cast_ok KCollectionPage k = true -> page_equals cfg_fixed ieq fs (IObj p k gs) = Ok true.
    Proof.
      intro Hk. unfold page_equals. cbn [is_nil]. fixed_cfg.
      replace (is_collection_m (IObj p k gs)) with true by (destruct k; try discriminate; reflexivity).
      cbn [negb]. unfold as_kind. rewrite Hk.
      rewrite collection_equals_n by reflexivity. cbn [obind]. rewrite all_cmp_n. reflexivity.
    Qed.
    Lemma ordered_equals_n p k :
      cast_ok KOrdered k = true -> ordered_equals cfg_fixed ieq fs (IObj p k gs) = Ok true.
    Proof.
      intro Hk. unfold ordered_equals. cbn [is_nil]. fixed_cfg.
      replace (is_collection_m (IObj p k gs)) with true by (destruct k; try discriminate; reflexivity).
      cbn [negb]. unfold as_kind. rewrite Hk.
      rewrite collection_equals_n by reflexivity. cbn [obind]. rewrite all_cmp_n. reflexivity.
    Qed.
    Lemma opage_equals_n p k :
      cast_ok KOrderedPage k = true -> opage_equals cfg_fixed ieq fs (IObj p k gs) = Ok true.
    Proof.
      intro Hk. unfold opage_equals. cbn [is_nil]. fixed_cfg.
      replace (is_collection_m (IObj p k gs)) with true by (destruct k; try discriminate; reflexivity).
      cbn [negb]. unfold as_kind. rewrite Hk.
      rewrite ordered_equals_n by reflexivity. cbn [obind]. rewrite all_cmp_n. reflexivity.
    Qed.
    Lemma link_equals_n p : link_equals cfg_fixed ieq fs (IObj p KLink gs) = Ok true.
    Proof.
      unfold link_equals. cbn [is_nil is_link negb orb]. unfold as_kind. cbn [cast_ok].
      rewrite <- (get_str_n fs gs Hf F_ID), <- (get_str_n fs gs Hf F_Type), iri_eqb_refl, fold_eqb_refl. cbn [negb].
      apply all_cmp_n.
    Qed.

    Lemma object_branch_n p k : k <> KLink -> object_branch cfg_fixed ieq (IObj p k fs) (IObj p k gs) = Ok true.
    Proof.
      intro Hk. unfold object_branch. cbn [fields_of].
      assert (Hb : object_equals cfg_fixed ieq fs (IObj p k gs) = Ok true) by (apply object_equals_n; exact Hk).
      unfold as_kind.
      assert (Et : typ (IObj p k gs) = typ (IObj p k fs)).
      { unfold typ. cbn [get_type]. rewrite (get_str_n fs gs Hf F_Type). reflexivity. }
      rewrite Et.
      destruct (tl_contains tl_ActivityTypes _).
      { destruct (cast_ok KActivity k) eqn:E; [apply activity_equals_n; exact E|exact Hb]. }
      destruct (tl_contains tl_ActorTypes _).
      { destruct (cast_ok KActor k) eqn:E; [apply actor_equals_n; exact E|exact Hb]. }
      destruct (is_collection_m _); [|exact Hb].
      destruct (bytes_eqb _ _).
      { destruct (cast_ok KCollection k) eqn:E; [apply collection_equals_n; exact E|exact Hb]. }
      destruct (bytes_eqb _ _).
      { destruct (cast_ok KOrdered k) eqn:E; [apply ordered_equals_n; exact E|exact Hb]. }
      destruct (bytes_eqb _ _).
      { destruct (cast_ok KCollectionPage k) eqn:E; [apply page_equals_n; exact E|exact Hb]. }
      destruct (bytes_eqb _ _).
      { destruct (cast_ok KOrderedPage k) eqn:E; [apply opage_equals_n; exact E|exact Hb]. }
      exact Hb.
    Qed.
  End TwoFields.
End Cmp.

Lemma needs_swap_nsame a b : nsame a b -> is_nil a = false -> needs_swap a b = false.
Proof.
  intros H Hn. unfold needs_swap. rewrite <- (nsame_typ _ _ H).
  pose proof (nsame_inv a b H Hn) as I.
  assert (Ei : is_iri a = is_iri b).
  { destruct a as [|k|p s|p k fs|p [l|]|p l]; destruct b as [|k'|p' s'|p' k' gs|p' [l'|]|p' l']; try reflexivity;
      try contradiction; try discriminate; destruct p; contradiction. }
  rewrite Ei. destruct (is_iri b); cbn [andb negb]; destruct (tl_contains tl_ObjectTypes (typ a)); reflexivity.
Qed.

Lemma ieq_nsame_size n : forall a b, nsame a b -> esize a <= n -> ieq a b = Ok true.
Proof.
  induction n as [|n IH]; intros a b H Ha.
  { pose proof (esize_pos a). lia. }
  rewrite ieq_unfold. unfold items_equal_body.
  rewrite <- (nsame_is_nil _ _ H). destruct (is_nil a) eqn:En; [reflexivity|]. cbn [orb].
  rewrite (needs_swap_nsame a b H En).
  pose proof (nsame_inv a b H En) as I.
  destruct a as [|k|p s|p k fs|p [l|]|p l]; destruct b as [|k'|p' s'|p' k' gs|p' [l'|]|p' l']; try contradiction;
    try discriminate.
  - (* IRIs *) destruct I as [-> ->]. cbn [is_iri orb]. unfold lnk. cbn [get_link]. rewrite iri_eqb_refl. reflexivity.
  - (* structs *)
    destruct I as [-> [-> Hf]]. cbn [is_iri orb is_item_collection]. rewrite esize_obj in Ha.
    destruct (is_object (IObj p' k' fs)) eqn:Eo.
    + assert (Eo' : is_object (IObj p' k' gs) = is_object (IObj p' k' fs)) by reflexivity.
      apply (object_branch_n n IH fs gs Hf); [lia|]. destruct k'; try discriminate; congruence.
    + destruct k'; try discriminate. fixed_cfg. cbn [is_link andb fields_of].
      apply (link_equals_n n IH fs gs Hf). lia.
  - (* lists *)
    assert (I' : p = p' /\ map nilify l = map nilify l') by (destruct p; exact I).
    destruct I' as [-> Hl]. cbn [is_iri orb is_item_collection negb to_item_collection].
    apply (itemcoll_n n IH l (IItems p' (Some l')) l'); try reflexivity.
    + destruct p'; reflexivity.
    + apply map_nilify_forall2. exact Hl.
    + intros x Hx. rewrite esize_items in Ha. apply in_lsize in Hx. lia.
  - (* pointer to a nil list *)
    destruct p; [|contradiction]. destruct p'; [|contradiction].
    cbn [is_iri orb is_item_collection negb to_item_collection].
    apply (itemcoll_n n IH [] (IItems true None) []); try reflexivity; [constructor|intros x []].
  - (* IRI lists *)
    destruct I as [-> ->]. cbn [is_iri orb is_item_collection negb].
    destruct (to_item_collection (IIris p' l')) as [wl|] eqn:El; [|destruct l'; discriminate].
    apply (itemcoll_n n IH wl (IIris p' l') wl); try reflexivity.
    + exact En.
    + exact El.
    + apply forall_forall2_diag. apply Forall_forall. intros; reflexivity.
    + intros x Hx. pose proof (to_item_collection_size _ _ _ El Hx). lia.
Qed.

Theorem ieq_nsame a b : nsame a b -> ieq a b = Ok true.
Proof. intro H. apply (ieq_nsame_size (esize a)); [exact H|apply le_n]. Qed.

Lemma nilify_idem : forall x, nilify (nilify x) = nilify x.
Proof.
  apply (item_ind3 (fun x => nilify (nilify x) = nilify x) (fun v => nilify_fval (nilify_fval v) = nilify_fval v)); try reflexivity.
  - intros p k fs F. rewrite !nilify_obj. f_equal. unfold nilify_fields. rewrite map_map. cbn [fst snd].
    induction F as [|[f v] r Hv Hr IH]; [reflexivity|]. cbn [map fst snd] in *. rewrite IH, Hv. reflexivity.
  - intros p l F. rewrite !nilify_items. do 2 f_equal. rewrite map_map.
    induction F as [|x r Hx Hr IH]; [reflexivity|]. cbn [map]. rewrite IH, Hx. reflexivity.
  - intros i Hi. cbn [nilify_fval]. rewrite Hi. reflexivity.
  - intros l F. rewrite !nilify_fval_items. do 2 f_equal. rewrite map_map.
    induction F as [|x r Hx Hr IH]; [reflexivity|]. cbn [map]. rewrite IH, Hx. reflexivity.
  - intros e F. rewrite !nilify_fval_endp. do 2 f_equal. rewrite map_map. cbn [fst snd].
    induction F as [|[f x] r Hx Hr IH]; [reflexivity|]. cbn [map fst snd] in *. rewrite IH, Hx. reflexivity.
  - intros v Hv. destruct v; try contradiction; try reflexivity. destruct e; [contradiction|reflexivity].
Qed.

(* a value and its untyped twin are equal, in both orders *)
Theorem ieq_nilify x : ieq x (nilify x) = Ok true /\ ieq (nilify x) x = Ok true.
Proof. split; apply ieq_nsame; unfold nsame; rewrite nilify_idem; reflexivity. Qed.
