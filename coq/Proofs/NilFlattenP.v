(* C20, embedded part, the Flatten family (Model/Flatten.v; Flatten<X>Properties through the generated table of
   Gen/FlattenT.v, Model/FlattenTab.v): flattening COMMUTES with the erasure of nil-like items.

     scrub x  (Model/NilEmbed.v) = x with every typed nil pointer, at any depth, replaced by the untyped nil, and
                every property that then holds the untyped nil dropped: the twin x' of the harness;
     nilify x = the same without dropping the properties.

   Item level (Flatten, FlattenItemCollection, FlattenToIRI) - for every id comparison:
       flatten eqv (nilify x) = omap nilify (flatten eqv x)                  no hypothesis at all
       flatten eqv (scrub x)  = omap scrub  (flatten eqv x)                  when no struct of x names a field twice
   Property level (Flatten<X>Properties, FlattenProperties) - for every id comparison and EVERY table:
       flatten_fields_t tbl eqv k (scrub_fields fs) = omap scrub_fields (flatten_fields_t tbl eqv k fs)
   The literal nilify form is FALSE at the property level of the model (a property holding the untyped nil is an
   absent property there: `setf` deletes it), see nilify_fields_form_false.

   The hypothesis `nodupf` (no field list inside the value binds a field twice) holds of every rendering of a Go
   value (a struct has each field once); without it `scrub` can uncover a second binding that `getf` did not see
   (scrub_needs_nodup). *)
From AP.Model Require Import Prelude Vocab Pred IriEq Recip Flatten FlattenTab NilMatrix NilEmbed NilFlatten.
From AP.Gen Require Import TypeLists.
From AP.Proofs Require Import NlvP IriEqP RecipP FlattenP FlattenIdemP FlattenTabP NilEncP.

(* ------------------------------------------------------------------ scrub, unfolded *)
Lemma scrub_obj p k fs : scrub (IObj p k fs) = IObj p k (scrub_fields fs).
Proof. reflexivity. Qed.
Lemma scrub_items p l : scrub (IItems p (Some l)) = IItems p (Some (map scrub l)).
Proof. reflexivity. Qed.
Lemma scrub_fval_items l : scrub_fval (FItems (Some l)) = FItems (Some (map scrub l)).
Proof. reflexivity. Qed.

(* what a field holds after the erasure *)
Definition oscrub (ov : option fval) : option fval :=
  match ov with
  | Some v => let v' := scrub_fval v in if holds_nil v' then None else Some v'
  | None => None
  end.

(* ------------------------------------------------------------------ no field bound twice, at any depth *)
Lemma nodupf_obj p k fs : nodupf (IObj p k fs) = nodupf_fields fs.
Proof.
  cbn [nodupf]. unfold nodupf_fields. f_equal.
  induction fs as [|[f v] r IH]; [reflexivity|]. cbn [forallb snd]. rewrite <- IH. reflexivity.
Qed.
Lemma nodupf_items p l : nodupf (IItems p (Some l)) = forallb nodupf l.
Proof. cbn [nodupf]. induction l as [|x r IH]; [reflexivity|]. cbn [forallb]. rewrite <- IH. reflexivity. Qed.
Lemma nodupf_fval_items l : nodupf_fval (FItems (Some l)) = forallb nodupf l.
Proof. cbn [nodupf_fval]. induction l as [|x r IH]; [reflexivity|]. cbn [forallb]. rewrite <- IH. reflexivity. Qed.

Lemma fids_nd_absent f r : existsb (fid_beq f) (map fst r) = false -> getf f r = None.
Proof.
  induction r as [|[g w] r IH]; [reflexivity|]. cbn [map fst existsb getf]. intro H. apply orb_false_iff in H.
  destruct H as [H1 H2]. rewrite H1. exact (IH H2).
Qed.

Lemma getf_scrub_absent f fs : getf f fs = None -> getf f (scrub_fields fs) = None.
Proof.
  induction fs as [|[g w] r IH]; [reflexivity|]. cbn [getf scrub_fields]. destruct (fid_beq f g) eqn:E; [discriminate|].
  intro H. destruct (holds_nil (scrub_fval w)); [exact (IH H)|]. cbn [getf]. rewrite E. exact (IH H).
Qed.

Lemma getf_scrub f fs : fids_nd (map fst fs) = true -> getf f (scrub_fields fs) = oscrub (getf f fs).
Proof.
  induction fs as [|[g w] r IH]; [reflexivity|]. cbn [map fst fids_nd]. intro H. apply andb_prop in H.
  destruct H as [Hg Hr]. apply negb_true_iff in Hg. cbn [getf scrub_fields].
  destruct (fid_beq f g) eqn:E.
  - apply fid_beq_true in E. subst g. cbn [oscrub]. destruct (holds_nil (scrub_fval w)).
    + apply getf_scrub_absent. apply fids_nd_absent. exact Hg.
    + cbn [getf]. rewrite fid_beq_refl. reflexivity.
  - destruct (holds_nil (scrub_fval w)); [exact (IH Hr)|]. cbn [getf]. rewrite E. exact (IH Hr).
Qed.

Lemma getf_nodupf f fs v : nodupf_fields fs = true -> getf f fs = Some v -> nodupf_fval v = true.
Proof.
  unfold nodupf_fields. intro H. apply andb_prop in H. destruct H as [_ H]. rewrite forallb_forall in H.
  induction fs as [|[g w] r IH]; [discriminate|]. cbn [getf]. destruct (fid_beq f g).
  - intro X. inversion X; subst w. exact (H (g, v) (or_introl eq_refl)).
  - apply IH. intros y Hy. apply H. right. exact Hy.
Qed.

(* the typed accessors after the erasure *)
Lemma holds_nil_scrub_not_item v : (forall i, v <> FItem i) -> holds_nil (scrub_fval v) = false.
Proof.
  destruct v as [i|[l|]| | | | | | | | | |[e|]|]; intro H; try reflexivity. exfalso. exact (H i eq_refl).
Qed.

Lemma get_str_scrub f fs : fids_nd (map fst fs) = true -> get_str f (scrub_fields fs) = get_str f fs.
Proof.
  intro H. unfold get_str. rewrite (getf_scrub f fs H). destruct (getf f fs) as [v|]; [|reflexivity]. cbn [oscrub].
  destruct v as [i|[l|]| | | | | | | | | |[e|]|]; try reflexivity.
  cbn [scrub_fval]. destruct (holds_nil (FItem (scrub i))); reflexivity.
Qed.
Lemma get_item_scrub f fs : fids_nd (map fst fs) = true -> get_item f (scrub_fields fs) = scrub (get_item f fs).
Proof.
  intro H. unfold get_item. rewrite (getf_scrub f fs H). destruct (getf f fs) as [v|]; [|reflexivity]. cbn [oscrub].
  destruct v as [i|[l|]| | | | | | | | | |[e|]|]; try reflexivity.
  cbn [scrub_fval holds_nil]. destruct (scrub i) eqn:E; reflexivity.
Qed.
Lemma get_items_scrub f fs : fids_nd (map fst fs) = true ->
  get_items f (scrub_fields fs) = option_map (map scrub) (get_items f fs).
Proof.
  intro H. unfold get_items. rewrite (getf_scrub f fs H). destruct (getf f fs) as [v|]; [|reflexivity]. cbn [oscrub].
  destruct v as [i|[l|]| | | | | | | | | |[e|]|]; try reflexivity.
  cbn [scrub_fval holds_nil]. destruct (scrub i); reflexivity.
Qed.

(* ------------------------------------------------------------------ the item level, for any erasure g *)
Lemma map_firstn {A B} (g : A -> B) n l : map g (firstn n l) = firstn n (map g l).
Proof. revert l. induction n as [|n IH]; intros [|x r]; try reflexivity. cbn [firstn map]. rewrite IH. reflexivity. Qed.
Lemma map_skipn {A B} (g : A -> B) n l : map g (skipn n l) = skipn n (map g l).
Proof. revert l. induction n as [|n IH]; intros [|x r]; try reflexivity. cbn [skipn map]. apply IH. Qed.

Lemma delete_all_map {A B} (g : A -> B) idxs : forall l, delete_all idxs (map g l) = omap (map g) (delete_all idxs l).
Proof.
  induction idxs as [|i r IH]; intro l; [reflexivity|]. cbn [delete_all]. unfold delete_at. rewrite map_length.
  destruct (i <? length l); [|reflexivity]. cbn [obind].
  rewrite <- map_firstn, <- map_skipn, <- map_app. apply IH.
Qed.

(* what the erasure must leave alone in one item for the flatteners not to tell the difference *)
Definition shallow_same (g : item -> item) (m : item) : Prop :=
  is_nil (g m) = is_nil m /\
  (is_nil m = false ->
   get_link (g m) = get_link m /\ meth_is_object (g m) = meth_is_object m /\ meth_is_link (g m) = meth_is_link m).

Definition cv_map (g : item -> item) (c : coll_view) : coll_view :=
  match c with CVItems l => CVItems (option_map (map g) l) | _ => c end.
Definition cv_members (c : coll_view) : list item := match c with CVItems (Some l) => l | _ => [] end.

Section Shallow.
  Variable eqv : bytes -> bytes -> bool.
  Variable g : item -> item.
  Hypothesis g_nil : g INil = INil.
  Hypothesis g_iri : forall p s, g (IIri p s) = IIri p s.
  Hypothesis g_list : forall l, g (IItems false (Some l)) = IItems false (Some (map g l)).

  Lemma entry_key_g m : shallow_same g m -> entry_key (g m) = entry_key m.
  Proof.
    intros [H1 H]. unfold entry_key, entry_key_body. rewrite H1. destruct (is_nil m); [reflexivity|].
    destruct (H eq_refl) as [H2 [H3 H4]]. rewrite H2, H3, H4. reflexivity.
  Qed.

  Lemma flatten_to_iri_g m : shallow_same g m -> flatten_to_iri (g m) = g (flatten_to_iri m).
  Proof.
    intros [H1 H]. unfold flatten_to_iri, objectish, link_of. rewrite H1. destruct (is_nil m); [reflexivity|].
    destruct (H eq_refl) as [H2 [H3 H4]]. rewrite H2, H3.
    destruct (negb false && _ && _); [|reflexivity]. symmetry. apply g_iri.
  Qed.

  Lemma scan_g l : Forall (shallow_same g) l -> forall i rec rem, scan eqv i (map g l) rec rem = scan eqv i l rec rem.
  Proof.
    induction 1 as [|m r Hm Hr IH]; intros i rec rem; [reflexivity|]. cbn [map scan]. rewrite (entry_key_g m Hm).
    destruct (entry_key m) as [[t|]| | |]; cbn [obind]; try reflexivity; apply IH.
  Qed.

  Lemma flatten_items_unfold l :
    flatten_items eqv (Some l) =
    obind (scan eqv 0 l [] []) (fun '(_, rem) =>
      obind (delete_all (sort_desc rem) l) (fun l' => Ok (Some (map flatten_to_iri l')))).
  Proof.
    unfold flatten_items, dedup. cbn [dedup_from dedup_one]. destruct (scan eqv 0 l [] []) as [[rec rem]| | |]; try reflexivity.
    cbn [obind]. destruct (delete_all (sort_desc rem) l); reflexivity.
  Qed.

  Lemma delete_all_forall {A} (P : A -> Prop) idxs : forall (l r : list A), Forall P l -> delete_all idxs l = Ok r -> Forall P r.
  Proof.
    intros l r HP H. rewrite Forall_forall in *. intros x Hx. apply HP.
    exact (subseq_In _ _ x (delete_all_subseq idxs l r H) Hx).
  Qed.

  Lemma flatten_items_g c : Forall (shallow_same g) (cv_members (CVItems c)) ->
    flatten_items eqv (option_map (map g) c) = omap (option_map (map g)) (flatten_items eqv c).
  Proof.
    destruct c as [l|]; [|reflexivity]. cbn [cv_members option_map]. intro H.
    rewrite !flatten_items_unfold, (scan_g l H). destruct (scan eqv 0 l [] []) as [[rec rem]| | |]; try reflexivity.
    cbn [obind omap]. rewrite delete_all_map. destruct (delete_all (sort_desc rem) l) as [l'| | |] eqn:E; try reflexivity.
    cbn [omap obind option_map]. do 2 f_equal. rewrite !map_map.
    pose proof (delete_all_forall _ _ l l' H E) as H'. clear E.
    induction H' as [|m r Hm Hr IH]; [reflexivity|]. cbn [map]. rewrite IH, (flatten_to_iri_g m Hm). reflexivity.
  Qed.

  Lemma normalize_g c : g (normalize c) = normalize (option_map (map g) c).
  Proof.
    destruct c as [[|x [|y r]]|]; cbn [normalize option_map map]; try exact g_nil; [reflexivity|].
    rewrite g_list. reflexivity.
  Qed.

  (* Flatten *)
  Lemma flatten_g x : shallow_same g x -> coll_view_of (g x) = cv_map g (coll_view_of x) ->
    Forall (shallow_same g) (cv_members (coll_view_of x)) ->
    flatten eqv (g x) = omap g (flatten eqv x).
  Proof.
    intros Hx Hv Hm. unfold flatten. rewrite (proj1 Hx), Hv. destruct (is_nil x); [cbn [omap obind]; rewrite g_nil; reflexivity|].
    destruct (coll_view_of x) as [c| | |]; cbn [cv_map]; try reflexivity.
    - rewrite (flatten_items_g c Hm). destruct (flatten_items eqv c) as [c'| | |]; try reflexivity.
      cbn [omap obind]. rewrite normalize_g. reflexivity.
    - cbn [omap obind]. rewrite (flatten_to_iri_g x Hx). reflexivity.
  Qed.
End Shallow.

(* ---- the erasure that keeps the properties: no hypothesis ---- *)
Lemma shallow_same_nilify m : shallow_same nilify m.
Proof.
  unfold shallow_same. destruct m as [|k|p s|p k fs|p [l|]|p l]; try (split; [reflexivity|]; intro N; try discriminate N; repeat split; reflexivity).
  rewrite nilify_obj. split; [reflexivity|]. intros _. repeat split.
  - cbn [get_link]. unfold get_str. rewrite getf_nilify_fields. destruct (getf F_ID fs) as [v|]; [|reflexivity].
    destruct v as [i|[l|]| | | | | | | | | |[e|]|]; reflexivity.
  - destruct k; try reflexivity. cbn [meth_is_object]. unfold get_str. rewrite getf_nilify_fields.
    destruct (getf F_Type fs) as [v|]; [|reflexivity]. destruct v as [i|[l|]| | | | | | | | | |[e|]|]; reflexivity.
  - destruct k; try reflexivity. cbn [meth_is_link]. unfold get_str. rewrite getf_nilify_fields.
    destruct (getf F_Type fs) as [v|]; [|reflexivity]. destruct v as [i|[l|]| | | | | | | | | |[e|]|]; reflexivity.
Qed.

Lemma get_str_nilify f fs : get_str f (nilify_fields fs) = get_str f fs.
Proof.
  unfold get_str. rewrite getf_nilify_fields. destruct (getf f fs) as [v|]; [|reflexivity].
  destruct v as [i|[l|]| | | | | | | | | |[e|]|]; reflexivity.
Qed.
Lemma get_items_nilify f fs : get_items f (nilify_fields fs) = option_map (map nilify) (get_items f fs).
Proof.
  unfold get_items. rewrite getf_nilify_fields. destruct (getf f fs) as [v|]; [|reflexivity].
  destruct v as [i|[l|]| | | | | | | | | |[e|]|]; reflexivity.
Qed.

Lemma map_iri_fix (g : item -> item) (s : list bytes) : (forall p t, g (IIri p t) = IIri p t) ->
  map g (map (IIri false) s) = map (IIri false) s.
Proof. intro H. rewrite map_map. apply map_ext. intro a. apply H. Qed.

Lemma coll_view_nilify x : coll_view_of (nilify x) = cv_map nilify (coll_view_of x).
Proof.
  destruct x as [|k|p s|p k fs|p [l|]|p [s|]]; try reflexivity.
  - rewrite nilify_obj. cbn [coll_view_of]. destruct p; [|destruct (coll_type_of k); reflexivity].
    destruct (coll_type_of k) as [t|]; [|reflexivity]. rewrite get_str_nilify.
    destruct (bytes_eqb (get_str F_Type fs) t); [|destruct (is_coll_type_name _); reflexivity].
    cbn [cv_map]. f_equal. destruct k; apply get_items_nilify.
  - cbn [nilify coll_view_of cv_map option_map]. rewrite (map_iri_fix nilify s); reflexivity.
Qed.

Theorem flatten_nilify eqv x : flatten eqv (nilify x) = omap nilify (flatten eqv x).
Proof.
  apply flatten_g; try reflexivity.
  - apply shallow_same_nilify.
  - apply coll_view_nilify.
  - apply Forall_forall. intros m _. apply shallow_same_nilify.
Qed.
Theorem flatten_items_nilify eqv c :
  flatten_items eqv (option_map (map nilify) c) = omap (option_map (map nilify)) (flatten_items eqv c).
Proof. apply flatten_items_g; [reflexivity|]. apply Forall_forall. intros m _. apply shallow_same_nilify. Qed.

(* ---- the erasure that drops the properties: the twin ---- *)
Definition own_nodup (m : item) : bool := match m with IObj _ _ fs => fids_nd (map fst fs) | _ => true end.
Lemma nodupf_own m : nodupf m = true -> own_nodup m = true.
Proof. destruct m as [|k|p s|p k fs|p l|p l]; try reflexivity. rewrite nodupf_obj. unfold nodupf_fields. intro H. apply andb_prop in H. exact (proj1 H). Qed.

Lemma shallow_same_scrub m : own_nodup m = true -> shallow_same scrub m.
Proof.
  unfold shallow_same. destruct m as [|k|p s|p k fs|p [l|]|p l];
    try (intros _; split; [reflexivity|]; intro N; try discriminate N; repeat split; reflexivity). cbn [own_nodup]. intro H.
  rewrite scrub_obj. split; [reflexivity|]. intros _. repeat split.
  - cbn [get_link]. rewrite (get_str_scrub _ _ H). reflexivity.
  - destruct k; try reflexivity. cbn [meth_is_object]. rewrite (get_str_scrub _ _ H). reflexivity.
  - destruct k; try reflexivity. cbn [meth_is_link]. rewrite (get_str_scrub _ _ H). reflexivity.
Qed.

Lemma coll_view_scrub x : own_nodup x = true -> coll_view_of (scrub x) = cv_map scrub (coll_view_of x).
Proof.
  destruct x as [|k|p s|p k fs|p [l|]|p [s|]]; try reflexivity; intro H.
  - cbn [own_nodup] in H. rewrite scrub_obj. cbn [coll_view_of]. destruct p; [|destruct (coll_type_of k); reflexivity].
    destruct (coll_type_of k) as [t|]; [|reflexivity]. rewrite (get_str_scrub _ _ H).
    destruct (bytes_eqb (get_str F_Type fs) t); [|destruct (is_coll_type_name _); reflexivity].
    cbn [cv_map]. f_equal. destruct k; apply get_items_scrub; exact H.
  - cbn [scrub coll_view_of cv_map option_map]. rewrite (map_iri_fix scrub s); reflexivity.
Qed.

Lemma forallb_nodupf_shallow l : forallb nodupf l = true -> Forall (shallow_same scrub) l.
Proof.
  intro H. rewrite forallb_forall in H. apply Forall_forall. intros m Hm. apply shallow_same_scrub, nodupf_own, H, Hm.
Qed.

Lemma cv_members_nodupf x : nodupf x = true -> forallb nodupf (cv_members (coll_view_of x)) = true.
Proof.
  destruct x as [|k|p s|p k fs|p [l|]|p [s|]]; try reflexivity.
  - rewrite nodupf_obj. intro H. cbn [coll_view_of]. destruct p; [|destruct (coll_type_of k); reflexivity].
    destruct (coll_type_of k) as [t|]; [|reflexivity].
    destruct (bytes_eqb (get_str F_Type fs) t); [|destruct (is_coll_type_name _); reflexivity].
    cbn [cv_members].
    assert (X : forall f, match get_items f fs with Some l => forallb nodupf l = true | None => True end).
    { intro f. unfold get_items. destruct (getf f fs) as [v|] eqn:E; [|exact I].
      destruct v as [i|[l|]| | | | | | | | | |[e|]|]; try exact I.
      rewrite <- nodupf_fval_items. exact (getf_nodupf f fs _ H E). }
    destruct k; first [ specialize (X F_Items); destruct (get_items F_Items fs); [exact X|reflexivity]
                      | specialize (X F_OrderedItems); destruct (get_items F_OrderedItems fs); [exact X|reflexivity] ].
  - rewrite nodupf_items. intro H. exact H.
  - intros _. cbn [coll_view_of cv_members]. apply forallb_forall. intros m Hm. apply in_map_iff in Hm.
    destruct Hm as [a [Ha _]]. subst m. reflexivity.
Qed.

Theorem flatten_items_scrub eqv c : match c with Some l => forallb nodupf l = true | None => True end ->
  flatten_items eqv (option_map (map scrub) c) = omap (option_map (map scrub)) (flatten_items eqv c).
Proof.
  intro H. apply flatten_items_g; [reflexivity|]. destruct c as [l|]; [|constructor].
  apply forallb_nodupf_shallow. exact H.
Qed.

Theorem flatten_scrub eqv x : nodupf x = true -> flatten eqv (scrub x) = omap scrub (flatten eqv x).
Proof.
  intro H. apply flatten_g; try reflexivity.
  - apply shallow_same_scrub, nodupf_own, H.
  - apply coll_view_scrub, nodupf_own, H.
  - apply forallb_nodupf_shallow, cv_members_nodupf, H.
Qed.

Lemma flatten_to_iri_scrub m : nodupf m = true -> flatten_to_iri (scrub m) = scrub (flatten_to_iri m).
Proof. intro H. apply flatten_to_iri_g; [reflexivity|]. apply shallow_same_scrub, nodupf_own, H. Qed.

(* ---- the flatteners keep "no field bound twice" ---- *)
Lemma nodupf_flatten_to_iri m : nodupf m = true -> nodupf (flatten_to_iri m) = true.
Proof. intro H. unfold flatten_to_iri. destruct (_ && _); [reflexivity|exact H]. Qed.

Lemma nodupf_flatten_items eqv c c' : match c with Some l => forallb nodupf l = true | None => True end ->
  flatten_items eqv c = Ok c' -> match c' with Some l => forallb nodupf l = true | None => True end.
Proof.
  destruct c as [l|]; [|intros _ H; inversion H; exact I]. intro H. rewrite flatten_items_unfold.
  destruct (scan eqv 0 l [] []) as [[rec rem]| | |]; try discriminate. cbn [obind].
  destruct (delete_all (sort_desc rem) l) as [l'| | |] eqn:E; try discriminate. cbn [obind]. intro X. inversion X; subst c'.
  apply forallb_forall. intros y Hy. apply in_map_iff in Hy. destruct Hy as [m [Hm Hin]]. subst y.
  apply nodupf_flatten_to_iri. rewrite forallb_forall in H. apply H.
  exact (subseq_In _ _ m (delete_all_subseq _ l l' E) Hin).
Qed.

Lemma nodupf_normalize c : match c with Some l => forallb nodupf l = true | None => True end -> nodupf (normalize c) = true.
Proof.
  destruct c as [[|x [|y r]]|]; try reflexivity; intro H.
  - cbn [forallb] in H. apply andb_prop in H. exact (proj1 H).
  - cbn [normalize]. rewrite nodupf_items. exact H.
Qed.

Lemma nodupf_flatten eqv x y : nodupf x = true -> flatten eqv x = Ok y -> nodupf y = true.
Proof.
  intro H. unfold flatten. destruct (is_nil x); [intro X; inversion X; reflexivity|].
  pose proof (cv_members_nodupf x H) as Hm.
  destruct (coll_view_of x) as [c| | |]; try discriminate.
  - destruct (flatten_items eqv c) as [c'| | |] eqn:E; try discriminate. cbn [omap obind]. intro X. inversion X; subst y.
    apply nodupf_normalize. apply (nodupf_flatten_items eqv c c'); [|exact E]. destruct c as [l|]; [exact Hm|exact I].
  - intro X. inversion X; subst y. exact H.
  - intro X. inversion X; subst y. apply nodupf_flatten_to_iri, H.
Qed.

(* ------------------------------------------------------------------ the property level *)
(* setting a field, then erasing = erasing, then setting the erased value - provided that a field whose old value
   the erasure drops gets a new value that the erasure drops too *)
Lemma fval_zero_scrub v : fval_is_zero (scrub_fval v) = fval_is_zero v || holds_nil (scrub_fval v).
Proof.
  destruct v as [i|[l|]| | | | | | | | | |[e|]|]; try (rewrite orb_false_r; reflexivity).
  cbn [scrub_fval holds_nil fval_is_zero]. destruct i; reflexivity.
Qed.

Lemma scrub_delf f fs : scrub_fields (delf f fs) = delf f (scrub_fields fs).
Proof.
  induction fs as [|[g w] r IH]; [reflexivity|]. cbn [delf scrub_fields]. destruct (fid_beq f g) eqn:E.
  - destruct (holds_nil (scrub_fval w)); [exact IH|]. cbn [delf]. rewrite E. exact IH.
  - cbn [scrub_fields]. destruct (holds_nil (scrub_fval w)); [exact IH|]. cbn [delf]. rewrite E, IH. reflexivity.
Qed.

Lemma delf_scrub_absent f fs : getf f fs = None -> delf f (scrub_fields fs) = scrub_fields fs.
Proof. intro H. apply delf_absent, getf_scrub_absent, H. Qed.

Lemma scrub_replf f v fs : fids_nd (map fst fs) = true ->
  (forall old, getf f fs = Some old -> holds_nil (scrub_fval old) = true -> holds_nil (scrub_fval v) = true) ->
  scrub_fields (replf f v fs) =
  if holds_nil (scrub_fval v) then delf f (scrub_fields fs) else replf f (scrub_fval v) (scrub_fields fs).
Proof.
  induction fs as [|[g w] r IH]; intros Hnd Hold.
  - cbn [replf scrub_fields delf]. destruct (holds_nil (scrub_fval v)); reflexivity.
  - cbn [map fst fids_nd] in Hnd. apply andb_prop in Hnd. destruct Hnd as [Hg Hr]. apply negb_true_iff in Hg.
    cbn [replf getf] in *. destruct (fid_beq f g) eqn:E.
    + apply fid_beq_true in E. subst g. cbn [scrub_fields].
      pose proof (fids_nd_absent f r Hg) as Habs.
      destruct (holds_nil (scrub_fval v)) eqn:Hv.
      * destruct (holds_nil (scrub_fval w)).
        -- symmetry. apply delf_scrub_absent, Habs.
        -- cbn [delf]. rewrite fid_beq_refl. symmetry. apply delf_scrub_absent, Habs.
      * destruct (holds_nil (scrub_fval w)) eqn:Hw.
        -- discriminate (Hold w eq_refl Hw).
        -- cbn [replf]. rewrite fid_beq_refl. reflexivity.
    + cbn [scrub_fields]. rewrite (IH Hr Hold).
      destruct (holds_nil (scrub_fval w)); [reflexivity|].
      destruct (holds_nil (scrub_fval v)); cbn [delf replf]; rewrite E; reflexivity.
Qed.

Lemma scrub_setf f v fs : fids_nd (map fst fs) = true ->
  (forall old, getf f fs = Some old -> holds_nil (scrub_fval old) = true -> fval_is_zero (scrub_fval v) = true) ->
  scrub_fields (setf f v fs) = setf f (scrub_fval v) (scrub_fields fs).
Proof.
  intros Hnd Hold. unfold setf. rewrite fval_zero_scrub. destruct (fval_is_zero v) eqn:Z.
  - cbn [orb]. apply scrub_delf.
  - cbn [orb]. rewrite (scrub_replf f v fs Hnd); [reflexivity|].
    intros old E Ho. specialize (Hold old E Ho). rewrite fval_zero_scrub, Z in Hold. exact Hold.
Qed.

(* setf keeps the invariant *)
Lemma fids_delf f fs : map fst (delf f fs) = filter (fun g => negb (fid_beq f g)) (map fst fs).
Proof.
  induction fs as [|[g w] r IH]; [reflexivity|]. cbn [delf map fst filter]. destruct (fid_beq f g); cbn [negb map fst]; rewrite IH; reflexivity.
Qed.
Lemma existsb_filter_false {A} (p q : A -> bool) l : existsb p l = false -> existsb p (filter q l) = false.
Proof.
  induction l as [|x r IH]; [reflexivity|]. cbn [existsb filter]. intro H. apply orb_false_iff in H. destruct H as [H1 H2].
  destruct (q x); [cbn [existsb]; rewrite H1|]; exact (IH H2).
Qed.
Lemma fids_nd_filter q l : fids_nd l = true -> fids_nd (filter q l) = true.
Proof.
  induction l as [|x r IH]; [reflexivity|]. cbn [fids_nd filter]. intro H. apply andb_prop in H. destruct H as [H1 H2].
  destruct (q x); [|exact (IH H2)]. cbn [fids_nd]. rewrite (IH H2), andb_true_r. apply negb_true_iff in H1.
  apply negb_true_iff. apply existsb_filter_false. exact H1.
Qed.
Lemma fids_replf_present f v fs : getf f fs <> None -> map fst (replf f v fs) = map fst fs.
Proof.
  induction fs as [|[g w] r IH]; [intro H; contradiction H; reflexivity|]. cbn [getf replf]. destruct (fid_beq f g) eqn:E.
  - intros _. apply fid_beq_true in E. subst g. reflexivity.
  - intro H. cbn [map fst]. rewrite (IH H). reflexivity.
Qed.
Lemma fids_replf_absent f v fs : getf f fs = None -> map fst (replf f v fs) = map fst fs ++ [f].
Proof.
  induction fs as [|[g w] r IH]; [reflexivity|]. cbn [getf replf]. destruct (fid_beq f g); [discriminate|].
  intro H. cbn [map fst app]. rewrite (IH H). reflexivity.
Qed.
Lemma getf_none_existsb f fs : getf f fs = None -> forall g, In g (map fst fs) -> fid_beq g f = false.
Proof.
  induction fs as [|[h w] r IH]; [intros _ g []|]. cbn [getf map fst]. destruct (fid_beq f h) eqn:E; [discriminate|].
  intros H g [Hg|Hg]; [subst h|exact (IH H g Hg)].
  destruct (fid_beq g f) eqn:X; [|reflexivity]. apply fid_beq_true in X. subst g. rewrite fid_beq_refl in E. discriminate.
Qed.
Lemma fids_nd_snoc l f : fids_nd l = true -> (forall g, In g l -> fid_beq g f = false) -> fids_nd (l ++ [f]) = true.
Proof.
  induction l as [|x r IH]; [reflexivity|]. cbn [fids_nd app]. intros H Hf. apply andb_prop in H. destruct H as [H1 H2].
  rewrite (IH H2 (fun g Hg => Hf g (or_intror Hg))), andb_true_r. apply negb_true_iff. apply negb_true_iff in H1.
  rewrite existsb_app, H1. cbn [existsb orb]. rewrite (Hf x (or_introl eq_refl)). reflexivity.
Qed.

Lemma forallb_delf (P : fval -> bool) f fs :
  forallb (fun fv => P (snd fv)) fs = true -> forallb (fun fv => P (snd fv)) (delf f fs) = true.
Proof.
  induction fs as [|[g w] r IH]; [reflexivity|]. cbn [forallb delf snd]. intro H. apply andb_prop in H. destruct H as [H1 H2].
  destruct (fid_beq f g); [exact (IH H2)|]. cbn [forallb snd]. rewrite H1. exact (IH H2).
Qed.
Lemma forallb_replf (P : fval -> bool) f v fs : P v = true ->
  forallb (fun fv => P (snd fv)) fs = true -> forallb (fun fv => P (snd fv)) (replf f v fs) = true.
Proof.
  intro Hv. induction fs as [|[g w] r IH]; [intros _; cbn [replf forallb snd]; rewrite Hv; reflexivity|].
  cbn [forallb replf snd]. intro H. apply andb_prop in H. destruct H as [H1 H2].
  destruct (fid_beq f g); cbn [forallb snd]; [rewrite Hv; exact H2|rewrite H1; exact (IH H2)].
Qed.

Lemma nodupf_setf f v fs : nodupf_fval v = true -> nodupf_fields fs = true -> nodupf_fields (setf f v fs) = true.
Proof.
  unfold nodupf_fields. intros Hv H. apply andb_prop in H. destruct H as [H1 H2]. unfold setf.
  destruct (fval_is_zero v).
  - rewrite fids_delf, (fids_nd_filter _ _ H1). exact (forallb_delf nodupf_fval f fs H2).
  - rewrite (forallb_replf nodupf_fval f v fs Hv H2), andb_true_r.
    destruct (getf f fs) eqn:E.
    + rewrite fids_replf_present by (rewrite E; discriminate). exact H1.
    + rewrite (fids_replf_absent f v fs E). apply fids_nd_snoc; [exact H1|]. apply getf_none_existsb. exact E.
Qed.

(* one statement `x.F = Helper(x.F)` *)
Lemma item_of_oscrub ov : item_of (oscrub ov) = scrub (item_of ov).
Proof.
  destruct ov as [v|]; [|reflexivity]. cbn [oscrub].
  destruct v as [i|[l|]| | | | | | | | | |[e|]|]; try reflexivity.
  cbn [scrub_fval holds_nil item_of]. destruct (scrub i) eqn:E; cbn [item_of]; congruence.
Qed.
Lemma items_of_oscrub ov : items_of (oscrub ov) = option_map (map scrub) (items_of ov).
Proof.
  destruct ov as [v|]; [|reflexivity]. cbn [oscrub].
  destruct v as [i|[l|]| | | | | | | | | |[e|]|]; try reflexivity.
  cbn [scrub_fval holds_nil]. destruct (scrub i); reflexivity.
Qed.

Definition onodupf (ov : option fval) : bool := match ov with Some v => nodupf_fval v | None => true end.
Lemma item_of_nodupf ov : onodupf ov = true -> nodupf (item_of ov) = true.
Proof. destruct ov as [v|]; [|reflexivity]. destruct v as [i|[l|]| | | | | | | | | |[e|]|]; try reflexivity. intro H. exact H. Qed.
Lemma items_of_nodupf ov : onodupf ov = true -> match items_of ov with Some l => forallb nodupf l = true | None => True end.
Proof.
  destruct ov as [v|]; [|intros _; exact I]. destruct v as [i|[l|]| | | | | | | | | |[e|]|]; try (intros _; exact I).
  cbn [onodupf items_of]. rewrite nodupf_fval_items. intro H. exact H.
Qed.

Section Steps.
  Variable eqv : bytes -> bytes -> bool.

  Lemma act_scrub s ov : onodupf ov = true -> act eqv s (oscrub ov) = omap scrub_fval (act eqv s ov).
  Proof.
    intro H. destruct s as [f|f|f]; cbn [act].
    - rewrite item_of_oscrub. unfold flat_item. rewrite (flatten_to_iri_scrub _ (item_of_nodupf ov H)). reflexivity.
    - rewrite item_of_oscrub, (flatten_scrub eqv _ (item_of_nodupf ov H)).
      destruct (flatten eqv (item_of ov)); reflexivity.
    - rewrite items_of_oscrub, (flatten_items_scrub eqv _ (items_of_nodupf ov H)).
      destruct (flatten_items eqv (items_of ov)) as [[l|]| | |]; reflexivity.
  Qed.

  Lemma act_nodupf s ov v : onodupf ov = true -> act eqv s ov = Ok v -> nodupf_fval v = true.
  Proof.
    intro H. destruct s as [f|f|f]; cbn [act].
    - intro X. inversion X. cbn [nodupf_fval]. apply nodupf_flatten_to_iri, item_of_nodupf, H.
    - destruct (flatten eqv (item_of ov)) as [y| | |] eqn:E; try discriminate. cbn [omap obind]. intro X. inversion X.
      cbn [nodupf_fval]. exact (nodupf_flatten eqv _ y (item_of_nodupf ov H) E).
    - destruct (flatten_items eqv (items_of ov)) as [c'| | |] eqn:E; try discriminate. cbn [omap obind]. intro X. inversion X.
      pose proof (nodupf_flatten_items eqv _ c' (items_of_nodupf ov H) E) as Y. destruct c' as [l|]; [|reflexivity].
      rewrite nodupf_fval_items. exact Y.
  Qed.

  (* a nil-like property stays nil-like under every kind of step *)
  Lemma act_nil_stays s old v : holds_nil (scrub_fval old) = true -> act eqv s (Some old) = Ok v ->
    fval_is_zero (scrub_fval v) = true.
  Proof.
    destruct old as [i|[l|]| | | | | | | | | |[e|]|]; try discriminate. cbn [scrub_fval holds_nil].
    destruct i as [|k|p t|p k fs|p [l|]|p l]; try discriminate; intros _; destruct s as [f|f|f]; cbn [act item_of items_of];
      intro X; inversion X; reflexivity.
  Qed.

  Lemma getf_onodupf f fs : nodupf_fields fs = true -> onodupf (getf f fs) = true.
  Proof. intro H. destruct (getf f fs) as [v|] eqn:E; [exact (getf_nodupf f fs v H E)|reflexivity]. Qed.

  Lemma run_steps_scrub ss : forall fs, nodupf_fields fs = true ->
    run_steps (flatten eqv) (flatten_items eqv) ss (scrub_fields fs)
    = omap scrub_fields (run_steps (flatten eqv) (flatten_items eqv) ss fs).
  Proof.
    induction ss as [|s r IH]; intros fs H; [reflexivity|]. cbn [run_steps]. rewrite !run_step_act.
    pose proof H as H0. unfold nodupf_fields in H0. apply andb_prop in H0. destruct H0 as [Hnd _].
    rewrite (getf_scrub _ fs Hnd), (act_scrub s _ (getf_onodupf _ fs H)).
    destruct (act eqv s (getf (step_fid s) fs)) as [v| | |] eqn:A; try reflexivity. cbn [omap obind].
    rewrite <- (scrub_setf (step_fid s) v fs Hnd).
    - apply IH. apply nodupf_setf; [|exact H]. exact (act_nodupf s _ v (getf_onodupf _ fs H) A).
    - intros old E Hold. rewrite E in A. exact (act_nil_stays s old v Hold A).
  Qed.

  Theorem flatten_fields_scrub k fs : nodupf_fields fs = true ->
    flatten_fields eqv k (scrub_fields fs) = omap scrub_fields (flatten_fields eqv k fs).
  Proof. intro H. rewrite !flatten_fields_steps. apply run_steps_scrub, H. Qed.

  (* Flatten<X>Properties as ANY table says they are: whatever statements of the recognised forms
     (x.F = FlattenToIRI(x.F) / Flatten(x.F) / FlattenItemCollection(x.F), delegations) the functions consist of *)
  Theorem flatten_fields_t_scrub tbl k fs : nodupf_fields fs = true ->
    flatten_fields_t tbl eqv k (scrub_fields fs) = omap scrub_fields (flatten_fields_t tbl eqv k fs).
  Proof. intro H. unfold flatten_fields_t. destruct (steps_t tbl k) as [ss|]; [apply run_steps_scrub, H|reflexivity]. Qed.

  (* FlattenProperties *)
  Theorem flatten_properties_scrub x : nodupf x = true ->
    flatten_properties eqv (scrub x) = omap scrub (flatten_properties eqv x).
  Proof.
    intro H. unfold flatten_properties. rewrite (proj1 (shallow_same_scrub x (nodupf_own x H))).
    destruct (is_nil x); [reflexivity|].
    destruct x as [|k|p s|p k fs|p l|p l]; try reflexivity; [|destruct l; reflexivity].
    rewrite scrub_obj. destruct p; [|reflexivity]. rewrite nodupf_obj in H.
    pose proof H as H0. unfold nodupf_fields in H0. apply andb_prop in H0. destruct H0 as [Hnd _].
    rewrite (get_str_scrub F_Type fs Hnd).
    assert (W : forall fk, omap (fun fs' => IObj true k fs') (flatten_fields eqv fk (scrub_fields fs))
                           = omap scrub (omap (fun fs' => IObj true k fs') (flatten_fields eqv fk fs))).
    { intro fk. rewrite (flatten_fields_scrub fk fs H). destruct (flatten_fields eqv fk fs); reflexivity. }
    destruct k; try reflexivity;
      repeat match goal with |- context [if ?c then _ else _] => destruct c end;
      first [apply W | reflexivity].
  Qed.
End Steps.

(* ------------------------------------------------------------------ the hypotheses are needed / the other form is false *)
(* without "no field bound twice" the erasure uncovers a binding that the accessors did not see *)
Lemma scrub_needs_nodup :
  exists x, nodupf x = false /\
    flatten ideq (scrub x) <> omap scrub (flatten ideq x).
Proof.
  exists (IObj true KObject [(F_ID, FItem (ITNil KObject)); (F_ID, FStr (B "https://a.example/1"))]).
  split; [reflexivity|]. vm_compute. discriminate.
Qed.

(* at the property level the erasure that keeps properties does NOT commute literally: the model removes a property
   that is assigned the untyped nil *)
Lemma nilify_fields_form_false :
  exists fs, nodupf_fields fs = true /\
    flatten_fields ideq FKActivity (nilify_fields fs) <> omap nilify_fields (flatten_fields ideq FKActivity fs) /\
    flatten_fields ideq FKActivity (scrub_fields fs) = omap scrub_fields (flatten_fields ideq FKActivity fs).
Proof.
  exists [(F_Actor, FItem (ITNil KActor))]. split; [reflexivity|]. split; [vm_compute; discriminate|vm_compute; reflexivity].
Qed.

(* ------------------------------------------------------------------ the erasure is idempotent; the weaker form *)
Fixpoint scrub_endp (e : list (fid * item)) : list (fid * item) :=
  match e with
  | [] => []
  | (f, x) :: r => match scrub x with INil => scrub_endp r | x' => (f, x') :: scrub_endp r end
  end.
Lemma scrub_fval_endp e : scrub_fval (FEndpoints (Some e)) = FEndpoints (Some (scrub_endp e)).
Proof. reflexivity. Qed.

Lemma scrub_idem : forall x, scrub (scrub x) = scrub x.
Proof.
  apply (item_ind3 (fun x => scrub (scrub x) = scrub x) (fun v => scrub_fval (scrub_fval v) = scrub_fval v)); try reflexivity.
  - intros p k fs F. rewrite !scrub_obj. f_equal.
    induction F as [|[f v] r Hv Hr IH]; [reflexivity|]. cbn [snd] in Hv. cbn [scrub_fields].
    destruct (holds_nil (scrub_fval v)) eqn:E; [exact IH|]. cbn [scrub_fields]. rewrite Hv, E, IH. reflexivity.
  - intros p l F. rewrite !scrub_items, map_map. do 2 f_equal.
    induction F as [|x r Hx Hr IH]; [reflexivity|]. cbn [map]. rewrite Hx, IH. reflexivity.
  - intros i Hi. cbn [scrub_fval]. rewrite Hi. reflexivity.
  - intros l F. rewrite !scrub_fval_items, map_map. do 2 f_equal.
    induction F as [|x r Hx Hr IH]; [reflexivity|]. cbn [map]. rewrite Hx, IH. reflexivity.
  - intros e F. rewrite !scrub_fval_endp. do 2 f_equal.
    induction F as [|[f x] r Hx Hr IH]; [reflexivity|]. cbn [snd] in Hx. cbn [scrub_endp].
    destruct (scrub x) eqn:E; try exact IH; cbn [scrub_endp]; rewrite Hx, IH; reflexivity.
  - intros v Hv. destruct v as [i|[l|]| | | | | | | | | |[e|]|]; try contradiction; reflexivity.
Qed.

(* flattening x and flattening its twin agree after the erasure *)
Theorem flatten_scrub_weak eqv x : nodupf x = true ->
  omap scrub (flatten eqv (scrub x)) = omap scrub (flatten eqv x).
Proof.
  intro H. rewrite (flatten_scrub eqv x H). destruct (flatten eqv x); try reflexivity. cbn [omap obind].
  rewrite scrub_idem. reflexivity.
Qed.
