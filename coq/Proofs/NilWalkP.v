(* C20, embedded part, the walkers: Clean / CleanRecipients (Model/Clean.v), the Flatten family (Model/Flatten.v),
   Recipients (Model/Recip.v), over values of any depth with nil-like items anywhere inside. *)
From AP.Model Require Import Prelude Vocab Pred IriEq Recip Flatten Clean NilMatrix NilEmbed.
From AP.Gen Require Import TypeLists.
From AP.Proofs Require Import NlvP IriEqP RecipP FlattenP FlattenIdemP CleanP NilEncP.

Lemma is_nil_nilify x : is_nil (nilify x) = is_nil x.
Proof. destruct x as [|k|p s|p k fs|p [l|]|p l]; try reflexivity. Qed.

Lemma nil_like_is_nil n : nil_like n = true -> is_nil n = true.
Proof. destruct n; try discriminate; reflexivity. Qed.

(* ------------------------------------------------------------------ Clean *)
(* the walk on a struct pointer, field by field *)
Definition walk_field (tbl : list centry) (e : centry) (f : fid) (v : fval) : fval :=
  if memf f (ce_trunc e) then trunc v else if memf f (ce_clean e) then walk_fval tbl v else v.

Lemma walk_obj tbl k fs e : entry_of tbl k = Some e -> ce_has e = true ->
  walk_item tbl (IObj true k fs) = IObj true k (map (fun fv => (fst fv, walk_field tbl e (fst fv) (snd fv))) fs).
Proof.
  intros He Hh. cbn [walk_item]. rewrite He, Hh. f_equal.
  induction fs as [|[f v] r IH]; [reflexivity|]. cbn [map fst snd]. rewrite <- IH. reflexivity.
Qed.
Definition walk_entry (tbl : list centry) (x : item) : item := if is_nil x then INil else walk_item tbl x.
Lemma walk_items tbl p l : walk_item tbl (IItems p (Some l)) = IItems p (Some (map (walk_entry tbl) l)).
Proof. reflexivity. Qed.
Lemma walk_fval_items tbl l : walk_fval tbl (FItems (Some l)) = FItems (Some (map (walk_entry tbl) l)).
Proof. reflexivity. Qed.

Lemma trunc_nilify v : trunc (nilify_fval v) = nilify_fval (trunc v).
Proof. destruct v as [i|[l|]| | | | | | | | | |[e|]|]; reflexivity. Qed.

(* Clean does the same to a value whether its nil-like parts are typed nil pointers or the untyped nil - at any
   depth, for ANY walk table *)
Lemma walk_nilify tbl : forall x, walk_item tbl (nilify x) = nilify (walk_item tbl x).
Proof.
  apply (item_ind3 (fun x => walk_item tbl (nilify x) = nilify (walk_item tbl x))
                   (fun v => walk_fval tbl (nilify_fval v) = nilify_fval (walk_fval tbl v))); try reflexivity.
  - (* struct *)
    intros p k fs F. rewrite nilify_obj. destruct p; [|cbn [walk_item]; rewrite nilify_obj; reflexivity].
    destruct (entry_of tbl k) as [e|] eqn:He; [|cbn [walk_item]; rewrite He, nilify_obj; reflexivity].
    destruct (ce_has e) eqn:Hh; [|cbn [walk_item]; rewrite He, Hh, nilify_obj; reflexivity].
    rewrite !(walk_obj tbl k _ e He Hh), nilify_obj. f_equal. unfold nilify_fields. rewrite !map_map. cbn [fst snd].
    induction F as [|[f v] r Hv Hr IH]; [reflexivity|]. cbn [map fst snd]. rewrite IH. f_equal. f_equal.
    unfold walk_field. destruct (memf f (ce_trunc e)); [apply trunc_nilify|].
    destruct (memf f (ce_clean e)); [exact Hv|reflexivity].
  - (* list *)
    intros p l F. rewrite nilify_items, !walk_items, nilify_items, !map_map. do 2 f_equal.
    induction F as [|x r Hx Hr IH]; [reflexivity|]. cbn [map]. rewrite IH. f_equal.
    unfold walk_entry. rewrite is_nil_nilify. destruct (is_nil x); [reflexivity|exact Hx].
  - (* FItem *)
    intros i Hi. cbn [nilify_fval walk_fval]. rewrite Hi. reflexivity.
  - (* FItems *)
    intros l F. rewrite nilify_fval_items, !walk_fval_items, nilify_fval_items, !map_map. do 2 f_equal.
    induction F as [|x r Hx Hr IH]; [reflexivity|]. cbn [map]. rewrite IH. f_equal.
    unfold walk_entry. rewrite is_nil_nilify. destruct (is_nil x); [reflexivity|exact Hx].
  - intros v Hv. destruct v; try contradiction; try reflexivity. destruct e; [contradiction|reflexivity].
Qed.

Lemma clean_nilify W x : clean_item W (nilify x) = omap nilify (clean_item W x).
Proof. unfold clean_item. destruct (canon W); [|reflexivity]. cbn [omap obind]. rewrite walk_nilify. reflexivity. Qed.

(* no outcome of Clean is a panic, whatever the value holds *)
Lemma clean_no_panic W x : is_panic (clean_item W x) = false.
Proof. unfold clean_item. destruct (canon W); reflexivity. Qed.

(* nil-like items: a property holding one is left as it is, a list member comes out as the untyped nil *)
Lemma walk_nil_like tbl n : nil_like n = true -> walk_item tbl n = n /\ walk_entry tbl n = INil.
Proof. destruct n; try discriminate; intros _; split; reflexivity. Qed.

(* ------------------------------------------------------------------ Flatten *)
Lemma get_link_ok x : is_nil x = false -> exists s, get_link x = Ok s.
Proof. destruct x as [|k|p s|p k fs|p l|p l]; try discriminate; intros _; cbn [get_link]; eauto. Qed.

(* the ids the de-duplications compare lie in D; nothing is asked of the shape of the value *)
Definition keys_in (D : bytes -> Prop) (s : fstep) (ov : option fval) : Prop :=
  match s with
  | SIri _ => True
  | SFlat _ => Forall D (flat_keys (item_of ov))
  | SList _ => Forall D (opt_keys (items_of ov))
  end.
Definition is_flat (s : fstep) : bool := match s with SFlat _ => true | _ => false end.
(* a field that goes through Flatten is assigned once *)
Fixpoint flat_fresh (ss : list fstep) : bool :=
  match ss with
  | [] => true
  | s :: r => (negb (is_flat s) || negb (existsb (fun t => fid_beq (step_fid s) (step_fid t)) r)) && flat_fresh r
  end.
Lemma steps_flat_fresh k : flat_fresh (steps_of k) = true.
Proof. destruct k; vm_compute; reflexivity. Qed.

Section FlatNoPanic.
  Variable eqv : bytes -> bytes -> bool.
  Variable D : bytes -> Prop.
  Hypothesis eqv_sym : forall a b, D a -> D b -> eqv a b = eqv b a.
  Hypothesis eqv_trans : forall a b c, D a -> D b -> D c -> eqv a b = true -> eqv b c = true -> eqv a c = true.

  Lemma flatten_ok_or_err i : Forall D (flat_keys i) -> (exists v, flatten eqv i = Ok v) \/ flatten eqv i = Err.
  Proof.
    unfold flatten, flat_keys. destruct (is_nil i); [eauto|].
    destruct (coll_view_of i) as [c| | |]; intro HD; eauto.
    rewrite (flatten_items_refines eqv D eqv_sym eqv_trans c HD). left. eexists. reflexivity.
  Qed.

  Lemma act_ok_or_err s ov : keys_in D s ov -> (exists v, act eqv s ov = Ok v) \/ act eqv s ov = Err.
  Proof.
    destruct s as [f|f|f]; cbn [keys_in act]; intro H.
    - eauto.
    - destruct (flatten_ok_or_err _ H) as [[v E]|E]; rewrite E; [left; eexists; reflexivity|right; reflexivity].
    - rewrite (flatten_items_refines eqv D eqv_sym eqv_trans _ H). left. eexists. reflexivity.
  Qed.

  (* after a step, what the same statement would compare next time is again inside D (list positions and
     FlattenToIRI positions; Flatten positions are assigned once) *)
  Lemma keys_in_after s ov v : is_flat s = false -> keys_in D s ov -> act eqv s ov = Ok v -> keys_in D s (fcanon v).
  Proof.
    destruct s as [f|f|f]; cbn [is_flat keys_in act]; intros Hf H A; try discriminate; [exact I|].
    rewrite (flatten_items_refines eqv D eqv_sym eqv_trans _ H) in A. inversion A; subst v.
    rewrite items_of_fcanon. apply opt_keys_spec_sub. exact H.
  Qed.

  Lemma run_steps_ok_or_err ss : coherent ss -> flat_fresh ss = true ->
    forall fs, (forall s, In s ss -> keys_in D s (getf (step_fid s) fs)) ->
    (exists fs', run_steps (flatten eqv) (flatten_items eqv) ss fs = Ok fs') \/
    run_steps (flatten eqv) (flatten_items eqv) ss fs = Err.
  Proof.
    induction ss as [|s0 r IH]; intros Hc Hfr fs Hk; [left; eexists; reflexivity|].
    cbn [run_steps]. rewrite run_step_act.
    cbn [flat_fresh] in Hfr. apply andb_true_iff in Hfr. destruct Hfr as [Hf0 Hfr].
    destruct (act_ok_or_err s0 _ (Hk s0 (or_introl eq_refl))) as [[v A]|A]; rewrite A; [|right; reflexivity].
    cbn [obind]. apply IH; [intros s t Hs Ht; apply Hc; right; assumption|exact Hfr|].
    intros t Ht. destruct (fid_beq (step_fid t) (step_fid s0)) eqn:E.
    - apply fid_beq_true in E. assert (t = s0) by (apply Hc; [right; exact Ht|left; reflexivity|exact E]). subst t.
      rewrite getf_setf_same. apply orb_true_iff in Hf0. destruct Hf0 as [Hf0|Hf0].
      + apply negb_true_iff in Hf0. exact (keys_in_after s0 _ v Hf0 (Hk s0 (or_introl eq_refl)) A).
      + apply negb_true_iff in Hf0. exfalso.
        assert (X : existsb (fun t => fid_beq (step_fid s0) (step_fid t)) r = true).
        { apply existsb_exists. exists s0. split; [exact Ht|apply fid_beq_refl]. }
        congruence.
    - rewrite getf_setf_other by (intro X; rewrite X, fid_beq_refl in E; discriminate).
      apply Hk. right. exact Ht.
  Qed.

  (* Flatten*Properties on ANY value - nil-like items, lists in lists, anything, at any depth: no panic *)
  Theorem flatten_fields_no_panic k fs :
    (forall s, In s (steps_of k) -> keys_in D s (getf (step_fid s) fs)) ->
    (exists fs', flatten_fields eqv k fs = Ok fs') \/ flatten_fields eqv k fs = Err.
  Proof.
    intro H. rewrite flatten_fields_steps. apply run_steps_ok_or_err; [apply steps_coherent|apply steps_flat_fresh|exact H].
  Qed.
End FlatNoPanic.

(* a nil-like item in a flattened position or as a list member *)
Lemma flat_item_nil_like n : nil_like n = true -> flat_item n = n /\ key_of n = None.
Proof. destruct n; try discriminate; intros _; split; reflexivity. Qed.
Lemma flatten_nil_like eqv n : nil_like n = true -> flatten eqv n = Ok INil.
Proof. destruct n; try discriminate; reflexivity. Qed.

(* ------------------------------------------------------------------ Recipients *)
Lemma remove_loop_total eqv l it : exists l', remove_loop eqv l it = Ok l'.
Proof.
  induction l as [|ob r [r' IH]]; [eexists; reflexivity|]. cbn [remove_loop].
  destruct (is_nil ob || is_nil it) eqn:E.
  - cbn [obind]. rewrite IH. cbn [obind]. eexists. reflexivity.
  - apply orb_false_iff in E. destruct E as [E1 E2].
    destruct (get_link_ok ob E1) as [a Ea]. destruct (get_link_ok it E2) as [b Eb].
    rewrite Ea, Eb. cbn [obind]. rewrite IH. cbn [obind]. eexists. reflexivity.
Qed.

Lemma remove_field_total eqv f it fs : exists fs', remove_field (remove_loop eqv) f it fs = Ok fs'.
Proof.
  unfold remove_field. destruct (get_items f fs) as [l|]; [|eexists; reflexivity].
  destruct (remove_loop_total eqv l it) as [l' E]. rewrite E. cbn [obind]. eexists. reflexivity.
Qed.

Lemma recip_pre_total eqv k fs : exists fs1, recip_pre eqv k fs = Ok fs1.
Proof.
  unfold recip_pre. destruct k; try (eexists; reflexivity).
  unfold block_clause. destruct (_ && _); [|eexists; reflexivity].
  unfold remove_from_audience.
  destruct (remove_field_total eqv F_To (get_item F_Object fs) fs) as [f1 E1]. rewrite E1. cbn [obind].
  destruct (remove_field_total eqv F_Bto (get_item F_Object fs) f1) as [f2 E2]. rewrite E2. cbn [obind].
  destruct (remove_field_total eqv F_CC (get_item F_Object fs) f2) as [f3 E3]. rewrite E3. cbn [obind].
  destruct (remove_field_total eqv F_BCC (get_item F_Object fs) f3) as [f4 E4]. rewrite E4. cbn [obind].
  apply remove_field_total.
Qed.

Section RecipNoPanic.
  Variable eqv : bytes -> bytes -> bool.
  Variable D : bytes -> Prop.
  Hypothesis eqv_sym : forall a b, D a -> D b -> eqv a b = eqv b a.
  Hypothesis eqv_trans : forall a b c, D a -> D b -> D c -> eqv a b = true -> eqv b c = true -> eqv a c = true.

  (* Recipients() of a pointer to any of the 13 addressable struct types, whatever its lists and properties hold *)
  Theorem recipients_total k fs : has_recipients k = true ->
    exists fs1, recip_pre eqv k fs = Ok fs1 /\
      (Forall D (scan_order (scan_lists k fs1)) ->
       exists r x', recipients eqv (IObj true k fs) = Ok (r, x')).
  Proof.
    intro Hk. destruct (recip_pre_total eqv k fs) as [fs1 E]. exists fs1. split; [exact E|].
    intro HD. rewrite (recipients_refines' eqv D eqv_sym eqv_trans k fs fs1 Hk E HD). eauto.
  Qed.
End RecipNoPanic.

(* a nil-like entry is no addressee: it contributes no id to the scan *)
Lemma keys_of_nil_like n l : nil_like n = true -> keys_of (n :: l) = keys_of l.
Proof. intro H. unfold keys_of. cbn [flat_map]. rewrite (proj2 (flat_item_nil_like n H)). reflexivity. Qed.
