(* C06 (builder b50): the two writer models of natural-language values agree on EVERY list.
     Text.nlv_marshal   (Model/Text.v: the buffer loop of NaturalLanguageValues.MarshalJSON, the model of the C06 theorems)
     JsonEnc.w_nlv      (Model/JsonEnc.v: what the whole-value encoder model [enc] writes for a text property)
   no hypothesis on tags or texts (empty ones, repeated tags, bytes that are not UTF-8 included): tagAsRead is
   modelled twice too (Text.tag_as_read, JsonLeaf.sanitize) and the two agree on every byte string. *)
From AP.Model Require Import Prelude Bytes Vocab Pred Json Nlv Text JsonLeaf JsonEnc.
From AP.Proofs Require Import NlvP TextP C01StrP.
From Coq Require Import Lia.
Local Open Scope nat_scope.

(* ------------------------------------------------------------------ tagAsRead *)
Lemma sanitize_go_S fuel b r :
  sanitize_go (S fuel) (b :: r) =
  if (byteN b <? 128)%N then b :: sanitize_go fuel r
  else match utf8_size (b :: r) with
       | None => fffd ++ sanitize_go fuel r
       | Some sz => firstn sz (b :: r) ++ sanitize_go fuel (skipn sz (b :: r))
       end.
Proof. reflexivity. Qed.

Theorem sanitize_go_tag : forall fuel s, length s < fuel -> sanitize_go fuel s = tag_as_read s.
Proof.
  induction fuel as [|fuel IH]; intros s Hl; [lia|].
  destruct s as [|b r]; [reflexivity|]. simpl in Hl.
  rewrite sanitize_go_S. cbn [tag_as_read]. change (bn b <? 128)%N with (byteN b <? 128)%N.
  destruct (byteN b <? 128)%N eqn:Hb.
  - rewrite IH by lia. reflexivity.
  - apply N.ltb_ge in Hb. rewrite (utf8_size_agree b r Hb).
    assert (Hf : fffd ++ sanitize_go fuel r = fffd ++ tag_as_read r) by (rewrite IH by lia; reflexivity).
    destruct (utf8_n b) as [|[|[|[|k]]]] eqn:En; try exact Hf.
    + destruct r as [|c1 r1]; [exact Hf|]. destruct (in_rng c1 (utf8_lo b) (utf8_hi b)); [|exact Hf].
      cbn [firstn skipn app]. simpl in Hl. rewrite IH by lia. reflexivity.
    + destruct r as [|c1 [|c2 r2]]; try exact Hf.
      destruct (in_rng c1 (utf8_lo b) (utf8_hi b) && Text.is_cont c2); [|exact Hf].
      cbn [firstn skipn app]. simpl in Hl. rewrite IH by lia. reflexivity.
    + destruct r as [|c1 [|c2 [|c3 r3]]]; try exact Hf.
      destruct (in_rng c1 (utf8_lo b) (utf8_hi b) && Text.is_cont c2 && Text.is_cont c3); [|exact Hf].
      cbn [firstn skipn app]. simpl in Hl. rewrite IH by lia. reflexivity.
Qed.

Corollary sanitize_tag s : sanitize s = tag_as_read s.
Proof. apply sanitize_go_tag. lia. Qed.

(* ------------------------------------------------------------------ the language map *)
Definition optb (b : bytes) : option bytes := match b with [] => None | _ => Some b end.

Lemma sb_eq s : JsonLeaf.string_bytes false s = Text.string_bytes s.
Proof. apply leaf_string_bytes_eq. Qed.

Lemma sb_cons s : exists r, Text.string_bytes s = bQ :: r.
Proof. rewrite string_bytes_head. eexists. reflexivity. Qed.

(* what the map loop appends for the entries still to come: nothing, or the members separated by commas *)
Definition pj (empty : bool) (parts : list bytes) : bytes :=
  match parts with [] => [] | _ => (if empty then [] else [bCM]) ++ join_with comma parts end.

Definition kept_entry (e : bytes * bytes) : bytes := w_map_entry e.

Lemma nil_ref_eq : NilRef = nil_iri.
Proof. reflexivity. Qed.

Lemma len0 {A} (l : list A) : Nat.eqb (length l) 0 = match l with [] => true | _ => false end.
Proof. destruct l; reflexivity. Qed.

(* one kept entry: the bytes the Text loop appends are the member the encoder model writes *)
Lemma map_step_kept (b : bytes) (empty : bool) keys (ref val : bytes) r0 r v0 v : ref = r0 :: r -> val = v0 :: v ->
  existsb (bytes_eqb (tag_as_read ref)) keys = false ->
  nlv_map_step true true (b, empty, keys) (ref, val) =
  ((if empty then b else b ++ [bCM]) ++ w_map_entry (ref, val), false, keys ++ [tag_as_read ref]).
Proof.
  intros -> -> Hk. unfold nlv_map_step. cbn [length Nat.eqb orb]. cbv iota. rewrite Hk. cbn [andb]. cbv iota.
  unfold w_map_entry, w_lrv, lrv_marshal. cbn [fst snd length Nat.eqb negb andb].
  rewrite <- nil_ref_eq, !sb_eq.
  destruct (bytes_eqb (r0 :: r) NilRef) eqn:E; cbn [negb andb]; cbv iota.
  - destruct (sb_cons (v0 :: v)) as [w Ew]. rewrite Ew. rewrite <- Ew. rewrite <- !app_assoc. reflexivity.
  - destruct (sb_cons (r0 :: r)) as [w Ew]. rewrite Ew. cbn [app]. reflexivity.
Qed.

Lemma map_step_seen (b : bytes) (empty : bool) keys (ref val : bytes) r0 r v0 v : ref = r0 :: r -> val = v0 :: v ->
  existsb (bytes_eqb (tag_as_read ref)) keys = true ->
  nlv_map_step true true (b, empty, keys) (ref, val) = (b, empty, keys).
Proof. intros -> -> Hk. unfold nlv_map_step. cbn [length Nat.eqb orb]. cbv iota. rewrite Hk. reflexivity. Qed.

Lemma w_map_entry_nonempty (ref val : bytes) r0 r v0 v : ref = r0 :: r -> val = v0 :: v ->
  exists c w, w_map_entry (ref, val) = c :: w.
Proof.
  intros -> ->. unfold w_map_entry, w_lrv. cbn [fst snd]. rewrite !sb_eq.
  destruct (bytes_eqb (r0 :: r) nil_iri); cbn [negb andb].
  - destruct (sb_cons (r0 :: r)) as [w ->]. eexists; eexists; reflexivity.
  - destruct (sb_cons (r0 :: r)) as [w ->]. eexists; eexists; reflexivity.
Qed.

Lemma pj_cons empty x parts : pj empty (x :: parts) = (if empty then [] else [bCM]) ++ x ++ pj false parts.
Proof.
  unfold pj. destruct parts as [|y parts]; [rewrite app_nil_r; reflexivity|].
  change (join_with comma (x :: y :: parts)) with (x ++ comma ++ join_with comma (y :: parts)). reflexivity.
Qed.

Lemma fold_map_kept : forall (l : list (bytes * bytes)) (b : bytes) (empty : bool) keys seen,
  (forall k, existsb (bytes_eqb k) seen = existsb (bytes_eqb k) keys) ->
  exists keys', fold_left (nlv_map_step true true) l (b, empty, keys) =
                (b ++ pj empty (map w_map_entry (nlv_kept seen l)),
                 empty && match nlv_kept seen l with [] => true | _ => false end, keys').
Proof.
  induction l as [|[ref v] l IH]; intros b empty keys seen Hs.
  - exists keys. cbn [fold_left nlv_kept map pj]. rewrite app_nil_r, andb_true_r. reflexivity.
  - cbn [fold_left]. destruct ref as [|r0 r].
    { (* an empty tag: skipped by both *)
      change (nlv_map_step true true (b, empty, keys) ([], v)) with (b, empty, keys).
      cbn [nlv_kept fst snd]. apply IH, Hs. }
    destruct v as [|v0 v].
    { change (nlv_map_step true true (b, empty, keys) (r0 :: r, [])) with (b, empty, keys).
      cbn [nlv_kept fst snd]. apply IH, Hs. }
    cbn [nlv_kept fst snd]. rewrite sanitize_tag, Hs.
    destruct (existsb (bytes_eqb (tag_as_read (r0 :: r))) keys) eqn:Hk.
    + (* a tag that reads back like one already written: skipped by both *)
      rewrite (map_step_seen b empty keys _ _ r0 r v0 v eq_refl eq_refl Hk). apply IH, Hs.
    + rewrite (map_step_kept b empty keys _ _ r0 r v0 v eq_refl eq_refl Hk).
      destruct (IH ((if empty then b else b ++ [bCM]) ++ w_map_entry ((r0 :: r, v0 :: v) : bytes * bytes)) false
                   (keys ++ [tag_as_read (r0 :: r)]) (tag_as_read (r0 :: r) :: seen)) as [keys' Hf].
      { intros k. cbn [existsb]. rewrite existsb_app. cbn [existsb]. rewrite orb_false_r, Hs. apply orb_comm. }
      exists keys'. eapply eq_trans; [exact Hf|]. cbn [map]. rewrite pj_cons, andb_false_r. f_equal. f_equal.
      destruct empty; rewrite <- !app_assoc; reflexivity.
Qed.

Lemma parts_of_kept seen l :
  flat_map (fun e => match w_map_entry e with [] => [] | b => [b] end) (nlv_kept seen l) = map w_map_entry (nlv_kept seen l).
Proof.
  revert seen. induction l as [|[ref v] l IH]; intros seen; [reflexivity|].
  cbn [nlv_kept fst snd]. destruct ref as [|r0 r]; [apply IH|]. destruct v as [|v0 v]; [apply IH|].
  destruct (existsb (bytes_eqb (sanitize (r0 :: r))) seen); [apply IH|].
  cbn [flat_map map]. destruct (w_map_entry_nonempty _ _ r0 r v0 v eq_refl eq_refl) as [c [w Ew]]. rewrite Ew, IH. reflexivity.
Qed.

Definition map_form (st : bytes * bool * list bytes) : option bytes :=
  let '(b, empty, _) := st in if empty then None else Some (b ++ [bRB]).

Lemma map_form_eq (l : list (bytes * bytes)) :
  map_form (fold_left (nlv_map_step true true) l ([bLB], true, [])) =
  optb (let parts := flat_map (fun e => match w_map_entry e with [] => [] | b => [b] end) (nlv_kept [] l) in
        match parts with
        | [] => []
        | _ => x7b :: join_with comma parts ++ [x7d]
        end).
Proof.
  cbv zeta. destruct (fold_map_kept l [bLB] true [] [] (fun k => eq_refl)) as [keys' Hf].
  match goal with |- map_form ?x = _ => replace x with
    ([bLB] ++ pj true (map w_map_entry (nlv_kept [] l)), true && match nlv_kept [] l with [] => true | _ => false end, keys')
    by (symmetry; exact Hf) end.
  rewrite parts_of_kept. cbn [andb]. destruct (nlv_kept [] l) as [|e k]; [reflexivity|].
  cbn [map]. unfold pj, map_form. cbn [app]. reflexivity.
Qed.

(* THE HEART: the Text model of NaturalLanguageValues.MarshalJSON and the encoder model's, on every list *)
Theorem nlv_marshal_w_nlv (l : list (bytes * bytes)) : nlv_marshal l = optb (w_nlv l).
Proof.
  unfold nlv_marshal, nlv_marshal_gen, w_nlv, w_nlv_gen.
  destruct l as [|[r v] l]; [reflexivity|].
  destruct l as [|e2 l].
  - destruct v as [|v0 v].
    + exact (map_form_eq [(r, [])]).
    + rewrite sb_eq. destruct (sb_cons (v0 :: v)) as [w ->]. reflexivity.
  - destruct v; exact (map_form_eq (_ :: e2 :: l)).
Qed.
