From AP.Model Require Import Prelude Nlv.
From Coq Require Import Sorting.Permutation.

Lemma bytes_eqb_eq a b : bytes_eqb a b = true <-> a = b.
Proof.
  revert b; induction a as [|x a IH]; intros [|y b]; simpl; split; try congruence; try reflexivity.
  - rewrite andb_true_iff. intros [H1 H2]. apply Byte.byte_dec_bl in H1. apply IH in H2. congruence.
  - intros H; inversion H; subst. rewrite andb_true_iff. split; [apply Byte.byte_dec_lb; reflexivity|apply IH; reflexivity].
Qed.

Lemma bytes_eqb_refl a : bytes_eqb a a = true.
Proof. apply bytes_eqb_eq; reflexivity. Qed.

Lemma bytes_eqb_neq a b : bytes_eqb a b = false <-> a <> b.
Proof.
  split.
  - intros H E. apply bytes_eqb_eq in E. congruence.
  - intros H. destruct (bytes_eqb a b) eqn:E; [apply bytes_eqb_eq in E; contradiction|reflexivity].
Qed.

Lemma tag_is_spec t e : tag_is t e = true <-> fst e = t.
Proof. unfold tag_is. apply bytes_eqb_eq. Qed.

Lemma lrv_eqb_eq a b : lrv_eqb a b = true <-> a = b.
Proof.
  unfold lrv_eqb. rewrite andb_true_iff, !bytes_eqb_eq. destruct a, b; simpl.
  split; [intros [-> ->]; reflexivity|intros H; inversion H; auto].
Qed.

(* Get = text of the first entry with that tag *)
Lemma nl_get_find l t :
  nl_get l t = option_map snd (find (tag_is t) l).
Proof. induction l as [|e r IH]; simpl; [reflexivity|]. destruct (tag_is t e); [reflexivity|exact IH]. Qed.

Lemma nl_get_none l t : nl_get l t = None <-> ~ In t (map fst l).
Proof.
  induction l as [|e r IH]; simpl; [tauto|].
  destruct (tag_is t e) eqn:E.
  - apply tag_is_spec in E. split; [discriminate|]. intros H; exfalso; apply H; left; exact E.
  - rewrite IH. assert (fst e <> t) by (intro H; apply tag_is_spec in H; congruence). tauto.
Qed.

Lemma existsb_tag l t : existsb (tag_is t) l = true <-> In t (map fst l).
Proof.
  rewrite existsb_exists, in_map_iff. split.
  - intros [e [Hin He]]. exists e. apply tag_is_spec in He. auto.
  - intros [e [He Hin]]. exists e. split; [exact Hin|apply tag_is_spec; exact He].
Qed.

Lemma set_all_get_same l t v : In t (map fst l) -> nl_get (nl_set_all l t v) t = Some v.
Proof.
  induction l as [|e r IH]; simpl; [tauto|]. intros H.
  destruct (tag_is t e) eqn:E; simpl.
  - unfold tag_is at 1; simpl. rewrite bytes_eqb_refl. reflexivity.
  - rewrite E. apply IH. destruct H as [H|H]; [apply tag_is_spec in H; congruence|exact H].
Qed.

Lemma set_all_get_other l t v t' : t' <> t -> nl_get (nl_set_all l t v) t' = nl_get l t'.
Proof.
  intros Hne. induction l as [|e r IH]; simpl; [reflexivity|].
  destruct (tag_is t e) eqn:E; simpl.
  - assert (tag_is t' (t, v) = false) as -> by (unfold tag_is; simpl; apply bytes_eqb_neq; congruence).
    apply tag_is_spec in E. assert (tag_is t' e = false) as ->
        by (unfold tag_is; apply bytes_eqb_neq; congruence).
    exact IH.
  - destruct (tag_is t' e); [reflexivity|exact IH].
Qed.

Lemma set_all_tags l t v : map fst (nl_set_all l t v) = map fst l.
Proof.
  induction l as [|e r IH]; simpl; [reflexivity|]. rewrite IH. f_equal.
  destruct (tag_is t e) eqn:E; [apply tag_is_spec in E; simpl; congruence|reflexivity].
Qed.

Lemma set_all_length l t v : length (nl_set_all l t v) = length l.
Proof. induction l; simpl; congruence. Qed.

Lemma get_app_notin l t e : ~ In t (map fst l) -> nl_get (l ++ [e]) t = nl_get [e] t.
Proof.
  induction l as [|x r IH]; simpl; [reflexivity|]. intros H.
  assert (tag_is t x = false) as ->.
  { destruct (tag_is t x) eqn:E; [|reflexivity]. apply tag_is_spec in E. exfalso; apply H; left; exact E. }
  apply IH. tauto.
Qed.

Lemma get_app_other l t e : fst e <> t -> nl_get (l ++ [e]) t = nl_get l t.
Proof.
  intros Hne. induction l as [|x r IH]; simpl.
  - assert (tag_is t e = false) as -> by (unfold tag_is; apply bytes_eqb_neq; exact Hne). reflexivity.
  - destruct (tag_is t x); [reflexivity|exact IH].
Qed.

(* Set *)
Lemma nl_set_spec l t v :
  nl_get (nl_set l t v) t = Some v /\
  (forall t', t' <> t -> nl_get (nl_set l t v) t' = nl_get l t') /\
  map fst (nl_set l t v) = map fst l ++ (if existsb (tag_is t) l then [] else [t]) /\
  length (nl_set l t v) <= S (length l).
Proof.
  unfold nl_set. destruct (existsb (tag_is t) l) eqn:E.
  - apply existsb_tag in E. repeat split.
    + apply set_all_get_same; exact E.
    + intros t' Hne. apply set_all_get_other; exact Hne.
    + rewrite set_all_tags, app_nil_r. reflexivity.
    + rewrite set_all_length. lia.
  - assert (~ In t (map fst l)) as Hn by (rewrite <- existsb_tag; congruence).
    unfold nl_append. repeat split.
    + rewrite get_app_notin by exact Hn. simpl. unfold tag_is; simpl. rewrite bytes_eqb_refl. reflexivity.
    + intros t' Hne. apply get_app_other. simpl. congruence.
    + rewrite map_app. reflexivity.
    + rewrite app_length. simpl. lia.
Qed.

(* the entries not carrying the tag are untouched, in place (order of entries unchanged) *)
Lemma nl_set_others_in_place l t v :
  filter (fun e => negb (tag_is t e)) (nl_set l t v) = filter (fun e => negb (tag_is t e)) l.
Proof.
  unfold nl_set. destruct (existsb (tag_is t) l).
  - induction l as [|e r IH]; simpl; [reflexivity|].
    destruct (tag_is t e) eqn:E; simpl.
    + assert (tag_is t (t, v) = true) as -> by (unfold tag_is; simpl; apply bytes_eqb_refl). simpl. exact IH.
    + rewrite E. simpl. f_equal. exact IH.
  - unfold nl_append. rewrite filter_app. simpl.
    assert (tag_is t (t, v) = true) as -> by (unfold tag_is; simpl; apply bytes_eqb_refl). simpl.
    apply app_nil_r.
Qed.

Lemma nl_append_spec l t v :
  nl_append l t v = l ++ [(t, v)] /\ length (nl_append l t v) = S (length l) /\
  (In t (map fst l) -> nl_get (nl_append l t v) t = nl_get l t).
Proof.
  unfold nl_append. repeat split.
  - rewrite app_length; simpl; lia.
  - intros H. induction l as [|e r IH]; simpl in *; [tauto|].
    destruct (tag_is t e) eqn:E; [reflexivity|]. apply IH. destruct H as [H|H]; [|exact H].
    apply tag_is_spec in H. congruence.
Qed.

(* histories: the final state is the fold of the steps, Count is its length, First its head;
   every Get in the history answered with the first entry of the state at that moment *)
Lemma nl_run_state l ops : fst (nl_run l ops) = fold_left nl_step ops l.
Proof.
  revert l; induction ops as [|o r IH]; intros l; simpl; [reflexivity|].
  specialize (IH (nl_step l o)). destruct (nl_run (nl_step l o) r). simpl in *. exact IH.
Qed.

Lemma nl_run_app l ops1 ops2 :
  nl_run l (ops1 ++ ops2) =
  let '(l1, o1) := nl_run l ops1 in let '(l2, o2) := nl_run l1 ops2 in (l2, o1 ++ o2).
Proof.
  revert l; induction ops1 as [|o r IH]; intros l; simpl.
  - destruct (nl_run l ops2); reflexivity.
  - rewrite IH. destruct (nl_run (nl_step l o) r) as [l1 o1]. destruct (nl_run l1 ops2) as [l2 o2].
    rewrite app_assoc. reflexivity.
Qed.

Lemma nl_run_get_last l ops t :
  snd (nl_run l (ops ++ [OGet t])) =
  snd (nl_run l ops) ++ [AGet (option_map snd (find (tag_is t) (fold_left nl_step ops l)))].
Proof.
  rewrite nl_run_app. pose proof (nl_run_state l ops) as Hs.
  destruct (nl_run l ops) as [l1 o1]. simpl in *. subst l1. rewrite nl_get_find. reflexivity.
Qed.

(* Count / First issued after any history answer with the length / the head of the state reached *)
Lemma nl_run_count_last l ops :
  snd (nl_run l (ops ++ [OCount])) = snd (nl_run l ops) ++ [ACount (length (fold_left nl_step ops l))].
Proof.
  rewrite nl_run_app. pose proof (nl_run_state l ops) as Hs.
  destruct (nl_run l ops) as [l1 o1]. simpl in *. subst l1. reflexivity.
Qed.

Lemma nl_run_first_last l ops :
  snd (nl_run l (ops ++ [OFirst])) = snd (nl_run l ops) ++ [AFirst (hd ([], []) (fold_left nl_step ops l))].
Proof.
  rewrite nl_run_app. pose proof (nl_run_state l ops) as Hs.
  destruct (nl_run l ops) as [l1 o1]. simpl in *. subst l1. unfold nl_first.
  destruct (fold_left nl_step ops l); reflexivity.
Qed.

(* every answer of a history, wherever it is issued: the trace of a history split at any point *)
Lemma nl_run_snd_app l ops1 ops2 :
  snd (nl_run l (ops1 ++ ops2)) = snd (nl_run l ops1) ++ snd (nl_run (fold_left nl_step ops1 l) ops2).
Proof.
  rewrite nl_run_app. pose proof (nl_run_state l ops1) as Hs.
  destruct (nl_run l ops1) as [l1 o1]. simpl in *. subst l1.
  destruct (nl_run (fold_left nl_step ops1 l) ops2). reflexivity.
Qed.

(* the observers are pure: a Count or a First anywhere in a history leaves the state it is issued in, the final state
   and every other answer as they are without it *)
Lemma nl_observers_pure l ops1 o ops2 : o = OCount \/ o = OFirst ->
  nl_step (fold_left nl_step ops1 l) o = fold_left nl_step ops1 l /\
  fst (nl_run l (ops1 ++ o :: ops2)) = fst (nl_run l (ops1 ++ ops2)) /\
  snd (nl_run l (ops1 ++ o :: ops2)) =
    snd (nl_run l ops1) ++ nl_obs (fold_left nl_step ops1 l) o ++ snd (nl_run (fold_left nl_step ops1 l) ops2) /\
  snd (nl_run l (ops1 ++ ops2)) = snd (nl_run l ops1) ++ snd (nl_run (fold_left nl_step ops1 l) ops2).
Proof.
  intros Ho.
  assert (forall s, nl_step s o = s) as Hstep by (intro s; destruct Ho; subst o; reflexivity).
  split; [apply Hstep|]. split; [|split].
  - rewrite !nl_run_state, !fold_left_app. cbn [fold_left]. rewrite Hstep. reflexivity.
  - rewrite nl_run_snd_app. f_equal. cbn [nl_run]. rewrite Hstep.
    destruct (nl_run (fold_left nl_step ops1 l) ops2). reflexivity.
  - apply nl_run_snd_app.
Qed.

(* Equals *)
Lemma nodup_tags_nodup l : nodup_tags l -> NoDup l.
Proof. unfold nodup_tags. apply NoDup_map_inv. Qed.

Lemma nl_equals_perm n w : nodup_tags n -> nodup_tags w -> (nl_equals n w = true <-> Permutation n w).
Proof.
  intros Hn Hw. unfold nl_equals. rewrite andb_true_iff, Nat.eqb_eq, forallb_forall. split.
  - intros [Hlen Hall]. apply Permutation_sym. apply NoDup_Permutation_bis.
    + apply nodup_tags_nodup; exact Hw.
    + lia.
    + intros x Hx. specialize (Hall x Hx). apply existsb_exists in Hall.
      destruct Hall as [y [Hy Heq]]. apply lrv_eqb_eq in Heq. subst. exact Hy.
  - intros P. split; [apply Permutation_length; exact P|].
    intros x Hx. apply existsb_exists. exists x. split.
    + eapply Permutation_in; [apply Permutation_sym; exact P|exact Hx].
    + apply lrv_eqb_eq; reflexivity.
Qed.

Lemma nodup_tagsb_spec l : nodup_tagsb l = true <-> nodup_tags l.
Proof.
  unfold nodup_tags. induction l as [|e r IH]; simpl.
  - split; [constructor|reflexivity].
  - rewrite andb_true_iff, negb_true_iff, IH. split.
    + intros [H1 H2]. constructor; [|exact H2]. rewrite <- existsb_tag. congruence.
    + intros H. inversion H as [|? ? H1 H2]; subst. split; [|exact H2].
      destruct (existsb (tag_is (fst e)) r) eqn:E; [|reflexivity]. apply existsb_tag in E. contradiction.
Qed.
