(* The tie between the generated table Gen/NlvT.v and the hand-written model Model/Nlv.v:
     1. the statement sequences of Model/NlvTab.v, interpreted, ARE the model's functions
          NaturalLanguageValues.Get = nl_get, Set = nl_set, Add / Append = nl_append, Count = nl_count, First = nl_first,
          LangRefValue.Equals = lrv_eqb
        for all lists, tags and texts;
     2. for every table satisfying nlv_table_ok the same holds of the table's meaning. *)
From AP.Model Require Import Prelude Vocab Pred Layout Nlv TabEq GoBody NlvTab.
From AP.Proofs Require Import TabEqP GoBodyP.

(* ---------------------------------------------------------------- Get *)
Section GetLoop.
  Variable E : genv.
  Variables (L : nl) (t : bytes).
  Definition get_st (cur : gval) : gstate := [GvNl L; GvBytes t; cur].
  Definition get_body : gstmt nat :=
    GsSeq (GsIf (GxBin OpEq (GxField (GxVar 2) F_Ref TString) (GxVar 1))
                (GsSeq (GsReturn (GxsCons (GxField (GxVar 2) F_Value t_content) GxsNil)) GsSkip) GsSkip) GsSkip.

  Lemma get_loop l : forall i cur, exists cur',
    for_loop (fun (i : nat) x s' => exec E get_body (obind_slot (Some 2) x (obind_slot None (GvInt (Z.of_nat i)) s')))
             i (map GvLrv l) (get_st cur)
    = Ok (match nl_get l t with Some v => GgRet [GvBytes v] (get_st cur') | None => GgNormal (get_st cur') end).
  Proof.
    hide_loop. induction l as [|[a b] r IH]; intros i cur.
    - exists cur. reflexivity.
    - cbn [map nl_get]. rewrite for_loop_cons. unfold step at 1. unfold get_st at 1, get_body at 1. gx.
      unfold tag_is. cbn [fst snd].
      destruct (bytes_eqb a t); gx.
      + exists (GvLrv (a, b)). reflexivity.
      + apply IH.
  Qed.
End GetLoop.

Lemma get_model E l t :
  run_fn E m_nlv_get (Some (GvNl l)) [GvBytes t]
  = Ok ([match nl_get l t with Some v => GvBytes v | None => GvNil end], Some (GvNl l)).
Proof.
  open_fn. gx.
  destruct (get_loop E l t l 0 GvUndef) as [cur' Hl]. use_loop Hl. clear Hl.
  destruct (nl_get l t); gx; reflexivity.
Qed.

(* ---------------------------------------------------------------- Append, Add, Count, First, LangRefValue.Equals *)
Lemma lrvs_of_map l : lrvs_of_vals (map GvLrv l) = Some l.
Proof. induction l as [|e r IH]; [reflexivity|]. cbn [map lrvs_of_vals]. rewrite IH. reflexivity. Qed.

Lemma val_append_nl l e : val_append (GvNl l) [GvLrv e] = Ok (GvNl (l ++ [e])).
Proof.
  unfold val_append. cbn [elems_of rebuild]. change [GvLrv e] with (map GvLrv [e]). rewrite <- map_app, lrvs_of_map.
  reflexivity.
Qed.

Lemma append_model E l t v :
  run_fn E m_nlv_append (Some (pnl l)) [GvBytes t; GvBytes v] = Ok ([GvNil], Some (pnl (nl_append l t v))).
Proof. open_fn. unfold pnl. gx. rewrite val_append_nl. gx. reflexivity. Qed.

Lemma add_model E l e :
  run_fn E m_nlv_add (Some (pnl l)) [GvLrv e] = Ok ([], Some (pnl (nl_append l (fst e) (snd e)))).
Proof. open_fn. unfold pnl. gx. rewrite val_append_nl. gx. destruct e. reflexivity. Qed.

Lemma count_model E l :
  run_fn E m_nlv_count (Some (pnl l)) [] = Ok ([GvInt (Z.of_nat (nl_count l))], Some (pnl l)).
Proof.
  open_fn. unfold pnl. gx. unfold val_len, zlen. gx.
  pose proof (Zle_0_nat (length l)) as H. apply Z.ltb_ge in H. rewrite H. reflexivity.
Qed.

Lemma count_nil_model E : run_fn E m_nlv_count (Some pnl_nil) [] = Ok ([GvInt 0], Some pnl_nil).
Proof. open_fn. unfold pnl_nil. gx. reflexivity. Qed.

Lemma first_model E l : run_fn E m_nlv_first (Some (GvNl l)) [] = Ok ([GvLrv (nl_first l)], Some (GvNl l)).
Proof.
  open_fn. gx. destruct l as [|e r]; cbn [map].
  - gx. reflexivity.
  - subst step. rewrite for_loop_cons. gx. reflexivity.
Qed.

Lemma lrv_equals_model tbl a b :
  run_fn (nlv_env tbl) m_lrv_equals (Some (GvLrv a)) [GvLrv b] = Ok ([GvBool (lrv_eqb a b)], Some (GvLrv a)).
Proof.
  open_fn. destruct a as [a1 a2], b as [b1 b2]. gx. unfold lrv_eqb. cbn [fst snd].
  destruct (bytes_eqb a1 b1); gx; [|reflexivity].
  cbn [ge_method nlv_env]. unfold nlv_method, nlv_leaf_method. ceval. gx. reflexivity.
Qed.

(* ---------------------------------------------------------------- Set *)
Lemma nl_set_all_length l t v : length (nl_set_all l t v) = length l.
Proof. induction l as [|e r IH]; [reflexivity|]. cbn [nl_set_all length]. rewrite IH. reflexivity. Qed.

Lemma nl_set_all_app p r t v : nl_set_all (p ++ r) t v = nl_set_all p t v ++ nl_set_all r t v.
Proof. induction p as [|e p IH]; [reflexivity|]. cbn [app nl_set_all]. rewrite IH. reflexivity. Qed.

Lemma nl_set_all_none l t v : existsb (tag_is t) l = false -> nl_set_all l t v = l.
Proof.
  induction l as [|e r IH]; [reflexivity|]. cbn [existsb nl_set_all]. intro H. apply orb_false_elim in H.
  destruct H as [H1 H2]. rewrite H1, (IH H2). reflexivity.
Qed.

Lemma set_nth_app {A} (p : list A) e r x : set_nth (length p) x (p ++ e :: r) = p ++ x :: r.
Proof. induction p as [|y p IH]; [reflexivity|]. cbn [length app set_nth]. rewrite IH. reflexivity. Qed.

Lemma val_set_index_nl p e r x n : length p = n ->
  val_set_index (GvNl (p ++ e :: r)) (Z.of_nat n) (GvLrv x) = Ok (GvNl (p ++ x :: r)).
Proof.
  intros <-. unfold val_set_index. cbn [elems_of]. unfold zlen. rewrite map_length, app_length. cbn [length].
  replace (Z.of_nat (length p) <? 0)%Z with false by (symmetry; apply Z.ltb_ge; lia).
  replace (Z.of_nat (length p + S (length r)) <=? Z.of_nat (length p))%Z with false by (symmetry; apply Z.leb_gt; lia).
  cbn [orb]. rewrite Nat2Z.id.
  rewrite map_app. cbn [map]. rewrite <- (map_length GvLrv p) at 1. rewrite set_nth_app.
  change (map GvLrv p ++ GvLrv x :: map GvLrv r) with (map GvLrv p ++ map GvLrv (x :: r)). rewrite <- map_app.
  cbn [rebuild]. rewrite lrvs_of_map. reflexivity.
Qed.

Section SetLoop.
  Variable E : genv.
  Variables t v : bytes.
  (* frame: n, ref, v, found, k, vv *)
  Definition set_st (cur : nl) (found : bool) (k vv : gval) : gstate :=
    [pnl cur; GvBytes t; GvBytes v; GvBool found; k; vv].
  Definition set_body : gstmt nat :=
    GsSeq (GsIf (GxBin OpEq (GxField (GxVar 5) F_Ref TString) (GxVar 1))
                (GsSeq (GsAssign (GlIndex (GlDeref (GlVar 0)) (GxVar 4))
                                 (GxComposite n_lrv (GxsCons (GxVar 1) (GxsCons (GxVar 2) GxsNil))))
                       (GsSeq (GsAssign (GlVar 3) (GxBool true)) GsSkip)) GsSkip) GsSkip.

  Lemma set_loop r : forall p k vv, exists k' vv',
    for_loop (fun (i : nat) x s' => exec E set_body (obind_slot (Some 5) x (obind_slot (Some 4) (GvInt (Z.of_nat i)) s')))
             (length p) (map GvLrv r) (set_st (nl_set_all p t v ++ r) (existsb (tag_is t) p) k vv)
    = Ok (GgNormal (set_st (nl_set_all (p ++ r) t v) (existsb (tag_is t) (p ++ r)) k' vv')).
  Proof.
    hide_loop. induction r as [|[a b] r IH]; intros p k vv.
    - exists k, vv. rewrite !app_nil_r. reflexivity.
    - cbn [map]. rewrite for_loop_cons. unfold step at 1. unfold set_st at 1, set_body at 1. unfold pnl. gx.
      destruct (bytes_eqb a t) eqn:Ea; gx.
      + rewrite (val_set_index_nl _ _ _ _ (length p)) by apply nl_set_all_length. gx.
        destruct (IH (p ++ [(a, b)]) (GvInt (Z.of_nat (length p))) (GvLrv (a, b))) as [k' [vv' Hl]].
        exists k', vv'. rewrite <- app_assoc in Hl. cbn [app] in Hl. rewrite <- Hl.
        rewrite app_length. cbn [length]. rewrite Nat.add_1_r.
        rewrite nl_set_all_app, existsb_app. cbn [nl_set_all existsb]. change (tag_is t (a, b)) with (bytes_eqb a t). rewrite Ea.
        rewrite orb_true_r, <- app_assoc. reflexivity.
      + destruct (IH (p ++ [(a, b)]) (GvInt (Z.of_nat (length p))) (GvLrv (a, b))) as [k' [vv' Hl]].
        exists k', vv'. rewrite <- app_assoc in Hl. cbn [app] in Hl. rewrite <- Hl.
        rewrite app_length. cbn [length]. rewrite Nat.add_1_r.
        rewrite nl_set_all_app, existsb_app. cbn [nl_set_all existsb]. change (tag_is t (a, b)) with (bytes_eqb a t). rewrite Ea.
        rewrite !orb_false_r, <- app_assoc. reflexivity.
  Qed.
End SetLoop.

Section SetCall.
  Variable tbl : list (gfn gname).
  Hypothesis Happend : fn_named tbl n_nlv_append = Some m_nlv_append.

  Lemma set_model l t v :
    run_fn (nlv_env tbl) m_nlv_set (Some (pnl l)) [GvBytes t; GvBytes v] = Ok ([GvNil], Some (pnl (nl_set l t v))).
  Proof.
    open_fn. unfold pnl. gx.
    destruct (set_loop (nlv_env tbl) t v l [] GvUndef GvUndef) as [k' [vv' Hl]].
    cbn [nl_set_all app existsb length] in Hl. unfold set_st at 1 in Hl. unfold pnl at 1 in Hl. use_loop Hl. clear Hl.
    unfold set_st, pnl. gx. unfold nl_set.
    destruct (existsb (tag_is t) l) eqn:Ef; gx; [reflexivity|].
    cbn [ge_method nlv_env]. unfold nlv_method. ceval. cbv iota.
    unfold run_named. rewrite Happend. rewrite (nl_set_all_none l t v Ef).
    fold (pnl l). rewrite append_model. gx. reflexivity.
  Qed.
End SetCall.

(* ---------------------------------------------------------------- every table satisfying the condition *)
Section Tie.
  Variable tbl : list (gfn gname).
  Hypothesis Hok : nlv_table_ok tbl = true.

  Local Ltac has m := apply (body_table_fns nlv_model_fns tbl Hok m); vm_compute; tauto.
  Lemma has_get : fn_named tbl n_nlv_get = Some m_nlv_get. Proof. has m_nlv_get. Qed.
  Lemma has_set : fn_named tbl n_nlv_set = Some m_nlv_set. Proof. has m_nlv_set. Qed.
  Lemma has_add : fn_named tbl n_nlv_add = Some m_nlv_add. Proof. has m_nlv_add. Qed.
  Lemma has_append : fn_named tbl n_nlv_append = Some m_nlv_append. Proof. has m_nlv_append. Qed.
  Lemma has_count : fn_named tbl n_nlv_count = Some m_nlv_count. Proof. has m_nlv_count. Qed.
  Lemma has_first : fn_named tbl n_nlv_first = Some m_nlv_first. Proof. has m_nlv_first. Qed.
  Lemma has_lrv_equals : fn_named tbl n_lrv_equals = Some m_lrv_equals. Proof. has m_lrv_equals. Qed.

  Lemma nlv_get_tie l t :
    nlv_get_t tbl l t = Ok ([match nl_get l t with Some v => GvBytes v | None => GvNil end], Some (GvNl l)).
  Proof. unfold nlv_get_t, run_named. rewrite has_get. apply get_model. Qed.
  Lemma nlv_set_tie l t v : nlv_set_t tbl l t v = Ok ([GvNil], Some (pnl (nl_set l t v))).
  Proof. unfold nlv_set_t, run_named. rewrite has_set. apply set_model. exact has_append. Qed.
  Lemma nlv_add_tie l e : nlv_add_t tbl l e = Ok ([], Some (pnl (nl_append l (fst e) (snd e)))).
  Proof. unfold nlv_add_t, run_named. rewrite has_add. apply add_model. Qed.
  Lemma nlv_append_tie l t v : nlv_append_t tbl l t v = Ok ([GvNil], Some (pnl (nl_append l t v))).
  Proof. unfold nlv_append_t, run_named. rewrite has_append. apply append_model. Qed.
  Lemma nlv_count_tie l : nlv_count_t tbl (pnl l) = Ok ([GvInt (Z.of_nat (nl_count l))], Some (pnl l)).
  Proof. unfold nlv_count_t, run_named. rewrite has_count. apply count_model. Qed.
  Lemma nlv_count_nil_tie : nlv_count_t tbl pnl_nil = Ok ([GvInt 0], Some pnl_nil).
  Proof. unfold nlv_count_t, run_named. rewrite has_count. apply count_nil_model. Qed.
  Lemma nlv_first_tie l : nlv_first_t tbl l = Ok ([GvLrv (nl_first l)], Some (GvNl l)).
  Proof. unfold nlv_first_t, run_named. rewrite has_first. apply first_model. Qed.
  Lemma lrv_equals_tie a b : lrv_equals_t tbl a b = Ok ([GvBool (lrv_eqb a b)], Some (GvLrv a)).
  Proof. unfold lrv_equals_t, run_named. rewrite has_lrv_equals. apply lrv_equals_model. Qed.

  (* histories: every call through the table *)
  Lemma nl_step_tie l o : nl_step_t tbl l o = Ok (nl_step l o).
  Proof.
    destruct o as [t v|t v|t v|t| |]; cbn [nl_step_t nl_step].
    - rewrite nlv_set_tie. reflexivity.
    - rewrite nlv_append_tie. reflexivity.
    - rewrite nlv_add_tie. reflexivity.
    - reflexivity.
    - rewrite nlv_count_tie. reflexivity.
    - reflexivity.
  Qed.

  Lemma nl_obs_tie l o : nl_obs_t tbl l o = Ok (nl_obs l o).
  Proof.
    destruct o as [t v|t v|t v|t| |]; cbn [nl_obs_t nl_obs]; try reflexivity.
    - rewrite nlv_get_tie. unfold nl_answer_of. cbn [obind fst]. destruct (nl_get l t); reflexivity.
    - rewrite nlv_count_tie. unfold nl_count_of. cbn [obind fst].
      pose proof (Zle_0_nat (nl_count l)) as H. apply Z.ltb_ge in H. rewrite H. rewrite Nat2Z.id. reflexivity.
    - rewrite nlv_first_tie. reflexivity.
  Qed.

  Lemma nl_run_tie ops : forall l, nl_run_t tbl l ops = Ok (nl_run l ops).
  Proof.
    induction ops as [|o r IH]; intro l; [reflexivity|].
    cbn [nl_run_t nl_run]. rewrite nl_obs_tie, nl_step_tie.
    cbn [obind]. rewrite IH. cbn [obind]. destruct (nl_run (nl_step l o) r). reflexivity.
  Qed.
End Tie.
