(* The On.. table and the collection-path model on the tables of this run: the condition evaluated, the pinned loops
   refuted, examples (vm_compute). *)
From AP.Model Require Import Prelude Bytes Vocab Pred Layout Views Conv CollIri OnTab OnGen CollPath.
From AP.Proofs Require Import OnTabP CollPathP.

Lemma gen_on_first_bad_none : on_diag_where (first_bad_on gen_on_fns) = None.
Proof. vm_compute. reflexivity. Qed.

Lemma gen_on_table_ok : on_table_ok gen_on_fns = true.
Proof. vm_compute. reflexivity. Qed.

Lemma gen_conv_good : conv_good gen_conv.
Proof. apply conv_of_tables_good. Qed.
Lemma gen_conv_no_panic : conv_no_panic gen_conv.
Proof. apply conv_of_tables_no_panic. Qed.

(* the guards found on this run: the six repaired helpers pass over nil members *)
Lemma gen_on_guards :
  map (fun h => option_map guard_skips_nil (struct_matches gen_on_fns h)) struct_helpers =
    [Some true; Some true; Some true; Some true; Some true] /\
  option_map guard_skips_nil (generic_matches gen_on_fns) = Some true.
Proof. vm_compute. split; reflexivity. Qed.

(* the pinned loops: the shape is the same, the condition is false, the diagnosis names the first loop without the
   IsNil guard; and run on the witness every one of the six hands the callback a nil pointer *)
Lemma pinned_on_rejected :
  on_shapes_ok pinned_on_fns = true /\ on_table_ok pinned_on_fns = false /\
  on_diag_where (first_bad_on pinned_on_fns) = Some (B "OnObject", true).
Proof. vm_compute. repeat split; reflexivity. Qed.

Definition six_names : list bytes :=
  [n_OnT; B "OnObject"; B "OnActivity"; B "OnIntransitiveActivity"; B "OnQuestion"; B "OnActor"].

Lemma pinned_on_hands_nil :
  map (fun n => on_pinned t_object_ptr cb_ok n on_witness) six_names =
    [([OvAddr (OvItem (ITNil KObject))], Ok [OvNil]); ([OvItem (ITNil KObject)], Ok [OvNil]);
     ([OvItem (ITNil KActivity)], Ok [OvNil]); ([OvItem (ITNil KIntransitive)], Ok [OvNil]);
     ([OvItem (ITNil KQuestion)], Ok [OvNil]); ([OvItem (ITNil KActor)], Ok [OvNil])] /\
  forallb (fun n => existsb arg_is_nil (fst (on_pinned t_object_ptr cb_ok n on_witness))) six_names = true /\
  map (fun n => on_gen t_object_ptr cb_ok n on_witness) six_names =
    [([], Ok [OvNil]); ([], Ok [OvNil]); ([], Ok [OvNil]); ([], Ok [OvNil]); ([], Ok [OvNil]); ([], Ok [OvNil])].
Proof. vm_compute. repeat split; reflexivity. Qed.

(* one loop without its guard (a changed source): refused, the loop named, and its meaning hands over the nil pointer *)
Lemma dropped_guard_rejected :
  on_table_ok (drop_nil_guard (B "OnActor") gen_on_fns) = false /\
  on_shapes_ok (drop_nil_guard (B "OnActor") gen_on_fns) = true /\
  on_diag_where (first_bad_on (drop_nil_guard (B "OnActor") gen_on_fns)) = Some (B "OnActor", true) /\
  run_on gen_conv t_object cb_ok (drop_nil_guard (B "OnActor") gen_on_fns) (on_fuel on_witness) (B "OnActor") on_witness
    = ([OvItem (ITNil KActor)], Ok [OvNil]).
Proof. vm_compute. repeat split; reflexivity. Qed.

(* a list with nil-like members of every sort, a link, nested lists: what OnObject, OnActor and On[*Object] hand over *)
Lemma on_example :
  on_gen t_object cb_ok (B "OnObject") og_list =
    ([OvItem (og_obj "a");
      OvItem (IObj true KObject [(F_ID, FStr (B "b")); (F_Type, FStr (B "Person"))]);
      OvItem (og_obj "c")], Ok [OvNil]) /\
  on_gen t_object cb_err_at_2 (B "OnObject") og_list =
    ([OvItem (og_obj "a"); OvItem (IObj true KObject [(F_ID, FStr (B "b")); (F_Type, FStr (B "Person"))])], Ok [OvErr]) /\
  on_gen t_object cb_ok (B "OnActor") og_list = ([], Ok [OvErr]) /\
  kept GNilOrLink og_list = [og_obj "a"; og_actor "b"; og_obj "c"] /\
  is_item_collection og_list = true.
Proof. vm_compute. repeat split; reflexivity. Qed.

(* outside the six: OnPlace, OnProfile, OnTombstone walk lists with loops the repair did not touch; each of them either
   passes over nil members or hands the callback a nil pointer for a typed nil member (on the tree of this delivery:
   the latter, all three) *)
Lemma other_list_helpers_state :
  forallb (fun h => match struct_matches gen_on_fns h with
                    | Some g => guard_skips_nil g || existsb arg_is_nil (fst (on_gen t_object cb_ok (fst h) on_witness))
                    | None => false
                    end) other_list_helpers = true.
Proof. vm_compute. reflexivity. Qed.

(* ---- collection paths *)
Definition gen_g_obj : loop_guard :=
  match struct_matches gen_on_fns (B "OnObject", B "ToObject") with Some g => g | None => GNone end.

Lemma gen_g_obj_skips_nil : guard_skips_nil gen_g_obj = true.
Proof. vm_compute. reflexivity. Qed.

Definition all_paths : list bytes :=
  [B ""; B "outbox"; B "inbox"; B "shares"; B "replies"; B "following"; B "followers"; B "liked"; B "likes"].

Lemma paths_pinned_panic :
  forallb (fun t => is_panic (of_path_pinned gen_conv t on_witness)) all_paths = true /\
  forallb (fun t => is_panic (iri_path gen_conv GLinkOnly t on_witness)) all_paths = false /\
  of_path_pinned gen_conv (B "likes") on_witness = Panic NilDeref /\
  of_path gen_conv gen_g_obj (B "likes") on_witness = Ok (IItems false (Some [INil])).
Proof. vm_compute. repeat split; reflexivity. Qed.

Definition cp_obj : item :=
  IObj true KObject [(F_ID, FStr (B "https://example.com/o")); (F_Likes, FItem (IIri false (B "https://example.com/o/l")))].
Definition cp_actor : item :=
  IObj true KActor [(F_ID, FStr (B "https://example.com/a")); (F_Inbox, FItem (IIri false (B "https://example.com/a/in")))].

(* the last member OnObject gets to decides; an IRI member stops the walk before it starts *)
Lemma paths_example :
  of_path gen_conv gen_g_obj (B "likes") cp_obj = Ok (IIri false (B "https://example.com/o/l")) /\
  of_path gen_conv gen_g_obj (B "inbox") cp_actor = Ok (IIri false (B "https://example.com/a/in")) /\
  of_path gen_conv gen_g_obj (B "likes") (IItems false (Some [ITNil KObject; cp_obj; ITNil KActor])) = Ok (IIri false (B "https://example.com/o/l")) /\
  of_path gen_conv gen_g_obj (B "likes") (IItems false (Some [cp_obj; cp_actor])) = Ok (IIri false (B "https://example.com/a/likes")) /\
  of_path gen_conv gen_g_obj (B "inbox") (IItems false (Some [IIri false (B "https://example.com/i"); cp_actor])) =
    Ok (IItems false (Some [IIri false (B "https://example.com/i/inbox"); IIri false (B "https://example.com/a/in")])) /\
  iri_path gen_conv gen_g_obj (B "inbox") (IItems false (Some [ITNil KActor])) = Ok (B "/inbox") /\
  add_to_path gen_conv (B "likes") (IItems false (Some [ITNil KObject])) = Ok (B "-", false, IItems false (Some [ITNil KObject])) /\
  coll_of (B "likes") cp_obj = Some (IIri false (B "https://example.com/o/l")) /\
  coll_of (B "inbox") cp_actor = Some (IIri false (B "https://example.com/a/in")).
Proof. vm_compute. repeat split; reflexivity. Qed.
