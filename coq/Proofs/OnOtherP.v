(* The list-walking On.. helpers OUTSIDE the guard condition of on_table_ok: OnPlace, OnProfile, OnTombstone (in
   list_helpers, their guard read off the table: links only / links only / none on the current tree) and OnItem (its own
   template, no conversion: the callback is handed the member itself).

   b49's exactness theorem (C20_on_list_exact) needs a guard that passes over nil members: with such a guard an untyped
   nil member never reaches the nested call.  Without it the nested call On<X>(nil, fn) answers nil at its own
   `if it == nil { return nil }` and hands nothing over, while a TYPED nil pointer goes on to To<X>, which answers
   (nil pointer, nil): the callback is handed a nil pointer.  [kept_t g i] is [kept g i] with that said: the members the
   walk gets to, nested lists opened, members the guard passes over dropped, untyped nil members dropped, in order.
   For a guard that passes over nil members kept_t = kept (kept_t_is_kept).

   Proved: for EVERY table of the right shape (on_shapes_ok - no condition on the guard), every helper of
   list_helpers (the five struct helpers and the three others), every conversion, callback, list and fuel from
   on_fuel up: the trace is the converted pointers of a prefix of kept_t g i, all of it when the walk ends without an
   error; for OnItem (table condition [item_matches]): the members themselves; and, for every conversion table that
   answers typed nil pointers with (nil, nil) ([nil_conv_ok]), a typed nil member the guard does not pass over is
   handed to the callback as a nil pointer whenever the walk ends without an error.
   Definitions and proofs; statements in Props/C20.v. *)
From AP.Model Require Import Prelude Bytes Vocab Pred Layout Views Conv Dispatch TabEq OnTab OnGen.
From AP.Proofs Require Import NlvP TabEqP OnTabP.
From Coq Require Import Lia.

(* ------------------------------------------------------------------ the members a walk with ANY guard gets to *)
Fixpoint kept_t (g : loop_guard) (i : item) {struct i} : list item :=
  match i with
  | IItems _ (Some l) =>
      (fix go (l : list item) : list item :=
         match l with
         | [] => []
         | m :: r => (if skips g m then []
                      else match m with IItems _ _ | IIris _ _ => kept_t g m | INil => [] | _ => [m] end) ++ go r
         end) l
  | IIris _ lo => filter (fun m => negb (skips g m)) (map (IIri false) (olst lo))
  | _ => []
  end.

Definition open_t (g : loop_guard) (m : item) : list item :=
  match m with IItems _ _ | IIris _ _ => kept_t g m | INil => [] | _ => [m] end.

Definition kept_t_go (g : loop_guard) : list item -> list item :=
  fix go (l : list item) : list item :=
    match l with
    | [] => []
    | m :: r => (if skips g m then [] else open_t g m) ++ go r
    end.

Lemma kept_t_items g p l : kept_t g (IItems p (Some l)) = kept_t_go g l.
Proof. reflexivity. Qed.

(* a walk over members each of which is a flat walk over what it opens to *)
Lemma walk_open one vis g l :
  (forall m, In m l -> skips g m = false -> forall t, vis m t = walk_with one g (open_t g m) t) ->
  forall tr, walk_with vis g l tr = walk_with one g (kept_t_go g l) tr.
Proof.
  induction l as [|m r IH]; intros H tr; [reflexivity|].
  cbn [walk_with kept_t_go]. rewrite walk_with_app.
  destruct (skips g m) eqn:S.
  - cbn [walk_with and_then]. apply IH. intros x Hx; apply H; right; exact Hx.
  - rewrite (H m (or_introl eq_refl) S tr). apply and_then_ext. intro t.
    apply IH. intros x Hx; apply H; right; exact Hx.
Qed.

(* with a guard that passes over nil members it is b49's [kept] *)
Lemma kept_t_is_kept g : guard_skips_nil g = true -> forall n i, item_size i <= n -> kept_t g i = kept g i.
Proof.
  intro Hg. induction n as [|n IH]; intros i Hs.
  - destruct i as [|k|p s|p k fs|p [l|]|p lo]; simpl in Hs; lia.
  - destruct i as [|k|p s|p k fs|p lo|p lo]; try reflexivity.
    destruct lo as [l|]; [|reflexivity]. rewrite kept_t_items, kept_items.
    assert (Hsz : forall x, In x l -> item_size x <= n) by (intros x Hx; pose proof (size_member p l x Hx); lia).
    clear Hs. induction l as [|m r IHl]; [reflexivity|].
    cbn [kept_t_go kept_go]. rewrite IHl by (intros y Hy; apply Hsz; right; exact Hy). f_equal.
    destruct (skips g m) eqn:S; [reflexivity|].
    destruct m as [|k|p' s|p' k fs|p' lo'|p' lo']; try reflexivity.
    + unfold skips in S. rewrite Hg in S. discriminate S.
    + apply (IH (IItems p' lo')). apply Hsz; left; reflexivity.
Qed.

Section Any.
  Variable conv : bytes -> option (item -> conv_result).
  Variable targ : bool * kind.
  Variable cb : otrace -> oval -> bool.

  Notation VONE := (visit_one conv targ cb).

  (* a walk over a list, whatever the guard, is the flat walk over the members it gets to *)
  Theorem visit_is_flat_any tofn g :
    forall n i, item_size i <= n -> is_item_collection i = true ->
    forall tr, visit conv targ cb tofn g true i tr = walk_with (VONE tofn) g (kept_t g i) tr.
  Proof.
    induction n as [|n IH]; intros i Hs Hc tr.
    - destruct i as [|k|p s|p k fs|p [l|]|p lo]; simpl in Hs; lia.
    - destruct i as [|k|p s|p k fs|p lo|p lo]; try discriminate.
      + destruct lo as [l|]; [|reflexivity]. rewrite visit_items, kept_t_items.
        apply walk_open. intros m Hm S t.
        pose proof (size_member p l m Hm) as Hlt.
        destruct m as [|k|p' s|p' k fs|p' lo'|p' lo'];
          try (unfold open_t; cbn [walk_with]; rewrite S; cbn [visit];
               symmetry; apply and_then_end; apply visit_one_canon).
        * reflexivity.
        * apply IH; [lia | reflexivity].
        * apply IH; [lia | reflexivity].
      + cbn [visit kept_t]. rewrite walk_flat_with, walk_filter. reflexivity.
  Qed.

  (* what the walk gets to: nothing the guard passes over, no untyped nil, no list *)
  Lemma kept_t_members g :
    forall n i, item_size i <= n -> forall m, In m (kept_t g i) ->
      skips g m = false /\ m <> INil /\ is_item_collection m = false.
  Proof.
    induction n as [|n IH]; intros i Hs m Hm.
    - destruct i as [|k|p s|p k fs|p [l|]|p lo]; simpl in Hs; lia.
    - destruct i as [|k|p s|p k fs|p lo|p lo]; try (destruct Hm).
      + destruct lo as [l|]; [|destruct Hm]. rewrite kept_t_items in Hm.
        assert (Hsz : forall x, In x l -> item_size x <= n) by (intros x Hx; pose proof (size_member p l x Hx); lia).
        clear Hs. induction l as [|x r IHl]; [destruct Hm|].
        cbn [kept_t_go] in Hm. apply in_app_or in Hm. destruct Hm as [Hm|Hm].
        * destruct (skips g x) eqn:S; [destruct Hm|].
          destruct x as [|k|p' s|p' k fs|p' lo'|p' lo'];
            try (destruct Hm as [<-|[]]; split; [exact S|split; [discriminate|reflexivity]]).
          -- destruct Hm.
          -- apply (IH (IItems p' lo')); [apply Hsz; left; reflexivity | exact Hm].
          -- apply (IH (IIris p' lo')); [apply Hsz; left; reflexivity | exact Hm].
        * apply IHl; [exact Hm|]. intros y Hy; apply Hsz; right; exact Hy.
      + cbn [kept_t] in Hm. apply filter_In in Hm. destruct Hm as [Hm S]. apply negb_true_iff in S.
        apply in_map_iff in Hm. destruct Hm as [s [<- _]]. split; [exact S|split; [discriminate|reflexivity]].
  Qed.
End Any.

(* a typed nil pointer among the members, not passed over by the guard, is among the members the walk gets to *)
Lemma typed_nil_kept g p l k : In (ITNil k) l -> skips g (ITNil k) = false -> In (ITNil k) (kept_t g (IItems p (Some l))).
Proof.
  intros H S. rewrite kept_t_items. induction l as [|m r IH]; [destruct H|].
  cbn [kept_t_go]. apply in_or_app. destruct H as [->|H].
  - left. rewrite S. left. reflexivity.
  - right. exact (IH H).
Qed.

(* ------------------------------------------------------------------ the eight helpers of list_helpers, any guard *)
Theorem on_list_exact_any : forall conv targ cb tbl, on_shapes_ok tbl = true ->
  forall h, In h list_helpers -> forall i fuel, is_item_collection i = true -> on_fuel i <= fuel ->
  exists g k,
    struct_matches tbl h = Some g /\
    fst (run_on conv targ cb tbl fuel (fst h) i) = map (ptr_of conv targ (snd h)) (firstn k (kept_t g i)) /\
    (snd (run_on conv targ cb tbl fuel (fst h) i) = r_nil -> k = length (kept_t g i)) /\
    (forall m, In m (kept_t g i) -> skips g m = false /\ m <> INil /\ is_item_collection m = false).
Proof.
  intros conv targ cb tbl Hs h Hh i fuel Hi Hf.
  destruct (list_helper_is_visit conv targ cb tbl Hs h Hh) as [g [Hm Hrun]].
  rewrite (Hrun i fuel Hf). unfold visit_struct.
  rewrite (visit_is_flat_any conv targ cb (snd h) g (item_size i) i (le_n _) Hi []).
  pose proof (kept_t_members g (item_size i) i (le_n _)) as Hk.
  destruct (walk_flat_trace conv targ cb (snd h) g (kept_t g i) (fun m Hm0 => proj1 (Hk m Hm0)) []) as [k [K1 K2]].
  exists g, k. split; [exact Hm|]. split; [exact K1|]. split; [exact K2|exact Hk].
Qed.

(* ---- typed nil pointers and the conversion tables *)
Definition nil_conv_ok (layout_of : kind -> list fdecl) (sizeof_kind : kind -> nat) (refl : list (kind * kind))
           (ct : list (bytes * list conv_case * conv_action)) (tofn : bytes) : bool :=
  match to_target tofn, find (fun t => bytes_eqb (fst (fst t)) tofn) ct with
  | Some d, Some t =>
      forallb (fun k => match conv_item layout_of sizeof_kind refl (snd (fst t)) (snd t) d (ITNil k) with
                        | CRNil | CRNilPtr => true | _ => false end) all_kinds
  | _, _ => false
  end.

Lemma all_kinds_all k : In k all_kinds.
Proof. destruct k; vm_compute; tauto. Qed.

Lemma nil_conv_ptr layout_of sizeof_kind refl ct targ tofn : nil_conv_ok layout_of sizeof_kind refl ct tofn = true ->
  forall k, arg_is_nil (ptr_of (conv_of_tables layout_of sizeof_kind refl ct) targ tofn (ITNil k)) = true.
Proof.
  unfold nil_conv_ok. intro H.
  destruct (to_target tofn) as [d|] eqn:T; [|discriminate].
  destruct (find (fun t => bytes_eqb (fst (fst t)) tofn) ct) as [t|] eqn:F; [|discriminate].
  intro k. rewrite forallb_forall in H. specialize (H k (all_kinds_all k)).
  destruct (to_name_not_fixed tofn d T) as [E1 [E2 [E3 [E4 E5]]]].
  unfold ptr_of, leaf. rewrite E1, E2, E3, E4, E5, T. unfold conv_of_tables. rewrite T, F.
  destruct (conv_item layout_of sizeof_kind refl (snd (fst t)) (snd t) d (ITNil k)); try discriminate H; reflexivity.
Qed.

(* THE statement about typed nil members: a walk that ends without an error over a list holding a typed nil pointer
   the guard does not pass over has handed the callback a nil pointer *)
Theorem typed_nil_is_handed : forall layout_of sizeof_kind refl ct targ cb tbl, on_shapes_ok tbl = true ->
  forall h, In h list_helpers -> nil_conv_ok layout_of sizeof_kind refl ct (snd h) = true ->
  forall g, struct_matches tbl h = Some g ->
  forall p l k fuel, In (ITNil k) l -> skips g (ITNil k) = false -> on_fuel (IItems p (Some l)) <= fuel ->
    snd (run_on (conv_of_tables layout_of sizeof_kind refl ct) targ cb tbl fuel (fst h) (IItems p (Some l))) = r_nil ->
    existsb arg_is_nil (fst (run_on (conv_of_tables layout_of sizeof_kind refl ct) targ cb tbl fuel (fst h) (IItems p (Some l)))) = true.
Proof.
  intros layout_of sizeof_kind refl ct targ cb tbl Hs h Hh Hc g Hg p l k fuel Hin Hsk Hf Hend.
  destruct (on_list_exact_any (conv_of_tables layout_of sizeof_kind refl ct) targ cb tbl Hs h Hh
              (IItems p (Some l)) fuel eq_refl Hf) as [g' [n [Hm [Ht [Hn _]]]]].
  rewrite Hg in Hm. injection Hm as <-. rewrite Ht, (Hn Hend), firstn_all.
  apply existsb_exists. exists (ptr_of (conv_of_tables layout_of sizeof_kind refl ct) targ (snd h) (ITNil k)).
  split; [apply in_map; apply typed_nil_kept; assumption|].
  apply nil_conv_ptr; exact Hc.
Qed.

(* ------------------------------------------------------------------ OnItem *)
Definition n_OnItem := B "OnItem".
(* if it == nil { return nil }; if !IsItemCollection(it) { return fn(it) }; return OnItemCollection(it, func(col) {..}) *)
Definition item_template (g : loop_guard) : ofn :=
  mkofn n_OnItem [v_it; v_fn]
    (nil_guard (OsIf (OxNot (OxCall n_IsItemCollection (oxs [e_it])))
                  (OsReturn (oxs [OxCallVar v_fn (oxs [e_it])]))
                  (walk_list n_OnItem g))).
Definition item_shape (f : ofn) : option loop_guard :=
  match on_body f with OsIf _ _ (OsIf _ _ w) => guard_of_walk w | _ => None end.
Definition item_matches (tbl : list ofn) : option loop_guard :=
  match ofn_named tbl n_OnItem with
  | Some f => match item_shape f with
              | Some g => if ofn_beq f (item_template g) then Some g else None
              | None => None
              end
  | None => None
  end.

(* diagnosis: the body found when it is not the template *)
Definition item_diag (tbl : list ofn) : option (option ofn) :=
  match item_matches tbl with Some _ => None | None => Some (ofn_named tbl n_OnItem) end.

Lemma item_matches_sound tbl g : item_matches tbl = Some g -> ofn_named tbl n_OnItem = Some (item_template g).
Proof.
  unfold item_matches. destruct (ofn_named tbl n_OnItem) as [f|]; [|discriminate].
  destruct (item_shape f) as [g'|]; [|discriminate].
  destruct (ofn_beq f (item_template g')) eqn:E; [|discriminate].
  intro H; injection H as <-. apply ofn_beq_eq in E. rewrite E. reflexivity.
Qed.

(* the callback handed the member itself *)
Definition hand_member (cb : otrace -> oval -> bool) (m : item) : otrace -> otrace * outcome (list oval) :=
  fun tr => (tr ++ [OvItem m], Ok [if cb tr (OvItem m) then OvErr else OvNil]).

Definition spec_item (cb : otrace -> oval -> bool) (g : loop_guard) (i : item) : otrace -> otrace * outcome (list oval) :=
  fun tr => match i with
            | INil => (tr, r_nil)
            | IItems _ _ | IIris _ _ => walk_with (hand_member cb) g (kept_t g i) tr
            | other => hand_member cb other tr
            end.

Lemma hand_canon cb m t : canon (snd (hand_member cb m t)).
Proof. unfold hand_member; simpl. destruct (cb t (OvItem m)); [right; left; reflexivity | left; reflexivity]. Qed.

Section Item.
  Variable conv : bytes -> option (item -> conv_result).
  Variable targ : bool * kind.
  Variable cb : otrace -> oval -> bool.
  Variable tbl : list ofn.
  Variables (vc : bytes) (g : loop_guard).
  Hypothesis Hnamed : ofn_named tbl n_OnItem = Some (item_template g).
  Hypothesis Hcoll : ofn_named tbl n_OnItemCollection = Some (plain_template n_OnItemCollection n_ToItemCollection vc).
  Hypothesis Hvc : local_ok vc = true.

  Notation APPLY := (apply_at conv targ cb tbl).

  Lemma item_entry n i tr :
    APPLY (S n) (OvFn n_OnItem) [OvItem i; OvCb] tr =
    (let (tr', o) := exec conv targ cb (APPLY n) [(v_fn, OvCb); (v_it, OvItem i)] (on_body (item_template g)) tr in
     match o with
     | Ok g0 => ret_of g0 tr'
     | Err => (tr', Err)
     | Panic p => (tr', Panic p)
     | OutOfFuel => (tr', OutOfFuel)
     end).
  Proof.
    cbn [apply_at]. rewrite Hnamed. cbn [item_template on_params on_body obind_vars].
    change (bytes_eqb v_it blank_name) with false. change (bytes_eqb v_fn blank_name) with false. cbv iota.
    reflexivity.
  Qed.

  Lemma run_item_one n i tr :
    is_item_collection i = false ->
    APPLY (S n) (OvFn n_OnItem) [OvItem i; OvCb] tr = match i with INil => (tr, r_nil) | _ => hand_member cb i tr end.
  Proof.
    intro Hc. rewrite item_entry. cbn [item_template on_body]. rewrite run_nil_guard.
    destruct i as [|k|p s|p k fs|p lo|p lo]; try discriminate; try reflexivity;
      rewrite run_if_not_collection, Hc; unfold hand_member; cbn;
      match goal with |- context [cb tr ?a] => destruct (cb tr a) end; reflexivity.
  Qed.

  Lemma run_item_list n i vis tr :
    is_item_collection i = true ->
    (forall m t, In m (olst (view_lo i)) -> APPLY n (OvFn n_OnItem) [OvItem m; OvCb] t = vis m t) ->
    APPLY (S (S (S n))) (OvFn n_OnItem) [OvItem i; OvCb] tr = walk_with vis g (olst (view_lo i)) tr.
  Proof.
    intros Hc Hcall. rewrite item_entry. cbn [item_template on_body]. rewrite run_nil_guard.
    assert (E : exec conv targ cb (APPLY (S (S n))) [(v_fn, OvCb); (v_it, OvItem i)]
                  (OsIf (OxNot (OxCall n_IsItemCollection (oxs [e_it])))
                     (OsReturn (oxs [OxCallVar v_fn (oxs [e_it])])) (walk_list n_OnItem g)) tr
                = as_ret (walk_with vis g (olst (view_lo i)) tr)).
    { rewrite run_if_not_collection, Hc. rewrite run_walk_list.
      fold (the_closure n_OnItem g i). unfold the_closure at 1.
      rewrite (run_on_item_collection conv targ cb tbl vc (S n) i _ _ _ tr Hcoll Hvc Hc). fold (the_closure n_OnItem g i).
      rewrite (run_closure conv targ cb tbl n_OnItem g i n vis tr eq_refl Hc Hcall). reflexivity. }
    destruct i as [|k|p s|p k fs|p lo|p lo]; try discriminate; rewrite E; apply ret_as_ret.
  Qed.

  Theorem item_interp : forall n i, item_size i <= n -> forall fuel tr, on_fuel i <= fuel ->
    APPLY fuel (OvFn n_OnItem) [OvItem i; OvCb] tr = spec_item cb g i tr.
  Proof.
    induction n as [|n IH]; intros i Hs fuel tr Hf.
    - destruct i as [|k|p s|p k fs|p [l|]|p lo]; simpl in Hs; lia.
    - unfold on_fuel in Hf.
      assert (Hpos : 1 <= item_size i) by (destruct i as [|k|p s|p k fs|p [l|]|p lo]; simpl; lia).
      destruct fuel as [|[|[|n2]]]; try lia.
      destruct i as [|k|p s|p k fs|p lo|p lo].
      + rewrite run_item_one by reflexivity. reflexivity.
      + rewrite run_item_one by reflexivity. reflexivity.
      + rewrite run_item_one by reflexivity. reflexivity.
      + rewrite run_item_one by reflexivity. reflexivity.
      + rewrite (run_item_list n2 (IItems p lo) (spec_item cb g) tr eq_refl).
        * destruct lo as [l|]; [|reflexivity]. cbn [view_lo olst spec_item]. rewrite kept_t_items.
          apply walk_open. intros m Hm S t.
          destruct m as [|k|p' s|p' k fs|p' lo'|p' lo']; try reflexivity;
            (unfold open_t, spec_item; cbn [walk_with]; rewrite S; symmetry; apply and_then_end; apply hand_canon).
        * intros m t Hm. destruct lo as [l|]; [|destruct Hm]. cbn [view_lo olst] in Hm.
          pose proof (size_member p l m Hm) as Hlt. apply IH; [lia|]. unfold on_fuel. lia.
      + rewrite (run_item_list n2 (IIris p lo) (hand_member cb) tr eq_refl).
        * cbn [view_lo olst spec_item kept_t]. rewrite walk_filter. reflexivity.
        * intros m t Hm. cbn [view_lo olst] in Hm. apply in_map_iff in Hm. destruct Hm as [s [<- _]].
          simpl in Hf. destruct n2 as [|n3]; [lia|]. rewrite run_item_one by reflexivity. reflexivity.
  Qed.
End Item.

Lemma walk_hand_trace cb g l : (forall m, In m l -> skips g m = false) ->
  forall tr, exists k,
    fst (walk_with (hand_member cb) g l tr) = tr ++ map OvItem (firstn k l) /\
    (snd (walk_with (hand_member cb) g l tr) = r_nil -> k = length l).
Proof.
  induction l as [|m r IH]; intros Hs tr.
  - exists 0. simpl. rewrite app_nil_r. split; reflexivity.
  - cbn [walk_with]. rewrite (Hs m (or_introl eq_refl)).
    assert (Hr : forall x, In x r -> skips g x = false) by (intros x Hx; apply Hs; right; exact Hx).
    replace (hand_member cb m tr) with (tr ++ [OvItem m], Ok [if cb tr (OvItem m) then OvErr else OvNil]) by reflexivity.
    destruct (cb tr (OvItem m)).
    + exists 1. cbn [and_then firstn map fst snd]. split; [reflexivity | discriminate].
    + cbn [and_then]. destruct (IH Hr (tr ++ [OvItem m])) as [k [K1 K2]]. exists (S k).
      cbn [firstn map]. rewrite K1, <- app_assoc. split; [reflexivity|].
      intro X. rewrite (K2 X). reflexivity.
Qed.

(* OnItem on a list: the callback is handed the members themselves - a typed nil member as the nil pointer it is *)
Theorem on_item_exact : forall conv targ cb tbl g, on_shapes_ok tbl = true -> item_matches tbl = Some g ->
  forall i fuel, is_item_collection i = true -> on_fuel i <= fuel ->
  exists k,
    fst (run_on conv targ cb tbl fuel n_OnItem i) = map OvItem (firstn k (kept_t g i)) /\
    (snd (run_on conv targ cb tbl fuel n_OnItem i) = r_nil -> k = length (kept_t g i)) /\
    (forall m, In m (kept_t g i) -> skips g m = false /\ m <> INil /\ is_item_collection m = false).
Proof.
  intros conv targ cb tbl g Hs Hm i fuel Hi Hf.
  destruct (coll_template tbl Hs) as [vc [Hc Hvc]].
  pose proof (item_matches_sound tbl g Hm) as Hn.
  unfold run_on.
  rewrite (item_interp conv targ cb tbl vc g Hn Hc Hvc (item_size i) i (le_n _) fuel [] Hf).
  pose proof (kept_t_members g (item_size i) i (le_n _)) as Hk.
  destruct (walk_hand_trace cb g (kept_t g i) (fun m Hm0 => proj1 (Hk m Hm0)) []) as [k [K1 K2]].
  exists k.
  assert (E : spec_item cb g i [] = walk_with (hand_member cb) g (kept_t g i) []).
  { destruct i as [|k0|p s|p k0 fs|p lo|p lo]; try discriminate; reflexivity. }
  rewrite E. split; [exact K1|]. split; [exact K2|exact Hk].
Qed.

Theorem on_item_typed_nil : forall conv targ cb tbl g, on_shapes_ok tbl = true -> item_matches tbl = Some g ->
  forall p l k fuel, In (ITNil k) l -> skips g (ITNil k) = false -> on_fuel (IItems p (Some l)) <= fuel ->
    snd (run_on conv targ cb tbl fuel n_OnItem (IItems p (Some l))) = r_nil ->
    In (OvItem (ITNil k)) (fst (run_on conv targ cb tbl fuel n_OnItem (IItems p (Some l)))).
Proof.
  intros conv targ cb tbl g Hs Hm p l k fuel Hin Hsk Hf Hend.
  destruct (on_item_exact conv targ cb tbl g Hs Hm (IItems p (Some l)) fuel eq_refl Hf) as [n [Ht [Hn _]]].
  rewrite Ht, (Hn Hend), firstn_all. apply (in_map OvItem). apply typed_nil_kept; assumption.
Qed.

(* ------------------------------------------------------------------ the tables of this run *)
(* (the guards of this run are not pinned here: OnPlace / OnProfile links only, OnTombstone / OnItem none today; every
   statement holds whatever they are) *)
Lemma gen_nil_conv_ok :
  forallb (fun h => nil_conv_ok AP.Gen.Layout.layout_of AP.Gen.Layout.sizeof_kind AP.Gen.Conv.reflect_convertible
                                AP.Gen.Conv.conv_tables (snd h)) list_helpers = true.
Proof. vm_compute. reflexivity. Qed.
