(* Proofs for Model/OnTab.v: for every table satisfying the condition, the interpreter of the generated On.. bodies
   is the specification [visit]; the specification never hands the callback a nil pointer for a member of a list
   when the loop passes over nil members, and hands it the remaining members in order. *)
From AP.Model Require Import Prelude Bytes Vocab Pred Layout Views Conv Dispatch TabEq OnTab.
From AP.Proofs Require Import NlvP TabEqP.
From Coq Require Import Lia.

(* ------------------------------------------------------------------ boolean equality of bodies is equality *)
Scheme oexp_mind := Induction for oexp Sort Prop
  with oexps_mind := Induction for oexps Sort Prop
  with ostmt_mind := Induction for ostmt Sort Prop.
Combined Scheme osyntax_mind from oexp_mind, oexps_mind, ostmt_mind.

Lemma onil_beq_eq a b : onil_beq a b = true -> a = b.
Proof. destruct a, b; simpl; congruence. Qed.

Lemma lbeq_bytes_eq (a b : list bytes) : lbeq bytes_eqb a b = true -> a = b.
Proof. apply lbeq_eq. intros x y; apply bytes_eqb_true. Qed.

Ltac split_andb :=
  repeat match goal with
         | H : _ && _ = true |- _ => apply andb_true_iff in H; destruct H
         end.

Lemma osyntax_beq_eq :
  (forall a b, oexp_beq a b = true -> a = b) /\
  (forall a b, oexps_beq a b = true -> a = b) /\
  (forall a b, ostmt_beq a b = true -> a = b).
Proof.
  apply osyntax_mind; intros;
    match goal with H : _ = true |- _ = ?b => destruct b; simpl in H; try discriminate end; split_andb;
    repeat match goal with
           | H : bytes_eqb _ _ = true |- _ => apply bytes_eqb_true in H
           | H : lbeq bytes_eqb _ _ = true |- _ => apply lbeq_bytes_eq in H
           | H : onil_beq _ _ = true |- _ => apply onil_beq_eq in H
           | IH : forall b, oexp_beq ?x b = true -> ?x = b, H : oexp_beq ?x _ = true |- _ => apply IH in H
           | IH : forall b, oexps_beq ?x b = true -> ?x = b, H : oexps_beq ?x _ = true |- _ => apply IH in H
           | IH : forall b, ostmt_beq ?x b = true -> ?x = b, H : ostmt_beq ?x _ = true |- _ => apply IH in H
           end; subst; reflexivity.
Qed.

Lemma ofn_beq_eq a b : ofn_beq a b = true -> a = b.
Proof.
  destruct a as [n ps s], b as [n' ps' s']; unfold ofn_beq; simpl; intro H; split_andb.
  apply bytes_eqb_true in H. apply lbeq_bytes_eq in H1. apply (proj2 (proj2 osyntax_beq_eq)) in H0. subst; reflexivity.
Qed.

(* ------------------------------------------------------------------ running the templates *)
Arguments is_nil : simpl never.
Arguments is_link : simpl never.
Arguments is_item_collection : simpl never.
Arguments items_view : simpl never.

(* the leaves, on one item *)
Lemma leaf_is_nil conv targ i : leaf conv targ n_IsNil [OvItem i] = Ok [OvBool (is_nil i)].
Proof. reflexivity. Qed.
Lemma leaf_is_link conv targ i : leaf conv targ n_IsLink [OvItem i] = Ok [OvBool (is_link i)].
Proof. reflexivity. Qed.
Lemma leaf_is_coll conv targ i : leaf conv targ n_IsItemCollection [OvItem i] = Ok [OvBool (is_item_collection i)].
Proof. reflexivity. Qed.
Lemma leaf_to_coll conv targ i : leaf conv targ n_ToItemCollection [OvItem i] =
  if is_nil i then Ok [OvNil; OvNil]
  else match items_view i with Some lo => Ok [OvColPtr lo; OvNil] | None => Ok [OvNil; OvErr] end.
Proof. reflexivity. Qed.
Lemma leaf_names_are_leaves :
  is_leaf_name n_IsNil = true /\ is_leaf_name n_IsLink = true /\ is_leaf_name n_IsItemCollection = true /\
  is_leaf_name n_ToItemCollection = true /\ is_leaf_name n_ToT = true /\ is_leaf_name n_OnItemCollection = false /\
  is_leaf_name n_OnT = false.
Proof. vm_compute. repeat split; reflexivity. Qed.

(* [is_leaf_name] of a literal name, by computation; a leaf applied to a literal name, by conversion *)
Ltac leafs :=
  repeat match goal with
         | |- context [is_leaf_name ?f] =>
             let r := eval vm_compute in (is_leaf_name f) in
             match r with
             | true => change (is_leaf_name f) with true
             | false => change (is_leaf_name f) with false
             end
         end.
Ltac leaf_nil m :=
  match goal with |- context [leaf ?c ?t ?f [OvItem m]] => change (leaf c t f [OvItem m]) with (Ok [OvBool (is_nil m)]) end.
Ltac leaf_link m :=
  match goal with |- context [leaf ?c ?t ?f [OvItem m]] => change (leaf c t f [OvItem m]) with (Ok [OvBool (is_link m)]) end.
Ltac leaf_coll m :=
  match goal with |- context [leaf ?c ?t ?f [OvItem m]] => change (leaf c t f [OvItem m]) with (Ok [OvBool (is_item_collection m)]) end.

Definition lift (r : otrace * outcome (list oval)) : otrace * outcome osig :=
  match r with
  | (tr, Ok [OvNil]) => (tr, Ok SgFall)
  | (tr, Ok [OvErr]) => (tr, Ok (SgRet [OvErr]))
  | (tr, Ok _) => (tr, Err)
  | (tr, Err) => (tr, Err)
  | (tr, Panic p) => (tr, Panic p)
  | (tr, OutOfFuel) => (tr, OutOfFuel)
  end.

(* the result of a function body from the result of its last call *)
Definition as_ret (r : otrace * outcome (list oval)) : otrace * outcome osig :=
  match r with
  | (tr, Ok vs) => (tr, Ok (SgRet vs))
  | (tr, Err) => (tr, Err)
  | (tr, Panic p) => (tr, Panic p)
  | (tr, OutOfFuel) => (tr, OutOfFuel)
  end.

(* results a walk can end in *)
Definition canon (o : outcome (list oval)) : Prop :=
  o = r_nil \/ o = r_err \/ o = Err \/ (exists p, o = Panic p) \/ o = OutOfFuel.

Lemma local_ok_cases v : local_ok v = true -> v = B "ob" \/ v = B "act" \/ v = B "col".
Proof.
  unfold local_ok, local_names; simpl; intro H.
  repeat (apply orb_true_iff in H; destruct H as [H|H]); try discriminate;
    apply bytes_eqb_true in H; tauto.
Qed.

Section Run.
  Variable conv : bytes -> option (item -> conv_result).
  Variable targ : bool * kind.
  Variable cb : otrace -> oval -> bool.
  Variable tbl : list ofn.

  Notation LEAF := (leaf conv targ).
  Notation VONE := (visit_one conv targ cb).

  (* the standalone form of the walk over the members *)
  Fixpoint walk_with (vis : item -> otrace -> otrace * outcome (list oval)) (g : loop_guard) (l : list item) (tr : otrace)
    : otrace * outcome (list oval) :=
    match l with
    | [] => (tr, r_nil)
    | m :: r => if skips g m then walk_with vis g r tr else and_then (vis m tr) (walk_with vis g r)
    end.

  Lemma walk_canon vis g l : forall tr, canon (snd (walk_with vis g l tr)).
  Proof.
    induction l as [|m r IH]; intro tr; simpl; [left; reflexivity|].
    destruct (skips g m); [apply IH|].
    destruct (vis m tr) as [tr' [vs| |p|]]; simpl.
    - destruct vs as [|[] [|]]; simpl; try (right; right; left; reflexivity); try apply IH. right; left; reflexivity.
    - right; right; left; reflexivity.
    - right; right; right; left; exists p; reflexivity.
    - right; right; right; right; reflexivity.
  Qed.

  Lemma visit_items tofn g top p l tr :
    visit conv targ cb tofn g top (IItems p (Some l)) tr = walk_with (visit conv targ cb tofn g top) g l tr.
  Proof.
    simpl. revert tr; induction l as [|m r IH]; intro tr; simpl; [reflexivity|].
    destruct (skips g m); [apply IH|].
    destruct (visit conv targ cb tofn g top m tr) as [tr' [vs| |q|]]; simpl; try reflexivity.
    destruct vs as [|[] [|]]; simpl; try reflexivity. apply IH.
  Qed.

  Lemma walk_flat_with tofn g l tr :
    walk_flat conv targ cb tofn g l tr = walk_with (VONE tofn) g l tr.
  Proof.
    revert tr; induction l as [|m r IH]; intro tr; simpl; [reflexivity|].
    destruct (skips g m); [apply IH|].
    destruct (VONE tofn m tr) as [tr' [vs| |q|]]; simpl; try reflexivity.
    destruct vs as [|[] [|]]; simpl; try reflexivity. apply IH.
  Qed.

  Section Step.
    Variable A : oval -> list oval -> OM (list oval).

    Notation EXEC := (exec conv targ cb A).

    (* v, err := to(it); if err != nil { return err }; return fn(v) - in the environment of a call *)
    Opaque leaf.
    Lemma run_convert tofn v fv i tr :
      is_leaf_name tofn = true -> local_ok v = true ->
      EXEC [(v_fn, fv); (v_it, OvItem i)] (convert_and_call tofn v) tr =
      match LEAF tofn [OvItem i] with
      | Ok [p; OvNil] => as_ret (do_callvar cb A fv [p] tr)
      | Ok [_; OvErr] => (tr, Ok (SgRet [OvErr]))
      | Ok _ => (tr, Err)
      | Err => (tr, Err)
      | Panic q => (tr, Panic q)
      | OutOfFuel => (tr, OutOfFuel)
      end.
    Proof.
      intros Hleaf Hv.
      destruct (local_ok_cases v Hv) as [->|[->| ->]]; unfold convert_and_call;
        cbn; unfold do_call; rewrite Hleaf; cbn;
        (destruct (LEAF tofn [OvItem i]) as [vs| |p|]; cbn; try reflexivity;
         destruct vs as [|x [|y [|z r]]]; cbn; try reflexivity;
         destruct y; cbn; try reflexivity;
         unfold as_ret; destruct (do_callvar cb A fv [x] tr) as [tr' [ws| |q|]]; reflexivity).
    Qed.
    Transparent leaf.

    Definition loop_env (m : item) (ptr : oval) (i : item) : oenv :=
      [(v_it, OvItem m); (v_col, ptr); (v_fn, OvCb); (v_it, OvItem i)].

    (* one turn of the loop *)
    Lemma run_loop_body self g m ptr i tr :
      is_leaf_name self = false ->
      EXEC (loop_env m ptr i) (loop_body self g) tr =
      if skips g m then (tr, Ok SgContinue) else lift (A (OvFn self) [OvItem m; OvCb] tr).
    Proof.
      intro Hself.
      assert (R : EXEC (loop_env m ptr i) (recurse self) tr = lift (A (OvFn self) [OvItem m; OvCb] tr)).
      { unfold recurse, loop_env. cbn. unfold do_call. rewrite Hself. unfold obnd, oret, ofail. cbn.
        destruct (A (OvFn self) [OvItem m; OvCb] tr) as [tr' [vs| |q|]]; cbn; try reflexivity.
        destruct vs as [|x [|y r]]; cbn; try reflexivity; destruct x; cbn; reflexivity. }
      unfold skips; destruct g; cbn [loop_body guard_skips_nil guard_skips_links andb orb].
      - (* IsNil *)
        unfold loop_env. cbn. destruct (is_nil m); cbn; [reflexivity|]. exact R.
      - (* IsNil || IsLink *)
        unfold loop_env. rewrite <- R. unfold loop_env.
        cbv -[is_nil is_link is_leaf_name].
        destruct (is_nil m); [reflexivity|]. destruct (is_link m); reflexivity.
      - (* IsLink || IsNil *)
        unfold loop_env. rewrite <- R. unfold loop_env.
        cbv -[is_nil is_link is_leaf_name].
        destruct (is_link m); [destruct (is_nil m); reflexivity|]. destruct (is_nil m); reflexivity.
      - (* IsLink *)
        unfold loop_env. cbn. destruct (is_link m); cbn; [reflexivity|]. exact R.
      - exact R.
    Qed.

    (* the loop *)
    Lemma run_loop self g ptr i vis l :
      is_leaf_name self = false ->
      (forall m tr, In m l -> A (OvFn self) [OvItem m; OvCb] tr = vis m tr) ->
      forall tr, ofor (fun x => EXEC (loop_env x ptr i) (loop_body self g)) l tr = lift (walk_with vis g l tr).
    Proof.
      intros Hself Hcall. induction l as [|m r IH]; intro tr; [reflexivity|].
      cbn [ofor walk_with]. unfold obnd at 1. rewrite (run_loop_body self g m ptr i tr Hself).
      destruct (skips g m).
      - apply IH. intros x t Hx; apply Hcall; right; exact Hx.
      - rewrite (Hcall m tr (or_introl eq_refl)).
        destruct (vis m tr) as [tr' [vs| |q|]]; cbn; try reflexivity.
        destruct vs as [|x [|y r']]; cbn; try reflexivity; destruct x; cbn; try reflexivity.
        apply IH. intros x t Hx; apply Hcall; right; exact Hx.
    Qed.

    (* the body of the function literal, run on the pointer OnItemCollection hands it *)
    Lemma run_closure_body self g lo i vis tr :
      is_leaf_name self = false ->
      (forall m t, In m (olst lo) -> A (OvFn self) [OvItem m; OvCb] t = vis m t) ->
      EXEC [(v_col, OvColPtr lo); (v_fn, OvCb); (v_it, OvItem i)]
           (OsIf (OxIsNil OnPtr (OxVar v_col)) (OsReturn (oxs [OxNil]))
              (OsRange v_it (OxDeref (OxVar v_col)) (loop_body self g) (OsReturn (oxs [OxNil])))) tr
      = as_ret (walk_with vis g (olst lo) tr).
    Proof.
      intros Hself Hcall.
      change (EXEC [(v_col, OvColPtr lo); (v_fn, OvCb); (v_it, OvItem i)]
                (OsIf (OxIsNil OnPtr (OxVar v_col)) (OsReturn (oxs [OxNil]))
                   (OsRange v_it (OxDeref (OxVar v_col)) (loop_body self g) (OsReturn (oxs [OxNil])))) tr)
        with (then_rest (ofor (fun x => EXEC (loop_env x (OvColPtr lo) i) (loop_body self g)) (olst lo))
                        (oret (SgRet [OvNil])) tr).
      unfold then_rest, obnd. rewrite (run_loop self g (OvColPtr lo) i vis (olst lo) Hself Hcall tr).
      pose proof (walk_canon vis g (olst lo) tr) as C.
      destruct (walk_with vis g (olst lo) tr) as [tr' o]; simpl in C.
      destruct C as [->|[->|[->|[[q ->]| ->]]]]; reflexivity.
    Qed.

    Lemma run_closure_body_nil self g i tr :
      EXEC [(v_col, OvNil); (v_fn, OvCb); (v_it, OvItem i)]
           (OsIf (OxIsNil OnPtr (OxVar v_col)) (OsReturn (oxs [OxNil]))
              (OsRange v_it (OxDeref (OxVar v_col)) (loop_body self g) (OsReturn (oxs [OxNil])))) tr
      = (tr, Ok (SgRet [OvNil])).
    Proof. reflexivity. Qed.

    Lemma run_nil_guard fv i rest tr :
      EXEC [(v_fn, fv); (v_it, OvItem i)] (nil_guard rest) tr =
      match i with INil => (tr, Ok (SgRet [OvNil])) | _ => EXEC [(v_fn, fv); (v_it, OvItem i)] rest tr end.
    Proof. destruct i; reflexivity. Qed.

    Lemma run_if_collection fv i t rest tr :
      EXEC [(v_fn, fv); (v_it, OvItem i)] (OsIf (OxCall n_IsItemCollection (oxs [e_it])) t rest) tr =
      if is_item_collection i
      then then_rest (EXEC [(v_fn, fv); (v_it, OvItem i)] t) (EXEC [(v_fn, fv); (v_it, OvItem i)] rest) tr
      else EXEC [(v_fn, fv); (v_it, OvItem i)] rest tr.
    Proof. cbn. destruct (is_item_collection i); reflexivity. Qed.

    Lemma run_if_not_collection fv i t rest tr :
      EXEC [(v_fn, fv); (v_it, OvItem i)] (OsIf (OxNot (OxCall n_IsItemCollection (oxs [e_it]))) t rest) tr =
      if is_item_collection i
      then EXEC [(v_fn, fv); (v_it, OvItem i)] rest tr
      else then_rest (EXEC [(v_fn, fv); (v_it, OvItem i)] t) (EXEC [(v_fn, fv); (v_it, OvItem i)] rest) tr.
    Proof. cbn. destruct (is_item_collection i); reflexivity. Qed.

    (* return OnItemCollection(it, func(col) ...) *)
    Lemma run_walk_list self g i tr :
      EXEC [(v_fn, OvCb); (v_it, OvItem i)] (walk_list self g) tr =
      as_ret (A (OvFn n_OnItemCollection)
                [OvItem i;
                 OvClos [v_col]
                   (OsIf (OxIsNil OnPtr (OxVar v_col)) (OsReturn (oxs [OxNil]))
                      (OsRange v_it (OxDeref (OxVar v_col)) (loop_body self g) (OsReturn (oxs [OxNil]))))
                   [(v_fn, OvCb); (v_it, OvItem i)]] tr).
    Proof.
      reflexivity.
    Qed.
  End Step.

  Notation APPLY := (apply_at conv targ cb tbl).

  Lemma ret_as_ret (r : otrace * outcome (list oval)) :
    (let (tr', o) := as_ret r in
     match o with
     | Ok g => ret_of g tr'
     | Err => (tr', Err)
     | Panic p => (tr', Panic p)
     | OutOfFuel => (tr', OutOfFuel)
     end) = r.
  Proof. destruct r as [tr' [vs| |q|]]; reflexivity. Qed.

  (* the list ToItemCollection hands a pointer to *)
  Definition view_lo (i : item) : option (list item) :=
    match i with
    | IItems _ lo => lo
    | IIris _ lo => Some (map (IIri false) (olst lo))
    | _ => None
    end.
  Definition view_ptr (i : item) : oval := if is_nil i then OvNil else OvColPtr (view_lo i).

  (* OnItemCollection(i, closure) on a list *)
  Lemma run_on_item_collection vc n i ps body en tr :
    ofn_named tbl n_OnItemCollection = Some (plain_template n_OnItemCollection n_ToItemCollection vc) ->
    local_ok vc = true -> is_item_collection i = true ->
    APPLY (S n) (OvFn n_OnItemCollection) [OvItem i; OvClos ps body en] tr =
    APPLY n (OvClos ps body en) [view_ptr i] tr.
  Proof.
    intros Hn Hvc Hc. cbn [apply_at]. rewrite Hn. cbn [plain_template on_params on_body obind_vars].
    change (bytes_eqb v_it blank_name) with false. change (bytes_eqb v_fn blank_name) with false. cbv iota.
    unfold obnd at 1. rewrite run_nil_guard.
    assert (Hleaf : is_leaf_name n_ToItemCollection = true) by reflexivity.
    destruct i as [|k|p s|p k fs|p lo|p lo]; try discriminate;
      rewrite (run_convert _ n_ToItemCollection vc _ _ _ Hleaf Hvc); rewrite leaf_to_coll;
      destruct p, lo as [l|]; apply ret_as_ret.
  Qed.

  Definition the_closure (self : bytes) (g : loop_guard) (i : item) : oval :=
    OvClos [v_col]
      (OsIf (OxIsNil OnPtr (OxVar v_col)) (OsReturn (oxs [OxNil]))
         (OsRange v_it (OxDeref (OxVar v_col)) (loop_body self g) (OsReturn (oxs [OxNil]))))
      [(v_fn, OvCb); (v_it, OvItem i)].

  (* the function literal applied to the pointer *)
  Lemma run_closure self g i n vis tr :
    is_leaf_name self = false -> is_item_collection i = true ->
    (forall m t, In m (olst (view_lo i)) -> APPLY n (OvFn self) [OvItem m; OvCb] t = vis m t) ->
    APPLY (S n) (the_closure self g i) [view_ptr i] tr = walk_with vis g (olst (view_lo i)) tr.
  Proof.
    intros Hself Hc Hcall. unfold the_closure. cbn [apply_at obind_vars].
    change (bytes_eqb v_col blank_name) with false. cbv iota. unfold obnd at 1.
    unfold view_ptr. destruct (is_nil i) eqn:N.
    - rewrite run_closure_body_nil.
      assert (olst (view_lo i) = []) as ->.
      { destruct i as [|k|p s|p k fs|p lo|p lo]; try discriminate; destruct p, lo; try discriminate; reflexivity. }
      reflexivity.
    - rewrite (run_closure_body (APPLY n) self g (view_lo i) i vis tr Hself Hcall). apply ret_as_ret.
  Qed.

  Section Struct.
    Variables (self tofn v vc : bytes) (g : loop_guard).
    Hypothesis Hnamed : ofn_named tbl self = Some (struct_template self tofn v g).
    Hypothesis Hcoll : ofn_named tbl n_OnItemCollection = Some (plain_template n_OnItemCollection n_ToItemCollection vc).
    Hypothesis Hv : local_ok v = true.
    Hypothesis Hvc : local_ok vc = true.
    Hypothesis Hself : is_leaf_name self = false.
    Hypothesis Htofn : is_leaf_name tofn = true.

    Lemma struct_entry n i tr :
      APPLY (S n) (OvFn self) [OvItem i; OvCb] tr =
      (let (tr', o) := exec conv targ cb (APPLY n) [(v_fn, OvCb); (v_it, OvItem i)] (on_body (struct_template self tofn v g)) tr in
       match o with
       | Ok g0 => ret_of g0 tr'
       | Err => (tr', Err)
       | Panic p => (tr', Panic p)
       | OutOfFuel => (tr', OutOfFuel)
       end).
    Proof.
      cbn [apply_at]. rewrite Hnamed. cbn [struct_template on_params on_body obind_vars].
      change (bytes_eqb v_it blank_name) with false. change (bytes_eqb v_fn blank_name) with false. cbv iota.
      reflexivity.
    Qed.

    (* an item that is no list *)
    Lemma run_struct_one n i tr :
      is_item_collection i = false ->
      APPLY (S n) (OvFn self) [OvItem i; OvCb] tr =
      match i with INil => (tr, r_nil) | _ => VONE tofn i tr end.
    Proof.
      intro Hc. rewrite struct_entry. cbn [struct_template on_body]. rewrite run_nil_guard.
      destruct i as [|k|p s|p k fs|p lo|p lo]; try discriminate; try reflexivity;
        rewrite run_if_collection, Hc, (run_convert _ tofn v _ _ _ Htofn Hv); unfold visit_one;
        (match goal with |- context [leaf conv targ tofn ?a] => destruct (leaf conv targ tofn a) as [vs| |q|] end; try reflexivity;
         destruct vs as [|x [|y [|z r]]]; try reflexivity; destruct y; reflexivity).
    Qed.

    (* a list *)
    Lemma run_struct_list n i vis tr :
      is_item_collection i = true ->
      (forall m t, In m (olst (view_lo i)) -> APPLY n (OvFn self) [OvItem m; OvCb] t = vis m t) ->
      APPLY (S (S (S n))) (OvFn self) [OvItem i; OvCb] tr = walk_with vis g (olst (view_lo i)) tr.
    Proof.
      intros Hc Hcall. rewrite struct_entry. cbn [struct_template on_body]. rewrite run_nil_guard.
      assert (E : exec conv targ cb (APPLY (S (S n))) [(v_fn, OvCb); (v_it, OvItem i)]
                    (OsIf (OxCall n_IsItemCollection (oxs [e_it])) (walk_list self g) (convert_and_call tofn v)) tr
                  = as_ret (walk_with vis g (olst (view_lo i)) tr)).
      { rewrite run_if_collection, Hc. unfold then_rest, obnd. rewrite run_walk_list.
        fold (the_closure self g i). unfold the_closure at 1.
        rewrite (run_on_item_collection vc (S n) i _ _ _ tr Hcoll Hvc Hc). fold (the_closure self g i).
        rewrite (run_closure self g i n vis tr Hself Hc Hcall).
        destruct (walk_with vis g (olst (view_lo i)) tr) as [tr' [vs| |q|]]; reflexivity. }
      destruct i as [|k|p s|p k fs|p lo|p lo]; try discriminate; rewrite E; apply ret_as_ret.
    Qed.

    Lemma size_member p l m : In m l -> item_size m < item_size (IItems p (Some l)).
    Proof.
      intro H. simpl. apply Nat.lt_succ_r.
      induction l as [|x r IH]; [destruct H|]. destruct H as [->|H]; [lia|]. specialize (IH H). lia.
    Qed.

    (* interpreter = specification, for every item and any amount of fuel from [on_fuel] up *)
    Theorem struct_interp : forall n i, item_size i <= n -> forall fuel tr, on_fuel i <= fuel ->
      APPLY fuel (OvFn self) [OvItem i; OvCb] tr = visit conv targ cb tofn g true i tr.
    Proof.
      induction n as [|n IH]; intros i Hs fuel tr Hf.
      - destruct i as [|k|p s|p k fs|p [l|]|p lo]; simpl in Hs; lia.
      - unfold on_fuel in Hf.
        assert (Hpos : 1 <= item_size i) by (destruct i as [|k|p s|p k fs|p [l|]|p lo]; simpl; lia).
        destruct fuel as [|[|[|n2]]]; try lia.
        destruct i as [|k|p s|p k fs|p lo|p lo].
        + rewrite run_struct_one by reflexivity. reflexivity.
        + rewrite run_struct_one by reflexivity. reflexivity.
        + rewrite run_struct_one by reflexivity. reflexivity.
        + rewrite run_struct_one by reflexivity. reflexivity.
        + rewrite (run_struct_list n2 (IItems p lo) (visit conv targ cb tofn g true) tr eq_refl).
          * destruct lo as [l|]; [rewrite visit_items|]; reflexivity.
          * intros m t Hm. destruct lo as [l|]; [|destruct Hm]. cbn [view_lo olst] in Hm.
            pose proof (size_member p l m Hm) as Hlt. apply IH; [lia|]. unfold on_fuel. lia.
        + rewrite (run_struct_list n2 (IIris p lo) (VONE tofn) tr eq_refl).
          * cbn [view_lo olst visit]. rewrite walk_flat_with. reflexivity.
          * intros m t Hm. cbn [view_lo olst] in Hm. apply in_map_iff in Hm. destruct Hm as [s [<- _]].
            simpl in Hf. destruct n2 as [|n3]; [lia|]. rewrite run_struct_one by reflexivity. reflexivity.
    Qed.
  End Struct.

  (* ---- On[T] *)
  Section Generic.
    Variables (v vc : bytes) (g : loop_guard).
    Hypothesis Hnamed : ofn_named tbl n_OnT = Some (generic_template v g).
    Hypothesis Hcoll : ofn_named tbl n_OnItemCollection = Some (plain_template n_OnItemCollection n_ToItemCollection vc).
    Hypothesis Hv : local_ok v = true.
    Hypothesis Hvc : local_ok vc = true.

    Lemma generic_entry n i tr :
      APPLY (S n) (OvFn n_OnT) [OvItem i; OvCb] tr =
      (let (tr', o) := exec conv targ cb (APPLY n) [(v_fn, OvCb); (v_it, OvItem i)] (on_body (generic_template v g)) tr in
       match o with
       | Ok g0 => ret_of g0 tr'
       | Err => (tr', Err)
       | Panic p => (tr', Panic p)
       | OutOfFuel => (tr', OutOfFuel)
       end).
    Proof.
      cbn [apply_at]. rewrite Hnamed. cbn [generic_template on_params on_body obind_vars].
      change (bytes_eqb v_it blank_name) with false. change (bytes_eqb v_fn blank_name) with false. cbv iota.
      reflexivity.
    Qed.

    Lemma run_generic_one n i tr :
      is_item_collection i = false ->
      APPLY (S n) (OvFn n_OnT) [OvItem i; OvCb] tr = VONE n_ToT i tr.
    Proof.
      intro Hc. rewrite generic_entry. cbn [generic_template on_body].
      rewrite run_if_not_collection, Hc. unfold then_rest, obnd.
      rewrite (run_convert _ n_ToT v _ _ _ eq_refl Hv). unfold visit_one.
      match goal with |- context [leaf conv targ n_ToT ?a] => destruct (leaf conv targ n_ToT a) as [vs| |q|] end; try reflexivity.
      destruct vs as [|x [|y [|z r]]]; try reflexivity; destruct y; reflexivity.
    Qed.

    Lemma run_generic_list n i vis tr :
      is_item_collection i = true ->
      (forall m t, In m (olst (view_lo i)) -> APPLY n (OvFn n_OnT) [OvItem m; OvCb] t = vis m t) ->
      APPLY (S (S (S n))) (OvFn n_OnT) [OvItem i; OvCb] tr = walk_with vis g (olst (view_lo i)) tr.
    Proof.
      intros Hc Hcall. rewrite generic_entry. cbn [generic_template on_body].
      rewrite run_if_not_collection, Hc. rewrite run_walk_list.
      fold (the_closure n_OnT g i). unfold the_closure at 1.
      rewrite (run_on_item_collection vc (S n) i _ _ _ tr Hcoll Hvc Hc). fold (the_closure n_OnT g i).
      rewrite (run_closure n_OnT g i n vis tr eq_refl Hc Hcall). apply ret_as_ret.
    Qed.

    Theorem generic_interp : forall n i, item_size i <= n -> forall fuel tr, on_fuel i <= fuel ->
      APPLY fuel (OvFn n_OnT) [OvItem i; OvCb] tr = visit conv targ cb n_ToT g false i tr.
    Proof.
      induction n as [|n IH]; intros i Hs fuel tr Hf.
      - destruct i as [|k|p s|p k fs|p [l|]|p lo]; simpl in Hs; lia.
      - unfold on_fuel in Hf.
        assert (Hpos : 1 <= item_size i) by (destruct i as [|k|p s|p k fs|p [l|]|p lo]; simpl; lia).
        destruct fuel as [|[|[|n2]]]; try lia.
        destruct i as [|k|p s|p k fs|p lo|p lo].
        + rewrite run_generic_one by reflexivity. reflexivity.
        + rewrite run_generic_one by reflexivity. reflexivity.
        + rewrite run_generic_one by reflexivity. reflexivity.
        + rewrite run_generic_one by reflexivity. reflexivity.
        + rewrite (run_generic_list n2 (IItems p lo) (visit conv targ cb n_ToT g false) tr eq_refl).
          * destruct lo as [l|]; [rewrite visit_items|]; reflexivity.
          * intros m t Hm. destruct lo as [l|]; [|destruct Hm]. cbn [view_lo olst] in Hm.
            pose proof (size_member p l m Hm) as Hlt. apply IH; [lia|]. unfold on_fuel. lia.
        + rewrite (run_generic_list n2 (IIris p lo) (VONE n_ToT) tr eq_refl).
          * cbn [view_lo olst visit]. rewrite walk_flat_with. reflexivity.
          * intros m t Hm. cbn [view_lo olst] in Hm. apply in_map_iff in Hm. destruct Hm as [s [<- _]].
            simpl in Hf. destruct n2 as [|n3]; [lia|]. rewrite run_generic_one by reflexivity. reflexivity.
    Qed.
  End Generic.

  (* ---- the helpers that take one item *)
  Lemma plain_interp self tofn v n i tr :
    ofn_named tbl self = Some (plain_template self tofn v) -> local_ok v = true -> is_leaf_name tofn = true ->
    APPLY (S n) (OvFn self) [OvItem i; OvCb] tr = match i with INil => (tr, r_nil) | _ => VONE tofn i tr end.
  Proof.
    intros Hn Hv Ht. cbn [apply_at]. rewrite Hn. cbn [plain_template on_params on_body obind_vars].
    change (bytes_eqb v_it blank_name) with false. change (bytes_eqb v_fn blank_name) with false. cbv iota.
    unfold obnd at 1. rewrite run_nil_guard.
    destruct i as [|k|p s|p k fs|p lo|p lo]; try reflexivity;
      rewrite (run_convert _ tofn v _ _ _ Ht Hv); unfold visit_one;
      (match goal with |- context [leaf conv targ tofn ?a] => destruct (leaf conv targ tofn a) as [vs| |q|] end; try reflexivity;
       destruct vs as [|x [|y [|z r]]]; try reflexivity; destruct y; reflexivity).
  Qed.
End Run.

(* ------------------------------------------------------------------ what the table condition gives *)
Lemma helper_names_ok :
  forallb (fun h => negb (is_leaf_name (fst h)) && is_leaf_name (snd h)) list_helpers = true /\
  forallb (fun h => negb (is_leaf_name (fst h)) && is_leaf_name (snd h)) plain_helpers = true.
Proof. split; reflexivity. Qed.

Lemma struct_matches_sound tbl h g : struct_matches tbl h = Some g ->
  exists v, ofn_named tbl (fst h) = Some (struct_template (fst h) (snd h) v g) /\ local_ok v = true.
Proof.
  unfold struct_matches, ofn_named. destruct (find _ tbl) as [f|]; [|discriminate].
  destruct (struct_shape f) as [[v g']|]; [|discriminate].
  destruct (ofn_beq f (struct_template (fst h) (snd h) v g') && local_ok v) eqn:E; [|discriminate].
  intro H; injection H as <-. apply andb_true_iff in E; destruct E as [E1 E2].
  apply ofn_beq_eq in E1. exists v; split; [rewrite E1; reflexivity | exact E2].
Qed.

Lemma generic_matches_sound tbl g : generic_matches tbl = Some g ->
  exists v, ofn_named tbl n_OnT = Some (generic_template v g) /\ local_ok v = true.
Proof.
  unfold generic_matches, ofn_named. destruct (find _ tbl) as [f|]; [|discriminate].
  destruct (generic_shape f) as [[v g']|]; [|discriminate].
  destruct (ofn_beq f (generic_template v g') && local_ok v) eqn:E; [|discriminate].
  intro H; injection H as <-. apply andb_true_iff in E; destruct E as [E1 E2].
  apply ofn_beq_eq in E1. exists v; split; [rewrite E1; reflexivity | exact E2].
Qed.

Lemma plain_matches_sound tbl h : plain_matches tbl h = true ->
  exists v, ofn_named tbl (fst h) = Some (plain_template (fst h) (snd h) v) /\ local_ok v = true.
Proof.
  unfold plain_matches, ofn_named. destruct (find _ tbl) as [f|]; [|discriminate].
  destruct (plain_shape f) as [v|]; [|discriminate].
  intro E. apply andb_true_iff in E; destruct E as [E1 E2].
  apply ofn_beq_eq in E1. exists v; split; [rewrite E1; reflexivity | exact E2].
Qed.

Lemma shapes_give tbl : on_shapes_ok tbl = true ->
  (forall h, In h list_helpers -> exists g, struct_matches tbl h = Some g) /\
  (exists g, generic_matches tbl = Some g) /\
  (forall h, In h plain_helpers -> plain_matches tbl h = true).
Proof.
  unfold on_shapes_ok; intro H. apply andb_true_iff in H; destruct H as [H H3]. apply andb_true_iff in H; destruct H as [H1 H2].
  split; [|split].
  - intros h Hh. rewrite forallb_forall in H1; specialize (H1 h Hh).
    destruct (struct_matches tbl h) as [g|]; [exists g; reflexivity | discriminate].
  - destruct (generic_matches tbl) as [g|]; [exists g; reflexivity | discriminate].
  - intros h Hh. rewrite forallb_forall in H3; exact (H3 h Hh).
Qed.

Lemma coll_template tbl : on_shapes_ok tbl = true ->
  exists vc, ofn_named tbl n_OnItemCollection = Some (plain_template n_OnItemCollection n_ToItemCollection vc) /\ local_ok vc = true.
Proof.
  intro H. destruct (shapes_give tbl H) as [_ [_ Hp]].
  apply (plain_matches_sound tbl (n_OnItemCollection, n_ToItemCollection)). apply Hp. left; reflexivity.
Qed.

(* ---- the theorems: for every table of the right shape, every conversion table, every instantiation, every callback, all
   items and any fuel from [on_fuel] up, the interpreter of the generated bodies is the specification *)
Theorem list_helper_is_visit : forall conv targ cb tbl, on_shapes_ok tbl = true ->
  forall h, In h list_helpers ->
  exists g, struct_matches tbl h = Some g /\
    forall i fuel, on_fuel i <= fuel ->
      run_on conv targ cb tbl fuel (fst h) i = visit_struct conv targ cb (snd h) g i [].
Proof.
  intros conv targ cb tbl Hok h Hh.
  destruct (shapes_give tbl Hok) as [Hs _]. destruct (Hs h Hh) as [g Hg]. exists g; split; [exact Hg|].
  destruct (struct_matches_sound tbl h g Hg) as [v [Hn Hv]].
  destruct (coll_template tbl Hok) as [vc [Hc Hvc]].
  destruct helper_names_ok as [Hnames _]. rewrite forallb_forall in Hnames; specialize (Hnames h Hh).
  apply andb_true_iff in Hnames; destruct Hnames as [N1 N2]. apply negb_true_iff in N1.
  intros i fuel Hf. unfold run_on, visit_struct.
  exact (struct_interp conv targ cb tbl (fst h) (snd h) v vc g Hn Hc Hv Hvc N1 N2 (item_size i) i (le_n _) fuel [] Hf).
Qed.

Theorem generic_helper_is_visit : forall conv targ cb tbl, on_shapes_ok tbl = true ->
  exists g, generic_matches tbl = Some g /\
    forall i fuel, on_fuel i <= fuel ->
      run_on conv targ cb tbl fuel n_OnT i = visit_generic conv targ cb g i [].
Proof.
  intros conv targ cb tbl Hok.
  destruct (shapes_give tbl Hok) as [_ [[g Hg] _]]. exists g; split; [exact Hg|].
  destruct (generic_matches_sound tbl g Hg) as [v [Hn Hv]].
  destruct (coll_template tbl Hok) as [vc [Hc Hvc]].
  intros i fuel Hf. unfold run_on, visit_generic.
  exact (generic_interp conv targ cb tbl v vc g Hn Hc Hv Hvc (item_size i) i (le_n _) fuel [] Hf).
Qed.

Theorem plain_helper_is_visit_one : forall conv targ cb tbl, on_shapes_ok tbl = true ->
  forall h, In h plain_helpers -> forall i fuel, 1 <= fuel ->
    run_on conv targ cb tbl fuel (fst h) i =
    match i with INil => ([], r_nil) | _ => visit_one conv targ cb (snd h) i [] end.
Proof.
  intros conv targ cb tbl Hok h Hh i fuel Hf.
  destruct (shapes_give tbl Hok) as [_ [_ Hp]].
  destruct (plain_matches_sound tbl h (Hp h Hh)) as [v [Hn Hv]].
  destruct helper_names_ok as [_ Hnames]. rewrite forallb_forall in Hnames; specialize (Hnames h Hh).
  apply andb_true_iff in Hnames; destruct Hnames as [_ N2].
  destruct fuel as [|n]; [lia|]. unfold run_on.
  exact (plain_interp conv targ cb tbl (fst h) (snd h) v n i [] Hn Hv N2).
Qed.

(* ------------------------------------------------------------------ the specification never hands over a nil pointer *)
(* what is asked of the conversions: on an item that is not nil (IsNil) they answer with a pointer to a struct, an
   error or a panic - never with (nil, nil); true of every table read through Model/Conv.conv_item, see below *)
Definition conv_good (conv : bytes -> option (item -> conv_result)) : Prop :=
  forall f c i, conv f = Some c ->
    (is_nil i = false -> c i <> CRNil /\ c i <> CRNilPtr) /\
    (forall a v, c i = CRView a v -> exists k fs, v = IObj true k fs).

Definition tofn_ok (tofn : bytes) : Prop := tofn = n_ToT \/ exists d, to_target tofn = Some d.

Definition no_nil (tr : otrace) : Prop := Forall (fun a => arg_is_nil a = false) tr.

Lemma to_name_not_fixed tofn d : to_target tofn = Some d ->
  bytes_eqb tofn n_IsNil = false /\ bytes_eqb tofn n_IsLink = false /\ bytes_eqb tofn n_IsItemCollection = false /\
  bytes_eqb tofn n_ToItemCollection = false /\ bytes_eqb tofn n_ToT = false.
Proof.
  intro H.
  repeat split; (destruct (bytes_eqb tofn _) eqn:E; [apply bytes_eqb_true in E; subst; vm_compute in H; discriminate | reflexivity]).
Qed.

Section Never.
  Variable conv : bytes -> option (item -> conv_result).
  Variable targ : bool * kind.
  Variable cb : otrace -> oval -> bool.
  Hypothesis Hconv : conv_good conv.

  (* one item that is not nil: whatever reaches the callback is not nil *)
  Lemma visit_one_no_nil tofn i tr :
    tofn_ok tofn -> is_nil i = false -> no_nil tr -> no_nil (fst (visit_one conv targ cb tofn i tr)).
  Proof.
    intros Ht Hi Htr. unfold visit_one.
    assert (L : forall p, leaf conv targ tofn [OvItem i] = Ok [p; OvNil] -> arg_is_nil p = false).
    { intros p Hp. destruct Ht as [->|[d Hd]].
      - change (leaf conv targ n_ToT [OvItem i]) with
          (if has_go_type targ i then Ok [OvAddr (OvItem i); OvNil] else Ok [OvNil; OvErr]) in Hp.
        destruct (has_go_type targ i); [|discriminate]. injection Hp as <-.
        destruct i; try reflexivity; discriminate.
      - destruct (to_name_not_fixed tofn d Hd) as [E1 [E2 [E3 [E4 E5]]]].
        unfold leaf in Hp. rewrite E1, E2, E3, E4, E5, Hd in Hp.
        destruct (conv tofn) as [c|] eqn:C; [|discriminate].
        destruct (Hconv tofn c i C) as [G1 G2]. specialize (G1 Hi).
        destruct (c i) eqn:R; simpl in Hp; try discriminate; try (injection Hp as <-; reflexivity).
        + exfalso; apply (proj1 G1); reflexivity.
        + exfalso; apply (proj2 G1); reflexivity.
        + injection Hp as <-. destruct (G2 alias v eq_refl) as [k [fs ->]]. reflexivity. }
    destruct (leaf conv targ tofn [OvItem i]) as [vs| |q|]; simpl; try exact Htr.
    destruct vs as [|x [|y [|z r]]]; simpl; try exact Htr; [|destruct y; exact Htr].
    destruct y; simpl; try exact Htr.
    apply Forall_app; split; [exact Htr|]. constructor; [|constructor]. apply L; reflexivity.
  Qed.

  Lemma and_then_fst (r : otrace * outcome (list oval)) k (Q : otrace -> Prop) :
    Q (fst r) -> (forall t, Q t -> Q (fst (k t))) -> Q (fst (and_then r k)).
  Proof.
    intros H1 H2. destruct r as [tr' [vs| |q|]]; simpl in *; try exact H1.
    destruct vs as [|x [|y r']]; simpl; try exact H1; destruct x; simpl; try exact H1. apply H2; exact H1.
  Qed.

  Lemma walk_with_no_nil vis g l :
    (forall m t, In m l -> skips g m = false -> no_nil t -> no_nil (fst (vis m t))) ->
    forall tr, no_nil tr -> no_nil (fst (walk_with vis g l tr)).
  Proof.
    intro Hv. induction l as [|m r IH]; intros tr Htr; simpl; [exact Htr|].
    destruct (skips g m) eqn:S.
    - apply IH; [|exact Htr]. intros x t Hx; apply Hv; right; exact Hx.
    - apply and_then_fst.
      + apply Hv; [left; reflexivity | exact S | exact Htr].
      + intros t Ht. apply IH; [|exact Ht]. intros x t' Hx; apply Hv; right; exact Hx.
  Qed.

  Lemma skips_nil g m : guard_skips_nil g = true -> skips g m = false -> is_nil m = false.
  Proof. unfold skips; intros Hg H. rewrite Hg in H. simpl in H. apply orb_false_iff in H; tauto. Qed.

  (* THE statement: when the loop passes over nil members, a walk over a list - nested lists included - never hands
     the callback a nil pointer, whatever the members are *)
  Theorem visit_list_no_nil tofn g top : tofn_ok tofn -> guard_skips_nil g = true ->
    forall n i, item_size i <= n -> is_item_collection i = true ->
    forall tr, no_nil tr -> no_nil (fst (visit conv targ cb tofn g top i tr)).
  Proof.
    intros Ht Hg. induction n as [|n IH]; intros i Hs Hc tr Htr.
    - destruct i as [|k|p s|p k fs|p [l|]|p lo]; simpl in Hs; lia.
    - destruct i as [|k|p s|p k fs|p lo|p lo]; try discriminate.
      + destruct lo as [l|]; [|exact Htr]. rewrite visit_items. apply walk_with_no_nil; [|exact Htr].
        intros m t Hm Sk Hn. pose proof (skips_nil g m Hg Sk) as Nm.
        pose proof (size_member p l m Hm) as Hlt.
        destruct (is_item_collection m) eqn:Cm.
        * apply IH; [lia | exact Cm | exact Hn].
        * destruct m as [|k|p' s|p' k fs|p' lo'|p' lo']; try discriminate;
            cbn [visit]; apply visit_one_no_nil; assumption.
      + cbn [visit]. rewrite walk_flat_with. apply walk_with_no_nil; [|exact Htr].
        intros m t Hm Sk Hn. apply visit_one_no_nil; [exact Ht | exact (skips_nil g m Hg Sk) | exact Hn].
  Qed.
End Never.

(* conversions read off generated tables are good, whatever the tables and layouts say *)
Lemma conv_item_good layout_of sizeof_kind refl tblc dflt d i :
  (is_nil i = false ->
     conv_item layout_of sizeof_kind refl tblc dflt d i <> CRNil /\ conv_item layout_of sizeof_kind refl tblc dflt d i <> CRNilPtr) /\
  (forall a v, conv_item layout_of sizeof_kind refl tblc dflt d i = CRView a v -> exists k fs, v = IObj true k fs).
Proof.
  unfold conv_item. split.
  - intro Hi.
    repeat match goal with
           | |- context [if is_nil i then _ else _] => rewrite Hi
           | |- context [match ?x with _ => _ end] => destruct x
           end;
      try (split; discriminate); try discriminate Hi.
  - intros a v.
    repeat match goal with
           | |- context [match ?x with _ => _ end] => destruct x
           end;
      intro H; try discriminate H; injection H as _ <-; eexists; eexists; reflexivity.
Qed.

Lemma conv_of_tables_good layout_of sizeof_kind refl ct : conv_good (conv_of_tables layout_of sizeof_kind refl ct).
Proof.
  intros f c i H. unfold conv_of_tables in H.
  destruct (to_target f) as [d|]; [|discriminate]. destruct (find _ ct) as [t|]; [|discriminate].
  injection H as <-. apply conv_item_good.
Qed.

(* ------------------------------------------------------------------ ... and hands over exactly the remaining members, in order *)
Section Exact.
  Variable conv : bytes -> option (item -> conv_result).
  Variable targ : bool * kind.
  Variable cb : otrace -> oval -> bool.

  Notation VONE := (visit_one conv targ cb).

  Lemma and_then_assoc r k1 k2 :
    and_then (and_then r k1) k2 = and_then r (fun t => and_then (k1 t) k2).
  Proof.
    destruct r as [tr' [vs| |q|]]; try reflexivity.
    destruct vs as [|x [|y r']]; try reflexivity; destruct x; reflexivity.
  Qed.

  Lemma and_then_ext r k1 k2 : (forall t, k1 t = k2 t) -> and_then r k1 = and_then r k2.
  Proof.
    intro H. destruct r as [tr' [vs| |q|]]; try reflexivity.
    destruct vs as [|x [|y r']]; try reflexivity; destruct x; try reflexivity. apply H.
  Qed.

  Lemma walk_with_app vis g a b : forall tr,
    walk_with vis g (a ++ b) tr = and_then (walk_with vis g a tr) (walk_with vis g b).
  Proof.
    induction a as [|m a IH]; intro tr; simpl; [reflexivity|].
    destruct (skips g m); [apply IH|].
    rewrite and_then_assoc. destruct (vis m tr) as [tr' [vs| |q|]]; try reflexivity.
    destruct vs as [|x [|y r']]; try reflexivity; destruct x; try reflexivity. simpl. apply IH.
  Qed.

  Definition kept_go (g : loop_guard) : list item -> list item :=
    fix go (l : list item) : list item :=
      match l with
      | [] => []
      | m :: r => (if skips g m then []
                   else match m with IItems _ _ | IIris _ _ => kept g m | _ => [m] end) ++ go r
      end.

  Lemma kept_items g p l : kept g (IItems p (Some l)) = kept_go g l.
  Proof. reflexivity. Qed.

  Lemma walk_filter vis g l : forall tr,
    walk_with vis g (filter (fun m => negb (skips g m)) l) tr = walk_with vis g l tr.
  Proof.
    induction l as [|m r IH]; intro tr; simpl; [reflexivity|].
    destruct (skips g m) eqn:S; simpl; [apply IH|]. rewrite S.
    destruct (vis m tr) as [tr' [vs| |q|]]; try reflexivity.
    destruct vs as [|x [|y r']]; try reflexivity; destruct x; try reflexivity. simpl. apply IH.
  Qed.

  Lemma visit_one_canon tofn m t : canon (snd (VONE tofn m t)).
  Proof.
    unfold visit_one. destruct (leaf conv targ tofn [OvItem m]) as [vs| |q|]; simpl.
    - destruct vs as [|x [|y [|z r]]]; simpl; try (right; right; left; reflexivity).
      destruct y; simpl; try (right; right; left; reflexivity).
      + destruct (cb t x); [right; left; reflexivity | left; reflexivity].
      + right; left; reflexivity.
      + destruct y; right; right; left; reflexivity.
    - right; right; left; reflexivity.
    - right; right; right; left; exists q; reflexivity.
    - right; right; right; right; reflexivity.
  Qed.

  Lemma and_then_end (r : otrace * outcome (list oval)) :
    canon (snd r) -> and_then r (fun t => (t, r_nil)) = r.
  Proof.
    destruct r as [t' o]; simpl. intros [->|[->|[->|[[q ->]| ->]]]]; reflexivity.
  Qed.

  Definition open_member (g : loop_guard) (m : item) : list item :=
    match m with IItems _ _ | IIris _ _ => kept g m | _ => [m] end.


  Lemma walk_kept_go tofn vis g l :
    (forall m, In m l -> skips g m = false -> forall t, vis m t = walk_with (VONE tofn) g (open_member g m) t) ->
    forall tr, walk_with vis g l tr = walk_with (VONE tofn) g (kept_go g l) tr.
  Proof.
    induction l as [|m r IH]; intros H tr; [reflexivity|].
    cbn [walk_with kept_go]. rewrite walk_with_app. fold (open_member g m).
    destruct (skips g m) eqn:S.
    - cbn [walk_with and_then]. apply IH. intros x Hx; apply H; right; exact Hx.
    - rewrite (H m (or_introl eq_refl) S tr). apply and_then_ext. intro t.
      apply IH. intros x Hx; apply H; right; exact Hx.
  Qed.

  (* a walk over a list is the flat walk over the members it gets to *)
  Theorem visit_is_flat tofn g top : guard_skips_nil g = true ->
    forall n i, item_size i <= n -> is_item_collection i = true ->
    forall tr, visit conv targ cb tofn g top i tr = walk_with (VONE tofn) g (kept g i) tr.
  Proof.
    intro Hg. induction n as [|n IH]; intros i Hs Hc tr.
    - destruct i as [|k|p s|p k fs|p [l|]|p lo]; simpl in Hs; lia.
    - destruct i as [|k|p s|p k fs|p lo|p lo]; try discriminate.
      + destruct lo as [l|]; [|reflexivity]. rewrite visit_items, kept_items.
        apply walk_kept_go. intros m Hm S t.
        assert (Nm : is_nil m = false).
        { unfold skips in S. rewrite Hg in S. simpl in S. apply orb_false_iff in S; tauto. }
        pose proof (size_member p l m Hm) as Hlt.
        destruct m as [|k|p' s|p' k fs|p' lo'|p' lo']; try discriminate Nm;
          try (unfold open_member; cbn [walk_with]; rewrite S; cbn [visit];
               symmetry; apply and_then_end; apply visit_one_canon).
        * apply IH; [lia | reflexivity].
        * apply IH; [lia | reflexivity].
      + cbn [visit kept]. rewrite walk_flat_with, walk_filter. reflexivity.
  Qed.

  (* ... and the flat walk hands over the pointers of a prefix of its list - all of it when it ends without an error *)
  Lemma visit_one_cases tofn m tr :
    (exists p, ptr_of conv targ tofn m = p /\
               VONE tofn m tr = (tr ++ [p], Ok [if cb tr p then OvErr else OvNil])) \/
    (fst (VONE tofn m tr) = tr /\ snd (VONE tofn m tr) <> r_nil).
  Proof.
    unfold visit_one, ptr_of. destruct (leaf conv targ tofn [OvItem m]) as [vs| |q|]; simpl;
      try (right; split; [reflexivity | discriminate]).
    destruct vs as [|x [|y [|z r]]]; simpl; try (right; split; [reflexivity | discriminate]).
    - destruct y; simpl; try (right; split; [reflexivity | discriminate]).
      left. exists x. split; reflexivity.
    - destruct y; right; split; try reflexivity; discriminate.
  Qed.

  Lemma and_then_stop (r : otrace * outcome (list oval)) k :
    snd r <> r_nil -> fst (and_then r k) = fst r /\ snd (and_then r k) <> r_nil.
  Proof.
    destruct r as [t' [vs| |q|]]; simpl; intro H; try (split; [reflexivity | discriminate]).
    destruct vs as [|x [|y r']]; simpl; try (split; [reflexivity | discriminate]);
      destruct x; simpl; try (split; [reflexivity | discriminate]). exfalso; apply H; reflexivity.
  Qed.

  Lemma walk_flat_trace tofn g l : (forall m, In m l -> skips g m = false) ->
    forall tr, exists k,
      fst (walk_with (VONE tofn) g l tr) = tr ++ map (ptr_of conv targ tofn) (firstn k l) /\
      (snd (walk_with (VONE tofn) g l tr) = r_nil -> k = length l).
  Proof.
    induction l as [|m r IH]; intros Hs tr.
    - exists 0. simpl. rewrite app_nil_r. split; reflexivity.
    - cbn [walk_with]. rewrite (Hs m (or_introl eq_refl)).
      assert (Hr : forall x, In x r -> skips g x = false) by (intros x Hx; apply Hs; right; exact Hx).
      destruct (visit_one_cases tofn m tr) as [[p [Hp E]]|[E1 E2]].
      + rewrite E. destruct (cb tr p).
        * exists 1. cbn [and_then firstn map fst snd]. rewrite Hp. split; [reflexivity | discriminate].
        * cbn [and_then]. destruct (IH Hr (tr ++ [p])) as [k [K1 K2]]. exists (S k).
          cbn [firstn map]. rewrite Hp, K1, <- app_assoc. split; [reflexivity|].
          intro X. rewrite (K2 X). reflexivity.
      + destruct (and_then_stop (VONE tofn m tr) (walk_with (VONE tofn) g r) E2) as [S1 S2].
        exists 0. cbn [firstn map]. rewrite app_nil_r, S1, E1. split; [reflexivity|]. intro X; contradiction.
  Qed.

  (* what the walk gets to: no member for which IsNil holds, no link when the loop passes over links, no list *)
  Lemma kept_members g : guard_skips_nil g = true ->
    forall n i, item_size i <= n -> forall m, In m (kept g i) ->
      skips g m = false /\ is_nil m = false /\ is_item_collection m = false.
  Proof.
    intro Hg.
    assert (SK : forall m, skips g m = false -> is_nil m = false).
    { intros m S. unfold skips in S. rewrite Hg in S. simpl in S. apply orb_false_iff in S; tauto. }
    induction n as [|n IH]; intros i Hs m Hm.
    - destruct i as [|k|p s|p k fs|p [l|]|p lo]; simpl in Hs; lia.
    - destruct i as [|k|p s|p k fs|p lo|p lo]; try (destruct Hm).
      + destruct lo as [l|]; [|destruct Hm]. rewrite kept_items in Hm.
        assert (Hsz : forall x, In x l -> item_size x <= n) by (intros x Hx; pose proof (size_member p l x Hx); lia).
        clear Hs. induction l as [|x r IHl]; [destruct Hm|].
        cbn [kept_go] in Hm. apply in_app_or in Hm. destruct Hm as [Hm|Hm].
        * destruct (skips g x) eqn:S; [destruct Hm|].
          destruct x as [|k|p' s|p' k fs|p' lo'|p' lo'];
            try (destruct Hm as [<-|[]]; split; [exact S|split; [exact (SK _ S)|reflexivity]]).
          -- apply (IH (IItems p' lo')); [apply Hsz; left; reflexivity | exact Hm].
          -- apply (IH (IIris p' lo')); [apply Hsz; left; reflexivity | exact Hm].
        * apply IHl; [exact Hm|]. intros y Hy; apply Hsz; right; exact Hy.
      + cbn [kept] in Hm. apply filter_In in Hm. destruct Hm as [Hm S]. apply negb_true_iff in S.
        apply in_map_iff in Hm. destruct Hm as [s [<- _]]. split; [exact S|split; [exact (SK _ S)|reflexivity]].
  Qed.
End Exact.

(* ------------------------------------------------------------------ the statements of Props/C20.v *)
Lemma struct_in_list h : In h struct_helpers -> In h list_helpers.
Proof. intro H; unfold list_helpers; apply in_or_app; left; exact H. Qed.

Lemma helper_tofn_ok h : In h list_helpers -> tofn_ok (snd h).
Proof.
  intro H. right.
  assert (X : forallb (fun h => match to_target (snd h) with Some _ => true | None => false end) list_helpers = true) by reflexivity.
  rewrite forallb_forall in X; specialize (X h H). destruct (to_target (snd h)) as [d|]; [exists d; reflexivity | discriminate].
Qed.

Lemma table_ok_guards tbl : on_table_ok tbl = true ->
  on_shapes_ok tbl = true /\
  (forall h, In h struct_helpers -> exists g, struct_matches tbl h = Some g /\ guard_skips_nil g = true) /\
  (exists g, generic_matches tbl = Some g /\ guard_skips_nil g = true).
Proof.
  unfold on_table_ok; intro H. apply andb_true_iff in H; destruct H as [H H3]. apply andb_true_iff in H; destruct H as [H1 H2].
  split; [exact H1|split].
  - intros h Hh. rewrite forallb_forall in H2; specialize (H2 h Hh). unfold guard_ok in H2.
    destruct (struct_matches tbl h) as [g|]; [exists g; split; [reflexivity | exact H2] | discriminate].
  - unfold guard_ok in H3. destruct (generic_matches tbl) as [g|]; [exists g; split; [reflexivity | exact H3] | discriminate].
Qed.

(* never a nil pointer *)
Theorem on_list_never_nil : forall conv targ cb tbl, conv_good conv -> on_table_ok tbl = true ->
  forall h, In h struct_helpers -> forall i fuel, is_item_collection i = true -> on_fuel i <= fuel ->
    no_nil (fst (run_on conv targ cb tbl fuel (fst h) i)).
Proof.
  intros conv targ cb tbl Hc Hok h Hh i fuel Hi Hf.
  destruct (table_ok_guards tbl Hok) as [Hs [Hg _]]. destruct (Hg h Hh) as [g [Hm Hn]].
  destruct (list_helper_is_visit conv targ cb tbl Hs h (struct_in_list h Hh)) as [g' [Hm' Hrun]].
  rewrite Hm in Hm'; injection Hm' as <-. rewrite (Hrun i fuel Hf). unfold visit_struct.
  apply (visit_list_no_nil conv targ cb Hc (snd h) g true (helper_tofn_ok h (struct_in_list h Hh)) Hn (item_size i) i (le_n _) Hi).
  constructor.
Qed.

Theorem on_generic_never_nil : forall conv targ cb tbl, conv_good conv -> on_table_ok tbl = true ->
  forall i fuel, is_item_collection i = true -> on_fuel i <= fuel ->
    no_nil (fst (run_on conv targ cb tbl fuel n_OnT i)).
Proof.
  intros conv targ cb tbl Hc Hok i fuel Hi Hf.
  destruct (table_ok_guards tbl Hok) as [Hs [_ [g [Hm Hn]]]].
  destruct (generic_helper_is_visit conv targ cb tbl Hs) as [g' [Hm' Hrun]].
  rewrite Hm in Hm'; injection Hm' as <-. rewrite (Hrun i fuel Hf). unfold visit_generic.
  apply (visit_list_no_nil conv targ cb Hc n_ToT g false (or_introl eq_refl) Hn (item_size i) i (le_n _) Hi).
  constructor.
Qed.

(* exactly the remaining members, in order *)
Theorem on_list_exact : forall conv targ cb tbl, on_table_ok tbl = true ->
  forall h, In h struct_helpers -> forall i fuel, is_item_collection i = true -> on_fuel i <= fuel ->
  exists g k,
    struct_matches tbl h = Some g /\
    fst (run_on conv targ cb tbl fuel (fst h) i) = map (ptr_of conv targ (snd h)) (firstn k (kept g i)) /\
    (snd (run_on conv targ cb tbl fuel (fst h) i) = r_nil -> k = length (kept g i)) /\
    (forall m, In m (kept g i) ->
       is_nil m = false /\ (guard_skips_links g = true -> is_link m = false) /\ is_item_collection m = false).
Proof.
  intros conv targ cb tbl Hok h Hh i fuel Hi Hf.
  destruct (table_ok_guards tbl Hok) as [Hs [Hg _]]. destruct (Hg h Hh) as [g [Hm Hn]].
  destruct (list_helper_is_visit conv targ cb tbl Hs h (struct_in_list h Hh)) as [g' [Hm' Hrun]].
  rewrite Hm in Hm'; injection Hm' as <-. rewrite (Hrun i fuel Hf). unfold visit_struct.
  rewrite (visit_is_flat conv targ cb (snd h) g true Hn (item_size i) i (le_n _) Hi []).
  pose proof (kept_members targ g Hn (item_size i) i (le_n _)) as Hk.
  destruct (walk_flat_trace conv targ cb (snd h) g (kept g i) (fun m Hm0 => proj1 (Hk m Hm0)) []) as [k [K1 K2]].
  exists g, k. split; [exact Hm|]. split; [exact K1|]. split; [exact K2|].
  intros m Hm0. destruct (Hk m Hm0) as [S [N C]]. split; [exact N|]. split; [|exact C].
  intro L. unfold skips in S. rewrite L in S. apply orb_false_iff in S. destruct S as [_ S]. exact S.
Qed.

Theorem on_generic_exact : forall conv targ cb tbl, on_table_ok tbl = true ->
  forall i fuel, is_item_collection i = true -> on_fuel i <= fuel ->
  exists g k,
    generic_matches tbl = Some g /\
    fst (run_on conv targ cb tbl fuel n_OnT i) = map (ptr_of conv targ n_ToT) (firstn k (kept g i)) /\
    (snd (run_on conv targ cb tbl fuel n_OnT i) = r_nil -> k = length (kept g i)) /\
    (forall m, In m (kept g i) ->
       is_nil m = false /\ (guard_skips_links g = true -> is_link m = false) /\ is_item_collection m = false).
Proof.
  intros conv targ cb tbl Hok i fuel Hi Hf.
  destruct (table_ok_guards tbl Hok) as [Hs [_ [g [Hm Hn]]]].
  destruct (generic_helper_is_visit conv targ cb tbl Hs) as [g' [Hm' Hrun]].
  rewrite Hm in Hm'; injection Hm' as <-. rewrite (Hrun i fuel Hf). unfold visit_generic.
  rewrite (visit_is_flat conv targ cb n_ToT g false Hn (item_size i) i (le_n _) Hi []).
  pose proof (kept_members targ g Hn (item_size i) i (le_n _)) as Hk.
  destruct (walk_flat_trace conv targ cb n_ToT g (kept g i) (fun m Hm0 => proj1 (Hk m Hm0)) []) as [k [K1 K2]].
  exists g, k. split; [exact Hm|]. split; [exact K1|]. split; [exact K2|].
  intros m Hm0. destruct (Hk m Hm0) as [S [N C]]. split; [exact N|]. split; [|exact C].
  intro L. unfold skips in S. rewrite L in S. apply orb_false_iff in S. destruct S as [_ S]. exact S.
Qed.
