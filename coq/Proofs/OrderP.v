From AP.Model Require Import Prelude Order.
From Coq Require Import Sorting.Sorted Sorting.Permutation.
Open Scope Z_scope.

Lemma after_spec a b :
  after a b = true <-> (secs b < secs a \/ (secs a = secs b /\ nanos b < nanos a)).
Proof. unfold after. rewrite orb_true_iff, andb_true_iff, !Z.ltb_lt, Z.eqb_eq. tauto. Qed.

Lemma after_false a b :
  after a b = false <-> (secs a < secs b \/ (secs a = secs b /\ nanos a <= nanos b)).
Proof.
  destruct (after a b) eqn:E.
  - apply after_spec in E. split; [discriminate|]. lia.
  - split; [intros _|reflexivity].
    assert (~ (secs b < secs a \/ (secs a = secs b /\ nanos b < nanos a))) as H
      by (intro H; apply after_spec in H; congruence).
    lia.
Qed.

Lemma after_irrefl a : after a a = false.
Proof. apply after_false. lia. Qed.

Lemma after_asym a b : after a b = true -> after b a = false.
Proof. rewrite after_spec, after_false. lia. Qed.

Lemma after_trans a b c : after a b = true -> after b c = true -> after a c = true.
Proof. rewrite !after_spec. lia. Qed.

Lemma after_incomp_trans a b c :
  after a b = false -> after b a = false -> after b c = false -> after c b = false ->
  after a c = false /\ after c a = false.
Proof. rewrite !after_false. lia. Qed.

Lemma after_incomp_eq a b : after a b = false -> after b a = false -> instant_eqb a b = true.
Proof.
  rewrite !after_false. unfold instant_eqb. rewrite andb_true_iff, !Z.eqb_eq. lia.
Qed.

Lemma instant_eqb_eq a b : instant_eqb a b = true <-> a = b.
Proof.
  unfold instant_eqb. rewrite andb_true_iff, !Z.eqb_eq. destruct a, b; simpl.
  split; [intros [-> ->]; reflexivity | intros H; inversion H; auto].
Qed.

Lemma after_total a b : a <> b -> after a b = true \/ after b a = true.
Proof.
  intros Hne. destruct (after a b) eqn:E1; [auto|]. destruct (after b a) eqn:E2; [auto|].
  exfalso. apply Hne. apply instant_eqb_eq. apply after_incomp_eq; assumption.
Qed.

(* key is the later of the two instants *)
Lemma key_later o : key o = later (published o) (updated o).
Proof. reflexivity. Qed.

Lemma key_ge_published o : after (published o) (key o) = false.
Proof.
  unfold key. destruct (after (updated o) (published o)) eqn:E.
  - apply after_asym; exact E.
  - apply after_irrefl.
Qed.

Lemma key_ge_updated o : after (updated o) (key o) = false.
Proof.
  unfold key. destruct (after (updated o) (published o)) eqn:E.
  - apply after_irrefl.
  - exact E.
Qed.

Lemma key_is_one o : key o = published o \/ key o = updated o.
Proof. unfold key. destruct (after _ _); auto. Qed.

(* characterisation *)
Lemma before_char a b :
  before a b = match a, b with
               | None, Some _ => true
               | Some x, Some y => after (key x) (key y)
               | _, _ => false
               end.
Proof. destruct a, b; reflexivity. Qed.

Lemma before_okey a b : before a b = okey_gt (okey a) (okey b).
Proof. destruct a, b; reflexivity. Qed.

Lemma before_irrefl a : before a a = false.
Proof. destruct a; simpl; [apply after_irrefl|reflexivity]. Qed.

Lemma before_asym a b : before a b = true -> before b a = false.
Proof. destruct a, b; simpl; try congruence. apply after_asym. Qed.

Lemma before_trans a b c : before a b = true -> before b c = true -> before a c = true.
Proof. destruct a, b, c; simpl; try congruence. apply after_trans. Qed.

Lemma before_incomp_trans a b c :
  before a b = false -> before b a = false -> before b c = false -> before c b = false ->
  before a c = false /\ before c a = false.
Proof.
  destruct a, b, c; simpl; try congruence; try (split; congruence).
  apply after_incomp_trans.
Qed.

Lemma before_nil_first o : before None (Some o) = true /\ before (Some o) None = false.
Proof. split; reflexivity. Qed.

(* ---- sorting: the key sequence of a sorted arrangement is unique ---- *)

Definition oi_ge (a b : option instant) : Prop := okey_gt b a = false.

Lemma okey_gt_irrefl a : okey_gt a a = false.
Proof. destruct a; simpl; [apply after_irrefl|reflexivity]. Qed.

Lemma oi_ge_antisym a b : oi_ge a b -> oi_ge b a -> a = b.
Proof.
  unfold oi_ge. destruct a as [x|], b as [y|]; simpl; try congruence.
  intros H1 H2. f_equal. apply instant_eqb_eq. apply after_incomp_eq; assumption.
Qed.

Lemma oi_ge_trans a b c : oi_ge a b -> oi_ge b c -> oi_ge a c.
Proof.
  unfold oi_ge. destruct a as [x|], b as [y|], c as [z|]; simpl; try congruence.
  rewrite !after_false. lia.
Qed.

Section SortedUnique.
  Variable A : Type.
  Variable R : A -> A -> Prop.
  Hypothesis R_antisym : forall a b, R a b -> R b a -> a = b.

  Lemma sorted_perm_unique :
    forall l1 l2, StronglySorted R l1 -> StronglySorted R l2 -> Permutation l1 l2 -> l1 = l2.
  Proof.
    induction l1 as [|a l1 IH]; intros l2 S1 S2 P.
    - apply Permutation_nil in P. subst. reflexivity.
    - destruct l2 as [|b l2]; [apply Permutation_sym, Permutation_nil in P; discriminate|].
      inversion S1 as [|? ? S1' F1]; subst. inversion S2 as [|? ? S2' F2]; subst.
      assert (a = b) as ->.
      { assert (In a (b :: l2)) as Ha by (eapply Permutation_in; [exact P|left; reflexivity]).
        assert (In b (a :: l1)) as Hb by (eapply Permutation_in; [apply Permutation_sym; exact P|left; reflexivity]).
        destruct Ha as [->|Ha]; [reflexivity|]. destruct Hb as [->|Hb]; [reflexivity|].
        rewrite Forall_forall in F1, F2. apply R_antisym; [apply F1; exact Hb|apply F2; exact Ha]. }
      f_equal. apply IH; try assumption. eapply Permutation_cons_inv; exact P.
  Qed.
End SortedUnique.

Lemma StronglySorted_map {A B} (f : A -> B) (R : B -> B -> Prop) l :
  StronglySorted (fun a b => R (f a) (f b)) l -> StronglySorted R (map f l).
Proof.
  induction 1 as [|a l S IH F]; simpl; constructor; [exact IH|].
  rewrite Forall_forall in *. intros y Hy. apply in_map_iff in Hy. destruct Hy as [x [<- Hx]]. auto.
Qed.

(* A list is "sorted by ItemOrderTimestamp" when no later element ranks strictly before an earlier one. *)
Definition sorted_by_before (l : list (option tsobj)) : Prop :=
  StronglySorted (fun a b => before b a = false) l.

Lemma sorted_keys_unique l1 l2 :
  Permutation l1 l2 -> sorted_by_before l1 -> sorted_by_before l2 ->
  map okey l1 = map okey l2.
Proof.
  intros P S1 S2.
  apply (sorted_perm_unique _ oi_ge oi_ge_antisym).
  - apply StronglySorted_map. unfold sorted_by_before in S1.
    eapply StronglySorted_ind with (P := fun l => StronglySorted (fun a b => oi_ge (okey a) (okey b)) l);
      [constructor| |exact S1].
    intros a l _ IH F. constructor; [exact IH|].
    rewrite Forall_forall in *. intros y Hy. unfold oi_ge. rewrite <- before_okey. auto.
  - apply StronglySorted_map. unfold sorted_by_before in S2.
    eapply StronglySorted_ind with (P := fun l => StronglySorted (fun a b => oi_ge (okey a) (okey b)) l);
      [constructor| |exact S2].
    intros a l _ IH F. constructor; [exact IH|].
    rewrite Forall_forall in *. intros y Hy. unfold oi_ge. rewrite <- before_okey. auto.
  - apply Permutation_map. exact P.
Qed.

(* newest first: in a sorted list every earlier key is >= every later key, nil first *)
Lemma sorted_newest_first l :
  sorted_by_before l -> StronglySorted oi_ge (map okey l).
Proof.
  intros S. apply StronglySorted_map.
  induction S as [|a l S IH F]; constructor; [exact IH|].
  rewrite Forall_forall in *. intros y Hy. unfold oi_ge. rewrite <- before_okey. auto.
Qed.

(* ---- item level ---- *)
From AP.Model Require Import Vocab Pred OrderItem.

Lemma item_order_on_domain a b va vb :
  ts_view a = Ok va -> ts_view b = Ok vb -> item_order_timestamp a b = before va vb.
Proof. unfold item_order_timestamp. intros -> ->. reflexivity. Qed.

Lemma ts_view_object ptr k fs : k <> KLink -> exists o, ts_view (IObj ptr k fs) = Ok (Some o).
Proof. intros Hk. destruct k; try (eexists; reflexivity). contradiction. Qed.

Lemma ts_view_nil : ts_view INil = Ok None /\ forall k, ts_view (ITNil k) = Ok None.
Proof. split; [reflexivity|intros k; reflexivity]. Qed.

Lemma item_order_outside a b : ts_view a = Err \/ ts_view b = Err -> item_order_timestamp a b = false.
Proof.
  unfold item_order_timestamp. intros [H|H]; rewrite H; [reflexivity|]. destruct (ts_view a); reflexivity.
Qed.
