(* The tie between the generated tables and the hand-written model of ItemOrderTimestamp (Model/Order.v, OrderItem.v):
     1. the statement sequence of Model/OrderTab.v, interpreted over ANY ToObject that hands back what ts_view says,
        IS item_order_timestamp, for all pairs of items;
     2. for every conversion table and struct layouts satisfying toobject_table_ok, ToObject read from them (conv_item)
        hands back what ts_view says, for every item;
     3. hence for every body table, conversion table and layouts satisfying the conditions: interpreter = model. *)
From AP.Model Require Import Prelude Vocab Pred Layout Views Conv Order OrderItem TabEq GoBody OrderTab.
From AP.Proofs Require Import TabEqP GoBodyP ViewsP.

Lemma inst_of_if (c : bool) a b : inst_of (if c then a else b) = if c then inst_of a else inst_of b.
Proof. destruct c; reflexivity. Qed.

Ltac oenv := repeat (progress (cbn [ge_func ge_method order_env]; unfold order_func, order_method; ceval; cbv iota; gx)).

Lemma item_order_model tobj a b :
  view_of_conv (tobj a) = Some (ts_view a) -> view_of_conv (tobj b) = Some (ts_view b) ->
  run_fn (order_env tobj) m_item_order None [GvItem a; GvItem b] = Ok ([GvBool (item_order_timestamp a b)], None).
Proof.
  intros Ha Hb. unfold item_order_timestamp.
  open_fn. gx. oenv.
  destruct (tobj a) as [| | | |al [|k|p s|[|] k fs|p l|p l]| |]; cbn [view_of_conv] in Ha; try discriminate;
    injection Ha as Ha; rewrite <- Ha; cbn [to_object_vals]; gx; oenv.
  all: destruct (tobj b) as [| | | |al' [|k'|p' s'|[|] k' fs'|p' l'|p' l']| |]; cbn [view_of_conv] in Hb; try discriminate;
    injection Hb as Hb; try rewrite <- Hb; cbn [to_object_vals]; gx; oenv; try reflexivity.
  unfold before, key. cbn [published updated].
  destruct (after (inst_of (get_time F_Updated fs)) (inst_of (get_time F_Published fs))); gx; oenv;
    destruct (after (inst_of (get_time F_Updated fs')) (inst_of (get_time F_Published fs'))); gx; oenv; reflexivity.
Qed.

Section ToObject.
  Variable layout_of : kind -> list fdecl.
  Variable sizeof_kind : kind -> nat.
  Variable reflect_convertible : list (kind * kind).
  Variable tbl : list conv_case.
  Variable dflt : conv_action.
  Hypothesis Hok : toobject_table_ok layout_of sizeof_kind reflect_convertible tbl dflt = true.

  Notation tobj := (to_object_t layout_of sizeof_kind reflect_convertible tbl dflt).

  Lemma nodup_fids_spec l : nodup_fids l = true -> NoDup l.
  Proof.
    induction l as [|x r IH]; intro H; [constructor|]. cbn [nodup_fids] in H. apply andb_prop in H. destruct H as [H1 H2].
    constructor; [|apply IH; exact H2]. intro Hin. apply negb_true_iff in H1.
    assert (existsb (fid_beq x) r = true) as Hx; [|rewrite Hx in H1; discriminate].
    apply existsb_exists. exists x. split; [exact Hin|apply fid_beq_refl].
  Qed.

  Lemma ok_parts :
    dflt = AReflect /\
    (forall k, In k non_link_kinds -> struct_case_ok layout_of sizeof_kind tbl k true = true /\
                                      struct_case_ok layout_of sizeof_kind tbl k false = true) /\
    (forall s, In s other_shapes -> find_case tbl s = None) /\
    reflect_ok reflect_convertible KLink KObject = false /\
    NoDup (map fd_fid (layout_of KObject)) /\
    (exists d, In d (layout_of KObject) /\ fd_fid d = F_Published) /\
    (exists d, In d (layout_of KObject) /\ fd_fid d = F_Updated).
  Proof.
    pose proof Hok as H. unfold toobject_table_ok in H.
    apply andb_prop in H; destruct H as [H Hu]. apply andb_prop in H; destruct H as [H Hp].
    apply andb_prop in H; destruct H as [H Hn]. apply andb_prop in H; destruct H as [H Hr].
    apply andb_prop in H; destruct H as [H Ho]. apply andb_prop in H; destruct H as [Hd Hs].
    split; [destruct dflt; try discriminate; reflexivity|].
    split; [intros k Hk; rewrite forallb_forall in Hs; apply Hs in Hk; apply andb_prop in Hk; exact Hk|].
    split; [intros s Hin; rewrite forallb_forall in Ho; apply Ho in Hin; destruct (find_case tbl s); [discriminate|reflexivity]|].
    split; [apply negb_true_iff; exact Hr|].
    split; [apply nodup_fids_spec; exact Hn|].
    split.
    - unfold has_field in Hp. apply existsb_exists in Hp. destruct Hp as [d [Hin Hf]]. exists d. split; [exact Hin|].
      apply fid_beq_eq. exact Hf.
    - unfold has_field in Hu. apply existsb_exists in Hu. destruct Hu as [d [Hin Hf]]. exists d. split; [exact Hin|].
      apply fid_beq_eq. exact Hf.
  Qed.

  (* a reinterpretation as Object that the layouts back keeps the two instants *)
  Lemma view_keeps_time k fs f :
    prefix_compatible layout_of sizeof_kind KObject k = true ->
    (exists d, In d (layout_of KObject) /\ fd_fid d = f) -> (f = F_Published \/ f = F_Updated) ->
    exists vf, view_fields layout_of sizeof_kind KObject k fs = Some vf.
  Proof.
    intros Hpc _ _. destruct ok_parts as [_ [_ [_ [_ [Hnd _]]]]].
    destruct (view_faithful layout_of sizeof_kind KObject k fs Hpc Hnd) as [out [Ho _]]. exists out. exact Ho.
  Qed.

  Lemma view_time k fs vf :
    prefix_compatible layout_of sizeof_kind KObject k = true ->
    view_fields layout_of sizeof_kind KObject k fs = Some vf ->
    get_time F_Published vf = get_time F_Published fs /\ get_time F_Updated vf = get_time F_Updated fs.
  Proof.
    intros Hpc Hv. destruct ok_parts as [_ [_ [_ [_ [Hnd [[dp [Hdp Hfp]] [du [Hdu Hfu]]]]]]]].
    destruct (view_faithful layout_of sizeof_kind KObject k fs Hpc Hnd) as [out [Ho Hall]].
    rewrite Hv in Ho. injection Ho as <-.
    split; unfold get_time.
    - destruct (Hall dp Hdp) as [s [_ [Hs Hg]]]. rewrite Hfp in *. cbn [ren] in Hs.
      assert (fd_fid s = F_Published) as E by (destruct Hs; assumption). rewrite E in Hg. rewrite Hg. reflexivity.
    - destruct (Hall du Hdu) as [s [_ [Hs Hg]]]. rewrite Hfu in *. cbn [ren] in Hs.
      assert (fd_fid s = F_Updated) as E by (destruct Hs; assumption). rewrite E in Hg. rewrite Hg. reflexivity.
  Qed.

  Lemma struct_view p k fs : In k non_link_kinds ->
    view_of_conv (tobj (IObj p k fs))
    = Some (Ok (Some {| published := inst_of (get_time F_Published fs); updated := inst_of (get_time F_Updated fs) |})).
  Proof.
    intro Hk. destruct ok_parts as [_ [Hs _]]. destruct (Hs k Hk) as [Ht Hf].
    unfold to_object_t, conv_item. cbn [shape_of].
    assert (struct_case_ok layout_of sizeof_kind tbl k p = true) as Hc by (destruct p; assumption).
    unfold struct_case_ok in Hc. destruct (find_case tbl (CK k, p)) as [c|]; [|discriminate].
    destruct (cv_action c) as [| |[d|]|[d|]| | | | | |]; try discriminate; try reflexivity.
    - destruct d; try discriminate.
      destruct (view_fields layout_of sizeof_kind KObject k fs) as [vf|] eqn:Ev.
      + destruct (view_time k fs vf Hc Ev) as [E1 E2]. cbn [view_of_conv]. rewrite E1, E2. reflexivity.
      + destruct (view_keeps_time k fs F_Published Hc) as [vf Hv]; [|left; reflexivity|rewrite Hv in Ev; discriminate].
        destruct ok_parts as [_ [_ [_ [_ [_ [Hp _]]]]]]. exact Hp.
    - destruct d; try discriminate. apply andb_prop in Hc. destruct Hc as [_ Hc].
      destruct (view_fields layout_of sizeof_kind KObject k fs) as [vf|] eqn:Ev.
      + destruct (view_time k fs vf Hc Ev) as [E1 E2]. cbn [view_of_conv]. rewrite E1, E2. reflexivity.
      + destruct (view_keeps_time k fs F_Published Hc) as [vf Hv]; [|left; reflexivity|rewrite Hv in Ev; discriminate].
        destruct ok_parts as [_ [_ [_ [_ [_ [Hp _]]]]]]. exact Hp.
  Qed.

  Lemma nilptr_view k : In k non_link_kinds -> view_of_conv (tobj (ITNil k)) = Some (Ok None).
  Proof.
    intro Hk. destruct ok_parts as [_ [Hs _]]. destruct (Hs k Hk) as [Ht _].
    unfold to_object_t, conv_item. cbn [shape_of].
    unfold struct_case_ok in Ht. destruct (find_case tbl (CK k, true)) as [c|]; [|discriminate].
    destruct (cv_action c) as [| |[d|]|[d|]| | | | | |]; try discriminate; try reflexivity.
    destruct d; try discriminate; reflexivity.
  Qed.

  Lemma other_view i s : shape_of i = Some s -> In s other_shapes ->
    tobj i = if is_nil i then CRNil
             else match i with
                  | IObj true k fs => if reflect_ok reflect_convertible k KObject then CRUnmodelled else CRErr
                  | _ => CRErr
                  end.
  Proof.
    intros Hsh Hin. destruct ok_parts as [Hd [_ [Ho _]]].
    unfold to_object_t, conv_item. rewrite Hsh, (Ho s Hin), Hd. reflexivity.
  Qed.

  Theorem to_object_view i : view_of_conv (tobj i) = Some (ts_view i).
  Proof.
    destruct ok_parts as [Hd [_ [_ [Hr _]]]].
    destruct i as [|k|p s|p k fs|p l|p l].
    - unfold to_object_t, conv_item. cbn [shape_of]. rewrite Hd. reflexivity.
    - destruct k; try (apply nilptr_view; cbn; tauto).
      rewrite (other_view (ITNil KLink) (CK KLink, true)); [reflexivity|reflexivity|cbn; tauto].
    - rewrite (other_view (IIri p s) (CKOther (B "IRI"), p)); [|reflexivity|destruct p; cbn; tauto].
      cbn [ts_view]. destruct (is_nil (IIri p s)); reflexivity.
    - destruct k; try (cbn [ts_view]; apply struct_view; cbn; tauto).
      rewrite (other_view (IObj p KLink fs) (CK KLink, p)); [|reflexivity|destruct p; cbn; tauto].
      cbn [is_nil ts_view]. destruct p; [rewrite Hr|]; reflexivity.
    - rewrite (other_view (IItems p l) (CKOther (B "ItemCollection"), p)); [|reflexivity|destruct p; cbn; tauto].
      cbn [ts_view]. destruct (is_nil (IItems p l)); reflexivity.
    - rewrite (other_view (IIris p l) (CKOther (B "IRIs"), p)); [|reflexivity|destruct p; cbn; tauto].
      cbn [ts_view]. destruct (is_nil (IIris p l)); reflexivity.
  Qed.
End ToObject.

(* ---------------------------------------------------------------- every table satisfying the conditions *)
Section Tie.
  Variable tbl : list (gfn gname).
  Hypothesis Hok : order_table_ok tbl = true.

  Lemma has_item_order : fn_named tbl n_item_order = Some m_item_order.
  Proof. apply (body_table_fns order_model_fns tbl Hok m_item_order). vm_compute. tauto. Qed.

  (* over any ToObject that agrees with ts_view on the two arguments *)
  Theorem item_order_tie_over tobj a b :
    view_of_conv (tobj a) = Some (ts_view a) -> view_of_conv (tobj b) = Some (ts_view b) ->
    item_order_t tbl tobj a b = Ok ([GvBool (item_order_timestamp a b)], None).
  Proof. intros Ha Hb. unfold item_order_t, run_named. rewrite has_item_order. apply item_order_model; assumption. Qed.

  (* with ToObject read from a conversion table and layouts *)
  Theorem item_order_tie layout_of sizeof_kind reflect_convertible ctbl dflt :
    toobject_table_ok layout_of sizeof_kind reflect_convertible ctbl dflt = true ->
    forall a b, item_order_t tbl (to_object_t layout_of sizeof_kind reflect_convertible ctbl dflt) a b
                = Ok ([GvBool (item_order_timestamp a b)], None).
  Proof. intros Hc a b. apply item_order_tie_over; apply to_object_view; exact Hc. Qed.
End Tie.
