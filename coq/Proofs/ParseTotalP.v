(* Totality of the fastjson parser model: on every byte string it returns a value or an error - it
   never panics and never runs out of fuel (the member / element loops are given fuel equal to the
   remaining input length plus one, and every value consumes at least one byte). *)
From AP.Model Require Import Prelude Bytes Text.
From AP.Proofs Require NlvP.

Definition good {A} (o : outcome A) : Prop := match o with Ok _ | Err => True | _ => False end.

(* a value parser that is total and consumes input *)
Definition progressive (pv : bytes -> outcome (fjv * bytes)) : Prop :=
  forall s, good (pv s) /\ forall v t, pv s = Ok (v, t) -> length t < length s.

Lemma skipws_len s : length (skipws s) <= length s.
Proof. induction s as [|b r IH]; simpl; [lia|]. destruct (is_ws b); simpl; lia. Qed.

Lemma raw_string_len s k t : fj_raw_string s = Some (k, t) -> length t < length s.
Proof.
  revert k t. remember (length s) as n eqn:Hn. revert s Hn.
  induction n as [n IH] using lt_wf_ind. intros s Hn k t H. destruct s as [|c r]; [discriminate|].
  simpl in H. destruct (Byte.eqb c bQ).
  - inversion H; subst. simpl. lia.
  - destruct (Byte.eqb c bBS).
    + destruct r as [|d r1]; [discriminate|].
      destruct (fj_raw_string r1) as [[a t']|] eqn:E; [|discriminate]. inversion H; subst.
      assert (length t < length r1) by (eapply (IH (length r1)); [simpl; lia|reflexivity|exact E]). simpl. lia.
    + destruct (fj_raw_string r) as [[a t']|] eqn:E; [|discriminate]. inversion H; subst.
      assert (length t < length r) by (eapply (IH (length r)); [simpl; lia|reflexivity|exact E]). simpl. lia.
Qed.

Lemma raw_number_len s : forall i sg a t, raw_number i sg s = Some (a, t) -> length t <= length s /\ (a <> [] -> length t < length s).
Proof.
  induction s as [|c r IH]; intros i sg a t H; cbn [raw_number] in H.
  - inversion H; subst. split; [simpl; lia|intros Hc; exfalso; apply Hc; reflexivity].
  - destruct (is_numch c).
    + destruct (raw_number (S i) sg r) as [[a' t']|] eqn:E; [|discriminate]. inversion H; subst.
      apply IH in E. destruct E as [E _]. split; [simpl; lia|intros _; simpl; lia].
    + destruct (Nat.eqb i 0 || (Nat.eqb i 1 && sg)).
      * destruct (infnan3 (c :: r)) eqn:Ei; [|discriminate]. inversion H; subst.
        unfold infnan3 in Ei. destruct r as [|b [|d r']]; try discriminate.
        split; [simpl; lia|intros _; simpl; lia].
      * inversion H; subst. split; [lia|intros Hc; exfalso; apply Hc; reflexivity].
Qed.

Lemma has_prefix_len p s t : p <> [] -> has_prefix p s = Some t -> length t < length s.
Proof.
  unfold has_prefix. intros Hp H. destruct (bytes_eqb (firstn (length p) s) p) eqn:E; [|discriminate].
  inversion H; subst. apply NlvP.bytes_eqb_eq in E.
  assert (length (firstn (length p) s) = length p) as Hl by (rewrite E; reflexivity).
  rewrite firstn_length in Hl. rewrite skipn_length.
  assert (length p <= length s) as Hle by (rewrite <- Hl; apply Nat.le_min_r).
  assert (0 < length p) as Hpos by (destruct p; [congruence|simpl; lia]). lia.
Qed.

Lemma obj_loop_ok pv : progressive pv -> forall fuel s acc, length s < fuel ->
  good (obj_loop fuel pv s acc) /\ forall v t, obj_loop fuel pv s acc = Ok (v, t) -> length t < length s.
Proof.
  intros Hp. induction fuel as [|f IH]; intros s acc Hf; [lia|]. simpl.
  pose proof (skipws_len s) as Hs.
  destruct (skipws s) as [|c r] eqn:Es; [split; [exact I|discriminate]|].
  destruct (negb (Byte.eqb c bQ)); [split; [exact I|discriminate]|].
  destruct (fj_raw_string r) as [[k s1]|] eqn:Ek; [|split; [exact I|discriminate]].
  apply raw_string_len in Ek. pose proof (skipws_len s1) as Hs1.
  destruct (skipws s1) as [|c1 s2] eqn:Es1; [split; [exact I|discriminate]|].
  destruct (negb (Byte.eqb c1 bCO)); [split; [exact I|discriminate]|].
  pose proof (skipws_len s2) as Hs2. destruct (Hp (skipws s2)) as [Hg Hlen].
  destruct (pv (skipws s2)) as [[v s3]| | |] eqn:Ev; try (split; [exact I|discriminate]); try contradiction.
  specialize (Hlen v s3 eq_refl). pose proof (skipws_len s3) as Hs3.
  destruct (skipws s3) as [|c2 s4] eqn:Es3; [split; [exact I|discriminate]|].
  simpl in *.
  destruct (Byte.eqb c2 bCM).
  - destruct (IH s4 ((k, v) :: acc)) as [G L]; [lia|]. split; [exact G|].
    intros v' t' H. apply L in H. lia.
  - destruct (Byte.eqb c2 bRB); [|split; [exact I|discriminate]].
    split; [exact I|]. intros v' t' H. inversion H; subst. lia.
Qed.

Lemma arr_loop_ok pv : progressive pv -> forall fuel s acc, length s < fuel ->
  good (arr_loop fuel pv s acc) /\ forall v t, arr_loop fuel pv s acc = Ok (v, t) -> length t < length s.
Proof.
  intros Hp. induction fuel as [|f IH]; intros s acc Hf; [lia|]. simpl.
  pose proof (skipws_len s) as Hs. destruct (Hp (skipws s)) as [Hg Hlen].
  destruct (pv (skipws s)) as [[v s1]| | |] eqn:Ev; try (split; [exact I|discriminate]); try contradiction.
  specialize (Hlen v s1 eq_refl). pose proof (skipws_len s1) as Hs1.
  destruct (skipws s1) as [|c s2] eqn:Es1; [split; [exact I|discriminate]|]. simpl in *.
  destruct (Byte.eqb c bCM).
  - destruct (IH s2 (v :: acc)) as [G L]; [lia|]. split; [exact G|].
    intros v' t' H. apply L in H. lia.
  - destruct (Byte.eqb c bRK); [|split; [exact I|discriminate]].
    split; [exact I|]. intros v' t' H. inversion H; subst. lia.
Qed.

Lemma fj_value_progressive bd : progressive (fj_value bd).
Proof.
  induction bd as [|bd IH]; intros s; [split; [exact I|discriminate]|].
  destruct s as [|c r]; [split; [exact I|discriminate]|].
  cbn [fj_value].
  destruct (Byte.eqb c bLB).
  { pose proof (skipws_len r) as Hr. destruct (skipws r) as [|c1 r1] eqn:Er; [split; [exact I|discriminate]|].
    destruct (Byte.eqb c1 bRB).
    - split; [exact I|]. intros v t H. inversion H; subst. simpl in *. lia.
    - destruct (obj_loop_ok (fj_value bd) IH (S (length r)) (c1 :: r1) []) as [G L]; [simpl in *; lia|].
      split; [exact G|]. intros v t H. apply L in H. simpl in *. lia. }
  destruct (Byte.eqb c bLK).
  { pose proof (skipws_len r) as Hr. destruct (skipws r) as [|c1 r1] eqn:Er; [split; [exact I|discriminate]|].
    destruct (Byte.eqb c1 bRK).
    - split; [exact I|]. intros v t H. inversion H; subst. simpl in *. lia.
    - destruct (arr_loop_ok (fj_value bd) IH (S (length r)) (c1 :: r1) []) as [G L]; [simpl in *; lia|].
      split; [exact G|]. intros v t H. apply L in H. simpl in *. lia. }
  destruct (Byte.eqb c bQ).
  { destruct (fj_raw_string r) as [[raw t]|] eqn:E; [|split; [exact I|discriminate]].
    apply raw_string_len in E. split; [exact I|]. intros v t' H. inversion H; subst. simpl. lia. }
  destruct (Byte.eqb c x74).
  { destruct (has_prefix (B "true") (c :: r)) as [t|] eqn:E; [|split; [exact I|discriminate]].
    apply has_prefix_len in E; [|discriminate]. split; [exact I|]. intros v t' H. inversion H; subst. exact E. }
  destruct (Byte.eqb c x66).
  { destruct (has_prefix (B "false") (c :: r)) as [t|] eqn:E; [|split; [exact I|discriminate]].
    apply has_prefix_len in E; [|discriminate]. split; [exact I|]. intros v t' H. inversion H; subst. exact E. }
  destruct (Byte.eqb c x6e).
  { destruct (has_prefix (B "null") (c :: r)) as [t|] eqn:E.
    - apply has_prefix_len in E; [|discriminate]. split; [exact I|]. intros v t' H. inversion H; subst. exact E.
    - destruct (fold_eqb (firstn 3 (c :: r)) (B "nan") && Nat.leb 3 (length (c :: r))) eqn:En; [|split; [exact I|discriminate]].
      split; [exact I|]. intros v t' H. inversion H; subst.
      apply andb_true_iff in En. destruct En as [_ En]. apply Nat.leb_le in En.
      destruct r as [|b [|d r']]; simpl in *; lia. }
  destruct (fj_raw_number (c :: r)) as [[tok t]|] eqn:E; [|split; [exact I|discriminate]].
  split; [exact I|]. intros v t' H. inversion H; subst.
  unfold fj_raw_number in E. pose proof E as E'. apply raw_number_len in E. destruct E as [E1 E2].
  destruct tok as [|b tok'].
  - (* an empty token at position 0 is impossible: position 0 either scans a number byte or fails *)
    cbn [raw_number] in E'. destruct (is_numch c).
    + destruct (raw_number 1 _ r) as [[a tt]|]; [inversion E'|discriminate].
    + cbn [Nat.eqb orb] in E'. destruct (infnan3 (c :: r)); [|discriminate].
      cbn [firstn] in E'. inversion E'.
  - apply E2. discriminate.
Qed.

Theorem fj_parse_total s : (exists v, fj_parse s = Ok v) \/ fj_parse s = Err.
Proof.
  unfold fj_parse. destruct (fj_value_progressive 300 (skipws s)) as [G _].
  destruct (fj_value 300 (skipws s)) as [[v t]| | |]; try contradiction.
  - destruct (skipws t); [left; eexists; reflexivity|right; reflexivity].
  - right; reflexivity.
Qed.

(* nesting depth of what the parser accepts *)
Fixpoint fjdepth (v : fjv) : nat :=
  match v with
  | FObj kvs => S ((fix go (l : list (bytes * fjv)) : nat := match l with [] => 0 | (_, x) :: r => Nat.max (fjdepth x) (go r) end) kvs)
  | FArr l => S ((fix go (l : list fjv) : nat := match l with [] => 0 | x :: r => Nat.max (fjdepth x) (go r) end) l)
  | _ => 1
  end.
