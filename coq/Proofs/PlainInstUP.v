(* Whole-model conservativity of the wide instances over the plain ones (builder b56; b47 had it at the level of the
   relation only, C14_u_agrees_plain): on items / pools whose ids all lie in C14's plain domain iri_dom - or are unset,
   [plain_or_empty] - ItemsEqual over iri_equ IS ItemsEqual over iri_eqb, and the containers over iri_equ run as the
   containers over iri_eqb, for every pair and every history.  Instances of Proofs/EqualCongrP.v / CollCongrP.v with
   Proofs/PlainOrEmptyP.v. *)
From AP.Model Require Import Prelude Vocab Pred Url IriEq IriNf Nlv Fold UrlU IriEqU Equal EqualU Coll CollU IdsIn.
From AP.Proofs Require Import NlvP IriEqP EqualCongrP CollCongrP PlainOrEmptyP.

Lemma ieq_u_plain x y :
  ids_in plain_or_empty x = true -> ids_in plain_or_empty y = true -> ieq_u x y = ieq x y.
Proof. exact (ieq_congr plain_or_empty eq_refl iri_equ iri_eqb iri_equ_plain_or_empty x y). Qed.

Lemma items_equal_u_plain n x y :
  ids_in plain_or_empty x = true -> ids_in plain_or_empty y = true -> items_equal_u n x y = items_equal n x y.
Proof. exact (items_equal_c_congr plain_or_empty eq_refl iri_equ iri_eqb iri_equ_plain_or_empty n x y). Qed.

Lemma c_run_u_plain pool c st ops :
  forallb (ids_in plain_or_empty) pool = true -> forallb (ids_in plain_or_empty) st = true ->
  c_run_u pool c st ops = c_run pool c st ops.
Proof.
  intros Hp Hs. unfold c_run_u.
  apply (c_run_congr plain_or_empty eq_refl iri_equ iri_eqb iri_equ_plain_or_empty pool).
  - apply Forall_forall. rewrite forallb_forall in Hp. exact Hp.
  - apply Forall_forall. rewrite forallb_forall in Hs. exact Hs.
Qed.

(* ids of iri_dom only: the statement as C14_u_agrees_plain has it *)
Lemma ids_in_weaken (d1 d2 : bytes -> bool) (W : forall s, d1 s = true -> d2 s = true) :
  forall x, ids_in d1 x = true -> ids_in d2 x = true
with fval_ids_in_weaken (d1 d2 : bytes -> bool) (W : forall s, d1 s = true -> d2 s = true) :
  forall f v, fval_ids_in d1 f v = true -> fval_ids_in d2 f v = true.
Proof.
  - intros x. destruct x as [| |p s|p k fs|p [l|]|p [l|]]; cbn [ids_in]; auto.
    + induction fs as [|[f v] r IH]; [reflexivity|]. rewrite !andb_true_iff. intros [H1 H2].
      split; [apply (fval_ids_in_weaken d1 d2 W); exact H1|apply IH; exact H2].
    + induction l as [|x r IH]; [reflexivity|]. rewrite !andb_true_iff. intros [H1 H2].
      split; [apply (ids_in_weaken d1 d2 W); exact H1|apply IH; exact H2].
    + rewrite !forallb_forall. intros H s Hs. apply W. apply H. exact Hs.
  - intros f v. destruct v as [i|[l|]| | | | | | | | | | |]; cbn [fval_ids_in]; auto.
    + apply (ids_in_weaken d1 d2 W).
    + induction l as [|x r IH]; [reflexivity|]. rewrite !andb_true_iff. intros [H1 H2].
      split; [apply (ids_in_weaken d1 d2 W); exact H1|apply IH; exact H2].
    + destruct (is_id_field f); auto.
Qed.

Lemma iri_dom_plain_or_empty s : iri_dom s = true -> plain_or_empty s = true.
Proof. intro H. unfold plain_or_empty. rewrite H. reflexivity. Qed.

Lemma ids_in_dom_weaken x : ids_in iri_dom x = true -> ids_in plain_or_empty x = true.
Proof. apply (ids_in_weaken iri_dom plain_or_empty iri_dom_plain_or_empty). Qed.

Lemma ieq_u_plain_dom x y : ids_in iri_dom x = true -> ids_in iri_dom y = true -> ieq_u x y = ieq x y.
Proof. intros Hx Hy. apply ieq_u_plain; apply ids_in_dom_weaken; assumption. Qed.

Lemma c_run_u_plain_dom pool c st ops :
  forallb (ids_in iri_dom) pool = true -> forallb (ids_in iri_dom) st = true ->
  c_run_u pool c st ops = c_run pool c st ops.
Proof.
  intros Hp Hs. apply c_run_u_plain; apply forallb_forall; intros x Hx; apply ids_in_dom_weaken;
    [rewrite forallb_forall in Hp; exact (Hp x Hx)|rewrite forallb_forall in Hs; exact (Hs x Hx)].
Qed.
