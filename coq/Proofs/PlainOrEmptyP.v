(* The two models of IRI.Equals - iri_eqb over the plain URL grammar, iri_equ over net/url on all byte strings - give
   the same answer when each argument lies in C14's plain domain iri_dom OR is the empty string (an unset id): builder
   b56.  Both in the domain: C14_u_agrees_plain.  Both empty: reflexivity.  One empty: both models answer false - the
   fast path compares "" with what stripFragment / stripScheme leave of a non-empty string, which is not empty, and the
   slow path folds "" against the whole string. *)
From AP.Model Require Import Prelude Bytes Url IriEq IriNf Vocab Pred CollIri Utf8 FoldTab Fold UrlU IriEqU IdsIn.
From AP.Proofs Require Import NlvP LowerP IriEqP SortP IriGenP IriNfP IriXP CollIriP Utf8P FoldP CleanUP DecodeUP IriUP
  ConservUP StrictLooseUP.

Lemma from_sep_prefix s : forall t, from_sep s = Some t -> is_prefix (B "://") t = true.
Proof.
  induction s as [|c r IH]; intros t H.
  - discriminate.
  - rewrite from_sep_cons in H. destruct (is_prefix (B "://") (c :: r)) eqn:P; [inversion H; subst; exact P|auto].
Qed.

Lemma strip_scheme_nonempty s : s <> [] -> strip_scheme s <> [].
Proof.
  intros N. rewrite strip_scheme_from_sep. destruct (from_sep s) as [t|] eqn:E; [|exact N].
  apply from_sep_prefix in E. intros ->. discriminate.
Qed.

Lemma strip_fragment_nonempty s : s <> [] -> strip_fragment s <> [].
Proof.
  intros N. unfold strip_fragment. destruct (index [hash] s) as [[|n]|]; try exact N.
  destruct s as [|c r]; [congruence|]. discriminate.
Qed.

Lemma fold_eqb_nil_l x : x <> [] -> fold_eqb [] x = false.
Proof.
  intro N. destruct (fold_eqb [] x) eqn:E; [|reflexivity]. apply fold_eqb_eq in E. change (lower []) with (@nil byte) in E. symmetry in E.
  apply (proj1 (lower_nil_iff x)) in E. destruct (N E).
Qed.
Lemma sfold_eqb_nil_l x : x <> [] -> sfold_eqb [] x = false.
Proof.
  intro NE. destruct (sfold_eqb [] x) eqn:E; [|reflexivity]. apply sfold_eqb_eq in E. change (scanon []) with (@nil N) in E. symmetry in E.
  apply uc_nil in E. destruct (NE E).
Qed.

Lemma iri_dom_nonempty b : iri_dom b = true -> b <> [].
Proof. intros H ->. discriminate. Qed.

Lemma iri_eqb_empty_l b cs : iri_dom b = true -> iri_eqb [] b cs = false.
Proof.
  intro D. pose proof (iri_dom_nonempty b D) as N.
  unfold iri_eqb, iri_equals_m, iri_equals.
  change (strip_fragment []) with (@nil byte). change (strip_scheme []) with (@nil byte).
  assert (F : fold_eqb [] (if cs then strip_fragment b else strip_scheme (strip_fragment b)) = false).
  { apply fold_eqb_nil_l. destruct cs; [|apply strip_scheme_nonempty]; apply strip_fragment_nonempty; exact N. }
  destruct cs; rewrite F; unfold iris_equal; change (url_classify []) with UFallback;
    unfold iri_dom, iri_dom_with, iri_dom_gen in D; destruct (url_classify b); try discriminate;
    rewrite (fold_eqb_nil_l b N); reflexivity.
Qed.

Lemma iri_equ_empty_l b cs : iri_dom_u b = true -> iri_equ [] b cs = false.
Proof.
  intro D. assert (N : b <> []) by (intros ->; discriminate).
  unfold iri_equ, iri_equals_u, iri_equals_f.
  change (strip_fragment []) with (@nil byte). change (strip_scheme []) with (@nil byte).
  assert (F : sfold_eqb [] (if cs then strip_fragment b else strip_scheme (strip_fragment b)) = false).
  { apply sfold_eqb_nil_l. destruct cs; [|apply strip_scheme_nonempty]; apply strip_fragment_nonempty; exact N. }
  destruct cs; rewrite F; unfold iris_equal_f; change (url_classify_u []) with UFallback;
    unfold iri_dom_u, iri_dom_u_with in D; destruct (url_classify_u b); try discriminate;
    rewrite (sfold_eqb_nil_l b N); reflexivity.
Qed.

Lemma plain_or_empty_cases s : plain_or_empty s = true -> iri_dom s = true \/ s = [].
Proof.
  unfold plain_or_empty. rewrite orb_true_iff. intros [H|H]; [left; exact H|right; destruct s; [reflexivity|discriminate]].
Qed.

Lemma iri_dom_u_of_plain' a : iri_dom a = true -> iri_dom_u a = true.
Proof. intro H. apply iri_dom_u_of_x. apply iri_dom_x_of_plain. exact H. Qed.

Theorem iri_equ_plain_or_empty a b cs :
  plain_or_empty a = true -> plain_or_empty b = true -> iri_equ a b cs = iri_eqb a b cs.
Proof.
  intros Ha Hb. apply plain_or_empty_cases in Ha, Hb. destruct Ha as [Da| ->], Hb as [Db| ->].
  - rewrite (iri_equ_of_x a b cs (iri_dom_x_of_plain a Da) (iri_dom_x_of_plain b Db)). apply iri_eqx_of_plain; assumption.
  - rewrite iri_equ_sym, iri_eqb_sym, (iri_eqb_empty_l a cs Da), (iri_equ_empty_l a cs (iri_dom_u_of_plain' a Da)). reflexivity.
  - rewrite (iri_eqb_empty_l b cs Db), (iri_equ_empty_l b cs (iri_dom_u_of_plain' b Db)). reflexivity.
  - rewrite iri_equ_refl, iri_eqb_refl. reflexivity.
Qed.
