(* DerefItem and NotEmpty on lists over the generated bodies (Gen/PredT.v through the interpreter of Model/PredTab.v):
   for every table satisfying deref_table_ok / pred_table_ok,
     DerefItem = deref_spec on every item that is no IRI list (nil for what IsNil holds of, the list itself for an
       ItemCollection whatever its members, the one-member list otherwise; never a panic);
     NotEmpty = false on every nil-like item; NotEmpty = ne_list_spec on every ItemCollection IsNil does not hold of
       (true when no member reaches notEmptyObject: in particular for every list of nil-like members). *)
From AP.Model Require Import Prelude Bytes Vocab Pred Layout Dispatch Equal TabEq PredTab NilMatrix PredList.
From AP.Proofs Require Import NlvP TabEqP PredTabP PredNeP.
From AP.Gen Require Import TypeLists.
Require AP.Model.Recip AP.Model.JsonDec.

Definition views_typed (i : item) : bool :=
  forallb (fun d => match d with VI (IObj true KObject fs) => ne_typed fs | _ => false end) (fst (walk_views KObject i)).

Lemma nil_like_is_nil i : nil_like i = true -> is_nil i = true.
Proof. destruct i; try discriminate; reflexivity. Qed.

(* a walk over nil-like members hands the callback nothing *)
Lemma walk_nil_like d p l : forallb nil_like l = true -> walk_views d (IItems p (Some l)) = ([], true).
Proof.
  cbn [walk_views]. induction l as [|m r IH]; intro H; [reflexivity|].
  cbn [forallb] in H. apply andb_prop in H. destruct H as [Hm Hr].
  rewrite (nil_like_is_nil m Hm). cbn [orb]. exact (IH Hr).
Qed.

Section DerefModel.
  Variable E : penv.
  Hypothesis HV : on_answers E.
  Hypothesis HN : fn_answers E (B "IsNil") is_nil.
  Hypothesis HIS : fn_answers E (B "IsIRIs") is_iris.
  Hypothesis HIC : fn_answers E (B "IsItemCollection") is_item_collection.
  Hypothesis HC : forall lo, pe_meth E (B "*ItemCollection.Collection") (VI (IItems true lo)) []
                             = Some (Ok (VI (IItems false lo))).

  Ltac runv := repeat (progress (cbn -[on_view is_nil]; unfold ev_bool, arg1, e_it, on_set_items, v_items, v_col)).

  Lemma deref_model i : is_iris i = false -> as_item (run_pfn E m_deref_item None [VI i]) = deref_spec i.
  Proof.
    intro Hi. unfold run_pfn, deref_spec. runv. rewrite HN. destruct (is_nil i) eqn:Hn; [reflexivity|].
    runv. rewrite HIS, Hi. runv. rewrite HIC.
    destruct i as [|k|p s|p k fs|p lo|p lo]; try discriminate; try reflexivity.
    runv. rewrite HV.
    replace (on_view _ (IItems p lo)) with (PwRun (VI (IItems true lo)))
      by (destruct p, lo as [l|]; try discriminate Hn; reflexivity).
    runv. pose proof (HC lo) as Hc.
    repeat match type of Hc with context [B ?x] => let y := eval vm_compute in (B x) in change (B x) with y in Hc end.
    rewrite Hc. reflexivity.
  Qed.
End DerefModel.

(* ---------------------------------------------------------------- NotEmpty on an ItemCollection *)
Section NotEmptyList.
  Variable E : penv.
  Hypothesis HV : on_answers E.
  Hypothesis HN : fn_answers E (B "IsNil") is_nil.
  Hypothesis HI : fn_answers E (B "IsIRI") is_iri.
  Hypothesis HGT : forall i t, get_type i = Ok t -> exists v, pe_dyn E m_GetType i [] = Some (Ok v) /\ as_str v = Some t.
  Hypothesis HIC : forall i, i <> INil -> (forall k, i <> ITNil k) -> pe_dyn E m_IsCollection i [] = Some (Ok (VB (is_collection_m i))).
  Hypothesis HIL : forall i b, Recip.meth_is_link i = Ok b -> pe_dyn E m_IsLink i [] = Some (Ok (VB b)).
  Hypothesis HO : ne_object_answers E.

  Definition ne_body : pstmt :=
    pblk [PSet v_ne (ECall (B "notEmptyObject") (arg1 (EVar (B "o")))); PReturnNil].

  Fixpoint run_all (ds : list pv) (s : pstate) {struct ds} : outcome psignal :=
    match ds with
    | [] => Ok (GNormal s)
    | d :: r => obind (exec E ne_body (pbind (B "o") d s))
                      (fun g => match g with GNormal s' | GRetNil s' => run_all r s' | GRet _ => Err end)
    end.

  Definition typed_views (ds : list pv) : bool :=
    forallb (fun d => match d with VI (IObj true KObject fs) => ne_typed fs | _ => false end) ds.

  Lemma pget_pset_same k v m : pget k (pset k v m) = Some v.
  Proof.
    induction m as [|[k' v'] r IH]; cbn [pset pget]; [rewrite bytes_eqb_refl; reflexivity|].
    destruct (bytes_eqb k k') eqn:Hk; cbn [pget]; [rewrite bytes_eqb_refl; reflexivity|rewrite Hk; exact IH].
  Qed.

  (* the states of the walk: i, notEmpty, and whatever else was bound *)
  Lemma run_all_ne ds : typed_views ds = true -> forall x b (t : pstate),
    exists t', run_all ds ((B "i", x) :: (v_ne, VB b) :: t) = Ok (GNormal ((B "i", x) :: (v_ne, VB (ne_after b ds)) :: t')).
  Proof.
    induction ds as [|d r IH]; intros Ht x b t.
    - exists t. reflexivity.
    - cbn [typed_views forallb] in Ht. apply andb_prop in Ht. destruct Ht as [Hd Hr].
      assert (Hex : exists fs, d = VI (IObj true KObject fs) /\ ne_typed fs = true).
      { destruct d as [i|?|?|?|?|?|? ?|?|? ? ?| |?]; try discriminate Hd.
        destruct i as [| | |p k fs| |]; try discriminate Hd. destruct p; [|discriminate Hd].
        destruct k; try discriminate Hd. exists fs. split; [reflexivity|exact Hd]. }
      destruct Hex as [fs [-> Hfs]]. clear Hd. rename Hfs into Hd.
      assert (Hstep : exec E ne_body (pbind (B "o") (VI (IObj true KObject fs)) ((B "i", x) :: (v_ne, VB b) :: t))
                      = Ok (GRetNil ((B "i", x) :: (v_ne, VB (JsonDec.obj_not_empty fs)) :: pset (B "o") (VI (IObj true KObject fs)) t))).
      { change (pbind (B "o") (VI (IObj true KObject fs)) ((B "i", x) :: (v_ne, VB b) :: t))
          with ((B "i", x) :: (v_ne, VB b) :: pset (B "o") (VI (IObj true KObject fs)) t).
        unfold ne_body. cbn [pblk fold_right exec]. 
        change (pget v_ne ((B "i", x) :: (v_ne, VB b) :: pset (B "o") (VI (IObj true KObject fs)) t)) with (Some (VB b)).
        unfold arg1. cbn [ev evl].
        change (pget (B "o") ((B "i", x) :: (v_ne, VB b) :: pset (B "o") (VI (IObj true KObject fs)) t))
          with (pget (B "o") (pset (B "o") (VI (IObj true KObject fs)) t)).
        rewrite pget_pset_same. cbn [obind].
        change (leaf_func (B "notEmptyObject") [VI (IObj true KObject fs)]) with (@None (outcome pv)).
        cbv beta iota. rewrite HO by exact Hd. reflexivity. }
      cbn [run_all]. rewrite Hstep. cbn [obind].
      destruct (IH Hr x (JsonDec.obj_not_empty fs) (pset (B "o") (VI (IObj true KObject fs)) t)) as [t' Hrun].
      exists t'. rewrite Hrun. reflexivity.
  Qed.

  Ltac lits_in H :=
    cbv [m_GetType m_IsLink m_IsCollection m_GetLink] in H;
    repeat match type of H with context [B ?x] => let y := eval vm_compute in (B x) in change (B x) with y in H end.
  Ltac runv := repeat (progress (cbn -[on_view tl_contains is_nil walk_views]; unfold ev_bool, arg1, e_it, e_i, e_gettype)).

  Lemma not_empty_list p lo : is_nil (IItems p lo) = false -> views_typed (IItems p lo) = true ->
    run_pfn E m_not_empty None [VI (IItems p lo)] = Ok (VB (ne_list_spec (IItems p lo))).
  Proof.
    intros H Ht. destruct (HGT (IItems p lo) _ eq_refl) as [v [Hv Hs]].
    pose proof (HIL (IItems p lo) false eq_refl) as Hl.
    assert (Hc : pe_dyn E m_IsCollection (IItems p lo) [] = Some (Ok (VB true))) by (apply HIC; [discriminate|intros k; discriminate]).
    assert (Hview : on_view (B "OnCollectionIntf") (IItems p lo) = PwRun (VI (IItems true lo))).
    { destruct p, lo as [l|]; try discriminate H; reflexivity. }
    assert (Hwalk : on_view (B "OnObject") (IItems p lo) = PwRunAll (fst (walk_views KObject (IItems p lo)))) by reflexivity.
    unfold ne_list_spec, views_typed in *.
    set (ds := fst (walk_views KObject (IItems p lo))) in *. clearbody ds.
    lits_in Hv. lits_in Hl. lits_in Hc. lits_in Hview. lits_in Hwalk.
    unfold run_pfn. runv. rewrite HN, H. runv. rewrite HI. runv. rewrite Hc. runv.
    rewrite HV, Hview. runv.
    rewrite Hv. runv. rewrite Hs. runv.
    replace (tl_contains _ collection_of_items) with false by (vm_compute; reflexivity). runv.
    replace (tl_contains _ collection_of_items) with false by (vm_compute; reflexivity). runv.
    rewrite Hl. runv. rewrite HV, Hwalk.
    destruct (run_all_ne ds Ht (VI (IItems p lo)) true [(B "c", VI (IItems true lo))]) as [t' Hrun].
    cbv iota.
    match goal with |- context [?F ds ?S] =>
      lazymatch type of F with list pv -> pstate -> outcome psignal =>
        assert (Heq : forall l s, F l s = run_all l s)
      end
    end.
    { induction l as [|d r IH]; intro s; [reflexivity|].
      cbn [run_all]. cbn fix. cbv beta iota.
      match goal with |- obind ?a ?f = obind ?b ?g => change a with b; destruct b as [g0| | |]; try reflexivity end.
    }
    rewrite Heq.
    match goal with |- context [run_all ds ?S] =>
      replace (run_all ds S)
        with (Ok (GNormal ((B "i", VI (IItems p lo)) :: (v_ne, VB (ne_after true ds)) :: t'))) by (symmetry; exact Hrun)
    end.
    reflexivity.
  Qed.
End NotEmptyList.

(* ---------------------------------------------------------------- the closure of a table that satisfies the condition *)
Local Ltac in_list := repeat (try (left; reflexivity); right).

Section ListClosure.
  Variable tbl : list pfn.
  Hypothesis Hok : pred_table_ok tbl = true.

  Theorem not_empty_list_tie p lo : is_nil (IItems p lo) = false -> views_typed (IItems p lo) = true ->
    sem_pred tbl (B "NotEmpty") (IItems p lo) = Ok (ne_list_spec (IItems p lo)).
  Proof.
    intros Hn Ht. unfold sem_pred, sem_func, pred_depth. rewrite func_at.
    assert (H : pfn_named tbl (pf_name m_not_empty) = Some m_not_empty) by (apply (named tbl Hok); vm_compute; in_list).
    change (pf_name m_not_empty) with (B "NotEmpty") in H. rewrite H.
    cbn [ocall].
    rewrite (not_empty_list _ (on_at tbl 5) (lvl_is_nil tbl Hok 2) (lvl_is_iri tbl Hok 4)
               (lvl_get_type tbl Hok 4) (lvl_is_collection tbl Hok 4) (lvl_meth_is_link tbl Hok 4) (lvl_ne_object tbl Hok 4) p lo Hn Ht).
    reflexivity.
  Qed.

  (* a list of nil-like members (untyped nil, typed nil pointers of any kind), in value or pointer form: TRUE *)
  Theorem not_empty_nil_members_tie p l : forallb nil_like l = true ->
    sem_pred tbl (B "NotEmpty") (IItems p (Some l)) = Ok true.
  Proof.
    intro H. rewrite not_empty_list_tie.
    - unfold ne_list_spec. rewrite (walk_nil_like KObject p l H). reflexivity.
    - destruct p; reflexivity.
    - unfold views_typed. rewrite (walk_nil_like KObject p l H). reflexivity.
  Qed.

  Theorem not_empty_nil_like_tie i : nil_like i = true -> sem_pred tbl (B "NotEmpty") i = Ok false.
  Proof. intro H. apply (not_empty_nil_tie tbl Hok). apply nil_like_is_nil. exact H. Qed.
End ListClosure.

Section DerefClosure.
  Variable tbl : list pfn.
  Hypothesis Hok : deref_table_ok tbl = true.

  Lemma deref_pred_ok : pred_table_ok tbl = true.
  Proof. unfold deref_table_ok in Hok. apply andb_prop in Hok. tauto. Qed.
  Lemma deref_named m : In m deref_fns -> pfn_named tbl (pf_name m) = Some m.
  Proof.
    intro Hin. unfold deref_table_ok in Hok. apply andb_prop in Hok. destruct Hok as [_ H].
    rewrite forallb_forall in H. apply fn_matches_spec. apply H. exact Hin.
  Qed.

  Theorem deref_tie i : is_iris i = false -> as_item (sem_func tbl (B "DerefItem") [VI i]) = deref_spec i.
  Proof.
    intro Hi. unfold sem_func, pred_depth. rewrite func_at.
    assert (H : pfn_named tbl (pf_name m_deref_item) = Some m_deref_item) by (apply deref_named; vm_compute; in_list).
    change (pf_name m_deref_item) with (B "DerefItem") in H. rewrite H. cbn [ocall].
    apply deref_model;
      [apply on_at|apply (lvl_is_nil tbl deref_pred_ok 2)|apply (lvl_is_iris tbl deref_pred_ok 4)
      |apply (lvl_is_item_collection tbl deref_pred_ok 3)| |exact Hi].
    intro lo. rewrite meth_at. unfold static_call.
    assert (H2 : pfn_named tbl (pf_name m_ptr_collection) = Some m_ptr_collection) by (apply deref_named; vm_compute; in_list).
    change (pf_name m_ptr_collection) with (B "*ItemCollection.Collection") in H2. rewrite H2. reflexivity.
  Qed.

  (* nil-like items: the nil list, no panic *)
  Theorem deref_nil_like_tie i : nil_like i = true -> as_item (sem_func tbl (B "DerefItem") [VI i]) = Ok (IItems false None).
  Proof.
    intro H. rewrite deref_tie by (destruct i; try discriminate H; reflexivity).
    unfold deref_spec. rewrite (nil_like_is_nil i H). reflexivity.
  Qed.
  (* a list, whatever its members (nil-like ones included), value or pointer form: the members as they are *)
  Theorem deref_list_tie p l : as_item (sem_func tbl (B "DerefItem") [VI (IItems p (Some l))]) = Ok (IItems false (Some l)).
  Proof. rewrite deref_tie by reflexivity. destruct p; reflexivity. Qed.
  (* never a panic outside IRI lists *)
  Theorem deref_never_panics i : is_iris i = false -> exists r, as_item (sem_func tbl (B "DerefItem") [VI i]) = Ok r.
  Proof.
    intro Hi. rewrite deref_tie by exact Hi. unfold deref_spec.
    destruct (is_nil i); [eexists; reflexivity|]. destruct i; try discriminate Hi; eexists; reflexivity.
  Qed.
End DerefClosure.
