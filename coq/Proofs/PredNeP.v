(* NotEmpty and its helpers (helpers.go) from the generated table = the hand-written obj_not_empty / not_empty of
   Model/JsonDec.v (what JSONLoadItem applies to a freshly loaded value), for every table satisfying pred_table_ok.
   Domain: property lists whose entries hold values of the Go type of their field (ne_typed), and - for NotEmpty
   itself, whose hand-written model was written for values fresh from the loader - type names that are spelled as
   the vocabulary spells them and name the struct kind's family (ne_dom); see the comment at not_empty_tie. *)
From AP.Model Require Import Prelude Bytes Vocab Pred Layout Dispatch Equal TabEq PredTab.
From AP.Proofs Require Import NlvP TabEqP PredTabP.
From AP.Gen Require Import TypeLists.
Require AP.Model.JsonDec.

Definition fields := list (fid * fval).

(* ---------------------------------------------------------------- properties hold values of their Go types *)
Definition fval_fits (t : gotype) (v : fval) : bool :=
  match t, v with
  | TItem, FItem _ | TItems, FItems _ | TNlv, FNlv _ | TString, FStr _ | TTime, FTime _ | TDur, FDur _
  | TUint, FUint _ | TSource, FSource _ _ | TEndpoints, FEndpoints _ | TPubKey, FPubKey _ _ _ => true
  | _, _ => false
  end.
Definition fits (t : gotype) (f : fid) (fs : fields) : bool :=
  match getf f fs with Some v => fval_fits t v | None => true end.

(* the properties the notEmpty family reads, with the Go types the source gives them: collected from the statement
   sequences of Model/PredTab.v *)
Fixpoint reads_e (e : pexp) : list (fid * gotype) :=
  match e with
  | EField x f t => (f, t) :: reads_e x
  | EIsNil _ x | ENot x | ELen x | ESub x _ | EConv _ x | EDeref x | EIndex x _ | ELit1 _ x | ETypeIn _ x | ECall _ x => reads_e x
  | EAnd x y | EOr x y | EEq x y | EGt x y | EAdd x y | EArg x y => reads_e x ++ reads_e y
  | EDyn _ r x | EMeth _ r x => reads_e r ++ reads_e x
  | _ => []
  end.
Fixpoint reads_s (s : pstmt) : list (fid * gotype) :=
  match s with
  | PSeq a b => reads_s a ++ reads_s b
  | PReturn e | PDecl _ e | PSet _ e | PAssert _ _ _ e => reads_e e
  | PIf c t e => reads_e c ++ reads_s t ++ reads_s e
  | PSwitch _ e c => reads_e e ++ reads_s c
  | PCase _ b r => reads_s b ++ reads_s r
  | PDefault b => reads_s b
  | POn _ a _ b => reads_e a ++ reads_s b
  | _ => []
  end.
Definition ne_fields : list (fid * gotype) := Eval vm_compute in
  flat_map (fun f => reads_s (pf_body f)) [m_ne_object; m_ne_link; m_ne_intransitive; m_ne_activity; m_ne_actor].
Definition ne_typed (fs : fields) : bool := forallb (fun ft => fits (snd ft) (fst ft) fs) ne_fields.

Lemma ne_typed_fits fs : ne_typed fs = true -> forall f t, In (f, t) ne_fields -> fits t f fs = true.
Proof. unfold ne_typed. rewrite forallb_forall. intros H f t Hin. exact (H (f, t) Hin). Qed.

(* ---------------------------------------------------------------- the clauses of the hand-written functions *)
(* `len(x.F) > 0`, `x.F != 0`, `!x.F.IsZero()`: the property is set *)
Definition sset (f : fid) (fs : fields) : bool :=
  match getf f fs with Some v => negb (fval_is_zero v) | None => false end.
(* `x.F != nil` on an item, an item list, language values: an empty non-nil list counts *)
Definition nnv (f : fid) (fs : fields) : bool :=
  match getf f fs with
  | Some (FItems (Some _)) | Some (FNlv (Some _)) => true
  | Some (FItem i) => match i with INil => false | _ => true end
  | _ => false
  end.
(* the same test as JsonDec.not_empty writes it (pointer to Endpoints included) *)
Definition nnw (f : fid) (fs : fields) : bool :=
  match getf f fs with
  | Some (FItem INil) | None => false
  | Some (FItems None) | Some (FNlv None) | Some (FEndpoints None) => false
  | Some _ => true
  end.
Definition src_set (fs : fields) : bool :=
  match getf F_Source fs with
  | Some (FSource mt c) => negb (match mt with [] => true | _ => false end) || match c with Some _ => true | None => false end
  | _ => false
  end.

Lemma obj_not_empty_unfold fs :
  JsonDec.obj_not_empty fs =
  (sset F_ID fs || sset F_Type fs || nnv F_Content fs || nnv F_Attachment fs || nnv F_AttributedTo fs || nnv F_Audience fs
   || nnv F_BCC fs || nnv F_Bto fs || nnv F_CC fs || nnv F_Context fs || JsonDec.notempty_dur (get_dur F_Duration fs)
   || sset F_EndTime fs || nnv F_Generator fs || nnv F_Icon fs || nnv F_Image fs || nnv F_InReplyTo fs || nnv F_Likes fs
   || nnv F_Location fs || sset F_MediaType fs || nnv F_Name fs || nnv F_Preview fs || sset F_Published fs
   || nnv F_Replies fs || nnv F_Shares fs || src_set fs || sset F_StartTime fs || nnv F_Summary fs || nnv F_Tag fs
   || nnv F_To fs || sset F_Updated fs || nnv F_URL fs).
Proof. reflexivity. Qed.

(* ---------------------------------------------------------------- evaluation of one clause *)
Lemma ltb_0_of_nat n : (Z.of_nat 0 <? Z.of_nat n)%Z = negb (Nat.eqb n 0).
Proof. destruct n; reflexivity. Qed.

Section Clauses.
  Variable E : penv.
  Variable s : pstate.
  Variable x : var.
  Variables (p : bool) (k : kind) (fs : fields).
  Hypothesis Hx : pget x s = Some (VI (IObj p k fs)).

  Lemma ev_field f t : ev E s (EField (EVar x) f t) = match field_val t f fs with Some v => Ok v | None => Err end.
  Proof. cbn [ev]. rewrite Hx. reflexivity. Qed.

  Lemma ev_set_str f : fits TString f fs = true -> ev E s (set_str (EVar x) f) = Ok (VB (sset f fs)).
  Proof.
    intro H. unfold set_str. cbn [ev]. rewrite Hx. cbn -[Z.of_nat]. rewrite ltb_0_of_nat.
    unfold fits in H. unfold get_str, sset. destruct (getf f fs) as [[]|]; try discriminate; try reflexivity.
    destruct s0; reflexivity.
  Qed.
  Lemma ev_nn_item f : fits TItem f fs = true -> ev E s (nn_item (EVar x) f) = Ok (VB (nnv f fs)).
  Proof.
    intro H. unfold nn_item. cbn [ev]. rewrite Hx. cbn.
    unfold fits in H. unfold get_item, nnv. destruct (getf f fs) as [[]|]; try discriminate; try reflexivity.
    destruct i; reflexivity.
  Qed.
  Lemma ev_nn_items f : fits TItems f fs = true -> ev E s (nn_items (EVar x) f) = Ok (VB (nnv f fs)).
  Proof.
    intro H. unfold nn_items. cbn [ev]. rewrite Hx. cbn.
    unfold fits in H. unfold get_items, nnv. destruct (getf f fs) as [[]|]; try discriminate; try reflexivity.
    destruct l; reflexivity.
  Qed.
  Lemma ev_nn_nlv f : fits TNlv f fs = true -> ev E s (nn_nlv (EVar x) f) = Ok (VB (nnv f fs)).
  Proof.
    intro H. unfold nn_nlv. cbn [ev]. rewrite Hx. cbn.
    unfold fits in H. unfold get_nlv, nnv. destruct (getf f fs) as [[]|]; try discriminate; try reflexivity.
    destruct l; reflexivity.
  Qed.
  Lemma ev_set_time f : fits TTime f fs = true -> ev E s (set_time (EVar x) f) = Ok (VB (sset f fs)).
  Proof.
    intro H. unfold set_time. cbn [ev evl]. rewrite Hx. cbn.
    unfold fits in H. unfold get_time, sset. destruct (getf f fs) as [[]|]; try discriminate; reflexivity.
  Qed.
  Lemma ev_dur : fits TDur F_Duration fs = true ->
    ev E s (ENot (EEq (EField (EVar x) F_Duration TDur) (EInt 0))) = Ok (VB (JsonDec.notempty_dur (get_dur F_Duration fs))).
  Proof. intros _. cbn [ev]. rewrite Hx. reflexivity. Qed.
  Lemma ev_src_mt : fits TSource F_Source fs = true ->
    ev E s (ENot (EEq (ESub (EField (EVar x) F_Source TSource) (B "MediaType")) (EStr [])))
    = Ok (VB (match getf F_Source fs with Some (FSource mt _) => negb (match mt with [] => true | _ => false end) | _ => false end)).
  Proof.
    intro H. cbn [ev]. rewrite Hx. cbn. unfold fits in H.
    destruct (getf F_Source fs) as [[]|]; try discriminate; try reflexivity. destruct mt; reflexivity.
  Qed.
  Lemma ev_src_c : fits TSource F_Source fs = true ->
    ev E s (ENot (EIsNil NSlice (ESub (EField (EVar x) F_Source TSource) (B "Content"))))
    = Ok (VB (match getf F_Source fs with Some (FSource _ (Some _)) => true | _ => false end)).
  Proof.
    intro H. cbn [ev]. rewrite Hx. cbn. unfold fits in H.
    destruct (getf F_Source fs) as [[]|]; try discriminate; try reflexivity. destruct c; reflexivity.
  Qed.
  Lemma ev_type_in l tl : type_list l = Some tl ->
    ev E s (ETypeIn l (EField (EVar x) F_Type TString)) = Ok (VB (tl_contains tl (get_str F_Type fs))).
  Proof. intro H. cbn [ev]. rewrite H, Hx. reflexivity. Qed.
  Lemma ev_uint f : fits TUint f fs = true -> ev E s (EGt (EField (EVar x) f TUint) (EInt 0)) = Ok (VB (sset f fs)).
  Proof.
    intro H. cbn [ev]. rewrite Hx. cbn. unfold fits in H. unfold get_uint, sset.
    destruct (getf f fs) as [[]|]; try discriminate; try reflexivity. destruct n; reflexivity.
  Qed.
  Lemma ev_endpoints : fits TEndpoints F_Endpoints fs = true ->
    ev E s (ENot (EIsNil NPtr (EField (EVar x) F_Endpoints TEndpoints)))
    = Ok (VB (match getf F_Endpoints fs with Some (FEndpoints (Some _)) => true | _ => false end)).
  Proof.
    intro H. cbn [ev]. rewrite Hx. cbn. unfold fits in H.
    destruct (getf F_Endpoints fs) as [[]|]; try discriminate; try reflexivity. destruct e; reflexivity.
  Qed.
  Lemma ev_pubkey : fits TPubKey F_PublicKey fs = true ->
    ev E s (EGt (EAdd (EAdd (ELen (ESub (EField (EVar x) F_PublicKey TPubKey) (B "ID")))
                            (ELen (ESub (EField (EVar x) F_PublicKey TPubKey) (B "Owner"))))
                      (ELen (ESub (EField (EVar x) F_PublicKey TPubKey) (B "PublicKeyPem")))) (EInt 0))
    = Ok (VB (match getf F_PublicKey fs with Some (FPubKey [] [] []) | None => false | Some _ => true end)).
  Proof.
    intro H. cbn [ev]. rewrite Hx. cbn -[Z.of_nat Z.add]. unfold fits in H.
    destruct (getf F_PublicKey fs) as [[]|]; try discriminate; try reflexivity.
    cbn -[Z.of_nat Z.add]. rewrite <- !Nat2Z.inj_add, ltb_0_of_nat.
    destruct id, owner, pem; reflexivity.
  Qed.

  (* a chain a || b || c ... of clauses that all evaluate *)
  Lemma ev_or a b va vb : ev E s a = Ok (VB va) -> ev E s b = Ok (VB vb) -> ev E s (EOr a b) = Ok (VB (va || vb)).
  Proof. intros Ha Hb. cbn [ev]. rewrite Ha. cbn [obind]. destruct va; [reflexivity|]. rewrite Hb. reflexivity. Qed.
  Lemma ev_fold_or es : forall a va bs, ev E s a = Ok (VB va) ->
    Forall2 (fun e b => ev E s e = Ok (VB b)) es bs ->
    ev E s (fold_left EOr es a) = Ok (VB (fold_left orb bs va)).
  Proof.
    induction es as [|e es IH]; intros a va bs Ha HF; inversion HF; subst; [exact Ha|].
    cbn [fold_left]. apply IH; [|assumption]. apply ev_or; assumption.
  Qed.
End Clauses.

(* ---------------------------------------------------------------- the helpers, in any environment *)
Local Ltac in_list := repeat (try (left; reflexivity); right).

Lemma exec_guard_ret E c e s : ev E s c = Ok (VB false) -> forall v, ev E s e = Ok v ->
  exec E (pblk [PIf c (pblk [PReturn (EBool false)]) PSkip; PReturn e]) s = Ok (GRet v).
Proof. intros Hc v He. cbn [pblk fold_right exec]. unfold ev_bool. rewrite Hc. cbn [obind exec]. rewrite He. reflexivity. Qed.

Lemma act_absorb fs : fits TString F_Type fs = true ->
  sset F_Type fs || tl_contains tl_ActivityTypes (get_str F_Type fs) = sset F_Type fs.
Proof.
  unfold fits, sset, get_str. destruct (getf F_Type fs) as [[| | |s| | | | | | | | |]|]; try discriminate; intros _; try reflexivity.
  destruct s; [vm_compute|]; reflexivity.
Qed.
Lemma src_join fs :
  (match getf F_Source fs with Some (FSource mt _) => negb (match mt with [] => true | _ => false end) | _ => false end)
  || (match getf F_Source fs with Some (FSource _ (Some _)) => true | _ => false end) = src_set fs.
Proof. unfold src_set. destruct (getf F_Source fs) as [[]|]; reflexivity. Qed.

Ltac clause Hf :=
  first [ eapply ev_set_str | eapply ev_nn_item | eapply ev_nn_items | eapply ev_nn_nlv | eapply ev_set_time | eapply ev_dur
        | eapply ev_src_mt | eapply ev_src_c | eapply ev_uint | eapply ev_endpoints | eapply ev_pubkey
        | eapply ev_type_in ];
  [apply pget_same | first [ (apply Hf; vm_compute; in_list) | (vm_compute; reflexivity) ] ].

Section NeFuncs.
  Variable E : penv.

  (* notEmptyObject(o): a nil pointer is empty *)
  Lemma ne_object_nil k : run_pfn E m_ne_object None [VI (ITNil k)] = Ok (VB false).
  Proof. reflexivity. Qed.

  Lemma ne_object_model k fs : ne_typed fs = true ->
    run_pfn E m_ne_object None [VI (IObj true k fs)] = Ok (VB (JsonDec.obj_not_empty fs)).
  Proof.
    intro Ht. pose proof (ne_typed_fits fs Ht) as Hf.
    unfold run_pfn. cbn [pf_recv pf_params pf_body m_ne_object bind_all].
    change (pbind (B "o") (VI (IObj true k fs)) []) with [(B "o", VI (IObj true k fs))].
    erewrite exec_guard_ret; [reflexivity|reflexivity|].
    unfold object_clauses, ors.
    erewrite (ev_fold_or E); [| clause Hf | repeat (constructor; [clause Hf|]); constructor].
    f_equal. f_equal. rewrite obj_not_empty_unfold. cbn [fold_left].
    rewrite <- !orb_assoc.
    rewrite (orb_assoc (sset F_Type fs)), act_absorb by (apply Hf; vm_compute; in_list).
    repeat (f_equal; []).
    rewrite orb_assoc, src_join. reflexivity.
  Qed.

  (* notEmptyLink(l) *)
  Definition link_ne (fs : fields) : bool :=
    sset F_ID fs || tl_contains tl_LinkTypes (get_str F_Type fs) || sset F_MediaType fs || nnv F_Preview fs || nnv F_Name fs
    || sset F_Href fs || sset F_Rel fs || sset F_HrefLang fs || sset F_Height fs || sset F_Width fs.
  Lemma ne_link_model k fs : ne_typed fs = true ->
    run_pfn E m_ne_link None [VI (IObj true k fs)] = Ok (VB (link_ne fs)).
  Proof.
    intro Ht. pose proof (ne_typed_fits fs Ht) as Hf.
    unfold run_pfn. cbn [pf_recv pf_params pf_body m_ne_link bind_all].
    change (pbind (B "l") (VI (IObj true k fs)) []) with [(B "l", VI (IObj true k fs))].
    cbn [pblk fold_right exec]. unfold ors.
    erewrite (ev_fold_or E); [| clause Hf | repeat (constructor; [clause Hf|]); constructor].
    reflexivity.
  Qed.

  Definition ne_object_answers : Prop := forall k fs, ne_typed fs = true ->
    pe_func E (B "notEmptyObject") [VI (IObj true k fs)] = Some (Ok (VB (JsonDec.obj_not_empty fs))).

  Lemma on_view_object p k fs :
    on_view (B "OnObject") (IObj p k fs) = if Equal.cast_ok KObject k then PwRun (VI (IObj true KObject fs)) else PwSkip.
  Proof. reflexivity. Qed.
  Lemma on_view_intransitive p k fs :
    on_view (B "OnIntransitiveActivity") (IObj p k fs)
    = if Equal.cast_ok KIntransitive k then PwRun (VI (IObj true KIntransitive fs)) else PwSkip.
  Proof. reflexivity. Qed.
  Lemma on_view_activity p k fs :
    on_view (B "OnActivity") (IObj p k fs) = if Equal.cast_ok KActivity k then PwRun (VI (IObj true KActivity fs)) else PwSkip.
  Proof. reflexivity. Qed.
  Lemma on_view_actor p k fs :
    on_view (B "OnActor") (IObj p k fs) = if Equal.cast_ok KActor k then PwRun (VI (IObj true KActor fs)) else PwSkip.
  Proof. reflexivity. Qed.
  Lemma on_view_link p k fs :
    on_view (B "OnLink") (IObj p k fs) = if Equal.cast_ok KLink k then PwRun (VI (IObj true KLink fs)) else PwSkip.
  Proof. reflexivity. Qed.

  Lemma exec_decl x e rest s v : ev E s e = Ok v -> exec E (PSeq (PDecl x e) rest) s = exec E rest (pbind x v s).
  Proof. intro H. cbn [exec]. rewrite H. reflexivity. Qed.

  Lemma exec_seq_normal a b s s' : exec E a s = Ok (GNormal s') -> exec E (PSeq a b) s = exec E b s'.
  Proof. intro H. cbn [exec]. rewrite H. reflexivity. Qed.

  Ltac runv := repeat (progress (cbn -[on_view JsonDec.obj_not_empty Equal.cast_ok tl_contains sset nnv];
                                 unfold ev_bool, arg1, e_it, e_i, e_o, e_a, e_l)).

  (* notEmptyInstransitiveActivity(i) on a pointer whose Object view exists *)
  Definition intr_ne (fs : fields) : bool :=
    nnv F_Actor fs || nnv F_Target fs || nnv F_Result fs || nnv F_Origin fs || nnv F_Instrument fs.
  Lemma ne_intransitive_model : on_answers E -> ne_object_answers ->
    forall k fs, ne_typed fs = true -> Equal.cast_ok KObject k = true ->
    run_pfn E m_ne_intransitive None [VI (IObj true k fs)] = Ok (VB (intr_ne fs || JsonDec.obj_not_empty fs)).
  Proof.
    intros HV HO k fs Ht Hc. pose proof (ne_typed_fits fs Ht) as Hf.
    unfold run_pfn. cbn [pf_recv pf_params pf_body m_ne_intransitive bind_all].
    change (pbind (B "i") (VI (IObj true k fs)) []) with [(B "i", VI (IObj true k fs))].
    cbn [pblk fold_right].
    erewrite exec_decl;
      [|unfold ors; erewrite (ev_fold_or E); [reflexivity| clause Hf | repeat (constructor; [clause Hf|]); constructor]].
    cbn [fold_left]. fold (intr_ne fs). destruct (intr_ne fs); [reflexivity|].
    runv. rewrite HV, on_view_object, Hc. runv. rewrite HO by exact Ht. reflexivity.
  Qed.

  Definition ne_intransitive_answers : Prop := forall k fs, ne_typed fs = true -> Equal.cast_ok KObject k = true ->
    pe_func E (B "notEmptyInstransitiveActivity") [VI (IObj true k fs)] = Some (Ok (VB (intr_ne fs || JsonDec.obj_not_empty fs))).

  (* notEmptyActivity(a) *)
  Lemma ne_activity_model : on_answers E -> ne_intransitive_answers ->
    forall fs, ne_typed fs = true ->
    run_pfn E m_ne_activity None [VI (IObj true KActivity fs)]
    = Ok (VB (intr_ne fs || JsonDec.obj_not_empty fs || nnv F_Object fs)).
  Proof.
    intros HV HI fs Ht. pose proof (ne_typed_fits fs Ht) as Hf.
    unfold run_pfn. cbn [pf_recv pf_params pf_body m_ne_activity bind_all].
    change (pbind (B "a") (VI (IObj true KActivity fs)) []) with [(B "a", VI (IObj true KActivity fs))].
    cbn [pblk fold_right].
    erewrite exec_seq_normal by reflexivity.
    erewrite exec_seq_normal;
      [|runv; rewrite HV, on_view_intransitive; cbn [Equal.cast_ok]; runv; rewrite HI by (exact Ht || reflexivity); reflexivity].
    cbn [exec]. erewrite (ev_or E); [reflexivity|reflexivity|clause Hf].
  Qed.

  (* notEmptyActor(a) *)
  Definition actor_ne (fs : fields) : bool :=
    nnv F_Inbox fs || nnv F_Outbox fs || nnv F_Following fs || nnv F_Followers fs || nnv F_Liked fs
    || nnv F_PreferredUsername fs || match getf F_Endpoints fs with Some (FEndpoints (Some _)) => true | _ => false end
    || nnv F_Streams fs || match getf F_PublicKey fs with Some (FPubKey [] [] []) | None => false | Some _ => true end.
  Lemma fold_orb_assoc l : forall a b, fold_left orb l (a || b) = a || fold_left orb l b.
  Proof. induction l as [|x l IH]; intros a b; cbn [fold_left]; [reflexivity|]. rewrite <- orb_assoc. apply IH. Qed.
  Lemma ne_actor_model : on_answers E -> ne_object_answers ->
    forall fs, ne_typed fs = true ->
    run_pfn E m_ne_actor None [VI (IObj true KActor fs)] = Ok (VB (JsonDec.obj_not_empty fs || actor_ne fs)).
  Proof.
    intros HV HO fs Ht. pose proof (ne_typed_fits fs Ht) as Hf.
    unfold run_pfn. cbn [pf_recv pf_params pf_body m_ne_actor bind_all].
    change (pbind (B "a") (VI (IObj true KActor fs)) []) with [(B "a", VI (IObj true KActor fs))].
    cbn [pblk fold_right].
    erewrite exec_seq_normal by reflexivity.
    erewrite exec_seq_normal;
      [|runv; rewrite HV, on_view_object; cbn [Equal.cast_ok]; runv; rewrite HO by exact Ht; reflexivity].
    cbn [exec]. unfold ors.
    erewrite (ev_fold_or E); [| reflexivity | repeat (constructor; [clause Hf|]); constructor].
    cbn [fold_left]. unfold actor_ne. rewrite <- !orb_assoc. reflexivity.
  Qed.
End NeFuncs.

(* ---------------------------------------------------------------- NotEmpty *)
Definition islink_m (k : kind) (ty : bytes) : bool :=
  match k with KLink => bytes_eqb ty (B "Link") || tl_contains tl_LinkTypes ty | _ => false end.

(* the domain on which JsonDec.not_empty was written: the type name is spelled as the vocabulary spells it
   (ActivityVocabularyTypes.Contains folds case, the loader's switch does not), and a collection struct carries a
   type name that is neither empty nor an activity / actor name *)
Definition ne_dom (k : kind) (ty : bytes) : bool :=
  Bool.eqb (tl_contains tl_ActivityTypes ty) (in_list tl_ActivityTypes ty)
  && Bool.eqb (tl_contains tl_ActorTypes ty) (in_list tl_ActorTypes ty)
  && Bool.eqb (tl_contains tl_LinkTypes ty) (in_list tl_LinkTypes ty)
  && (if is_coll_kind k
      then negb (bytes_eqb ty []) && negb (in_list tl_ActivityTypes ty) && negb (in_list tl_ActorTypes ty)
      else true).

Definition not_empty_m : item -> bool := JsonDec.not_empty tl_ActivityTypes tl_ActorTypes tl_LinkTypes.

Lemma nnv_nnw t f fs : fits t f fs = true -> (t = TItem \/ t = TItems \/ t = TNlv) -> nnv f fs = nnw f fs.
Proof.
  unfold fits, nnv, nnw. intros H [Ht|[Ht|Ht]]; subst t; destruct (getf f fs) as [[i|l|l| | | | | | | | | |]|];
    try discriminate; try reflexivity; try (destruct i; reflexivity); destruct l; reflexivity.
Qed.

Section NotEmpty.
  Variable E : penv.
  Hypothesis HV : on_answers E.
  Hypothesis HN : fn_answers E (B "IsNil") is_nil.
  Hypothesis HI : fn_answers E (B "IsIRI") is_iri.
  Hypothesis HGL : getlink_answers E.
  Hypothesis HGT : forall i t, get_type i = Ok t -> exists v, pe_dyn E m_GetType i [] = Some (Ok v) /\ as_str v = Some t.
  Hypothesis HIC : forall i, i <> INil -> (forall k, i <> ITNil k) -> pe_dyn E m_IsCollection i [] = Some (Ok (VB (is_collection_m i))).
  Hypothesis HIL : forall i b, Recip.meth_is_link i = Ok b -> pe_dyn E m_IsLink i [] = Some (Ok (VB b)).
  Hypothesis HO : ne_object_answers E.
  Hypothesis HL : forall k fs, ne_typed fs = true -> pe_func E (B "notEmptyLink") [VI (IObj true k fs)] = Some (Ok (VB (link_ne fs))).
  Hypothesis HA : forall fs, ne_typed fs = true ->
    pe_func E (B "notEmptyActivity") [VI (IObj true KActivity fs)]
    = Some (Ok (VB (intr_ne fs || JsonDec.obj_not_empty fs || nnv F_Object fs))).
  Hypothesis HR : forall fs, ne_typed fs = true ->
    pe_func E (B "notEmptyActor") [VI (IObj true KActor fs)] = Some (Ok (VB (JsonDec.obj_not_empty fs || actor_ne fs))).

  Ltac lits_in H :=
    cbv [m_GetType m_IsLink m_IsCollection m_GetLink] in H;
    repeat match type of H with context [B ?x] => let y := eval vm_compute in (B x) in change (B x) with y in H end.
  Ltac fold_lists :=
    (let l := eval unfold tl_ActivityTypes in tl_ActivityTypes in change l with tl_ActivityTypes);
    (let l := eval unfold tl_ActorTypes in tl_ActorTypes in change l with tl_ActorTypes).
  Ltac runv := repeat (progress (cbn -[on_view JsonDec.obj_not_empty Equal.cast_ok tl_contains sset nnv is_nil intr_ne actor_ne link_ne];
                                 unfold ev_bool, arg1, e_it, e_i, e_o, e_a, e_l, e_gettype)).

  Definition ne_tail : pstmt :=
    PSeq (PIf (ETypeIn (B "ActivityTypes") e_gettype)
              (pblk [on_set_ne (B "OnActivity") e_i (B "a") (B "notEmptyActivity")])
         (PIf (ETypeIn (B "ActorTypes") e_gettype)
              (pblk [on_set_ne (B "OnActor") e_i (B "a") (B "notEmptyActor")])
         (PIf (EDyn (B "IsLink") e_i ENoArg)
              (pblk [on_set_ne (B "OnLink") e_i (B "l") (B "notEmptyLink")])
              (pblk [on_set_ne (B "OnObject") e_i (B "o") (B "notEmptyObject")]))))
         (PSeq (PReturn (EVar v_ne)) PSkip).

  Definition tail_val (k : kind) (fs : fields) (b0 : bool) : bool :=
    let ty := get_str F_Type fs in
    if tl_contains tl_ActivityTypes ty
    then (if Equal.cast_ok KActivity k then intr_ne fs || JsonDec.obj_not_empty fs || nnv F_Object fs else b0)
    else if tl_contains tl_ActorTypes ty
    then (if Equal.cast_ok KActor k then JsonDec.obj_not_empty fs || actor_ne fs else b0)
    else if islink_m k ty
    then (if Equal.cast_ok KLink k then link_ne fs else b0)
    else (if Equal.cast_ok KObject k then JsonDec.obj_not_empty fs else b0).

  Lemma meth_is_link_obj p k fs : Recip.meth_is_link (IObj p k fs) = Ok (islink_m k (get_str F_Type fs)).
  Proof. destruct k; reflexivity. Qed.

  Lemma ne_tail_obj p k fs b0 rest : ne_typed fs = true -> (rest = [] \/ exists c, rest = [(B "c", c)]) ->
    exec E ne_tail ((B "i", VI (IObj p k fs)) :: (v_ne, VB b0) :: rest) = Ok (GRet (VB (tail_val k fs b0))).
  Proof.
    intros Ht [Hrest|[c Hrest]]; subst rest; destruct (HGT (IObj p k fs) _ eq_refl) as [v [Hv Hs]];
    pose proof (HIL _ _ (meth_is_link_obj p k fs)) as Hl;
    lits_in Hv; lits_in Hl;
    unfold ne_tail, tail_val; cbn zeta; runv; rewrite Hv; runv; rewrite Hs; runv; fold_lists;
    (destruct (tl_contains tl_ActivityTypes (get_str F_Type fs));
     [ runv; rewrite HV, on_view_activity; destruct (Equal.cast_ok KActivity k); runv; rewrite ?HA by exact Ht; reflexivity |]);
    runv; rewrite ?Hv; runv; rewrite ?Hs; runv; fold_lists;
    (destruct (tl_contains tl_ActorTypes (get_str F_Type fs));
     [ runv; rewrite HV, on_view_actor; destruct (Equal.cast_ok KActor k); runv; rewrite ?HR by exact Ht; reflexivity |]);
    runv; rewrite ?Hl; runv;
    (destruct (islink_m k (get_str F_Type fs));
     [ runv; rewrite HV, on_view_link; destruct (Equal.cast_ok KLink k); runv; rewrite ?HL by exact Ht; reflexivity |]);
    runv; rewrite HV, on_view_object; destruct (Equal.cast_ok KObject k); runv; rewrite ?HO by exact Ht; reflexivity.
  Qed.

  Lemma on_view_collintf p k fs :
    on_view (B "OnCollectionIntf") (IObj p k fs)
    = match kind_named (get_str F_Type fs) with
      | Some d => if is_coll_kind d && Equal.cast_ok d k then PwRun (VI (IObj true d fs)) else PwSkip
      | None => PwSkip
      end.
  Proof. reflexivity. Qed.

  Lemma is_collection_m_obj p k fs : is_collection_m (IObj p k fs) = is_coll_kind k.
  Proof. destruct k; reflexivity. Qed.

  (* NotEmpty on a struct: the first four statements leave notEmpty = b0, true only for a collection struct *)
  Lemma not_empty_obj_run p k fs : ne_typed fs = true ->
    exists b0, (is_coll_kind k = false -> b0 = false) /\ 
      run_pfn E m_not_empty None [VI (IObj p k fs)] = Ok (VB (tail_val k fs b0)).
  Proof.
    intro Ht.
    assert (Hic : pe_dyn E m_IsCollection (IObj p k fs) [] = Some (Ok (VB (is_coll_kind k)))).
    { rewrite <- (is_collection_m_obj p k fs). apply HIC; [discriminate|intros k'; discriminate]. }
    lits_in Hic.
    unfold run_pfn. cbn [pf_recv pf_params pf_body m_not_empty bind_all].
    change (pbind (B "i") (VI (IObj p k fs)) []) with [(B "i", VI (IObj p k fs))].
    cbn [pblk fold_right].
    erewrite exec_seq_normal; [|runv; rewrite HN; reflexivity].
    erewrite exec_seq_normal by reflexivity.
    erewrite exec_seq_normal; [|runv; rewrite HI; reflexivity].
    cbn [pbind pset bytes_eqb Byte.eqb B list_byte_of_string v_ne blank andb].
    assert (Hst : exists (b0 : bool) rest, (is_coll_kind k = false -> b0 = false) /\ (rest = [] \/ exists c, rest = [(B "c", c)]) /\
              exec E (PIf (EDyn (B "IsCollection") e_i ENoArg)
                          (pblk [POn (B "OnCollectionIntf") e_i (B "c") (pblk [
                                   PSet v_ne (EOr (ENot (EIsNil NIface (EVar (B "c"))))
                                                  (EGt (ELen (EDyn (B "Collection") (EVar (B "c")) ENoArg)) (EInt 0)));
                                   PReturnNil])]) PSkip)
                   [(B "i", VI (IObj p k fs)); (v_ne, VB false)]
              = Ok (GNormal ((B "i", VI (IObj p k fs)) :: (v_ne, VB b0) :: rest))).
    { runv. rewrite Hic. runv. destruct (is_coll_kind k).
      - runv. rewrite HV, on_view_collintf.
        destruct (kind_named (get_str F_Type fs)) as [d|]; [destruct (is_coll_kind d && Equal.cast_ok d k)|].
        + exists true, [(B "c", VI (IObj true d fs))]. split; [discriminate|]. split; [right; eexists; reflexivity|reflexivity].
        + exists false, []. split; [reflexivity|]. split; [left; reflexivity|reflexivity].
        + exists false, []. split; [reflexivity|]. split; [left; reflexivity|reflexivity].
      - exists false, []. split; [reflexivity|]. split; [left; reflexivity|reflexivity]. }
    destruct Hst as [b0 [rest [Hb0 [Hrest Hst]]]]. exists b0. split; [exact Hb0|].
    erewrite exec_seq_normal by exact Hst.
    match goal with |- context [exec E ?c ?st] => change c with ne_tail end.
    rewrite (ne_tail_obj p k fs b0 rest Ht Hrest). reflexivity.
  Qed.
End NotEmpty.

(* ---------------------------------------------------------------- what the run computes = the hand-written model, on its domain *)
Lemma obj_ne_of_type fs : fits TString F_Type fs = true -> bytes_eqb (get_str F_Type fs) [] = false ->
  JsonDec.obj_not_empty fs = true.
Proof.
  intros Hf Hn. rewrite obj_not_empty_unfold.
  assert (Hs : sset F_Type fs = true).
  { unfold fits in Hf. unfold sset. unfold get_str in Hn. destruct (getf F_Type fs) as [[]|]; try discriminate.
    destruct s; [discriminate|reflexivity]. }
  rewrite Hs. rewrite orb_true_r. reflexivity.
Qed.

Lemma endpoints_nnw fs : fits TEndpoints F_Endpoints fs = true ->
  match getf F_Endpoints fs with Some (FEndpoints (Some _)) => true | _ => false end = nnw F_Endpoints fs.
Proof. unfold fits, nnw. destruct (getf F_Endpoints fs) as [[| | | | | | | | | | |e|]|]; try discriminate; reflexivity. Qed.

Lemma tail_val_model p k fs b0 : ne_typed fs = true -> ne_dom k (get_str F_Type fs) = true ->
  (is_coll_kind k = false -> b0 = false) -> tail_val k fs b0 = not_empty_m (IObj p k fs).
Proof.
  intros Ht Hd Hb. pose proof (ne_typed_fits fs Ht) as Hf.
  unfold ne_dom in Hd. apply andb_prop in Hd. destruct Hd as [Hd Hc]. apply andb_prop in Hd. destruct Hd as [Hd HL].
  apply andb_prop in Hd. destruct Hd as [HA HR]. apply Bool.eqb_prop in HA, HR, HL.
  assert (nn : forall f t, In (f, t) ne_fields -> (t = TItem \/ t = TItems \/ t = TNlv) -> nnv f fs = nnw f fs).
  { intros f t Hin Hty. apply (nnv_nnw t); [apply Hf; exact Hin|exact Hty]. }
  unfold tail_val, not_empty_m, JsonDec.not_empty, link_ne, islink_m. cbn [is_nil]. cbv zeta.
  rewrite HA, HR, ?HL.
  destruct k; cbn [Equal.cast_ok is_coll_kind] in *;
    try (apply andb_prop in Hc; destruct Hc as [Hc Hr']; apply andb_prop in Hc; destruct Hc as [Hn Ha'];
         apply negb_true_iff in Hn, Ha', Hr'; rewrite Ha', Hr'; apply obj_ne_of_type; [apply Hf; vm_compute; in_list|exact Hn]);
    rewrite (Hb eq_refl);
    (destruct (in_list tl_ActivityTypes (get_str F_Type fs));
     [try reflexivity | destruct (in_list tl_ActorTypes (get_str F_Type fs)); try reflexivity]).
  - (* Actor with an actor type *)
    unfold actor_ne. rewrite endpoints_nnw by (apply Hf; vm_compute; in_list).
    rewrite !(nn _ TItem) by (solve [vm_compute; in_list | tauto]).
    rewrite !(nn _ TNlv) by (solve [vm_compute; in_list | tauto]).
    rewrite !(nn _ TItems) by (solve [vm_compute; in_list | tauto]).
    rewrite <- !orb_assoc. reflexivity.
  - (* Activity with an activity type *)
    unfold intr_ne. rewrite !(nn _ TItem) by (solve [vm_compute; in_list | tauto]).
    rewrite <- !orb_assoc. reflexivity.
  - (* Link *)
    destruct (bytes_eqb (get_str F_Type fs) (B "Link") || in_list tl_LinkTypes (get_str F_Type fs)); [|reflexivity].
    rewrite !(nn _ TItem) by (solve [vm_compute; in_list | tauto]).
    rewrite !(nn _ TNlv) by (solve [vm_compute; in_list | tauto]). reflexivity.
Qed.

(* ---------------------------------------------------------------- NotEmpty on what is no struct *)
Section NotEmptyRest.
  Variable E : penv.
  Hypothesis HV : on_answers E.
  Hypothesis HN : fn_answers E (B "IsNil") is_nil.
  Hypothesis HI : fn_answers E (B "IsIRI") is_iri.
  Hypothesis HGL : getlink_answers E.
  Hypothesis HGT : forall i t, get_type i = Ok t -> exists v, pe_dyn E m_GetType i [] = Some (Ok v) /\ as_str v = Some t.
  Hypothesis HIC : forall i, i <> INil -> (forall k, i <> ITNil k) -> pe_dyn E m_IsCollection i [] = Some (Ok (VB (is_collection_m i))).
  Hypothesis HIL : forall i b, Recip.meth_is_link i = Ok b -> pe_dyn E m_IsLink i [] = Some (Ok (VB b)).

  Ltac lits_in H :=
    cbv [m_GetType m_IsLink m_IsCollection m_GetLink] in H;
    repeat match type of H with context [B ?x] => let y := eval vm_compute in (B x) in change (B x) with y in H end.
  Ltac runv := repeat (progress (cbn -[on_view tl_contains is_nil]; unfold ev_bool, arg1, e_it, e_i, e_gettype)).

  (* the nil item, typed nil pointers, the empty and the "-" IRI, nil lists *)
  Lemma not_empty_nil_like i : is_nil i = true -> run_pfn E m_not_empty None [VI i] = Ok (VB false).
  Proof. intro H. unfold run_pfn. runv. rewrite HN, H. reflexivity. Qed.

  Lemma not_empty_iri p s : is_nil (IIri p s) = false ->
    run_pfn E m_not_empty None [VI (IIri p s)] = Ok (VB (negb (match s with [] => true | _ => false end))).
  Proof.
    intro H. destruct (HGT (IIri p s) _ eq_refl) as [v [Hv Hs]].
    pose proof (HIL (IIri p s) true eq_refl) as Hl.
    assert (Hc : pe_dyn E m_IsCollection (IIri p s) [] = Some (Ok (VB false))) by (apply HIC; [discriminate|intros k; discriminate]).
    pose proof (HGL p s) as Hg.
    lits_in Hv. lits_in Hl. lits_in Hc. lits_in Hg.
    unfold run_pfn. runv. rewrite HN, H. runv. rewrite HI. runv. rewrite Hg. runv. rewrite Hc. runv.
    rewrite Hv. runv. rewrite Hs. runv.
    replace (tl_contains _ iri_type) with false by (vm_compute; reflexivity). runv.
    replace (tl_contains _ iri_type) with false by (vm_compute; reflexivity). runv.
    rewrite Hl. runv. rewrite HV.
    replace (on_view _ (IIri p s)) with PwSkip by (destruct p; reflexivity).
    runv. destruct s; reflexivity.
  Qed.
End NotEmptyRest.

(* ---------------------------------------------------------------- the closure of a table that satisfies the condition *)
Lemma as_bool_ok o b : as_bool o = Ok b -> o = Ok (VB b).
Proof. destruct o as [v| | |]; try discriminate. destruct v; try discriminate. simpl. intro H. inversion H. reflexivity. Qed.

Section NeClosure.
  Variable tbl : list pfn.
  Hypothesis Hok : pred_table_ok tbl = true.

  Ltac level m :=
    rewrite func_at;
    let H := fresh "H" in
    assert (H : pfn_named tbl (pf_name m) = Some m) by (apply (named tbl Hok); vm_compute; in_list);
    match type of H with pfn_named tbl ?n = _ =>
      match goal with |- context [pfn_named tbl ?n'] => change n' with n end
    end;
    rewrite H; f_equal.

  Lemma lvl_ne_object n : ne_object_answers (env_at tbl (S n)).
  Proof. intros k fs Ht. level m_ne_object. apply ne_object_model. exact Ht. Qed.
  Lemma lvl_ne_link n k fs : ne_typed fs = true ->
    pe_func (env_at tbl (S n)) (B "notEmptyLink") [VI (IObj true k fs)] = Some (Ok (VB (link_ne fs))).
  Proof. intro Ht. level m_ne_link. apply ne_link_model. exact Ht. Qed.
  Lemma lvl_ne_intransitive n : ne_intransitive_answers (env_at tbl (S (S n))).
  Proof.
    intros k fs Ht Hc. level m_ne_intransitive.
    apply ne_intransitive_model; [apply on_at|apply lvl_ne_object|exact Ht|exact Hc].
  Qed.
  Lemma lvl_ne_activity n fs : ne_typed fs = true ->
    pe_func (env_at tbl (S (S (S n)))) (B "notEmptyActivity") [VI (IObj true KActivity fs)]
    = Some (Ok (VB (intr_ne fs || JsonDec.obj_not_empty fs || nnv F_Object fs))).
  Proof. intro Ht. level m_ne_activity. apply ne_activity_model; [apply on_at|apply lvl_ne_intransitive|exact Ht]. Qed.
  Lemma lvl_ne_actor n fs : ne_typed fs = true ->
    pe_func (env_at tbl (S (S n))) (B "notEmptyActor") [VI (IObj true KActor fs)]
    = Some (Ok (VB (JsonDec.obj_not_empty fs || actor_ne fs))).
  Proof. intro Ht. level m_ne_actor. apply ne_actor_model; [apply on_at|apply lvl_ne_object|exact Ht]. Qed.

  Lemma lvl_get_type n i t : get_type i = Ok t ->
    exists v, pe_dyn (env_at tbl (S n)) m_GetType i [] = Some (Ok v) /\ as_str v = Some t.
  Proof.
    intro H. rewrite dyn_at. destruct (get_type_val tbl Hok (env_at tbl n) i t H) as [v [Hv Hs]].
    exists v. rewrite Hv. split; [reflexivity|exact Hs].
  Qed.
  Lemma lvl_is_collection n i : i <> INil -> (forall k, i <> ITNil k) ->
    pe_dyn (env_at tbl (S n)) m_IsCollection i [] = Some (Ok (VB (is_collection_m i))).
  Proof.
    intros H1 H2. rewrite dyn_at. f_equal. apply as_bool_ok. rewrite (is_collection_tie tbl Hok).
    destruct i; try reflexivity; [contradiction|exfalso; exact (H2 k eq_refl)].
  Qed.
  Lemma lvl_meth_is_link n i b : Recip.meth_is_link i = Ok b -> pe_dyn (env_at tbl (S n)) m_IsLink i [] = Some (Ok (VB b)).
  Proof. intro H. rewrite dyn_at. f_equal. apply as_bool_ok. rewrite (meth_is_link_tie tbl Hok). exact H. Qed.

  (* ---- the statements: every table satisfying the condition ---- *)
  Theorem ne_object_tie k fs : ne_typed fs = true ->
    sem_pred tbl (B "notEmptyObject") (IObj true k fs) = Ok (JsonDec.obj_not_empty fs).
  Proof. intro Ht. unfold sem_pred, sem_func, pred_depth. rewrite lvl_ne_object by exact Ht. reflexivity. Qed.
  Theorem ne_object_nil_tie k : sem_pred tbl (B "notEmptyObject") (ITNil k) = Ok false.
  Proof.
    unfold sem_pred, sem_func, pred_depth. rewrite func_at.
    assert (H : pfn_named tbl (pf_name m_ne_object) = Some m_ne_object) by (apply (named tbl Hok); vm_compute; in_list).
    change (pf_name m_ne_object) with (B "notEmptyObject") in H. rewrite H. reflexivity.
  Qed.

  (* NotEmpty: nil-like items; IRIs; structs in the domain of the hand-written model *)
  Theorem not_empty_nil_tie i : is_nil i = true -> sem_pred tbl (B "NotEmpty") i = Ok false.
  Proof.
    intro H. unfold sem_pred, sem_func, pred_depth. level m_not_empty.
    rewrite (not_empty_nil_like _ (lvl_is_nil tbl Hok 2) i H). reflexivity.
  Qed.
  Theorem not_empty_iri_tie p s : sem_pred tbl (B "NotEmpty") (IIri p s) = Ok (not_empty_m (IIri p s)).
  Proof.
    destruct (is_nil (IIri p s)) eqn:Hn.
    - rewrite not_empty_nil_tie by exact Hn. unfold not_empty_m, JsonDec.not_empty. rewrite Hn. reflexivity.
    - unfold sem_pred, sem_func, pred_depth. level m_not_empty.
      rewrite (not_empty_iri _ (on_at tbl 5) (lvl_is_nil tbl Hok 2) (lvl_is_iri tbl Hok 4) (lvl_getlink tbl Hok 4)
                 (lvl_get_type 4) (lvl_is_collection 4) (lvl_meth_is_link 4) p s Hn).
      unfold not_empty_m, JsonDec.not_empty. rewrite Hn. destruct s; reflexivity.
  Qed.
  Theorem not_empty_obj_tie p k fs : ne_typed fs = true -> ne_dom k (get_str F_Type fs) = true ->
    sem_pred tbl (B "NotEmpty") (IObj p k fs) = Ok (not_empty_m (IObj p k fs)).
  Proof.
    intros Ht Hd. unfold sem_pred, sem_func, pred_depth. level m_not_empty.
    destruct (not_empty_obj_run _ (on_at tbl 5) (lvl_is_nil tbl Hok 2) (lvl_is_iri tbl Hok 4) (lvl_get_type 4)
                (lvl_is_collection 4) (lvl_meth_is_link 4) (lvl_ne_object 4) (lvl_ne_link 4) (lvl_ne_activity 2) (lvl_ne_actor 3)
                p k fs Ht) as [b0 [Hb Hrun]].
    rewrite Hrun. cbn [as_bool obind ocall]. f_equal. apply tail_val_model; assumption.
  Qed.
End NeClosure.
