(* The tie between the generated table of Gen/PredT.v and the hand-written predicates and accessors
   (Model/Pred.v, Equal.is_collection_m, Recip.meth_is_object / meth_is_link, Flatten.normalize):
     1. boolean equality of bodies is sound; a table satisfying pred_table_ok holds the modelled bodies;
     2. the six interface methods, dispatched on the dynamic type over the table, ARE get_link / get_type /
        meth_is_object / meth_is_link / is_collection_m with Go's two panics, for all items;
     3. the statement sequences of Model/PredTab.v, interpreted in ANY environment that answers their callees as the
        hand-written functions do, ARE is_iri / is_iris / is_link / is_item_collection / is_object / is_nil / normalize,
        for all items;
     4. the level-by-level closure env_at of a table satisfying the condition is such an environment, hence
        sem_pred tbl "IsNil" i = Ok (is_nil i) etc. for every such table and every item. *)
From AP.Model Require Import Prelude Bytes Vocab Pred Layout Dispatch Equal TabEq PredTab.
From AP.Proofs Require Import NlvP TabEqP.
From AP.Gen Require Import TypeLists.
Require AP.Model.Recip AP.Model.Flatten AP.Model.Coll.

(* ---------------------------------------------------------------- boolean equality of bodies is sound *)
Local Ltac beq_split :=
  repeat match goal with
         | H' : (_ && _) = true |- _ => let H1 := fresh "H" in let H2 := fresh "H" in
                                       apply andb_prop in H'; destruct H' as [H1 H2]
         end.
Lemma gotype_eqb_eq a b : gotype_eqb a b = true -> a = b.
Proof. destruct a, b; simpl; try discriminate; try reflexivity. intro H. apply bytes_eqb_true in H. subst. reflexivity. Qed.
Lemma tbase_beq_eq a b : tbase_beq a b = true -> a = b.
Proof. destruct a, b; simpl; try discriminate; try reflexivity. intro H. apply internal_kind_dec_bl in H. subst. reflexivity. Qed.
Local Ltac by_bytes :=
  repeat match goal with
         | H : bytes_eqb _ _ = true |- _ => apply bytes_eqb_true in H
         | H : Bool.eqb _ _ = true |- _ => apply Bool.eqb_prop in H
         | H : Nat.eqb _ _ = true |- _ => apply Nat.eqb_eq in H
         | H : kind_beq _ _ = true |- _ => apply internal_kind_dec_bl in H
         | H : fid_beq _ _ = true |- _ => apply internal_fid_dec_bl in H
         | H : gotype_eqb _ _ = true |- _ => apply gotype_eqb_eq in H
         | H : tbase_beq _ _ = true |- _ => apply tbase_beq_eq in H
         end; subst; try reflexivity.

Lemma gty_beq_eq a b : gty_beq a b = true -> a = b.
Proof. destruct a, b; simpl; try discriminate; intro H; beq_split; by_bytes. Qed.
Lemma nilty_beq_eq a b : nilty_beq a b = true -> a = b.
Proof. destruct a, b; simpl; try discriminate; reflexivity. Qed.

Lemma pexp_beq_eq a : forall b, pexp_beq a b = true -> a = b.
Proof.
  induction a; intros [] H; simpl in H; try discriminate; beq_split;
    repeat match goal with
           | IH : forall b, pexp_beq ?x b = true -> ?x = b, H : pexp_beq ?x _ = true |- _ => apply IH in H
           | H : nilty_beq _ _ = true |- _ => apply nilty_beq_eq in H
           end; by_bytes.
Qed.

Lemma pstmt_beq_eq a : forall b, pstmt_beq a b = true -> a = b.
Proof.
  induction a; intros [] H; simpl in H; try discriminate; beq_split;
    repeat match goal with
           | IH : forall b, pstmt_beq ?x b = true -> ?x = b, H : pstmt_beq ?x _ = true |- _ => apply IH in H
           | H : pexp_beq _ _ = true |- _ => apply pexp_beq_eq in H
           | H : gty_beq _ _ = true |- _ => apply gty_beq_eq in H
           | H : lbeq gty_beq _ _ = true |- _ => apply (lbeq_eq gty_beq gty_beq_eq) in H
           end; by_bytes.
Qed.

Lemma pfn_beq_eq a b : pfn_beq a b = true -> a = b.
Proof.
  destruct a as [n1 r1 p1 b1], b as [n2 r2 p2 b2]. unfold pfn_beq. simpl. intro H. beq_split.
  repeat match goal with
         | H : pstmt_beq _ _ = true |- _ => apply pstmt_beq_eq in H
         | H : lbeq bytes_eqb _ _ = true |- _ => apply (lbeq_eq bytes_eqb bytes_eqb_true) in H
         | H : ovar_beq ?a ?b = true |- _ => destruct a, b; simpl in H; try discriminate
         end; by_bytes.
Qed.

(* ---------------------------------------------------------------- what the condition gives *)
Lemma fn_matches_spec tbl m : fn_matches tbl m = true -> pfn_named tbl (pf_name m) = Some m.
Proof.
  unfold fn_matches. destruct (pfn_named tbl (pf_name m)) as [f|]; [|discriminate].
  intro H. apply pfn_beq_eq in H. subst. reflexivity.
Qed.

Lemma table_fns tbl : pred_table_ok tbl = true -> forall m, In m model_fns -> pfn_named tbl (pf_name m) = Some m.
Proof.
  unfold pred_table_ok, fns_ok. intro H. beq_split.
  match goal with H : forallb (fn_matches tbl) _ = true |- _ => rewrite forallb_forall in H; rename H into HF end.
  intros m Hm. apply fn_matches_spec. apply HF. exact Hm.
Qed.

Lemma all_tbases_complete b : In b all_tbases.
Proof.
  unfold all_tbases. apply in_or_app. destruct b as [k| | |]; [left; apply in_map; apply all_kinds_complete| | |];
    right; simpl; tauto.
Qed.

Lemma table_method tbl : pred_table_ok tbl = true -> forall b m, In m iface_methods ->
  exists r sh, expected_shape b m = Some sh /\ bytes_eqb r blank = false /\
               pfn_named tbl (meth_name b m) = Some (mkpfn (meth_name b m) (Some r) [] (shape_body r sh)).
Proof.
  unfold pred_table_ok, methods_ok. intro H. beq_split.
  match goal with H : forallb _ all_tbases = true |- _ => rewrite forallb_forall in H; rename H into HM end.
  intros b m Hm. specialize (HM b (all_tbases_complete b)). rewrite forallb_forall in HM. specialize (HM m Hm).
  unfold method_matches in HM.
  destruct (pfn_named tbl (meth_name b m)) as [f|]; [|discriminate].
  destruct (expected_shape b m) as [sh|]; [|discriminate].
  destruct (pf_recv f) as [r|] eqn:Er; [|discriminate].
  apply andb_prop in HM. destruct HM as [Hb Hr]. apply pfn_beq_eq in Hb.
  exists r, sh. split; [reflexivity|]. split; [destruct (bytes_eqb r blank); [discriminate|reflexivity]|].
  rewrite Hb. reflexivity.
Qed.

(* ---------------------------------------------------------------- the interface methods *)
(* what a method of a given shape returns on a receiver VALUE *)
Definition shape_sem (sh : mshape) (x : item) : outcome pv :=
  match sh with
  | MConstBool b => Ok (VB b)
  | MConstStr s => Ok (VS s)
  | MRecv => Ok (VI x)
  | MField f | MConvField _ f =>
      match x with IObj _ _ fs => Ok (VS (get_str f fs)) | ITNil _ => Panic NilDeref | _ => Err end
  | MTypeIs c l =>
      match x with
      | IObj _ _ fs =>
          if bytes_eqb (get_str F_Type fs) c then Ok (VB true)
          else match type_list l with Some tl => Ok (VB (tl_contains tl (get_str F_Type fs))) | None => Err end
      | ITNil _ => Panic NilDeref
      | _ => Err
      end
  end.

Lemma pget_same r v : pget r [(r, v)] = Some v.
Proof. simpl. rewrite bytes_eqb_refl. reflexivity. Qed.

Lemma run_shape E n r sh x : bytes_eqb r blank = false ->
  run_pfn E (mkpfn n (Some r) [] (shape_body r sh)) (Some (VI x)) [] = shape_sem sh x.
Proof.
  intro Hr. unfold run_pfn. cbn [pf_recv pf_params pf_body bind_all]. unfold pbind. rewrite Hr. cbn [pset].
  destruct sh; cbn [shape_body pblk fold_right exec ev obind shape_sem]; rewrite ?pget_same; cbn [obind]; try reflexivity.
  - destruct x; reflexivity.
  - destruct x; reflexivity.
  - destruct x as [|k|p s|p k fs|p lo|p lo]; try reflexivity. cbn [field_val obind as_str].
    destruct (bytes_eqb (get_str F_Type fs) c); cbn [obind]; [reflexivity|].
    destruct (type_list l); reflexivity.
Qed.

(* the value a value-receiver method works on *)
Definition val_of (i : item) : item :=
  match i with
  | IIri true s => IIri false s
  | IObj true k fs => IObj false k fs
  | IItems true l => IItems false l
  | IIris true l => IIris false l
  | x => x
  end.

Section Methods.
  Variable tbl : list pfn.
  Hypothesis Hok : pred_table_ok tbl = true.
  Variable E : penv.

  Lemma dyn_call_shape m : In m iface_methods -> forall i p b, dyn_type i = Some (p, b) ->
    exists sh, expected_shape b m = Some sh /\
      dyn_call E tbl m i [] = match i with ITNil _ => Panic ValueMethodOnNilPtr | _ => shape_sem sh (val_of i) end.
  Proof.
    intros Hm i p b Hd. destruct (table_method tbl Hok b m Hm) as [r [sh [Hs [Hr Hf]]]].
    exists sh. split; [exact Hs|]. unfold dyn_call. rewrite Hd, Hf.
    destruct i as [|k|[] s|[] k fs|[] lo|[] lo]; simpl in Hd; inversion Hd; subst; cbn [deref_item obind val_of];
      try reflexivity; apply run_shape; exact Hr.
  Qed.

  Lemma dyn_call_nil m : dyn_call E tbl m INil [] = Panic NilDeref.
  Proof. reflexivity. Qed.

  Ltac by_shape Hm :=
    let sh := fresh "sh" in let Hs := fresh "Hs" in let Hc := fresh "Hc" in
    match goal with
    | |- context [dyn_call E tbl ?m ?i []] =>
        destruct (dyn_call_shape m Hm i _ _ eq_refl) as [sh [Hs Hc]]; rewrite Hc; clear Hc;
        vm_compute in Hs; inversion Hs; subst sh; clear Hs
    end.

  Lemma in_GetLink : In m_GetLink iface_methods. Proof. simpl; tauto. Qed.
  Lemma in_GetID : In m_GetID iface_methods. Proof. simpl; tauto. Qed.
  Lemma in_GetType : In m_GetType iface_methods. Proof. simpl; tauto. Qed.
  Lemma in_IsObject : In m_IsObject iface_methods. Proof. simpl; tauto. Qed.
  Lemma in_IsLink : In m_IsLink iface_methods. Proof. simpl; tauto. Qed.
  Lemma in_IsCollection : In m_IsCollection iface_methods. Proof. simpl; tauto. Qed.

  (* it.GetLink() / it.GetID() *)
  Theorem get_link_tie i : as_bytes (dyn_call E tbl m_GetLink i []) = get_link i.
  Proof.
    destruct i as [|k|p s|p k fs|p lo|p lo]; [reflexivity| | | | |].
    - by_shape in_GetLink. reflexivity.
    - by_shape in_GetLink. destruct p; reflexivity.
    - by_shape in_GetLink. destruct p; reflexivity.
    - by_shape in_GetLink. destruct p; reflexivity.
    - by_shape in_GetLink. destruct p; reflexivity.
  Qed.
  Theorem get_id_tie i : as_bytes (dyn_call E tbl m_GetID i []) = get_link i.
  Proof.
    destruct i as [|k|p s|p k fs|p lo|p lo]; [reflexivity| | | | |].
    - by_shape in_GetID. reflexivity.
    - by_shape in_GetID. destruct p; reflexivity.
    - by_shape in_GetID. destruct p; reflexivity.
    - by_shape in_GetID. destruct p; reflexivity.
    - by_shape in_GetID. destruct p; reflexivity.
  Qed.
  (* on an IRI the method returns the receiver itself *)
  Lemma get_link_iri p s : dyn_call E tbl m_GetLink (IIri p s) [] = Ok (VI (IIri false s)).
  Proof. by_shape in_GetLink. destruct p; reflexivity. Qed.

  Theorem get_type_tie i : as_bytes (dyn_call E tbl m_GetType i []) = get_type i.
  Proof.
    destruct i as [|k|p s|p k fs|p lo|p lo]; [reflexivity| | | | |].
    - by_shape in_GetType. reflexivity.
    - by_shape in_GetType. destruct p; reflexivity.
    - by_shape in_GetType. destruct p; reflexivity.
    - by_shape in_GetType. destruct p; reflexivity.
    - by_shape in_GetType. destruct p; reflexivity.
  Qed.
  (* as a value of the interpreter: a string *)
  Lemma get_type_val i t : get_type i = Ok t -> exists v, dyn_call E tbl m_GetType i [] = Ok v /\ as_str v = Some t.
  Proof.
    intro H. pose proof (get_type_tie i) as T. rewrite H in T. unfold as_bytes in T.
    destruct (dyn_call E tbl m_GetType i []) as [v| | |]; simpl in T; try discriminate.
    exists v. split; [reflexivity|]. destruct (as_str v); inversion T. reflexivity.
  Qed.

  (* it.IsCollection(): the method of the Go type *)
  Definition is_collection_call (i : item) : outcome bool :=
    match i with
    | INil => Panic NilDeref
    | ITNil _ => Panic ValueMethodOnNilPtr
    | _ => Ok (is_collection_m i)
    end.
  Theorem is_collection_tie i : as_bool (dyn_call E tbl m_IsCollection i []) = is_collection_call i.
  Proof.
    destruct i as [|k|p s|p k fs|p lo|p lo]; [reflexivity| | | | |].
    - destruct k; by_shape in_IsCollection; reflexivity.
    - by_shape in_IsCollection. destruct p; reflexivity.
    - destruct k; by_shape in_IsCollection; destruct p; reflexivity.
    - by_shape in_IsCollection. destruct p; reflexivity.
    - by_shape in_IsCollection. destruct p; reflexivity.
  Qed.

  (* it.IsObject() / it.IsLink(): constant but for Link, whose answers depend on its Type *)
  Lemma type_is_sem c l tl p fs : type_list l = Some tl ->
    as_bool (shape_sem (MTypeIs c l) (IObj p KLink fs))
    = Ok (bytes_eqb (get_str F_Type fs) c || tl_contains tl (get_str F_Type fs)).
  Proof. intro H. cbn [shape_sem]. rewrite H. destruct (bytes_eqb (get_str F_Type fs) c); reflexivity. Qed.
  Ltac link_case :=
    cbn [val_of]; erewrite type_is_sem by (vm_compute; reflexivity); reflexivity.
  Theorem meth_is_object_tie i : as_bool (dyn_call E tbl m_IsObject i []) = Recip.meth_is_object i.
  Proof.
    destruct i as [|k|p s|p k fs|p lo|p lo]; [reflexivity| | | | |].
    - destruct k; by_shape in_IsObject; reflexivity.
    - by_shape in_IsObject. destruct p; reflexivity.
    - destruct k; by_shape in_IsObject; destruct p; try reflexivity; link_case.
    - by_shape in_IsObject. destruct p; reflexivity.
    - by_shape in_IsObject. destruct p; reflexivity.
  Qed.
  Theorem meth_is_link_tie i : as_bool (dyn_call E tbl m_IsLink i []) = Recip.meth_is_link i.
  Proof.
    destruct i as [|k|p s|p k fs|p lo|p lo]; [reflexivity| | | | |].
    - destruct k; by_shape in_IsLink; reflexivity.
    - by_shape in_IsLink. destruct p; reflexivity.
    - destruct k; by_shape in_IsLink; destruct p; try reflexivity; link_case.
    - by_shape in_IsLink. destruct p; reflexivity.
    - by_shape in_IsLink. destruct p; reflexivity.
  Qed.
End Methods.

(* ---------------------------------------------------------------- the package functions, in any environment that
   answers their callees as the hand-written functions do *)
Definition fn_answers (E : penv) (f : bytes) (p : item -> bool) : Prop :=
  forall i, pe_func E f [VI i] = Some (Ok (VB (p i))).

Lemma of_nat_eqb a b : (Z.of_nat a =? Z.of_nat b)%Z = Nat.eqb a b.
Proof.
  destruct (Nat.eqb a b) eqn:Hn.
  - apply Nat.eqb_eq in Hn. subst. apply Z.eqb_refl.
  - apply Z.eqb_neq. intro H. apply Nat2Z.inj in H. subst. rewrite Nat.eqb_refl in Hn. discriminate.
Qed.

Ltac run := repeat (progress (cbn; unfold ev_bool, arg1, e_it, e_i, e_o, e_a, e_l, e_getlink, e_gettype)).

Section Funcs.
  Variable E : penv.

  Lemma is_iri_model i : run_pfn E m_is_iri None [VI i] = Ok (VB (is_iri i)).
  Proof. destruct i as [|k|[] s|[] k fs|[] lo|[] lo]; try reflexivity; destruct k; reflexivity. Qed.
  Lemma is_iris_model i : run_pfn E m_is_iris None [VI i] = Ok (VB (is_iris i)).
  Proof. destruct i as [|k|[] s|[] k fs|[] lo|[] lo]; try reflexivity; destruct k; reflexivity. Qed.
  Lemma is_link_model i : run_pfn E m_is_link None [VI i] = Ok (VB (is_link i)).
  Proof. destruct i as [|k|[] s|[] k fs|[] lo|[] lo]; try reflexivity; destruct k; reflexivity. Qed.
  Lemma is_object_model i : run_pfn E m_is_object None [VI i] = Ok (VB (is_object i)).
  Proof. destruct i as [|k|[] s|[] k fs|[] lo|[] lo]; try reflexivity; destruct k; reflexivity. Qed.

  Lemma is_item_collection_model : fn_answers E (B "IsIRIs") is_iris ->
    forall i, run_pfn E m_is_item_collection None [VI i] = Ok (VB (is_item_collection i)).
  Proof.
    intros H i. unfold fn_answers in H.
    destruct i as [|k|[] s|[] k fs|[] lo|[] lo]; try reflexivity;
      unfold run_pfn; cbn; rewrite H; reflexivity.
  Qed.

  Definition getlink_answers : Prop :=
    forall p s, pe_dyn E m_GetLink (IIri p s) [] = Some (Ok (VI (IIri false s))).
  Definition on_answers : Prop := forall f i, pe_on E f i = on_view f i.

  Lemma is_nil_model :
    fn_answers E (B "IsIRI") is_iri -> fn_answers E (B "IsItemCollection") is_item_collection ->
    fn_answers E (B "IsObject") is_object -> fn_answers E (B "IsLink") is_link ->
    getlink_answers -> on_answers ->
    forall i, run_pfn E m_is_nil None [VI i] = Ok (VB (is_nil i)).
  Proof.
    intros HI HC HO HL HG HV i. unfold fn_answers in *. unfold getlink_answers, on_answers in *.
    destruct i as [|k|p s|p k fs|p lo|p lo]; [reflexivity| | | | |].
    - (* typed nil pointer *)
      unfold run_pfn. run. rewrite HI. run. rewrite HC. run. rewrite HO. destruct k; run; rewrite ?HL; run; rewrite HV; reflexivity.
    - unfold run_pfn. run. rewrite HI. destruct p; run; rewrite !HG; run; destruct s as [|b s]; reflexivity.
    - unfold run_pfn. run. rewrite HI. run. rewrite HC. run. rewrite HO.
      destruct k, p; run; rewrite ?HL; run; rewrite HV; reflexivity.
    - unfold run_pfn. run. rewrite HI. run. rewrite HC. destruct p, lo; reflexivity.
    - unfold run_pfn. run. rewrite HI. run. rewrite HC. destruct p, lo; reflexivity.
  Qed.

  (* ItemCollection.Normalize, on the value the receiver holds *)
  Lemma normalize_model lo : run_pfn E m_normalize (Some (VI (IItems false lo))) [] = Ok (VI (Flatten.normalize lo)).
  Proof.
    destruct lo as [[|x [|y r]]|]; try reflexivity.
    unfold run_pfn. cbn -[Z.of_nat]. unfold ev_bool. cbn -[Z.of_nat]. rewrite !of_nat_eqb.
    cbn -[Z.of_nat]. unfold ev_bool. cbn -[Z.of_nat]. rewrite !of_nat_eqb. reflexivity.
  Qed.
End Funcs.

(* ---------------------------------------------------------------- the closure of a table that satisfies the condition *)
Local Ltac in_list := repeat (try (left; reflexivity); right).

Section Closure.
  Variable tbl : list pfn.
  Hypothesis Hok : pred_table_ok tbl = true.

  Lemma named m : In m model_fns -> pfn_named tbl (pf_name m) = Some m.
  Proof. exact (table_fns tbl Hok m). Qed.

  Lemma func_at n f args :
    pe_func (env_at tbl (S n)) f args
    = match pfn_named tbl f with Some g => Some (run_pfn (env_at tbl n) g None args) | None => None end.
  Proof. reflexivity. Qed.
  Lemma dyn_at n m i args : pe_dyn (env_at tbl (S n)) m i args = Some (dyn_call (env_at tbl n) tbl m i args).
  Proof. reflexivity. Qed.
  Lemma meth_at n m r args : pe_meth (env_at tbl (S n)) m r args = static_call (env_at tbl n) tbl m r args.
  Proof. reflexivity. Qed.
  Lemma on_at n : on_answers (env_at tbl n).
  Proof. destruct n; intros f i; reflexivity. Qed.

  Ltac level m lemma :=
    let i := fresh "i" in
    intro i; rewrite func_at;
    let H := fresh "H" in
    assert (H : pfn_named tbl (pf_name m) = Some m) by (apply named; vm_compute; in_list);
    change (pf_name m) with (pf_name m) in H;
    match type of H with pfn_named tbl ?n = _ =>
      match goal with |- context [pfn_named tbl ?n'] => change n' with n end
    end;
    rewrite H; f_equal; apply lemma.

  Lemma lvl_is_iri n : fn_answers (env_at tbl (S n)) (B "IsIRI") is_iri.
  Proof. level m_is_iri is_iri_model. Qed.
  Lemma lvl_is_iris n : fn_answers (env_at tbl (S n)) (B "IsIRIs") is_iris.
  Proof. level m_is_iris is_iris_model. Qed.
  Lemma lvl_is_link n : fn_answers (env_at tbl (S n)) (B "IsLink") is_link.
  Proof. level m_is_link is_link_model. Qed.
  Lemma lvl_is_object n : fn_answers (env_at tbl (S n)) (B "IsObject") is_object.
  Proof. level m_is_object is_object_model. Qed.
  Lemma lvl_is_item_collection n : fn_answers (env_at tbl (S (S n))) (B "IsItemCollection") is_item_collection.
  Proof. level m_is_item_collection is_item_collection_model. apply lvl_is_iris. Qed.
  Lemma lvl_getlink n : getlink_answers (env_at tbl (S n)).
  Proof. intros p s. rewrite dyn_at. f_equal. apply get_link_iri. exact Hok. Qed.
  Lemma lvl_is_nil n : fn_answers (env_at tbl (S (S (S n)))) (B "IsNil") is_nil.
  Proof.
    level m_is_nil is_nil_model;
      [apply lvl_is_iri|apply lvl_is_item_collection|apply lvl_is_object|apply lvl_is_link|apply lvl_getlink|apply on_at].
  Qed.

  (* ---- the statements: every table satisfying the condition, every item ---- *)
  Theorem is_iri_tie i : sem_pred tbl (B "IsIRI") i = Ok (is_iri i).
  Proof. unfold sem_pred, sem_func, pred_depth. rewrite lvl_is_iri. reflexivity. Qed.
  Theorem is_iris_tie i : sem_pred tbl (B "IsIRIs") i = Ok (is_iris i).
  Proof. unfold sem_pred, sem_func, pred_depth. rewrite lvl_is_iris. reflexivity. Qed.
  Theorem is_link_tie i : sem_pred tbl (B "IsLink") i = Ok (is_link i).
  Proof. unfold sem_pred, sem_func, pred_depth. rewrite lvl_is_link. reflexivity. Qed.
  Theorem is_object_tie i : sem_pred tbl (B "IsObject") i = Ok (is_object i).
  Proof. unfold sem_pred, sem_func, pred_depth. rewrite lvl_is_object. reflexivity. Qed.
  Theorem is_item_collection_tie i : sem_pred tbl (B "IsItemCollection") i = Ok (is_item_collection i).
  Proof. unfold sem_pred, sem_func, pred_depth. rewrite lvl_is_item_collection. reflexivity. Qed.
  Theorem is_nil_tie i : sem_pred tbl (B "IsNil") i = Ok (is_nil i).
  Proof. unfold sem_pred, sem_func, pred_depth. rewrite lvl_is_nil. reflexivity. Qed.

  Theorem sem_get_link_tie i : as_bytes (sem_dyn tbl m_GetLink i) = get_link i.
  Proof. unfold sem_dyn, pred_depth. rewrite dyn_at. apply get_link_tie. exact Hok. Qed.
  Theorem sem_get_id_tie i : as_bytes (sem_dyn tbl m_GetID i) = get_link i.
  Proof. unfold sem_dyn, pred_depth. rewrite dyn_at. apply get_id_tie. exact Hok. Qed.
  Theorem sem_get_type_tie i : as_bytes (sem_dyn tbl m_GetType i) = get_type i.
  Proof. unfold sem_dyn, pred_depth. rewrite dyn_at. apply get_type_tie. exact Hok. Qed.
  Theorem sem_is_collection_tie i : as_bool (sem_dyn tbl m_IsCollection i) = is_collection_call i.
  Proof. unfold sem_dyn, pred_depth. rewrite dyn_at. apply is_collection_tie. exact Hok. Qed.
  Theorem sem_meth_is_object_tie i : as_bool (sem_dyn tbl m_IsObject i) = Recip.meth_is_object i.
  Proof. unfold sem_dyn, pred_depth. rewrite dyn_at. apply meth_is_object_tie. exact Hok. Qed.
  Theorem sem_meth_is_link_tie i : as_bool (sem_dyn tbl m_IsLink i) = Recip.meth_is_link i.
  Proof. unfold sem_dyn, pred_depth. rewrite dyn_at. apply meth_is_link_tie. exact Hok. Qed.

  (* ItemCollection.Normalize, called on a list value or through a pointer to one *)
  Theorem sem_normalize_tie p lo :
    as_item (sem_static tbl (B "ItemCollection.Normalize") (VI (IItems p lo))) = Ok (Flatten.normalize lo).
  Proof.
    unfold sem_static, pred_depth. rewrite meth_at. generalize (env_at tbl 5). intro E. unfold static_call.
    assert (H : pfn_named tbl (pf_name m_normalize) = Some m_normalize) by (apply named; vm_compute; in_list).
    change (pf_name m_normalize) with (B "ItemCollection.Normalize") in H. rewrite H.
    let x := eval vm_compute in (B "ItemCollection.Normalize") in change (B "ItemCollection.Normalize") with x.
    destruct p; cbn [dyn_type deref_item obind ocall]; rewrite normalize_model; reflexivity.
  Qed.
  Theorem sem_ic_normalize_tie p l :
    as_item (sem_static tbl (B "ItemCollection.Normalize") (VI (IItems p (Some l)))) = Ok (Coll.ic_normalize l).
  Proof. rewrite sem_normalize_tie. destruct l as [|x [|y r]]; reflexivity. Qed.
End Closure.
