(* The primitives the ItemsEqual interpreter applies (Model/ItemsEqTab.v: ev_pred, GetType / GetLink through
   ev_texp / ev_sexp, is_collection_call) are the meaning of the generated predicate table, for every table
   satisfying pred_table_ok. *)
From AP.Model Require Import Prelude Vocab Pred PredTab PredUse.
From AP.Proofs Require Import PredTabP.
Require AP.Model.ItemsEqTab.

Lemma ev_pred_tie tbl : pred_table_ok tbl = true -> forall p i,
  sem_pred tbl (ipred_fn p) i = Ok (ItemsEqTab.ev_pred p i).
Proof.
  intros Hok p i. destruct p; cbn [ipred_fn ItemsEqTab.ev_pred].
  - apply is_nil_tie; exact Hok.
  - apply is_iri_tie; exact Hok.
  - apply is_iris_tie; exact Hok.
  - apply is_item_collection_tie; exact Hok.
  - apply is_object_tie; exact Hok.
  - apply is_link_tie; exact Hok.
Qed.

Lemma is_collection_call_tie tbl : pred_table_ok tbl = true -> forall i,
  as_bool (sem_dyn tbl m_IsCollection i) = ItemsEqTab.is_collection_call i.
Proof. intros Hok i. rewrite (sem_is_collection_tie tbl Hok). destruct i; reflexivity. Qed.
