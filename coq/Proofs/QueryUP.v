(* "Query strings in one letter case" on the wide grammar.  url.ParseQuery decodes "%XX" and "+"; the two hex digits
   of an escape decode to the same byte in either letter case.  Two query strings that differ only in the letter
   case of the hex digits of well-formed escapes ([heq]) have the same decoded pairs (query_pairs_u_heq); two ASCII
   query strings of the class [q_lower_class] (no upper-case letter outside the hex digits of well-formed escapes)
   that are equal under the folding comparison (equalFold; on ASCII strings the same as EqualFold) are [heq] (class_heq).  Model: Model/UrlU.v, Model/IriEqU.v. *)
From AP.Model Require Import Prelude Bytes Url IriEq IriNf Vocab Pred CollIri Utf8 FoldTab Fold UrlU IriEqU.
From AP.Proofs Require Import NlvP LowerP IriEqP SortP IriGenP IriNfP IriXP Utf8P FoldP CleanUP.

Inductive heq : bytes -> bytes -> Prop :=
| heq_nil : heq [] []
| heq_same c s s' : heq s s' -> heq (c :: s) (c :: s')
| heq_esc h l h' l' s s' :
    is_hex h = true -> is_hex l = true -> lower_byte h = lower_byte h' -> lower_byte l = lower_byte l' ->
    heq s s' -> heq (pct :: h :: l :: s) (pct :: h' :: l' :: s').

Lemma heq_refl s : heq s s.
Proof. induction s; constructor; assumption. Qed.

Lemma hex_lower_closed h h' : is_hex h = true -> lower_byte h = lower_byte h' -> is_hex h' = true.
Proof. intros H E. rewrite <- (is_hex_closed h'), <- E, is_hex_closed. exact H. Qed.

(* ---- decoding ---- *)
Definition st_heq (st st' : pstate) : Prop :=
  match st, st' with
  | P0, P0 => True
  | P1, P1 => True
  | P2 h, P2 h' => hexv h = hexv h'
  | _, _ => False
  end.

Lemma pct_not_hex : is_hex pct = false. Proof. reflexivity. Qed.

Lemma pct_go_heq s s' : heq s s' -> forall st st', st_heq st st' -> pct_go st s = pct_go st' s'.
Proof.
  induction 1 as [|c s s' H IH|h l h' l' s s' Hh Hl Eh El H IH]; intros st st' R.
  - destruct st, st'; simpl in R; try contradiction; reflexivity.
  - destruct st, st'; simpl in R; try contradiction; cbn [pct_go].
    + destruct (Byte.eqb c pct); [apply IH; exact I|]. rewrite (IH P0 P0 I). reflexivity.
    + destruct (is_hex c); [|reflexivity]. apply IH. reflexivity.
    + destruct (is_hex c); [|reflexivity]. rewrite (IH P0 P0 I). unfold unhex2. rewrite R. reflexivity.
  - pose proof (hex_lower_closed h h' Hh Eh) as Hh'. pose proof (hex_lower_closed l l' Hl El) as Hl'.
    destruct st, st'; simpl in R; try contradiction.
    + cbn [pct_go]. rewrite beqb_refl. cbn [pct_go]. rewrite Hh, Hh', Hl, Hl'. rewrite (IH P0 P0 I).
      unfold unhex2. rewrite (hexv_fold h h' Hh Hh' Eh), (hexv_fold l l' Hl Hl' El). reflexivity.
    + cbn [pct_go]. rewrite pct_not_hex. reflexivity.
    + cbn [pct_go]. rewrite pct_not_hex. reflexivity.
Qed.

(* ---- byte-wise maps and cuts that leave "%" and the hex digits alone ---- *)
Definition p2s (b : byte) : byte := if Byte.eqb b plus then space else b.

Lemma p2s_facts_all : forallb (fun b => Bool.eqb (Byte.eqb (p2s b) pct) (Byte.eqb b pct) && Bool.eqb (is_hex (p2s b)) (is_hex b)
   && implb (is_hex b) (Byte.eqb (p2s b) b)) all_bytes = true.
Proof. vm_compute. reflexivity. Qed.

Lemma heq_map_p2s s s' : heq s s' -> heq (map p2s s) (map p2s s').
Proof.
  induction 1 as [|c s s' H IH|h l h' l' s s' Hh Hl Eh El H IH]; simpl.
  - constructor.
  - constructor. exact IH.
  - pose proof (hex_lower_closed h h' Hh Eh) as Hh'. pose proof (hex_lower_closed l l' Hl El) as Hl'.
    assert (K : forall b, is_hex b = true -> p2s b = b).
    { intros b Hb. pose proof (sweep _ p2s_facts_all b) as S. cbv beta in S. rewrite !andb_true_iff in S. destruct S as [_ S].
      rewrite Hb in S. apply beqb_eq. exact S. }
    rewrite (K h Hh), (K l Hl), (K h' Hh'), (K l' Hl'). change (p2s pct) with pct. constructor; assumption.
Qed.

(* a separator: not "%" and not a hex digit *)
Definition is_sep (d : byte) : bool := negb (Byte.eqb d pct) && negb (is_hex d) && negb (is_alpha d).

Lemma sep_lower d b : is_sep d = true -> lower_byte b = lower_byte d -> b = d.
Proof.
  unfold is_sep. rewrite !andb_true_iff, !negb_true_iff. intros [_ Ha] E.
  apply beqb_eq. rewrite <- (lower_byte_delim d b Ha), E, (lower_byte_fixed d Ha). apply beqb_refl.
Qed.

Lemma heq_cut d s s' : is_sep d = true -> heq s s' ->
  heq (fst (cut_byte d s)) (fst (cut_byte d s')) /\
  match snd (cut_byte d s), snd (cut_byte d s') with
  | Some y, Some y' => heq y y'
  | None, None => True
  | _, _ => False
  end.
Proof.
  intros D. pose proof D as D'. unfold is_sep in D'. rewrite !andb_true_iff, !negb_true_iff in D'. destruct D' as [[Dp Dh] Da].
  induction 1 as [|c s s' H IH|h l h' l' s s' Hh Hl Eh El H IH].
  - split; [constructor|exact I].
  - simpl. destruct (Byte.eqb c d).
    + split; [constructor|exact H].
    + destruct (cut_byte d s) as [x o], (cut_byte d s') as [x' o']. cbn [fst snd] in *. destruct IH as [I1 I2].
      split; [constructor; exact I1|exact I2].
  - pose proof (hex_lower_closed h h' Hh Eh) as Hh'. pose proof (hex_lower_closed l l' Hl El) as Hl'.
    assert (N : forall b, is_hex b = true -> Byte.eqb b d = false).
    { intros b Hb. destruct (Byte.eqb b d) eqn:E; [|reflexivity]. apply beqb_eq in E. subst b. congruence. }
    cbn [cut_byte]. rewrite (beqb_sym pct d), Dp. rewrite (N h Hh), (N l Hl), (N h' Hh'), (N l' Hl').
    destruct (cut_byte d s) as [x o], (cut_byte d s') as [x' o']. cbn [fst snd] in *. destruct IH as [I1 I2].
    split; [apply heq_esc; assumption|exact I2].
Qed.

Lemma heq_nil_iff s s' : heq s s' -> (s = [] <-> s' = []).
Proof. destruct 1; split; try discriminate; reflexivity. Qed.

Lemma heq_exists_sep d s s' : is_sep d = true -> heq s s' ->
  existsb (fun b => Byte.eqb b d) s = existsb (fun b => Byte.eqb b d) s'.
Proof.
  intros D. pose proof D as D'. unfold is_sep in D'. rewrite !andb_true_iff, !negb_true_iff in D'. destruct D' as [[Dp Dh] Da].
  induction 1 as [|c s s' H IH|h l h' l' s s' Hh Hl Eh El H IH]; [reflexivity|simpl; rewrite IH; reflexivity|].
  pose proof (hex_lower_closed h h' Hh Eh) as Hh'. pose proof (hex_lower_closed l l' Hl El) as Hl'.
  assert (N : forall b, is_hex b = true -> Byte.eqb b d = false).
  { intros b Hb. destruct (Byte.eqb b d) eqn:E; [|reflexivity]. apply beqb_eq in E. subst b. congruence. }
  cbn [existsb]. rewrite (N h Hh), (N l Hl), (N h' Hh'), (N l' Hl'), IH. reflexivity.
Qed.

Lemma heq_split_n d n : is_sep d = true -> forall s s', length s <= n -> heq s s' ->
  Forall2 heq (split_byte d s) (split_byte d s').
Proof.
  intros D. induction n as [|n IH]; intros s s' Hl E.
  - destruct s; [|simpl in Hl; lia]. apply heq_nil_iff in E. destruct E as [E _]. rewrite (E eq_refl). repeat constructor.
  - rewrite (CleanUP.split_byte_cut d s), (CleanUP.split_byte_cut d s'). destruct (heq_cut d s s' D E) as [E1 E2].
    pose proof (CleanUP.cut_byte_length d s) as Ls.
    destruct (cut_byte d s) as [x o], (cut_byte d s') as [x' o']. cbn [fst snd] in *.
    destruct o as [y|], o' as [y'|]; try contradiction.
    + constructor; [exact E1|]. apply IH; [specialize (Ls y eq_refl); lia|exact E2].
    + constructor; [exact E1|constructor].
Qed.

Lemma query_unescape_heq s s' : heq s s' -> query_unescape s = query_unescape s'.
Proof.
  intros H. unfold query_unescape, pct_decode.
  change (fun b => if Byte.eqb b plus then space else b) with p2s.
  apply (pct_go_heq _ _ (heq_map_p2s s s' H) P0 P0 I).
Qed.

Lemma amp_sep : is_sep amp = true. Proof. reflexivity. Qed.
Lemma eq_sep : is_sep eqsign = true. Proof. reflexivity. Qed.
Lemma semi_sep : is_sep semi = true. Proof. reflexivity. Qed.

(* query strings that differ only in the letter case of the hex digits of escapes decode alike *)
Theorem query_pairs_u_heq q q' : heq q q' -> query_pairs_u q = query_pairs_u q'.
Proof.
  intros H. unfold query_pairs_u.
  pose proof (heq_split_n amp (length q) amp_sep q q' (Nat.le_refl _) H) as S.
  induction S as [|p p' l l' Hp Hl IH]; [reflexivity|]. cbn [flat_map]. rewrite IH. f_equal.
  rewrite (heq_exists_sep semi p p' semi_sep Hp). destruct (existsb (fun b => Byte.eqb b semi) p'); [reflexivity|].
  pose proof (heq_nil_iff p p' Hp) as Nil.
  destruct p as [|c r], p' as [|c' r']; try reflexivity.
  - destruct Nil as [Nil _]. specialize (Nil eq_refl). discriminate.
  - destruct Nil as [_ Nil]. specialize (Nil eq_refl). discriminate.
  - destruct (heq_cut eqsign _ _ eq_sep Hp) as [E1 E2].
    destruct (cut_byte eqsign (c :: r)) as [k v], (cut_byte eqsign (c' :: r')) as [k' v']. cbn [fst snd] in *.
    rewrite (query_unescape_heq k k' E1).
    destruct v as [v|], v' as [v'|]; try contradiction; [rewrite (query_unescape_heq v v' E2)|]; reflexivity.
Qed.

(* ================================================================ the one-case class *)
Lemma esc_lower_cons c r : esc_lower (c :: r) =
  match r with
  | h :: l :: r' => if Byte.eqb c pct && is_hex h && is_hex l then c :: lower_byte h :: lower_byte l :: esc_lower r' else c :: esc_lower r
  | _ => c :: esc_lower r
  end.
Proof. destruct r as [|h [|l r']]; reflexivity. Qed.

Lemma lower_eq_pct b b' : lower_byte b = lower_byte b' -> Byte.eqb b pct = Byte.eqb b' pct.
Proof.
  intros E. rewrite <- (lower_byte_delim pct b eq_refl), <- (lower_byte_delim pct b' eq_refl), E. reflexivity.
Qed.

(* two strings equal up to ASCII letter case, both without upper-case letters outside the hex digits of their
   well-formed escapes, differ in the letter case of those hex digits only *)
Lemma class_heq_n n : forall q q', length q <= n -> lower q = lower q' ->
  no_upper (esc_lower q) = true -> no_upper (esc_lower q') = true -> heq q q'.
Proof.
  induction n as [|n IH]; intros q q' Hl E U U'.
  - destruct q; [|simpl in Hl; lia]. symmetry in E. apply (proj1 (lower_nil_iff q')) in E. subst q'. constructor.
  - destruct q as [|c r]; [symmetry in E; apply (proj1 (lower_nil_iff q')) in E; subst q'; constructor|].
    destruct q' as [|c' r']; [discriminate|]. simpl in E. injection E as Ec Er. simpl in Hl.
    rewrite esc_lower_cons in U, U'.
    assert (Same : no_upper (c :: esc_lower r) = true -> no_upper (c' :: esc_lower r') = true -> heq (c :: r) (c' :: r')).
    { intros V V'. unfold no_upper in V, V'. cbn [forallb] in V, V'. rewrite andb_true_iff in V, V'.
      destruct V as [V1 V], V' as [V1' V']. apply beqb_eq in V1, V1'.
      assert (c = c') as <- by congruence. constructor. apply IH; [lia|exact Er|exact V|exact V']. }
    destruct r as [|h [|l r2]].
    + destruct r' as [|h' r2']; [|discriminate]. apply Same; assumption.
    + destruct r' as [|h' [|l' r2']]; try discriminate. apply Same; assumption.
    + destruct r' as [|h' [|l' r2']]; try discriminate. simpl in Er. injection Er as Eh El Er2.
      rewrite (lower_eq_pct c c' Ec) in U.
      assert (is_hex h = is_hex h') as Xh by (rewrite <- (is_hex_closed h), Eh, is_hex_closed; reflexivity).
      assert (is_hex l = is_hex l') as Xl by (rewrite <- (is_hex_closed l), El, is_hex_closed; reflexivity).
      rewrite Xh, Xl in U.
      destruct (Byte.eqb c' pct && is_hex h' && is_hex l') eqn:C.
      * rewrite !andb_true_iff in C. destruct C as [[C1 C2] C3]. apply beqb_eq in C1. subst c'.
        assert (c = pct) as -> by (apply beqb_eq; rewrite (lower_eq_pct c pct Ec); reflexivity).
        unfold no_upper in U, U'. cbn [forallb] in U, U'. rewrite !andb_true_iff in U, U'.
        destruct U as [_ [_ [_ U]]], U' as [_ [_ [_ U']]].
        apply heq_esc; try assumption; try congruence.
        apply IH; [simpl in Hl; lia|exact Er2|exact U|exact U'].
      * apply Same; [exact U|exact U'].
Qed.

Theorem class_heq q q' : q_lower_class q = true -> q_lower_class q' = true -> scanon q = scanon q' -> heq q q'.
Proof.
  unfold q_lower_class. rewrite !andb_true_iff. intros [A U] [A' U'] E.
  apply (class_heq_n (length q) q q' (Nat.le_refl _)); try assumption.
  apply (scanon_ascii_lower q q' A A'). exact E.
Qed.

Theorem class_pairs q q' : q_lower_class q = true -> q_lower_class q' = true -> scanon q = scanon q' ->
  query_pairs_u q = query_pairs_u q'.
Proof. intros C C' E. apply query_pairs_u_heq. apply class_heq; assumption. Qed.
