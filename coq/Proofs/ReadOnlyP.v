From AP.Model Require Import Prelude ReadOnly.
Lemma ops_classified : classified_all = true /\ read_only_ops_in_tables = true.
Proof. split; vm_compute; reflexivity. Qed.
