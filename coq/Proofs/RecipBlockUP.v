(* C10, the Block clause under two id comparisons (builder b56).  Proofs/RecipUP.v (b47) proved that the
   de-duplication looks at the comparison only on the ids that occur (dedup_congr) and left the Block clause
   (removeFromAudience / removeFromCollection: remove_loop) as a hypothesis on both sides of C10_u_agrees_plain.
   Here: the congruence for remove_loop, remove_field, remove_from_audience, block_clause and recip_pre; the removal
   only deletes members, so the keys of the lists afterwards are keys of the lists before; hence Recipients() under
   two comparisons that agree on the ids that occur is ONE function, with no hypothesis on the Block clause. *)
From AP.Model Require Import Prelude Vocab Pred Url IriEq IriNf Fold UrlU IriEqU Recip RecipList RecipU RecipIds IdsIn.
From AP.Proofs Require Import IriEqP IriXP IriUP ConservUP RecipP RecipListP RecipUP PlainOrEmptyP.

Lemma obind_ret {A} (o : outcome A) : obind o (fun x => Ok x) = o.
Proof. destruct o; reflexivity. Qed.

Lemma remove_from_audience_seq rl it fs :
  remove_from_audience rl it fs = remove_seq rl it audience_fields fs.
Proof.
  unfold remove_from_audience, audience_fields. cbn [remove_seq].
  destruct (remove_field rl F_To it fs) as [f1| | |]; cbn [obind]; try reflexivity.
  destruct (remove_field rl F_Bto it f1) as [f2| | |]; cbn [obind]; try reflexivity.
  destruct (remove_field rl F_CC it f2) as [f3| | |]; cbn [obind]; try reflexivity.
  destruct (remove_field rl F_BCC it f3) as [f4| | |]; cbn [obind]; try reflexivity.
  symmetry. apply obind_ret.
Qed.

Lemma get_items_getf g a b : getf g a = getf g b -> get_items g a = get_items g b.
Proof. unfold get_items. intros ->. reflexivity. Qed.

(* the removal only deletes *)
Lemma remove_loop_In e it l : forall l', remove_loop e l it = Ok l' -> forall x, In x l' -> In x l.
Proof.
  induction l as [|ob r IH]; intros l' H x Hx; cbn [remove_loop] in H.
  - inversion H; subst. destruct Hx.
  - apply obind_ok in H. destruct H as [found [_ H]]. apply obind_ok in H. destruct H as [r' [Hr H]].
    inversion H; subst l'; clear H. destruct found.
    + right. eapply IH; eauto.
    + destruct Hx as [<-|Hx]; [left; reflexivity|right; eapply IH; eauto].
Qed.

Lemma remove_field_post e f it fs fs2 :
  remove_field (remove_loop e) f it fs = Ok fs2 ->
  (forall g, g <> f -> getf g fs2 = getf g fs) /\
  (forall x, In x (olist (get_items f fs2)) -> In x (olist (get_items f fs))).
Proof.
  unfold remove_field. destruct (get_items f fs) as [l|] eqn:E; intro H.
  - apply obind_ok in H. destruct H as [l' [Hl H]]. inversion H; subst fs2; clear H. split.
    + intros g Hg. apply getf_setf_other. exact Hg.
    + change (setf f (FItems (Some l')) fs) with (set_items f (Some l') fs). rewrite get_items_set_same.
      cbn [olist]. intros x Hx. eapply remove_loop_In; eauto.
  - inversion H; subst fs2. split; [reflexivity|]. rewrite E. auto.
Qed.

Lemma remove_seq_post e it fl : forall fs fs1, NoDup fl -> remove_seq (remove_loop e) it fl fs = Ok fs1 ->
  (forall g, ~ In g fl -> getf g fs1 = getf g fs) /\
  (forall f x, In f fl -> In x (olist (get_items f fs1)) -> In x (olist (get_items f fs))).
Proof.
  induction fl as [|f r IH]; intros fs fs1 ND H; cbn [remove_seq] in H.
  - inversion H; subst. split; [reflexivity|]. intros f x [].
  - apply obind_ok in H. destruct H as [f1 [H1 H]]. inversion ND as [|? ? Nf NDr]; subst.
    destruct (remove_field_post e f it fs f1 H1) as [O1 I1]. destruct (IH f1 fs1 NDr H) as [O2 I2]. split.
    + intros g Hg. rewrite O2 by (intro; apply Hg; right; assumption). apply O1. intros ->. apply Hg. left. reflexivity.
    + intros f' x [<-|Hin] Hx.
      * rewrite (get_items_getf f fs1 f1 (O2 f Nf)) in Hx. apply I1. exact Hx.
      * assert (f' <> f) by (intros ->; contradiction).
        rewrite <- (get_items_getf f' f1 fs (O1 f' H0)). apply (I2 f' x Hin Hx).
Qed.

Lemma Forall_flat_map_sub {A B} (S : B -> Prop) (g : A -> list B) (l' l : list A) :
  (forall x, In x l' -> In x l) -> Forall S (flat_map g l) -> Forall S (flat_map g l').
Proof.
  intros Sub H. rewrite Forall_forall in *. intros y Hy. apply in_flat_map in Hy. destruct Hy as [x [Hx Hy]].
  apply H. apply in_flat_map. exists x. split; [apply Sub; exact Hx|exact Hy].
Qed.

Lemma opt_keys_olist c : opt_keys c = keys_of (olist c).
Proof. destruct c; reflexivity. Qed.

Lemma audience_fields_nodup : NoDup audience_fields.
Proof. unfold audience_fields. repeat constructor; simpl; intuition discriminate. Qed.

Lemma addr5_in f : is_addr5 f = true -> In f audience_fields.
Proof. destruct f; try discriminate; intros _; unfold audience_fields; simpl; tauto. Qed.
Lemma in_addr5 f : In f audience_fields -> is_addr5 f = true.
Proof. unfold audience_fields. simpl. intuition subst; reflexivity. Qed.

(* the keys of the scanned lists after the Block clause are keys of the scanned lists before *)
Lemma recip_pre_keys e (S : bytes -> Prop) k fs fs1 :
  recip_pre e k fs = Ok fs1 -> Forall S (scan_order (scan_lists k fs)) -> Forall S (scan_order (scan_lists k fs1)).
Proof.
  intros H. assert (D : fs1 = fs \/ (k = KActivity /\ exists it, remove_from_audience (remove_loop e) it fs = Ok fs1)).
  { unfold recip_pre in H. destruct k; try (left; inversion H; reflexivity). unfold block_clause in H.
    destruct (bytes_eqb (get_str F_Type fs) block_type && negb (is_nil (get_item F_Object fs)));
      [right; split; [reflexivity|eauto]|left; inversion H; reflexivity]. }
  destruct D as [->|[-> [it R]]]; [auto|].
  rewrite remove_from_audience_seq in R.
  destruct (remove_seq_post e it audience_fields fs fs1 audience_fields_nodup R) as [_ I].
  assert (K : forall f, is_addr5 f = true -> Forall S (opt_keys (get_items f fs)) -> Forall S (opt_keys (get_items f fs1))).
  { intros f Hf. rewrite !opt_keys_olist. unfold keys_of. apply Forall_flat_map_sub. intros x. apply I. apply addr5_in. exact Hf. }
  unfold scan_order, scan_lists. cbn [actor_in_scan app flat_map]. rewrite !app_nil_r, !Forall_app.
  intros [H1 [H2 [H3 [H4 H5]]]]. repeat split; apply K; auto.
Qed.

Section Congr.
  Variables e1 e2 : bytes -> bytes -> bool.
  Variable S : bytes -> Prop.
  Hypothesis agree : forall a b, S a -> S b -> e1 a b = e2 a b.

  (* removeFromCollection(col, it) *)
  Lemma remove_loop_congr it l :
    Forall S (link_of it) -> Forall S (member_links l) -> remove_loop e1 l it = remove_loop e2 l it.
  Proof.
    intros Hit. induction l as [|ob r IH]; intro Hl; [reflexivity|]. cbn [remove_loop].
    change (member_links (ob :: r)) with ((if is_nil ob then [] else link_of ob) ++ member_links r) in Hl.
    apply Forall_app in Hl. destruct Hl as [Hob Hr]. rewrite (IH Hr).
    destruct (is_nil ob); cbn [orb]; [reflexivity|]. destruct (is_nil it); [reflexivity|].
    unfold link_of in Hob, Hit.
    destruct (get_link ob) as [a| | |]; cbn [obind]; try reflexivity.
    destruct (get_link it) as [b| | |]; cbn [obind]; try reflexivity.
    inversion Hob; inversion Hit; subst. rewrite (agree a b) by assumption. reflexivity.
  Qed.

  Lemma remove_field_congr f it fs :
    Forall S (link_of it) -> Forall S (member_links (olist (get_items f fs))) ->
    remove_field (remove_loop e1) f it fs = remove_field (remove_loop e2) f it fs.
  Proof.
    intros Hit Hl. unfold remove_field. destruct (get_items f fs) as [l|]; [|reflexivity].
    cbn [olist] in Hl. rewrite (remove_loop_congr it l Hit Hl). reflexivity.
  Qed.

  Lemma remove_seq_congr it fl : forall fs, NoDup fl -> Forall S (link_of it) ->
    (forall f, In f fl -> Forall S (member_links (olist (get_items f fs)))) ->
    remove_seq (remove_loop e1) it fl fs = remove_seq (remove_loop e2) it fl fs.
  Proof.
    induction fl as [|f r IH]; intros fs ND Hit Hl; [reflexivity|]. cbn [remove_seq].
    rewrite (remove_field_congr f it fs Hit (Hl f (or_introl eq_refl))).
    destruct (remove_field (remove_loop e2) f it fs) as [f1| | |] eqn:R; cbn [obind]; try reflexivity.
    inversion ND as [|? ? Nf NDr]; subst. apply IH; [exact NDr|exact Hit|].
    intros g Hg. destruct (remove_field_post e2 f it fs f1 R) as [O _].
    assert (g <> f) by (intros ->; contradiction).
    rewrite (get_items_getf g f1 fs (O g H)). apply Hl. right. exact Hg.
  Qed.

  Lemma recip_pre_congr k fs : Forall S (block_ids k fs) -> recip_pre e1 k fs = recip_pre e2 k fs.
  Proof.
    unfold recip_pre, block_ids. destruct k; try reflexivity. unfold block_clause.
    destruct (bytes_eqb (get_str F_Type fs) block_type && negb (is_nil (get_item F_Object fs))); [|reflexivity].
    intro H. apply Forall_app in H. destruct H as [Hit Hl].
    rewrite !remove_from_audience_seq. apply remove_seq_congr; [exact audience_fields_nodup|exact Hit|].
    intros f Hf. rewrite Forall_forall in *. intros x Hx. apply Hl. apply in_flat_map. exists f. split; assumption.
  Qed.

  (* Recipients(): no hypothesis on the Block clause *)
  Theorem recipients_congr_full k fs :
    Forall S (block_ids k fs) -> Forall S (scan_order (scan_lists k fs)) ->
    recipients e1 (IObj true k fs) = recipients e2 (IObj true k fs).
  Proof.
    intros Hb Hk. unfold recipients. destruct (has_recipients k); [|reflexivity].
    rewrite (recip_pre_congr k fs Hb).
    destruct (recip_pre e2 k fs) as [fs1| | |] eqn:P; cbn [obind]; try reflexivity.
    rewrite (dedup_congr e1 e2 S agree _ (recip_pre_keys e2 S k fs fs1 P Hk)). reflexivity.
  Qed.
End Congr.

(* ---- the wide model against the plain one on ids of the plain domain; an id-less member of a list (link "") is
   allowed too: both models say that the empty string equals itself only (Proofs/PlainOrEmptyP.v) ---- *)
Lemma idequ_plain_or_empty a b : plain_or_empty a = true -> plain_or_empty b = true -> idequ a b = ideq a b.
Proof. intros Ha Hb. unfold idequ, ideq. apply iri_equ_plain_or_empty; assumption. Qed.

Lemma remove_from_collection_u_plain l it :
  forallb plain_or_empty (link_of it ++ member_links l) = true ->
  remove_from_collection_u l it = remove_from_collection_m l it.
Proof.
  intro H. rewrite forallb_app in H. apply andb_true_iff in H. destruct H as [H1 H2].
  unfold remove_from_collection_u, remove_from_collection_m.
  apply (remove_loop_congr idequ ideq (fun a => plain_or_empty a = true)).
  - intros a b. apply idequ_plain_or_empty.
  - apply Forall_forall. rewrite forallb_forall in H1. exact H1.
  - apply Forall_forall. rewrite forallb_forall in H2. exact H2.
Qed.

Lemma recipients_u_plain_full k fs :
  forallb plain_or_empty (block_ids k fs) = true ->
  forallb iri_dom (scan_order (scan_lists k fs)) = true ->
  recipients_u (IObj true k fs) = recipients_m (IObj true k fs).
Proof.
  intros Hb Hk. unfold recipients_u, recipients_m.
  apply (recipients_congr_full idequ ideq (fun a => plain_or_empty a = true)).
  - intros a b. apply idequ_plain_or_empty.
  - apply Forall_forall. rewrite forallb_forall in Hb. exact Hb.
  - apply Forall_forall. rewrite forallb_forall in Hk. intros x Hx. unfold plain_or_empty. rewrite (Hk x Hx). reflexivity.
Qed.
