(* ItemCollection.Recipients() (Model/RecipList.v) refines "first mentions across the members" - lemmas for the list
   block of Props/C10.v. *)
From AP.Model Require Import Prelude Vocab Pred IriEq IriNf Equal Coll Recip RecipList.
From AP.Proofs Require Import IriEqP IriNfP RecipP RecipNfP.

(* ------------------------------------------------------------------ small facts *)
Lemma existsb_filter_length {A} (p : A -> bool) l : existsb p l = negb (Nat.eqb (length (filter p l)) 0).
Proof. induction l as [|x l IH]; [reflexivity|]. cbn [existsb filter]. destruct (p x); [reflexivity|exact IH]. Qed.

Lemma existsb_ext_in {A} (p q : A -> bool) l : (forall x, In x l -> p x = q x) -> existsb p l = existsb q l.
Proof.
  induction l as [|x l IH]; intro H; [reflexivity|]. cbn [existsb].
  rewrite (H x (or_introl eq_refl)), IH; [reflexivity|]. intros y Hy. apply H. right. exact Hy.
Qed.

Lemma existsb_map_f {A B} (f : A -> B) (p : B -> bool) l : existsb p (map f l) = existsb (fun x => p (f x)) l.
Proof. induction l as [|x l IH]; [reflexivity|]. cbn [map existsb]. rewrite IH. reflexivity. Qed.

Lemma nameable_nonempty a : nameable a = true -> a <> [].
Proof. intros H E. subst a. discriminate H. Qed.

Lemma key_of_iri a : nameable a = true -> key_of (IIri false a) = Some a.
Proof.
  intro H. unfold nameable in H. apply negb_true_iff in H.
  unfold key_of, entry_key. rewrite H. cbn [entry_key_body meth_is_object obind meth_is_link get_link omap drop_empty].
  destruct a; [discriminate H|reflexivity].
Qed.

Lemma keys_of_iris l : forallb nameable l = true -> keys_of (map (IIri false) l) = l.
Proof.
  induction l as [|a l IH]; intro H; [reflexivity|]. cbn [forallb] in H. apply andb_true_iff in H. destruct H as [Ha Hl].
  cbn [map]. rewrite keys_of_cons, (key_of_iri a Ha), (IH Hl). reflexivity.
Qed.

Lemma iri_item_eqb_iris eqv x k : nameable x = true -> nameable k = true ->
  iri_item_eqb eqv (IIri false x) (IIri false k) = eqv x k.
Proof.
  unfold nameable, iri_item_eqb. intros Hx Hk. apply negb_true_iff in Hx. apply negb_true_iff in Hk.
  rewrite Hx, Hk. reflexivity.
Qed.

(* ------------------------------------------------------------------ under symmetry and transitivity on D *)
Section OnD.
  Variable eqv : bytes -> bytes -> bool.
  Variable D : bytes -> Prop.
  Hypothesis eqv_sym : forall a b, D a -> D b -> eqv a b = eqv b a.
  Hypothesis eqv_trans : forall a b c, D a -> D b -> D c -> eqv a b = true -> eqv b c = true -> eqv a c = true.
  Hypothesis D_nameable : forall a, D a -> nameable a = true.

  Lemma Forall_D_nameable l : Forall D l -> forallb nameable l = true.
  Proof. intro H. apply forallb_forall. intros x Hx. apply D_nameable. rewrite Forall_forall in H. auto. Qed.

  Lemma Forall_fm s ks : Forall D ks -> Forall D (first_mentions_from eqv s ks).
  Proof.
    intro H. apply Forall_forall. intros x Hx. rewrite Forall_forall in H. apply H.
    eapply subseq_In; [apply fm_subseq|exact Hx].
  Qed.

  (* an id is equivalent to a recorded id iff it is equivalent to a mention *)
  Lemma existsb_fm Y k : Forall D Y -> D k -> existsb (eqv k) (first_mentions eqv Y) = existsb (eqv k) Y.
  Proof.
    intros HY Hk. rewrite existsb_filter_length, (matches_in_rec eqv D eqv_sym eqv_trans Y k HY Hk).
    destruct (existsb (eqv k) Y); reflexivity.
  Qed.

  Lemma fm_idem K : Forall D K -> first_mentions eqv (first_mentions eqv K) = first_mentions eqv K.
  Proof.
    induction K as [|k K IH] using rev_ind; intro H; [reflexivity|].
    apply Forall_app in H. destruct H as [HK Hk]. inversion Hk as [|? ? Dk _]; subst.
    rewrite fm_snoc. destruct (existsb (eqv k) K) eqn:E.
    - rewrite app_nil_r. apply IH. exact HK.
    - rewrite fm_snoc, (IH HK), (existsb_fm K k HK Dk), E. reflexivity.
  Qed.

  (* all.Append(rec...): the accumulated list stays the list of first mentions *)
  Lemma all_append_fm S K : Forall D S -> Forall D K ->
    all_append eqv (map (IIri false) (first_mentions eqv S)) (first_mentions eqv K)
    = map (IIri false) (first_mentions eqv (S ++ K)).
  Proof.
    intros HS. induction K as [|k K IH] using rev_ind; intro HK.
    - rewrite app_nil_r. reflexivity.
    - apply Forall_app in HK. destruct HK as [HK Hk]. inversion Hk as [|? ? Dk _]; subst.
      rewrite app_assoc, !fm_snoc. unfold all_append in *. rewrite map_app. unfold g_append in *.
      rewrite fold_left_app, (IH HK). rewrite existsb_app.
      assert (HSK : Forall D (S ++ K)) by (apply Forall_app; split; assumption).
      assert (Hc : g_contains item (iri_item_eqb eqv) (map (IIri false) (first_mentions eqv (S ++ K))) (IIri false k)
                   = existsb (eqv k) (S ++ K)).
      { unfold g_contains. rewrite existsb_map_f. rewrite <- (existsb_fm (S ++ K) k HSK Dk).
        apply existsb_ext_in. intros x Hx.
        assert (Dx : D x). { pose proof (Forall_fm [] (S ++ K) HSK) as F. rewrite Forall_forall in F. apply F. exact Hx. }
        rewrite iri_item_eqb_iris by (apply D_nameable; assumption). apply eqv_sym; assumption. }
      rewrite existsb_app in Hc.
      destruct (existsb (eqv k) K) eqn:EK.
      + rewrite orb_true_r. cbn [map fold_left]. rewrite app_nil_r. reflexivity.
      + rewrite orb_false_r. cbn [map fold_left]. unfold g_append1. rewrite Hc, orb_false_r.
        destruct (existsb (eqv k) S); [rewrite app_nil_r; reflexivity|]. rewrite map_app. reflexivity.
  Qed.

  (* one struct member *)
  Lemma member_step_spec fs all : Forall D (scan_order (five_lists fs)) ->
    member_step eqv fs all
    = Ok (all_append eqv all (first_mentions eqv (scan_order (five_lists fs))),
          write_back (keep_first_lists eqv [] (five_lists fs)) fs).
  Proof.
    intro H. unfold member_step. rewrite (dedup_refines' eqv D eqv_sym eqv_trans _ H). reflexivity.
  Qed.

  Lemma visit_flat b m S : flat_member m = true -> Forall D S -> Forall D (scan_order (member_lists m)) ->
    exists e, visit (member_step eqv) b m (map (IIri false) (first_mentions eqv S))
              = (if b && match m with IItems false None | IIris false None => true | _ => false end
                 then Panic NilDeref
                 else Ok (e, map (IIri false) (first_mentions eqv (S ++ scan_order (member_lists m))), member_after eqv m)).
  Proof.
    intros Hf HS HK.
    destruct m as [|k|p s|p k fs|[|] [l|]|[|] [l|]]; try discriminate Hf;
      try (rewrite andb_false_r; cbn [member_lists scan_order flat_map]; rewrite app_nil_r; eexists; reflexivity).
    - (* struct *)
      rewrite andb_false_r.
      destruct (kind_beq k KLink) eqn:Ek.
      + apply internal_kind_dec_bl in Ek. subst k. cbn [member_lists object_member scan_order flat_map].
        rewrite app_nil_r. eexists. destruct p; reflexivity.
      + assert (Ho : object_member (IObj p k fs) = true) by (destruct k; try reflexivity; discriminate Ek).
        assert (Hl : member_lists (IObj p k fs) = five_lists fs) by (unfold member_lists; rewrite Ho; reflexivity).
        rewrite Hl in *.
        assert (Hv : visit (member_step eqv) b (IObj p k fs) (map (IIri false) (first_mentions eqv S))
                     = obind (member_step eqv fs (map (IIri false) (first_mentions eqv S)))
                         (fun '(all', fs') => Ok (false, all', if p then IObj true k fs' else IObj p k fs)))
          by (destruct k; try reflexivity; discriminate Ek).
        rewrite Hv, (member_step_spec fs _ HK). cbn [obind].
        rewrite (all_append_fm S _ HS HK). exists false. f_equal. f_equal.
        unfold member_after. destruct p; [rewrite Ho|]; reflexivity.
    - (* nil ItemCollection *)
      cbn [member_lists scan_order flat_map]. rewrite app_nil_r. exists false. destruct b; reflexivity.
    - (* nil IRIs *)
      cbn [member_lists scan_order flat_map]. rewrite app_nil_r. exists false. destruct b; reflexivity.
  Qed.

  Lemma list_mentions_cons m l : list_mentions (m :: l) = scan_order (member_lists m) ++ list_mentions l.
  Proof. reflexivity. Qed.

  Lemma visit_all_flat l : forall S, forallb flat_member l = true -> Forall D S -> Forall D (list_mentions l) ->
    visit_all (member_step eqv) false l (map (IIri false) (first_mentions eqv S))
    = Ok (map (IIri false) (first_mentions eqv (S ++ list_mentions l)), map (member_after eqv) l).
  Proof.
    induction l as [|m l IH]; intros S Hf HS HK.
    - cbn [visit_all list_mentions flat_map map]. rewrite app_nil_r. reflexivity.
    - cbn [forallb] in Hf. apply andb_true_iff in Hf. destruct Hf as [Hm Hl].
      rewrite list_mentions_cons in HK. apply Forall_app in HK. destruct HK as [HKm HKl].
      cbn [visit_all]. destruct (visit_flat false m S Hm HS HKm) as [e E]. cbn [andb] in E. rewrite E. cbn [obind].
      rewrite (IH (S ++ scan_order (member_lists m)) Hl (proj2 (Forall_app _ _ _) (conj HS HKm)) HKl).
      cbn [obind map]. rewrite list_mentions_cons, app_assoc. reflexivity.
  Qed.

  (* THE list theorem: a list without lists inside, ids in D *)
  Theorem recipients_list_refines l :
    forallb flat_member l = true -> Forall D (list_mentions l) ->
    recipients_list eqv (Some l)
    = Ok (iri_items (first_mentions eqv (list_mentions l)), Some (map (member_after eqv) l)).
  Proof.
    intros Hf HK. unfold recipients_list, recipients_list_with.
    pose proof (visit_all_flat l [] Hf (Forall_nil D) HK) as V.
    change (visit_all (member_step eqv) false l []) with (visit_all (member_step eqv) false l (map (IIri false) (first_mentions eqv []))).
    rewrite V. cbn [obind app].
    assert (HF : Forall D (first_mentions eqv (list_mentions l))) by (apply Forall_fm; exact HK).
    assert (Hs : scan_order [Some (map (IIri false) (first_mentions eqv (list_mentions l)))]
                 = first_mentions eqv (list_mentions l)).
    { unfold scan_order. cbn [flat_map opt_keys]. rewrite app_nil_r. apply keys_of_iris. apply Forall_D_nameable. exact HF. }
    rewrite (dedup_refines' eqv D eqv_sym eqv_trans); rewrite Hs; [|exact HF].
    cbn [obind]. rewrite (fm_idem _ HK). reflexivity.
  Qed.

  (* the nil receiver *)
  Lemma recipients_list_nil : recipients_list eqv None = Ok (iri_items [], None).
  Proof. reflexivity. Qed.
End OnD.

(* ------------------------------------------------------------------ what member_after means (no hypothesis) *)
Lemma five_lists_split fs : five_lists fs = addressing fs ++ [get_items F_Audience fs].
Proof. reflexivity. Qed.

Lemma member_after_addressing eqv p k fs : object_member (IObj p k fs) = true ->
  exists fs', member_after eqv (IObj true k fs) = IObj true k fs' /\
    addressing fs' = keep_first_lists eqv [] (addressing fs) /\
    (forall f, is_addr4 f = false -> getf f fs' = getf f fs).
Proof.
  intro Ho. assert (Ho' : object_member (IObj true k fs) = true) by exact Ho.
  unfold member_after. rewrite Ho'. eexists. split; [reflexivity|]. split.
  - rewrite five_lists_split, keep_first_lists_app.
    remember (keep_first_lists eqv [] (addressing fs)) as A eqn:EA.
    assert (L : length A = 4) by (subst A; rewrite keep_first_lists_length; reflexivity).
    destruct A as [|t [|c [|b [|bc [|? ?]]]]]; try discriminate L.
    cbn [app]. apply write_back_addressing.
  - intros f Hf. apply write_back_frame. exact Hf.
Qed.

Lemma member_after_other eqv m :
  match m with IObj true k _ => object_member m = false | _ => True end -> member_after eqv m = m.
Proof. destruct m as [| | |[|] k fs| |]; cbn [member_after]; intro H; try reflexivity. rewrite H. reflexivity. Qed.

(* a nil-like / plain member mentions nobody and stays *)
Lemma plain_member_skipped eqv n l1 l2 : plain_member n = true ->
  list_mentions (l1 ++ n :: l2) = list_mentions (l1 ++ l2) /\ member_after eqv n = n.
Proof.
  intro H. split.
  - unfold list_mentions. rewrite !flat_map_app. cbn [flat_map].
    assert (E : scan_order (member_lists n) = []).
    { destruct n as [|k|p s|p k fs|p [l|]|p [l|]]; try discriminate H; try reflexivity.
      destruct k; try discriminate H. reflexivity. }
    rewrite E. reflexivity.
  - destruct n as [|k|p s|p k fs|p [l|]|p [l|]]; try discriminate H; try reflexivity.
    destruct k; try discriminate H. destruct p; reflexivity.
Qed.

(* ------------------------------------------------------------------ the code's comparison on the domain of C14 *)
Lemma iri_dom_nameable a : iri_dom a = true -> nameable a = true.
Proof.
  intro H. unfold nameable. apply negb_true_iff.
  destruct (is_nil (IIri false a)) eqn:E; [|reflexivity]. exfalso.
  cbn [is_nil] in E. destruct a as [|c r]; [vm_compute in H; discriminate|].
  (* fold_eqb (c :: r) "-" = true forces a one-byte string that is "-" *)
  unfold nil_iri in E. destruct r as [|c2 r2].
  - assert (Hc : c = "-"%byte).
    { revert E. unfold fold_eqb. cbn. intro E. apply andb_true_iff in E. destruct E as [E _].
      revert E. generalize c. clear. intro c.
      refine (match c with "-"%byte => fun _ => eq_refl | _ => _ end); vm_compute; discriminate. }
    subst c. vm_compute in H. discriminate.
  - exfalso. revert E. unfold fold_eqb. cbn. rewrite andb_false_r. discriminate.
Qed.

Lemma forallb_Forall_dom l : forallb iri_dom l = true -> Forall (fun a => iri_dom a = true) l.
Proof. intro H. apply Forall_forall. intros x Hx. rewrite forallb_forall in H. auto. Qed.

Theorem recipients_list_m_refines_dom l :
  forallb flat_member l = true -> forallb iri_dom (list_mentions l) = true ->
  recipients_list_m (Some l)
  = Ok (iri_items (first_mentions ideq (list_mentions l)), Some (map (member_after ideq) l)).
Proof.
  intros Hf Hd. unfold recipients_list_m.
  apply (recipients_list_refines ideq (fun a => iri_dom a = true)).
  - intros a b _ _. apply ideq_sym.
  - intros a b c. apply ideq_trans_dom.
  - apply iri_dom_nameable.
  - exact Hf.
  - apply forallb_Forall_dom. exact Hd.
Qed.

(* ------------------------------------------------------------------ no panic on ANY list, lists inside included *)
Section ItemListInd.
  Variable P : item -> Prop.
  Hypotheses (HNil : P INil) (HTNil : forall k, P (ITNil k)) (HIri : forall p s, P (IIri p s))
    (HObj : forall p k fs, P (IObj p k fs)) (HItemsN : forall p, P (IItems p None))
    (HItems : forall p l, Forall P l -> P (IItems p (Some l))) (HIris : forall p l, P (IIris p l)).
  Fixpoint item_list_ind (i : item) : P i :=
    match i as i0 return P i0 with
    | INil => HNil
    | ITNil k => HTNil k
    | IIri p s => HIri p s
    | IObj p k fs => HObj p k fs
    | IItems p None => HItemsN p
    | IItems p (Some l) =>
        HItems p l ((fix go (l : list item) : Forall P l :=
                       match l as l0 return Forall P l0 with
                       | [] => Forall_nil _
                       | x :: r => Forall_cons x (item_list_ind x) (go r)
                       end) l)
    | IIris p l => HIris p l
    end.
End ItemListInd.

Section Total.
  Variable eqv : bytes -> bytes -> bool.
  Variable D : bytes -> Prop.
  Hypothesis eqv_sym : forall a b, D a -> D b -> eqv a b = eqv b a.
  Hypothesis eqv_trans : forall a b c, D a -> D b -> D c -> eqv a b = true -> eqv b c = true -> eqv a c = true.

  (* `all` holds IRIs taken from the recorded ids *)
  Definition all_ok (all : list item) : Prop := exists A, all = map (IIri false) A /\ Forall D A.

  Lemma all_append_ok all rec : all_ok all -> Forall D rec -> all_ok (all_append eqv all rec).
  Proof.
    revert all. induction rec as [|t rec IH]; intros all Ha Hr; [exact Ha|].
    inversion Hr as [|? ? Dt Hr']; subst. unfold all_append, g_append. cbn [map fold_left].
    change (all_ok (all_append eqv (g_append1 item (iri_item_eqb eqv) all (IIri false t)) rec)).
    apply IH; [|exact Hr']. unfold g_append1. destruct (g_contains item (iri_item_eqb eqv) all (IIri false t)); [exact Ha|].
    destruct Ha as [A [E HA]]. exists (A ++ [t]). split.
    - rewrite map_app, E. reflexivity.
    - apply Forall_app. split; [exact HA|constructor; [exact Dt|constructor]].
  Qed.

  Lemma member_step_total fs all : all_ok all -> Forall D (scan_order (five_lists fs)) ->
    exists all' fs', member_step eqv fs all = Ok (all', fs') /\ all_ok all'.
  Proof.
    intros Ha H. unfold member_step. rewrite (dedup_refines' eqv D eqv_sym eqv_trans _ H). cbn [obind].
    do 2 eexists. split; [reflexivity|]. apply all_append_ok; [exact Ha|].
    apply Forall_forall. intros x Hx. rewrite Forall_forall in H. apply H.
    eapply subseq_In; [apply fm_subseq|exact Hx].
  Qed.

  Lemma visit_total it : forall all, all_ok all -> Forall D (deep_mentions it) ->
    exists e all' it', visit (member_step eqv) false it all = Ok (e, all', it') /\ all_ok all'.
  Proof.
    induction it as [|k|p s|p k fs|p|p l IH|p l] using item_list_ind; intros all Ha HD;
      try (do 3 eexists; split; [reflexivity|exact Ha]).
    - (* struct *)
      destruct (kind_beq k KLink) eqn:Ek.
      + apply internal_kind_dec_bl in Ek. subst k. do 3 eexists. split; [reflexivity|exact Ha].
      + assert (HD' : Forall D (scan_order (five_lists fs))) by (destruct k; try exact HD; discriminate Ek).
        destruct (member_step_total fs all Ha HD') as [all' [fs' [E Ha']]].
        assert (Hv : visit (member_step eqv) false (IObj p k fs) all
                     = obind (member_step eqv fs all)
                         (fun '(all', fs') => Ok (false, all', if p then IObj true k fs' else IObj p k fs)))
          by (destruct k; try reflexivity; discriminate Ek).
        rewrite Hv, E. cbn [obind]. do 3 eexists. split; [reflexivity|exact Ha'].
    - (* nil list *) destruct p; do 3 eexists; (split; [reflexivity|exact Ha]).
    - (* a list: the inner loop *)
      cbn [deep_mentions] in HD.
      assert (G : forall all, all_ok all ->
                  Forall D ((fix go (l : list item) : list bytes :=
                               match l with [] => [] | m :: r => deep_mentions m ++ go r end) l) ->
                  exists e all' l',
                    (fix go (l : list item) (all : list item) {struct l} : outcome (bool * list item * list item) :=
                       match l with
                       | [] => Ok (false, all, [])
                       | m :: r =>
                           if is_link m then omap (fun '(e, a, r') => (e, a, m :: r')) (go r all)
                           else obind (visit (member_step eqv) false m all) (fun '(e, a, m') =>
                                  if (e : bool) then Ok (true, a, m' :: r)
                                  else omap (fun '(e', a', r') => (e', a', m' :: r')) (go r a))
                       end) l all = Ok (e, all', l') /\ all_ok all').
      { clear HD Ha all. induction l as [|m r IHr]; intros all Ha HD.
        - do 3 eexists. split; [reflexivity|exact Ha].
        - inversion IH as [|? ? Hm Hr]; subst. apply Forall_app in HD. destruct HD as [HDm HDr].
          destruct (is_link m).
          + destruct (IHr Hr all Ha HDr) as [e [a [r' [E Ha']]]]. rewrite E. cbn [omap]. do 3 eexists. split; [reflexivity|exact Ha'].
          + destruct (Hm all Ha HDm) as [e [a [m' [E Ha']]]]. rewrite E. cbn [obind]. destruct e.
            * do 3 eexists. split; [reflexivity|exact Ha'].
            * destruct (IHr Hr a Ha' HDr) as [e' [a' [r' [E' Ha'']]]]. rewrite E'. cbn [omap].
              do 3 eexists. split; [reflexivity|exact Ha'']. }
      destruct (G all Ha HD) as [e [all' [l' [E Ha']]]]. cbn [visit]. rewrite E. cbn [obind].
      do 3 eexists. split; [reflexivity|exact Ha'].
    - (* IRIs *) destruct l as [l|]; [|destruct p]; do 3 eexists; (split; [reflexivity|exact Ha]).
  Qed.

  Lemma visit_all_total l : forall all, all_ok all -> Forall D (deep_mentions_list l) ->
    exists all' l', visit_all (member_step eqv) false l all = Ok (all', l') /\ all_ok all'.
  Proof.
    induction l as [|m l IH]; intros all Ha HD.
    - do 2 eexists. split; [reflexivity|exact Ha].
    - unfold deep_mentions_list in HD. cbn [flat_map] in HD. apply Forall_app in HD. destruct HD as [Hm Hl].
      destruct (visit_total m all Ha Hm) as [e [a [m' [E Ha']]]]. cbn [visit_all]. rewrite E. cbn [obind].
      destruct (IH a Ha' Hl) as [a' [l' [E' Ha'']]]. rewrite E'. cbn [obind]. do 2 eexists. split; [reflexivity|exact Ha''].
  Qed.

  Hypothesis D_nameable : forall a, D a -> nameable a = true.

  (* ItemCollection.Recipients() ends in a value on every list - nil-like members, links, IRIs, lists in lists at
     any depth - whose compared ids lie in D *)
  Theorem recipients_list_total i :
    Forall D (deep_mentions_list (match i with Some l => l | None => [] end)) ->
    exists r l', recipients_list eqv i = Ok (r, l').
  Proof.
    intro HD. unfold recipients_list, recipients_list_with.
    destruct (visit_all_total _ [] (ex_intro _ [] (conj eq_refl (Forall_nil D))) HD) as [all [l' [E [A [EA HA]]]]].
    rewrite E. cbn [obind]. subst all.
    assert (Hs : scan_order [Some (map (IIri false) A)] = A).
    { unfold scan_order. cbn [flat_map opt_keys]. rewrite app_nil_r. apply keys_of_iris.
      apply forallb_forall. intros x Hx. apply D_nameable. rewrite Forall_forall in HA. auto. }
    rewrite (dedup_refines' eqv D eqv_sym eqv_trans); rewrite Hs; [|exact HA]. cbn [obind]. eauto.
  Qed.
End Total.

Theorem recipients_list_m_total_dom i :
  forallb iri_dom (deep_mentions_list (match i with Some l => l | None => [] end)) = true ->
  exists r l', recipients_list_m i = Ok (r, l').
Proof.
  intro H. unfold recipients_list_m. apply (recipients_list_total ideq (fun a => iri_dom a = true)).
  - intros a b _ _. apply ideq_sym.
  - intros a b c. apply ideq_trans_dom.
  - apply iri_dom_nameable.
  - apply forallb_Forall_dom. exact H.
Qed.

(* a flat list: the deep mentions are the mentions *)
Lemma deep_mentions_flat l : forallb flat_member l = true -> deep_mentions_list l = list_mentions l.
Proof.
  induction l as [|m l IH]; intro H; [reflexivity|]. cbn [forallb] in H. apply andb_true_iff in H. destruct H as [Hm Hl].
  unfold deep_mentions_list, list_mentions in *. cbn [flat_map]. rewrite (IH Hl). f_equal.
  destruct m as [|k|p s|p k fs|[|] [l0|]|[|] [l0|]]; try discriminate Hm; try reflexivity.
  destruct k; reflexivity.
Qed.

(* ------------------------------------------------------------------ all.Append is the container operation of Coll.v *)
Lemma no_swap_iris a b : needs_swap (IIri false a) (IIri false b) = false.
Proof. unfold needs_swap. cbn [is_iri negb andb]. vm_compute. reflexivity. Qed.

Lemma items_eqb_iris a b : items_eqb (IIri false a) (IIri false b) = iri_item_eqb ideq (IIri false a) (IIri false b).
Proof.
  unfold items_eqb, ieq. change (fuel_for (IIri false a) (IIri false b)) with 4.
  unfold items_equal. cbn [items_equal_c]. unfold items_equal_body at 1. unfold iri_item_eqb.
  destruct (is_nil (IIri false a) || is_nil (IIri false b)); [reflexivity|].
  rewrite no_swap_iris. cbn [is_iri orb]. reflexivity.
Qed.

Lemma all_append_is_coll A rec : all_append ideq (map (IIri false) A) rec = all_append_coll (map (IIri false) A) rec.
Proof.
  revert A. induction rec as [|t rec IH]; intro A; [reflexivity|].
  unfold all_append, all_append_coll, ic_append, g_append in *. cbn [map fold_left].
  assert (E : g_append1 item (iri_item_eqb ideq) (map (IIri false) A) (IIri false t)
              = g_append1 item items_eqb (map (IIri false) A) (IIri false t)).
  { unfold g_append1, g_contains. rewrite !existsb_map_f.
    rewrite (existsb_ext_in (fun x => items_eqb (IIri false x) (IIri false t)) (fun x => iri_item_eqb ideq (IIri false x) (IIri false t)) A)
      by (intros x _; apply items_eqb_iris). reflexivity. }
  rewrite <- E. unfold g_append1. destruct (g_contains item (iri_item_eqb ideq) (map (IIri false) A) (IIri false t)).
  - apply IH.
  - change (map (IIri false) A ++ [IIri false t]) with (map (IIri false) A ++ map (IIri false) [t]).
    rewrite <- map_app. apply IH.
Qed.
