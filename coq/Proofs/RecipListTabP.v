(* The tie between the generated table of ItemCollection.Recipients() (Gen/RecipListT.v) and the hand-written model
   (Model/RecipList.v):   recip_list_table_ok T = true -> recipients_list_t eqv T i = recipients_list eqv i
   for every id comparison and every i. *)
From AP.Model Require Import Prelude Vocab Pred IriEq Recip RecipTab TabEq RecipList RecipListTab.
From AP.Proofs Require Import TabEqP RecipTabP RecipListP.

Section Ext.
  Variables s1 s2 : list (fid * fval) -> list item -> outcome (list item * list (fid * fval)).
  Hypothesis s_ext : forall fs all, s1 fs all = s2 fs all.
  Variable b : bool.

  (* the loop depends on the callback only through its values *)
  Lemma visit_ext it : forall all, visit s1 b it all = visit s2 b it all.
  Proof.
    induction it as [|k|p s|p k fs|p|p l IH|p l] using item_list_ind; intro all; try reflexivity.
    - destruct k; cbn [visit]; try rewrite s_ext; reflexivity.
    - cbn [visit]. f_equal. revert all. induction l as [|m r IHr]; intro all; [reflexivity|].
      inversion IH as [|? ? Hm Hr]; subst. destruct (is_link m).
      + rewrite (IHr Hr). reflexivity.
      + rewrite Hm. destruct (visit s2 b m all) as [[[e a] m']| | |]; cbn [obind]; try reflexivity.
        destruct e; [reflexivity|]. rewrite (IHr Hr). reflexivity.
  Qed.

  Lemma visit_all_ext l : forall all, visit_all s1 b l all = visit_all s2 b l all.
  Proof.
    induction l as [|m l IH]; intro all; [reflexivity|]. cbn [visit_all]. rewrite visit_ext.
    destruct (visit s2 b m all) as [[[e a] m']| | |]; cbn [obind]; try reflexivity. rewrite IH. reflexivity.
  Qed.
End Ext.

Section Tie.
  Variable eqv : bytes -> bytes -> bool.

  Lemma member_step_model fs all : member_step_t eqv model_list_args fs all = member_step eqv fs all.
  Proof.
    unfold member_step_t, member_step.
    change (scan_lists_t model_list_args fs) with (five_lists fs).
    destruct (dedup eqv (five_lists fs)) as [[rec cols]| | |] eqn:Hd; cbn [obind]; try reflexivity.
    unfold dedup in Hd. apply dedup_from_length in Hd.
    destruct cols as [|t [|c [|b0 [|bc [|x [|y rest]]]]]]; try discriminate Hd. reflexivity.
  Qed.

  Lemma ocargs_beq_eq a b : ocargs_beq a b = true -> a = b.
  Proof.
    destruct a as [x|], b as [y|]; simpl; try discriminate; [|reflexivity].
    intro H. f_equal. apply (lbeq_eq _ internal_carg_dec_bl). exact H.
  Qed.

  Theorem recip_list_table_tie T : recip_list_table_ok T = true ->
    forall i, recipients_list_t eqv T i = recipients_list eqv i.
  Proof.
    intros Hok i. unfold recip_list_table_ok in Hok. apply andb_prop in Hok. destruct Hok as [Hs _].
    apply ocargs_beq_eq in Hs. unfold recipients_list_t. rewrite Hs.
    unfold recipients_list, recipients_list_with.
    rewrite (visit_all_ext (member_step_t eqv model_list_args) (member_step eqv) (member_step_model) false).
    reflexivity.
  Qed.
End Tie.

Theorem recip_list_table_tie' : forall T, recip_list_table_ok T = true ->
  forall eqv i, recipients_list_t eqv T i = recipients_list eqv i.
Proof. intros T H eqv i. apply (recip_list_table_tie eqv T H). Qed.
