(* C10 on the domain of C14: the transitivity hypothesis of the instantiated theorems (trans_on ideq) is a
   THEOREM when every addressee id is an absolute URL of the grammar with a query string in one letter case
   (iri_dom, Model/IriNf.v).  Model: Model/Recip.v; comparison: Model/IriEq.v. *)
From AP.Model Require Import Prelude Vocab Pred IriEq IriNf Recip.
From AP.Proofs Require Import IriEqP IriNfP RecipP.

Lemma ideq_trans_dom a b c :
  iri_dom a = true -> iri_dom b = true -> iri_dom c = true ->
  ideq a b = true -> ideq b c = true -> ideq a c = true.
Proof. unfold ideq. apply iri_eqb_trans. Qed.

Lemma ideq_nf a b : iri_dom a = true -> iri_dom b = true -> ideq a b = nf_eqb (nf false a) (nf false b).
Proof. unfold ideq. apply iri_eqb_nf. Qed.

(* the boolean hypothesis of C10_code_* holds on every list of ids of the domain *)
Lemma trans_on_dom l : forallb iri_dom l = true -> trans_on ideq l = true.
Proof.
  intros Hd. rewrite forallb_forall in Hd. unfold trans_on.
  apply forallb_forall. intros a Ha. apply forallb_forall. intros b Hb.
  destruct (ideq a b) eqn:Eab; [|reflexivity].
  apply forallb_forall. intros c Hc. destruct (ideq b c) eqn:Ebc; [|reflexivity].
  apply (ideq_trans_dom a b c); auto.
Qed.

Lemma recipients_m_refines_dom k fs fs1 :
  has_recipients k = true -> recip_pre ideq k fs = Ok fs1 ->
  forallb iri_dom (scan_order (scan_lists k fs1)) = true ->
  recipients_m (IObj true k fs)
  = Ok (iri_items (first_mentions ideq (scan_order (scan_lists k fs1))),
        IObj true k (write_back (keep_first_lists ideq [] (scan_lists k fs1)) fs1)).
Proof. intros Hk Hp Hd. apply recipients_m_refines; auto. apply trans_on_dom. exact Hd. Qed.

Lemma recipients_m_addressing_dom k fs fs1 r fs' :
  has_recipients k = true -> recip_pre ideq k fs = Ok fs1 ->
  forallb iri_dom (scan_order (scan_lists k fs1)) = true ->
  recipients_m (IObj true k fs) = Ok (r, IObj true k fs') ->
  addressing fs' = keep_first_lists ideq [] (addressing fs1) /\
  (forall f, is_addr4 f = false -> getf f fs' = getf f fs1) /\
  (forall f, is_addr5 f = false -> getf f fs' = getf f fs).
Proof. intros Hk Hp Hd. apply recipients_m_addressing; auto. apply trans_on_dom. exact Hd. Qed.

(* the returned list in the words of the property, for the code's comparison: an order-preserving sub-list of
   the scan, and every mention is equivalent to exactly one returned id; equivalence = same normal form *)
Lemma first_mentions_meaning_dom ks :
  forallb iri_dom ks = true ->
  subseq (first_mentions ideq ks) ks /\
  (forall k, In k ks -> length (filter (ideq k) (first_mentions ideq ks)) = 1) /\
  (forall a b, In a ks -> In b ks -> (ideq a b = true <-> nf false a = nf false b)).
Proof.
  intros Hd. pose proof Hd as Hd'. rewrite forallb_forall in Hd'.
  destruct (first_mentions_meaning ideq (fun a => iri_dom a = true)) with (ks := ks) as [H1 H2].
  - intros a _. apply ideq_refl.
  - intros a b _ _. apply ideq_sym.
  - intros a b c. apply ideq_trans_dom.
  - apply Forall_forall. exact Hd'.
  - split; [exact H1|]. split; [exact H2|].
    intros a b Ha Hb. unfold ideq. apply (iri_eqb_nf_eq no_upper LowerP.no_upper_inj); auto.
Qed.
