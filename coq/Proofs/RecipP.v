(* Lemmas about Model/Recip.v: the literal de-duplication refines first_mentions / keep_first when the id
   comparison is symmetric and transitive on the ids that occur; meaning of the specification; frame; Block. *)
From AP.Model Require Import Prelude Vocab Pred IriEq Recip.
From AP.Proofs Require Import IriEqP.
From AP.Gen Require Import TypeLists.

(* ------------------------------------------------------------------ generic list / slice facts *)
Lemma obind_ok {A B} (o : outcome A) (f : A -> outcome B) b :
  obind o f = Ok b -> exists a, o = Ok a /\ f a = Ok b.
Proof. destruct o; simpl; intros H; try discriminate. eauto. Qed.

Lemma delete_all_app {A} (a b : list nat) (l : list A) :
  delete_all (a ++ b) l = obind (delete_all a l) (delete_all b).
Proof.
  revert l. induction a as [|i a IH]; intros l; simpl.
  - reflexivity.
  - destruct (delete_at i l); simpl; auto.
Qed.

Lemma firstn_skipn_mid {A} (pre : list A) x post :
  firstn (length pre) (pre ++ x :: post) ++ skipn (S (length pre)) (pre ++ x :: post) = pre ++ post.
Proof. induction pre as [|y pre IH]; simpl; [reflexivity|]. f_equal. exact IH. Qed.

Lemma delete_at_mid {A} (pre : list A) x post :
  delete_at (length pre) (pre ++ x :: post) = Ok (pre ++ post).
Proof.
  unfold delete_at. rewrite app_length. simpl length.
  replace (length pre <? length pre + S (length post)) with true
    by (symmetry; apply Nat.ltb_lt; lia).
  rewrite firstn_skipn_mid. reflexivity.
Qed.

Fixpoint idxs_of (i : nat) (m : list bool) : list nat :=
  match m with [] => [] | b :: r => (if b then [i] else []) ++ idxs_of (S i) r end.
Fixpoint keep {A} (m : list bool) (l : list A) : list A :=
  match m, l with
  | b :: m', x :: l' => (if b then [] else [x]) ++ keep m' l'
  | _, _ => []
  end.

Lemma idxs_ge i m y : In y (idxs_of i m) -> i <= y.
Proof.
  revert i. induction m as [|b m IH]; intros i H; simpl in H; [tauto|].
  apply in_app_or in H. destruct H as [H|H].
  - destruct b; simpl in H; [destruct H as [<-|[]]; lia | tauto].
  - apply IH in H. lia.
Qed.

Lemma insert_desc_snoc x l : (forall y, In y l -> x <= y) -> insert_desc x l = l ++ [x].
Proof.
  induction l as [|y l IH]; intros H; simpl; [reflexivity|].
  assert (Hy : x <= y) by (apply H; left; reflexivity).
  replace (y <? x) with false by (symmetry; apply Nat.ltb_ge; lia).
  rewrite IH; [reflexivity|]. intros z Hz. apply H. right. exact Hz.
Qed.

Lemma sort_desc_idxs i m : sort_desc (idxs_of i m) = rev (idxs_of i m).
Proof.
  revert i. induction m as [|b m IH]; intros i; simpl; [reflexivity|].
  destruct b; simpl.
  - rewrite IH. apply insert_desc_snoc. intros y Hy. apply in_rev in Hy. apply idxs_ge in Hy. lia.
  - apply IH.
Qed.

Lemma delete_rev_idxs {A} (m : list bool) : forall (pre l : list A),
  length m = length l ->
  delete_all (rev (idxs_of (length pre) m)) (pre ++ l) = Ok (pre ++ keep m l).
Proof.
  induction m as [|b m IH]; intros pre l Hlen; destruct l as [|x l]; simpl in Hlen; try discriminate.
  - simpl. rewrite app_nil_r. reflexivity.
  - simpl idxs_of. rewrite rev_app_distr, delete_all_app.
    specialize (IH (pre ++ [x]) l ltac:(lia)).
    rewrite app_length in IH. simpl in IH. replace (length pre + 1) with (S (length pre)) in IH by lia.
    rewrite <- app_assoc in IH. simpl in IH. rewrite IH. simpl obind.
    destruct b; simpl.
    + rewrite <- app_assoc. simpl. rewrite delete_at_mid. reflexivity.
    + rewrite <- app_assoc. reflexivity.
Qed.

Lemma delete_sorted_idxs {A} (m : list bool) (l : list A) :
  length m = length l -> delete_all (sort_desc (idxs_of 0 m)) l = Ok (keep m l).
Proof. intros H. rewrite sort_desc_idxs. exact (delete_rev_idxs m [] l H). Qed.

(* deletion never invents or reorders *)
Lemma subseq_refl {A} (l : list A) : subseq l l.
Proof. induction l; constructor; auto. Qed.
Lemma subseq_trans {A} (a b c : list A) : subseq a b -> subseq b c -> subseq a c.
Proof.
  intros Hab Hbc. revert a Hab. induction Hbc; intros a' Hab.
  - exact Hab.
  - inversion Hab; subst; constructor; auto.
  - constructor. auto.
Qed.
Lemma subseq_app {A} (a b c d : list A) : subseq a b -> subseq c d -> subseq (a ++ c) (b ++ d).
Proof. induction 1 as [|x a b Hab IH|x a b Hab IH]; intros Hcd; simpl; [exact Hcd | constructor; auto | constructor; auto]. Qed.
Lemma subseq_nil_l {A} (l : list A) : subseq [] l.
Proof. induction l; constructor; auto. Qed.
Lemma subseq_In {A} (a b : list A) x : subseq a b -> In x a -> In x b.
Proof. induction 1 as [|y a b Hab IH|y a b Hab IH]; simpl; intros Hx; auto. destruct Hx; auto. Qed.
Lemma subseq_firstn_skipn {A} i (l : list A) : subseq (firstn i l ++ skipn (S i) l) l.
Proof.
  revert i. induction l as [|x l IH]; intros i.
  - destruct i; simpl; constructor.
  - destruct i; simpl.
    + constructor. apply subseq_refl.
    + constructor. apply IH.
Qed.
Lemma delete_at_subseq {A} i (l r : list A) : delete_at i l = Ok r -> subseq r l.
Proof.
  unfold delete_at. destruct (i <? length l); intros H; inversion H. apply subseq_firstn_skipn.
Qed.
Lemma delete_all_subseq {A} idxs : forall (l r : list A), delete_all idxs l = Ok r -> subseq r l.
Proof.
  induction idxs as [|i idxs IH]; intros l r H; simpl in H.
  - inversion H. apply subseq_refl.
  - apply obind_ok in H. destruct H as [l1 [H1 H2]].
    eapply subseq_trans; [apply IH; exact H2 | eapply delete_at_subseq; exact H1].
Qed.

(* ------------------------------------------------------------------ no entry makes the loop panic *)
Lemma entry_key_ok x : is_ok (entry_key x) = true.
Proof.
  unfold entry_key. destruct (is_nil x) eqn:E; [reflexivity|].
  destruct x as [|k|p s|p k fs|p l|p l]; simpl in E; try discriminate; try reflexivity.
  destruct k; try reflexivity.
  unfold omap, entry_key_body, meth_is_object, meth_is_link. cbv zeta.
  generalize (bytes_eqb (get_str F_Type fs) (B "Object") || tl_contains tl_ObjectTypes (get_str F_Type fs)).
  generalize (bytes_eqb (get_str F_Type fs) (B "Link") || tl_contains tl_LinkTypes (get_str F_Type fs)).
  intros b2 b1. destruct b1, b2; reflexivity.
Qed.
Lemma entries_ok_all cols : entries_ok cols.
Proof. intros l x _ _. apply entry_key_ok. Qed.

(* ------------------------------------------------------------------ the specification functions *)
Section SpecFacts.
  Variable eqv : bytes -> bytes -> bool.

  Lemma fm_app s a b :
    first_mentions_from eqv s (a ++ b) = first_mentions_from eqv s a ++ first_mentions_from eqv (s ++ a) b.
  Proof.
    revert s. induction a as [|k a IH]; intros s; simpl.
    - rewrite app_nil_r. reflexivity.
    - rewrite IH, <- !app_assoc. reflexivity.
  Qed.

  Lemma fm_snoc s k :
    first_mentions eqv (s ++ [k]) = first_mentions eqv s ++ (if existsb (eqv k) s then [] else [k]).
  Proof. unfold first_mentions. rewrite fm_app. simpl. rewrite app_nil_r. reflexivity. Qed.

  Lemma fm_subseq s ks : subseq (first_mentions_from eqv s ks) ks.
  Proof.
    revert s. induction ks as [|k ks IH]; intros s; simpl; [constructor|].
    destruct (existsb (eqv k) s); simpl; constructor; apply IH.
  Qed.

  Lemma keys_of_app a b : keys_of (a ++ b) = keys_of a ++ keys_of b.
  Proof. unfold keys_of. apply flat_map_app. Qed.

  Lemma keep_first_subseq s l : subseq (keep_first eqv s l) l.
  Proof.
    revert s. induction l as [|x l IH]; intros s; simpl; [constructor|].
    destruct (key_of x) as [t|].
    - destruct (existsb (eqv t) s); simpl; constructor; apply IH.
    - constructor. apply IH.
  Qed.

  Lemma keys_of_cons x l :
    keys_of (x :: l) = (match key_of x with Some t => [t] | None => [] end) ++ keys_of l.
  Proof. reflexivity. Qed.

  (* entries without a key (nil entries, nested lists) are untouched *)
  Lemma keep_first_nokey s l :
    filter has_no_key (keep_first eqv s l) = filter has_no_key l.
  Proof.
    revert s. induction l as [|x l IH]; intros s; [reflexivity|].
    cbn [keep_first filter].
    destruct (key_of x) as [t|] eqn:E.
    - assert (Hx : has_no_key x = false) by (unfold has_no_key; rewrite E; reflexivity).
      rewrite Hx, filter_app, IH. destruct (existsb (eqv t) s); cbn [filter app]; [reflexivity|].
      rewrite Hx. reflexivity.
    - assert (Hx : has_no_key x = true) by (unfold has_no_key; rewrite E; reflexivity).
      cbn [filter]. rewrite Hx, IH. reflexivity.
  Qed.

  (* the addressees that stay in a list are the first mentions of that list *)
  Lemma keys_keep_first s l : keys_of (keep_first eqv s l) = first_mentions_from eqv s (keys_of l).
  Proof.
    revert s. induction l as [|x l IH]; intros s; [reflexivity|].
    cbn [keep_first]. rewrite (keys_of_cons x l). destruct (key_of x) as [t|] eqn:E.
    - rewrite keys_of_app, IH. cbn [app first_mentions_from]. destruct (existsb (eqv t) s).
      + reflexivity.
      + rewrite keys_of_cons, E. reflexivity.
    - rewrite keys_of_cons, E. cbn [app]. apply IH.
  Qed.

  Lemma scan_order_keep_first s cols :
    scan_order (keep_first_lists eqv s cols) = first_mentions_from eqv s (scan_order cols).
  Proof.
    revert s. induction cols as [|c cols IH]; intros s; simpl; [reflexivity|].
    destruct c as [l|]; simpl.
    - unfold scan_order in *. simpl. rewrite fm_app, keys_keep_first, IH. reflexivity.
    - apply IH.
  Qed.

  Lemma keep_first_lists_app s a b :
    keep_first_lists eqv s (a ++ b) = keep_first_lists eqv s a ++ keep_first_lists eqv (s ++ scan_order a) b.
  Proof.
    revert s. induction a as [|c a IH]; intros s; simpl.
    - rewrite app_nil_r. reflexivity.
    - destruct c as [l|]; simpl; rewrite IH; unfold scan_order; simpl.
      + rewrite app_assoc. reflexivity.
      + reflexivity.
  Qed.

  Lemma keep_first_lists_length s cols : length (keep_first_lists eqv s cols) = length cols.
  Proof. revert s. induction cols as [|[l|] cols IH]; intros s; simpl; auto. Qed.

  (* ---- under symmetry and transitivity on the ids that occur ---- *)
  Variable D : bytes -> Prop.
  Hypothesis eqv_sym : forall a b, D a -> D b -> eqv a b = eqv b a.
  Hypothesis eqv_trans : forall a b c, D a -> D b -> D c -> eqv a b = true -> eqv b c = true -> eqv a c = true.

  Lemma fm_In s ks x : In x (first_mentions_from eqv s ks) -> In x ks.
  Proof. intros H. eapply subseq_In; [apply fm_subseq | exact H]. Qed.

  (* THE key fact: an id matches at most one recorded id, and exactly one iff it was mentioned before *)
  Lemma matches_in_rec seen t :
    Forall D seen -> D t ->
    length (filter (eqv t) (first_mentions eqv seen)) = if existsb (eqv t) seen then 1 else 0.
  Proof.
    intros Hs Ht. induction seen as [|k s IH] using rev_ind.
    - reflexivity.
    - apply Forall_app in Hs. destruct Hs as [Hs Hk]. inversion Hk as [|? ? Dk _]; subst.
      specialize (IH Hs).
      rewrite fm_snoc, filter_app, app_length, IH, existsb_app. simpl. rewrite orb_false_r.
      destruct (existsb (eqv k) s) eqn:Eks.
      + simpl. rewrite Nat.add_0_r.
        destruct (existsb (eqv t) s) eqn:Ets; [reflexivity|].
        destruct (eqv t k) eqn:Etk; [|reflexivity].
        exfalso. apply existsb_exists in Eks. destruct Eks as [s0 [Hin Eks0]].
        assert (Ds0 : D s0) by (rewrite Forall_forall in Hs; auto).
        assert (eqv t s0 = true) by (eapply eqv_trans with (b := k); eauto).
        assert (existsb (eqv t) s = true) by (apply existsb_exists; eauto). congruence.
      + simpl. destruct (eqv t k) eqn:Etk; simpl.
        * destruct (existsb (eqv t) s) eqn:Ets; [|reflexivity].
          exfalso. apply existsb_exists in Ets. destruct Ets as [s0 [Hin Ets0]].
          assert (Ds0 : D s0) by (rewrite Forall_forall in Hs; auto).
          assert (eqv k t = true) by (rewrite eqv_sym; auto).
          assert (eqv k s0 = true) by (eapply eqv_trans with (b := t); eauto).
          assert (existsb (eqv k) s = true) by (apply existsb_exists; eauto). congruence.
        * rewrite Nat.add_0_r, orb_false_r. reflexivity.
  Qed.

  Hypothesis eqv_refl : forall a, D a -> eqv a a = true.

  (* "names each distinct addressee exactly once": every mention matches exactly one name of the result *)
  Lemma each_exactly_once ks k :
    Forall D ks -> In k ks -> length (filter (eqv k) (first_mentions eqv ks)) = 1.
  Proof.
    intros Hks Hin. assert (Dk : D k) by (rewrite Forall_forall in Hks; auto).
    rewrite matches_in_rec by auto.
    replace (existsb (eqv k) ks) with true; [reflexivity|].
    symmetry. apply existsb_exists. exists k. auto.
  Qed.
End SpecFacts.

(* ------------------------------------------------------------------ refinement *)
Section Refine.
  Variable eqv : bytes -> bytes -> bool.
  Variable D : bytes -> Prop.
  Hypothesis eqv_sym : forall a b, D a -> D b -> eqv a b = eqv b a.
  Hypothesis eqv_trans : forall a b c, D a -> D b -> D c -> eqv a b = true -> eqv b c = true -> eqv a c = true.

  Fixpoint dup_mask (seen : list bytes) (l : list item) : list bool :=
    match l with
    | [] => []
    | x :: r =>
        match key_of x with
        | None => false :: dup_mask seen r
        | Some t => existsb (eqv t) seen :: dup_mask (seen ++ [t]) r
        end
    end.

  Lemma dup_mask_length s l : length (dup_mask s l) = length l.
  Proof. revert s. induction l as [|x l IH]; intros s; simpl; [reflexivity|]. destruct (key_of x); simpl; auto. Qed.

  Lemma keep_dup_mask s l : keep (dup_mask s l) l = keep_first eqv s l.
  Proof.
    revert s. induction l as [|x l IH]; intros s; simpl; [reflexivity|].
    destruct (key_of x) as [t|]; simpl; rewrite IH; reflexivity.
  Qed.

  Lemma scan_refines l : forall i seen rem,
    Forall D seen -> Forall D (keys_of l) -> (forall x, In x l -> is_ok (entry_key x) = true) ->
    scan eqv i l (first_mentions eqv seen) rem
    = Ok (first_mentions eqv (seen ++ keys_of l), rem ++ idxs_of i (dup_mask seen l)).
  Proof.
    induction l as [|x l IH]; intros i seen rem Hs Hk Hok.
    - simpl. rewrite !app_nil_r. reflexivity.
    - assert (Hx : is_ok (entry_key x) = true) by (apply Hok; left; reflexivity).
      rewrite keys_of_cons in Hk. apply Forall_app in Hk. destruct Hk as [Hkx Hkl].
      assert (Hok' : forall y, In y l -> is_ok (entry_key y) = true) by (intros y Hy; apply Hok; right; exact Hy).
      simpl scan. simpl dup_mask. rewrite keys_of_cons. unfold key_of in Hkx |- *.
      destruct (entry_key x) as [k| | |]; simpl in Hx; try discriminate. simpl obind.
      destruct k as [t|].
      + assert (Dt : D t) by (inversion Hkx; auto).
        rewrite (matches_in_rec eqv D eqv_sym eqv_trans seen t Hs Dt).
        assert (Hs' : Forall D (seen ++ [t])) by (apply Forall_app; split; auto).
        specialize (IH (S i) (seen ++ [t]) (rem ++ (if existsb (eqv t) seen then [i] else [])) Hs' Hkl Hok').
        rewrite fm_snoc in IH.
        destruct (existsb (eqv t) seen) eqn:E; simpl Nat.eqb; cbv iota; simpl repeat.
        * rewrite app_nil_r in IH. rewrite IH. rewrite <- !app_assoc. reflexivity.
        * rewrite IH. rewrite <- !app_assoc. simpl. reflexivity.
      + simpl. apply IH; auto.
  Qed.

  Lemma dedup_one_refines seen c :
    Forall D seen -> Forall D (opt_keys c) ->
    (forall l x, c = Some l -> In x l -> is_ok (entry_key x) = true) ->
    dedup_one eqv (first_mentions eqv seen) c
    = Ok (first_mentions eqv (seen ++ opt_keys c),
          match c with None => None | Some l => Some (keep_first eqv seen l) end).
  Proof.
    intros Hs Hk Hok. destruct c as [l|]; simpl.
    - rewrite (scan_refines l 0 seen [] Hs Hk (fun x => Hok l x eq_refl)). simpl.
      rewrite delete_sorted_idxs by apply dup_mask_length. simpl. rewrite keep_dup_mask. reflexivity.
    - rewrite app_nil_r. reflexivity.
  Qed.

  Lemma dedup_from_refines cols : forall seen,
    Forall D seen -> Forall D (scan_order cols) -> entries_ok cols ->
    dedup_from eqv (first_mentions eqv seen) cols
    = Ok (first_mentions eqv (seen ++ scan_order cols), keep_first_lists eqv seen cols).
  Proof.
    induction cols as [|c cols IH]; intros seen Hs Hk Hok.
    - simpl. rewrite app_nil_r. reflexivity.
    - unfold scan_order in Hk. simpl in Hk. apply Forall_app in Hk. destruct Hk as [Hkc Hkr].
      simpl dedup_from.
      rewrite dedup_one_refines; auto.
      2:{ intros l x -> Hx. apply (Hok l x); [left; reflexivity | exact Hx]. }
      simpl obind.
      assert (Hs' : Forall D (seen ++ opt_keys c)) by (apply Forall_app; split; auto).
      rewrite (IH (seen ++ opt_keys c) Hs' Hkr).
      2:{ intros l x Hl Hx. apply (Hok l x); [right; exact Hl | exact Hx]. }
      simpl. unfold scan_order. simpl. rewrite app_assoc.
      destruct c as [l|]; simpl; [reflexivity|]. rewrite app_nil_r. reflexivity.
  Qed.

  Lemma dedup_refines cols :
    Forall D (scan_order cols) -> entries_ok cols ->
    dedup eqv cols = Ok (first_mentions eqv (scan_order cols), keep_first_lists eqv [] cols).
  Proof. intros Hk Hok. exact (dedup_from_refines cols [] (Forall_nil _) Hk Hok). Qed.
End Refine.

(* ------------------------------------------------------------------ field lists *)
Lemma fid_beq_true f g : fid_beq f g = true <-> f = g.
Proof. split; [apply internal_fid_dec_bl | apply internal_fid_dec_lb]. Qed.
Lemma fid_beq_refl f : fid_beq f f = true.
Proof. apply fid_beq_true. reflexivity. Qed.
Lemma fid_beq_neq f g : f <> g -> fid_beq f g = false.
Proof. intros H. destruct (fid_beq f g) eqn:E; [|reflexivity]. apply fid_beq_true in E. contradiction. Qed.

Lemma getf_delf_same f fs : getf f (delf f fs) = None.
Proof.
  induction fs as [|[g v] fs IH]; simpl; [reflexivity|].
  destruct (fid_beq f g) eqn:E; [exact IH|]. simpl. rewrite E. exact IH.
Qed.
Lemma getf_delf_other f g fs : f <> g -> getf f (delf g fs) = getf f fs.
Proof.
  intros Hn. induction fs as [|[h v] fs IH]; simpl; [reflexivity|].
  destruct (fid_beq g h) eqn:E.
  - apply fid_beq_true in E. subst h. rewrite (fid_beq_neq f g Hn). exact IH.
  - simpl. rewrite IH. reflexivity.
Qed.
Lemma getf_replf_same f v fs : getf f (replf f v fs) = Some v.
Proof.
  induction fs as [|[g w] fs IH]; simpl.
  - rewrite fid_beq_refl. reflexivity.
  - destruct (fid_beq f g) eqn:E; simpl.
    + rewrite fid_beq_refl. reflexivity.
    + rewrite E. exact IH.
Qed.
Lemma getf_replf_other f g v fs : f <> g -> getf f (replf g v fs) = getf f fs.
Proof.
  intros Hn. induction fs as [|[h w] fs IH]; simpl.
  - rewrite (fid_beq_neq f g Hn). reflexivity.
  - destruct (fid_beq g h) eqn:E; simpl.
    + apply fid_beq_true in E. subst h. rewrite (fid_beq_neq f g Hn). reflexivity.
    + rewrite IH. reflexivity.
Qed.
Lemma getf_setf_other f g v fs : f <> g -> getf f (setf g v fs) = getf f fs.
Proof. intros Hn. unfold setf. destruct (fval_is_zero v); [apply getf_delf_other | apply getf_replf_other]; exact Hn. Qed.

Lemma get_items_set_same f l fs : get_items f (set_items f l fs) = l.
Proof.
  unfold get_items, set_items, setf. destruct l as [l|]; simpl.
  - rewrite getf_replf_same. reflexivity.
  - rewrite getf_delf_same. reflexivity.
Qed.
Lemma get_items_set_other f g l fs : f <> g -> get_items f (set_items g l fs) = get_items f fs.
Proof. intros Hn. unfold get_items, set_items. rewrite getf_setf_other by exact Hn. reflexivity. Qed.

Lemma write_back_frame cols fs f : is_addr4 f = false -> getf f (write_back cols fs) = getf f fs.
Proof.
  intros Hf. unfold write_back. destruct cols as [|t [|c [|b [|bc rest]]]]; try reflexivity.
  unfold set_items. rewrite !getf_setf_other; [reflexivity| | | |]; intros ->; discriminate.
Qed.

Lemma write_back_addressing t c b bc rest fs :
  addressing (write_back (t :: c :: b :: bc :: rest) fs) = [t; c; b; bc].
Proof.
  unfold addressing, write_back.
  repeat (first [ rewrite get_items_set_same | rewrite get_items_set_other by discriminate ]).
  reflexivity.
Qed.

(* ------------------------------------------------------------------ Recipients() *)
Section RecipientsP.
  Variable eqv : bytes -> bytes -> bool.

  Lemma scan_lists_split k fs : exists rest, scan_lists k fs = addressing fs ++ rest /\
    rest = (if actor_in_scan k then [Some [get_item F_Actor fs]] else []) ++ [get_items F_Audience fs].
  Proof. eexists. split; reflexivity. Qed.

  Lemma kfl4 s (a : list (option (list item))) rest :
    length a = 4 -> exists t c b bc, keep_first_lists eqv s a = [t; c; b; bc] /\
      exists rest', keep_first_lists eqv s (a ++ rest) = t :: c :: b :: bc :: rest'.
  Proof.
    intros Hl. rewrite keep_first_lists_app.
    pose proof (keep_first_lists_length eqv s a) as HL. rewrite Hl in HL.
    destruct (keep_first_lists eqv s a) as [|t [|c [|b [|bc [|]]]]]; simpl in HL; try discriminate.
    exists t, c, b, bc. split; [reflexivity|]. eexists. reflexivity.
  Qed.

  Variable D : bytes -> Prop.
  Hypothesis eqv_sym : forall a b, D a -> D b -> eqv a b = eqv b a.
  Hypothesis eqv_trans : forall a b c, D a -> D b -> D c -> eqv a b = true -> eqv b c = true -> eqv a c = true.

  Lemma recipients_refines k fs fs1 :
    has_recipients k = true -> recip_pre eqv k fs = Ok fs1 ->
    entries_ok (scan_lists k fs1) -> Forall D (scan_order (scan_lists k fs1)) ->
    recipients eqv (IObj true k fs)
    = Ok (iri_items (first_mentions eqv (scan_order (scan_lists k fs1))),
          IObj true k (write_back (keep_first_lists eqv [] (scan_lists k fs1)) fs1)).
  Proof.
    intros Hk Hpre Hok HD. unfold recipients. rewrite Hk, Hpre. simpl obind.
    rewrite (dedup_refines eqv D eqv_sym eqv_trans _ HD Hok). reflexivity.
  Qed.

  (* the value's own to/cc/bto/bcc afterwards are the first mentions, list by list in scan order *)
  Lemma recipients_addressing k fs fs1 r fs' :
    has_recipients k = true -> recip_pre eqv k fs = Ok fs1 ->
    entries_ok (scan_lists k fs1) -> Forall D (scan_order (scan_lists k fs1)) ->
    recipients eqv (IObj true k fs) = Ok (r, IObj true k fs') ->
    addressing fs' = keep_first_lists eqv [] (addressing fs1).
  Proof.
    intros Hk Hpre Hok HD Hrec.
    rewrite (recipients_refines k fs fs1 Hk Hpre Hok HD) in Hrec. assert (Hfs : write_back (keep_first_lists eqv [] (scan_lists k fs1)) fs1 = fs') by congruence.
    clear Hrec. rewrite <- Hfs. clear Hfs.
    destruct (scan_lists_split k fs1) as [rest [Hsplit _]]. rewrite Hsplit.
    destruct (kfl4 [] (addressing fs1) rest eq_refl) as [t [c [b [bc [H4 [rest' H5]]]]]].
    rewrite H5, H4. apply write_back_addressing.
  Qed.

  Lemma recipients_frame k fs fs1 r fs' f :
    has_recipients k = true -> recip_pre eqv k fs = Ok fs1 ->
    entries_ok (scan_lists k fs1) -> Forall D (scan_order (scan_lists k fs1)) ->
    recipients eqv (IObj true k fs) = Ok (r, IObj true k fs') ->
    is_addr4 f = false -> getf f fs' = getf f fs1.
  Proof.
    intros Hk Hpre Hok HD Hrec Hf.
    rewrite (recipients_refines k fs fs1 Hk Hpre Hok HD) in Hrec. assert (Hfs : write_back (keep_first_lists eqv [] (scan_lists k fs1)) fs1 = fs') by congruence.
    rewrite <- Hfs. apply write_back_frame. exact Hf.
  Qed.
End RecipientsP.

(* ------------------------------------------------------------------ Block *)
Section BlockP.
  Variable eqv : bytes -> bytes -> bool.
  Variable o : bytes.                        (* id of the blocked object *)
  Notation clear_of := (clear_of eqv o).
  Notation list_clear := (list_clear eqv o).

  Lemma remove_loop_clear it : is_nil it = false -> get_link it = Ok o ->
    forall l l', remove_loop eqv l it = Ok l' -> forall e, In e l' -> clear_of e.
  Proof.
    intros Hit Ho. induction l as [|ob l IH]; intros l' H e He; simpl in H.
    - inversion H; subst. destruct He.
    - apply obind_ok in H. destruct H as [found [Hf H]].
      apply obind_ok in H. destruct H as [r' [Hr H]]. inversion H; subst l'; clear H.
      assert (Hrest : forall e, In e r' -> clear_of e) by (intros e0 He0; eapply IH; eauto).
      destruct found.
      + apply Hrest. exact He.
      + destruct He as [<-|He]; [|apply Hrest; exact He].
        intros Hnil a Ha. rewrite Hnil, Hit in Hf. simpl in Hf. rewrite Ha, Ho in Hf. simpl in Hf.
        inversion Hf. reflexivity.
  Qed.

  Lemma remove_field_spec f it fs fs2 :
    is_nil it = false -> get_link it = Ok o ->
    remove_field (remove_loop eqv) f it fs = Ok fs2 ->
    list_clear (get_items f fs2) /\ (forall g, g <> f -> getf g fs2 = getf g fs).
  Proof.
    intros Hit Ho H. unfold remove_field in H. destruct (get_items f fs) as [l|] eqn:E.
    - apply obind_ok in H. destruct H as [l' [Hl H]]. inversion H; subst fs2; clear H. split.
      + intros l0 e Hl0 He. change (setf f (FItems (Some l')) fs) with (set_items f (Some l') fs) in Hl0.
        rewrite get_items_set_same in Hl0. inversion Hl0; subst l0.
        eapply remove_loop_clear; eauto.
      + intros g Hg. apply getf_setf_other. exact Hg.
    - inversion H; subst fs2. split; [|reflexivity]. intros l e Hl. rewrite E in Hl. discriminate.
  Qed.

  Lemma list_clear_same g fs fs2 : getf g fs2 = getf g fs -> list_clear (get_items g fs) -> list_clear (get_items g fs2).
  Proof. intros H. unfold get_items. rewrite H. auto. Qed.

  Lemma remove_from_audience_clear it fs fs1 :
    is_nil it = false -> get_link it = Ok o ->
    remove_from_audience (remove_loop eqv) it fs = Ok fs1 ->
    (forall f, is_addr5 f = true -> list_clear (get_items f fs1)) /\
    (forall f, is_addr5 f = false -> getf f fs1 = getf f fs).
  Proof.
    intros Hit Ho H. unfold remove_from_audience in H.
    apply obind_ok in H. destruct H as [f1 [H1 H]].
    apply obind_ok in H. destruct H as [f2 [H2 H]].
    apply obind_ok in H. destruct H as [f3 [H3 H]].
    apply obind_ok in H. destruct H as [f4 [H4 H5]].
    destruct (remove_field_spec _ _ _ _ Hit Ho H1) as [C1 O1].
    destruct (remove_field_spec _ _ _ _ Hit Ho H2) as [C2 O2].
    destruct (remove_field_spec _ _ _ _ Hit Ho H3) as [C3 O3].
    destruct (remove_field_spec _ _ _ _ Hit Ho H4) as [C4 O4].
    destruct (remove_field_spec _ _ _ _ Hit Ho H5) as [C5 O5].
    split.
    - intros f Hf. destruct f; try discriminate Hf.
      + (* Audience *) exact C5.
      + (* To *) apply (list_clear_same _ f4); [apply O5; discriminate|].
        apply (list_clear_same _ f3); [apply O4; discriminate|].
        apply (list_clear_same _ f2); [apply O3; discriminate|].
        apply (list_clear_same _ f1); [apply O2; discriminate|]. exact C1.
      + (* Bto *) apply (list_clear_same _ f4); [apply O5; discriminate|].
        apply (list_clear_same _ f3); [apply O4; discriminate|].
        apply (list_clear_same _ f2); [apply O3; discriminate|]. exact C2.
      + (* CC *) apply (list_clear_same _ f4); [apply O5; discriminate|].
        apply (list_clear_same _ f3); [apply O4; discriminate|]. exact C3.
      + (* BCC *) apply (list_clear_same _ f4); [apply O5; discriminate|]. exact C4.
    - intros f Hf.
      rewrite O5 by (intros ->; discriminate). rewrite O4 by (intros ->; discriminate).
      rewrite O3 by (intros ->; discriminate). rewrite O2 by (intros ->; discriminate).
      rewrite O1 by (intros ->; discriminate). reflexivity.
  Qed.

  (* the de-duplication only deletes: list by list the result is an order-preserving sub-list *)
  Lemma dedup_one_sub rec c rec' c' : dedup_one eqv rec c = Ok (rec', c') -> col_sub c' c.
  Proof.
    destruct c as [l|]; simpl; intros H.
    - apply obind_ok in H. destruct H as [[rec1 rem] [_ H]].
      apply obind_ok in H. destruct H as [l' [Hd H]]. inversion H; subst. simpl.
      eapply delete_all_subseq. exact Hd.
    - inversion H. exact I.
  Qed.

  Lemma dedup_from_sub cols : forall rec rec' cols',
    dedup_from eqv rec cols = Ok (rec', cols') -> Forall2 col_sub cols' cols.
  Proof.
    induction cols as [|c cols IH]; intros rec rec' cols' H; simpl in H.
    - inversion H. constructor.
    - apply obind_ok in H. destruct H as [[rec1 c1] [H1 H]].
      apply obind_ok in H. destruct H as [[rec2 r2] [H2 H]]. inversion H; subst.
      constructor; [eapply dedup_one_sub; eauto | eapply IH; eauto].
  Qed.

  Lemma col_sub_clear c' c : col_sub c' c -> list_clear c -> list_clear c'.
  Proof.
    intros Hs Hc l' e -> He. destruct c as [l|]; simpl in Hs; [|contradiction].
    apply (Hc l e eq_refl). eapply subseq_In; eauto.
  Qed.

  Lemma block_removed fs r k' fs' :
    bytes_eqb (get_str F_Type fs) block_type = true ->
    is_nil (get_item F_Object fs) = false -> get_link (get_item F_Object fs) = Ok o ->
    recipients eqv (IObj true KActivity fs) = Ok (r, IObj true k' fs') ->
    forall c, In c (five_lists fs') -> list_clear c.
  Proof.
    intros Ht Hn Ho H. unfold recipients in H. simpl has_recipients in H. cbv iota in H.
    apply obind_ok in H. destruct H as [fs1 [Hpre H]].
    apply obind_ok in H. destruct H as [[rec cols] [Hd H]]. inversion H; subst r k' fs'; clear H.
    unfold recip_pre, block_clause in Hpre. rewrite Ht, Hn in Hpre. simpl in Hpre.
    destruct (remove_from_audience_clear _ _ _ Hn Ho Hpre) as [Hclear _].
    apply dedup_from_sub in Hd. unfold scan_lists in Hd. simpl in Hd.
    inversion Hd as [|t ? ct ? St Hd1]; subst. inversion Hd1 as [|c ? cc ? Sc Hd2]; subst.
    inversion Hd2 as [|b ? cb ? Sb Hd3]; subst. inversion Hd3 as [|bc ? cbc ? Sbc Hd4]; subst.
    inversion Hd4 as [|au ? cau ? Sau Hd5]; subst. inversion Hd5; subst.
    intros c0 Hin. unfold five_lists in Hin. rewrite write_back_addressing in Hin.
    apply in_app_or in Hin. destruct Hin as [Hin|Hin].
    - simpl in Hin. destruct Hin as [<-|[<-|[<-|[<-|[]]]]].
      + eapply col_sub_clear; [exact St|]. apply Hclear. reflexivity.
      + eapply col_sub_clear; [exact Sc|]. apply Hclear. reflexivity.
      + eapply col_sub_clear; [exact Sb|]. apply Hclear. reflexivity.
      + eapply col_sub_clear; [exact Sbc|]. apply Hclear. reflexivity.
    - destruct Hin as [<-|[]].
      apply (list_clear_same F_Audience fs1); [apply write_back_frame; reflexivity|].
      apply Hclear. reflexivity.
  Qed.

  (* everything outside the five addressing lists is untouched by the Block clause *)
  Lemma block_clause_frame fs fs1 f :
    block_clause eqv fs = Ok fs1 -> is_addr5 f = false -> getf f fs1 = getf f fs.
  Proof.
    unfold block_clause. intros H Hf.
    destruct (bytes_eqb (get_str F_Type fs) block_type && negb (is_nil (get_item F_Object fs))) eqn:E.
    - unfold remove_from_audience in H.
      assert (RF : forall g it a b, remove_field (remove_loop eqv) g it a = Ok b -> g <> f -> getf f b = getf f a).
      { intros g it a b Hr Hg. unfold remove_field in Hr. destruct (get_items g a).
        - apply obind_ok in Hr. destruct Hr as [l' [_ Hr]]. inversion Hr. apply getf_setf_other. congruence.
        - inversion Hr. reflexivity. }
      apply obind_ok in H. destruct H as [f1 [H1 H]].
      apply obind_ok in H. destruct H as [f2 [H2 H]].
      apply obind_ok in H. destruct H as [f3 [H3 H]].
      apply obind_ok in H. destruct H as [f4 [H4 H5]].
      rewrite (RF _ _ _ _ H5) by (intros <-; discriminate).
      rewrite (RF _ _ _ _ H4) by (intros <-; discriminate).
      rewrite (RF _ _ _ _ H3) by (intros <-; discriminate).
      rewrite (RF _ _ _ _ H2) by (intros <-; discriminate).
      rewrite (RF _ _ _ _ H1) by (intros <-; discriminate). reflexivity.
    - inversion H. reflexivity.
  Qed.
End BlockP.

(* ------------------------------------------------------------------ boolean checks *)
Section Checks.
  Variable eqv : bytes -> bytes -> bool.
  Lemma sym_on_spec dom : sym_on eqv dom = true -> forall a b, In a dom -> In b dom -> eqv a b = eqv b a.
  Proof.
    unfold sym_on. intros H a b Ha Hb. rewrite forallb_forall in H. specialize (H a Ha). cbv beta in H.
    rewrite forallb_forall in H. specialize (H b Hb). apply eqb_prop in H. exact H.
  Qed.
  Lemma trans_on_spec dom : trans_on eqv dom = true ->
    forall a b c, In a dom -> In b dom -> In c dom -> eqv a b = true -> eqv b c = true -> eqv a c = true.
  Proof.
    unfold trans_on. intros H a b c Ha Hb Hc Hab Hbc. rewrite forallb_forall in H. specialize (H a Ha). cbv beta in H.
    rewrite forallb_forall in H. specialize (H b Hb). cbv beta in H. rewrite Hab in H.
    rewrite forallb_forall in H. specialize (H c Hc). cbv beta in H.
    rewrite Hbc in H. exact H.
  Qed.
  Lemma refl_on_spec dom : refl_on eqv dom = true -> forall a, In a dom -> eqv a a = true.
  Proof. unfold refl_on. intros H a Ha. rewrite forallb_forall in H. exact (H a Ha). Qed.
End Checks.

(* ------------------------------------------------------------------ the code's comparison *)
Lemma ideq_refl a : ideq a a = true.
Proof. apply iri_eqb_refl. Qed.
Lemma ideq_sym a b : ideq a b = ideq b a.
Proof. apply iri_eqb_sym. Qed.

(* ------------------------------------------------------------------ statements packaged for Props/C10.v *)
Lemma kfl_sub eqv cols : forall s, Forall2 col_sub (keep_first_lists eqv s cols) cols.
Proof.
  induction cols as [|[l|] cols IH]; intros s; simpl; constructor; auto.
  - simpl. apply keep_first_subseq.
  - exact I.
Qed.
Lemma kfl_nokey eqv cols : forall s, Forall2 col_nokey_same (keep_first_lists eqv s cols) cols.
Proof.
  induction cols as [|[l|] cols IH]; intros s; simpl; constructor; auto.
  - simpl. apply keep_first_nokey.
  - exact I.
Qed.

Lemma recip_pre_noblock eqv k fs :
  k <> KActivity \/ bytes_eqb (get_str F_Type fs) block_type = false \/ is_nil (get_item F_Object fs) = true ->
  recip_pre eqv k fs = Ok fs.
Proof.
  intros H. unfold recip_pre. destruct k; try reflexivity.
  unfold block_clause. destruct H as [H|[H|H]]; [contradiction| |]; rewrite H; simpl; try reflexivity.
  rewrite andb_false_r. reflexivity.
Qed.

Lemma recip_pre_frame eqv k fs fs1 f :
  recip_pre eqv k fs = Ok fs1 -> is_addr5 f = false -> getf f fs1 = getf f fs.
Proof.
  unfold recip_pre. intros H Hf. destruct k; try (inversion H; reflexivity).
  eapply block_clause_frame; eauto.
Qed.

(* spec meaning, together *)
Lemma first_mentions_meaning eqv (D : bytes -> Prop) :
  (forall a, D a -> eqv a a = true) ->
  (forall a b, D a -> D b -> eqv a b = eqv b a) ->
  (forall a b c, D a -> D b -> D c -> eqv a b = true -> eqv b c = true -> eqv a c = true) ->
  forall ks, Forall D ks ->
    subseq (first_mentions eqv ks) ks /\
    (forall k, In k ks -> length (filter (eqv k) (first_mentions eqv ks)) = 1).
Proof.
  intros Hr Hs Ht ks HD. split.
  - apply fm_subseq.
  - intros k Hk. eapply each_exactly_once; eauto.
Qed.

Lemma keep_first_lists_meaning eqv cols :
  scan_order (keep_first_lists eqv [] cols) = first_mentions eqv (scan_order cols) /\
  Forall2 col_sub (keep_first_lists eqv [] cols) cols /\
  Forall2 col_nokey_same (keep_first_lists eqv [] cols) cols.
Proof. split; [apply scan_order_keep_first | split; [apply kfl_sub | apply kfl_nokey]]. Qed.

(* the code: reflexive and symmetric everywhere (C14); transitivity is the one hypothesis, in checkable form *)
Lemma recipients_m_refines k fs fs1 :
  has_recipients k = true -> recip_pre ideq k fs = Ok fs1 ->
  trans_on ideq (scan_order (scan_lists k fs1)) = true ->
  recipients_m (IObj true k fs)
  = Ok (iri_items (first_mentions ideq (scan_order (scan_lists k fs1))),
        IObj true k (write_back (keep_first_lists ideq [] (scan_lists k fs1)) fs1)).
Proof.
  intros Hk Hpre Ht. unfold recipients_m. pose proof (entries_ok_all (scan_lists k fs1)) as Hok.
  apply (recipients_refines ideq (fun a => In a (scan_order (scan_lists k fs1)))); auto.
  - intros a b _ _. apply ideq_sym.
  - apply trans_on_spec. exact Ht.
  - apply Forall_forall. auto.
Qed.

Lemma recipients_m_addressing k fs fs1 r fs' :
  has_recipients k = true -> recip_pre ideq k fs = Ok fs1 ->
  trans_on ideq (scan_order (scan_lists k fs1)) = true ->
  recipients_m (IObj true k fs) = Ok (r, IObj true k fs') ->
  addressing fs' = keep_first_lists ideq [] (addressing fs1) /\
  (forall f, is_addr4 f = false -> getf f fs' = getf f fs1) /\
  (forall f, is_addr5 f = false -> getf f fs' = getf f fs).
Proof.
  intros Hk Hpre Ht Hrec. pose proof (entries_ok_all (scan_lists k fs1)) as Hok.
  pose (D := fun a => In a (scan_order (scan_lists k fs1))).
  assert (Hs : forall a b, D a -> D b -> ideq a b = ideq b a) by (intros; apply ideq_sym).
  assert (Htr : forall a b c, D a -> D b -> D c -> ideq a b = true -> ideq b c = true -> ideq a c = true)
    by (apply trans_on_spec; exact Ht).
  assert (HD : Forall D (scan_order (scan_lists k fs1))) by (apply Forall_forall; unfold D; auto).
  split; [|split].
  - eapply (recipients_addressing ideq D Hs Htr); eauto.
  - intros f Hf. eapply (recipients_frame ideq D Hs Htr); eauto.
  - intros f Hf. rewrite (recipients_frame ideq D Hs Htr k fs fs1 r fs' f); eauto.
    + eapply recip_pre_frame; eauto.
    + destruct f; try reflexivity; discriminate.
Qed.

(* the parametric statements without the (now vacuous) entries_ok hypothesis *)
Section NoPanic.
  Variable eqv : bytes -> bytes -> bool.
  Variable D : bytes -> Prop.
  Hypothesis eqv_sym : forall a b, D a -> D b -> eqv a b = eqv b a.
  Hypothesis eqv_trans : forall a b c, D a -> D b -> D c -> eqv a b = true -> eqv b c = true -> eqv a c = true.

  Lemma dedup_refines' cols :
    Forall D (scan_order cols) ->
    dedup eqv cols = Ok (first_mentions eqv (scan_order cols), keep_first_lists eqv [] cols).
  Proof. intros H. apply (dedup_refines eqv D eqv_sym eqv_trans cols H (entries_ok_all cols)). Qed.

  Lemma recipients_refines' k fs fs1 :
    has_recipients k = true -> recip_pre eqv k fs = Ok fs1 ->
    Forall D (scan_order (scan_lists k fs1)) ->
    recipients eqv (IObj true k fs)
    = Ok (iri_items (first_mentions eqv (scan_order (scan_lists k fs1))),
          IObj true k (write_back (keep_first_lists eqv [] (scan_lists k fs1)) fs1)).
  Proof. intros Hk Hp HD. apply (recipients_refines eqv D eqv_sym eqv_trans k fs fs1 Hk Hp (entries_ok_all _) HD). Qed.

  Lemma recipients_addressing' k fs fs1 r fs' :
    has_recipients k = true -> recip_pre eqv k fs = Ok fs1 ->
    Forall D (scan_order (scan_lists k fs1)) ->
    recipients eqv (IObj true k fs) = Ok (r, IObj true k fs') ->
    addressing fs' = keep_first_lists eqv [] (addressing fs1).
  Proof. intros Hk Hp HD. apply (recipients_addressing eqv D eqv_sym eqv_trans k fs fs1 r fs' Hk Hp (entries_ok_all _) HD). Qed.

  Lemma recipients_frame' k fs fs1 r fs' f :
    has_recipients k = true -> recip_pre eqv k fs = Ok fs1 ->
    Forall D (scan_order (scan_lists k fs1)) ->
    recipients eqv (IObj true k fs) = Ok (r, IObj true k fs') ->
    is_addr4 f = false -> getf f fs' = getf f fs1.
  Proof. intros Hk Hp HD. apply (recipients_frame eqv D eqv_sym eqv_trans k fs fs1 r fs' f Hk Hp (entries_ok_all _) HD). Qed.
End NoPanic.
