(* The tie between the generated Recipients tables (Gen/RecipT.v) and the hand-written model (Model/Recip.v):
     recip_table_ok T = true -> recipients_t eqv T x = recipients eqv x
   for every id comparison and every x. *)
From AP.Model Require Import Prelude Vocab Pred IriEq Recip RecipTab TabEq.
From AP.Proofs Require Import TabEqP.

Lemma oblock_beq_eq a b : oblock_beq a b = true -> a = b.
Proof.
  destruct a as [[t f]|], b as [[u g]|]; simpl; try discriminate; [|reflexivity].
  intro H. apply andb_prop in H. destruct H as [H1 H2].
  apply bytes_eqb_true in H1. apply internal_fid_dec_bl in H2. subst. reflexivity.
Qed.
Lemma rshape_beq_eq a b : rshape_beq a b = true -> a = b.
Proof.
  destruct a as [b1 a1], b as [b2 a2]. unfold rshape_beq. simpl. intro H.
  apply andb_prop in H. destruct H as [H1 H2].
  apply oblock_beq_eq in H1. apply (lbeq_eq _ internal_carg_dec_bl) in H2. subst. reflexivity.
Qed.
Lemma orshape_beq_eq a b : orshape_beq a b = true -> a = b.
Proof.
  destruct a as [x|], b as [y|]; simpl; try discriminate; [|reflexivity].
  intro H. f_equal. apply rshape_beq_eq. exact H.
Qed.

Lemma rshapes_ok_spec T : recip_shapes_ok T = true -> forall k, table_rshape T k = model_rshape k.
Proof.
  unfold recip_shapes_ok. rewrite forallb_forall. intros H k. apply orshape_beq_eq. apply H. apply all_kinds_complete.
Qed.
Lemma remove_ok_spec T : recip_remove_ok T = true -> remove_fields_of (rt_remove T) = Some model_remove_fields.
Proof.
  unfold recip_remove_ok. destruct (remove_fields_of (rt_remove T)) as [fl|]; [|discriminate].
  intro H. apply (lbeq_eq _ internal_fid_dec_bl) in H. subst. reflexivity.
Qed.

Section Tie.
  Variable eqv : bytes -> bytes -> bool.

  (* the de-duplication returns as many lists as it was given *)
  Lemma dedup_from_length cols : forall rec rec' cols',
    dedup_from eqv rec cols = Ok (rec', cols') -> length cols' = length cols.
  Proof.
    induction cols as [|c r IH]; intros rec rec' cols' H; simpl in H.
    - inversion H. reflexivity.
    - destruct (dedup_one eqv rec c) as [[rec1 c1]| | |]; simpl in H; try discriminate.
      destruct (dedup_from eqv rec1 r) as [[rec2 r2]| | |] eqn:E; simpl in H; try discriminate.
      inversion H; subst. simpl. f_equal. eapply IH. exact E.
  Qed.

  Lemma remove_fields_model it fs :
    remove_fields_t eqv model_remove_fields it fs = remove_from_audience (remove_loop eqv) it fs.
  Proof.
    unfold model_remove_fields, remove_from_audience. cbn [remove_fields_t].
    repeat (match goal with |- obind ?x _ = obind ?x _ => destruct x; cbn [obind]; try reflexivity end).
    apply obind_eta.
  Qed.

  Lemma pre_model T k fs : recip_remove_ok T = true ->
    pre_t eqv T (match k with KActivity => Some (block_type, F_Object) | _ => None end) fs = recip_pre eqv k fs.
  Proof.
    intro Hr. destruct k; try reflexivity.
    unfold pre_t, recip_pre, block_clause. rewrite (remove_ok_spec T Hr).
    destruct (bytes_eqb (get_str F_Type fs) block_type && negb (is_nil (get_item F_Object fs))); [|reflexivity].
    apply remove_fields_model.
  Qed.

  Definition model_args (k : kind) : list carg :=
    [AAddr F_To; AAddr F_CC; AAddr F_Bto; AAddr F_BCC]
    ++ (if actor_in_scan k then [ASingle F_Actor] else []) ++ [ACopy F_Audience].

  Lemma scan_lists_model k fs : scan_lists_t (model_args k) fs = scan_lists k fs.
  Proof. unfold model_args, scan_lists. destruct (actor_in_scan k); reflexivity. Qed.

  Lemma write_back_model k cols fs : length cols = length (model_args k) ->
    write_back_t (model_args k) cols fs = write_back cols fs.
  Proof.
    unfold model_args. destruct (actor_in_scan k); simpl; intro H;
      destruct cols as [|t [|c [|b [|bc [|x [|y [|z rest]]]]]]]; simpl in H; try discriminate; reflexivity.
  Qed.

  Theorem recip_table_tie T : recip_table_ok T = true -> forall x, recipients_t eqv T x = recipients eqv x.
  Proof.
    intros Hok x. unfold recip_table_ok in Hok.
    apply andb_prop in Hok. destruct Hok as [Hok _]. apply andb_prop in Hok. destruct Hok as [Hok Hrem].
    apply andb_prop in Hok. destruct Hok as [Hsh _].
    pose proof (rshapes_ok_spec T Hsh) as Hs.
    destruct x as [| | | p k fs | |]; try reflexivity. destruct p; [|reflexivity].
    unfold recipients_t, recipients. rewrite Hs. unfold model_rshape.
    destruct (has_recipients k); [|reflexivity]. cbn [rs_block rs_args]. fold (model_args k).
    rewrite (pre_model T k fs Hrem).
    destruct (recip_pre eqv k fs) as [fs1| | |]; cbn [obind]; try reflexivity.
    rewrite scan_lists_model.
    destruct (dedup eqv (scan_lists k fs1)) as [[rec cols]| | |] eqn:Hd; cbn [obind]; try reflexivity.
    rewrite write_back_model; [reflexivity|].
    unfold dedup in Hd. apply dedup_from_length in Hd. rewrite Hd, <- scan_lists_model.
    unfold scan_lists_t. apply map_length.
  Qed.
End Tie.

(* the statement in the argument order of Props/C10.v *)
Theorem recip_table_tie' : forall T, recip_table_ok T = true ->
  forall eqv x, recipients_t eqv T x = recipients eqv x.
Proof. intros T H eqv x. apply (recip_table_tie eqv T H). Qed.
