(* C10 over the wide model of IRI.Equals (Model/RecipU.v, builder b47).  The theorems of Proofs/RecipP.v and
   Proofs/RecipListP.v are parametric in the id comparison and ask for symmetry and transitivity on the ids that occur;
   for [idequ] = IRI.Equals(., ., false) on all byte strings both are THEOREMS on C14's wide domain [iri_dom_u]
   (Proofs/IriUP.v: any byte string url.Parse gives a scheme and a host, query in one letter case), so the statements
   hold with the domain predicate on the addressee ids and no hypothesis on the comparison. *)
From AP.Model Require Import Prelude Vocab Pred Url IriEq IriNf Fold UrlU IriEqU Recip RecipList RecipU.
From AP.Proofs Require Import IriEqP IriXP IriUP ConservUP RecipP RecipListP.

Lemma idequ_refl a : idequ a a = true.
Proof. apply iri_equ_refl. Qed.
Lemma idequ_sym a b : idequ a b = idequ b a.
Proof. apply iri_equ_sym. Qed.
Lemma idequ_trans_dom a b c :
  iri_dom_u a = true -> iri_dom_u b = true -> iri_dom_u c = true ->
  idequ a b = true -> idequ b c = true -> idequ a c = true.
Proof. unfold idequ. apply iri_equ_trans. Qed.
Lemma idequ_nf a b : iri_dom_u a = true -> iri_dom_u b = true -> idequ a b = nf_u_eqb (nf_u false a) (nf_u false b).
Proof. unfold idequ. apply iri_equ_nf. Qed.

(* the decidable hypothesis of the older theorems is a theorem on every list of ids of the wide domain *)
Lemma trans_on_dom_u l : forallb iri_dom_u l = true -> trans_on idequ l = true.
Proof.
  intros Hd. rewrite forallb_forall in Hd. unfold trans_on.
  apply forallb_forall. intros a Ha. apply forallb_forall. intros b Hb.
  destruct (idequ a b) eqn:Eab; [|reflexivity].
  apply forallb_forall. intros c Hc. destruct (idequ b c) eqn:Ebc; [|reflexivity].
  apply (idequ_trans_dom a b c); auto.
Qed.

Lemma forallb_Forall_dom_u l : forallb iri_dom_u l = true -> Forall (fun a => iri_dom_u a = true) l.
Proof. intro H. apply Forall_forall. intros x Hx. rewrite forallb_forall in H. auto. Qed.

Definition Du (a : bytes) : Prop := iri_dom_u a = true.
Lemma Du_sym a b : Du a -> Du b -> idequ a b = idequ b a.
Proof. intros _ _. apply idequ_sym. Qed.
Lemma Du_trans a b c : Du a -> Du b -> Du c -> idequ a b = true -> idequ b c = true -> idequ a c = true.
Proof. apply idequ_trans_dom. Qed.

Lemma dedup_u_refines_dom cols :
  forallb iri_dom_u (scan_order cols) = true ->
  dedup_u cols = Ok (first_mentions idequ (scan_order cols), keep_first_lists idequ [] cols).
Proof. intro H. apply (dedup_refines' idequ Du Du_sym Du_trans). apply forallb_Forall_dom_u. exact H. Qed.

Lemma recipients_u_refines_dom k fs fs1 :
  has_recipients k = true -> recip_pre idequ k fs = Ok fs1 ->
  forallb iri_dom_u (scan_order (scan_lists k fs1)) = true ->
  recipients_u (IObj true k fs)
  = Ok (iri_items (first_mentions idequ (scan_order (scan_lists k fs1))),
        IObj true k (write_back (keep_first_lists idequ [] (scan_lists k fs1)) fs1)).
Proof.
  intros Hk Hp Hd. apply (recipients_refines' idequ Du Du_sym Du_trans); auto. apply forallb_Forall_dom_u. exact Hd.
Qed.

Lemma recipients_u_addressing_dom k fs fs1 r fs' :
  has_recipients k = true -> recip_pre idequ k fs = Ok fs1 ->
  forallb iri_dom_u (scan_order (scan_lists k fs1)) = true ->
  recipients_u (IObj true k fs) = Ok (r, IObj true k fs') ->
  addressing fs' = keep_first_lists idequ [] (addressing fs1) /\
  (forall f, is_addr4 f = false -> getf f fs' = getf f fs1) /\
  (forall f, is_addr5 f = false -> getf f fs' = getf f fs).
Proof.
  intros Hk Hp Hd Hr. apply forallb_Forall_dom_u in Hd. split; [|split].
  - eapply (recipients_addressing' idequ Du Du_sym Du_trans); eauto.
  - intros f Hf. eapply (recipients_frame' idequ Du Du_sym Du_trans); eauto.
  - intros f Hf. rewrite (recipients_frame' idequ Du Du_sym Du_trans k fs fs1 r fs' f); eauto.
    + eapply recip_pre_frame; eauto.
    + destruct f; try reflexivity; discriminate.
Qed.

(* the returned list in the words of the property: an order-preserving sub-list of the scan, every mention equivalent to
   exactly one returned id; "equivalent" = same normal form, scheme ignored *)
Lemma first_mentions_meaning_dom_u ks :
  forallb iri_dom_u ks = true ->
  subseq (first_mentions idequ ks) ks /\
  (forall k, In k ks -> length (filter (idequ k) (first_mentions idequ ks)) = 1) /\
  (forall a b, In a ks -> In b ks -> (idequ a b = true <-> nf_u false a = nf_u false b)).
Proof.
  intros Hd. pose proof Hd as Hd'. rewrite forallb_forall in Hd'.
  destruct (first_mentions_meaning idequ Du) with (ks := ks) as [H1 H2].
  - intros a _. apply idequ_refl.
  - apply Du_sym.
  - apply Du_trans.
  - apply Forall_forall. exact Hd'.
  - split; [exact H1|]. split; [exact H2|].
    intros a b Ha Hb. unfold idequ. apply iri_equ_nf_eq; auto.
Qed.

(* Block: the blocked object is addressed nowhere afterwards - no hypothesis at all (instance of C10_block) *)
Lemma block_removed_u o fs r k' fs' :
  bytes_eqb (get_str F_Type fs) block_type = true ->
  is_nil (get_item F_Object fs) = false -> get_link (get_item F_Object fs) = Ok o ->
  recipients_u (IObj true KActivity fs) = Ok (r, IObj true k' fs') ->
  forall c, In c (five_lists fs') -> list_clear idequ o c.
Proof. apply block_removed. Qed.

(* ---- ItemCollection.Recipients() ---- *)
(* an id of the wide domain is never one that IsNil takes for nothing (empty, "-") *)
Lemma iri_dom_u_nameable a : iri_dom_u a = true -> nameable a = true.
Proof.
  intro H. unfold nameable. apply negb_true_iff.
  destruct (is_nil (IIri false a)) eqn:E; [|reflexivity]. exfalso.
  cbn [is_nil] in E. destruct a as [|c r]; [vm_compute in H; discriminate|].
  unfold nil_iri in E. destruct r as [|c2 r2].
  - assert (Hc : c = "-"%byte).
    { revert E. unfold fold_eqb. cbn. intro E. apply andb_true_iff in E. destruct E as [E _].
      revert E. generalize c. clear. intro c.
      refine (match c with "-"%byte => fun _ => eq_refl | _ => _ end); vm_compute; discriminate. }
    subst c. vm_compute in H. discriminate.
  - exfalso. revert E. unfold fold_eqb. cbn. rewrite andb_false_r. discriminate.
Qed.

Lemma recipients_list_u_refines_dom l :
  forallb flat_member l = true -> forallb iri_dom_u (list_mentions l) = true ->
  recipients_list_u (Some l)
  = Ok (iri_items (first_mentions idequ (list_mentions l)), Some (map (member_after idequ) l)).
Proof.
  intros Hf Hd. unfold recipients_list_u.
  apply (recipients_list_refines idequ Du Du_sym Du_trans iri_dom_u_nameable); [exact Hf|].
  apply forallb_Forall_dom_u. exact Hd.
Qed.

Lemma recipients_list_u_total_dom i :
  forallb iri_dom_u (deep_mentions_list (match i with Some l => l | None => [] end)) = true ->
  exists r l', recipients_list_u i = Ok (r, l').
Proof.
  intro H. unfold recipients_list_u. apply (recipients_list_total idequ Du Du_sym Du_trans iri_dom_u_nameable).
  apply forallb_Forall_dom_u. exact H.
Qed.

(* ------------------------------------------------------------------ the wide model EXTENDS the plain one *)
(* the de-duplication looks at the comparison only on the ids that occur: two comparisons that agree there give the
   same run *)
Section Congr.
  Variables e1 e2 : bytes -> bytes -> bool.
  Variable S : bytes -> Prop.
  Hypothesis agree : forall a b, S a -> S b -> e1 a b = e2 a b.

  Lemma filter_congr t rec : S t -> Forall S rec -> filter (e1 t) rec = filter (e2 t) rec.
  Proof.
    intros Ht H. induction H as [|x r Hx _ IH]; [reflexivity|]. cbn [filter]. rewrite (agree t x Ht Hx), IH. reflexivity.
  Qed.

  Lemma keys_of_cons x r : keys_of (x :: r) = match key_of x with Some t => [t] | None => [] end ++ keys_of r.
  Proof. reflexivity. Qed.

  Lemma scan_congr l : forall i rec rem, Forall S rec -> Forall S (keys_of l) ->
    scan e1 i l rec rem = scan e2 i l rec rem /\
    forall rec' rem', scan e2 i l rec rem = Ok (rec', rem') -> Forall S rec'.
  Proof.
    induction l as [|cur r IH]; intros i rec rem Hr Hk; cbn [scan].
    - split; [reflexivity|]. intros rec' rem' H. inversion H; subst. exact Hr.
    - rewrite keys_of_cons in Hk. unfold key_of in Hk.
      destruct (entry_key cur) as [[t|]| | |] eqn:E; cbn [obind]; try (split; [reflexivity|discriminate]).
      + apply Forall_app in Hk. destruct Hk as [Ht Hk]. inversion Ht as [|? ? St _]; subst.
        rewrite (filter_congr t rec St Hr).
        apply IH; [|exact Hk]. destruct (Nat.eqb _ 0); [|exact Hr]. apply Forall_app. split; [exact Hr|]. constructor; [exact St|constructor].
      + apply IH; assumption.
  Qed.

  Lemma dedup_one_congr rec col : Forall S rec -> Forall S (opt_keys col) ->
    dedup_one e1 rec col = dedup_one e2 rec col /\
    forall rec' c', dedup_one e2 rec col = Ok (rec', c') -> Forall S rec'.
  Proof.
    intros Hr Hk. destruct col as [l|]; cbn [dedup_one].
    - destruct (scan_congr l 0 rec [] Hr Hk) as [E P]. rewrite E. split; [reflexivity|].
      intros rec' c'. destruct (scan e2 0 l rec []) as [[r0 m0]| | |] eqn:Es; cbn [obind]; try discriminate.
      destruct (delete_all (sort_desc m0) l); cbn [obind]; try discriminate.
      intro H. inversion H; subst. eapply P. reflexivity.
    - split; [reflexivity|]. intros rec' c' H. inversion H; subst. exact Hr.
  Qed.

  Lemma dedup_from_congr cols : forall rec, Forall S rec -> Forall S (scan_order cols) ->
    dedup_from e1 rec cols = dedup_from e2 rec cols.
  Proof.
    induction cols as [|c r IH]; intros rec Hr Hk; [reflexivity|]. cbn [dedup_from].
    unfold scan_order in Hk. cbn [flat_map] in Hk. apply Forall_app in Hk. destruct Hk as [Hc Hk].
    destruct (dedup_one_congr rec c Hr Hc) as [E P]. rewrite E.
    destruct (dedup_one e2 rec c) as [[rec' c']| | |] eqn:Ed; cbn [obind]; try reflexivity.
    rewrite (IH rec'); [reflexivity| |exact Hk]. eapply P. reflexivity.
  Qed.

  Lemma dedup_congr cols : Forall S (scan_order cols) -> dedup e1 cols = dedup e2 cols.
  Proof. intro H. unfold dedup. apply dedup_from_congr; [constructor|exact H]. Qed.

  Lemma recipients_congr k fs fs1 :
    recip_pre e1 k fs = Ok fs1 -> recip_pre e2 k fs = Ok fs1 -> Forall S (scan_order (scan_lists k fs1)) ->
    recipients e1 (IObj true k fs) = recipients e2 (IObj true k fs).
  Proof.
    intros H1 H2 Hk. unfold recipients. destruct (has_recipients k); [|reflexivity].
    rewrite H1, H2. cbn [obind]. rewrite (dedup_congr _ Hk). reflexivity.
  Qed.
End Congr.

(* on ids of the plain domain the two models of IRI.Equals give the same answer (C14_u_agrees_plain) ... *)
Lemma idequ_plain a b : iri_dom a = true -> iri_dom b = true -> idequ a b = ideq a b.
Proof.
  intros Da Db. unfold idequ, ideq.
  rewrite (ConservUP.iri_equ_of_x a b false (IriXP.iri_dom_x_of_plain a Da) (IriXP.iri_dom_x_of_plain b Db)).
  apply IriXP.iri_eqx_of_plain; assumption.
Qed.
Lemma iri_dom_u_of_plain a : iri_dom a = true -> iri_dom_u a = true.
Proof. intro H. apply ConservUP.iri_dom_u_of_x. apply IriXP.iri_dom_x_of_plain. exact H. Qed.

(* ... hence the same de-duplication and the same Recipients(): the theorems about recipients_m and the ones about
   recipients_u speak of one function there *)
Lemma dedup_u_plain cols : forallb iri_dom (scan_order cols) = true -> dedup_u cols = dedup_m cols.
Proof.
  intro H. unfold dedup_u, dedup_m. apply (dedup_congr idequ ideq (fun a => iri_dom a = true)).
  - intros a b. apply idequ_plain.
  - apply Forall_forall. rewrite forallb_forall in H. exact H.
Qed.
Lemma recipients_u_plain k fs fs1 :
  recip_pre idequ k fs = Ok fs1 -> recip_pre ideq k fs = Ok fs1 ->
  forallb iri_dom (scan_order (scan_lists k fs1)) = true ->
  recipients_u (IObj true k fs) = recipients_m (IObj true k fs).
Proof.
  intros H1 H2 H. unfold recipients_u, recipients_m.
  apply (recipients_congr idequ ideq (fun a => iri_dom a = true)) with (fs1 := fs1); auto.
  - intros a b. apply idequ_plain.
  - apply Forall_forall. rewrite forallb_forall in H. exact H.
Qed.
