(* The instant printer of the encoder model (Model/JsonLeaf.v fmt_rfc3339_utc = t.UTC().Format(time.RFC3339) on whole
   seconds) prints a [date-time] of RFC 3339 (Spec/Rfc3339.v, the narrow predicate: upper-case T and Z, seconds 00-59)
   for EVERY instant whose UTC year lies in 0000-9999; for the other instants JSONWriteTimeProp writes nothing, and the
   printer alone would not have printed a date-time (the pinned writer). *)
From AP.Model Require Import Prelude Bytes Vocab Json JsonLeaf Text JsonDec JsonTables JsonEnc.
From AP.Spec Require Import Rfc3339.
From AP.Proofs Require Import C01NumP C01SweepP C01TimeP TimeRangeP.
Open Scope Z_scope.

(* the reader model's two-digit numbers are the specification's *)
Lemma num2_two a b n : num2 a b = Some n -> two_digits [a; b] n.
Proof.
  unfold num2, digit_val. destruct (is_digit a) eqn:Ea; [|discriminate]. destruct (is_digit b) eqn:Eb; [|discriminate].
  intros H. assert (E : n = (Z.of_N (byteN a) - 48) * 10 + (Z.of_N (byteN b) - 48)) by congruence.
  exists a, b. split; [reflexivity|]. split; [exact Ea|]. split; [exact Eb|]. unfold r_dval, byteN in *. lia.
Qed.

Lemma num2_four a b c d ya yb : num2 a b = Some ya -> num2 c d = Some yb -> four_digits [a; b; c; d] (ya * 100 + yb).
Proof.
  intros H1 H2. destruct (num2_two _ _ _ H1) as [a' [b' [E1 [Ha [Hb ->]]]]]. injection E1 as <- <-.
  destruct (num2_two _ _ _ H2) as [c' [d' [E2 [Hc [Hd ->]]]]]. injection E2 as <- <-.
  exists a, b, c, d. repeat split; try assumption. lia.
Qed.

(* the month lengths of the reader model (JsonDec.days_in_month) are the table of RFC 3339, section 5.7 *)
Lemma days_in_month_spec y m : 1 <= m <= 12 -> month_days y m (days_in_month y m).
Proof.
  intros Hm. unfold days_in_month, month_days.
  assert (C : m = 1 \/ m = 2 \/ m = 3 \/ m = 4 \/ m = 5 \/ m = 6 \/ m = 7 \/ m = 8 \/ m = 9 \/ m = 10 \/ m = 11 \/ m = 12) by lia.
  destruct C as [->|[->|[->|[->|[->|[->|[->|[->|[->|[->|[->| ->]]]]]]]]]]]; cbn [Z.eqb Pos.eqb orb];
    try (left; split; [tauto|reflexivity]); try (right; left; split; [tauto|reflexivity]).
  change (is_leap y) with (leap_yearb y). destruct (leap_yearb y) eqn:L.
  - right. right. left. split; [reflexivity|]. split; [apply leap_yearb_spec; exact L|reflexivity].
  - right. right. right. split; [reflexivity|]. split; [|reflexivity]. intros K. apply leap_yearb_spec in K. congruence.
Qed.

Theorem fmt_rfc3339_is_date_time secs : time_dom secs = true -> Rfc3339_date_time (fmt_rfc3339_utc secs).
Proof.
  intros Hdom. pose proof Hdom as Hdom'. unfold time_dom in Hdom'. rewrite andb_true_iff, !Z.leb_le in Hdom'. destruct Hdom' as [L U].
  unfold fmt_rfc3339_utc.
  set (days := secs / 86400). set (rem := secs mod 86400).
  assert (Hr : 0 <= rem < 86400) by (apply Z.mod_pos_bound; reflexivity).
  assert (Hd : day_dom days = true) by (unfold days; rewrite <- time_dom_days; exact Hdom).
  pose proof (civil_roundtrip days Hd) as C. destruct (civil_from_days days) as [[y m] d].
  destruct C as [Hy [Hm [Hdd _]]].
  assert (Hdim : days_in_month y m <= 31).
  { unfold days_in_month. destruct (m =? 2); [destruct (is_leap y); lia|]. destruct ((m =? 4) || (m =? 6) || (m =? 9) || (m =? 11)); lia. }
  assert (Hh : 0 <= rem / 3600 < 24) by (split; [apply Z.div_pos; lia|apply Z.div_lt_upper_bound; lia]).
  assert (Hmi0 : 0 <= rem mod 3600 < 3600) by (apply Z.mod_pos_bound; reflexivity).
  assert (Hmi : 0 <= rem mod 3600 / 60 < 60) by (split; [apply Z.div_pos; lia|apply Z.div_lt_upper_bound; lia]).
  assert (Hse : 0 <= rem mod 60 < 60) by (apply Z.mod_pos_bound; reflexivity).
  destruct (dw4 y ltac:(lia)) as [a [b [c [e [ya [yb [E4 [Na [Nb Ey]]]]]]]]].
  destruct (dw2 m ltac:(lia)) as [m1 [m2 [Em Nm]]].
  destruct (dw2 d ltac:(lia)) as [d1 [d2 [Ed Nd]]].
  destruct (dw2 (rem / 3600) ltac:(lia)) as [h1 [h2 [Eh Nh]]].
  destruct (dw2 (rem mod 3600 / 60) ltac:(lia)) as [n1 [n2' [En Nn]]].
  destruct (dw2 (rem mod 60) ltac:(lia)) as [s1 [s2 [Es Ns]]].
  rewrite E4, Em, Ed, Eh, En, Es.
  change ([a; b; c; e] ++ [x2d] ++ [m1; m2] ++ [x2d] ++ [d1; d2] ++ [x54] ++ [h1; h2] ++ [x3a] ++ [n1; n2'] ++ [x3a] ++ [s1; s2] ++ [x5a])
    with (([a; b; c; e] ++ [x2d] ++ [m1; m2] ++ [x2d] ++ [d1; d2]) ++ [x54] ++ ([h1; h2] ++ [x3a] ++ [n1; n2'] ++ [x3a] ++ [s1; s2] ++ []) ++ [x5a]).
  apply DateTime.
  - apply (FullDate _ _ _ y m d (days_in_month y m)).
    + rewrite <- Ey. apply num2_four; assumption.
    + apply num2_two. exact Nm.
    + apply num2_two. exact Nd.
    + apply days_in_month_spec. exact Hm.
    + exact Hdd.
  - left. reflexivity.
  - apply (PartialTime false _ _ _ (rem / 3600) (rem mod 3600 / 60) (rem mod 60) []); try (apply num2_two; assumption); try lia.
    left. reflexivity.
  - apply OffsetZ.
Qed.

(* JSONWriteTimeProp: what is written is a date-time ... *)
Theorem w_time_rfc3339 t : time_writable t = true -> Rfc3339_date_time (fmt_rfc3339_utc (vsecs t)).
Proof. intros H. apply fmt_rfc3339_is_date_time. rewrite <- time_writable_dom. exact H. Qed.

(* ... and outside the years 0000-9999 nothing is written (the writer reports false, no member is added) *)
Theorem w_time_outside_nothing ei rt via term t : time_writable t = false ->
  write_value ei rt (B "JSONWriteTimeProp") via term (Some (FTime t)) = Some (term, [], false).
Proof.
  intros H. unfold write_value.
  change (bytes_eqb (B "JSONWriteTimeProp") (B "JSONWriteItemProp")) with false.
  change (bytes_eqb (B "JSONWriteTimeProp") (B "JSONWriteItemCollectionProp")) with false.
  change (bytes_eqb (B "JSONWriteTimeProp") (B "JSONWriteNaturalLanguageProp")) with false.
  change (bytes_eqb (B "JSONWriteTimeProp") (B "JSONWriteProp")) with false.
  change (bytes_eqb (B "JSONWriteTimeProp") (B "JSONWriteTimeProp")) with true. cbv iota. rewrite H. reflexivity.
Qed.

(* the writer of the pinned tree (before fix 2fbd1a5) printed every instant: for the first second of the year 10000 a
   text with a five-digit year, which is not a date-time, not even with lower-case letters or a leap second *)
Theorem w_time_pinned_refuted :
  exists t, time_writable t = false /\ fmt_rfc3339_utc (vsecs t) = B "10000-01-01T00:00:00Z" /\
            ~ Rfc3339_date_time_wide (fmt_rfc3339_utc (vsecs t)).
Proof.
  exists {| vsecs := 253402300800; vnanos := 0; voff := 0 |}. split; [vm_compute; reflexivity|]. split; [vm_compute; reflexivity|].
  intros K. apply date_timeb_spec in K. vm_compute in K. discriminate.
Qed.

(* non-vacuity: the ends of the range, a leap day, a century that is not a leap year *)
Example w_time_rfc3339_examples :
  fmt_rfc3339_utc (-62167219200) = B "0000-01-01T00:00:00Z" /\ time_dom (-62167219200) = true /\
  fmt_rfc3339_utc 253402300799 = B "9999-12-31T23:59:59Z" /\ time_dom 253402300799 = true /\
  fmt_rfc3339_utc 951782400 = B "2000-02-29T00:00:00Z" /\ fmt_rfc3339_utc (-2203891200) = B "1900-03-01T00:00:00Z" /\
  fmt_rfc3339_utc 1700000000 = B "2023-11-14T22:13:20Z" /\ time_dom 253402300800 = false /\ time_dom (-62167219201) = false.
Proof. repeat split; vm_compute; reflexivity. Qed.
