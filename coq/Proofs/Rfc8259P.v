(* Generic lemmas about the grammar of Spec/Rfc8259.v: the compact forms (no white space) of arrays and
   objects, strings made of plain characters, one-step decoding of an escape unit, name lists. *)
From AP.Model Require Import Prelude Bytes.
From AP.Spec Require Import Rfc8259.

Lemma Jws_nil : Jws [].
Proof. reflexivity. Qed.

Lemma Jstring_intro body s : Jchars body s -> Jstring (x22 :: body ++ [x22]) s.
Proof. intros H. exists body. split; [reflexivity|exact H]. Qed.

(* ---------------------------------------------------------------- byte sweeps *)
Lemma all_bytes_in_g (b : byte) : In b all_bytes.
Proof.
  unfold all_bytes. apply in_map_iff. exists (Byte.to_N b). split.
  - unfold byte_of_N_total. rewrite Byte.of_to_N. reflexivity.
  - apply in_map_iff. exists (N.to_nat (Byte.to_N b)). split; [apply N2Nat.id|].
    apply in_seq. pose proof (Byte.to_N_bounded b). lia.
Qed.
Lemma sweep1 (P : byte -> bool) : forallb P all_bytes = true -> forall b, P b = true.
Proof. intros H b. rewrite forallb_forall in H. apply H. apply all_bytes_in_g. Qed.
Lemma sweep2 (P : byte -> byte -> bool) :
  forallb (fun a => forallb (P a) all_bytes) all_bytes = true -> forall a b, P a b = true.
Proof. intros H a b. apply (sweep1 (P a)). apply (sweep1 (fun a => forallb (P a) all_bytes) H a). Qed.

Lemma beq_eq a b : Byte.eqb a b = true -> a = b.
Proof. apply Byte.byte_dec_bl. Qed.
Lemma beq_refl a : Byte.eqb a a = true.
Proof. apply Byte.byte_dec_lb. reflexivity. Qed.

(* ---------------------------------------------------------------- strings *)
(* one unit of a string body and what it stands for: an unescaped one-byte character, a two-character
   escape, or the \uXXXX escape of a character that is not a surrogate *)
Definition dec_unit (u : bytes) : option bytes :=
  match u with
  | [c] => if j_unescaped [c] then Some [c] else None
  | [b; e] => if Byte.eqb b x5c then match j_simple_escape e with Some d => Some [d] | None => None end else None
  | [b; u; h1; h2; h3; h4] =>
      if Byte.eqb b x5c && Byte.eqb u x75 then
        match j_hex4 h1 h2 h3 h4 with
        | Some x => if j_is_surrogate x then None else Some (j_utf8_encode x)
        | None => None
        end
      else None
  | _ => None
  end.

Lemma dec_unit_sound u d r s : dec_unit u = Some d -> Jchars r s -> Jchars (u ++ r) (d ++ s).
Proof.
  intros Hu Hr. unfold dec_unit in Hu.
  destruct u as [|c0 [|c1 [|c2 [|c3 [|c4 [|c5 [|c6 u]]]]]]]; try discriminate.
  - destruct (j_unescaped [c0]) eqn:E; [|discriminate]. inversion Hu; subst.
    apply (JC_unescaped [c0]); assumption.
  - destruct (Byte.eqb c0 x5c) eqn:E0; [|discriminate]. apply beq_eq in E0. subst c0.
    destruct (j_simple_escape c1) as [d'|] eqn:E1; [|discriminate]. inversion Hu; subst.
    simpl. apply JC_escape; assumption.
  - destruct (Byte.eqb c0 x5c && Byte.eqb c1 x75) eqn:E0; [|discriminate].
    apply andb_true_iff in E0. destruct E0 as [E0 E1]. apply beq_eq in E0, E1. subst c0 c1.
    destruct (j_hex4 c2 c3 c4 c5) as [x|] eqn:E2; [|discriminate].
    destruct (j_is_surrogate x) eqn:E3; [discriminate|]. inversion Hu; subst.
    simpl. apply JC_u; assumption.
Qed.

(* a byte that is an unescaped character by itself *)
Definition plainb (b : byte) : bool := j_unescaped [b].

Lemma Jchars_plain_k s r t : forallb plainb s = true -> Jchars r t -> Jchars (s ++ r) (s ++ t).
Proof.
  induction s as [|b s IH]; intros Hs Hr; [exact Hr|].
  simpl in Hs. apply andb_true_iff in Hs. destruct Hs as [Hb Hs].
  change ((b :: s) ++ r) with ([b] ++ (s ++ r)). change ((b :: s) ++ t) with ([b] ++ (s ++ t)).
  apply JC_unescaped; [exact Hb|apply IH; assumption].
Qed.

Lemma Jchars_plain s : forallb plainb s = true -> Jchars s s.
Proof. intros H. pose proof (Jchars_plain_k s [] [] H JC_end) as K. rewrite !app_nil_r in K. exact K. Qed.

Lemma Jstring_plain s : forallb plainb s = true -> Jstring (x22 :: s ++ [x22]) s.
Proof. intros H. apply Jstring_intro. apply Jchars_plain. exact H. Qed.

(* ---------------------------------------------------------------- compact arrays *)
Lemma join_with_cons2 sep (x y : bytes) r : join_with sep (x :: y :: r) = x ++ sep ++ join_with sep (y :: r).
Proof. reflexivity. Qed.

Lemma Jelements_compact bs vs : bs <> [] -> Forall2 Jvalue bs vs -> Jelements (join_with [x2c] bs) vs.
Proof.
  intros Hne H. induction H as [|b v bs vs Hb Hr IH]; [contradiction|].
  destruct Hr as [|b' v' bs' vs' Hb' Hr'].
  - simpl. apply JE_one. exact Hb.
  - rewrite join_with_cons2.
    assert (b' :: bs' <> []) as Hne' by discriminate.
    pose proof (JE_cons b v [] [] _ _ Hb Jws_nil Jws_nil (IH Hne')) as K.
    simpl in K. exact K.
Qed.

Lemma Jvalue_array_compact bs vs : Forall2 Jvalue bs vs -> Jvalue (x5b :: join_with [x2c] bs ++ [x5d]) (VArr vs).
Proof.
  intros H. destruct bs as [|b bs].
  - inversion H; subst. exact (JV_array_empty [] Jws_nil).
  - assert (b :: bs <> []) as Hne by discriminate.
    pose proof (JV_array [] _ _ [] Jws_nil (Jelements_compact _ _ Hne H) Jws_nil) as K.
    simpl in K. simpl. exact K.
Qed.

(* ---------------------------------------------------------------- compact objects *)
(* the bytes of one member, name and value without white space around the colon *)
Definition Jmember (m : bytes) (kv : bytes * jv) : Prop :=
  exists kb vb, m = kb ++ [x3a] ++ vb /\ Jstring kb (fst kv) /\ Jvalue vb (snd kv).

Lemma Jmembers_compact ms kvs : ms <> [] -> Forall2 Jmember ms kvs -> Jmembers (join_with [x2c] ms) kvs.
Proof.
  intros Hne H. induction H as [|m kv ms kvs Hm Hr IH]; [contradiction|].
  destruct Hm as [kb [vb [-> [Hk Hv]]]]. destruct kv as [name v]. simpl in Hk, Hv.
  destruct Hr as [|m' kv' ms' kvs' Hm' Hr'].
  - simpl. pose proof (JM_one kb name [] [] vb v Hk Jws_nil Jws_nil Hv) as K. simpl in K. exact K.
  - rewrite join_with_cons2.
    assert (m' :: ms' <> []) as Hne' by discriminate.
    pose proof (JM_cons kb name [] [] vb v [] [] _ _ Hk Jws_nil Jws_nil Hv Jws_nil Jws_nil (IH Hne')) as K.
    simpl in K. exact K.
Qed.

Lemma Jvalue_object_compact ms kvs : Forall2 Jmember ms kvs -> Jvalue (x7b :: join_with [x2c] ms ++ [x7d]) (VObj kvs).
Proof.
  intros H. destruct ms as [|m ms].
  - inversion H; subst. exact (JV_object_empty [] Jws_nil).
  - assert (m :: ms <> []) as Hne by discriminate.
    pose proof (JV_object [] _ _ [] Jws_nil (Jmembers_compact _ _ Hne H) Jws_nil) as K.
    simpl in K. simpl. exact K.
Qed.

Lemma Jvalue_text b v : Jvalue b v -> Jtext b v.
Proof. intros H. exists [], b, []. rewrite app_nil_r. repeat split; try exact Jws_nil. exact H. Qed.

(* ---------------------------------------------------------------- name lists *)
Lemma bytes_eqb_true a b : bytes_eqb a b = true -> a = b.
Proof.
  revert b. induction a as [|x a IH]; intros [|y b] H; try discriminate; [reflexivity|].
  simpl in H. apply andb_true_iff in H. destruct H as [H1 H2]. apply beq_eq in H1. f_equal; [exact H1|apply IH; exact H2].
Qed.
Lemma bytes_eqb_rfl a : bytes_eqb a a = true.
Proof. induction a as [|x a IH]; [reflexivity|]. simpl. rewrite beq_refl. exact IH. Qed.

Lemma nodupb_NoDup l : nodupb l = true <-> NoDup l.
Proof.
  induction l as [|x l IH]; simpl.
  - split; [constructor|reflexivity].
  - rewrite andb_true_iff, negb_true_iff, IH. split.
    + intros [Hx Hl]. constructor; [|exact Hl]. intros Hin.
      assert (existsb (bytes_eqb x) l = true) as K by (apply existsb_exists; exists x; split; [exact Hin|apply bytes_eqb_rfl]).
      congruence.
    + intros H. inversion H as [|? ? Hx Hl]; subst. split; [|exact Hl].
      destruct (existsb (bytes_eqb x) l) eqn:E; [|reflexivity].
      apply existsb_exists in E. destruct E as [y [Hy Hxy]]. apply bytes_eqb_true in Hxy. subst y. contradiction.
Qed.

(* subsequences *)
Inductive subseq {A} : list A -> list A -> Prop :=
| ss_nil : subseq [] []
| ss_skip x l m : subseq l m -> subseq l (x :: m)
| ss_take x l m : subseq l m -> subseq (x :: l) (x :: m).

Lemma subseq_refl {A} (l : list A) : subseq l l.
Proof. induction l; constructor; assumption. Qed.
Lemma subseq_nil_l {A} (l : list A) : subseq [] l.
Proof. induction l; constructor; assumption. Qed.
Lemma subseq_app {A} (a b c d : list A) : subseq a b -> subseq c d -> subseq (a ++ c) (b ++ d).
Proof. intros H. induction H; intros K; simpl; [exact K| |]; constructor; apply IHsubseq; exact K. Qed.
Lemma subseq_In {A} (l m : list A) x : subseq l m -> In x l -> In x m.
Proof.
  intros H. induction H; intros K; [exact K| |].
  - right. apply IHsubseq. exact K.
  - destruct K as [K|K]; [left; exact K|right; apply IHsubseq; exact K].
Qed.
Lemma subseq_NoDup {A} (l m : list A) : subseq l m -> NoDup m -> NoDup l.
Proof.
  intros H. induction H; intros K; [exact K| |].
  - inversion K; subst. apply IHsubseq. assumption.
  - inversion K as [|? ? Hx Hm]; subst. constructor; [|apply IHsubseq; exact Hm].
    intros Hin. apply Hx. eapply subseq_In; eassumption.
Qed.
Lemma subseq_trans {A} (a b c : list A) : subseq a b -> subseq b c -> subseq a c.
Proof.
  intros H K. revert a H. induction K; intros a H.
  - exact H.
  - constructor. apply IHK. exact H.
  - inversion H; subst.
    + apply ss_skip. apply IHK. assumption.
    + apply ss_take. apply IHK. assumption.
Qed.
Lemma subseq_flat_map {A B} (f : A -> list B) (l m : list A) : subseq l m -> subseq (flat_map f l) (flat_map f m).
Proof.
  intros H. induction H; simpl; [constructor| |].
  - change (flat_map f l) with ([] ++ flat_map f l). apply subseq_app; [apply subseq_nil_l|exact IHsubseq].
  - apply subseq_app; [apply subseq_refl|exact IHsubseq].
Qed.

(* one name picked from the candidate names of each element of a list with pairwise distinct candidates *)
Lemma pick_NoDup {A} (f : A -> list bytes) (es : list A) (ns : list bytes) :
  Forall2 (fun n e => In n (f e)) ns es -> NoDup (flat_map f es) -> NoDup ns.
Proof.
  intros H. induction H as [|n e ns es Hn Hr IH]; intros K; [constructor|].
  simpl in K. constructor.
  - intros Hin.
    assert (In n (flat_map f es)) as Hin'.
    { clear - Hr Hin. induction Hr as [|n' e' ns es Hn' Hr IH]; [contradiction|].
      simpl. apply in_or_app. destruct Hin as [<-|Hin]; [left; exact Hn'|right; apply IH; exact Hin]. }
    clear - K Hn Hin'. induction (f e) as [|y ys IHy]; [contradiction|].
    simpl in K. inversion K as [|? ? Hy Hys]; subst.
    destruct Hn as [<-|Hn]; [apply Hy; apply in_or_app; right; exact Hin'|apply IHy; assumption].
  - apply IH. clear - K. induction (f e) as [|y ys IHy]; [exact K|]. simpl in K. inversion K; subst. apply IHy. assumption.
Qed.
