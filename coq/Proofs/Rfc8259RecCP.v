(* Proofs/Rfc8259RecCP.v - completeness of the value readers of Spec/Rfc8259Rec.v for the grammar of
   Spec/Rfc8259.v:  Jtext b v -> json_parse b = Some v.  The leaf scanners are in Rfc8259RecLeafCP.v. *)
From AP.Model Require Import Prelude.
From AP.Spec Require Import Rfc8259 Rfc8259Rec.
From AP.Proofs Require Import Rfc8259RecLeafCP.

(* ---------------------------------------------------------------- byte sweeps *)
Lemma all_bytes_in (b : byte) : In b all_bytes.
Proof.
  unfold all_bytes. apply in_map_iff. exists (Byte.to_N b). split.
  - unfold byte_of_N_total. rewrite Byte.of_to_N. reflexivity.
  - apply in_map_iff. exists (N.to_nat (Byte.to_N b)). split.
    + apply N2Nat.id.
    + apply in_seq. pose proof (Byte.to_N_bounded b). lia.
Qed.

Lemma sweep (P : byte -> bool) : forallb P all_bytes = true -> forall b, P b = true.
Proof. intros H b. rewrite forallb_forall in H. apply H, all_bytes_in. Qed.

(* the bytes a value can start with *)
Definition val_start (a : byte) : bool :=
  Byte.eqb a x22 || Byte.eqb a x5b || Byte.eqb a x7b || Byte.eqb a x2d || j_digit a
  || Byte.eqb a x6e || Byte.eqb a x74 || Byte.eqb a x66.

Lemma val_start_sweep a :
  (negb (val_start a) || (negb (j_is_ws a) && negb (Byte.eqb a x5d) && negb (Byte.eqb a x7d))) = true.
Proof. revert a. apply sweep. vm_compute. reflexivity. Qed.

Lemma val_start_facts a : val_start a = true ->
  j_is_ws a = false /\ Byte.eqb a x5d = false /\ Byte.eqb a x7d = false.
Proof.
  intros H. pose proof (val_start_sweep a) as S. rewrite H in S. cbn [negb orb] in S.
  destruct (j_is_ws a), (Byte.eqb a x5d), (Byte.eqb a x7d); cbn in S; try discriminate; auto.
Qed.

Lemma num_start_sweep a :
  (negb (Byte.eqb a x2d || j_digit a)
   || (val_start a && negb (Byte.eqb a x22) && negb (Byte.eqb a x5b) && negb (Byte.eqb a x7b)
       && negb (Byte.eqb x6e a) && negb (Byte.eqb x74 a) && negb (Byte.eqb x66 a))) = true.
Proof. revert a. apply sweep. vm_compute. reflexivity. Qed.

Lemma num_start_facts a : (Byte.eqb a x2d || j_digit a) = true ->
  val_start a = true /\ Byte.eqb a x22 = false /\ Byte.eqb a x5b = false /\ Byte.eqb a x7b = false
  /\ Byte.eqb x6e a = false /\ Byte.eqb x74 a = false /\ Byte.eqb x66 a = false.
Proof.
  intros H. pose proof (num_start_sweep a) as S. rewrite H in S. cbn [negb orb] in S.
  destruct (val_start a), (Byte.eqb a x22), (Byte.eqb a x5b), (Byte.eqb a x7b),
    (Byte.eqb x6e a), (Byte.eqb x74 a), (Byte.eqb x66 a); cbn in S; try discriminate; repeat split.
Qed.

Lemma ws_follow_sweep b :
  (negb (j_is_ws b) || negb (j_digit b || Byte.eqb b x2e || Byte.eqb b x65 || Byte.eqb b x45)) = true.
Proof. revert b. apply sweep. vm_compute. reflexivity. Qed.

(* ---------------------------------------------------------------- white space and what may follow a number *)
Lemma Jws_cons b w : Jws (b :: w) -> j_is_ws b = true /\ Jws w.
Proof. unfold Jws. cbn [forallb]. intros H. apply andb_true_iff in H. exact H. Qed.

Lemma ws_head_follow b w : j_is_ws b = true -> num_follow_ok (b :: w) = true.
Proof.
  intros H. pose proof (ws_follow_sweep b) as S. rewrite H in S. cbn [negb orb] in S.
  unfold num_follow_ok. exact S.
Qed.

Lemma ws_follow w d rest : Jws w -> d = x2c \/ d = x5d \/ d = x7d -> num_follow_ok (w ++ d :: rest) = true.
Proof.
  intros Hw Hd. destruct w as [|b w].
  - cbn [app]. destruct Hd as [-> | [-> | ->] ]; reflexivity.
  - cbn [app]. apply ws_head_follow. apply (Jws_cons _ _ Hw).
Qed.

Lemma ws_follow_nil w : Jws w -> num_follow_ok w = true.
Proof.
  intros Hw. destruct w as [|b w]; [reflexivity|]. apply ws_head_follow. apply (Jws_cons _ _ Hw).
Qed.

Lemma no_ws_val_start a l : val_start a = true -> no_ws_head (a :: l) = true.
Proof. intros H. cbn [no_ws_head]. destruct (val_start_facts a H) as (-> & _). reflexivity. Qed.

(* ---------------------------------------------------------------- first bytes *)
Lemma Jvalue_head c v : Jvalue c v -> exists a c', c = a :: c' /\ val_start a = true.
Proof.
  intros H. destruct H.
  - eexists _, _. split; [reflexivity|vm_compute; reflexivity].
  - eexists _, _. split; [reflexivity|vm_compute; reflexivity].
  - eexists _, _. split; [reflexivity|vm_compute; reflexivity].
  - destruct (Jnumber_head n H) as (a & n' & -> & Ha). exists a, n'. split; [reflexivity|].
    apply (num_start_facts a Ha).
  - destruct H as (body & -> & _). eexists _, _. split; [reflexivity|vm_compute; reflexivity].
  - eexists _, _. split; [reflexivity|vm_compute; reflexivity].
  - eexists _, _. split; [reflexivity|vm_compute; reflexivity].
  - eexists _, _. split; [reflexivity|vm_compute; reflexivity].
  - eexists _, _. split; [reflexivity|vm_compute; reflexivity].
Qed.

Lemma Jelements_head b l : Jelements b l -> exists a b', b = a :: b' /\ val_start a = true.
Proof.
  intros H. destruct H as [b v Hv|b v w1 w2 r l Hv _ _ _].
  - exact (Jvalue_head _ _ Hv).
  - destruct (Jvalue_head _ _ Hv) as (a & b' & -> & Ha). eexists _, _. split; [reflexivity|exact Ha].
Qed.

Lemma Jmembers_head b ms : Jmembers b ms -> exists b', b = x22 :: b'.
Proof.
  intros H. destruct H as [k name w1 w2 b v Hk|k name w1 w2 b v w3 w4 r ms Hk].
  - destruct Hk as (body & -> & _). eexists. reflexivity.
  - destruct Hk as (body & -> & _). eexists. reflexivity.
Qed.

(* ---------------------------------------------------------------- one-step unfoldings of the readers *)
Lemma pv_string f r :
  parse_value (S f) (x22 :: r)
  = match scan_string_tail r with Some (s, rest) => Some (VStr s, rest) | None => None end.
Proof. reflexivity. Qed.

Lemma pv_array f r :
  parse_value (S f) (x5b :: r)
  = match skip_ws r with
    | d :: r1 =>
        if Byte.eqb d x5d then Some (VArr [], r1)
        else match parse_elements f (d :: r1) with Some (vs, rest) => Some (VArr vs, rest) | None => None end
    | [] => None
    end.
Proof. reflexivity. Qed.

Lemma pv_object f r :
  parse_value (S f) (x7b :: r)
  = match skip_ws r with
    | d :: r1 =>
        if Byte.eqb d x7d then Some (VObj [], r1)
        else match parse_members f (d :: r1) with Some (ms, rest) => Some (VObj ms, rest) | None => None end
    | [] => None
    end.
Proof. reflexivity. Qed.

Lemma pv_number f a l : (Byte.eqb a x2d || j_digit a) = true ->
  parse_value (S f) (a :: l)
  = match scan_number (a :: l) with Some (n, rest) => Some (VNum n, rest) | None => None end.
Proof.
  intros Ha. destruct (num_start_facts a Ha) as (_ & H1 & H2 & H3 & H4 & H5 & H6).
  change (parse_value (S f) (a :: l)) with
    (if Byte.eqb a x22 then
       match scan_string_tail l with Some (s, rest) => Some (VStr s, rest) | None => None end
     else if Byte.eqb a x5b then
       match skip_ws l with
       | d :: r1 =>
           if Byte.eqb d x5d then Some (VArr [], r1)
           else match parse_elements f (d :: r1) with Some (vs, rest) => Some (VArr vs, rest) | None => None end
       | [] => None
       end
     else if Byte.eqb a x7b then
       match skip_ws l with
       | d :: r1 =>
           if Byte.eqb d x7d then Some (VObj [], r1)
           else match parse_members f (d :: r1) with Some (ms, rest) => Some (VObj ms, rest) | None => None end
       | [] => None
       end
     else
       match strip_prefix (B "null") (a :: l) with
       | Some rest => Some (VNull, rest)
       | None =>
           match strip_prefix (B "true") (a :: l) with
           | Some rest => Some (VTrue, rest)
           | None =>
               match strip_prefix (B "false") (a :: l) with
               | Some rest => Some (VFalse, rest)
               | None => match scan_number (a :: l) with Some (n, rest) => Some (VNum n, rest) | None => None end
               end
           end
       end).
  rewrite H1, H2, H3.
  change (strip_prefix (B "null") (a :: l)) with (if Byte.eqb x6e a then strip_prefix (B "ull") l else None).
  change (strip_prefix (B "true") (a :: l)) with (if Byte.eqb x74 a then strip_prefix (B "rue") l else None).
  change (strip_prefix (B "false") (a :: l)) with (if Byte.eqb x66 a then strip_prefix (B "alse") l else None).
  rewrite H4, H5, H6. reflexivity.
Qed.

Lemma pe_S f l :
  parse_elements (S f) l
  = match parse_value f l with
    | None => None
    | Some (v, rest) =>
        match skip_ws rest with
        | d :: r1 =>
            if Byte.eqb d x5d then Some ([v], r1)
            else if Byte.eqb d x2c then
              match parse_elements f (skip_ws r1) with Some (vs, rest') => Some (v :: vs, rest') | None => None end
            else None
        | [] => None
        end
    end.
Proof. reflexivity. Qed.

Lemma pm_S f r :
  parse_members (S f) (x22 :: r)
  = match scan_string_tail r with
    | None => None
    | Some (name, rest0) =>
        match skip_ws rest0 with
        | c :: r0 =>
            if Byte.eqb c x3a then
              match parse_value f (skip_ws r0) with
              | None => None
              | Some (v, rest) =>
                  match skip_ws rest with
                  | d :: r1 =>
                      if Byte.eqb d x7d then Some ([(name, v)], r1)
                      else if Byte.eqb d x2c then
                        match parse_members f (skip_ws r1) with
                        | Some (ms, rest') => Some ((name, v) :: ms, rest')
                        | None => None
                        end
                      else None
                  | [] => None
                  end
              end
            else None
        | [] => None
        end
    end.
Proof. reflexivity. Qed.

Ltac norm_app := repeat (progress (cbn [app]; rewrite <- ?app_assoc)).
Ltac len_lia H := rewrite ?app_length in H; cbn [length] in H; rewrite ?app_length in H; cbn [length] in H;
                  cbn [length]; lia.

(* ---------------------------------------------------------------- completeness *)
Theorem parse_complete :
  (forall c v, Jvalue c v -> forall fuel rest, 2 * length c <= fuel -> num_follow_ok rest = true ->
     parse_value fuel (c ++ rest) = Some (v, rest))
  /\ (forall b l, Jelements b l -> forall fuel w2 rest, 2 * length b + 1 <= fuel -> Jws w2 ->
     parse_elements fuel (b ++ w2 ++ x5d :: rest) = Some (l, rest))
  /\ (forall b ms, Jmembers b ms -> forall fuel w2 rest, 2 * length b + 1 <= fuel -> Jws w2 ->
     parse_members fuel (b ++ w2 ++ x7d :: rest) = Some (ms, rest)).
Proof.
  apply Jgrammar_mutind.
  - (* null *)
    intros fuel rest Hf Hr. destruct fuel as [|f]; [cbn in Hf; lia|]. reflexivity.
  - (* true *)
    intros fuel rest Hf Hr. destruct fuel as [|f]; [cbn in Hf; lia|]. reflexivity.
  - (* false *)
    intros fuel rest Hf Hr. destruct fuel as [|f]; [cbn in Hf; lia|]. reflexivity.
  - (* number *)
    intros n Hn fuel rest Hf Hr. destruct (Jnumber_head n Hn) as (a & n' & E & Ha).
    destruct fuel as [|f]; [subst n; cbn [length] in Hf; lia|].
    assert (E2 : n ++ rest = a :: n' ++ rest) by (subst n; reflexivity).
    rewrite E2, (pv_number f a _ Ha), <- E2. rewrite (scan_number_complete n rest Hn Hr). reflexivity.
  - (* string *)
    intros b s (body & -> & Hc) fuel rest Hf Hr.
    destruct fuel as [|f]; [cbn [length] in Hf; lia|].
    norm_app. rewrite pv_string, (scan_string_tail_complete body s rest Hc). reflexivity.
  - (* empty array *)
    intros w Hw fuel rest Hf Hr.
    destruct fuel as [|f]; [cbn [app length] in Hf; lia|].
    norm_app. rewrite pv_array, (skip_ws_complete w (x5d :: rest) Hw eq_refl). reflexivity.
  - (* array *)
    intros w1 b l w2 Hw1 Hb IH Hw2 fuel rest Hf Hr.
    destruct fuel as [|f]; [cbn [app length] in Hf; lia|].
    destruct (Jelements_head _ _ Hb) as (a & b' & E & Ha).
    destruct (val_start_facts a Ha) as (_ & H5d & _).
    norm_app. rewrite pv_array.
    rewrite (skip_ws_complete w1 _ Hw1) by (rewrite E; cbn [app]; apply no_ws_val_start, Ha).
    specialize (IH f w2 rest).
    rewrite E in IH |- *. cbn [app] in IH |- *. rewrite H5d.
    rewrite IH; [reflexivity| |exact Hw2].
    rewrite E in Hf. len_lia Hf.
  - (* empty object *)
    intros w Hw fuel rest Hf Hr.
    destruct fuel as [|f]; [cbn [app length] in Hf; lia|].
    norm_app. rewrite pv_object, (skip_ws_complete w (x7d :: rest) Hw eq_refl). reflexivity.
  - (* object *)
    intros w1 b ms w2 Hw1 Hb IH Hw2 fuel rest Hf Hr.
    destruct fuel as [|f]; [cbn [app length] in Hf; lia|].
    destruct (Jmembers_head _ _ Hb) as (b' & E).
    norm_app. rewrite pv_object.
    rewrite (skip_ws_complete w1 _ Hw1) by (rewrite E; reflexivity).
    specialize (IH f w2 rest).
    rewrite E in IH |- *. cbn [app] in IH |- *.
    change (Byte.eqb x22 x7d) with false. cbv iota.
    rewrite IH; [reflexivity| |exact Hw2].
    rewrite E in Hf. len_lia Hf.
  - (* one element *)
    intros b v Hv IHv fuel w2 rest Hf Hw2.
    destruct fuel as [|f]; [lia|].
    rewrite pe_S, IHv; [| lia | apply ws_follow; auto].
    rewrite (skip_ws_complete w2 (x5d :: rest) Hw2 eq_refl). reflexivity.
  - (* element, comma, elements *)
    intros b v w1 w2 r l Hv IHv Hw1 Hw2 Hr IHr fuel w3 rest Hf Hw3.
    destruct fuel as [|f]; [lia|].
    destruct (Jelements_head _ _ Hr) as (a & r' & E & Ha).
    norm_app. rewrite pe_S, IHv; [| len_lia Hf | apply ws_follow; auto].
    rewrite (skip_ws_complete w1 (x2c :: _) Hw1 eq_refl).
    change (Byte.eqb x2c x5d) with false. change (Byte.eqb x2c x2c) with true. cbv iota.
    rewrite (skip_ws_complete w2 _ Hw2) by (rewrite E; cbn [app]; apply no_ws_val_start, Ha).
    rewrite IHr; [reflexivity| len_lia Hf | exact Hw3].
  - (* one member *)
    intros k name w1 w2 b v (body & -> & Hc) Hw1 Hw2 Hv IHv fuel w3 rest Hf Hw3.
    destruct fuel as [|f]; [lia|].
    destruct (Jvalue_head _ _ Hv) as (a & b' & E & Ha).
    norm_app. rewrite pm_S, (scan_string_tail_complete body name _ Hc).
    rewrite (skip_ws_complete w1 (x3a :: _) Hw1 eq_refl).
    change (Byte.eqb x3a x3a) with true. cbv iota.
    rewrite (skip_ws_complete w2 _ Hw2) by (rewrite E; cbn [app]; apply no_ws_val_start, Ha).
    rewrite IHv; [| len_lia Hf | apply ws_follow; auto].
    rewrite (skip_ws_complete w3 (x7d :: rest) Hw3 eq_refl). reflexivity.
  - (* member, comma, members *)
    intros k name w1 w2 b v w3 w4 r ms (body & -> & Hc) Hw1 Hw2 Hv IHv Hw3 Hw4 Hr IHr fuel w5 rest Hf Hw5.
    destruct fuel as [|f]; [lia|].
    destruct (Jvalue_head _ _ Hv) as (a & b' & E & Ha).
    destruct (Jmembers_head _ _ Hr) as (r' & Er).
    norm_app. rewrite pm_S, (scan_string_tail_complete body name _ Hc).
    rewrite (skip_ws_complete w1 (x3a :: _) Hw1 eq_refl).
    change (Byte.eqb x3a x3a) with true. cbv iota.
    rewrite (skip_ws_complete w2 _ Hw2) by (rewrite E; cbn [app]; apply no_ws_val_start, Ha).
    rewrite IHv; [| len_lia Hf | apply ws_follow; auto].
    rewrite (skip_ws_complete w3 (x2c :: _) Hw3 eq_refl).
    change (Byte.eqb x2c x7d) with false. change (Byte.eqb x2c x2c) with true. cbv iota.
    rewrite (skip_ws_complete w4 _ Hw4) by (rewrite Er; reflexivity).
    rewrite IHr; [reflexivity| len_lia Hf | exact Hw5].
Qed.

Theorem json_parse_complete b v : Jtext b v -> json_parse b = Some v.
Proof.
  intros (w1 & c & w2 & -> & Hw1 & Hc & Hw2). unfold json_parse.
  destruct (Jvalue_head _ _ Hc) as (a & c' & E & Ha).
  rewrite (skip_ws_complete w1 _ Hw1) by (rewrite E; cbn [app]; apply no_ws_val_start, Ha).
  rewrite (proj1 parse_complete c v Hc); [| rewrite !app_length; lia | apply ws_follow_nil, Hw2].
  pose proof (skip_ws_complete w2 [] Hw2 eq_refl) as E2. rewrite app_nil_r in E2. rewrite E2. reflexivity.
Qed.
