(* Proofs/Rfc8259RecLeafCP.v - completeness of the leaf scanners of Spec/Rfc8259Rec.v (white space, literals, numbers,
   strings) for the grammar of Spec/Rfc8259.v: what the grammar generates, the scanner reads, whatever follows
   (for numbers: whatever follows that cannot continue a number). *)
From AP.Model Require Import Prelude.
From AP.Spec Require Import Rfc8259 Rfc8259Rec.

(* what may follow a number: anything that does not continue it *)
Definition num_follow_ok (rest : bytes) : bool :=
  match rest with
  | [] => true
  | b :: _ => negb (j_digit b || Byte.eqb b x2e || Byte.eqb b x65 || Byte.eqb b x45)
  end.
Definition no_ws_head (rest : bytes) : bool := match rest with [] => true | b :: _ => negb (j_is_ws b) end.

(* ---------------------------------------------------------------- per-byte facts, by a sweep over the 256 bytes *)
Lemma all_bytes_in (b : byte) : In b all_bytes.
Proof.
  unfold all_bytes. apply in_map_iff. exists (Byte.to_N b). split.
  - unfold byte_of_N_total. rewrite Byte.of_to_N. reflexivity.
  - apply in_map_iff. exists (N.to_nat (Byte.to_N b)). split.
    + apply N2Nat.id.
    + apply in_seq. pose proof (Byte.to_N_bounded b). lia.
Qed.

Lemma sweep (P : byte -> bool) : forallb P all_bytes = true -> forall b, P b = true.
Proof. intros H b. rewrite forallb_forall in H. apply H. apply all_bytes_in. Qed.

Lemma imp_b (X Y : bool) : negb X || Y = true -> X = true -> Y = true.
Proof. destruct X; cbn; congruence. Qed.

Lemma beq_refl (a : byte) : Byte.eqb a a = true.
Proof. apply Byte.byte_dec_lb. reflexivity. Qed.

Lemma skip_ws_complete w rest : Jws w -> no_ws_head rest = true -> skip_ws (w ++ rest) = rest.
Proof.
  unfold Jws. induction w as [|a w IH]; intros Hw Hr.
  - cbn [app]. destruct rest as [|b r]; [reflexivity|]. cbn [skip_ws]. cbn [no_ws_head] in Hr.
    destruct (j_is_ws b); [discriminate|reflexivity].
  - cbn [forallb] in Hw. apply andb_true_iff in Hw. destruct Hw as [Ha Hw]. cbn [app skip_ws]. rewrite Ha. auto.
Qed.

Lemma strip_prefix_app p r : strip_prefix p (p ++ r) = Some r.
Proof. induction p as [|a p IH]; cbn [app strip_prefix]; [reflexivity|]. rewrite beq_refl. exact IH. Qed.

(* ---------------------------------------------------------------- numbers *)
Definition nodig (l : bytes) : bool := match l with [] => true | b :: _ => negb (j_digit b) end.
Definition nofrac (l : bytes) : bool := match l with [] => true | b :: _ => negb (j_digit b || Byte.eqb b x2e) end.

Lemma digit_fact b :
  negb (j_digit b) || (negb (Byte.eqb b x2e) && negb (Byte.eqb b x65) && negb (Byte.eqb b x45)
                       && negb (Byte.eqb b x2d) && negb (Byte.eqb b x2b)) = true.
Proof. revert b. apply sweep. vm_compute. reflexivity. Qed.

Lemma digit_neq b : j_digit b = true ->
  Byte.eqb b x2e = false /\ Byte.eqb b x65 = false /\ Byte.eqb b x45 = false /\ Byte.eqb b x2d = false /\ Byte.eqb b x2b = false.
Proof.
  intros H. pose proof (imp_b _ _ (digit_fact b) H) as G.
  apply andb_true_iff in G. destruct G as [G G5]. apply andb_true_iff in G. destruct G as [G G4].
  apply andb_true_iff in G. destruct G as [G G3]. apply andb_true_iff in G. destruct G as [G1 G2].
  repeat split; apply negb_true_iff; assumption.
Qed.

Lemma digit19_fact b : negb (j_digit19 b) || (j_digit b && negb (Byte.eqb b x30)) = true.
Proof. revert b. apply sweep. vm_compute. reflexivity. Qed.

Lemma follow_elim b r : num_follow_ok (b :: r) = true ->
  j_digit b = false /\ Byte.eqb b x2e = false /\ Byte.eqb b x65 = false /\ Byte.eqb b x45 = false.
Proof.
  cbn [num_follow_ok].
  destruct (j_digit b), (Byte.eqb b x2e), (Byte.eqb b x65), (Byte.eqb b x45); cbn [negb orb]; intros H;
    try discriminate; repeat split; reflexivity.
Qed.

Lemma follow_nodig l : num_follow_ok l = true -> nodig l = true.
Proof.
  destruct l as [|b l]; [reflexivity|]. intros H. destruct (follow_elim _ _ H) as (Hd & _). cbn [nodig]. rewrite Hd. reflexivity.
Qed.

Lemma follow_nofrac l : num_follow_ok l = true -> nofrac l = true.
Proof.
  destruct l as [|b l]; [reflexivity|]. intros H. destruct (follow_elim _ _ H) as (Hd & He & _). cbn [nofrac].
  rewrite Hd, He. reflexivity.
Qed.

Lemma nofrac_nodig l : nofrac l = true -> nodig l = true.
Proof.
  destruct l as [|b l]; [reflexivity|]. cbn [nofrac nodig]. destruct (j_digit b); cbn [negb orb]; auto.
Qed.

Lemma span_digits_app ds rest : forallb j_digit ds = true -> nodig rest = true -> span_digits (ds ++ rest) = (ds, rest).
Proof.
  induction ds as [|a ds IH]; intros Hd Hr.
  - cbn [app]. destruct rest as [|b r]; [reflexivity|]. cbn [span_digits]. cbn [nodig] in Hr.
    destruct (j_digit b); [discriminate|reflexivity].
  - cbn [forallb] in Hd. apply andb_true_iff in Hd. destruct Hd as [Ha Hd]. cbn [app span_digits].
    rewrite Ha, (IH Hd Hr). reflexivity.
Qed.

Lemma scan_minus_complete m l :
  Jopt (fun s => s = [x2d]) m -> (exists d l', l = d :: l' /\ j_digit d = true) -> scan_minus (m ++ l) = (m, l).
Proof.
  intros [->| ->] (d & l' & -> & Hd).
  - cbn [app scan_minus]. destruct (digit_neq d Hd) as (_ & _ & _ & H2d & _). rewrite H2d. reflexivity.
  - reflexivity.
Qed.

Lemma Jint_head i : Jint i -> exists d i', i = d :: i' /\ j_digit d = true.
Proof.
  intros [->|(d & r & -> & H19 & _)].
  - exists x30, []. split; reflexivity.
  - exists d, r. split; [reflexivity|]. pose proof (imp_b _ _ (digit19_fact d) H19) as G.
    apply andb_true_iff in G. tauto.
Qed.

Lemma scan_int_complete i l : Jint i -> nodig l = true -> scan_int (i ++ l) = Some (i, l).
Proof.
  intros [->|(d & r & -> & H19 & Hr)] Hl.
  - reflexivity.
  - cbn [app scan_int]. pose proof (imp_b _ _ (digit19_fact d) H19) as G.
    apply andb_true_iff in G. destruct G as [Gd G0]. apply negb_true_iff in G0.
    rewrite G0, H19, (span_digits_app r l Hr Hl). reflexivity.
Qed.

Lemma scan_frac_complete f l : Jopt Jfrac f -> nofrac l = true -> scan_frac (f ++ l) = Some (f, l).
Proof.
  intros [->|(ds & -> & Hne & Hds)] Hl.
  - cbn [app]. destruct l as [|b l']; [reflexivity|]. cbn [scan_frac]. cbn [nofrac] in Hl.
    destruct (Byte.eqb b x2e).
    + destruct (j_digit b); cbn [negb orb] in Hl; discriminate.
    + reflexivity.
  - cbn [app scan_frac]. rewrite (span_digits_app ds l Hds (nofrac_nodig _ Hl)).
    destruct ds as [|d ds']; [exfalso; apply Hne; reflexivity|]. reflexivity.
Qed.

Lemma scan_sign_complete sg d t :
  (sg = [] \/ sg = [x2d] \/ sg = [x2b]) -> j_digit d = true -> scan_sign (sg ++ d :: t) = (sg, d :: t).
Proof.
  intros [->|[->| ->]] Hd.
  - cbn [app scan_sign]. destruct (digit_neq d Hd) as (_ & _ & _ & H2d & H2b). rewrite H2d, H2b. reflexivity.
  - reflexivity.
  - reflexivity.
Qed.

Lemma scan_exp_e c t : (c = x65 \/ c = x45) ->
  scan_exp (c :: t) =
  let '(sg, r1) := scan_sign t in
  match span_digits r1 with
  | ([], _) => None
  | (ds, rest) => Some (c :: sg ++ ds, rest)
  end.
Proof. intros [->| ->]; reflexivity. Qed.

Lemma scan_exp_complete e l : Jopt Jexp e -> num_follow_ok l = true -> scan_exp (e ++ l) = Some (e, l).
Proof.
  intros [->|(c & sg & ds & -> & Hc & Hsg & Hne & Hds)] Hl.
  - cbn [app]. destruct l as [|b l']; [reflexivity|]. destruct (follow_elim _ _ Hl) as (_ & _ & H65 & H45).
    cbn [scan_exp]. rewrite H65, H45. reflexivity.
  - destruct ds as [|d ds']; [exfalso; apply Hne; reflexivity|].
    assert (Hsp : span_digits ((d :: ds') ++ l) = (d :: ds', l)) by (apply span_digits_app; [assumption|apply follow_nodig; assumption]).
    cbn [forallb] in Hds. apply andb_true_iff in Hds. destruct Hds as [Hd _].
    cbn [app] in Hsp. cbn [app]. rewrite <- app_assoc. rewrite (scan_exp_e c _ Hc). cbn [app].
    rewrite (scan_sign_complete sg d _ Hsg Hd). cbv beta iota. rewrite Hsp. reflexivity.
Qed.

Lemma Jnumber_head n : Jnumber n -> exists a n', n = a :: n' /\ (Byte.eqb a x2d || j_digit a) = true.
Proof.
  intros (m & i & f & e & -> & Hm & Hi & _).
  destruct Hm as [->| ->].
  - destruct (Jint_head i Hi) as (d & i' & -> & Hd). exists d, (i' ++ f ++ e). split; [reflexivity|].
    rewrite Hd. apply orb_true_r.
  - exists x2d, (i ++ f ++ e). split; reflexivity.
Qed.

Lemma after_int_nodig f e rest : Jopt Jfrac f -> Jopt Jexp e -> num_follow_ok rest = true -> nodig (f ++ e ++ rest) = true.
Proof.
  intros [->|(ds & -> & _)] He Hr.
  - cbn [app]. destruct He as [->|(c & sg & ds & -> & [->| ->] & _)].
    + cbn [app]. apply follow_nodig. assumption.
    + reflexivity.
    + reflexivity.
  - reflexivity.
Qed.

Lemma after_frac_nofrac e rest : Jopt Jexp e -> num_follow_ok rest = true -> nofrac (e ++ rest) = true.
Proof.
  intros [->|(c & sg & ds & -> & [->| ->] & _)] Hr.
  - cbn [app]. apply follow_nofrac. assumption.
  - reflexivity.
  - reflexivity.
Qed.

Lemma scan_number_complete n rest : Jnumber n -> num_follow_ok rest = true -> scan_number (n ++ rest) = Some (n, rest).
Proof.
  intros (m & i & f & e & -> & Hm & Hi & Hf & He) Hr.
  rewrite <- !app_assoc. unfold scan_number.
  assert (Hh : exists d l', i ++ f ++ e ++ rest = d :: l' /\ j_digit d = true).
  { destruct (Jint_head i Hi) as (d & i' & -> & Hd). exists d, (i' ++ f ++ e ++ rest). split; [reflexivity|assumption]. }
  rewrite (scan_minus_complete m _ Hm Hh). cbv beta iota.
  rewrite (scan_int_complete i _ Hi (after_int_nodig f e rest Hf He Hr)).
  rewrite (scan_frac_complete f _ Hf (after_frac_nofrac e rest He Hr)).
  rewrite (scan_exp_complete e _ He Hr). reflexivity.
Qed.

(* ---------------------------------------------------------------- strings *)
Definition good (k : nat) (a : byte) : bool :=
  negb (Byte.eqb a x22) && negb (Byte.eqb a x5c) && Nat.eqb (utf8_len a) k.

Lemma good_elim k a : good k a = true -> Byte.eqb a x22 = false /\ Byte.eqb a x5c = false /\ utf8_len a = k.
Proof.
  unfold good. intros H. apply andb_true_iff in H. destruct H as [H H3]. apply andb_true_iff in H. destruct H as [H1 H2].
  apply negb_true_iff in H1. apply negb_true_iff in H2. apply Nat.eqb_eq in H3. auto.
Qed.

Lemma u1_fact a :
  negb (jrng a 0x00 0x7F && (jrng a 0x20 0x21 || jrng a 0x23 0x5B || jrng a 0x5D 0x7F)) || good 1 a = true.
Proof. revert a. apply sweep. vm_compute. reflexivity. Qed.
Lemma u2_fact a : negb (jrng a 0xC2 0xDF) || good 2 a = true.
Proof. revert a. apply sweep. vm_compute. reflexivity. Qed.
Lemma u3_fact a : negb (Byte.eqb a xe0 || jrng a 0xE1 0xEC || Byte.eqb a xed || jrng a 0xEE 0xEF) || good 3 a = true.
Proof. revert a. apply sweep. vm_compute. reflexivity. Qed.
Lemma u4_fact a : negb (Byte.eqb a xf0 || jrng a 0xF1 0xF3 || Byte.eqb a xf4) || good 4 a = true.
Proof. revert a. apply sweep. vm_compute. reflexivity. Qed.

Lemma unescaped_shape c : j_unescaped c = true ->
  exists a c', c = a :: c' /\ Byte.eqb a x22 = false /\ Byte.eqb a x5c = false /\ utf8_len a = length c.
Proof.
  unfold j_unescaped. intros H. apply andb_true_iff in H. destruct H as [Hu Hr].
  destruct c as [|a [|b [|c3 [|d [|x y]]]]]; cbn [j_utf8_char] in Hu; try discriminate.
  - exists a, []. split; [reflexivity|]. cbn [length]. apply good_elim. apply (imp_b _ _ (u1_fact a)).
    rewrite Hu, Hr. reflexivity.
  - exists a, [b]. split; [reflexivity|]. cbn [length]. apply good_elim. apply (imp_b _ _ (u2_fact a)).
    apply andb_true_iff in Hu. tauto.
  - exists a, [b; c3]. split; [reflexivity|]. cbn [length]. apply good_elim. apply (imp_b _ _ (u3_fact a)).
    revert Hu. destruct (Byte.eqb a xe0), (jrng a 0xE1 0xEC), (Byte.eqb a xed), (jrng a 0xEE 0xEF);
      cbn [andb orb]; intros Hu; try reflexivity; discriminate.
  - exists a, [b; c3; d]. split; [reflexivity|]. cbn [length]. apply good_elim. apply (imp_b _ _ (u4_fact a)).
    revert Hu. destruct (Byte.eqb a xf0), (jrng a 0xF1 0xF3), (Byte.eqb a xf4);
      cbn [andb orb]; intros Hu; try reflexivity; discriminate.
Qed.

Lemma firstn_length_app (c t : bytes) : firstn (length c) (c ++ t) = c.
Proof. induction c as [|a c IH]; cbn [length app firstn]; [reflexivity|]. rewrite IH. reflexivity. Qed.
Lemma skipn_length_app (c t : bytes) : skipn (length c) (c ++ t) = t.
Proof. induction c as [|a c IH]; cbn [length app skipn]; [reflexivity|]. exact IH. Qed.

Lemma scan_chars_unescaped_step f c t : j_unescaped c = true ->
  scan_chars (S f) (c ++ t) = match scan_chars f t with Some (s, rest) => Some (c ++ s, rest) | None => None end.
Proof.
  intros H. destruct (unescaped_shape c H) as (a & c' & Hc & H22 & H5c & Hl).
  assert (Hf : firstn (utf8_len a) (c ++ t) = c) by (rewrite Hl; apply firstn_length_app).
  assert (Hs : skipn (utf8_len a) (c ++ t) = t) by (rewrite Hl; apply skipn_length_app).
  subst c. cbn [app] in Hf, Hs. cbn [app scan_chars]. rewrite H22, H5c, Hf, Hs, H. reflexivity.
Qed.

Lemma esc_not_u e d : j_simple_escape e = Some d -> Byte.eqb e x75 = false.
Proof.
  intros H. destruct (Byte.eqb e x75) eqn:E; [|reflexivity].
  apply Byte.byte_dec_bl in E. subst e. vm_compute in H. discriminate.
Qed.

Lemma low_next_app r rest : j_low_escape_next (r ++ x22 :: rest) = j_low_escape_next r.
Proof.
  destruct r as [|a0 [|a1 [|a2 [|a3 [|a4 [|a5 r']]]]]]; cbn [app]; try reflexivity;
    destruct rest as [|b0 [|b1 [|b2 [|b3 [|b4 rest']]]]]; cbn [j_low_escape_next]; try reflexivity;
    unfold j_hex4; try change (j_hexv x22) with (@None N);
    try change (Byte.eqb x22 x5c) with false; try change (Byte.eqb x22 x75) with false;
    repeat match goal with |- context [Byte.eqb ?a ?b] => is_var a; destruct (Byte.eqb a b) end;
    repeat match goal with |- context [j_hexv ?a] => is_var a; destruct (j_hexv a) end;
    reflexivity.
Qed.

Lemma scan_chars_complete body s :
  Jchars body s -> forall fuel rest, length body < fuel -> scan_chars fuel (body ++ x22 :: rest) = Some (s, rest).
Proof.
  induction 1 as [|c r s Hc Hr IH|e d r s He Hr IH|h1 h2 h3 h4 x r s Hx Hs Hr IH
                  |h1 h2 h3 h4 g1 g2 g3 g4 hi lo r s Hh Hhi Hl Hlo Hr IH|h1 h2 h3 h4 x r s Hx Hs Hlone Hr IH];
    intros fuel rest Hlen; (destruct fuel as [|f]; [cbn [length] in Hlen; lia|]).
  - reflexivity.
  - rewrite <- app_assoc. rewrite (scan_chars_unescaped_step f c _ Hc).
    rewrite IH; [reflexivity|]. rewrite app_length in Hlen.
    destruct c as [|a c']; [cbn in Hc; discriminate|]. cbn [length] in Hlen. lia.
  - cbn [app scan_chars]. change (Byte.eqb x5c x22) with false. change (Byte.eqb x5c x5c) with true. cbv beta iota.
    rewrite (esc_not_u e d He), He. rewrite IH; [reflexivity|]. cbn [length] in Hlen. lia.
  - cbn [app scan_chars]. change (Byte.eqb x5c x22) with false. change (Byte.eqb x5c x5c) with true.
    change (Byte.eqb x75 x75) with true. cbv beta iota.
    rewrite Hx, Hs. cbn [negb]. rewrite IH; [reflexivity|]. cbn [length] in Hlen. lia.
  - assert (Hsur : j_is_surrogate hi = true) by (unfold j_is_surrogate; rewrite Hhi; reflexivity).
    assert (Hnext : j_low_escape_next (x5c :: x75 :: g1 :: g2 :: g3 :: g4 :: r ++ x22 :: rest) = true).
    { unfold j_low_escape_next. rewrite Hl, Hlo. reflexivity. }
    cbn [app scan_chars]. change (Byte.eqb x5c x22) with false. change (Byte.eqb x5c x5c) with true.
    change (Byte.eqb x75 x75) with true. cbv beta iota.
    rewrite Hh, Hsur. cbn [negb]. rewrite Hhi, Hnext. cbn [andb]. rewrite Hl.
    rewrite IH; [reflexivity|]. cbn [length] in Hlen. lia.
  - cbn [app scan_chars]. change (Byte.eqb x5c x22) with false. change (Byte.eqb x5c x5c) with true.
    change (Byte.eqb x75 x75) with true. cbv beta iota.
    rewrite Hx, Hs. cbn [negb]. rewrite low_next_app, Hlone.
    rewrite IH; [reflexivity|]. cbn [length] in Hlen. lia.
Qed.

Lemma scan_string_tail_complete body s rest : Jchars body s -> scan_string_tail (body ++ x22 :: rest) = Some (s, rest).
Proof.
  intros H. unfold scan_string_tail. apply scan_chars_complete; [assumption|]. rewrite app_length. cbn [length]. lia.
Qed.
