(* Proofs/Rfc8259RecP.v - the recogniser of Spec/Rfc8259Rec.v DECIDES the grammar of Spec/Rfc8259.v:

       json_parse b = Some v   <->   Jtext b v

   soundness (Proofs/Rfc8259RecSP.v) and completeness (Proofs/Rfc8259RecLeafCP.v, Rfc8259RecCP.v; the fuel
   2 * length b of json_parse is proved enough there) put together, with the corollaries the property uses: the
   grammar denotes at most one value for a text, json_text_b decides "is a JSON text", json_names_unique_b decides
   "is a JSON text no object of which repeats a decoded member name". *)
From AP.Model Require Import Prelude.
From AP.Spec Require Import Rfc8259 Rfc8259Rec.
From AP.Proofs Require Import Rfc8259RecSP Rfc8259RecLeafCP Rfc8259RecCP.

Theorem json_parse_iff b v : json_parse b = Some v <-> Jtext b v.
Proof. split; [apply json_parse_sound | apply json_parse_complete]. Qed.

(* the grammar is unambiguous as far as the denoted value goes *)
Theorem Jtext_functional b v v' : Jtext b v -> Jtext b v' -> v = v'.
Proof.
  intros H H'. apply json_parse_complete in H. apply json_parse_complete in H'. rewrite H in H'. inversion H'. reflexivity.
Qed.

Theorem json_text_b_iff b : json_text_b b = true <-> exists v, Jtext b v.
Proof.
  unfold json_text_b. split.
  - destruct (json_parse b) as [v|] eqn:E; [|discriminate]. intros _. exists v. apply json_parse_sound. exact E.
  - intros [v H]. apply json_parse_complete in H. rewrite H. reflexivity.
Qed.

Theorem json_text_b_false_iff b : json_text_b b = false <-> forall v, ~ Jtext b v.
Proof.
  split.
  - intros E v H. assert (json_text_b b = true) by (apply json_text_b_iff; exists v; exact H). congruence.
  - intros H. destruct (json_text_b b) eqn:E; [|reflexivity]. apply json_text_b_iff in E. destruct E as [v Hv].
    destruct (H v Hv).
Qed.

(* the duplicate-member test of the recogniser is the predicate of the specification on THE value of the text *)
Theorem json_names_unique_b_eq b v : Jtext b v -> json_names_unique_b b = jv_names_unique v.
Proof. intros H. unfold json_names_unique_b. apply json_parse_complete in H. rewrite H. reflexivity. Qed.

Theorem json_names_unique_b_iff b : json_names_unique_b b = true <-> exists v, Jtext b v /\ jv_names_unique v = true.
Proof.
  split.
  - unfold json_names_unique_b. destruct (json_parse b) as [v|] eqn:E; [|discriminate]. intros H. exists v.
    split; [apply json_parse_sound; exact E | exact H].
  - intros (v & H & U). rewrite (json_names_unique_b_eq _ _ H). exact U.
Qed.

Theorem json_names_unique_b_text b : json_names_unique_b b = true -> json_text_b b = true.
Proof. intros H. apply json_names_unique_b_iff in H. destruct H as (v & H & _). apply json_text_b_iff. exists v. exact H. Qed.

(* a value alone is a text (no white space around it) *)
Lemma Jvalue_is_text b v : Jvalue b v -> Jtext b v.
Proof. intros H. exists [], b, []. rewrite app_nil_r. repeat split; auto. Qed.
