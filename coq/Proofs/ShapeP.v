(* The decoder model, property by property (Model/Shape.v): generic over read tables satisfying reads_ok. *)
From AP.Model Require Import Prelude Bytes Vocab Pred Url IriEq Nlv Text Equal Coll Dispatch Layout JsonTables JsonLeaf JsonCheck JsonDec Shape.
From AP.Proofs Require Import NlvP CopyP.
Open Scope Z_scope.

Section Flat.
  Variable jr_tables : list (bytes * list rstmt).
  Variable rec : fjv -> option item.

  (* the statement loop of flatten_r, named *)
  Definition flat_go (d : nat) : list rstmt -> option (list rflat) :=
    fix go (l : list rstmt) : option (list rflat) :=
      match l with
      | [] => Some []
      | RProp f t g c gd _ :: r => match go r with Some rs => Some (mkrf f t g c gd :: rs) | None => None end
      | RDelegate _ fn _ :: r =>
          match flatten_r jr_tables d fn, go r with
          | Some a, Some b => Some (a ++ b)
          | _, _ => None
          end
      | RUnrecognised _ _ :: _ => None
      end.
  Lemma flatten_r_S d name : flatten_r jr_tables (S d) name =
    match jr_table jr_tables name with None => None | Some stmts => flat_go d stmts end.
  Proof. reflexivity. Qed.

  Notation apply := (apply_reads jr_tables rec).

  Lemma apply_reads_app val a b acc :
    apply val (a ++ b) acc = match apply val a acc with Some acc' => apply val b acc' | None => None end.
  Proof.
    revert acc. induction a as [|r a IH]; intros acc; [reflexivity|].
    simpl. destruct (entry_value jr_tables rec val r) as [[x|]|]; try apply IH. reflexivity.
  Qed.

  Lemma table_go_flat d val :
    (forall name rs, flatten_r jr_tables d name = Some rs -> forall acc, run_table jr_tables rec d name val acc = apply val rs acc) ->
    forall stmts rs, flat_go d stmts = Some rs ->
    forall acc, table_go jr_tables rec (run_table jr_tables rec d) val stmts acc = apply val rs acc.
  Proof.
    intros IHd stmts. induction stmts as [|s r IH]; intros rs Hf acc.
    - injection Hf as <-. reflexivity.
    - destruct s as [fd tm g cv gd pos|on fn pos|src pos]; cbn [flat_go] in Hf; cbn [table_go].
      + destruct (flat_go d r) as [rs'|] eqn:E; [|discriminate]. injection Hf as <-.
        cbn [apply_reads]. unfold entry_value. cbn [rf_getter rf_term rf_conv rf_guard rf_fid].
        destruct (get_value jr_tables rec 3 val g tm cv) as [[x|]|]; [|apply IH; reflexivity|reflexivity].
        cbv zeta. destruct (fval_is_zero (link_guard gd x)); apply IH; reflexivity.
      + destruct (flatten_r jr_tables d fn) as [a|] eqn:Ea; [|discriminate].
        destruct (flat_go d r) as [b|] eqn:Eb; [|discriminate]. injection Hf as <-.
        rewrite apply_reads_app, (IHd fn a Ea).
        destruct (apply val a acc) as [acc'|]; [apply IH; reflexivity|reflexivity].
      + discriminate.
  Qed.

  Lemma run_table_flat : forall d name rs, flatten_r jr_tables d name = Some rs ->
    forall val acc, run_table jr_tables rec d name val acc = apply val rs acc.
  Proof.
    induction d as [|d IH]; intros name rs Hf val acc; [discriminate|].
    rewrite flatten_r_S in Hf. cbn [run_table].
    destruct (jr_table jr_tables name) as [stmts|]; [|discriminate].
    apply table_go_flat; [intros n' rs' H' acc'; apply IH; exact H'|exact Hf].
  Qed.

  (* ---- what the fold leaves in each field ---- *)
  Lemma entry_value_nonzero val r x : entry_value jr_tables rec val r = Some (Some x) -> fval_is_zero x = false.
  Proof.
    unfold entry_value. destruct (get_value _ _ _ _ _ _ _) as [[y|]|]; try discriminate.
    cbv zeta. destruct (fval_is_zero (link_guard (rf_guard r) y)) eqn:E; [discriminate|].
    intros H; injection H as <-. exact E.
  Qed.

  Lemma getf_setf_same f v fs : fval_is_zero v = false -> getf f (setf f v fs) = Some v.
  Proof. intros H. unfold setf. rewrite H. apply getf_replf_same. Qed.
  Lemma getf_setf_other f g v fs : f <> g -> getf g (setf f v fs) = getf g fs.
  Proof. intros H. unfold setf. destruct (fval_is_zero v); [apply getf_delf_other|apply getf_replf_other]; exact H. Qed.

  Lemma fids_nodup_spec l : fids_nodup l = true -> NoDup l.
  Proof.
    induction l as [|f r IH]; intros H; constructor; simpl in H; apply andb_true_iff in H; destruct H as [H1 H2].
    - intros Hin. apply negb_true_iff in H1. assert (existsb (fid_beq f) r = true); [|congruence].
      apply existsb_exists. exists f. split; [exact Hin|apply fid_beq_refl].
    - apply IH, H2.
  Qed.

  Lemma apply_reads_spec val : forall rs acc fs, NoDup (map rf_fid rs) -> apply val rs acc = Some fs ->
    (forall r, In r rs -> exists ov, entry_value jr_tables rec val r = Some ov /\
                                     getf (rf_fid r) fs = match ov with Some x => Some x | None => getf (rf_fid r) acc end) /\
    (forall f, ~ In f (map rf_fid rs) -> getf f fs = getf f acc).
  Proof.
    induction rs as [|r rest IH]; intros acc fs Hn H.
    - injection H as <-. split; [intros r []|reflexivity].
    - cbn [apply_reads] in H. simpl in Hn. inversion Hn as [|? ? Hnot Hn']; subst.
      destruct (entry_value jr_tables rec val r) as [[x|]|] eqn:Ev; [| |discriminate].
      + destruct (IH _ _ Hn' H) as [I1 I2]. split.
        * intros r' [<-|Hin].
          -- exists (Some x). split; [exact Ev|]. rewrite (I2 _ Hnot).
             apply getf_setf_same. apply (entry_value_nonzero _ _ _ Ev).
          -- destruct (I1 r' Hin) as [ov [E1 E2]]. exists ov. split; [exact E1|]. rewrite E2.
             destruct ov; [reflexivity|]. apply getf_setf_other. intros E. apply Hnot. rewrite E. apply in_map, Hin.
        * intros f Hf. simpl in Hf. rewrite (I2 f) by tauto. apply getf_setf_other. tauto.
      + destruct (IH _ _ Hn' H) as [I1 I2]. split.
        * intros r' [<-|Hin].
          -- exists None. split; [exact Ev|]. apply (I2 _ Hnot).
          -- apply (I1 r' Hin).
        * intros f Hf. simpl in Hf. apply I2. tauto.
  Qed.
End Flat.

(* ---- struct order ---- *)
Lemma getf_canon_fields layout_of k f fs :
  getf f (canon_fields layout_of k fs) =
  if existsb (fun d => fid_beq (fd_fid d) f) (layout_of k)
  then match getf f fs with Some v => if fval_is_zero v then None else Some v | None => None end
  else None.
Proof.
  unfold canon_fields. induction (layout_of k) as [|d l IH]; [reflexivity|].
  cbn [flat_map existsb]. destruct (fid_beq (fd_fid d) f) eqn:E.
  - apply fid_beq_eq in E. subst f. simpl orb. cbv iota.
    destruct (getf (fd_fid d) fs) as [v|] eqn:G.
    + destruct (fval_is_zero v) eqn:Z.
      * simpl app. rewrite IH. destruct (existsb _ l); reflexivity.
      * simpl. rewrite fid_beq_refl. reflexivity.
    + simpl app. rewrite IH. destruct (existsb _ l); reflexivity.
  - simpl orb. assert (Hne : fid_beq f (fd_fid d) = false).
    { destruct (fid_beq f (fd_fid d)) eqn:E2; [|reflexivity]. apply fid_beq_eq in E2. subst f. rewrite fid_beq_refl in E. discriminate. }
    destruct (getf (fd_fid d) fs) as [v|]; [destruct (fval_is_zero v)|]; simpl; rewrite ?Hne; exact IH.
Qed.

(* ------------------------------------------------------------------ the fields of a decoded object *)
Section Fields.
  Variable jr_tables : list (bytes * list rstmt).
  Variable layout_of : kind -> list fdecl.
  Variable registry load_switch : bytes -> option kind.
  Variable activity_types actor_types link_types : list bytes.
  Notation load := (load_item jr_tables layout_of registry load_switch activity_types actor_types link_types).

  (* a document object that decodes to a struct value: the type member selects the kind, and every field of
     the value is what the one read entry of that field reads under its term; fields without an entry are unset *)
  Theorem fields_read n kvs p k fs : load (S n) (FObj kvs) = Some (IObj p k fs) ->
    reads_ok jr_tables layout_of k = true ->
    p = true /\ load_switch (jstr (jget (FObj kvs) (B "type"))) = Some k /\
    exists rs, reads_of jr_tables k = Some rs /\
      (forall r, In r rs -> exists ov, entry_value jr_tables (load n) (FObj kvs) r = Some ov /\ getf (rf_fid r) fs = ov) /\
      (forall f, ~ In f (map rf_fid rs) -> getf f fs = None).
  Proof.
    cbn [load_item]. unfold load_item_level. cbn [as_string_iri].
    set (typ := jstr (jget (FObj kvs) (B "type"))).
    assert (Ea : as_string_iri typ (FObj kvs) = Some None) by (destruct typ; reflexivity). rewrite Ea.
    destruct (registry typ) as [created|]; [|discriminate].
    destruct (load_switch typ) as [k'|]; [|discriminate].
    destruct (kind_beq k' created); [|discriminate].
    destruct (run_table jr_tables (load n) 6 (load_table k') (FObj kvs) []) as [fs0|] eqn:Er; [|discriminate].
    cbv zeta. destruct (not_empty _ _ _ _); [|discriminate].
    intros H. injection H as <- <- <-. intros Hok. split; [reflexivity|]. split; [reflexivity|].
    unfold reads_ok in Hok. destruct (reads_of jr_tables k') as [rs|] eqn:Ers; [|discriminate].
    apply andb_true_iff in Hok. destruct Hok as [Hnd Hlay]. apply fids_nodup_spec in Hnd.
    exists rs. split; [reflexivity|].
    unfold reads_of in Ers. rewrite (run_table_flat jr_tables (load n) 6 _ rs Ers) in Er.
    destruct (apply_reads_spec jr_tables (load n) (FObj kvs) rs [] fs0 Hnd Er) as [I1 I2].
    split.
    - intros r Hin. destruct (I1 r Hin) as [ov [E1 E2]]. exists ov. split; [exact E1|].
      rewrite getf_canon_fields. rewrite forallb_forall in Hlay. rewrite (Hlay r Hin), E2.
      destruct ov as [x|]; [|reflexivity]. rewrite (entry_value_nonzero _ _ _ _ _ E1). reflexivity.
    - intros f Hf. rewrite getf_canon_fields, (I2 f Hf). simpl. destruct (existsb _ _); reflexivity.
  Qed.
End Fields.

(* ------------------------------------------------------------------ the shapes of a value in item position *)
Section Shapes.
  Variable jr_tables : list (bytes * list rstmt).
  Variable rec : fjv -> option item.

  Lemma items_go_elems l its : Forall2 (elem_loads rec) l its ->
    forall acc, items_go rec l acc = Some (ic_append acc its).
  Proof.
    induction 1 as [|x i l its Hx Hl IH]; intros acc; [reflexivity|].
    cbn [items_go]. destruct Hx as [Hr [Hn _]]. rewrite Hr.
    change (ic_append acc (i :: its)) with (ic_append (ic_append acc [i]) its).
    destruct i; try apply IH. contradiction.
  Qed.

  (* JSONGetItem: the member is one element / an array of elements *)
  Lemma jget_item_one val tm x i : jget val tm = Some x -> elem_loads rec x i -> jget_item rec val tm = Some i.
  Proof.
    intros Hj [Hr [Hn Hs]]. unfold jget_item. rewrite Hj. destruct x; try contradiction.
    - exact Hr.
    - destruct Hs as [Hi [_ ->]]. rewrite Hi. reflexivity.
  Qed.
  Lemma jget_item_list val tm l its : jget val tm = Some (FArr l) -> Forall2 (elem_loads rec) l its ->
    jget_item rec val tm = Some (IItems false (Some (list_value its))).
  Proof.
    intros Hj Hl. unfold jget_item, items_fn. rewrite Hj, (items_go_elems l its Hl). reflexivity.
  Qed.

  (* JSONGetURIItem: the same two shapes *)
  Lemma jget_uri_item_one val tm x i : jget val tm = Some x -> elem_loads rec x i -> jget_uri_item rec val tm = Some i.
  Proof.
    intros Hj [Hr [Hn Hs]]. unfold jget_uri_item. rewrite Hj. destruct x; try contradiction.
    - exact Hr.
    - destruct Hs as [_ [_ ->]]. reflexivity.
  Qed.
  Lemma jget_uri_item_list val tm l its : jget val tm = Some (FArr l) -> Forall2 (elem_loads rec) l its ->
    jget_uri_item rec val tm = Some (IItems false (Some (list_value its))).
  Proof.
    intros Hj Hl. unfold jget_uri_item, items_fn. rewrite Hj, (items_go_elems l its Hl). reflexivity.
  Qed.

  (* JSONGetItems: one element, an array of one, an array of several *)
  Lemma jget_items_one val tm x i : jget val tm = Some x -> elem_loads rec x i -> jget_items rec val tm = Some (Some [i]).
  Proof.
    intros Hj [Hr [Hn Hs]]. unfold jget_items. rewrite Hj. destruct x; try contradiction.
    - rewrite Hr. destruct i; try reflexivity. contradiction.
    - destruct Hs as [_ [Hne ->]]. destruct (fj_unescape raw); [contradiction|reflexivity].
  Qed.
  Lemma jget_items_list val tm l its : jget val tm = Some (FArr l) -> Forall2 (elem_loads rec) l its -> its <> [] ->
    jget_items rec val tm = Some (Some (list_value its)).
  Proof.
    intros Hj Hl Hne. unfold jget_items, items_fn. rewrite Hj, (items_go_elems l its Hl).
    fold (list_value its). destruct (list_value its) eqn:E; [|reflexivity].
    exfalso. destruct its as [|i its]; [contradiction|].
    unfold list_value, ic_append, g_append in E. simpl in E.
    assert (Hlen : forall (eqf : item -> item -> bool) its acc, (length acc <= length (fold_left (g_append1 item eqf) its acc))%nat).
    { clear. intros eqf. induction its as [|j its IH]; intros acc; simpl; [lia|].
      eapply Nat.le_trans; [|apply IH]. unfold g_append1. destruct (g_contains _ _ _ _); [lia|rewrite app_length; simpl; lia]. }
    match type of E with fold_left (g_append1 item ?eqf) _ _ = _ => pose proof (Hlen eqf its (g_append1 item eqf [] i)) as Hl' end.
    rewrite E in Hl'. simpl in Hl'. lia.
  Qed.

  Lemma list_value_one i : list_value [i] = [i].
  Proof. reflexivity. Qed.

  (* ---- lifted to the read entries of the tables ---- *)
  Lemma entry_value_item val r : is_item_getter r = true ->
    entry_value jr_tables rec val r =
    match jget_item rec val (rf_term r) with Some INil => Some None | Some i => Some (Some (FItem i)) | None => None end.
  Proof.
    unfold is_item_getter. intros H. apply andb_true_iff in H. destruct H as [Hg Hd].
    apply bytes_eqb_eq in Hg, Hd. unfold entry_value. rewrite Hg, Hd.
    change (get_value jr_tables rec 3 val (B "JSONGetItem") (rf_term r) (rf_conv r))
      with (match jget_item rec val (rf_term r) with Some INil => Some None | Some i => Some (Some (FItem i)) | None => None end).
    destruct (jget_item rec val (rf_term r)) as [[| | | | |]|]; reflexivity.
  Qed.

  Lemma entry_value_uri val r : is_uri_getter r = true ->
    entry_value jr_tables rec val r =
    match jget_uri_item rec val (rf_term r) with Some INil => Some None | Some i => Some (Some (FItem i)) | None => None end.
  Proof.
    unfold is_uri_getter. intros H. apply andb_true_iff in H. destruct H as [Hg Hd].
    apply bytes_eqb_eq in Hg, Hd. unfold entry_value. rewrite Hg, Hd.
    change (get_value jr_tables rec 3 val (B "JSONGetURIItem") (rf_term r) (rf_conv r))
      with (match jget_uri_item rec val (rf_term r) with Some INil => Some None | Some i => Some (Some (FItem i)) | None => None end).
    destruct (jget_uri_item rec val (rf_term r)) as [[| | | | |]|]; reflexivity.
  Qed.

  Lemma entry_value_items val r : is_items_getter r = true ->
    entry_value jr_tables rec val r =
    match jget_items rec val (rf_term r) with Some None => Some None | Some l => Some (Some (FItems l)) | None => None end.
  Proof.
    unfold is_items_getter. intros H. apply andb_true_iff in H. destruct H as [Hg Hd].
    apply bytes_eqb_eq in Hg, Hd. unfold entry_value. rewrite Hg, Hd.
    change (get_value jr_tables rec 3 val (B "JSONGetItems") (rf_term r) (rf_conv r))
      with (match jget_items rec val (rf_term r) with Some None => Some None | Some l => Some (Some (FItems l)) | None => None end).
    destruct (jget_items rec val (rf_term r)) as [[l|]|]; reflexivity.
  Qed.
End Shapes.

(* ------------------------------------------------------------------ shape independence, once for every table *)
Section Independence.
  Variable jr_tables : list (bytes * list rstmt).
  Variable layout_of : kind -> list fdecl.
  Variable registry load_switch : bytes -> option kind.
  Variable activity_types actor_types link_types : list bytes.
  Notation load := (load_item jr_tables layout_of registry load_switch activity_types actor_types link_types).

  (* an IRI string is an element at every level *)
  Lemma load_iri_string n raw : as_iri (FStr raw) = Some (Some (fj_unescape raw)) ->
    load (S n) (FStr raw) = Some (IIri false (fj_unescape raw)).
  Proof.
    intros H. cbn [load_item]. unfold load_item_level.
    change (jstr (jget (FStr raw) (B "type"))) with (@nil byte). cbn [as_string_iri]. rewrite H. reflexivity.
  Qed.

  Lemma elem_loads_string n raw : as_iri (FStr raw) = Some (Some (fj_unescape raw)) -> fj_unescape raw <> [] ->
    elem_loads (load (S n)) (FStr raw) (IIri false (fj_unescape raw)).
  Proof.
    intros H Hne. split; [apply load_iri_string; exact H|]. split; [discriminate|]. repeat split; assumption.
  Qed.

  Theorem shape_independence n kvs p k fs :
    load (S n) (FObj kvs) = Some (IObj p k fs) -> reads_ok jr_tables layout_of k = true ->
    forall rs r, reads_of jr_tables k = Some rs -> In r rs ->
    let m := jget (FObj kvs) (rf_term r) in
    (* a property holding one item *)
    (is_item_getter r = true \/ is_uri_getter r = true ->
       (forall x i, m = Some x -> elem_loads (load n) x i -> getf (rf_fid r) fs = Some (FItem i)) /\
       (forall l its, m = Some (FArr l) -> Forall2 (elem_loads (load n)) l its ->
                      getf (rf_fid r) fs = Some (FItem (IItems false (Some (list_value its))))) /\
       (m = None -> getf (rf_fid r) fs = None)) /\
    (* a property holding a list *)
    (is_items_getter r = true ->
       (forall x i, m = Some x -> elem_loads (load n) x i -> getf (rf_fid r) fs = Some (FItems (Some [i]))) /\
       (forall l its, m = Some (FArr l) -> Forall2 (elem_loads (load n)) l its -> its <> [] ->
                      getf (rf_fid r) fs = Some (FItems (Some (list_value its)))) /\
       (m = None -> getf (rf_fid r) fs = None)).
  Proof.
    intros Hl Hok rs r Hrs Hin m.
    destruct (fields_read _ _ _ _ _ _ _ n kvs p k fs Hl Hok) as [_ [_ [rs' [Hrs' [Hall _]]]]].
    rewrite Hrs in Hrs'. injection Hrs' as <-.
    destruct (Hall r Hin) as [ov [Ev Eg]]. subst m. split; intros Hg.
    - destruct Hg as [Hg|Hg].
      { rewrite (entry_value_item jr_tables (load n) (FObj kvs) r Hg) in Ev. repeat split.
        + intros x i Hm He. rewrite (jget_item_one (load n) _ _ x i Hm He) in Ev.
          destruct He as [_ [Hn _]]. destruct i; try contradiction; injection Ev as <-; exact Eg.
        + intros l its Hm He. rewrite (jget_item_list (load n) _ _ l its Hm He) in Ev. injection Ev as <-. exact Eg.
        + intros Hm. unfold jget_item in Ev. rewrite Hm in Ev. injection Ev as <-. exact Eg. }
      { rewrite (entry_value_uri jr_tables (load n) (FObj kvs) r Hg) in Ev. repeat split.
        + intros x i Hm He. rewrite (jget_uri_item_one (load n) _ _ x i Hm He) in Ev.
          destruct He as [_ [Hn _]]. destruct i; try contradiction; injection Ev as <-; exact Eg.
        + intros l its Hm He. rewrite (jget_uri_item_list (load n) _ _ l its Hm He) in Ev. injection Ev as <-. exact Eg.
        + intros Hm. unfold jget_uri_item in Ev. rewrite Hm in Ev. injection Ev as <-. exact Eg. }
    - rewrite (entry_value_items jr_tables (load n) (FObj kvs) r Hg) in Ev. repeat split.
      + intros x i Hm He. rewrite (jget_items_one (load n) _ _ x i Hm He) in Ev. injection Ev as <-. exact Eg.
      + intros l its Hm He Hne. rewrite (jget_items_list (load n) _ _ l its Hm He Hne) in Ev. injection Ev as <-. exact Eg.
      + intros Hm. unfold jget_items in Ev. rewrite Hm in Ev. injection Ev as <-. exact Eg.
  Qed.

  (* "a value of the type the document names": the kind is the one the type member selects, and a read entry
     `type` with a string getter stores that name *)
  Lemma entry_value_string rec val r :
    existsb (bytes_eqb (rf_getter r)) string_getters = true -> rf_guard r = [] -> cut_byte x2e (rf_term r) = (rf_term r, None) ->
    entry_value jr_tables rec val r = Some (match jstr (jget val (rf_term r)) with [] => None | s => Some (Vocab.FStr s) end).
  Proof.
    intros Hg Hd Hc. unfold entry_value. cbn [get_value]. rewrite Hg. unfold sub_get. rewrite Hc, Hd.
    destruct (jstr (jget val (rf_term r))) as [|c s]; reflexivity.
  Qed.

  Theorem type_read n kvs p k fs r rs :
    load (S n) (FObj kvs) = Some (IObj p k fs) -> reads_ok jr_tables layout_of k = true ->
    reads_of jr_tables k = Some rs -> In r rs ->
    rf_fid r = F_Type -> rf_term r = B "type" -> existsb (bytes_eqb (rf_getter r)) string_getters = true -> rf_guard r = [] ->
    load_switch (get_str F_Type fs) = Some k.
  Proof.
    intros Hl Hok Hrs Hin Hf Ht Hg Hd.
    destruct (fields_read _ _ _ _ _ _ _ n kvs p k fs Hl Hok) as [_ [Hk [rs' [Hrs' [Hall _]]]]].
    rewrite Hrs in Hrs'. injection Hrs' as <-. destruct (Hall r Hin) as [ov [Ev Eg]].
    rewrite (entry_value_string (load n) (FObj kvs) r Hg Hd) in Ev by (rewrite Ht; reflexivity).
    rewrite Ht in Ev. rewrite Hf in Eg.
    remember (jstr (jget (FObj kvs) (B "type"))) as typ eqn:Et. clear Et.
    injection Ev as <-. unfold get_str. rewrite Eg. destruct typ; exact Hk.
  Qed.
End Independence.
