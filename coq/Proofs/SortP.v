(* The sorted list of (key, value) query pairs is a canonical form of the multiset of pairs:
   Permutation l l' <-> sort_pairs l = sort_pairs l'.  Model: Model/IriNf.v. *)
From AP.Model Require Import Prelude Bytes Url IriEq IriNf.
From AP.Proofs Require Import NlvP.
From Coq Require Import Sorting.Permutation Sorting.Sorted.

Lemma byteN_inj a b : byteN a = byteN b -> a = b.
Proof.
  unfold byteN. intros H. assert (Byte.of_N (Byte.to_N a) = Byte.of_N (Byte.to_N b)) as E by (rewrite H; reflexivity).
  rewrite !Byte.of_to_N in E. congruence.
Qed.

Lemma bytes_leb_refl a : bytes_leb a a = true.
Proof. induction a as [|x a IH]; simpl; [reflexivity|]. rewrite N.ltb_irrefl, N.eqb_refl. exact IH. Qed.

Lemma bytes_leb_total a : forall b, bytes_leb a b = true \/ bytes_leb b a = true.
Proof.
  induction a as [|x a IH]; intros [|y b]; simpl; auto.
  destruct (N.ltb_spec (byteN x) (byteN y)) as [H|H]; [auto|].
  destruct (N.ltb_spec (byteN y) (byteN x)) as [H'|H']; [auto|].
  assert (byteN x = byteN y) as E by lia. rewrite E, N.eqb_refl. apply IH.
Qed.

Lemma bytes_leb_antisym a : forall b, bytes_leb a b = true -> bytes_leb b a = true -> a = b.
Proof.
  induction a as [|x a IH]; intros [|y b]; simpl; try discriminate; auto.
  destruct (N.ltb_spec (byteN x) (byteN y)) as [H|H]; destruct (N.ltb_spec (byteN y) (byteN x)) as [H'|H']; try lia.
  - destruct (N.eqb_spec (byteN y) (byteN x)); [lia|discriminate].
  - destruct (N.eqb_spec (byteN x) (byteN y)); [lia|discriminate].
  - destruct (N.eqb_spec (byteN x) (byteN y)) as [E|E]; [|discriminate].
    rewrite E, N.eqb_refl. intros H1 H2. apply byteN_inj in E. subst. f_equal. apply IH; assumption.
Qed.

Lemma bytes_leb_trans a : forall b c, bytes_leb a b = true -> bytes_leb b c = true -> bytes_leb a c = true.
Proof.
  induction a as [|x a IH]; intros [|y b] [|z c]; simpl; try discriminate; auto.
  destruct (N.ltb_spec (byteN x) (byteN y)) as [H|H];
    destruct (N.ltb_spec (byteN y) (byteN z)) as [H'|H'];
    destruct (N.ltb_spec (byteN x) (byteN z)) as [H''|H'']; auto; try lia.
  - destruct (N.eqb_spec (byteN y) (byteN z)); [lia|discriminate].
  - destruct (N.eqb_spec (byteN x) (byteN y)); [lia|discriminate].
  - destruct (N.eqb_spec (byteN x) (byteN y)) as [E|E]; [|discriminate].
    destruct (N.eqb_spec (byteN y) (byteN z)) as [E'|E']; [|discriminate].
    assert (byteN x = byteN z) as -> by lia. rewrite N.eqb_refl. apply IH.
Qed.

Lemma pair_leb_refl p : pair_leb p p = true.
Proof. unfold pair_leb. rewrite bytes_eqb_refl. apply bytes_leb_refl. Qed.

Lemma pair_leb_total p q : pair_leb p q = true \/ pair_leb q p = true.
Proof.
  unfold pair_leb. destruct (bytes_eqb (fst p) (fst q)) eqn:E.
  - apply bytes_eqb_eq in E. rewrite E, bytes_eqb_refl. apply bytes_leb_total.
  - assert (bytes_eqb (fst q) (fst p) = false) as ->.
    { apply bytes_eqb_neq. apply bytes_eqb_neq in E. congruence. }
    apply bytes_leb_total.
Qed.

Lemma pair_leb_antisym p q : pair_leb p q = true -> pair_leb q p = true -> p = q.
Proof.
  unfold pair_leb. destruct p as [k v], q as [k' v']; simpl.
  destruct (bytes_eqb k k') eqn:E.
  - apply bytes_eqb_eq in E. subst. rewrite bytes_eqb_refl. intros H1 H2. f_equal. apply bytes_leb_antisym; assumption.
  - assert (bytes_eqb k' k = false) as ->.
    { apply bytes_eqb_neq. apply bytes_eqb_neq in E. congruence. }
    intros H1 H2. apply bytes_eqb_neq in E. exfalso. apply E. apply bytes_leb_antisym; assumption.
Qed.

Lemma pair_leb_trans p q r : pair_leb p q = true -> pair_leb q r = true -> pair_leb p r = true.
Proof.
  unfold pair_leb. destruct p as [k v], q as [k' v'], r as [k'' v'']; simpl.
  destruct (bytes_eqb k k') eqn:E1.
  - apply bytes_eqb_eq in E1. subst k'. destruct (bytes_eqb k k''); [apply bytes_leb_trans|auto].
  - destruct (bytes_eqb k' k'') eqn:E2.
    + apply bytes_eqb_eq in E2. subst k''. rewrite E1. auto.
    + intros H1 H2. destruct (bytes_eqb k k'') eqn:E3.
      * apply bytes_eqb_eq in E3. subst k''. apply bytes_eqb_neq in E1. exfalso. apply E1.
        apply bytes_leb_antisym; assumption.
      * eapply bytes_leb_trans; eauto.
Qed.

Definition ple (p q : bytes * bytes) : Prop := pair_leb p q = true.

Lemma insert_pair_perm p l : Permutation (insert_pair p l) (p :: l).
Proof.
  induction l as [|q r IH]; simpl; [apply Permutation_refl|].
  destruct (pair_leb p q); [apply Permutation_refl|].
  eapply Permutation_trans; [apply perm_skip; exact IH|apply perm_swap].
Qed.

Lemma sort_pairs_perm l : Permutation (sort_pairs l) l.
Proof.
  induction l as [|p l IH]; simpl; [constructor|].
  eapply Permutation_trans; [apply insert_pair_perm|apply perm_skip; exact IH].
Qed.

Lemma insert_pair_sorted p l : StronglySorted ple l -> StronglySorted ple (insert_pair p l).
Proof.
  induction l as [|q r IH]; simpl; intros HS.
  - constructor; constructor.
  - inversion HS as [|? ? HS' HF]; subst. destruct (pair_leb p q) eqn:E.
    + constructor; [exact HS|]. constructor; [exact E|].
      eapply Forall_impl; [|exact HF]. intros x Hx. eapply pair_leb_trans; eauto.
    + constructor; [apply IH; exact HS'|].
      assert (ple q p) as Hqp by (destruct (pair_leb_total p q) as [H|H]; [congruence|exact H]).
      eapply Permutation_Forall; [apply Permutation_sym; apply insert_pair_perm|].
      constructor; assumption.
Qed.

Lemma sort_pairs_sorted l : StronglySorted ple (sort_pairs l).
Proof. induction l as [|p l IH]; simpl; [constructor|apply insert_pair_sorted; exact IH]. Qed.

Lemma sorted_perm_eq l : forall l', StronglySorted ple l -> StronglySorted ple l' -> Permutation l l' -> l = l'.
Proof.
  induction l as [|x r IH]; intros l' HS HS' P.
  - apply Permutation_nil in P. congruence.
  - destruct l' as [|y r']; [apply Permutation_sym, Permutation_nil in P; discriminate|].
    inversion HS as [|? ? HSr HF]; subst. inversion HS' as [|? ? HSr' HF']; subst.
    assert (x = y) as ->.
    { assert (In x (y :: r')) as Hx by (eapply Permutation_in; [exact P|left; reflexivity]).
      assert (In y (x :: r)) as Hy by (eapply Permutation_in; [apply Permutation_sym; exact P|left; reflexivity]).
      destruct Hx as [Hx|Hx]; [congruence|]. destruct Hy as [Hy|Hy]; [congruence|].
      rewrite Forall_forall in HF, HF'. apply pair_leb_antisym; [apply HF; exact Hy|apply HF'; exact Hx]. }
    f_equal. apply IH; [exact HSr|exact HSr'|]. eapply Permutation_cons_inv; exact P.
Qed.

(* canonical form of the multiset *)
Lemma sort_pairs_canonical l l' : Permutation l l' <-> sort_pairs l = sort_pairs l'.
Proof.
  split.
  - intros P. apply sorted_perm_eq; try apply sort_pairs_sorted.
    eapply Permutation_trans; [apply sort_pairs_perm|].
    eapply Permutation_trans; [exact P|apply Permutation_sym; apply sort_pairs_perm].
  - intros E. eapply Permutation_trans; [apply Permutation_sym; apply sort_pairs_perm|].
    rewrite E. apply sort_pairs_perm.
Qed.

Lemma pairs_eqb_eq a : forall b, pairs_eqb a b = true <-> a = b.
Proof.
  induction a as [|[k v] a IH]; intros [|[k' v'] b]; simpl; split; try congruence; try reflexivity.
  - rewrite !andb_true_iff, !bytes_eqb_eq, IH. intros [[-> ->] ->]. reflexivity.
  - intros H; inversion H; subst. rewrite !bytes_eqb_refl. simpl. apply IH. reflexivity.
Qed.

Lemma nform_eqb_eq x y : nform_eqb x y = true <-> x = y.
Proof.
  destruct x as [[[s1 h1] p1] q1], y as [[[s2 h2] p2] q2]. unfold nform_eqb.
  rewrite !andb_true_iff, !bytes_eqb_eq, pairs_eqb_eq. split.
  - intros [[[-> ->] ->] ->]. reflexivity.
  - intros H; inversion H; auto.
Qed.
