(* IRI.Equals on ALL byte strings (Model/IriEqU.iri_equ): equality WITH the scheme compared implies equality with the
   scheme ignored (builder b56).  No condition on the two strings: no scheme, empty, invalid UTF-8, "://" inside the
   path or the query - all included.

   The slow path (irisEqual) is immediate: dropping the scheme conjunct.  The fast path is the point: IRI.Equals
   answers true as soon as equalFold(stripFragment a, stripFragment b); without the scheme it folds what stripScheme
   leaves of the two.  equalFold works on RUNES of different byte lengths (the Kelvin sign, three bytes, folds with
   "k", one byte), so stripScheme cuts two fold-equal strings at DIFFERENT byte offsets.  The argument: ":" and "/"
   are ASCII non-letters, the canonical form of nothing else (Proofs/CleanUP.v canon_delim_byte, scanon_head_delim),
   and a non-ASCII byte never begins "://", so the first "://" of a string sits where the first 58,47,47 of its
   canonical rune list sits, and the canonical form of the cut string is the cut canonical form:
   [strip_scheme_scanon]. *)
From AP.Model Require Import Prelude Bytes Url IriEq IriNf Vocab Pred CollIri Utf8 FoldTab Fold UrlU IriEqU.
From AP.Proofs Require Import NlvP LowerP IriEqP SortP IriGenP IriNfP IriXP CollIriP Utf8P FoldP CleanUP DecodeUP IriUP.

(* ---------------------------------------------------------------- stripScheme as "the suffix from the first ://" *)
Fixpoint from_sep (s : bytes) : option bytes :=
  if is_prefix (B "://") s then Some s
  else match s with [] => None | _ :: r => from_sep r end.

Lemma from_sep_cons c r :
  from_sep (c :: r) = if is_prefix (B "://") (c :: r) then Some (c :: r) else from_sep r.
Proof. reflexivity. Qed.

Lemma index_from_sep s : forall n,
  match index_from n (B "://") s with
  | Some k => exists j, k = n + j /\ from_sep s = Some (skipn j s)
  | None => from_sep s = None
  end.
Proof.
  induction s as [|c r IH]; intro n.
  - reflexivity.
  - rewrite from_sep_cons. change (index_from n (B "://") (c :: r))
      with (if is_prefix (B "://") (c :: r) then Some n else index_from (S n) (B "://") r).
    destruct (is_prefix (B "://") (c :: r)).
    + exists 0. split; [lia|reflexivity].
    + specialize (IH (S n)). destruct (index_from (S n) (B "://") r) as [k|].
      * destruct IH as [j [E F]]. exists (S j). split; [lia|exact F].
      * exact IH.
Qed.

Lemma strip_scheme_from_sep s : strip_scheme s = match from_sep s with Some t => t | None => s end.
Proof.
  unfold strip_scheme, index. pose proof (index_from_sep s 0) as H.
  destruct (index_from 0 (B "://") s) as [k|].
  - destruct H as [j [E F]]. rewrite F. simpl in E. subst k. reflexivity.
  - rewrite H. reflexivity.
Qed.

(* ---------------------------------------------------------------- the same cut on canonical rune lists *)
Definition pre3 (l : list N) : bool :=
  match l with
  | a :: b :: c :: _ => ((a =? 58) && (b =? 47) && (c =? 47))%N
  | _ => false
  end.
Fixpoint from_sep_r (l : list N) : option (list N) :=
  if pre3 l then Some l
  else match l with [] => None | _ :: r => from_sep_r r end.

Lemma from_sep_r_cons x l : from_sep_r (x :: l) = if pre3 (x :: l) then Some (x :: l) else from_sep_r l.
Proof. reflexivity. Qed.

Definition colon : byte := "058"%byte.
Lemma colon_delim : is_delim colon = true. Proof. reflexivity. Qed.
Lemma sep_is : B "://" = [colon; slash; slash]. Proof. reflexivity. Qed.

Lemma is_prefix_sep s : is_prefix (B "://") s = true <-> exists r, s = colon :: slash :: slash :: r.
Proof.
  rewrite sep_is. split.
  - intro H. destruct s as [|a s]; [discriminate|]. simpl in H. apply andb_true_iff in H. destruct H as [Ea H].
    destruct s as [|b s]; [discriminate|]. simpl in H. apply andb_true_iff in H. destruct H as [Eb H].
    destruct s as [|c r]; [discriminate|]. simpl in H. apply andb_true_iff in H. destruct H as [Ec _].
    apply beqb_eq in Ea, Eb, Ec. subst. exists r. reflexivity.
  - intros [r ->]. reflexivity.
Qed.

Lemma scanon_sep r : scanon (colon :: slash :: slash :: r) = 58%N :: 47%N :: 47%N :: scanon r.
Proof.
  rewrite (uc_cons_ascii colon) by reflexivity. rewrite (uc_cons_ascii slash) by reflexivity.
  rewrite (uc_cons_ascii slash) by reflexivity.
  rewrite (canon_delim_self colon colon_delim), (canon_delim_self slash slash_delim). reflexivity.
Qed.

Lemma pre3_scanon s : pre3 (scanon s) = is_prefix (B "://") s.
Proof.
  destruct (is_prefix (B "://") s) eqn:P.
  - apply is_prefix_sep in P. destruct P as [r ->]. rewrite scanon_sep. reflexivity.
  - destruct (pre3 (scanon s)) eqn:Q; [|reflexivity]. exfalso.
    destruct (scanon s) as [|a [|b [|c T]]] eqn:E; try discriminate.
    unfold pre3 in Q. rewrite !andb_true_iff, !N.eqb_eq in Q. destruct Q as [[-> ->] ->].
    change 58%N with (byteN colon) in E. change 47%N with (byteN slash) in E.
    destruct (scanon_head_delim colon s _ colon_delim E) as [r1 [-> E1]].
    destruct (scanon_head_delim slash r1 _ slash_delim E1) as [r2 [-> E2]].
    destruct (scanon_head_delim slash r2 _ slash_delim E2) as [r3 [-> _]].
    assert (is_prefix (B "://") (colon :: slash :: slash :: r3) = true) by (apply is_prefix_sep; eauto).
    congruence.
Qed.

Lemma nonascii_not_colon b : is_asciib b = false -> Byte.eqb colon b = false.
Proof.
  intro A. destruct (Byte.eqb colon b) eqn:E; [|reflexivity]. apply beqb_eq in E. subst b. discriminate.
Qed.

Lemma from_sep_skip ch rest : forallb (fun b => negb (is_asciib b)) ch = true -> from_sep (ch ++ rest) = from_sep rest.
Proof.
  induction ch as [|b ch IH]; intro H; [reflexivity|].
  simpl in H. apply andb_true_iff in H. destruct H as [Hb Hc]. apply negb_true_iff in Hb.
  change ((b :: ch) ++ rest) with (b :: (ch ++ rest)). rewrite from_sep_cons.
  assert (is_prefix (B "://") (b :: ch ++ rest) = false) as ->.
  { rewrite sep_is. simpl. rewrite (nonascii_not_colon b Hb). reflexivity. }
  apply IH. exact Hc.
Qed.

Lemma pre3_big x l : (128 <= x)%N -> pre3 (canon x :: l) = false.
Proof.
  intro Bx. destruct l as [|b [|c T]]; try reflexivity. unfold pre3.
  destruct (canon x =? 58)%N eqn:E; [|reflexivity]. apply N.eqb_eq in E. exfalso.
  exact (canon_big_not_delim x colon Bx colon_delim E).
Qed.

Definition omap_scanon (o : option bytes) : option (list N) :=
  match o with Some t => Some (scanon t) | None => None end.

Lemma from_sep_scanon_n n : forall s, length s <= n -> from_sep_r (scanon s) = omap_scanon (from_sep s).
Proof.
  induction n as [|n IH]; intros s L.
  - destruct s; [reflexivity|simpl in L; lia].
  - destruct s as [|c r]; [reflexivity|]. simpl in L.
    rewrite from_sep_cons. rewrite <- (pre3_scanon (c :: r)).
    destruct (head_chunk c r) as [[ch0 [rest [x [Er [V [R [NC [XL [[A [-> ->]]|[Bx NA]]]]]]]]]]|[R A]].
    + (* an ASCII byte *)
      simpl in Er. subst rest. rewrite (uc_cons_ascii c r A). rewrite from_sep_r_cons.
      rewrite <- (uc_cons_ascii c r A).
      destruct (pre3 (scanon (c :: r))); [reflexivity|]. apply IH. lia.
    + (* a complete multi-byte rune *)
      subst r. change (c :: ch0 ++ rest) with ((c :: ch0) ++ rest).
      rewrite (uc_app_valid (c :: ch0) rest V), (scanon_single (c :: ch0) x R). cbn [app].
      rewrite from_sep_r_cons, (pre3_big x _ Bx).
      simpl in NA. apply andb_true_iff in NA. destruct NA as [_ NA].
      change ((c :: ch0) ++ rest) with (c :: (ch0 ++ rest)).
      rewrite (from_sep_skip ch0 rest NA). apply IH. rewrite app_length in L. lia.
    + (* a byte that is not UTF-8 where it stands *)
      rewrite (scanon_bad c r R). rewrite from_sep_r_cons.
      assert (pre3 (strict_err c :: scanon r) = false) as ->.
      { destruct (scanon r) as [|b [|d T]]; try reflexivity. unfold pre3.
        destruct (strict_err c =? 58)%N eqn:E; [|reflexivity]. apply N.eqb_eq in E.
        pose proof (strict_err_big c). lia. }
      apply IH. lia.
Qed.

Lemma from_sep_scanon s : from_sep_r (scanon s) = omap_scanon (from_sep s).
Proof. apply (from_sep_scanon_n (length s)). lia. Qed.

(* stripScheme respects equality under equalFold, for ALL byte strings *)
Theorem strip_scheme_scanon x y : scanon x = scanon y -> scanon (strip_scheme x) = scanon (strip_scheme y).
Proof.
  intro E. rewrite !strip_scheme_from_sep.
  pose proof (from_sep_scanon x) as Hx. pose proof (from_sep_scanon y) as Hy. rewrite E in Hx. rewrite Hx in Hy.
  destruct (from_sep x) as [tx|], (from_sep y) as [ty|]; simpl in Hy; try discriminate.
  - injection Hy as Hy. exact Hy.
  - exact E.
Qed.

Theorem strip_scheme_sfold x y : sfold_eqb x y = true -> sfold_eqb (strip_scheme x) (strip_scheme y) = true.
Proof. rewrite !sfold_eqb_eq. apply strip_scheme_scanon. Qed.

(* ---------------------------------------------------------------- IRI.Equals: strict implies loose, all byte strings *)
Section Gen.
  Variable classify : bytes -> url_class.
  Variable qvalues : bytes -> list (bytes * list bytes).
  Variable veq : list bytes -> list bytes -> bool.
  Variable peq : bytes -> bytes -> bool.

  Lemma iris_equal_f_strict_loose a b :
    iris_equal_f sfold_eqb classify qvalues veq peq a b true = Some true ->
    iris_equal_f sfold_eqb classify qvalues veq peq a b false = Some true.
  Proof.
    unfold iris_equal_f. destruct (classify a) as [u| |]; destruct (classify b) as [w| |]; try (intro H; exact H).
    destruct (sfold_eqb (u_scheme u) (u_scheme w)); [intro H; exact H|discriminate].
  Qed.

  Lemma iri_equals_f_strict_loose a b :
    iri_equals_f sfold_eqb classify qvalues veq peq a b true = Some true ->
    iri_equals_f sfold_eqb classify qvalues veq peq a b false = Some true.
  Proof.
    unfold iri_equals_f.
    destruct (sfold_eqb (strip_fragment a) (strip_fragment b)) eqn:F.
    - intros _. rewrite (strip_scheme_sfold _ _ F). reflexivity.
    - intro E. rewrite (iris_equal_f_strict_loose a b E).
      destruct (sfold_eqb (strip_scheme (strip_fragment a)) (strip_scheme (strip_fragment b))); reflexivity.
  Qed.
End Gen.

Theorem iri_equ_strict_loose a b : iri_equ a b true = true -> iri_equ a b false = true.
Proof.
  unfold iri_equ, iri_equals_u. intro H.
  destruct (iri_equals_f sfold_eqb url_classify_u query_values_u values_eq (paths_equal_f sfold_eqb) a b true) as [[|]|] eqn:E;
    try discriminate.
  rewrite (iri_equals_f_strict_loose _ _ _ _ a b E). reflexivity.
Qed.

Corollary iri_equ_loose_strict_false a b : iri_equ a b false = false -> iri_equ a b true = false.
Proof.
  intro H. destruct (iri_equ a b true) eqn:E; [|reflexivity]. apply iri_equ_strict_loose in E. congruence.
Qed.

(* the folding matters: the two strings are cut at different byte offsets (Kelvin sign in the scheme position), and the
   statement is about strings that url.Parse refuses or gives no host as well *)
Example strict_loose_examples :
  let a := hx "e284aa3a2f2f612f62" in                 (* Kelvin sign, then "://a/b" *)
  let b := B "k://A/B" in
  iri_equ a b true = true /\ iri_equ a b false = true /\
  strip_scheme a = B "://a/b" /\ length a <> length b /\
  iri_equ (B "") (B "") true = true /\ iri_equ (B "a://b") (B "A://B") true = true /\
  iri_equ (B "x/y?u=p://q") (B "X/y?u=P://q") true = true /\ iri_equ (B "x/y?u=p://q") (B "X/y?u=P://q") false = true /\
  (* the converse fails *)
  iri_equ (B "http://example.com/a") (B "https://example.com/a") false = true /\
  iri_equ (B "http://example.com/a") (B "https://example.com/a") true = false.
Proof. cbv zeta. repeat split; vm_compute; try reflexivity; discriminate. Qed.
