(* Lemmas shared by the table ties EqualsTabP / RecipTabP / FlattenTabP. *)
From AP.Model Require Import Prelude Vocab TabEq.

Lemma obind_eta {A} (o : outcome A) : obind o (fun r => Ok r) = o.
Proof. destruct o; reflexivity. Qed.

Lemma lbeq_eq {A} (e : A -> A -> bool) :
  (forall x y, e x y = true -> x = y) -> forall a b, lbeq e a b = true -> a = b.
Proof.
  intros He a. induction a as [|x a IH]; intros [|y b] H; simpl in H; try discriminate; [reflexivity|].
  apply andb_prop in H. destruct H as [H1 H2]. f_equal; [apply He; exact H1 | apply IH; exact H2].
Qed.

Lemma all_kinds_complete k : In k all_kinds.
Proof. destruct k; simpl; tauto. Qed.

Lemma bytes_eqb_true a b : bytes_eqb a b = true -> a = b.
Proof.
  revert b. induction a as [|x a IH]; intros [|y b] H; simpl in H; try discriminate; [reflexivity|].
  apply andb_prop in H. destruct H as [H1 H2]. f_equal; [|apply IH; exact H2].
  apply Byte.byte_dec_bl. exact H1.
Qed.
