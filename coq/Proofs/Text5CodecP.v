(* C06 (builder b50): writer tie and reader tie together - on every value of the domain codec5_dom (Model/Text5Enc.v)
   the whole-value encoder writes exactly the five-position document, the whole-value decoder reads from it exactly
   what the five-position reader reads, so the round trip of C06 (C06_json_all_positions) is a statement about the
   encoder and decoder models themselves.  Generic in the write, read and layout tables and the dispatch functions. *)
From AP.Model Require Import Prelude Bytes Vocab Pred Layout Json JsonLeaf JsonTables Dispatch JsonEnc JsonCheck Nlv Text Text5 JsonDec Shape Text5Enc.
From AP.Proofs Require Import NlvP TextP Text5P.
From AP.Proofs Require Text5EncP Text5DecEncP.

Lemma view5_read fs ty tx : view5 fs ty tx -> ty5 fs = ty /\ forall p, tx5 fs p = tx p.
Proof.
  intros (Vt & Vn & Vs & _). split; [unfold ty5, get_str; rewrite Vt; reflexivity|].
  intros p. unfold tx5. destruct p.
  - rewrite (Vn PName) by discriminate. destruct (tx PName); reflexivity.
  - rewrite (Vn PSummary) by discriminate. destruct (tx PSummary); reflexivity.
  - rewrite (Vn PContent) by discriminate. destruct (tx PContent); reflexivity.
  - rewrite (Vn PPreferredUsername) by discriminate. destruct (tx PPreferredUsername); reflexivity.
  - cbn [pos_field]. rewrite Vs. destruct (tx PSourceContent); reflexivity.
Qed.

Theorem codec5 jw jr lo reg sw acts actors links pt k fs :
  codec5_dom jw jr lo reg sw acts actors (IObj pt k fs) = true ->
  marshal_json jw (IObj pt k fs) = Some (doc_encode5 (ty5 fs) (tx5 fs)) /\
  exists fs',
    unmarshal_json jr lo reg sw acts actors links (doc_encode5 (ty5 fs) (tx5 fs)) = Some (Ok (IObj true k fs')) /\
    view5 fs' (ty5 fs) (fun p => norm_text (tx5 fs p)) /\
    ty5 fs' = ty5 fs /\
    forall ku, exists rd, doc_decode5 ku (doc_encode5 (ty5 fs) (tx5 fs)) = Ok rd /\
                          forall p, tx5 fs' p = rd p /\ rd p = norm_text (tx5 fs p).
Proof.
  unfold codec5_dom. rewrite !andb_true_iff. intros [[[Hs Htx] Hr] Hsel].
  pose proof (Text5EncP.enc_shape5 jw (IObj pt k fs) Hs) as Henc. cbv beta iota in Henc.
  split; [exact Henc|].
  cbn [shape5] in Hs. apply andb_true_iff in Hs. destruct Hs as [Hsf Hk].
  destruct (Text5EncP.shape5_view fs Hsf) as (Hv & Hp & Hn).
  pose proof (Text5EncP.texts5_ok_all _ Htx) as Hok.
  destruct (kind5_pu jw k) as [pu|] eqn:Epu; [|discriminate].
  assert (Hpu : pu = false -> tx5 fs PPreferredUsername = []).
  { intros ->. unfold tx5. cbn [pos_field]. destruct (getf F_PreferredUsername fs); [discriminate|reflexivity]. }
  destruct (Text5DecEncP.dec_doc5 jr lo reg sw acts actors links k pu (ty5 fs) (tx5 fs) Hr Hsel Hp Hn Hok Hpu) as (fs' & Hd & Hv').
  exists fs'. split; [exact Hd|]. split; [exact Hv'|].
  destruct (view5_read _ _ _ Hv') as [Et Ex]. split; [exact Et|].
  intros ku. destruct (json_five ku (ty5 fs) (tx5 fs) Hp Hok) as (rd & Hrd & Hall).
  exists rd. split; [exact Hrd|]. intros p. rewrite (Hall p), (Ex p). split; reflexivity.
Qed.
