(* C06 (builder b50): the five-position document through the whole decoder model (Model/JsonDec.v: unmarshal_json over
   the regenerated read tables) - for every read table set satisfying the decidable condition kind5_r_ok of
   Model/Text5Enc.v and every type name that selects the struct kind: the document doc_encode5 writes decodes to a
   struct value of that kind whose ONLY fields are the type and the five text positions, each holding exactly what the
   five-position reader doc_decode5 returns - source.content included (through the GetAPSource leaf table).
   Generic in the tables; all texts of C06's domain, by induction over the language lists; no bound. *)
From AP.Model Require Import Prelude Bytes Vocab Pred Layout Json JsonLeaf JsonTables Dispatch JsonCheck Nlv Text Text5 JsonDec Shape Text5Enc.
From AP.Proofs Require Import NlvP TextP Text5P CopyP ShapeP Text5DecP.
From Coq Require Import Lia.
Local Open Scope nat_scope.

(* ------------------------------------------------------------------ member names *)
Lemma find_key_none f kvs key : (forall kv, In kv kvs -> f (fst kv) <> key) -> find_key f kvs key = None.
Proof.
  induction kvs as [|[k v] r IH]; intros H; [reflexivity|]. cbn [find_key].
  destruct (bytes_eqb (f k) key) eqn:E.
  - apply bytes_eqb_eq in E. exfalso. exact (H (k, v) (or_introl eq_refl) E).
  - apply IH. intros kv Hin. apply H. right; exact Hin.
Qed.

(* an object none of whose member names is [key], as written or unescaped *)
Lemma fj_get_none ku kvs key : (forall kv, In kv kvs -> fst kv <> key /\ fj_unescape (fst kv) <> key) ->
  fj_get ku (FObj kvs) key = None.
Proof.
  intros H. unfold fj_get.
  rewrite (find_key_none fj_unescape kvs key) by (intros kv Hin; apply H, Hin).
  rewrite (find_key_none (fun k => k) kvs key) by (intros kv Hin; apply H, Hin).
  destruct (negb ku && negb (has_bs key)); reflexivity.
Qed.

Lemma names5_plain : forallb (fun k => bytes_eqb (fj_unescape k) k && bytes_eqb (sbody false k) k) all_names5 = true.
Proof. vm_compute. reflexivity. Qed.

Lemma text_key_name p l : In (text_key p l) all_names5.
Proof. unfold text_key. destruct (Nat.ltb 1 (length l)); destruct p; vm_compute; tauto. Qed.

Lemma name5_unescape k : In k all_names5 -> fj_unescape k = k /\ sbody false k = k.
Proof.
  intros H. pose proof names5_plain as Hp. rewrite forallb_forall in Hp. specialize (Hp k H).
  apply andb_true_iff in Hp. destruct Hp as [H1 H2]. split; apply bytes_eqb_eq; assumption.
Qed.

(* the member names of the document *)
Lemma mem5_keys tx p kv : In kv (mem5 tx p) -> In (fst kv) all_names5.
Proof.
  unfold mem5, member5. destruct (tx p) as [|e l]; [intros []|].
  destruct p; cbn [map]; intros [<-|[]]; cbn [ofkv fst];
    try (rewrite (proj2 (name5_unescape _ (text_key_name _ (e :: l)))); apply text_key_name);
    vm_compute; tauto.
Qed.

Lemma doc5_keys ty tx kvs : fj_of (doc_tree5 ty tx) = FObj kvs -> forall kv, In kv kvs -> In (fst kv) all_names5.
Proof.
  rewrite fj_of_doc5. intros H; injection H as <-. intros kv [<-|Hin]; [vm_compute; tauto|].
  repeat (apply in_app_or in Hin; destruct Hin as [Hin|Hin]; [exact (mem5_keys tx _ kv Hin)|]).
  exact (mem5_keys tx _ kv Hin).
Qed.

Lemma absent_name_not_in t : absent_name t = true -> ~ In t all_names5.
Proof.
  unfold absent_name. rewrite negb_true_iff. intros H Hin.
  assert (existsb (bytes_eqb t) all_names5 = true); [|congruence].
  apply existsb_exists. exists t. split; [exact Hin|apply bytes_eqb_refl].
Qed.

(* a name no five-position document holds is not found, whatever the state of the key cache *)
Lemma doc5_absent ty tx ku t : absent_name t = true -> fj_get ku (fj_of (doc_tree5 ty tx)) t = None.
Proof.
  intros Ha. destruct (fj_of (doc_tree5 ty tx)) as [kvs| | | | | |] eqn:E; try reflexivity.
  apply fj_get_none. intros kv Hin. pose proof (doc5_keys ty tx kvs E kv Hin) as Hk.
  destruct (name5_unescape _ Hk) as [Hu _]. rewrite Hu.
  assert (fst kv <> t) by (intros <-; exact (absent_name_not_in _ Ha Hk)). tauto.
Qed.

(* ------------------------------------------------------------------ the document is inside the decoder model *)
Lemma has_bs_false_unescape k : has_bs k = false -> fj_unescape k = k.
Proof. apply bs_free_unescape. Qed.

(* member names that are stringBytes of valid UTF-8 never spell one name two ways *)
Lemma keys_unambiguous kvs : (forall kv, In kv kvs -> exists t, fst kv = sbody false t /\ valid_utf8 t) ->
  keys_ambiguous kvs = false.
Proof.
  intros H. unfold keys_ambiguous.
  destruct (existsb _ kvs) eqn:E; [|reflexivity]. exfalso.
  apply existsb_exists in E. destruct E as (kv & Hin & Hc). apply andb_true_iff in Hc. destruct Hc as [Hb Hc].
  apply existsb_exists in Hc. destruct Hc as (kv' & Hin' & Hc'). apply andb_true_iff in Hc'. destruct Hc' as [Hnb He].
  apply negb_true_iff in Hnb. apply bytes_eqb_eq in He.
  destruct (H kv Hin) as (t1 & E1 & V1). destruct (H kv' Hin') as (t2 & E2 & V2).
  rewrite E1, (escape_core false t1 V1) in He.
  pose proof (has_bs_false_unescape _ Hnb) as Hu. rewrite E2, (escape_core false t2 V2) in Hu.
  rewrite E2, <- Hu in He. subst t2. rewrite E1 in Hb. rewrite E2 in Hnb. congruence.
Qed.

Lemma keys_clean_text l : ok_text l -> keys_clean (fj_of (text_tree l)) = true.
Proof.
  intros [->|[(r & t & -> & _)|(Hlen & Hok & _)]]; [reflexivity|reflexivity|].
  destruct l as [|e1 [|e2 l]]; try (simpl in Hlen; lia). destruct e1 as [r1 t1].
  cbn [text_tree]. rewrite entry_tree_map, fj_of_entries. cbn [keys_clean]. apply andb_true_iff. split.
  - apply negb_true_iff, keys_unambiguous. intros kv Hin.
    apply in_map_iff in Hin. destruct Hin as (x & <- & Hx). apply in_map_iff in Hx. destruct Hx as (e & <- & He).
    rewrite Forall_forall in Hok. destruct (Hok e He) as (V & _). exists (fst e). split; [reflexivity|exact V].
  - apply forallb_forall. intros kv Hin.
    apply in_map_iff in Hin. destruct Hin as (x & <- & Hx). apply in_map_iff in Hx. destruct Hx as (e & <- & He). reflexivity.
Qed.

Lemma name5_valid k : In k all_names5 -> valid_utf8 k.
Proof. intros H. repeat (destruct H as [<-|H]; [vm_compute; reflexivity|]). destruct H. Qed.

Lemma keys_clean_doc5 ty tx : plain_name ty -> (forall p, ok_text (tx p)) -> keys_clean (fj_of (doc_tree5 ty tx)) = true.
Proof.
  intros Hty Hok. unfold doc_tree5. cbn [fj_of keys_clean]. apply andb_true_iff. split.
  - apply negb_true_iff, keys_unambiguous. intros kv Hin.
    apply in_map_iff in Hin. destruct Hin as (x & <- & Hx). cbn [fst].
    exists (fst x). split; [reflexivity|]. apply name5_valid.
    destruct Hx as [<-|Hx]; [vm_compute; tauto|].
    assert (Hm : forall p, In x (member5 tx p) -> In (fst x) all_names5).
    { intros p. unfold member5. destruct (tx p) as [|e l]; [intros []|].
      destruct p; intros [<-|[]]; cbn [fst]; try apply text_key_name; vm_compute; tauto. }
    repeat (apply in_app_or in Hx; destruct Hx as [Hx|Hx]; [exact (Hm _ Hx)|]). exact (Hm _ Hx).
  - apply forallb_forall. intros kv Hin. apply in_map_iff in Hin. destruct Hin as (x & <- & Hx). cbn [snd].
    destruct Hx as [<-|Hx]; [reflexivity|].
    assert (Hm : forall p, In x (member5 tx p) -> keys_clean (fj_of (snd x)) = true).
    { intros p. unfold member5. pose proof (Hok p) as Hop. destruct (tx p) as [|e l] eqn:Etx; [intros []|].
      destruct p; intros [<-|[]]; cbn [snd]; try (apply keys_clean_text; exact Hop).
      cbn [fj_of keys_clean map forallb snd]. rewrite (keys_clean_text _ Hop). cbn [andb]. rewrite andb_true_r.
      apply negb_true_iff, keys_unambiguous. intros kv [<-|[]]. cbn [fst].
      exists (text_key PSourceContent (e :: l)). split; [reflexivity|apply name5_valid, text_key_name]. }
    repeat (apply in_app_or in Hx; destruct Hx as [Hx|Hx]; [exact (Hm _ Hx)|]). exact (Hm _ Hx).
Qed.

(* ------------------------------------------------------------------ what one read entry finds *)
Section Entries.
  Variable jr : list (bytes * list rstmt).
  Variable rec : fjv -> option item.
  Variable val : fjv.
  (* [absent]: the names no five-position document holds are not found in val *)
  Hypothesis Habs : forall ku t, absent_name t = true -> fj_get ku val t = None.

  Notation gv := (get_value jr rec).

  Lemma gv_string d getter term conv : existsb (bytes_eqb getter) string_getters = true ->
    gv (S d) val getter term conv = Some (match jstr (sub_get val term) with [] => None | s => Some (Vocab.FStr s) end).
  Proof. intros H. cbn [get_value]. rewrite H. reflexivity. Qed.

  Lemma sub_get_absent term : absent_name (fst (cut_byte x2e term)) = true -> sub_get val term = None.
  Proof.
    intros H. unfold sub_get. destruct (cut_byte x2e term) as [a [b|]]; cbn [fst] in H; unfold jget; rewrite (Habs false a H); reflexivity.
  Qed.

  Lemma gv_absent_getter getter term conv : absent_name term = true ->
    existsb (bytes_eqb getter) absent_getters = true -> gv 3 val getter term conv = Some None.
  Proof.
    intros Ht Hg. pose proof (Habs false term Ht) as Hj. change (fj_get false val term) with (jget val term) in Hj.
    apply existsb_exists in Hg. destruct Hg as (g & Hin & He). apply bytes_eqb_eq in He. subst g.
    unfold absent_getters in Hin.
    repeat (destruct Hin as [<-|Hin];
            [try (change (gv 3 val (B "JSONGetItem") term conv)
                    with (match jget_item rec val term with Some INil => Some None | Some i => Some (Some (FItem i)) | None => None end);
                  unfold jget_item; rewrite Hj; reflexivity);
             try (change (gv 3 val (B "JSONGetURIItem") term conv)
                    with (match jget_uri_item rec val term with Some INil => Some None | Some i => Some (Some (FItem i)) | None => None end);
                  unfold jget_uri_item; rewrite Hj; reflexivity);
             try (change (gv 3 val (B "JSONGetItems") term conv)
                    with (match jget_items rec val term with Some None => Some None | Some l => Some (Some (FItems l)) | None => None end);
                  unfold jget_items; rewrite Hj; reflexivity);
             try (change (gv 3 val (B "JSONGetTime") term conv)
                    with (match parse_rfc3339 (jstr (jget val term)) with Some (Some t) => Some (Some (FTime t)) | Some None => Some None | None => None end);
                  rewrite Hj; reflexivity);
             try (change (gv 3 val (B "JSONGetDuration") term conv)
                    with (match parse_xsd_duration (jstr (jget val term)) with Some 0%Z => Some None | Some d => Some (Some (FDur d)) | None => None end);
                  rewrite Hj; reflexivity);
             try (change (gv 3 val (B "JSONGetInt") term conv)
                    with (match get_int64 (jget val term) with
                          | Some z => Some (if (z =? 0)%Z then None else Some (if bytes_eqb conv (B "uint") then FUint (uint_of z) else FInt z))
                          | None => None end);
                  rewrite Hj; reflexivity);
             try (change (gv 3 val (B "JSONGetFloat") term conv)
                    with (match get_float_micro (jget val term) with Some 0%Z => Some None | Some m => Some (Some (FFloat m)) | None => None end);
                  rewrite Hj; reflexivity);
             try (change (gv 3 val (B "JSONGetBoolean") term conv)
                    with (Some (match jget val term with Some FTrue => Some (FBool true) | _ => None end));
                  rewrite Hj; reflexivity);
             try (change (gv 3 val (B "JSONGetActorEndpoints") term conv)
                    with (match jget val term with
                          | None => Some None
                          | Some sub => match run_leaf jr (gv 2) (B "JSONGetActorEndpoints") sub with
                                        | Some fs => Some (Some (FEndpoints (Some (endpoints_in_struct_order (flat_map (fun p => match snd p with FItem i => [(fst p, i)] | _ => [] end) fs)))))
                                        | None => None
                                        end
                          end);
                  rewrite Hj; reflexivity);
             try (change (gv 3 val (B "JSONGetPublicKey") term conv)
                    with (match jget val term with
                          | None => Some None
                          | Some sub => match run_leaf jr (gv 2) (B "JSONLoadPublicKey") sub with
                                        | Some fs => Some (match get_str F_ID fs, get_str F_Owner fs, get_str F_PublicKeyPem fs with
                                                           | [], [], [] => None
                                                           | a, b, c => Some (FPubKey a b c)
                                                           end)
                                        | None => None
                                        end
                          end);
                  rewrite Hj; reflexivity)|]).
    destruct Hin.
  Qed.
End Entries.

(* ------------------------------------------------------------------ the members of the document that are there *)
Lemma norm_text_nonempty e l : norm_text (e :: l) <> [].
Proof. destruct e as [r t]. destruct l; discriminate. Qed.

Lemma jget_type ty tx : plain_name ty -> jget (fj_of (doc_tree5 ty tx)) (B "type") = Some (FStr ty).
Proof.
  intros Hp. rewrite fj_of_doc5. unfold jget, fj_get. cbn [negb andb]. change (has_bs (B "type")) with false. cbn [negb].
  cbn [find_key]. change (bytes_eqb (sbody false (B "type")) (B "type")) with true. cbv iota.
  rewrite (sbody_plain ty Hp). reflexivity.
Qed.

Lemma plain_unescape ty : plain_name ty -> fj_unescape ty = ty.
Proof.
  intros Hp. apply bs_free_unescape. unfold has_bs. unfold plain_name in Hp.
  induction ty as [|c r IH]; [reflexivity|]. cbn [forallb] in Hp. apply andb_true_iff in Hp. destruct Hp as [Hc Hr].
  cbn [existsb]. rewrite (IH Hr), orb_false_r.
  unfold safe_ascii in Hc. rewrite !andb_true_iff, !negb_true_iff in Hc. destruct Hc as [_ Hb].
  destruct (Byte.eqb bBS c) eqn:E; [|reflexivity]. apply beqb_eq in E. subst c. rewrite beqb_refl in Hb. discriminate.
Qed.

(* the source member *)
Lemma jget_source ty tx :
  jget (fj_of (doc_tree5 ty tx)) (B "source") =
  match tx PSourceContent with
  | [] => None
  | l => Some (fj_of (JO [(text_key PSourceContent l, text_tree l)]))
  end.
Proof.
  rewrite fj_of_doc5. unfold jget.
  rewrite <- (fj_get_filter false (fun k => bytes_eqb (fj_unescape k) (B "source")) (_ :: _) (B "source"))
    by (intros k E; rewrite E; reflexivity).
  change (fun kv : bytes * fjv => bytes_eqb (fj_unescape (fst kv)) (B "source")) with (fun kv : bytes * fjv => sees PSourceContent (fst kv)).
  cbn [filter fst]. rewrite (sees_type PSourceContent). rewrite !filter_app, !sees_member. cbn [same_pos app]. rewrite app_nil_r.
  unfold mem5, member5. destruct (tx PSourceContent) as [|e l]; reflexivity.
Qed.

Lemma source_content l : l <> [] ->
  get_nl_field false (fj_of (JO [(text_key PSourceContent l, text_tree l)])) (B "content") = Some (read_value (fj_of (text_tree l))).
Proof.
  intros H. destruct l as [|e1 [|e2 l]]; [congruence| |].
  - destruct e1 as [r t]. reflexivity.
  - destruct e1 as [r1 t1]. reflexivity.
Qed.

Lemma source_other l b : bytes_eqb b (B "content") = false -> bytes_eqb b (B "contentMap") = false ->
  jget (fj_of (JO [(text_key PSourceContent l, text_tree l)])) b = None.
Proof.
  intros H1 H2. cbn [fj_of map]. unfold jget. apply fj_get_none. intros kv [<-|[]]. cbn [fst].
  destruct (name5_unescape _ (text_key_name PSourceContent l)) as [Hu Hs]. rewrite Hs, Hu.
  assert (Hk : text_key PSourceContent l = B "content" \/ text_key PSourceContent l = B "contentMap").
  { unfold text_key. destruct (Nat.ltb 1 (length l)); [right|left]; reflexivity. }
  assert (Hne : text_key PSourceContent l <> b).
  { intros <-. destruct Hk as [Hk|Hk]; rewrite Hk in *; [rewrite bytes_eqb_refl in H1|rewrite bytes_eqb_refl in H2]; discriminate. }
  tauto.
Qed.

Section DocEntries.
  Variable jr : list (bytes * list rstmt).
  Variable rec : fjv -> option item.
  Variable ty : bytes.
  Variable tx : texts.
  Hypothesis Hty : plain_name ty.
  Hypothesis Hne : ty <> [].
  Hypothesis Hok : forall p, ok_text (tx p).
  Notation val := (fj_of (doc_tree5 ty tx)).
  Notation gv := (get_value jr rec).
  Notation ev := (entry_value jr rec val).

  Lemma Habs5 : forall ku t, absent_name t = true -> fj_get ku val t = None.
  Proof. intros ku t H. apply doc5_absent, H. Qed.

  Lemma link_guard_other gd x : (forall i, x <> FItem i) -> link_guard gd x = x.
  Proof. intros H. unfold link_guard. destruct (bytes_eqb gd _); [|reflexivity]. destruct x; try reflexivity. exfalso. exact (H i eq_refl). Qed.

  (* an entry that looks for a name the document does not hold leaves its field unset *)
  Lemma ev_absent r : absent_read r = true -> ev r = Some None.
  Proof.
    unfold absent_read. rewrite !andb_true_iff, !orb_true_iff. intros [[Ht Ha] Hg]. unfold entry_value.
    destruct Hg as [[Hg|Hg]|Hg].
    - rewrite (gv_absent_getter jr rec val Habs5 _ _ _ Ht Hg). reflexivity.
    - rewrite (gv_string jr rec val 2 _ _ _ Hg), (sub_get_absent val Habs5 _ Ha). reflexivity.
    - apply andb_true_iff in Hg. destruct Hg as [Hg Hm]. apply bytes_eqb_eq in Hg. rewrite Hg.
      change (gv 3 val n_g_nl (rf_term r) (rf_conv r))
        with (match cut_byte x2e (rf_term r) with
              | (a, Some b) =>
                  match jget val a with
                  | None => Some None
                  | Some s => match get_nl_field false s b with
                              | Some ((_ :: _) as l) => Some (Some (FNlv (Some l)))
                              | _ => Some None
                              end
                  end
              | (_, None) => match get_nl_field false val (rf_term r) with
                             | Some l => Some (Some (FNlv (Some l)))
                             | None => Some None
                             end
              end).
      destruct (cut_byte x2e (rf_term r)) as [a [b|]]; cbn [fst] in Ha.
      + unfold jget. rewrite (Habs5 false a Ha). reflexivity.
      + unfold get_nl_field. rewrite (Habs5 false _ Ht), (Habs5 _ _ Hm). reflexivity.
  Qed.

  (* the type *)
  Lemma ev_type r : rf_term r = B "type" -> existsb (bytes_eqb (rf_getter r)) string_getters = true ->
    ev r = Some (Some (Vocab.FStr ty)).
  Proof.
    intros Ht Hg. unfold entry_value. rewrite (gv_string jr rec val 2 _ _ _ Hg), Ht.
    change (sub_get val (B "type")) with (jget val (B "type")). rewrite (jget_type ty tx Hty).
    cbn [jstr fj_string_bytes]. rewrite (plain_unescape ty Hty).
    destruct ty as [|t0 ty'] eqn:E; [congruence|]. cbv zeta.
    rewrite link_guard_other by (intros i; discriminate). reflexivity.
  Qed.

  (* a text position *)
  Lemma ev_nl r q : q <> PSourceContent -> rf_term r = pos_term q -> rf_getter r = n_g_nl -> rf_guard r = [] ->
    ev r = Some (nl_val (norm_text (tx q))).
  Proof.
    intros Hq Ht Hg Hgd.
    rewrite (entry_value_nl jr rec val r Hg Hgd) by (rewrite Ht; destruct q; reflexivity).
    rewrite Ht, (get_nl_field_doc5 false ty tx q Hq), (get_nl_field_member false tx q Hq).
    pose proof (Hok q) as Hoq. destruct (tx q) as [|e l]; [reflexivity|].
    rewrite (read_tree (e :: l) Hoq) by discriminate.
    pose proof (norm_text_nonempty e l) as Hn. destruct (norm_text (e :: l)); [congruence|reflexivity].
  Qed.
End DocEntries.

(* ------------------------------------------------------------------ source: the GetAPSource leaf table *)
Section SourceEntry.
  Variable jr : list (bytes * list rstmt).
  Variable rec : fjv -> option item.
  Variable ty : bytes.
  Variable tx : texts.
  Hypothesis Hok : forall p, ok_text (tx p).
  Hypothesis Hsrc : src5_r_ok jr = true.
  Notation val := (fj_of (doc_tree5 ty tx)).
  Notation gv := (get_value jr rec).

  Definition src_content_val : option fval :=
    match tx PSourceContent with [] => None | l => Some (FNlv (Some (norm_text l))) end.

  Lemma gv_src_content d cv : gv (S d) val n_g_nl (B "source.content") cv = Some src_content_val.
  Proof.
    change (gv (S d) val n_g_nl (B "source.content") cv)
      with (match jget val (B "source") with
            | None => Some None
            | Some s => match get_nl_field false s (B "content") with
                        | Some ((_ :: _) as l) => Some (Some (FNlv (Some l)))
                        | _ => Some None
                        end
            end).
    rewrite jget_source. unfold src_content_val. pose proof (Hok PSourceContent) as Ho.
    destruct (tx PSourceContent) as [|e l]; [reflexivity|].
    rewrite (source_content (e :: l)) by discriminate. rewrite (read_tree (e :: l) Ho) by discriminate.
    pose proof (norm_text_nonempty e l) as Hn. destruct (norm_text (e :: l)); [congruence|reflexivity].
  Qed.

  Lemma gv_src_other d g tm cv b : cut_byte x2e tm = (B "source", Some b) ->
    bytes_eqb b (B "content") = false -> bytes_eqb b (B "contentMap") = false ->
    existsb (bytes_eqb g) string_getters = true -> gv (S d) val g tm cv = Some None.
  Proof.
    intros Hc H1 H2 Hg. rewrite (gv_string jr rec val d g tm cv Hg). unfold sub_get. rewrite Hc, jget_source.
    destruct (tx PSourceContent) as [|e l]; [reflexivity|]. cbv beta iota zeta. rewrite (source_other (e :: l) b H1 H2). reflexivity.
  Qed.

  Lemma run_stmts_prop g0 sub fd tm g cv gd pos r acc :
    run_stmts g0 sub (RProp fd tm g cv gd pos :: r) acc =
    match g0 sub g tm cv with
    | None => None
    | Some None => run_stmts g0 sub r acc
    | Some (Some x) => run_stmts g0 sub r (if fval_is_zero (link_guard gd x) then acc else setf fd (link_guard gd x) acc)
    end.
  Proof. reflexivity. Qed.

  Definition src_inv (acc : list (fid * fval)) (seen : bool) : Prop :=
    (forall f, f <> F_Content -> getf f acc = None) /\ getf F_Content acc = (if seen then src_content_val else None).

  Lemma src_val_cases : src_content_val = None \/ exists e l, src_content_val = Some (FNlv (Some (e :: l))).
  Proof.
    unfold src_content_val. destruct (tx PSourceContent) as [|e l]; [left; reflexivity|right].
    pose proof (norm_text_nonempty e l) as Hn. destruct (norm_text (e :: l)) as [|e' l']; [congruence|]. eauto.
  Qed.

  Lemma run_src : forall stmts, forallb (fun s => src_leaf_content s || src_leaf_other s) stmts = true ->
    forall acc seen, src_inv acc seen ->
    exists acc', run_stmts (gv 2) val stmts acc = Some acc' /\ src_inv acc' (seen || existsb src_leaf_content stmts).
  Proof.
    induction stmts as [|s r IH]; intros Hall acc seen Hinv.
    - exists acc. cbn [existsb]. rewrite orb_false_r. split; [reflexivity|exact Hinv].
    - cbn [forallb] in Hall. apply andb_true_iff in Hall. destruct Hall as [Hs Hr].
      destruct s as [fd tm g cv gd pos|on fn pos|src pos]; try discriminate Hs.
      rewrite run_stmts_prop. cbn [existsb].
      destruct (src_leaf_content (RProp fd tm g cv gd pos)) eqn:Ec.
      + cbn [src_leaf_content] in Ec. rewrite !andb_true_iff in Ec. destruct Ec as [[E1 E2] E3].
        apply bytes_eqb_eq in E1. apply fid_beq_eq in E2. apply bytes_eqb_eq in E3. subst tm fd g.
        rewrite gv_src_content. rewrite orb_true_r.
        destruct src_val_cases as [En|(e & l & En)]; rewrite En.
        * destruct (IH Hr acc seen Hinv) as (acc' & E & (I1 & I2)). exists acc'. split; [exact E|]. split; [exact I1|].
          rewrite I2, En. destruct (seen || existsb src_leaf_content r), seen; reflexivity.
        * rewrite link_guard_other by (intros i; discriminate). cbn [fval_is_zero].
          destruct (IH Hr (setf F_Content (FNlv (Some (e :: l))) acc) true) as (acc' & E & (I1 & I2)).
          { destruct Hinv as [J1 J2]. split.
            - intros f Hf. rewrite getf_setf_other by congruence. apply J1, Hf.
            - rewrite getf_setf_same by reflexivity. symmetry. exact En. }
          exists acc'. split; [exact E|]. split; [exact I1|]. rewrite I2. reflexivity.
      + cbn [orb] in Hs. cbn [src_leaf_other] in Hs. destruct (cut_byte x2e tm) as [a [b|]] eqn:Ecut; [|discriminate].
        rewrite !andb_true_iff, !negb_true_iff in Hs. destruct Hs as [[[Ea Eb1] Eb2] Eg]. apply bytes_eqb_eq in Ea. subst a.
        rewrite (gv_src_other 1 g tm cv b Ecut Eb1 Eb2 Eg). cbn [orb]. exact (IH Hr acc seen Hinv).
  Qed.

  (* the source entry of an object table *)
  Lemma ev_source r : rf_getter r = n_g_source ->
    entry_value jr rec val r = Some (src_val (norm_text (tx PSourceContent))).
  Proof.
    intros Hg. unfold entry_value. rewrite Hg.
    change (gv 3 val n_g_source (rf_term r) (rf_conv r))
      with (match run_leaf jr (gv 2) n_g_source val with
            | Some fs => Some (match get_str F_MediaType fs, get_nlv F_Content fs with
                               | [], None => None
                               | mt, c => Some (FSource mt c)
                               end)
            | None => None
            end).
    unfold run_leaf. unfold src5_r_ok in Hsrc. destruct (JsonCheck.jr_table jr n_g_source) as [stmts|]; [|discriminate].
    apply andb_true_iff in Hsrc. destruct Hsrc as [Hall Hex].
    destruct (run_src stmts Hall [] false) as (acc' & E & (I1 & I2)); [split; reflexivity|].
    rewrite E. rewrite Hex in I2. cbn [orb] in I2. unfold get_str, get_nlv. rewrite (I1 F_MediaType) by discriminate. rewrite I2.
    unfold src_content_val. destruct (tx PSourceContent) as [|e l]; [reflexivity|].
    pose proof (norm_text_nonempty e l) as Hn. destruct (norm_text (e :: l)) as [|e' l'] eqn:En; [congruence|].
    cbv zeta. rewrite link_guard_other by (intros i; discriminate). reflexivity.
  Qed.
End SourceEntry.

(* ------------------------------------------------------------------ all read entries of the kind *)
Lemma pos_of_term_inv pu t p : pos_of_term pu t = Some p ->
  t = pos_term p /\ p <> PSourceContent /\ (p = PPreferredUsername -> pu = true).
Proof.
  unfold pos_of_term.
  destruct (bytes_eqb t (B "name")) eqn:E1.
  { intros H; injection H as <-. apply bytes_eqb_eq in E1. subst t. split; [reflexivity|]. split; discriminate. }
  destruct (bytes_eqb t (B "summary")) eqn:E2.
  { intros H; injection H as <-. apply bytes_eqb_eq in E2. subst t. split; [reflexivity|]. split; discriminate. }
  destruct (bytes_eqb t (B "content")) eqn:E3.
  { intros H; injection H as <-. apply bytes_eqb_eq in E3. subst t. split; [reflexivity|]. split; discriminate. }
  destruct (pu && bytes_eqb t (B "preferredUsername")) eqn:E4; [|discriminate].
  intros H; injection H as <-. apply andb_true_iff in E4. destruct E4 as [Hp E4]. apply bytes_eqb_eq in E4. subst t.
  split; [reflexivity|]. split; [discriminate|intros _; exact Hp].
Qed.

Lemma apply_reads_total jr rec val : forall rs acc,
  (forall r, In r rs -> exists ov, entry_value jr rec val r = Some ov) ->
  exists fs, apply_reads jr rec val rs acc = Some fs.
Proof.
  induction rs as [|r rest IH]; intros acc H; [exists acc; reflexivity|].
  cbn [apply_reads]. destruct (H r (or_introl eq_refl)) as [ov ->].
  destruct ov; apply IH; intros r' Hr'; apply H; right; exact Hr'.
Qed.

Section Assembly.
  Variable jr : list (bytes * list rstmt).
  Variable lo : kind -> list fdecl.
  Variable reg sw : bytes -> option kind.
  Variable acts actors links : list bytes.
  Variable k : kind.
  Variable pu : bool.
  Variable ty : bytes.
  Variable tx : texts.
  Hypothesis Hr : kind5_r_ok jr lo k pu = true.
  Hypothesis Hsel : type5_selects reg sw acts actors ty k = true.
  Hypothesis Hty : plain_name ty.
  Hypothesis Hne : ty <> [].
  Hypothesis Hok : forall p, ok_text (tx p).
  Hypothesis Hpu : pu = false -> tx PPreferredUsername = [].
  Notation val := (fj_of (doc_tree5 ty tx)).
  Notation load := (load_item jr lo reg sw acts actors links).
  Notation ntx := (fun p => norm_text (tx p)).

  (* what a read entry of the kind gives its field *)
  Definition exp5 (r : rflat) : option fval :=
    if bytes_eqb (rf_getter r) n_g_source then src_val (norm_text (tx PSourceContent))
    else if bytes_eqb (rf_term r) (B "type") then Some (Vocab.FStr ty)
    else match pos_of_term pu (rf_term r) with
         | Some p => nl_val (norm_text (tx p))
         | None => None
         end.

  Lemma src_ok : src5_r_ok jr = true.
  Proof. pose proof Hr as H. unfold kind5_r_ok in H. rewrite !andb_true_iff in H. tauto. Qed.

  Lemma ev_read5 rec r : read5_ok pu r = true -> entry_value jr rec val r = Some (exp5 r).
  Proof.
    unfold read5_ok, exp5. destruct (bytes_eqb (rf_getter r) n_g_source) eqn:Eg.
    - intros _. apply bytes_eqb_eq in Eg. exact (ev_source jr rec ty tx Hok src_ok r Eg).
    - destruct (bytes_eqb (rf_term r) (B "type")) eqn:Et.
      + rewrite andb_true_iff. intros [_ Hg]. apply bytes_eqb_eq in Et. exact (ev_type jr rec ty tx Hty Hne r Et Hg).
      + destruct (pos_of_term pu (rf_term r)) as [p|] eqn:Ep.
        * rewrite !andb_true_iff. intros [[Hg Hgd] _]. apply bytes_eqb_eq in Hg. apply bytes_eqb_eq in Hgd.
          destruct (pos_of_term_inv pu _ p Ep) as (Ht & Hp & _).
          exact (ev_nl jr rec ty tx Hok r p Hp Ht Hg Hgd).
        * intros Ha. exact (ev_absent jr rec ty tx r Ha).
  Qed.

  (* the field a read entry with a value writes *)
  Lemma exp5_fid r : read5_ok pu r = true -> exp5 r <> None ->
    (rf_fid r = F_Type /\ exp5 r = Some (Vocab.FStr ty)) \/
    (rf_fid r = F_Source /\ exp5 r = src_val (norm_text (tx PSourceContent))) \/
    (exists p, p <> PSourceContent /\ (p = PPreferredUsername -> pu = true) /\ rf_fid r = pos_field p /\ exp5 r = nl_val (norm_text (tx p))).
  Proof.
    unfold read5_ok, exp5. destruct (bytes_eqb (rf_getter r) n_g_source) eqn:Eg.
    - rewrite andb_true_iff. intros [Hf _] _. apply fid_beq_eq in Hf. right; left. split; [exact Hf|reflexivity].
    - destruct (bytes_eqb (rf_term r) (B "type")) eqn:Et.
      + rewrite andb_true_iff. intros [Hf _] _. apply fid_beq_eq in Hf. left. split; [exact Hf|reflexivity].
      + destruct (pos_of_term pu (rf_term r)) as [p|] eqn:Ep; [|intros _ H; congruence].
        rewrite !andb_true_iff. intros [_ Hf] _. apply fid_beq_eq in Hf.
        destruct (pos_of_term_inv pu _ p Ep) as (_ & Hp & Hpp). right; right. exists p. repeat split; assumption.
  Qed.

  Lemma decode_doc5_fields : exists rs fs0,
    reads_of jr k = Some rs /\
    (forall rec, apply_reads jr rec val rs [] = Some (fs0 rec)) /\
    forall rec, view5 (canon_fields lo k (fs0 rec)) ty ntx.
  Proof.
    pose proof Hr as Hr'. unfold kind5_r_ok in Hr'. apply andb_true_iff in Hr'. destruct Hr' as [Hr1 Hr2]. apply andb_true_iff in Hr1. destruct Hr1 as [_ Hrok].
    destruct (reads_of jr k) as [rs|] eqn:Ers; [|discriminate]. rewrite !andb_true_iff in Hr2.
    destruct Hr2 as [[[[[[Hall Htype] Hname] Hsum] Hcont] Hsrc] Hpun].
    rewrite forallb_forall in Hall.
    unfold reads_ok in Hrok. rewrite Ers in Hrok. apply andb_true_iff in Hrok. destruct Hrok as [Hnd Hlay].
    apply fids_nodup_spec in Hnd. rewrite forallb_forall in Hlay.
    assert (Htot : forall rec, exists fs, apply_reads jr rec val rs [] = Some fs).
    { intros rec. apply apply_reads_total. intros r Hin. exists (exp5 r). apply ev_read5, Hall, Hin. }
    (* choose the field list per decoder of the embedded values *)
    assert (Hch : exists fs0 : (fjv -> option item) -> list (fid * fval), forall rec, apply_reads jr rec val rs [] = Some (fs0 rec)).
    { exists (fun rec => match apply_reads jr rec val rs [] with Some fs => fs | None => [] end).
      intros rec. destruct (Htot rec) as [fs E]. rewrite E. reflexivity. }
    destruct Hch as [fs0 Hfs0]. exists rs, fs0. split; [reflexivity|]. split; [exact Hfs0|].
    intros rec. destruct (apply_reads_spec jr rec val rs [] (fs0 rec) Hnd (Hfs0 rec)) as [S1 S2].
    (* every entry: its field holds what exp5 says *)
    assert (Hget : forall r, In r rs -> getf (rf_fid r) (fs0 rec) = exp5 r).
    { intros r Hin. destruct (S1 r Hin) as (ov & E1 & E2). rewrite (ev_read5 rec r (Hall r Hin)) in E1. injection E1 as <-.
      rewrite E2. destruct (exp5 r); reflexivity. }
    (* a field no entry gives a value stays unset *)
    assert (Hnone : forall f, (forall r, In r rs -> rf_fid r = f -> exp5 r = None) -> getf f (fs0 rec) = None).
    { intros f H. destruct (in_dec (fun a b => match Vocab.fid_eq_dec a b with left e => left e | right n => right n end) f (map rf_fid rs)) as [Hin|Hnin].
      - apply in_map_iff in Hin. destruct Hin as (r & Ef & Hin). rewrite <- Ef, (Hget r Hin). apply H; [exact Hin|exact Ef].
      - rewrite (S2 f Hnin). reflexivity. }
    (* canon_fields keeps the fields that are read *)
    assert (Hcanon : forall r, In r rs -> getf (rf_fid r) (canon_fields lo k (fs0 rec)) =
                     match exp5 r with Some v => if fval_is_zero v then None else Some v | None => None end).
    { intros r Hin. rewrite getf_canon_fields, (Hlay r Hin), (Hget r Hin). reflexivity. }
    assert (Hcanon_none : forall f, getf f (fs0 rec) = None -> getf f (canon_fields lo k (fs0 rec)) = None).
    { intros f H. rewrite getf_canon_fields, H. destruct (existsb _ (lo k)); reflexivity. }
    assert (Hnlz : forall l, match nl_val (norm_text l) with Some v => if fval_is_zero v then None else Some v | None => None end = nl_val (norm_text l)).
    { intros l. destruct l as [|e l]; [reflexivity|]. pose proof (norm_text_nonempty e l) as Hn. destruct (norm_text (e :: l)); [congruence|reflexivity]. }
    assert (Hsrz : forall l, match src_val (norm_text l) with Some v => if fval_is_zero v then None else Some v | None => None end = src_val (norm_text l)).
    { intros l. destruct l as [|e l]; [reflexivity|]. pose proof (norm_text_nonempty e l) as Hn. destruct (norm_text (e :: l)); [congruence|reflexivity]. }
    (* the entry that reads a given term *)
    assert (Hterm : forall t, has_term t rs = true -> exists r, In r rs /\ rf_term r = t).
    { intros t H. unfold has_term in H. apply existsb_exists in H. destruct H as (r & Hin & E). apply bytes_eqb_eq in E. eauto. }
    assert (Hposr : forall p, p <> PSourceContent -> (p = PPreferredUsername -> pu = true) ->
                    exists r, In r rs /\ rf_fid r = pos_field p /\ exp5 r = nl_val (norm_text (tx p))).
    { intros p Hp Hpp.
      assert (Hh : has_term (pos_term p) rs = true).
      { destruct p; cbn [pos_term]; [exact Hname|exact Hsum|exact Hcont| |congruence]. rewrite (Hpp eq_refl) in Hpun. exact Hpun. }
      destruct (Hterm _ Hh) as (r & Hin & Et). exists r. split; [exact Hin|].
      pose proof (Hall r Hin) as Hrd. unfold read5_ok in Hrd. unfold exp5.
      destruct (bytes_eqb (rf_getter r) n_g_source) eqn:Eg.
      { apply andb_true_iff in Hrd. destruct Hrd as [_ Hs]. apply bytes_eqb_eq in Hs. rewrite Et in Hs. destruct p; discriminate Hs. }
      assert (Ety : bytes_eqb (rf_term r) (B "type") = false) by (rewrite Et; destruct p; reflexivity).
      rewrite Ety in *.
      assert (Epos : pos_of_term pu (rf_term r) = Some p).
      { rewrite Et. destruct p; try reflexivity; [|congruence]. unfold pos_of_term. rewrite (Hpp eq_refl). reflexivity. }
      rewrite Epos in *. rewrite !andb_true_iff in Hrd. destruct Hrd as [_ Hf]. apply fid_beq_eq in Hf. split; [exact Hf|reflexivity]. }
    split; [|split; [|split]].
    - (* the type *)
      destruct (Hterm _ Htype) as (r & Hin & Et). pose proof (Hall r Hin) as Hrd. unfold read5_ok in Hrd.
      destruct (bytes_eqb (rf_getter r) n_g_source) eqn:Eg.
      { apply andb_true_iff in Hrd. destruct Hrd as [_ Hs]. apply bytes_eqb_eq in Hs. rewrite Et in Hs. discriminate Hs. }
      rewrite Et in Hrd. change (bytes_eqb (B "type") (B "type")) with true in Hrd. cbv iota in Hrd.
      apply andb_true_iff in Hrd. destruct Hrd as [Hf _]. apply fid_beq_eq in Hf.
      rewrite <- Hf, (Hcanon r Hin). unfold exp5. rewrite Eg, Et. change (bytes_eqb (B "type") (B "type")) with true. cbv iota.
      destruct ty; [congruence|reflexivity].
    - (* the text positions *)
      intros p Hp. destruct p; try congruence.
      1-3: match goal with |- getf (pos_field ?p) _ = _ =>
             destruct (Hposr p Hp ltac:(discriminate)) as (r & Hin & Ef & Ee); rewrite <- Ef, (Hcanon r Hin), Ee; apply Hnlz end.
      assert (Hcase : pu = true \/ pu = false) by (destruct pu; tauto).
      destruct Hcase as [Ept|Epf].
      + destruct (Hposr PPreferredUsername Hp (fun _ => Ept)) as (r & Hin & Ef & Ee). rewrite <- Ef, (Hcanon r Hin), Ee. apply Hnlz.
      + rewrite (Hpu Epf). cbn [norm_text nl_val]. apply Hcanon_none, Hnone. intros r Hin Ef.
        destruct (exp5 r) eqn:Ee; [|reflexivity]. exfalso.
        assert (Hnn : exp5 r <> None) by (rewrite Ee; discriminate).
        destruct (exp5_fid r (Hall r Hin) Hnn) as [[H _]|[[H _]|(p & _ & Hpp & H & _)]].
        * rewrite Ef in H. discriminate H.
        * rewrite Ef in H. discriminate H.
        * rewrite Ef in H. destruct p; try discriminate H. specialize (Hpp eq_refl). congruence.
    - (* the source *)
      apply existsb_exists in Hsrc. destruct Hsrc as (r & Hin & Eg).
      pose proof (Hall r Hin) as Hrd. unfold read5_ok in Hrd. rewrite Eg in Hrd. apply andb_true_iff in Hrd. destruct Hrd as [Hf _].
      apply fid_beq_eq in Hf. rewrite <- Hf, (Hcanon r Hin). unfold exp5. rewrite Eg. apply Hsrz.
    - (* nothing else *)
      intros f Hf. apply Hcanon_none, Hnone. intros r Hin Ef.
      destruct (exp5 r) eqn:Ee; [|reflexivity]. exfalso.
      assert (Hnn : exp5 r <> None) by (rewrite Ee; discriminate).
      destruct (exp5_fid r (Hall r Hin) Hnn) as [[H _]|[[H _]|(p & _ & _ & H & _)]]; rewrite <- Ef, H in Hf.
      + vm_compute in Hf. discriminate Hf.
      + vm_compute in Hf. discriminate Hf.
      + destruct p; vm_compute in Hf; discriminate Hf.
  Qed.
End Assembly.

(* ------------------------------------------------------------------ the whole decoder *)
Lemma obj_not_empty_type fs t0 ty' : getf F_Type fs = Some (Vocab.FStr (t0 :: ty')) -> obj_not_empty fs = true.
Proof. intros H. unfold obj_not_empty. rewrite H. cbn [fval_is_zero negb]. rewrite orb_true_r. reflexivity. Qed.

Lemma not_empty5 acts actors links k fs ty : getf F_Type fs = Some (Vocab.FStr ty) -> ty <> [] ->
  (if in_list acts ty then match k with KActivity => true | _ => false end
   else if in_list actors ty then match k with KActor => true | _ => false end
   else match k with KLink => false | _ => true end) = true ->
  not_empty acts actors links (IObj true k fs) = true.
Proof.
  intros Ht Hne Hk. destruct ty as [|t0 ty']; [congruence|].
  pose proof (obj_not_empty_type fs t0 ty' Ht) as Ho.
  unfold not_empty. cbn [is_nil]. unfold get_str. rewrite Ht.
  destruct (in_list acts (t0 :: ty')).
  - destruct k; try discriminate Hk. rewrite Ho. rewrite !orb_true_r. reflexivity.
  - destruct (in_list actors (t0 :: ty')).
    + destruct k; try discriminate Hk. rewrite Ho. reflexivity.
    + destruct k; try discriminate Hk; try reflexivity; exact Ho.
Qed.

Section Final.
  Variable jr : list (bytes * list rstmt).
  Variable lo : kind -> list fdecl.
  Variable reg sw : bytes -> option kind.
  Variable acts actors links : list bytes.
  Variable k : kind.
  Variable pu : bool.
  Variable ty : bytes.
  Variable tx : texts.
  Hypothesis Hr : kind5_r_ok jr lo k pu = true.
  Hypothesis Hsel : type5_selects reg sw acts actors ty k = true.
  Hypothesis Hty : plain_name ty.
  Hypothesis Hne : ty <> [].
  Hypothesis Hok : forall p, ok_text (tx p).
  Hypothesis Hpu : pu = false -> tx PPreferredUsername = [].

  (* THE READER TIE: the whole decoder on the five-position document returns the struct that holds, at each of the
     five positions, what the five-position reader returns - and nothing else but the type *)
  Theorem dec_doc5 : exists fs',
    unmarshal_json jr lo reg sw acts actors links (doc_encode5 ty tx) = Some (Ok (IObj true k fs')) /\
    view5 fs' ty (fun p => norm_text (tx p)).
  Proof.
    destruct (decode_doc5_fields jr lo reg sw acts actors k pu ty tx Hr Hsel Hty Hne Hok Hpu) as (rs & fs0 & Ers & Happ & Hview).
    set (rec := load_item jr lo reg sw acts actors links 300).
    exists (canon_fields lo k (fs0 rec)). split; [|exact (Hview rec)].
    assert (Hp : fj_parse (doc_encode5 ty tx) = Ok (fj_of (doc_tree5 ty tx))).
    { rewrite (doc_encode5_tree ty tx Hty Hok). apply parse_doc, doc5_depth, Hok. }
    unfold unmarshal_json. rewrite Hp. unfold unmarshal_to_item. rewrite (keys_clean_doc5 ty tx Hty Hok).
    assert (Hcore : unmarshal_core jr lo reg sw acts actors links (fj_of (doc_tree5 ty tx))
                    = load_item_level jr lo reg sw acts actors links rec (fj_of (doc_tree5 ty tx))).
    { rewrite fj_of_doc5. reflexivity. }
    rewrite Hcore. unfold load_item_level.
    assert (Etyp : jstr (jget (fj_of (doc_tree5 ty tx)) (B "type")) = ty).
    { rewrite (jget_type ty tx Hty). cbn [jstr fj_string_bytes]. apply plain_unescape, Hty. }
    rewrite Etyp.
    assert (Eiri : as_string_iri ty (fj_of (doc_tree5 ty tx)) = Some None).
    { rewrite fj_of_doc5. destruct ty; reflexivity. }
    rewrite Eiri.
    unfold type5_selects in Hsel. apply andb_true_iff in Hsel. destruct Hsel as [Hs1 Hs2].
    destruct (reg ty) as [c|]; [|discriminate]. destruct (sw ty) as [k'|]; [|discriminate].
    apply andb_true_iff in Hs1. destruct Hs1 as [Hkc Hkk]. apply kind_beq_eq in Hkk. subst k'. rewrite Hkc.
    unfold reads_of in Ers. rewrite (run_table_flat jr rec 6 _ rs Ers), (Happ rec). cbv zeta.
    destruct (Hview rec) as (Vt & _).
    rewrite (not_empty5 acts actors links k _ ty Vt Hne Hs2). reflexivity.
  Qed.
End Final.
