(* The five-position document of Model/Text5.v through the whole decoder model (Model/JsonDec.v): the text
   fields of the decoded value are the texts the document was written from. *)
From AP.Model Require Import Prelude Bytes Nlv Text Text5 Vocab Layout JsonTables JsonCheck JsonDec Shape.
From AP.Proofs Require Import NlvP TextP Text5P CopyP ShapeP.

(* JSONGetNaturalLanguageField on the whole document = on the document that holds only that member *)
Lemma get_nl_field_doc5 ku ty tx q : q <> PSourceContent ->
  get_nl_field ku (fj_of (doc_tree5 ty tx)) (pos_term q) = get_nl_field ku (FObj (mem5 tx q)) (pos_term q).
Proof.
  intros Hq. rewrite fj_of_doc5. rewrite <- (get_nl_field_filter ku (_ :: _) (pos_term q)).
  assert (Hs : forall k, nl_names (pos_term q) k = sees q k) by (intros k; destruct q; try reflexivity; congruence).
  assert (Hf : forall kvs, filter (fun kv : bytes * fjv => nl_names (pos_term q) (fst kv)) kvs
                           = filter (fun kv : bytes * fjv => sees q (fst kv)) kvs).
  { intros kvs. apply filter_ext. intros kv. apply Hs. }
  rewrite Hf. cbn [filter fst]. rewrite (sees_type q). rewrite !filter_app, !sees_member.
  destruct q; try congruence; cbn [same_pos]; rewrite ?app_nil_r; reflexivity.
Qed.

Lemma get_nl_field_member ku tx q : q <> PSourceContent ->
  get_nl_field ku (FObj (mem5 tx q)) (pos_term q) =
  match tx q with [] => None | l => Some (read_value (fj_of (text_tree l))) end.
Proof.
  intros Hq. unfold mem5, member5. destruct (tx q) as [|e1 [|e2 l]].
  - destruct q, ku; reflexivity.
  - destruct e1 as [r t]. destruct q, ku; try congruence; reflexivity.
  - destruct e1 as [r1 t1]. destruct q, ku; try congruence; reflexivity.
Qed.

Section Dec.
  Variable jr_tables : list (bytes * list rstmt).
  Variable layout_of : kind -> list fdecl.
  Variable registry load_switch : bytes -> option kind.
  Variable activity_types actor_types link_types : list bytes.
  Notation load := (load_item jr_tables layout_of registry load_switch activity_types actor_types link_types).
  Notation decode := (unmarshal_json jr_tables layout_of registry load_switch activity_types actor_types link_types).

  Lemma entry_value_nl rec val r :
    rf_getter r = B "JSONGetNaturalLanguageField" -> rf_guard r = [] -> cut_byte x2e (rf_term r) = (rf_term r, None) ->
    entry_value jr_tables rec val r =
    Some (match get_nl_field false val (rf_term r) with Some l => Some (FNlv (Some l)) | None => None end).
  Proof.
    intros Hg Hd Hc. unfold entry_value. rewrite Hg, Hd.
    change (get_value jr_tables rec 3 val (B "JSONGetNaturalLanguageField") (rf_term r) (rf_conv r))
      with (match cut_byte x2e (rf_term r) with
            | (a, Some b) =>
                match jget val a with
                | None => Some None
                | Some s => match get_nl_field false s b with
                            | Some ((_ :: _) as l) => Some (Some (FNlv (Some l)))
                            | _ => Some None
                            end
                end
            | (_, None) => match get_nl_field false val (rf_term r) with
                           | Some l => Some (Some (FNlv (Some l)))
                           | None => Some None
                           end
            end).
    rewrite Hc. destruct (get_nl_field false val (rf_term r)) as [l|]; reflexivity.
  Qed.

  Lemma decode_obj b kvs i : fj_parse b = Ok (FObj kvs) -> decode b = Some (Ok i) -> load json_dec_fuel (FObj kvs) = Some i.
  Proof.
    intros Hp. unfold unmarshal_json. rewrite Hp. unfold unmarshal_to_item.
    destruct (keys_clean (FObj kvs)); [|discriminate]. unfold unmarshal_core. cbv zeta.
    destruct (load json_dec_fuel (FObj kvs)) as [i'|]; [|discriminate]. intros H. injection H as ->. reflexivity.
  Qed.

  (* the document of Model/Text5.v decoded by the whole decoder: every natural-language read entry of the
     kind the type selects, under the term of a position, holds that position's texts *)
  Theorem five_dec ty tx p k fs : plain_name ty -> (forall q, ok_text (tx q)) ->
    decode (doc_encode5 ty tx) = Some (Ok (IObj p k fs)) -> reads_ok jr_tables layout_of k = true ->
    forall rs r q, reads_of jr_tables k = Some rs -> In r rs ->
      rf_getter r = B "JSONGetNaturalLanguageField" -> rf_guard r = [] -> rf_term r = pos_term q -> q <> PSourceContent ->
      getf (rf_fid r) fs = match tx q with [] => None | l => Some (FNlv (Some (norm_text l))) end.
  Proof.
    intros Hty Hok Hd Hrk rs r q Hrs Hin Hg Hgd Ht Hq.
    assert (Ev : exists kvs, fj_of (doc_tree5 ty tx) = FObj kvs) by (rewrite fj_of_doc5; eexists; reflexivity).
    destruct Ev as [kvs Ek].
    assert (Hp : fj_parse (doc_encode5 ty tx) = Ok (FObj kvs)).
    { rewrite (doc_encode5_tree ty tx Hty Hok), parse_doc by (apply doc5_depth, Hok). rewrite Ek. reflexivity. }
    pose proof (decode_obj _ kvs _ Hp Hd) as El.
    destruct (fields_read _ _ _ _ _ _ _ 300 kvs p k fs El Hrk) as [_ [_ [rs' [Hrs' [Hall _]]]]].
    rewrite Hrs in Hrs'. injection Hrs' as <-. destruct (Hall r Hin) as [ov [Ev Eg]].
    rewrite (entry_value_nl _ _ r Hg Hgd) in Ev by (rewrite Ht; destruct q; reflexivity).
    injection Ev as <-. rewrite Eg, Ht, <- Ek, (get_nl_field_doc5 false ty tx q Hq), (get_nl_field_member false tx q Hq).
    pose proof (Hok q) as Hoq. destruct (tx q) as [|e l]; [reflexivity|].
    rewrite (read_tree (e :: l) Hoq) by discriminate. reflexivity.
  Qed.
End Dec.
