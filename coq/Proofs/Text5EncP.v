(* C06 (builder b50): the writer of the five-position document model (Model/Text5.v: doc_encode5) IS the whole-value
   encoder model (Model/JsonEnc.v: marshal_json over the regenerated write tables) on every five-position value -
   for every write table set satisfying the decidable condition kind5_w_ok of Model/Text5Enc.v, every type name that
   needs no escaping, and ALL texts and tags (no hypothesis on them: empty ones, repeated tags, bytes that are not
   UTF-8 included).  By induction over the statement lists and the language lists; no bound. *)
From AP.Model Require Import Prelude Bytes Vocab Pred Layout Json JsonLeaf JsonTables Dispatch JsonEnc JsonCheck JsonNorm Nlv Text Text5 Text5Enc.
From AP.Proofs Require Import NlvP TextP C01StrP NlvEncP.
From Coq Require Import Lia.
Local Open Scope nat_scope.

Lemma fid_beq_eq a b : fid_beq a b = true -> a = b.
Proof. apply internal_fid_dec_bl. Qed.
Lemma fid_beq_refl a : fid_beq a a = true.
Proof. apply internal_fid_dec_lb. reflexivity. Qed.

(* ------------------------------------------------------------------ one statement of a write table *)
Lemma enc_stmts_prop ei rt term writer path via guards acc pos rest fs ms ne :
  enc_stmts ei rt (WProp term writer path via guards acc pos :: rest) fs (ms, ne) =
  match eval_guards fs [x30] (filter nonval guards) with
  | None => None
  | Some false => enc_stmts ei rt rest fs (ms, ne)
  | Some true =>
      match write_value ei rt writer via term (path_get path fs) with
      | None => None
      | Some (term', b, r) =>
          match eval_guards fs b guards with
          | None => None
          | Some false => enc_stmts ei rt rest fs (ms, ne)
          | Some true =>
              match apply_acc acc r ne with
              | None => None
              | Some ne' => enc_stmts ei rt rest fs (match b with [] => ms | _ => ms ++ [member term' b] end, ne')
              end
          end
      end
  end.
Proof. reflexivity. Qed.

Lemma enc_stmts_deleg ei rt on fn acc pos rest fs ms ne :
  enc_stmts ei rt (WDelegate on fn acc pos :: rest) fs (ms, ne) =
  match fn with
  | [] => enc_stmts ei rt rest fs (ms, ne)
  | _ => match rt fn fs with
         | None => None
         | Some (ms', r) => match apply_acc acc r ne with
                            | None => None
                            | Some ne' => enc_stmts ei rt rest fs (ms ++ ms', ne')
                            end
         end
  end.
Proof. reflexivity. Qed.

(* a guard on a field the value does not have is false *)
Lemma guard_absent fs b g f : guard_field g = Some f -> getf f fs = None -> eval_guard fs b g = Some false.
Proof.
  destruct g as [f'|f'|f'|f'|f'| |src]; cbn [guard_field]; try discriminate.
  1-5: intros H; injection H as ->; intros G; cbn [eval_guard]; rewrite G; reflexivity.
  destruct (bytes_eqb src n_guard_pubkey) eqn:E; [|discriminate]. intros H; injection H as <-. intros G.
  apply bytes_eqb_eq in E. subst src. cbn [eval_guard]. change (bytes_eqb n_guard_pubkey pubkey_guard_src) with true. cbv iota. rewrite G. reflexivity.
Qed.

Section Inert.
  Variable used : fid -> bool.
  Variable fs : list (fid * fval).
  Hypothesis Hun : forall f, used f = false -> getf f fs = None.

  Lemma inert_skip ei rt s rest st : inert used s = true -> enc_stmts ei rt (s :: rest) fs st = enc_stmts ei rt rest fs st.
  Proof.
    destruct st as [ms ne]. destruct s as [term writer path via guards acc pos|on fn acc pos|src pos]; cbn [inert]; [| |discriminate].
    - rewrite enc_stmts_prop. destruct (filter nonval guards) as [|g gs] eqn:Ef.
      + destruct path as [|f [|f2 path]]; try discriminate. destruct guards as [|[| | | | | |] [|g2 guards]]; try discriminate.
        rewrite andb_true_iff, negb_true_iff, orb_true_iff. intros [Hu Hw]. cbn [eval_guards].
        assert (Hv : path_get [f] fs = None) by (cbn [path_get]; apply Hun, Hu).
        rewrite Hv.
        assert (Hwv : write_value ei rt writer via term None = Some (term, [], false)).
        { destruct Hw as [Hw|Hw]; apply bytes_eqb_eq in Hw; subst writer; reflexivity. }
        rewrite Hwv. reflexivity.
      + destruct (guard_field g) as [f|] eqn:Eg; [|discriminate]. rewrite negb_true_iff. intros Hu.
        cbn [eval_guards]. rewrite (guard_absent fs [x30] g f Eg (Hun f Hu)). reflexivity.
    - destruct fn; [|discriminate]. intros _. rewrite enc_stmts_deleg. reflexivity.
  Qed.
End Inert.

(* ------------------------------------------------------------------ the members of the five-position document *)
Definition nl_key (term : bytes) (l : nl) : bytes := if Nat.ltb 1 (length l) then term ++ B "Map" else term.
Definition nl_member (term : bytes) (l : nl) : list bytes :=
  match l with
  | [] => []
  | _ => match w_nlv l with [] => [] | b => [member (nl_key term l) b] end
  end.
Definition src_member (l : nl) : list bytes :=
  match nl_member (B "content") l with
  | [] => []
  | ms => [member (B "source") (x7b :: join_with comma ms ++ [x7d])]
  end.
Definition mem5 (ty : bytes) (tx : texts) (a : act5) : list bytes :=
  match a with
  | A5Type => [member (B "type") (w_quoted ty)]
  | A5Nl p => nl_member (pos_term p) (tx p)
  | A5Source => src_member (tx PSourceContent)
  end.
Definition flag_after (ms : list bytes) (ne : bool) : bool := match ms with [] => ne | _ => true end.

(* a text property: JSONWriteNaturalLanguageProp under `len(x.F) > 0` or `x.F != nil`, result or-ed into notEmpty *)
Lemma nl_stmt ei rt term f via guards pos rest fs ms ne (l : nl) :
  nl_guard_ok f guards = true -> getf f fs = nl_val l ->
  enc_stmts ei rt (WProp term n_w_nl [f] via guards AccOr pos :: rest) fs (ms, ne) =
  enc_stmts ei rt rest fs (ms ++ nl_member term l, flag_after (nl_member term l) ne).
Proof.
  intros Hg Hv. rewrite enc_stmts_prop. cbn [path_get]. rewrite Hv.
  assert (Hgs : exists g, guards = [g] /\ nonval g = true /\
                 forall b, eval_guard fs b g = Some (match l with [] => false | _ => true end)).
  { destruct guards as [|[f'|f'|f'|f'|f'| |src] [|g2 gs]]; try discriminate; cbn [nl_guard_ok] in Hg;
      apply fid_beq_eq in Hg; subst f'; eexists; (split; [reflexivity|]); (split; [reflexivity|]);
      intros b; cbn [eval_guard]; rewrite Hv; destruct l; reflexivity. }
  destruct Hgs as [g [-> [Hnv Hev]]]. cbn [filter]. rewrite Hnv. cbn [eval_guards]. rewrite !Hev.
  destruct l as [|e l'].
  - cbn [nl_member]. rewrite app_nil_r. reflexivity.
  - cbn [nl_val]. change (write_value ei rt n_w_nl via term (Some (FNlv (Some (e :: l')))))
      with (Some (nl_key term (e :: l'), w_nlv (e :: l'), match w_nlv (e :: l') with [] => false | _ => true end)).
    cbv beta iota. rewrite Hev. cbn [apply_acc]. unfold nl_member. destruct (w_nlv (e :: l')) as [|c w]; [rewrite app_nil_r|]; reflexivity.
Qed.

(* the type: always written for a non-empty name *)
Lemma type_stmt ei rt acc pos rest fs ms ne ty : acc_sets acc = true -> ty <> [] ->
  getf F_Type fs = Some (Vocab.FStr ty) ->
  enc_stmts ei rt (WProp (B "type") n_w_prop [F_Type] n_via_type [GValNonEmpty] acc pos :: rest) fs (ms, ne) =
  enc_stmts ei rt rest fs (ms ++ [member (B "type") (w_quoted ty)], true).
Proof.
  intros Ha Hty Hv. rewrite enc_stmts_prop. cbn [filter nonval eval_guards path_get]. rewrite Hv.
  change (write_value ei rt n_w_prop n_via_type (B "type") (Some (Vocab.FStr ty)))
    with (Some (B "type", w_quoted ty, match w_quoted ty with [] => false | _ => true end)).
  destruct ty as [|t0 ty']; [congruence|]. cbn [w_quoted eval_guards eval_guard].
  destruct acc; try discriminate; reflexivity.
Qed.

Section Source.
  Variable tbl : list (bytes * bool * list wstmt).
  Hypothesis Hsrc : src5_ok tbl = true.

  Lemma drop_inert used fs ei rt : (forall f, used f = false -> getf f fs = None) ->
    forall stmts st, enc_stmts ei rt stmts fs st = enc_stmts ei rt (filter (fun s => negb (inert used s)) stmts) fs st.
  Proof.
    intros Hun. induction stmts as [|s r IH]; intros st; [reflexivity|].
    cbn [filter]. destruct (inert used s) eqn:E; cbn [negb].
    - rewrite (inert_skip used fs Hun ei rt s r st E). apply IH.
    - destruct st as [ms ne].
      destruct s as [term writer path via guards acc pos|on fn acc pos|src pos].
      + rewrite !enc_stmts_prop. destruct (eval_guards fs [x30] (filter nonval guards)) as [[|]|]; try reflexivity; [|apply IH].
        destruct (write_value ei rt writer via term (path_get path fs)) as [[[t' b] r']|]; [|reflexivity].
        destruct (eval_guards fs b guards) as [[|]|]; try reflexivity; [|apply IH].
        destruct (apply_acc acc r' ne); [apply IH|reflexivity].
      + rewrite !enc_stmts_deleg. destruct fn; [apply IH|]. destruct (rt (b :: fn) fs) as [[ms' r']|]; [|reflexivity].
        destruct (apply_acc acc r' ne); [apply IH|reflexivity].
      + reflexivity.
  Qed.

  (* Source.MarshalJSON of a Source that holds content only *)
  Lemma source_table d ei (l : nl) : l <> [] ->
    JsonEnc.run_table tbl (S d) ei (B "Source_MarshalJSON") (source_fields [] (Some l)) =
    Some (nl_member (B "content") l, flag_after (nl_member (B "content") l) false).
  Proof.
    intros Hl. unfold src5_ok in Hsrc. cbn [JsonEnc.run_table].
    destruct (jw_table tbl (B "Source_MarshalJSON")) as [[init stmts]|]; [|discriminate]. destruct init; [discriminate|].
    set (fs := source_fields [] (Some l)).
    assert (Hun : forall f, used_src f = false -> getf f fs = None).
    { intros f Hf. unfold fs, source_fields, used_src in *. cbn [app getf]. rewrite Hf. reflexivity. }
    rewrite (drop_inert used_src fs ei _ Hun).
    destruct (filter (fun s => negb (inert used_src s)) stmts) as [|s [|s2 r]]; try discriminate.
    destruct s as [term writer path via guards acc pos|on fn acc pos|src pos]; try discriminate. cbn [src_active] in Hsrc.
    destruct path as [|f [|f2 path]]; try discriminate.
    rewrite !andb_true_iff in Hsrc. destruct Hsrc as [[[[Hf Ht] Hw] Hg] Ha].
    apply fid_beq_eq in Hf. subst f. apply bytes_eqb_eq in Ht. subst term. apply bytes_eqb_eq in Hw. subst writer.
    destruct acc; try discriminate.
    rewrite (nl_stmt ei _ (B "content") F_Content via guards pos [] fs [] false l Hg).
    - reflexivity.
    - unfold fs, source_fields. destruct l; [congruence|]. reflexivity.
  Qed.

  (* the source property of an object *)
  Lemma source_stmt d ei via pos rest fs ms ne (l : nl) : getf F_Source fs = src_val l ->
    enc_stmts ei (JsonEnc.run_table tbl (S d) ei) (WProp (B "source") n_w_prop [F_Source] via [GValNonEmpty] AccOr pos :: rest) fs (ms, ne) =
    enc_stmts ei (JsonEnc.run_table tbl (S d) ei) rest fs (ms ++ src_member l, flag_after (src_member l) ne).
  Proof.
    intros Hv. rewrite enc_stmts_prop. cbn [filter nonval eval_guards path_get]. rewrite Hv.
    destruct l as [|e l'].
    - cbn [src_val]. change (write_value ei (JsonEnc.run_table tbl (S d) ei) n_w_prop via (B "source") None) with (Some (B "source", @nil byte, false)).
      cbn [eval_guards eval_guard src_member nl_member]. rewrite app_nil_r. reflexivity.
    - cbn [src_val].
      change (write_value ei (JsonEnc.run_table tbl (S d) ei) n_w_prop via (B "source") (Some (FSource [] (Some (e :: l')))))
        with (match JsonEnc.run_table tbl (S d) ei (B "Source_MarshalJSON") (source_fields [] (Some (e :: l'))) with
              | Some (ms0, ne0) => let b := if ne0 then x7b :: join_with comma ms0 ++ [x7d] else [] in
                                   Some (B "source", b, match b with [] => false | _ => true end)
              | None => None
              end).
      match goal with |- context [JsonEnc.run_table tbl (S d) ei ?n ?a] =>
        replace (JsonEnc.run_table tbl (S d) ei n a)
          with (Some (nl_member (B "content") (e :: l'), flag_after (nl_member (B "content") (e :: l')) false))
          by (symmetry; exact (source_table d ei (e :: l') ltac:(discriminate)))
      end. unfold src_member.
      destruct (nl_member (B "content") (e :: l')) as [|m0 ms0]; cbn [flag_after]; cbv zeta.
      + cbn [eval_guards eval_guard]. rewrite app_nil_r. reflexivity.
      + cbn [eval_guards eval_guard apply_acc orb]. reflexivity.
  Qed.
End Source.

(* ------------------------------------------------------------------ inversion of the statement classification *)
Ltac beq :=
  repeat match goal with
         | H : _ && _ = true |- _ => apply andb_true_iff in H; destruct H
         | H : bytes_eqb _ _ = true |- _ => apply bytes_eqb_eq in H; subst
         | H : fid_beq _ _ = true |- _ => apply fid_beq_eq in H; subst
         end.

Lemma active5_inv s a : active5 s = Some a ->
  match a with
  | A5Type => exists acc pos, s = WProp (B "type") n_w_prop [F_Type] n_via_type [GValNonEmpty] acc pos /\ acc_sets acc = true
  | A5Source => exists via pos, s = WProp (B "source") n_w_prop [F_Source] via [GValNonEmpty] AccOr pos
  | A5Nl p => p <> PSourceContent /\
              exists via guards pos, s = WProp (pos_term p) n_w_nl [pos_field p] via guards AccOr pos /\
                                     nl_guard_ok (pos_field p) guards = true
  end.
Proof.
  destruct s as [term writer path via guards acc pos|on fn acc pos|src pos]; cbn [active5]; try discriminate.
  destruct path as [|f [|f2 path]]; try discriminate.
  destruct (fid_beq f F_Type) eqn:E1.
  { apply fid_beq_eq in E1. subst f.
    destruct (bytes_eqb term (B "type") && bytes_eqb writer n_w_prop && bytes_eqb via n_via_type
              && match guards with [GValNonEmpty] => true | _ => false end && acc_sets acc) eqn:E; [|discriminate].
    intros H; injection H as <-. beq. destruct guards as [|[| | | | | |] [|g2 gs]]; try discriminate.
    eexists; eexists; split; [reflexivity|assumption]. }
  destruct (fid_beq f F_Source) eqn:E2.
  { apply fid_beq_eq in E2. subst f.
    destruct (bytes_eqb term (B "source") && bytes_eqb writer n_w_prop
              && match guards with [GValNonEmpty] => true | _ => false end && acc_keeps acc) eqn:E; [|discriminate].
    intros H; injection H as <-. beq. destruct guards as [|[| | | | | |] [|g2 gs]]; try discriminate.
    destruct acc; try discriminate. eexists; eexists; reflexivity. }
  destruct (bytes_eqb writer n_w_nl && nl_guard_ok f guards && acc_keeps acc) eqn:E; [|discriminate].
  apply andb_true_iff in E. destruct E as [E Ha]. apply andb_true_iff in E. destruct E as [Ew Eg].
  apply bytes_eqb_eq in Ew. subst writer. destruct acc; try discriminate.
  destruct (fid_beq f F_Name && bytes_eqb term (B "name")) eqn:N1.
  { intros H; injection H as <-. beq. split; [discriminate|]. eexists; eexists; eexists; split; [reflexivity|exact Eg]. }
  destruct (fid_beq f F_Summary && bytes_eqb term (B "summary")) eqn:N2.
  { intros H; injection H as <-. beq. split; [discriminate|]. eexists; eexists; eexists; split; [reflexivity|exact Eg]. }
  destruct (fid_beq f F_Content && bytes_eqb term (B "content")) eqn:N3.
  { intros H; injection H as <-. beq. split; [discriminate|]. eexists; eexists; eexists; split; [reflexivity|exact Eg]. }
  destruct (fid_beq f F_PreferredUsername && bytes_eqb term (B "preferredUsername")) eqn:N4; [|discriminate].
  intros H; injection H as <-. beq. split; [discriminate|]. eexists; eexists; eexists; split; [reflexivity|exact Eg].
Qed.

(* ------------------------------------------------------------------ the symbolic execution is sound *)
Section Sound.
  Variable tbl : list (bytes * bool * list wstmt).
  Hypothesis Hsrc : src5_ok tbl = true.
  Variable ei : item -> option bytes.
  Variable fs : list (fid * fval).
  Variable ty : bytes.
  Variable tx : texts.
  Hypothesis Hview : view5 fs ty tx.
  Hypothesis Hty : ty <> [].

  Notation mem := (mem5 ty tx).

  Definition sub_sound (d : nat) (sub : bytes -> option (list act5 * bool)) : Prop :=
    forall name acts t, sub name = Some (acts, t) ->
    exists ne, JsonEnc.run_table tbl d ei name fs = Some (flat_map mem acts, ne) /\ (t = true -> ne = true).

  Lemma stmts_sound d sub : sub_sound d sub -> forall l st st', sym_stmts d sub l st = Some st' ->
    forall ms ne, (snd st = true -> ne = true) ->
    exists acts' ne', fst st' = fst st ++ acts' /\
      enc_stmts ei (JsonEnc.run_table tbl d ei) l fs (ms, ne) = Some (ms ++ flat_map mem acts', ne') /\
      (snd st' = true -> ne' = true).
  Proof.
    intros Hsub. destruct Hview as (Vt & Vn & Vs & Vu).
    induction l as [|s r IH]; intros st st' Hsym ms ne Hne.
    - injection Hsym as <-. exists [], ne. cbn [flat_map]. rewrite !app_nil_r. split; [reflexivity|]. split; [reflexivity|exact Hne].
    - cbn [sym_stmts] in Hsym. destruct (inert in5 s) eqn:Ei.
      { rewrite (inert_skip in5 fs Vu ei _ s r (ms, ne) Ei). exact (IH st st' Hsym ms ne Hne). }
      destruct (active5 s) as [a|] eqn:Ea.
      + pose proof (active5_inv s a Ea) as Hinv. destruct a as [|p|].
        * (* the type *)
          destruct Hinv as (acc & pos & -> & Hacc).
          destruct (IH _ st' Hsym (ms ++ [member (B "type") (w_quoted ty)]) true (fun _ => eq_refl)) as (acts' & ne' & E1 & E2 & E3).
          exists (A5Type :: acts'), ne'. cbn [fst snd] in *. split; [rewrite E1, <- app_assoc; reflexivity|]. split; [|exact E3].
          rewrite (type_stmt ei _ acc pos r fs ms ne ty Hacc Hty Vt), E2. cbn [flat_map mem5]. rewrite <- app_assoc. reflexivity.
        * (* a text property *)
          destruct Hinv as (Hp & via & guards & pos & -> & Hg).
          assert (Hsym' : sym_stmts d sub r (fst st ++ [A5Nl p], snd st) = Some st') by (destruct d; exact Hsym).
          destruct (IH _ st' Hsym' (ms ++ nl_member (pos_term p) (tx p)) (flag_after (nl_member (pos_term p) (tx p)) ne)) as (acts' & ne' & E1 & E2 & E3).
          { cbn [snd]. intros H. rewrite (Hne H). destruct (nl_member (pos_term p) (tx p)); reflexivity. }
          exists (A5Nl p :: acts'), ne'. cbn [fst snd] in *. split; [rewrite E1, <- app_assoc; reflexivity|]. split; [|exact E3].
          rewrite (nl_stmt ei _ (pos_term p) (pos_field p) via guards pos r fs ms ne (tx p) Hg (Vn p Hp)), E2.
          cbn [flat_map mem5]. rewrite <- app_assoc. reflexivity.
        * (* the source *)
          destruct Hinv as (via & pos & ->). destruct d as [|d']; [discriminate|].
          destruct (IH _ st' Hsym (ms ++ src_member (tx PSourceContent)) (flag_after (src_member (tx PSourceContent)) ne)) as (acts' & ne' & E1 & E2 & E3).
          { cbn [snd]. intros H. rewrite (Hne H). destruct (src_member (tx PSourceContent)); reflexivity. }
          exists (A5Source :: acts'), ne'. cbn [fst snd] in *. split; [rewrite E1, <- app_assoc; reflexivity|]. split; [|exact E3].
          rewrite (source_stmt tbl Hsrc d' ei via pos r fs ms ne (tx PSourceContent) Vs), E2.
          cbn [flat_map mem5]. rewrite <- app_assoc. reflexivity.
      + (* a delegation *)
        destruct s as [term writer path via guards acc pos|on fn acc pos|src pos]; try discriminate.
        destruct fn as [|f0 fn]; [discriminate|].
        destruct (sub (f0 :: fn)) as [[acts t]|] eqn:Es; [|discriminate].
        destruct (Hsub _ _ _ Es) as (ne0 & Er & Et).
        rewrite enc_stmts_deleg, Er.
        destruct acc; try discriminate.
        * destruct (IH _ st' Hsym (ms ++ flat_map mem acts) (ne0 || ne)) as (acts' & ne' & E1 & E2 & E3).
          { cbn [snd]. intros H. apply orb_true_iff in H. destruct H as [H|H]; [rewrite (Hne H); apply orb_true_r|rewrite (Et H); reflexivity]. }
          exists (acts ++ acts'), ne'. cbn [fst snd apply_acc] in *. split; [rewrite E1, <- app_assoc; reflexivity|]. split; [|exact E3].
          rewrite E2, flat_map_app, <- app_assoc. reflexivity.
        * destruct (IH _ st' Hsym (ms ++ flat_map mem acts) ne0) as (acts' & ne' & E1 & E2 & E3).
          { cbn [snd]. exact Et. }
          exists (acts ++ acts'), ne'. cbn [fst snd apply_acc] in *. split; [rewrite E1, <- app_assoc; reflexivity|]. split; [|exact E3].
          rewrite E2, flat_map_app, <- app_assoc. reflexivity.
  Qed.

  Lemma table_sound : forall d, sub_sound d (sym_table tbl d).
  Proof.
    induction d as [|d IH]; intros name acts t H; [discriminate|].
    cbn [sym_table] in H. cbn [JsonEnc.run_table].
    destruct (jw_table tbl name) as [[init stmts]|]; [|discriminate].
    destruct (stmts_sound d (sym_table tbl d) IH stmts ([], init) (acts, t) H [] init (fun e => e)) as (acts' & ne' & E1 & E2 & E3).
    cbn [fst snd app] in *. subst acts'. exists ne'. split; [exact E2|exact E3].
  Qed.
End Sound.

(* ------------------------------------------------------------------ what the encoder model writes *)
Lemma same_posb_eq p q : same_posb p q = true -> p = q.
Proof. destruct p, q; simpl; intros H; try discriminate; reflexivity. Qed.
Lemma act5_eqb_eq a b : act5_eqb a b = true -> a = b.
Proof. destruct a, b; simpl; intros H; try discriminate; try reflexivity. f_equal. now apply same_posb_eq. Qed.
Lemma acts_eqb_eq a : forall b, acts_eqb a b = true -> a = b.
Proof.
  induction a as [|x a IH]; destruct b as [|y b]; simpl; intros H; try discriminate; [reflexivity|].
  apply andb_true_iff in H. destruct H as [H1 H2]. f_equal; [now apply act5_eqb_eq|now apply IH].
Qed.

Definition members5 (ty : bytes) (tx : texts) (pu : bool) : list bytes := flat_map (mem5 ty tx) (acts5 pu).

Theorem enc5_members tbl k pu fs ty tx pt : kind5_w_ok tbl k pu = true -> view5 fs ty tx -> ty <> [] ->
  marshal_json tbl (IObj pt k fs) = Some (x7b :: join_with comma (members5 ty tx pu) ++ [x7d]).
Proof.
  intros Hk Hv Hty. unfold kind5_w_ok in Hk. apply andb_true_iff in Hk. destruct Hk as [Hsrc Hk].
  destruct (sym_table tbl 6 (marshal_table k)) as [[acts t]|] eqn:Es; [|discriminate]. destruct t; [|discriminate].
  apply acts_eqb_eq in Hk. subst acts.
  unfold marshal_json. cbn [enc_item].
  destruct (table_sound tbl Hsrc (enc_item tbl (item_size (IObj pt k fs))) fs ty tx Hv Hty 6 _ _ _ Es) as (ne & Er & Et).
  rewrite Er, (Et eq_refl). reflexivity.
Qed.

(* ------------------------------------------------------------------ what the five-position writer writes *)
Definition good (m : bytes) : Prop := exists b c, m = b ++ [c] /\ c <> bCM.
Definition buf (ms : list bytes) : bytes := bLB :: join_with comma ms.

Lemma join_cons2 x y r : join_with comma (x :: y :: r) = x ++ comma ++ join_with comma (y :: r).
Proof. reflexivity. Qed.

Lemma join_snoc : forall ms m, ms <> [] -> join_with comma (ms ++ [m]) = join_with comma ms ++ comma ++ m.
Proof.
  induction ms as [|x [|y r] IH]; intros m H; [congruence|reflexivity|].
  change ((x :: y :: r) ++ [m]) with (x :: y :: (r ++ [m])). rewrite !join_cons2.
  change (y :: r ++ [m]) with ((y :: r) ++ [m]). rewrite IH by discriminate. rewrite <- !app_assoc. reflexivity.
Qed.

Lemma join_good : forall ms, ms <> [] -> Forall good ms -> good (join_with comma ms).
Proof.
  induction ms as [|x [|y r] IH]; intros H Hg; [congruence|inversion Hg; assumption|].
  inversion Hg as [|? ? Hx Hr]; subst. destruct (IH ltac:(discriminate) Hr) as (b & c & E & Hc).
  rewrite join_cons2, E. exists (x ++ comma ++ b), c. split; [rewrite <- !app_assoc; reflexivity|exact Hc].
Qed.

Lemma member_eq name val : member name val = bQ :: name ++ [bQ; bCO] ++ val.
Proof. reflexivity. Qed.

Lemma good_member name val : good val -> good (member name val).
Proof.
  intros (b & c & -> & Hc). exists (bQ :: name ++ [bQ; bCO] ++ b), c. split; [|exact Hc].
  rewrite member_eq. cbn [app]. rewrite <- !app_assoc. reflexivity.
Qed.

Lemma wp_buf ms name val : ms <> [] -> Forall good ms -> name <> [] -> val <> [] ->
  json_write_prop (buf ms) name val = (buf (ms ++ [member name val]), true).
Proof.
  intros Hms Hg Hn Hv. destruct (join_good ms Hms Hg) as (b & c & E & Hc).
  unfold buf. rewrite E. change (bLB :: b ++ [c]) with ((bLB :: b) ++ [c]).
  rewrite (json_write_prop_next (bLB :: b) c name val) by (try assumption; simpl; lia).
  rewrite (join_snoc ms _ Hms), E, member_eq. cbn [app]. rewrite <- !app_assoc. reflexivity.
Qed.

Lemma wp_first name val : name <> [] -> val <> [] -> json_write_prop [bLB] name val = (buf [member name val], true).
Proof. intros Hn Hv. rewrite (json_write_prop_first name val Hn Hv). reflexivity. Qed.

(* the values *)
Lemma w_nlv_good l : match w_nlv l with [] => True | v => good v end.
Proof.
  unfold w_nlv, w_nlv_gen. destruct l as [|e l]; [exact I|].
  assert (Hmap : forall parts : list bytes,
            match (match parts with [] => [] | _ => x7b :: join_with comma parts ++ [x7d] end) with [] => True | v => good v end).
  { intros [|p ps]; [exact I|]. exists (x7b :: join_with comma (p :: ps)), x7d. split; [reflexivity|discriminate]. }
  destruct e as [r v]. destruct l as [|e2 l].
  - destruct v as [|v0 v]; [apply Hmap|].
    unfold JsonLeaf.string_bytes. exists (dquote :: string_bytes_go (S (length (v0 :: v))) false (v0 :: v)), dquote.
    split; [reflexivity|discriminate].
  - destruct v; apply Hmap.
Qed.

Lemma plain_no_bsq s : forallb safe_ascii s = true -> no_bsq s = true.
Proof.
  induction s as [|x [|y r] IH]; intros H; [reflexivity|reflexivity|].
  change (no_bsq (x :: y :: r)) with (negb (Byte.eqb x bslash && Byte.eqb y dquote) && no_bsq (y :: r)).
  cbn [forallb] in H. apply andb_true_iff in H. destruct H as [Hx Hr]. rewrite (IH Hr), andb_true_r.
  unfold safe_ascii in Hx. rewrite !andb_true_iff, !negb_true_iff in Hx. destruct Hx as [_ Hb].
  change bslash with bBS. rewrite Hb. reflexivity.
Qed.

Lemma w_quoted_plain ty : plain_name ty -> ty <> [] -> w_quoted ty = bQ :: ty ++ [bQ].
Proof.
  intros Hp Hne. destruct ty as [|t0 ty']; [congruence|]. unfold w_quoted.
  rewrite (escape_quote_plain _ (plain_no_bsq _ Hp)), (sbody_plain _ Hp). reflexivity.
Qed.

Lemma nl_key_nonempty p l : nl_key (pos_term p) l <> [].
Proof. unfold nl_key. destruct (Nat.ltb 1 (length l)); destruct p; discriminate. Qed.

Lemma good_nl_member term l : Forall good (nl_member term l).
Proof.
  unfold nl_member. destruct l as [|e l]; [constructor|]. pose proof (w_nlv_good (e :: l)) as H.
  destruct (w_nlv (e :: l)) as [|c w]; [constructor|]. constructor; [apply good_member, H|constructor].
Qed.

Lemma good_src_member l : Forall good (src_member l).
Proof.
  unfold src_member. destruct (nl_member (B "content") l) as [|m ms]; [constructor|].
  constructor; [|constructor]. apply good_member. exists (x7b :: join_with comma (m :: ms)), x7d. split; [reflexivity|discriminate].
Qed.

(* one text position *)
Lemma write_nl_step_buf tx p ms : ms <> [] -> Forall good ms ->
  write_nl_step nlv_marshal tx p (buf ms) = buf (ms ++ nl_member (pos_term p) (tx p)).
Proof.
  intros Hms Hg. unfold write_nl_step, nl_member. destruct (tx p) as [|e l] eqn:E; [rewrite app_nil_r; reflexivity|].
  unfold json_write_nl_prop_gen. rewrite nlv_marshal_w_nlv.
  change (if Nat.ltb 1 (length (e :: l)) then pos_term p ++ B "Map" else pos_term p) with (nl_key (pos_term p) (e :: l)).
  destruct (w_nlv (e :: l)) as [|c w]; [rewrite app_nil_r; reflexivity|]. cbn [optb].
  rewrite (wp_buf ms _ (c :: w) Hms Hg (nl_key_nonempty p (e :: l))) by discriminate. reflexivity.
Qed.

(* the source *)
Lemma write_source_buf (l : nl) ms : ms <> [] -> Forall good ms ->
  match source_marshal_gen nlv_marshal l with
  | Some v => fst (json_write_prop (buf ms) (B "source") v)
  | None => buf ms
  end = buf (ms ++ src_member l).
Proof.
  intros Hms Hg. unfold source_marshal_gen, src_member, nl_member. destruct l as [|e l]; [rewrite app_nil_r; reflexivity|].
  unfold json_write_nl_prop_gen. rewrite nlv_marshal_w_nlv.
  change (if Nat.ltb 1 (length (e :: l)) then B "content" ++ B "Map" else B "content") with (nl_key (B "content") (e :: l)).
  destruct (w_nlv (e :: l)) as [|c w]; [rewrite app_nil_r; reflexivity|]. cbn [optb].
  rewrite (wp_first (nl_key (B "content") (e :: l)) (c :: w)) by (try discriminate; unfold nl_key; destruct (Nat.ltb 1 (length (e :: l))); discriminate).
  cbv iota beta.
  rewrite (wp_buf ms (B "source") _ Hms Hg) by discriminate. reflexivity.
Qed.

Theorem doc5_members ty tx : plain_name ty -> ty <> [] ->
  doc_encode5 ty tx = x7b :: join_with comma (members5 ty tx true) ++ [x7d].
Proof.
  intros Hp Hne. unfold doc_encode5, doc_encode5_gen. cbv zeta.
  rewrite <- (w_quoted_plain ty Hp Hne).
  assert (Hq : w_quoted ty <> []) by (rewrite (w_quoted_plain ty Hp Hne); discriminate).
  rewrite (wp_first (B "type") (w_quoted ty)) by (try discriminate; exact Hq). cbn [fst].
  assert (G0 : Forall good [member (B "type") (w_quoted ty)]).
  { constructor; [|constructor]. apply good_member. rewrite (w_quoted_plain ty Hp Hne). exists (bQ :: ty), bQ. split; [reflexivity|discriminate]. }
  set (m0 := [member (B "type") (w_quoted ty)]) in *.
  rewrite (write_nl_step_buf tx PName m0) by (try discriminate; exact G0).
  assert (G1 : Forall good (m0 ++ nl_member (pos_term PName) (tx PName))) by (apply Forall_app; split; [exact G0|apply good_nl_member]).
  rewrite (write_nl_step_buf tx PSummary) by (try exact G1; unfold m0; discriminate).
  assert (G2 : Forall good ((m0 ++ nl_member (pos_term PName) (tx PName)) ++ nl_member (pos_term PSummary) (tx PSummary)))
    by (apply Forall_app; split; [exact G1|apply good_nl_member]).
  rewrite (write_nl_step_buf tx PContent) by (try exact G2; unfold m0; discriminate).
  assert (G3 : Forall good (((m0 ++ nl_member (pos_term PName) (tx PName)) ++ nl_member (pos_term PSummary) (tx PSummary))
                              ++ nl_member (pos_term PContent) (tx PContent)))
    by (apply Forall_app; split; [exact G2|apply good_nl_member]).
  rewrite (write_source_buf (tx PSourceContent)) by (try exact G3; unfold m0; discriminate).
  assert (G4 : Forall good ((((m0 ++ nl_member (pos_term PName) (tx PName)) ++ nl_member (pos_term PSummary) (tx PSummary))
                              ++ nl_member (pos_term PContent) (tx PContent)) ++ src_member (tx PSourceContent)))
    by (apply Forall_app; split; [exact G3|apply good_src_member]).
  rewrite (write_nl_step_buf tx PPreferredUsername) by (try exact G4; unfold m0; discriminate).
  unfold buf, members5, acts5, m0. cbn [flat_map mem5 app]. rewrite !app_nil_r, <- !app_assoc. reflexivity.
Qed.

Lemma members5_no_pu ty tx : tx PPreferredUsername = [] -> members5 ty tx false = members5 ty tx true.
Proof.
  intros H. unfold members5, acts5. rewrite !flat_map_app. f_equal. cbn [flat_map mem5]. rewrite H. reflexivity.
Qed.

(* THE WRITER TIE: on every five-position value the whole-value encoder model writes exactly the bytes of the
   five-position writer - all texts, all tags *)
Theorem enc_is_doc_encode5 tbl k pu fs ty tx pt :
  kind5_w_ok tbl k pu = true -> view5 fs ty tx -> plain_name ty -> ty <> [] ->
  (pu = false -> tx PPreferredUsername = []) ->
  marshal_json tbl (IObj pt k fs) = Some (doc_encode5 ty tx).
Proof.
  intros Hk Hv Hp Hne Hpu. rewrite (enc5_members tbl k pu fs ty tx pt Hk Hv Hne), (doc5_members ty tx Hp Hne).
  destruct pu; [reflexivity|]. rewrite (members5_no_pu ty tx (Hpu eq_refl)). reflexivity.
Qed.

(* ------------------------------------------------------------------ the boolean shape gives the view *)
Lemma getf_in f v : forall fs, getf f fs = Some v -> In (f, v) fs.
Proof.
  induction fs as [|[g w] r IH]; cbn [getf]; [discriminate|].
  destruct (fid_beq f g) eqn:E; [|intros H; right; apply IH, H].
  apply fid_beq_eq in E. subst g. intros H; injection H as ->. left; reflexivity.
Qed.

Lemma getf_exists f : forall fs, existsb (fun p : fid * fval => fid_beq (fst p) f) fs = true -> exists v, getf f fs = Some v.
Proof.
  induction fs as [|[g w] r IH]; cbn [existsb getf fst]; [discriminate|].
  destruct (fid_beq g f) eqn:E.
  - apply fid_beq_eq in E. subst g. rewrite fid_beq_refl. eauto.
  - cbn [orb]. intros H. destruct (fid_beq f g); eauto.
Qed.

Lemma fval5_ok_cases f v : fval5_ok f v = true ->
  (exists s, v = Vocab.FStr s /\ f = F_Type /\ plain_nameb s = true /\ s <> []) \/
  (exists e l, v = FNlv (Some (e :: l)) /\ (f = F_Name \/ f = F_Summary \/ f = F_Content \/ f = F_PreferredUsername)) \/
  (exists e l, v = FSource [] (Some (e :: l)) /\ f = F_Source).
Proof.
  destruct v as [i|l|c|s|t|d|n|z|b|m|mt c|e|a b c]; cbn [fval5_ok]; try discriminate.
  - destruct c as [[|e l]|]; try discriminate. rewrite !orb_true_iff. intros H. right; left. exists e, l. split; [reflexivity|].
    destruct H as [[[H|H]|H]|H]; apply fid_beq_eq in H; tauto.
  - rewrite !andb_true_iff. intros [[H1 H2] H3]. left. exists s. apply fid_beq_eq in H1.
    repeat split; try assumption. destruct s; discriminate.
  - destruct mt; [|discriminate]. destruct c as [[|e l]|]; try discriminate. intros H. right; right. exists e, l.
    apply fid_beq_eq in H. split; [reflexivity|exact H].
Qed.

Lemma shape5_view fs : shape5_fields fs = true ->
  view5 fs (ty5 fs) (tx5 fs) /\ plain_name (ty5 fs) /\ ty5 fs <> [].
Proof.
  unfold shape5_fields. rewrite !andb_true_iff. intros [[Hall _] Hty]. rewrite forallb_forall in Hall.
  assert (Hok : forall f v, getf f fs = Some v -> fval5_ok f v = true).
  { intros f v H. exact (Hall (f, v) (getf_in f v fs H)). }
  destruct (getf_exists F_Type fs Hty) as [vt Ht].
  destruct (fval5_ok_cases _ _ (Hok _ _ Ht)) as [(s & -> & _ & Hp & Hn)|[(e & l & _ & H)|(e & l & _ & H)]];
    [|destruct H as [H|[H|[H|H]]]; discriminate H|discriminate H].
  assert (Ety : ty5 fs = s) by (unfold ty5, get_str; rewrite Ht; reflexivity).
  rewrite Ety. split; [|split; [exact Hp|exact Hn]].
  split; [exact Ht|]. split; [|split].
  - intros p Hpn. unfold tx5. destruct (getf (pos_field p) fs) as [v|] eqn:G; [|reflexivity].
    destruct (fval5_ok_cases _ _ (Hok _ _ G)) as [(s' & -> & H & _)|[(e & l & -> & _)|(e & l & -> & H)]].
    + destruct p; discriminate H.
    + reflexivity.
    + destruct p; try discriminate H. congruence.
  - unfold tx5. cbn [pos_field]. destruct (getf F_Source fs) as [v|] eqn:G; [|reflexivity].
    destruct (fval5_ok_cases _ _ (Hok _ _ G)) as [(s' & -> & H & _)|[(e & l & -> & H)|(e & l & -> & _)]].
    + discriminate H.
    + destruct H as [H|[H|[H|H]]]; discriminate H.
    + reflexivity.
  - intros f Hf. destruct (getf f fs) as [v|] eqn:G; [|reflexivity]. exfalso.
    assert (Hin : in5 f = true).
    { destruct (fval5_ok_cases _ _ (Hok _ _ G)) as [(s' & _ & -> & _)|[(e & l & _ & H)|(e & l & _ & ->)]]; try reflexivity.
      destruct H as [H|[H|[H|H]]]; subst f; reflexivity. }
    congruence.
Qed.

(* the decidable form of C06's text domain *)
Lemma tags_distinct_nodup l : tags_distinct l = true -> NoDup l.
Proof.
  induction l as [|x r IH]; intros H; constructor; cbn [tags_distinct] in H; apply andb_true_iff in H; destruct H as [H1 H2].
  - intros Hin. apply negb_true_iff in H1. assert (existsb (bytes_eqb x) r = true); [|congruence].
    apply existsb_exists. exists x. split; [exact Hin|apply bytes_eqb_refl].
  - apply IH, H2.
Qed.

Lemma ok_entryb_ok e : ok_entryb e = true -> ok_entry e.
Proof.
  unfold ok_entryb, ok_entry, valid_utf8. rewrite !andb_true_iff, !negb_true_iff. intros [[[H1 H2] H3] H4].
  repeat split; try assumption; intros E; rewrite E in *; discriminate.
Qed.

Lemma ok_textb_ok l : ok_textb l = true -> ok_text l.
Proof.
  unfold ok_textb, ok_text. destruct l as [|[r t] [|e2 l]]; intros H.
  - left; reflexivity.
  - right; left. apply andb_true_iff in H. destruct H as [H1 H2]. exists r, t. repeat split; [exact H1|]. destruct t; [discriminate|discriminate].
  - right; right. apply andb_true_iff in H. destruct H as [H1 H2]. split; [simpl; lia|]. split.
    + apply Forall_forall. intros e He. rewrite forallb_forall in H1. apply ok_entryb_ok, H1, He.
    + apply tags_distinct_nodup, H2.
Qed.

Lemma texts5_ok_all tx : texts5_ok tx = true -> forall p, ok_text (tx p).
Proof.
  unfold texts5_ok, all_pos. cbn [forallb]. rewrite !andb_true_iff. intros (H1 & H2 & H3 & H4 & H5 & _) p.
  apply ok_textb_ok. destruct p; assumption.
Qed.

(* THE WRITER TIE on items: every value of the shape is written as the five-position document of its type and texts *)
Theorem enc_shape5 tbl x : shape5 tbl x = true ->
  match x with
  | IObj _ _ fs => marshal_json tbl x = Some (doc_encode5 (ty5 fs) (tx5 fs))
  | _ => False
  end.
Proof.
  destruct x as [| | |pt k fs| |]; try discriminate. cbn [shape5]. rewrite andb_true_iff. intros [Hs Hk].
  destruct (shape5_view fs Hs) as (Hv & Hp & Hn).
  unfold kind5_pu in Hk.
  destruct (kind5_w_ok tbl k true) eqn:K1.
  - apply (enc_is_doc_encode5 tbl k true fs _ _ pt K1 Hv Hp Hn). discriminate.
  - destruct (kind5_w_ok tbl k false) eqn:K2; [|discriminate].
    apply (enc_is_doc_encode5 tbl k false fs _ _ pt K2 Hv Hp Hn). intros _.
    unfold tx5. cbn [pos_field]. destruct (getf F_PreferredUsername fs); [discriminate|reflexivity].
Qed.
