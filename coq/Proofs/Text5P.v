(* Lemmas for the actor document with all text positions at once (Model/Text5.v, property C06): the
   per-member theorems of TextP.v composed through the fact that Object.Get only sees the members of the
   name it is asked for. *)
From AP.Model Require Import Prelude Nlv Text Text5.
From AP.Proofs Require Import NlvP TextP.

Local Arguments pm : simpl never.
Local Arguments string_bytes : simpl never.
Local Arguments jprint : simpl never.

(* ------------------------------------------------------------------ the writer *)
Lemma pm_app pr : forall ms ms2 first,
  pm pr first (ms ++ ms2) = pm pr first ms ++ pm pr (first && match ms with [] => true | _ => false end) ms2.
Proof.
  induction ms as [|kv r IH]; intros ms2 first.
  - simpl app. rewrite andb_true_r. reflexivity.
  - simpl app. rewrite !pm_cons, (IH ms2 false). rewrite andb_false_r.
    destruct r; simpl andb; lnorm; reflexivity.
Qed.

Lemma jprint_last j : exists b c, jprint j = b ++ [c] /\ c <> bCM.
Proof.
  destruct j as [t|ms].
  - rewrite jprint_JS, string_bytes_head. exists (bQ :: sbody false t), bQ. split; [reflexivity|discriminate].
  - rewrite jprint_JO. exists (bLB :: pm jprint true ms), bRB. split; [reflexivity|discriminate].
Qed.

Lemma pm_last ms : ms <> [] -> exists b c, pm jprint true ms = b ++ [c] /\ c <> bCM.
Proof.
  intros H. destruct (exists_last H) as [ms' [kv ->]].
  rewrite pm_app. destruct (jprint_last (snd kv)) as [b [c [E Hc]]].
  exists (pm jprint true ms' ++ (if (true && match ms' with [] => true | _ => false end)%bool then [] else [bCM])
          ++ string_bytes (fst kv) ++ bCO :: b), c.
  split; [|exact Hc]. rewrite pm_cons. change (pm jprint false []) with (@nil byte). rewrite E. lnorm. reflexivity.
Qed.

Lemma jprint_nonempty j : jprint j <> [].
Proof. destruct j; [rewrite jprint_JS; apply string_bytes_nonempty|rewrite jprint_JO; discriminate]. Qed.

(* one more member behind a non-empty member list *)
Lemma write_member ms key j : ms <> [] -> key <> [] -> string_bytes key = bQ :: key ++ [bQ] ->
  fst (json_write_prop (bLB :: pm jprint true ms) key (jprint j)) = bLB :: pm jprint true (ms ++ [(key, j)]).
Proof.
  intros Hms Hk Hs. destruct (pm_last ms Hms) as [b [c [E Hc]]]. rewrite E.
  change (bLB :: b ++ [c]) with ((bLB :: b) ++ [c]).
  rewrite json_write_prop_next; [|simpl; lia|exact Hc|exact Hk|apply jprint_nonempty].
  cbn [fst]. rewrite pm_app, E. destruct ms as [|m0 ms0]; [congruence|]. simpl andb.
  rewrite pm_cons. change (pm jprint false []) with (@nil byte). cbn [fst snd]. rewrite Hs. lnorm. rewrite ?app_nil_r. reflexivity.
Qed.

Lemma entry_tree_map l : map (fun e : lrv => (fst e, JS (snd e))) l = map entry_tree l.
Proof. reflexivity. Qed.

Lemma nlv_marshal_tree l : ok_text l -> l <> [] -> nlv_marshal l = Some (jprint (text_tree l)).
Proof.
  intros [->|[[r [t [-> [Hv Ht]]]]|[Hlen [Hok Hnd]]]] Hne; [congruence| |].
  - exact (nlv_marshal_single r t Ht).
  - apply (wkeys_nodup l Hok) in Hnd. destruct l as [|e1 [|e2 l]]; try (simpl in Hlen; lia).
    rewrite (nlv_marshal_multi e1 e2 l Hok Hnd). destruct e1; reflexivity.
Qed.

Lemma write_nl_step_tree tx p ms : ms <> [] -> ok_text (tx p) -> p <> PSourceContent ->
  write_nl_step nlv_marshal tx p (bLB :: pm jprint true ms) = bLB :: pm jprint true (ms ++ member5 tx p).
Proof.
  intros Hms Hok Hp. unfold write_nl_step, member5. destruct (tx p) as [|e l] eqn:E.
  - rewrite app_nil_r. reflexivity.
  - unfold json_write_nl_prop_gen. rewrite (nlv_marshal_tree (e :: l) Hok) by discriminate.
    pose proof (jprint_nonempty (text_tree (e :: l))) as Hne.
    destruct (jprint (text_tree (e :: l))) as [|v0 v] eqn:Ej; [congruence|]. rewrite <- Ej.
    change (if Nat.ltb 1 (length (e :: l)) then pos_term p ++ B "Map" else pos_term p) with (text_key p (e :: l)).
    rewrite (write_member ms (text_key p (e :: l)) (text_tree (e :: l)) Hms (text_key_nonempty _ _) (string_bytes_text_key _ _)).
    destruct p; try reflexivity. congruence.
Qed.

Lemma source_marshal_tree l : ok_text l -> l <> [] ->
  source_marshal_gen nlv_marshal l = Some (jprint (JO [(text_key PSourceContent l, text_tree l)])).
Proof.
  intros Hok Hne. unfold source_marshal_gen. destruct l as [|e l]; [congruence|].
  rewrite (write_nl_prop_gen_first nlv_marshal (B "content") (e :: l) (jprint (text_tree (e :: l))));
    [|discriminate|apply nlv_marshal_tree; assumption|apply jprint_nonempty].
  cbn [fst snd]. rewrite jprint_JO, pm_cons. change (pm jprint false []) with (@nil byte). cbn [fst snd].
  rewrite (string_bytes_text_key PSourceContent (e :: l)). unfold text_key. cbn [pos_term]. lnorm. reflexivity.
Qed.

Lemma write_source_tree tx ms : ms <> [] -> ok_text (tx PSourceContent) ->
  match source_marshal_gen nlv_marshal (tx PSourceContent) with
  | Some v => fst (json_write_prop (bLB :: pm jprint true ms) (B "source") v)
  | None => bLB :: pm jprint true ms
  end = bLB :: pm jprint true (ms ++ member5 tx PSourceContent).
Proof.
  intros Hms Hok. unfold member5. destruct (tx PSourceContent) as [|e l] eqn:E.
  - rewrite app_nil_r. reflexivity.
  - rewrite (source_marshal_tree (e :: l) Hok) by discriminate.
    apply write_member; [exact Hms|discriminate|reflexivity].
Qed.

(* the writer prints the tree *)
Lemma doc_encode5_tree ty tx : plain_name ty -> (forall p, ok_text (tx p)) ->
  doc_encode5 ty tx = jprint (doc_tree5 ty tx).
Proof.
  intros Hty Hok. unfold doc_encode5, doc_encode5_gen, doc_tree5. cbv zeta.
  rewrite json_write_prop_first by discriminate. cbn [fst].
  assert (E0 : bLB :: bQ :: B "type" ++ [bQ; bCO] ++ bQ :: ty ++ [bQ] = bLB :: pm jprint true [(B "type", JS ty)]).
  { rewrite pm_cons. change (pm jprint false []) with (@nil byte). cbn [fst snd].
    rewrite jprint_JS, string_bytes_type, (string_bytes_plain ty Hty). lnorm. reflexivity. }
  rewrite E0.
  rewrite (write_nl_step_tree tx PName) by (discriminate || apply Hok).
  rewrite (write_nl_step_tree tx PSummary) by (try apply Hok; try discriminate; destruct (member5 tx PName); discriminate).
  rewrite (write_nl_step_tree tx PContent) by (try apply Hok; try discriminate; destruct (member5 tx PName); discriminate).
  rewrite (write_source_tree tx) by (try apply Hok; destruct (member5 tx PName); discriminate).
  rewrite (write_nl_step_tree tx PPreferredUsername) by (try apply Hok; try discriminate; destruct (member5 tx PName); discriminate).
  rewrite jprint_JO. lnorm. reflexivity.
Qed.

(* ------------------------------------------------------------------ the reader *)
(* Object.Get only sees the members whose (unescaped) name is the one it is asked for *)
Lemma find_key_filter f (P : bytes -> bool) kvs key : (forall k, f k = key -> P k = true) ->
  find_key f (filter (fun kv : bytes * fjv => P (fst kv)) kvs) key = find_key f kvs key.
Proof.
  intros H. induction kvs as [|[k v] r IH]; [reflexivity|]. cbn [filter fst].
  destruct (P k) eqn:E; cbn [find_key]; destruct (bytes_eqb (f k) key) eqn:E2; try reflexivity; try exact IH.
  apply bytes_eqb_eq in E2. rewrite (H k E2) in E. discriminate.
Qed.

Lemma bs_free_unescape k : has_bs k = false -> fj_unescape k = k.
Proof.
  unfold has_bs. induction k as [|c r IH]; intros H; [reflexivity|].
  simpl in H. apply orb_false_iff in H. destruct H as [Hc Hr].
  assert (Hc' : Byte.eqb c bBS = false).
  { destruct (Byte.eqb c bBS) eqn:E; [|reflexivity]. apply beqb_eq in E. subst c. rewrite beqb_refl in Hc. discriminate. }
  cbn [fj_unescape]. rewrite Hc'. simpl. rewrite (IH Hr). reflexivity.
Qed.

Lemma fj_get_filter ku (P : bytes -> bool) kvs key : (forall k, fj_unescape k = key -> P k = true) ->
  fj_get ku (FObj (filter (fun kv : bytes * fjv => P (fst kv)) kvs)) key = fj_get ku (FObj kvs) key.
Proof.
  intros H. unfold fj_get. rewrite (find_key_filter fj_unescape P kvs key H).
  destruct (negb ku && negb (has_bs key)) eqn:E; [|reflexivity].
  apply andb_true_iff in E. destruct E as [_ Hb]. apply negb_true_iff in Hb.
  rewrite (find_key_filter (fun k => k) P kvs key); [reflexivity|].
  intros k <-. apply H. apply bs_free_unescape, Hb.
Qed.

Lemma fj_get_ku_filter ku (P : bytes -> bool) kvs key : (forall k, fj_unescape k = key -> P k = true) ->
  fj_get_ku ku (FObj (filter (fun kv : bytes * fjv => P (fst kv)) kvs)) key = fj_get_ku ku (FObj kvs) key.
Proof.
  intros H. unfold fj_get_ku. destruct (negb ku && negb (has_bs key)) eqn:E; [|reflexivity].
  apply andb_true_iff in E. destruct E as [_ Hb]. apply negb_true_iff in Hb.
  rewrite (find_key_filter (fun k => k) P kvs key); [reflexivity|].
  intros k <-. apply H. apply bs_free_unescape, Hb.
Qed.

Definition nl_names (prop k : bytes) : bool :=
  bytes_eqb (fj_unescape k) prop || bytes_eqb (fj_unescape k) (prop ++ B "Map").

Lemma get_nl_field_filter ku kvs prop :
  get_nl_field ku (FObj (filter (fun kv : bytes * fjv => nl_names prop (fst kv)) kvs)) prop = get_nl_field ku (FObj kvs) prop.
Proof.
  assert (H1 : forall k, fj_unescape k = prop -> nl_names prop k = true).
  { intros k E. unfold nl_names. rewrite E, bytes_eqb_refl. reflexivity. }
  assert (H2 : forall k, fj_unescape k = prop ++ B "Map" -> nl_names prop k = true).
  { intros k E. unfold nl_names. rewrite E, bytes_eqb_refl. apply orb_true_r. }
  unfold get_nl_field.
  rewrite (fj_get_filter ku _ kvs prop H1), (fj_get_ku_filter ku _ kvs prop H1), (fj_get_filter _ _ kvs (prop ++ B "Map") H2).
  reflexivity.
Qed.

(* the members of the document, parsed *)
Definition mem5 (tx : texts) (p : pos) : list (bytes * fjv) := map ofkv (member5 tx p).

Lemma fj_of_doc5 ty tx : fj_of (doc_tree5 ty tx) =
  FObj ((sbody false (B "type"), FStr (sbody false ty)) :: mem5 tx PName ++ mem5 tx PSummary ++ mem5 tx PContent
          ++ mem5 tx PSourceContent ++ mem5 tx PPreferredUsername).
Proof. unfold doc_tree5, mem5. cbn [fj_of map]. rewrite !map_app. reflexivity. Qed.

Definition same_pos (p q : pos) : bool :=
  match p, q with
  | PName, PName | PSummary, PSummary | PContent, PContent | PPreferredUsername, PPreferredUsername
  | PSourceContent, PSourceContent => true
  | _, _ => false
  end.

(* which members the lookups for position p see *)
Definition sees (p : pos) (k : bytes) : bool :=
  match p with
  | PSourceContent => bytes_eqb (fj_unescape k) (B "source")
  | _ => nl_names (pos_term p) k
  end.

Lemma sees_member tx p q :
  filter (fun kv : bytes * fjv => sees p (fst kv)) (mem5 tx q) = if same_pos p q then mem5 tx q else [].
Proof.
  unfold mem5, member5. destruct (tx q) as [|e1 [|e2 l]]; [destruct (same_pos p q); reflexivity| |];
    destruct p, q; reflexivity.
Qed.

Lemma sees_type p : sees p (sbody false (B "type")) = false.
Proof. destruct p; reflexivity. Qed.

Lemma get_text_filter ku kvs p :
  get_text ku (FObj (filter (fun kv : bytes * fjv => sees p (fst kv)) kvs)) p = get_text ku (FObj kvs) p.
Proof.
  destruct p; unfold get_text, sees; try (rewrite get_nl_field_filter; reflexivity).
  unfold get_source_content.
  rewrite (fj_get_filter ku (fun k => bytes_eqb (fj_unescape k) (B "source")) kvs (B "source")); [reflexivity|].
  intros k E. rewrite E. reflexivity.
Qed.

(* reading position p of the whole document = reading it in the document that holds only that member *)
Lemma get_text_doc5 ku ty tx p : get_text ku (fj_of (doc_tree5 ty tx)) p = get_text ku (FObj (mem5 tx p)) p.
Proof.
  rewrite fj_of_doc5. rewrite <- (get_text_filter ku (_ :: _) p). cbn [filter fst]. rewrite (sees_type p).
  rewrite !filter_app, !sees_member.
  destruct p; cbn [same_pos]; rewrite ?app_nil_r; reflexivity.
Qed.

Lemma get_text_member ku tx p : get_text ku (FObj (mem5 tx p)) p =
  match tx p with [] => [] | l => read_value (fj_of (text_tree l)) end.
Proof.
  unfold mem5, member5. destruct (tx p) as [|e1 [|e2 l]].
  - destruct p, ku; reflexivity.
  - destruct p, ku; cbn [map ofkv fst snd text_tree]; destruct e1 as [r t]; reflexivity.
  - destruct e1 as [r1 t1]; destruct p, ku; cbn [map ofkv fst snd text_tree]; reflexivity.
Qed.

Lemma read_tree l : ok_text l -> l <> [] -> read_value (fj_of (text_tree l)) = norm_text l.
Proof.
  intros [->|[[r [t [-> [Hv Ht]]]]|[Hlen [Hok Hnd]]]] Hne; [congruence| |].
  - cbn [text_tree fj_of read_value norm_text]. rewrite (escape_core false t Hv). reflexivity.
  - destruct l as [|e1 [|e2 l]]; try (simpl in Hlen; lia).
    destruct e1 as [r1 t1]. cbn [text_tree norm_text]. rewrite entry_tree_map, fj_of_entries. cbn [read_value].
    apply nl_of_kvs_entries, Hok.
Qed.

Lemma doc5_depth ty tx : (forall p, ok_text (tx p)) -> jdepth (doc_tree5 ty tx) <= 300.
Proof.
  intros Hok.
  assert (Ht : forall l, ok_text l -> jdepth (text_tree l) <= 2).
  { intros l [->|[[r [t [-> _]]]|[Hlen _]]]; [simpl; lia|simpl; lia|].
    destruct l as [|e1 [|e2 l]]; try (simpl in Hlen; lia). destruct e1 as [r1 t1]. cbn [text_tree]. rewrite entry_tree_map. apply entries_depth. }
  assert (Hm : forall p, Forall (fun kv : bytes * jt => jdepth (snd kv) <= 3) (member5 tx p)).
  { intros p. unfold member5. pose proof (Ht (tx p) (Hok p)) as H. destruct (tx p) as [|e l]; [constructor|].
    destruct p; (apply Forall_cons; [|apply Forall_nil]); cbn [snd jdepth fold_right]; lia. }
  unfold doc_tree5. cbn [jdepth fold_right snd].
  assert (Hf : forall ms, Forall (fun kv : bytes * jt => jdepth (snd kv) <= 3) ms ->
                          fold_right (fun (kv : bytes * jt) m => Nat.max (jdepth (snd kv)) m) 0 ms <= 3).
  { induction 1 as [|kv r H1 Hr IH]; simpl; lia. }
  assert (Hall : Forall (fun kv : bytes * jt => jdepth (snd kv) <= 3)
                        (member5 tx PName ++ member5 tx PSummary ++ member5 tx PContent ++ member5 tx PSourceContent ++ member5 tx PPreferredUsername)).
  { repeat (apply Forall_app; split); apply Hm. }
  pose proof (Hf _ Hall) as H. lia.
Qed.

(* ------------------------------------------------------------------ the round trip with all positions at once *)
Theorem json_five ku ty tx : plain_name ty -> (forall p, ok_text (tx p)) ->
  exists rd, doc_decode5 ku (doc_encode5 ty tx) = Ok rd /\ forall p, rd p = norm_text (tx p).
Proof.
  intros Hty Hok. unfold doc_decode5. rewrite (doc_encode5_tree ty tx Hty Hok).
  rewrite parse_doc by (apply doc5_depth, Hok).
  eexists. split; [reflexivity|]. intros p. cbv beta.
  rewrite get_text_doc5, get_text_member. pose proof (Hok p) as H.
  destruct (tx p) as [|e l] eqn:E; [reflexivity|]. apply read_tree; [exact H|discriminate].
Qed.

(* the one-position document of Text.v is the instance with the other positions unset *)
Lemma doc_encode5_only m ty p l : doc_encode5_gen m ty (only p l) = doc_encode_gen m ty p l.
Proof.
  unfold doc_encode5_gen, doc_encode_gen, write_nl_step.
  destruct (json_write_prop [bLB] (B "type") (bQ :: ty ++ [bQ])) as [b0 ne0]. cbn [fst].
  destruct p; cbn [only]; cbv zeta; try change (source_marshal_gen m []) with (@None bytes); cbv iota.
  - destruct l as [|e l]; [reflexivity|]. destruct (json_write_nl_prop_gen m b0 _ (e :: l)) as [b1 ne1]. reflexivity.
  - destruct l as [|e l]; [reflexivity|]. destruct (json_write_nl_prop_gen m b0 _ (e :: l)) as [b1 ne1]. reflexivity.
  - destruct l as [|e l]; [reflexivity|]. destruct (json_write_nl_prop_gen m b0 _ (e :: l)) as [b1 ne1]. reflexivity.
  - destruct l as [|e l]; [reflexivity|]. destruct (json_write_nl_prop_gen m b0 _ (e :: l)) as [b1 ne1]. reflexivity.
  - destruct (source_marshal_gen m l) as [v|]; [|reflexivity].
    destruct (json_write_prop b0 (B "source") v) as [b1 ne1]. reflexivity.
Qed.
