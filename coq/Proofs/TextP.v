(* Lemmas for property C06 (Model/Text.v). *)
From AP.Model Require Import Prelude Nlv Text.
From AP.Proofs Require Import NlvP.

(* ------------------------------------------------------------------ sweeps over all bytes *)
Lemma all_bytes_in (b : byte) : In b all_bytes.
Proof.
  unfold all_bytes. apply in_map_iff. exists (Byte.to_N b). split.
  - unfold byte_of_N_total. rewrite Byte.of_to_N. reflexivity.
  - apply in_map_iff. exists (N.to_nat (Byte.to_N b)). split; [apply N2Nat.id|].
    apply in_seq. pose proof (Byte.to_N_bounded b). lia.
Qed.

Lemma byte_sweep (P : byte -> bool) : forallb P all_bytes = true -> forall b, P b = true.
Proof. intros H b. rewrite forallb_forall in H. apply H, all_bytes_in. Qed.

Lemma beqb_eq a b : Byte.eqb a b = true -> a = b.
Proof. apply Byte.byte_dec_bl. Qed.
Lemma beqb_refl a : Byte.eqb a a = true.
Proof. apply Byte.byte_dec_lb; reflexivity. Qed.

Definition plain (b : byte) : bool := negb (Byte.eqb b bQ) && negb (Byte.eqb b bBS).

Lemma hi_plain b : (128 <= bn b)%N -> plain b = true.
Proof.
  intros H.
  assert (S : forallb (fun b => (bn b <? 128)%N || plain b) all_bytes = true) by (vm_compute; reflexivity).
  pose proof (byte_sweep _ S b) as Hb. cbv beta in Hb.
  apply orb_true_iff in Hb. destruct Hb as [Hb|Hb]; [apply N.ltb_lt in Hb; lia|exact Hb].
Qed.

Lemma lo_ge_128 b : (128 <= utf8_lo b)%N.
Proof.
  assert (S : forallb (fun b => (128 <=? utf8_lo b)%N) all_bytes = true) by (vm_compute; reflexivity).
  pose proof (byte_sweep _ S b) as Hb. cbv beta in Hb. apply N.leb_le in Hb. exact Hb.
Qed.

Lemma in_rng_hi b c : in_rng c (utf8_lo b) (utf8_hi b) = true -> (128 <= bn c)%N.
Proof.
  unfold in_rng. rewrite andb_true_iff. intros [H _]. apply N.leb_le in H. pose proof (lo_ge_128 b). lia.
Qed.
Lemma is_cont_hi c : is_cont c = true -> (128 <= bn c)%N.
Proof. unfold is_cont, in_rng. rewrite andb_true_iff. intros [H _]. apply N.leb_le in H. exact H. Qed.

Lemma plain_not_bs b : plain b = true -> Byte.eqb b bBS = false.
Proof. unfold plain. rewrite andb_true_iff, !negb_true_iff. tauto. Qed.
Lemma plain_not_q b : plain b = true -> Byte.eqb b bQ = false.
Proof. unfold plain. rewrite andb_true_iff, !negb_true_iff. tauto. Qed.

(* ------------------------------------------------------------------ unfolding equations *)
Lemma fj_unescape_plain b r : Byte.eqb b bBS = false -> fj_unescape (b :: r) = b :: fj_unescape r.
Proof. intros H. simpl. rewrite H. reflexivity. Qed.

Lemma fj_unescape_u h1 h2 h3 h4 r2 x :
  hex4 h1 h2 h3 h4 = Some x -> is_surrogate x = false ->
  fj_unescape (bBS :: b_u :: h1 :: h2 :: h3 :: h4 :: r2) = utf8_enc x ++ fj_unescape r2.
Proof.
  intros H1 H2.
  change (fj_unescape (bBS :: b_u :: h1 :: h2 :: h3 :: h4 :: r2))
    with (match hex4 h1 h2 h3 h4 with
          | None => bBS :: b_u :: fj_unescape (h1 :: h2 :: h3 :: h4 :: r2)
          | Some x =>
              if negb (is_surrogate x) then utf8_enc x ++ fj_unescape r2
              else
                match r2 with
                | e1 :: e2 :: g1 :: g2 :: g3 :: g4 :: r3 =>
                    if Byte.eqb e1 bBS && Byte.eqb e2 b_u then
                      match hex4 g1 g2 g3 g4 with
                      | Some x1 => utf8_enc (utf16_decode x x1) ++ fj_unescape r3
                      | None => bBS :: b_u :: h1 :: h2 :: h3 :: h4 :: fj_unescape r2
                      end
                    else bBS :: b_u :: h1 :: h2 :: h3 :: h4 :: fj_unescape r2
                | _ => bBS :: b_u :: h1 :: h2 :: h3 :: h4 :: fj_unescape r2
                end
          end).
  rewrite H1, H2. reflexivity.
Qed.

(* one escape unit [e] decodes to the byte [b] *)
Definition esc_decodes (e : bytes) (b : byte) : bool :=
  match e with
  | [c] => negb (Byte.eqb c bBS) && Byte.eqb c b
  | [c1; c2] =>
      Byte.eqb c1 bBS &&
      ((Byte.eqb c2 bBS && Byte.eqb b bBS) || (Byte.eqb c2 bQ && Byte.eqb b bQ) ||
       (Byte.eqb c2 x6e && Byte.eqb b x0a) || (Byte.eqb c2 x72 && Byte.eqb b x0d) ||
       (Byte.eqb c2 x74 && Byte.eqb b x09))
  | [c1; c2; h1; h2; h3; h4] =>
      Byte.eqb c1 bBS && Byte.eqb c2 b_u &&
      match hex4 h1 h2 h3 h4 with
      | Some x => negb (is_surrogate x) && bytes_eqb (utf8_enc x) [b]
      | None => false
      end
  | _ => false
  end.

Lemma esc_decodes_sound e b rest :
  esc_decodes e b = true -> fj_unescape (e ++ rest) = b :: fj_unescape rest.
Proof.
  destruct e as [|c1 [|c2 [|h1 [|h2 [|h3 [|h4 [|? ?]]]]]]]; simpl esc_decodes; try discriminate.
  - rewrite andb_true_iff, negb_true_iff. intros [H1 H2]. apply beqb_eq in H2. subst c1.
    simpl app. apply fj_unescape_plain. exact H1.
  - rewrite andb_true_iff. intros [H1 H2]. apply beqb_eq in H1. subst c1.
    rewrite !orb_true_iff, !andb_true_iff in H2.
    destruct H2 as [[[[[A C]|[A C]]|[A C]]|[A C]]|[A C]]; apply beqb_eq in A; apply beqb_eq in C; subst; reflexivity.
  - rewrite !andb_true_iff. intros [[H1 H2] H3]. apply beqb_eq in H1. apply beqb_eq in H2. subst c1 c2.
    destruct (hex4 h1 h2 h3 h4) as [x|] eqn:Hx; [|discriminate].
    rewrite andb_true_iff, negb_true_iff in H3. destruct H3 as [Hs He]. apply bytes_eqb_eq in He.
    simpl app. rewrite (fj_unescape_u _ _ _ _ _ _ Hx Hs), He. reflexivity.
Qed.

Lemma esc_ascii_decodes html b : (bn b < 128)%N -> esc_decodes (esc_ascii html b) b = true.
Proof.
  intros H.
  assert (S : forallb (fun b => negb (bn b <? 128)%N || (esc_decodes (esc_ascii true b) b && esc_decodes (esc_ascii false b) b)) all_bytes = true)
    by (vm_compute; reflexivity).
  pose proof (byte_sweep _ S b) as Hb. cbv beta in Hb.
  apply N.ltb_lt in H. rewrite H in Hb. simpl in Hb. apply andb_true_iff in Hb. destruct html; tauto.
Qed.

Lemma fj_unescape_202 c2 rest :
  Byte.eqb c2 xa8 || Byte.eqb c2 xa9 = true -> fj_unescape (esc_202 c2 ++ rest) = xe2 :: x80 :: c2 :: fj_unescape rest.
Proof.
  rewrite orb_true_iff. intros [H|H]; apply beqb_eq in H; subst c2; reflexivity.
Qed.

(* ------------------------------------------------------------------ the codec heart *)
Lemma sbody_cons html b r :
  sbody html (b :: r) =
  if (bn b <? 128)%N then esc_ascii html b ++ sbody html r
  else match utf8_n b with
       | 1 => match r with
              | c1 :: r1 =>
                  if in_rng c1 (utf8_lo b) (utf8_hi b) then b :: c1 :: sbody html r1
                  else esc_fffd ++ sbody html r
              | _ => esc_fffd ++ sbody html r
              end
       | 2 => match r with
              | c1 :: c2 :: r2 =>
                  if in_rng c1 (utf8_lo b) (utf8_hi b) && is_cont c2 then
                    (if is_ls b c1 c2 then esc_202 c2 else [b; c1; c2]) ++ sbody html r2
                  else esc_fffd ++ sbody html r
              | _ => esc_fffd ++ sbody html r
              end
       | 3 => match r with
              | c1 :: c2 :: c3 :: r3 =>
                  if in_rng c1 (utf8_lo b) (utf8_hi b) && is_cont c2 && is_cont c3 then
                    b :: c1 :: c2 :: c3 :: sbody html r3
                  else esc_fffd ++ sbody html r
              | _ => esc_fffd ++ sbody html r
              end
       | _ => esc_fffd ++ sbody html r
       end.
Proof. reflexivity. Qed.

Lemma utf8_valid_cons b r :
  utf8_valid (b :: r) =
  if (bn b <? 128)%N then utf8_valid r
  else match utf8_n b with
       | 1 => match r with
              | c1 :: r1 => in_rng c1 (utf8_lo b) (utf8_hi b) && utf8_valid r1
              | _ => false
              end
       | 2 => match r with
              | c1 :: c2 :: r2 => in_rng c1 (utf8_lo b) (utf8_hi b) && is_cont c2 && utf8_valid r2
              | _ => false
              end
       | 3 => match r with
              | c1 :: c2 :: c3 :: r3 =>
                  in_rng c1 (utf8_lo b) (utf8_hi b) && is_cont c2 && is_cont c3 && utf8_valid r3
              | _ => false
              end
       | _ => false
       end.
Proof. reflexivity. Qed.

Lemma fj_hi b r : (128 <= bn b)%N -> fj_unescape (b :: r) = b :: fj_unescape r.
Proof. intros H. apply fj_unescape_plain, plain_not_bs, hi_plain, H. Qed.

Lemma is_ls_eq b c1 c2 : is_ls b c1 c2 = true -> b = xe2 /\ c1 = x80 /\ (Byte.eqb c2 xa8 || Byte.eqb c2 xa9 = true).
Proof.
  unfold is_ls. rewrite !andb_true_iff. intros [[H1 H2] H3]. apply beqb_eq in H1. apply beqb_eq in H2. auto.
Qed.

Lemma escape_core_n html n : forall t, length t <= n -> utf8_valid t = true -> fj_unescape (sbody html t) = t.
Proof.
  induction n as [|n IH]; intros t Hl Hv.
  - destruct t; [reflexivity|simpl in Hl; lia].
  - destruct t as [|b r]; [reflexivity|]. simpl in Hl.
    rewrite utf8_valid_cons in Hv. rewrite sbody_cons.
    destruct (bn b <? 128)%N eqn:Hb.
    + apply N.ltb_lt in Hb. rewrite (esc_decodes_sound _ b _ (esc_ascii_decodes html b Hb)).
      rewrite IH; [reflexivity|lia|exact Hv].
    + apply N.ltb_ge in Hb.
      destruct (utf8_n b) as [|[|[|[|k]]]]; try discriminate.
      * destruct r as [|c1 r1]; [discriminate|]. apply andb_true_iff in Hv. destruct Hv as [H1 Hv].
        rewrite H1. cbv iota. simpl in Hl. rewrite (fj_hi b) by exact Hb. rewrite (fj_hi c1) by (eapply in_rng_hi; exact H1).
        rewrite IH; [reflexivity|lia|exact Hv].
      * destruct r as [|c1 [|c2 r2]]; try discriminate.
        rewrite !andb_true_iff in Hv. destruct Hv as [[H1 H2] Hv]. rewrite H1, H2. simpl andb. cbv iota. simpl in Hl.
        destruct (is_ls b c1 c2) eqn:Hls.
        -- apply is_ls_eq in Hls. destruct Hls as [-> [-> Hc]]. rewrite (fj_unescape_202 _ _ Hc).
           rewrite IH; [reflexivity|lia|exact Hv].
        -- simpl app. rewrite (fj_hi b) by exact Hb. rewrite (fj_hi c1) by (eapply in_rng_hi; exact H1).
           rewrite (fj_hi c2) by (apply is_cont_hi; exact H2). rewrite IH; [reflexivity|lia|exact Hv].
      * destruct r as [|c1 [|c2 [|c3 r3]]]; try discriminate.
        rewrite !andb_true_iff in Hv. destruct Hv as [[[H1 H2] H3] Hv]. rewrite H1, H2, H3. simpl andb. cbv iota. simpl in Hl.
        rewrite (fj_hi b) by exact Hb. rewrite (fj_hi c1) by (eapply in_rng_hi; exact H1).
        rewrite (fj_hi c2) by (apply is_cont_hi; exact H2). rewrite (fj_hi c3) by (apply is_cont_hi; exact H3).
        rewrite IH; [reflexivity|lia|exact Hv].
Qed.

Lemma escape_core html t : valid_utf8 t -> fj_unescape (sbody html t) = t.
Proof. intros H. apply (escape_core_n html (length t)); [lia|exact H]. Qed.

(* ------------------------------------------------------------------ the closing quote *)
(* [raw_ok e]: e is made of bytes other than quote and backslash, and of backslash-byte pairs *)
Fixpoint raw_ok (e : bytes) : bool :=
  match e with
  | [] => true
  | c :: r => if Byte.eqb c bQ then false
              else if Byte.eqb c bBS then match r with [] => false | _ :: r1 => raw_ok r1 end
              else raw_ok r
  end.

Lemma fj_raw_string_cons c r : fj_raw_string (c :: r) =
  if Byte.eqb c bQ then Some ([], r)
  else if Byte.eqb c bBS then
    match r with
    | [] => None
    | d :: r1 => match fj_raw_string r1 with Some (a, t) => Some (c :: d :: a, t) | None => None end
    end
  else match fj_raw_string r with Some (a, t) => Some (c :: a, t) | None => None end.
Proof. reflexivity. Qed.

Lemma raw_scan_app_n n : forall e, length e <= n -> raw_ok e = true -> forall x,
  fj_raw_string (e ++ x) = match fj_raw_string x with Some (a, t) => Some (e ++ a, t) | None => None end.
Proof.
  induction n as [|n IH]; intros e Hl Hok x.
  - destruct e; [|simpl in Hl; lia]. simpl. destruct (fj_raw_string x) as [[a t]|]; reflexivity.
  - destruct e as [|c r]; [simpl; destruct (fj_raw_string x) as [[a t]|]; reflexivity|].
    simpl in Hl. simpl in Hok. simpl app. rewrite fj_raw_string_cons.
    destruct (Byte.eqb c bQ); [discriminate|]. destruct (Byte.eqb c bBS).
    + destruct r as [|d r1]; [discriminate|]. simpl in Hl. simpl app. cbv iota. rewrite (IH r1) by (lia || exact Hok).
      destruct (fj_raw_string x) as [[a t]|]; reflexivity.
    + rewrite (IH r) by (lia || exact Hok). destruct (fj_raw_string x) as [[a t]|]; reflexivity.
Qed.

Lemma raw_ok_app_n n : forall e x, length e <= n -> raw_ok e = true -> raw_ok x = true -> raw_ok (e ++ x) = true.
Proof.
  induction n as [|n IH]; intros e x Hl He Hx.
  - destruct e; [exact Hx|simpl in Hl; lia].
  - destruct e as [|c r]; [exact Hx|]. simpl in *. destruct (Byte.eqb c bQ); [discriminate|].
    destruct (Byte.eqb c bBS).
    + destruct r as [|d r1]; [discriminate|]. simpl in *. apply IH; [lia|exact He|exact Hx].
    + apply IH; [lia|exact He|exact Hx].
Qed.
Lemma raw_ok_app e x : raw_ok e = true -> raw_ok x = true -> raw_ok (e ++ x) = true.
Proof. apply (raw_ok_app_n (length e)). lia. Qed.

Lemma raw_ok_plain b x : plain b = true -> raw_ok (b :: x) = raw_ok x.
Proof. intros H. simpl. rewrite (plain_not_q _ H), (plain_not_bs _ H). reflexivity. Qed.
Lemma raw_ok_hi b x : (128 <= bn b)%N -> raw_ok (b :: x) = raw_ok x.
Proof. intros H. apply raw_ok_plain, hi_plain, H. Qed.

Lemma raw_ok_esc_ascii html b : raw_ok (esc_ascii html b) = true.
Proof.
  assert (S : forallb (fun b => raw_ok (esc_ascii true b) && raw_ok (esc_ascii false b)) all_bytes = true)
    by (vm_compute; reflexivity).
  pose proof (byte_sweep _ S b) as Hb. cbv beta in Hb. apply andb_true_iff in Hb. destruct html; tauto.
Qed.
Lemma raw_ok_esc_202 c : raw_ok (esc_202 c) = true.
Proof.
  assert (S : forallb (fun c => raw_ok (esc_202 c)) all_bytes = true) by (vm_compute; reflexivity).
  exact (byte_sweep _ S c).
Qed.

Lemma raw_ok_sbody_n html n : forall t, length t <= n -> raw_ok (sbody html t) = true.
Proof.
  induction n as [|n IH]; intros t Hl.
  - destruct t; [reflexivity|simpl in Hl; lia].
  - destruct t as [|b r]; [reflexivity|]. simpl in Hl. rewrite sbody_cons.
    assert (Hf : raw_ok (esc_fffd ++ sbody html r) = true) by (apply raw_ok_app; [reflexivity|apply IH; lia]).
    destruct (bn b <? 128)%N eqn:Hb.
    + apply raw_ok_app; [apply raw_ok_esc_ascii|apply IH; lia].
    + apply N.ltb_ge in Hb.
      destruct (utf8_n b) as [|[|[|[|k]]]]; try exact Hf.
      * destruct r as [|c1 r1]; [exact Hf|]. destruct (in_rng c1 (utf8_lo b) (utf8_hi b)) eqn:H1; [|exact Hf].
        simpl in Hl. rewrite (raw_ok_hi b) by exact Hb. rewrite (raw_ok_hi c1) by (eapply in_rng_hi; exact H1).
        apply IH; lia.
      * destruct r as [|c1 [|c2 r2]]; try exact Hf.
        destruct (in_rng c1 (utf8_lo b) (utf8_hi b)) eqn:H1; [|exact Hf].
        destruct (is_cont c2) eqn:H2; [|exact Hf]. simpl andb. cbv iota. simpl in Hl.
        destruct (is_ls b c1 c2).
        -- apply raw_ok_app; [apply raw_ok_esc_202|apply IH; lia].
        -- simpl app. rewrite (raw_ok_hi b) by exact Hb. rewrite (raw_ok_hi c1) by (eapply in_rng_hi; exact H1).
           rewrite (raw_ok_hi c2) by (apply is_cont_hi; exact H2). apply IH; lia.
      * destruct r as [|c1 [|c2 [|c3 r3]]]; try exact Hf.
        destruct (in_rng c1 (utf8_lo b) (utf8_hi b)) eqn:H1; [|exact Hf].
        destruct (is_cont c2) eqn:H2; [|exact Hf]. destruct (is_cont c3) eqn:H3; [|exact Hf].
        simpl andb. cbv iota. simpl in Hl.
        rewrite (raw_ok_hi b) by exact Hb. rewrite (raw_ok_hi c1) by (eapply in_rng_hi; exact H1).
        rewrite (raw_ok_hi c2) by (apply is_cont_hi; exact H2). rewrite (raw_ok_hi c3) by (apply is_cont_hi; exact H3).
        apply IH; lia.
Qed.

(* the scan for the closing quote stops exactly behind what stringBytes wrote, for every input *)
Lemma raw_string_sbody html t tail : fj_raw_string (sbody html t ++ bQ :: tail) = Some (sbody html t, tail).
Proof.
  rewrite (raw_scan_app_n (length (sbody html t))); [|lia|apply (raw_ok_sbody_n html (length t)); lia].
  simpl. rewrite app_nil_r. reflexivity.
Qed.

(* ------------------------------------------------------------------ the parser on printed trees *)
Lemma fj_value_str n r : fj_value (S n) (bQ :: r) =
  match fj_raw_string r with Some (raw, t) => Ok (FStr raw, t) | None => Err end.
Proof. reflexivity. Qed.

Lemma fj_value_obj n r : fj_value (S n) (bLB :: r) =
  match skipws r with
  | [] => Err
  | c1 :: r1 => if Byte.eqb c1 bRB then Ok (FObj [], r1) else obj_loop (S (length r)) (fj_value n) (skipws r) []
  end.
Proof. reflexivity. Qed.

Lemma string_token n t tail : fj_value (S n) (string_bytes t ++ tail) = Ok (FStr (sbody false t), tail).
Proof.
  unfold string_bytes, string_bytes_h. simpl app. rewrite fj_value_str, <- app_assoc. simpl app.
  rewrite raw_string_sbody. reflexivity.
Qed.

Lemma skipws_nows c r : is_ws c = false -> skipws (c :: r) = c :: r.
Proof. intros H. simpl. rewrite H. reflexivity. Qed.

Lemma string_bytes_head t : string_bytes t = bQ :: sbody false t ++ [bQ].
Proof. reflexivity. Qed.

Lemma jprint_head j : exists c r, jprint j = c :: r /\ is_ws c = false.
Proof. destruct j; simpl; eexists; eexists; split; reflexivity. Qed.

Lemma skipws_jprint j x : skipws (jprint j ++ x) = jprint j ++ x.
Proof. destruct (jprint_head j) as [c [r [E H]]]. rewrite E. simpl app. apply skipws_nows, H. Qed.

Lemma jprint_JS t : jprint (JS t) = string_bytes t.
Proof. reflexivity. Qed.
Lemma jprint_JO ms : jprint (JO ms) = bLB :: pm jprint true ms ++ [bRB].
Proof. reflexivity. Qed.
Local Arguments pm : simpl never.
Local Arguments string_bytes : simpl never.
Local Arguments jprint : simpl never.

Lemma if_false_eq {A} (a b : A) : (if false then a else b) = b.
Proof. reflexivity. Qed.
Lemma if_true_eq {A} (a b : A) : (if true then a else b) = a.
Proof. reflexivity. Qed.

Definition ofkv (kv : bytes * jt) : bytes * fjv := (sbody false (fst kv), fj_of (snd kv)).

Lemma pm_cons pr first kv r :
  pm pr first (kv :: r) = (if first then [] else [bCM]) ++ string_bytes (fst kv) ++ bCO :: pr (snd kv) ++ pm pr false r.
Proof. reflexivity. Qed.

Lemma obj_loop_S f pv s acc : obj_loop (S f) pv s acc =
  match skipws s with
  | c :: r =>
      if negb (Byte.eqb c bQ) then Err
      else match fj_raw_string r with
           | None => Err
           | Some (k, s1) =>
               match skipws s1 with
               | c1 :: s2 =>
                   if negb (Byte.eqb c1 bCO) then Err
                   else match pv (skipws s2) with
                        | Ok (v, s3) =>
                            match skipws s3 with
                            | c2 :: s4 =>
                                if Byte.eqb c2 bCM then obj_loop f pv s4 ((k, v) :: acc)
                                else if Byte.eqb c2 bRB then Ok (FObj (rev ((k, v) :: acc)), s4)
                                else Err
                            | [] => Err
                            end
                        | Err => Err
                        | Panic p => Panic p
                        | OutOfFuel => OutOfFuel
                        end
               | [] => Err
               end
           end
  | [] => Err
  end.
Proof. reflexivity. Qed.

Lemma obj_loop_step f pv k j Y acc :
  (forall tl, pv (jprint j ++ tl) = Ok (fj_of j, tl)) ->
  obj_loop (S f) pv (string_bytes k ++ bCO :: jprint j ++ Y) acc =
  match skipws Y with
  | c2 :: s4 =>
      if Byte.eqb c2 bCM then obj_loop f pv s4 ((sbody false k, fj_of j) :: acc)
      else if Byte.eqb c2 bRB then Ok (FObj (rev ((sbody false k, fj_of j) :: acc)), s4)
      else Err
  | [] => Err
  end.
Proof.
  intros Hpv. rewrite obj_loop_S. rewrite string_bytes_head.
  change ((bQ :: sbody false k ++ [bQ]) ++ bCO :: jprint j ++ Y)
    with (bQ :: ((sbody false k ++ [bQ]) ++ bCO :: jprint j ++ Y)).
  rewrite skipws_nows by reflexivity. change (negb (Byte.eqb bQ bQ)) with false. cbv iota.
  rewrite <- app_assoc.
  change ([bQ] ++ bCO :: jprint j ++ Y) with (bQ :: bCO :: jprint j ++ Y).
  rewrite raw_string_sbody.
  rewrite skipws_nows by reflexivity. change (negb (Byte.eqb bCO bCO)) with false. cbv iota.
  rewrite skipws_jprint, Hpv. reflexivity.
Qed.

Lemma pm_cons_tail kv ms X :
  pm jprint false (kv :: ms) ++ X =
  bCM :: string_bytes (fst kv) ++ bCO :: jprint (snd kv) ++ pm jprint false ms ++ X.
Proof.
  rewrite pm_cons. change ([bCM] ++ string_bytes (fst kv) ++ bCO :: jprint (snd kv) ++ pm jprint false ms)
    with (bCM :: (string_bytes (fst kv) ++ bCO :: jprint (snd kv) ++ pm jprint false ms)).
  rewrite <- app_comm_cons. f_equal. rewrite <- app_assoc. f_equal.
  rewrite <- app_comm_cons. f_equal. rewrite <- app_assoc. reflexivity.
Qed.

Lemma obj_loop_members pv : forall ms kv acc fuel tail,
  length ms < fuel ->
  (forall m, In m (kv :: ms) -> forall tl, pv (jprint (snd m) ++ tl) = Ok (fj_of (snd m), tl)) ->
  obj_loop fuel pv (string_bytes (fst kv) ++ bCO :: jprint (snd kv) ++ pm jprint false ms ++ bRB :: tail) acc
  = Ok (FObj (rev acc ++ map ofkv (kv :: ms)), tail).
Proof.
  induction ms as [|kv' ms IH]; intros kv acc fuel tail Hf Hpv.
  - destruct fuel as [|f]; [simpl in Hf; lia|].
    rewrite obj_loop_step by (apply Hpv; left; reflexivity).
    change (pm jprint false [] ++ bRB :: tail) with (bRB :: tail).
    rewrite skipws_nows by reflexivity. reflexivity.
  - destruct fuel as [|f]; [simpl in Hf; lia|].
    rewrite obj_loop_step by (apply Hpv; left; reflexivity).
    rewrite pm_cons_tail. rewrite skipws_nows by reflexivity.
    change (Byte.eqb bCM bCM) with true. cbv iota.
    rewrite (IH kv' ((sbody false (fst kv), fj_of (snd kv)) :: acc) f tail).
    + simpl rev. rewrite <- app_assoc. reflexivity.
    + simpl in Hf. lia.
    + intros m Hm. apply Hpv. right. exact Hm.
Qed.

Lemma pm_len pr first ms : length ms <= length (pm pr first ms).
Proof.
  revert first. induction ms as [|kv r IH]; intros first; [simpl; lia|].
  rewrite pm_cons, !app_length. simpl length. rewrite !app_length. specialize (IH false). lia.
Qed.

Lemma jdepth_member m ms : In m ms ->
  jdepth (snd m) <= fold_right (fun (kv : bytes * jt) k => Nat.max (jdepth (snd kv)) k) 0 ms.
Proof.
  induction ms as [|x r IH]; intros H; [destruct H|]. simpl. destruct H as [->|H]; [lia|]. specialize (IH H). lia.
Qed.

Lemma pm_first_tail kv ms X :
  pm jprint true (kv :: ms) ++ X =
  string_bytes (fst kv) ++ bCO :: jprint (snd kv) ++ pm jprint false ms ++ X.
Proof.
  rewrite pm_cons. change ([] ++ string_bytes (fst kv) ++ bCO :: jprint (snd kv) ++ pm jprint false ms)
    with (string_bytes (fst kv) ++ bCO :: jprint (snd kv) ++ pm jprint false ms).
  rewrite <- app_assoc. f_equal. rewrite <- app_comm_cons. f_equal. rewrite <- app_assoc. reflexivity.
Qed.

Lemma skipws_string_bytes t X : skipws (string_bytes t ++ X) = string_bytes t ++ X.
Proof. rewrite string_bytes_head. rewrite <- app_comm_cons. apply skipws_nows. reflexivity. Qed.

Lemma fj_value_obj_nonempty n r t X :
  skipws r = string_bytes t ++ X ->
  fj_value (S n) (bLB :: r) = obj_loop (S (length r)) (fj_value n) (skipws r) [].
Proof. intros H. rewrite fj_value_obj, H. rewrite string_bytes_head. reflexivity. Qed.

(* parseValue reads back every printed tree, whatever follows it *)
Lemma parse_tree n : forall j tail, jdepth j <= n -> fj_value n (jprint j ++ tail) = Ok (fj_of j, tail).
Proof.
  induction n as [|n IH]; intros j tail Hd.
  - destruct j; simpl in Hd; lia.
  - destruct j as [t|ms].
    + rewrite jprint_JS. apply string_token.
    + rewrite jprint_JO. rewrite <- app_comm_cons, <- app_assoc.
      change ([bRB] ++ tail) with (bRB :: tail).
      destruct ms as [|kv ms].
      * reflexivity.
      * rewrite pm_first_tail.
        rewrite (fj_value_obj_nonempty n _ _ _ (skipws_string_bytes _ _)), skipws_string_bytes.
        rewrite (obj_loop_members (fj_value n) ms kv [] _ tail).
        -- reflexivity.
        -- rewrite !app_length. simpl length. rewrite !app_length. pose proof (pm_len jprint false ms). lia.
        -- intros m Hm tl. apply IH. simpl in Hd. pose proof (jdepth_member m (kv :: ms) Hm) as Hj. simpl in Hj. lia.
Qed.

Lemma parse_doc j : jdepth j <= 300 -> fj_parse (jprint j) = Ok (fj_of j).
Proof.
  intros Hd. unfold fj_parse. destruct (jprint_head j) as [c [r [E H]]].
  rewrite E, skipws_nows by exact H. rewrite <- E.
  rewrite <- (app_nil_r (jprint j)). rewrite (parse_tree 300 j [] Hd). reflexivity.
Qed.

(* ------------------------------------------------------------------ the writers *)
Ltac lnorm := repeat first [rewrite <- app_assoc | progress cbn [app]].
Lemma safe_ascii_esc b : safe_ascii b = true -> (bn b <? 128)%N = true /\ esc_ascii false b = [b].
Proof.
  intros H. unfold esc_ascii. rewrite H. simpl negb. rewrite andb_true_l, orb_true_r. split; [|reflexivity].
  unfold safe_ascii in H. rewrite !andb_true_iff in H. tauto.
Qed.

Lemma sbody_plain s : forallb safe_ascii s = true -> sbody false s = s.
Proof.
  induction s as [|b r IH]; intros H; [reflexivity|]. simpl in H. apply andb_true_iff in H. destruct H as [Hb Hr].
  rewrite sbody_cons. destruct (safe_ascii_esc b Hb) as [H1 H2]. rewrite H1, H2, (IH Hr). reflexivity.
Qed.

Lemma string_bytes_plain s : plain_name s -> string_bytes s = bQ :: s ++ [bQ].
Proof. intros H. rewrite string_bytes_head, (sbody_plain s H). reflexivity. Qed.

Lemma string_bytes_nonempty t : string_bytes t <> [].
Proof. rewrite string_bytes_head. discriminate. Qed.

Definition entry_tree (e : lrv) : bytes * jt := (fst e, JS (snd e)).

Lemma ok_entry_lengths e : ok_entry e -> Nat.eqb (length (fst e)) 0 = false /\ Nat.eqb (length (snd e)) 0 = false.
Proof.
  intros [_ [H1 [_ H2]]]. destruct e as [r v]. simpl in *.
  destruct r; [congruence|]. destruct v; [congruence|]. split; reflexivity.
Qed.

(* a well-formed tag reads back as itself *)
Lemma tag_as_read_valid_n n : forall t, length t <= n -> utf8_valid t = true -> tag_as_read t = t.
Proof.
  induction n as [|n IH]; intros t Hl Hv.
  - destruct t; [reflexivity|simpl in Hl; lia].
  - destruct t as [|b r]; [reflexivity|]. simpl in Hl.
    rewrite utf8_valid_cons in Hv. cbn [tag_as_read].
    destruct (bn b <? 128)%N.
    + rewrite IH; [reflexivity|lia|exact Hv].
    + destruct (utf8_n b) as [|[|[|[|k]]]]; try discriminate.
      * destruct r as [|c1 r1]; [discriminate|]. apply andb_true_iff in Hv. destruct Hv as [H1 Hv].
        rewrite H1. simpl in Hl. rewrite IH; [reflexivity|lia|exact Hv].
      * destruct r as [|c1 [|c2 r2]]; try discriminate.
        rewrite !andb_true_iff in Hv. destruct Hv as [[H1 H2] Hv]. rewrite H1, H2. simpl andb. cbv iota. simpl in Hl.
        rewrite IH; [reflexivity|lia|exact Hv].
      * destruct r as [|c1 [|c2 [|c3 r3]]]; try discriminate.
        rewrite !andb_true_iff in Hv. destruct Hv as [[[H1 H2] H3] Hv]. rewrite H1, H2, H3. simpl andb. cbv iota. simpl in Hl.
        rewrite IH; [reflexivity|lia|exact Hv].
Qed.
Lemma tag_as_read_valid t : valid_utf8 t -> tag_as_read t = t.
Proof. intros H. apply (tag_as_read_valid_n (length t)); [lia|exact H]. Qed.

(* the tags as they are read back (tagAsRead): what the dedup of MarshalJSON compares *)
Definition wkey (e : lrv) : bytes := tag_as_read (fst e).

Lemma map_step_ok e b (first : bool) keys : ok_entry e -> existsb (bytes_eqb (wkey e)) keys = false ->
  nlv_map_step true true (b, first, keys) e =
  (b ++ (if first then [] else [bCM]) ++ string_bytes (fst e) ++ bCO :: string_bytes (snd e), false, keys ++ [wkey e]).
Proof.
  intros Hok Hk. destruct (ok_entry_lengths e Hok) as [L1 L2]. destruct e as [ref v]. unfold wkey in *. simpl fst in *. simpl snd in *.
  unfold nlv_map_step. rewrite L1, L2. simpl orb. cbv iota. rewrite Hk. cbn [andb]. cbv iota.
  unfold lrv_marshal. rewrite L1. simpl negb. rewrite andb_true_r.
  destruct (bytes_eqb ref NilRef) eqn:E.
  - simpl negb. cbv iota.
    pose proof (string_bytes_nonempty v) as Hn. destruct (string_bytes v) as [|c w] eqn:Ev; [congruence|].
    rewrite (string_bytes_head ref). destruct first; cbn [andb]; cbv iota; lnorm; reflexivity.
  - simpl negb. cbv iota. destruct v as [|x v']; [discriminate|].
    assert (Hn : string_bytes ref ++ bCO :: string_bytes (x :: v') <> []).
    { rewrite (string_bytes_head ref). discriminate. }
    destruct (string_bytes ref ++ bCO :: string_bytes (x :: v')) as [|c w] eqn:Ev; [congruence|].
    rewrite <- Ev. destruct first; cbn [andb]; cbv iota; lnorm; reflexivity.
Qed.

Lemma existsb_eqb_false k keys : ~ In k keys -> existsb (bytes_eqb k) keys = false.
Proof.
  intros H. destruct (existsb (bytes_eqb k) keys) eqn:E; [|reflexivity]. exfalso. apply H.
  apply existsb_exists in E. destruct E as [x [Hx Hxe]]. apply NlvP.bytes_eqb_eq in Hxe. subst. exact Hx.
Qed.

(* written tags pairwise distinct, and distinct from the keys registered so far *)
Lemma fold_map_step l : forall b first keys, Forall ok_entry l -> NoDup (keys ++ map wkey l) ->
  fold_left (nlv_map_step true true) l (b, first, keys) =
  (b ++ pm jprint first (map entry_tree l), match l with [] => first | _ => false end, keys ++ map wkey l).
Proof.
  induction l as [|e r IH]; intros b first keys Hok Hnd.
  - simpl. rewrite !app_nil_r. reflexivity.
  - inversion Hok as [|? ? He Hr]; subst. cbn [fold_left].
    assert (Hk : existsb (bytes_eqb (wkey e)) keys = false).
    { apply existsb_eqb_false. intros Hin. cbn [map] in Hnd. apply NoDup_remove_2 in Hnd. apply Hnd. apply in_or_app. left. exact Hin. }
    rewrite (map_step_ok e b first keys He Hk).
    assert (Hnd' : NoDup ((keys ++ [wkey e]) ++ map wkey r)) by (rewrite <- app_assoc; exact Hnd).
    rewrite (IH _ _ _ Hr Hnd').
    cbn [map]. rewrite pm_cons. change (jprint (snd (entry_tree e))) with (string_bytes (snd e)). change (fst (entry_tree e)) with (fst e).
    f_equal; [f_equal|].
    + destruct first; lnorm; reflexivity.
    + destruct r; reflexivity.
    + rewrite <- app_assoc. reflexivity.
Qed.

Lemma nlv_marshal_multi e1 e2 l : Forall ok_entry (e1 :: e2 :: l) -> NoDup (map wkey (e1 :: e2 :: l)) ->
  nlv_marshal (e1 :: e2 :: l) = Some (jprint (JO (map entry_tree (e1 :: e2 :: l)))).
Proof.
  intros Hok Hnd. unfold nlv_marshal, nlv_marshal_gen. destruct e1 as [r1 v1].
  match goal with |- context [fold_left ?f ?x ?s] =>
    assert (E : fold_left f x s = ([bLB] ++ pm jprint true (map entry_tree x), false, [] ++ map wkey x))
      by (exact (fold_map_step x [bLB] true [] Hok Hnd)); rewrite E end.
  rewrite jprint_JO. reflexivity.
Qed.

Lemma nlv_marshal_single r t : t <> [] -> nlv_marshal [(r, t)] = Some (string_bytes t).
Proof. intros H. destruct t; [congruence|reflexivity]. Qed.

Lemma json_write_prop_first name val : name <> [] -> val <> [] ->
  json_write_prop [bLB] name val = (bLB :: bQ :: name ++ [bQ; bCO] ++ val, true).
Proof. intros Hn Hv. destruct val; [congruence|]. destruct name; [congruence|]. reflexivity. Qed.

Lemma json_write_prop_next b c name val : 1 <= length b -> c <> bCM -> name <> [] -> val <> [] ->
  json_write_prop (b ++ [c]) name val = ((b ++ [c]) ++ bCM :: bQ :: name ++ [bQ; bCO] ++ val, true).
Proof.
  intros Hb Hc Hn Hv. destruct val as [|v0 val]; [congruence|]. destruct name as [|n0 name]; [congruence|].
  unfold json_write_prop, json_write_comma. rewrite last_last.
  assert (L : Nat.ltb 1 (length (b ++ [c])) = true) by (apply Nat.ltb_lt; rewrite app_length; simpl; lia).
  rewrite L. assert (E : Byte.eqb c bCM = false).
  { destruct (Byte.eqb c bCM) eqn:E; [apply beqb_eq in E; congruence|reflexivity]. }
  rewrite E. simpl negb. simpl andb. cbv iota. lnorm. reflexivity.
Qed.

(* ------------------------------------------------------------------ the document *)
Definition doc_head (ty : bytes) : bytes := bLB :: bQ :: B "type" ++ [bQ; bCO] ++ bQ :: ty.
Definition doc_bytes (ty : bytes) (p : pos) (key v : bytes) : bytes :=
  match p with
  | PSourceContent =>
      ((doc_head ty ++ [bQ]) ++ bCM :: bQ :: B "source" ++ [bQ; bCO] ++ (bLB :: bQ :: key ++ [bQ; bCO] ++ v) ++ [bRB]) ++ [bRB]
  | _ => ((doc_head ty ++ [bQ]) ++ bCM :: bQ :: key ++ [bQ; bCO] ++ v) ++ [bRB]
  end.

Lemma pos_term_nonempty p : pos_term p <> [].
Proof. destruct p; discriminate. Qed.
Lemma text_key_nonempty p l : text_key p l <> [].
Proof. unfold text_key. destruct (Nat.ltb 1 (length l)); destruct p; discriminate. Qed.

Lemma write_nl_prop_gen_eq m b c name l v : 1 <= length b -> c <> bCM -> name <> [] ->
  m l = Some v -> v <> [] ->
  json_write_nl_prop_gen m (b ++ [c]) name l =
  ((b ++ [c]) ++ bCM :: bQ :: (if Nat.ltb 1 (length l) then name ++ B "Map" else name) ++ [bQ; bCO] ++ v, true).
Proof.
  intros Hb Hc Hn Hm Hv. unfold json_write_nl_prop_gen. rewrite Hm. destruct v as [|v0 v]; [congruence|].
  apply json_write_prop_next; try assumption; try discriminate.
  destruct (Nat.ltb 1 (length l)); [destruct name; discriminate|exact Hn].
Qed.

Lemma write_nl_prop_gen_first m name l v : name <> [] -> m l = Some v -> v <> [] ->
  json_write_nl_prop_gen m [bLB] name l =
  (bLB :: bQ :: (if Nat.ltb 1 (length l) then name ++ B "Map" else name) ++ [bQ; bCO] ++ v, true).
Proof.
  intros Hn Hm Hv. unfold json_write_nl_prop_gen. rewrite Hm. destruct v as [|v0 v]; [congruence|].
  apply json_write_prop_first; try discriminate.
  destruct (Nat.ltb 1 (length l)); [destruct name; discriminate|exact Hn].
Qed.

Lemma doc_encode_gen_eq m ty p l v : l <> [] -> m l = Some v -> v <> [] ->
  doc_encode_gen m ty p l = doc_bytes ty p (text_key p l) v.
Proof.
  intros Hl Hm Hv. unfold doc_encode_gen.
  rewrite json_write_prop_first by discriminate.
  change (bLB :: bQ :: B "type" ++ [bQ; bCO] ++ bQ :: ty ++ [bQ]) with (doc_head ty ++ [bQ]).
  assert (Hh : 1 <= length (doc_head ty)) by (unfold doc_head; simpl; lia).
  assert (Hq : bQ <> bCM) by discriminate.
  destruct p.
  1-4: destruct l as [|e l]; [congruence|];
       rewrite (write_nl_prop_gen_eq m (doc_head ty) bQ _ (e :: l) v Hh Hq (pos_term_nonempty _) Hm Hv); reflexivity.
  unfold source_marshal_gen. destruct l as [|e l]; [congruence|].
  rewrite (write_nl_prop_gen_first m (B "content") (e :: l) v) by (assumption || discriminate).
  rewrite json_write_prop_next; try assumption; try discriminate. reflexivity.
Qed.

Lemma string_bytes_type : string_bytes (B "type") = bQ :: B "type" ++ [bQ].
Proof. reflexivity. Qed.
Lemma string_bytes_source : string_bytes (B "source") = bQ :: B "source" ++ [bQ].
Proof. reflexivity. Qed.
Lemma string_bytes_text_key p l : string_bytes (text_key p l) = bQ :: text_key p l ++ [bQ].
Proof. unfold text_key. destruct (Nat.ltb 1 (length l)); destruct p; reflexivity. Qed.

Lemma jprint_doc ty p key j : plain_name ty -> string_bytes key = bQ :: key ++ [bQ] ->
  jprint (match p with
          | PSourceContent => JO [(B "type", JS ty); (B "source", JO [(key, j)])]
          | _ => JO [(B "type", JS ty); (key, j)]
          end) = doc_bytes ty p key (jprint j).
Proof.
  intros Hty Hk. unfold doc_bytes, doc_head.
  destruct p; rewrite !jprint_JO, !pm_cons; cbn [fst snd pm]; rewrite ?jprint_JO, ?pm_cons; cbn [fst snd pm];
    rewrite jprint_JS, string_bytes_type, ?string_bytes_source, Hk, (string_bytes_plain ty Hty);
    lnorm; reflexivity.
Qed.

(* ------------------------------------------------------------------ the readers *)
Definition doc_of (ty : bytes) (p : pos) (key : bytes) (j : jt) : jt :=
  match p with
  | PSourceContent => JO [(B "type", JS ty); (B "source", JO [(key, j)])]
  | _ => JO [(B "type", JS ty); (key, j)]
  end.

Definition read_value (v : fjv) : nl :=
  match v with
  | FObj kvs => nl_of_kvs kvs
  | FStr raw => [(NilRef, fj_unescape raw)]
  | _ => []
  end.

Lemma get_text_doc ku ty p (mp : bool) j :
  get_text ku (fj_of (doc_of ty p (if mp then pos_term p ++ B "Map" else pos_term p) j)) p = read_value (fj_of j).
Proof.
  destruct p, ku, mp; cbn [doc_of fj_of map fst snd]; generalize (fj_of j); intros v; destruct v; reflexivity.
Qed.

Lemma nl_of_kvs_entries l : Forall ok_entry l -> nl_of_kvs (map ofkv (map entry_tree l)) = l.
Proof.
  induction l as [|e r IH]; intros H; [reflexivity|]. inversion H as [|? ? He Hr]; subst.
  destruct (ok_entry_lengths e He) as [_ L2]. destruct He as [V1 [_ [V2 _]]].
  unfold nl_of_kvs in *. cbn [map].
  change (fst (ofkv (entry_tree e))) with (sbody false (fst e)).
  change (fj_string_bytes (snd (ofkv (entry_tree e)))) with (fj_unescape (sbody false (snd e))).
  rewrite (escape_core false _ V1), (escape_core false _ V2). cbn [filter fst snd].
  rewrite L2. simpl negb. rewrite orb_true_r. rewrite (IH Hr). destruct e; reflexivity.
Qed.

Lemma fj_of_entries l : fj_of (JO (map entry_tree l)) = FObj (map ofkv (map entry_tree l)).
Proof. reflexivity. Qed.

Lemma doc_depth ty p key j : jdepth j <= 2 -> jdepth (doc_of ty p key j) <= 300.
Proof.
  intros H. destruct p; cbn [doc_of jdepth fold_right snd];
    destruct (jdepth j) as [|[|[|d]]]; simpl; lia.
Qed.

Lemma entries_depth l : jdepth (JO (map entry_tree l)) <= 2.
Proof.
  cbn [jdepth]. apply le_n_S. induction l as [|e r IH]; [simpl; lia|].
  cbn [map fold_right]. change (jdepth (snd (entry_tree e))) with 1.
  destruct (fold_right (fun (kv : bytes * jt) m => Nat.max (jdepth (snd kv)) m) 0 (map entry_tree r)) as [|[|d]];
    simpl in *; lia.
Qed.

Lemma json_single ku ty p r t : plain_name ty -> valid_utf8 t -> t <> [] ->
  text_after_json_roundtrip ku ty p [(r, t)] = Ok [(NilRef, t)].
Proof.
  intros Hty Hv Ht. unfold text_after_json_roundtrip, doc_decode, doc_encode.
  rewrite (doc_encode_gen_eq nlv_marshal ty p [(r, t)] (string_bytes t));
    [|discriminate|apply nlv_marshal_single; exact Ht|apply string_bytes_nonempty].
  rewrite <- (jprint_JS t).
  pose proof (jprint_doc ty p (text_key p [(r, t)]) (JS t) Hty (string_bytes_text_key p _)) as E.
  rewrite <- E. fold (doc_of ty p (text_key p [(r, t)]) (JS t)).
  rewrite parse_doc by (apply doc_depth; simpl; lia).
  unfold omap, obind. change (text_key p [(r, t)]) with (if false then pos_term p ++ B "Map" else pos_term p).
  rewrite get_text_doc. cbn [fj_of read_value]. rewrite (escape_core false t Hv). reflexivity.
Qed.

(* valid UTF-8 strings are written apart: distinct tags give distinct member names *)
Lemma string_bytes_inj a b : valid_utf8 a -> valid_utf8 b -> string_bytes a = string_bytes b -> a = b.
Proof.
  intros Ha Hb H. rewrite !string_bytes_head in H. inversion H as [H1]. apply app_inv_tail in H1.
  rewrite <- (escape_core false a Ha), <- (escape_core false b Hb), H1. reflexivity.
Qed.

Lemma wkeys_fst l : Forall ok_entry l -> map wkey l = map fst l.
Proof.
  induction 1 as [|e r He Hr IH]; [reflexivity|]. cbn [map]. rewrite IH. unfold wkey.
  destruct He as [Hv _]. rewrite (tag_as_read_valid _ Hv). reflexivity.
Qed.
Lemma wkeys_nodup l : Forall ok_entry l -> NoDup (map fst l) -> NoDup (map wkey l).
Proof. intros Hok Hnd. rewrite (wkeys_fst l Hok). exact Hnd. Qed.

(* a language MAP: the tags are pairwise distinct.  (Of several values under one tag only the first is written, since
   fix 05721dc: json_multi_dup below.) *)
Lemma json_multi ku ty p l : plain_name ty -> 2 <= length l -> Forall ok_entry l -> NoDup (map fst l) ->
  text_after_json_roundtrip ku ty p l = Ok l.
Proof.
  intros Hty Hlen Hok Hnd. apply (wkeys_nodup l Hok) in Hnd. destruct l as [|e1 [|e2 l]]; try (simpl in Hlen; lia).
  unfold text_after_json_roundtrip, doc_decode, doc_encode.
  rewrite (doc_encode_gen_eq nlv_marshal ty p (e1 :: e2 :: l) (jprint (JO (map entry_tree (e1 :: e2 :: l)))));
    [|discriminate|apply nlv_marshal_multi; [exact Hok|exact Hnd]|rewrite jprint_JO; discriminate].
  pose proof (jprint_doc ty p (text_key p (e1 :: e2 :: l)) (JO (map entry_tree (e1 :: e2 :: l))) Hty
                (string_bytes_text_key p _)) as E.
  rewrite <- E. fold (doc_of ty p (text_key p (e1 :: e2 :: l)) (JO (map entry_tree (e1 :: e2 :: l)))).
  rewrite parse_doc by (apply doc_depth, entries_depth).
  unfold omap, obind.
  change (text_key p (e1 :: e2 :: l)) with (if true then pos_term p ++ B "Map" else pos_term p).
  rewrite get_text_doc, fj_of_entries. cbn [read_value]. rewrite (nl_of_kvs_entries _ Hok). reflexivity.
Qed.

Lemma gob_roundtrip p l : text_after_gob_roundtrip p l = l.
Proof. destruct l; reflexivity. Qed.
