(* The reader of whole-second instants of the fixed width (Model/JsonDec.v rfc3339_grammar, the former parse_rfc3339:
   None on every other text) and the model of time.Time.UnmarshalText on all byte strings (read_rfc3339) agree wherever
   the former answers:  rfc3339_grammar s = Some r -> parse_rfc3339 s = Some r
   so time_roundtrip (Proofs/C01TimeP.v) carries over to the total reader the decoder model uses. *)
From AP.Model Require Import Prelude Bytes Vocab JsonLeaf JsonDec.
Open Scope Z_scope.

Lemma num2_digits a b v : num2 a b = Some v -> is_digit a = true /\ is_digit b = true.
Proof.
  unfold num2, digit_val. destruct (is_digit a); [|discriminate]. destruct (is_digit b); [|discriminate]. intros _. split; reflexivity.
Qed.

Theorem rfc3339_grammar_agrees s r : rfc3339_grammar s = Some r -> parse_rfc3339 s = Some r.
Proof.
  intros H. destruct s as [|y1 s]; [exact H|]. unfold parse_rfc3339.
  destruct s as [|y2 s]; [discriminate|]. destruct s as [|y3 s]; [discriminate|]. destruct s as [|y4 s]; [discriminate|].
  destruct s as [|d1 s]; [discriminate|]. destruct s as [|m1 s]; [discriminate|]. destruct s as [|m2 s]; [discriminate|].
  destruct s as [|d2 s]; [discriminate|]. destruct s as [|a1 s]; [discriminate|]. destruct s as [|a2 s]; [discriminate|].
  destruct s as [|t s]; [discriminate|]. destruct s as [|h1 s]; [discriminate|]. destruct s as [|h2 s]; [discriminate|].
  destruct s as [|c1 s]; [discriminate|]. destruct s as [|n1 s]; [discriminate|]. destruct s as [|n2 s]; [discriminate|].
  destruct s as [|c2 s]; [discriminate|]. destruct s as [|s1 s]; [discriminate|]. destruct s as [|s2 rest]; [discriminate|].
  unfold rfc3339_grammar in H.
  destruct (Byte.eqb d1 x2d && Byte.eqb d2 x2d && Byte.eqb t x54 && Byte.eqb c1 x3a && Byte.eqb c2 x3a) eqn:EC; [|discriminate].
  destruct (num2 y1 y2) as [ya|] eqn:E1; [|discriminate]. destruct (num2 y3 y4) as [yb|] eqn:E2; [|discriminate].
  destruct (num2 m1 m2) as [mo|] eqn:E3; [|discriminate]. destruct (num2 a1 a2) as [da|] eqn:E4; [|discriminate].
  destruct (num2 h1 h2) as [ho|] eqn:E5; [|discriminate]. destruct (num2 n1 n2) as [mi|] eqn:E6; [|discriminate].
  destruct (num2 s1 s2) as [se|] eqn:E7; [|discriminate].
  cbv zeta in H.
  unfold read_rfc3339. destruct (num2_digits _ _ _ E5) as [_ Hh2]. rewrite Hh2, EC, E1, E2, E3, E4, E5, E6, E7. cbv zeta.
  destruct ((1 <=? mo) && (mo <=? 12) && (1 <=? da) && (da <=? days_in_month (ya * 100 + yb) mo) && (ho <=? 23) && (mi <=? 59) && (se <=? 59)) eqn:EV;
    [|inversion H; reflexivity].
  destruct rest as [|z rest]; [discriminate|].
  destruct rest as [|o1 rest].
  { destruct (Byte.eqb z x5a) eqn:EZ; [|discriminate]. cbn [read_zone]. rewrite EZ. rewrite Z.sub_0_r. exact H. }
  destruct rest as [|o2 rest]; [discriminate|]. destruct rest as [|oc rest]; [discriminate|].
  destruct rest as [|o3 rest]; [discriminate|]. destruct rest as [|o4 rest]; [discriminate|].
  destruct rest as [|x rest]; [|discriminate].
  destruct (num2 o1 o2) as [oh|] eqn:E8; [|discriminate]. destruct (num2 o3 o4) as [om|] eqn:E9; [|discriminate].
  destruct (Byte.eqb oc x3a) eqn:EO; [|discriminate]. cbn [andb] in H.
  assert (NF : (Byte.eqb z x2e || Byte.eqb z x2c) = false).
  { destruct (Byte.eqb z x2b) eqn:EP.
    - apply Byte.byte_dec_bl in EP. subst z. reflexivity.
    - destruct (Byte.eqb z x2d) eqn:EM; [|discriminate]. apply Byte.byte_dec_bl in EM. subst z. reflexivity. }
  rewrite NF. cbn [andb]. cbn [read_zone]. rewrite E8, E9, EO. cbn [andb].
  destruct (Byte.eqb z x2b || Byte.eqb z x2d); [|discriminate]. cbn [andb].
  destruct ((oh <=? 24) && (om <=? 60)); exact H.
Qed.
