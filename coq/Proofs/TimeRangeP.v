(* JSONWriteTimeProp writes an instant exactly when its UTC year lies in 0000-9999 (Model/JsonLeaf.v time_writable,
   computed from the calendar algorithm as the code computes t.UTC().Year()).  That condition is an interval of
   seconds: 0000-01-01T00:00:00Z .. 9999-12-31T23:59:59Z (C01TimeP.time_dom), for EVERY integer number of seconds -
   one sweep over the 146 097 days of an era for the two era boundaries, arithmetic in the era number elsewhere. *)
From AP.Model Require Import Prelude Bytes Vocab Json JsonLeaf Text JsonDec.
From AP.Proofs Require Import C01SweepP C01TimeP.
Open Scope Z_scope.

(* inside an era: the year of the era stays in 0..399, and the last 60 days of the era (January and February of the
   year that follows year 399) are exactly the days whose civil year is the next era's first *)
Definition doe_year_ok (doe : Z) : bool :=
  let '(yoe, m, d) := civil_doe doe in
  (0 <=? yoe) && (yoe <=? 399) && Bool.eqb (146037 <=? doe) ((yoe =? 399) && (m <=? 2)).

Lemma doe_year_sweep : zsweep doe_year_ok 146097 = true.
Proof. vm_compute. reflexivity. Qed.

Lemma time_dom_days secs : time_dom secs = day_dom (secs / 86400).
Proof.
  unfold time_dom, day_dom.
  pose proof (Z.div_mod secs 86400 ltac:(discriminate)) as E. pose proof (Z.mod_pos_bound secs 86400 ltac:(reflexivity)) as B.
  destruct (-62167219200 <=? secs) eqn:L; destruct (-719528 <=? secs / 86400) eqn:L';
    destruct (secs <=? 253402300799) eqn:U; destruct (secs / 86400 <=? 2932896) eqn:U'; try reflexivity; exfalso;
    rewrite ?Z.leb_le, ?Z.leb_gt in *; lia.
Qed.

Lemma utc_year_days secs : utc_year secs = let '(y, _, _) := civil_from_days (secs / 86400) in y.
Proof. reflexivity. Qed.

Theorem year_range_days z :
  (let '(y, _, _) := civil_from_days z in (0 <=? y) && (y <=? 9999)) = day_dom z.
Proof.
  destruct (day_dom z) eqn:D.
  - pose proof (civil_roundtrip z D) as C. destruct (civil_from_days z) as [[y m] d]. destruct C as [Hy _].
    apply andb_true_iff. split; apply Z.leb_le; lia.
  - pose proof (civil_from_days_era z) as E. cbv zeta in E. rewrite E. clear E.
    set (era := (z + 719468) / 146097). set (doe := (z + 719468) mod 146097).
    assert (Hd : 0 <= doe < 146097) by (apply Z.mod_pos_bound; reflexivity).
    assert (Hz : z + 719468 = 146097 * era + doe) by (apply Z.div_mod; discriminate).
    pose proof (zsweep_sound _ _ doe_year_sweep doe Hd) as S. unfold doe_year_ok in S.
    destruct (civil_doe doe) as [[yoe m] d].
    rewrite !andb_true_iff, !Z.leb_le in S. destruct S as [[S1 S2] S3]. apply Bool.eqb_prop in S3.
    unfold day_dom in D. apply andb_false_iff in D. rewrite !Z.leb_gt in D.
    apply andb_false_iff.
    destruct D as [D|D].
    + (* before 0000-01-01 *)
      left. apply Z.leb_gt.
      assert (He : era <= -1) by lia.
      destruct (Z.eq_dec era (-1)) as [Em1|Ne].
      * assert (Hlt : (146037 <=? doe) = false) by (apply Z.leb_gt; lia). rewrite Hlt in S3. symmetry in S3. apply andb_false_iff in S3.
        destruct (m <=? 2) eqn:Em.
        -- destruct S3 as [S3|S3]; [apply Z.eqb_neq in S3; lia|discriminate].
        -- lia.
      * destruct (m <=? 2); lia.
    + (* after 9999-12-31 *)
      right. apply Z.leb_gt.
      assert (He : 24 <= era) by lia.
      destruct (Z.eq_dec era 24) as [E24|Ne].
      * assert (Hge : (146037 <=? doe) = true) by (apply Z.leb_le; lia). rewrite Hge in S3. symmetry in S3. apply andb_true_iff in S3.
        destruct S3 as [Sy Sm]. apply Z.eqb_eq in Sy. rewrite Sm. lia.
      * destruct (m <=? 2); lia.
Qed.

(* the year test of the code is the interval of seconds of the C01 instant theorem, for every number of seconds *)
Theorem year_range secs : ((0 <=? utc_year secs) && (utc_year secs <=? 9999)) = time_dom secs.
Proof.
  rewrite time_dom_days, <- year_range_days. unfold utc_year. destruct (civil_from_days (secs / 86400)) as [[y m] d]. reflexivity.
Qed.

Theorem time_writable_dom t : time_writable t = time_dom (vsecs t).
Proof. unfold time_writable. cbv zeta. apply year_range. Qed.

Example year_range_ends :
  utc_year (-62167219200) = 0 /\ utc_year (-62167219201) = -1 /\ utc_year 253402300799 = 9999 /\ utc_year 253402300800 = 10000 /\
  utc_year 9223372036854775807 = 292277026596 /\ utc_year (-9223372036854775808) = -292277022657.
Proof. repeat split; vm_compute; reflexivity. Qed.
