(* What url_classify_u = UValid says about the string (the reading  scheme "://" [userinfo "@"] rawhost rawpath
   ["?" query] ["#" fragment]  with host and path percent-decoded), and the consequence for IRI.Equals: for ALL byte
   strings the string fast path (equalFold after cutting fragment and scheme) implies the URL comparison of scheme,
   host and cleaned path, and fold-equal raw queries.  Model: Model/UrlU.v, Model/IriEqU.v. *)
From AP.Model Require Import Prelude Bytes Url IriEq IriNf Vocab Pred CollIri Utf8 FoldTab Fold UrlU IriEqU.
From AP.Proofs Require Import NlvP LowerP IriEqP SortP IriGenP IriNfP IriXP CollIriP Utf8P FoldP DecodeUP CleanUP.

(* ================================================================ url.getScheme *)
Lemma get_scheme_go_spec s : forall first acc whole sch rest,
  get_scheme_go first acc whole s = GS sch rest -> sch <> [] ->
  exists pre, sch = rev acc ++ pre /\ s = pre ++ colon :: rest /\ forallb is_scheme_char pre = true.
Proof.
  induction s as [|c r IH]; intros first acc whole sch rest H Hne.
  - cbn [get_scheme_go] in H. inversion H; subst. exfalso. apply Hne. reflexivity.
  - cbn [get_scheme_go] in H. destruct (is_alpha c) eqn:Ea.
    + destruct (IH _ _ _ _ _ H Hne) as [pre [E1 [E2 E3]]]. exists (c :: pre). simpl in E1. rewrite <- app_assoc in E1.
      split; [exact E1|]. split; [rewrite E2; reflexivity|]. cbn [forallb]. unfold is_scheme_char at 1. rewrite Ea. exact E3.
    + destruct (is_digit c || byte_in c (B "+-.")) eqn:Ed.
      * destruct first; [inversion H; subst; exfalso; apply Hne; reflexivity|].
        destruct (IH _ _ _ _ _ H Hne) as [pre [E1 [E2 E3]]]. exists (c :: pre). simpl in E1. rewrite <- app_assoc in E1.
        split; [exact E1|]. split; [rewrite E2; reflexivity|]. cbn [forallb]. unfold is_scheme_char at 1. rewrite Ea.
        rewrite <- orb_assoc. cbn [orb]. rewrite Ed. exact E3.
      * destruct (Byte.eqb c colon) eqn:Ec.
        -- destruct first; [discriminate|]. inversion H; subst. apply beqb_eq in Ec. subst c.
           exists []. rewrite app_nil_r. auto.
        -- inversion H; subst. exfalso. apply Hne. reflexivity.
Qed.

Lemma get_scheme_spec s sch rest : get_scheme s = GS sch rest -> sch <> [] ->
  s = sch ++ colon :: rest /\ forallb is_scheme_char sch = true.
Proof.
  intros H Hne. destruct (get_scheme_go_spec s true [] s sch rest H Hne) as [pre [E1 [E2 E3]]].
  simpl in E1. subst pre. auto.
Qed.

Lemma get_scheme_alpha s sch rest : get_scheme s = GS sch rest -> sch <> [] ->
  match sch with c0 :: _ => is_alpha c0 = true | [] => False end.
Proof.
  intros H Hne. unfold get_scheme in H. destruct s as [|c r]; [cbn in H; inversion H; subst; congruence|].
  cbn [get_scheme_go] in H. destruct (is_alpha c) eqn:Ea.
  - destruct (get_scheme_go_spec r false [c] (c :: r) sch rest H Hne) as [pre [E _]]. simpl in E. subst sch. exact Ea.
  - destruct (is_digit c || byte_in c (B "+-.")); [inversion H; subst; congruence|].
    destruct (Byte.eqb c colon); [discriminate|inversion H; subst; congruence].
Qed.

(* ================================================================ url.parseAuthority, url.parseHost *)
Lemma cut_last_some c s a b : cut_last c s = Some (a, b) -> s = a ++ c :: b /\ notin c b = true.
Proof.
  revert a b. induction s as [|x r IH]; intros a b H; [discriminate|]. cbn [cut_last] in H.
  destruct (cut_last c r) as [[a' b']|] eqn:E.
  - inversion H; subst. destruct (IH a' b eq_refl) as [E1 E2]. split; [rewrite E1; reflexivity|exact E2].
  - destruct (Byte.eqb x c) eqn:Ex; [|discriminate]. inversion H; subst. apply beqb_eq in Ex. subst x.
    split; [reflexivity|]. clear IH H. induction b as [|y b IH]; [reflexivity|]. cbn [cut_last] in E.
    destruct (cut_last c b) as [[? ?]|]; [discriminate|]. destruct (Byte.eqb y c) eqn:Ey; [discriminate|].
    simpl. rewrite Ey. apply IH. reflexivity.
Qed.

Lemma cut_last_none c s : notin c s = true -> cut_last c s = None.
Proof.
  induction s as [|x r IH]; [reflexivity|]. simpl. rewrite andb_true_iff, negb_true_iff. intros [Hx Hr].
  rewrite (IH Hr), Hx. reflexivity.
Qed.

Lemma notin_existsb c s : existsb (fun b => Byte.eqb b c) s = false -> notin c s = true.
Proof.
  induction s as [|x r IH]; [reflexivity|]. simpl. rewrite orb_false_iff. intros [Hx Hr]. rewrite Hx, (IH Hr). reflexivity.
Qed.

(* whatever parseHost accepts, URL.Host is the percent-decoding of the raw host (brackets, zone and port included) *)
Lemma parse_host_decode rh h : parse_host rh = Some h -> pct_decode rh = Some h.
Proof.
  unfold parse_host. destruct (is_prefix [lbrack] rh).
  - destruct (cut_last rbrack rh) as [[inside after]|] eqn:CL; [|discriminate].
    destruct (valid_optional_port after); [|discriminate].
    destruct (index (B "%25") inside) as [z|] eqn:Ez.
    + destruct (host_bytes_ok (firstn z inside) && zone_bytes_ok (skipn z inside) && host_bytes_ok (rbrack :: after)); [|discriminate].
      unfold decode3. destruct (pct_decode (firstn z inside)) as [x|] eqn:D1; [|discriminate].
      destruct (pct_decode (skipn z inside)) as [y|] eqn:D2; [|discriminate].
      destruct (pct_decode (rbrack :: after)) as [w|] eqn:D3; [|discriminate].
      intros H. inversion H; subst h. destruct (cut_last_some _ _ _ _ CL) as [E _]. rewrite E.
      rewrite <- (firstn_skipn z inside) at 1. rewrite <- app_assoc.
      apply pct_decode_app; [exact D1|]. apply pct_decode_app; assumption.
    + destruct (host_bytes_ok rh); [tauto|discriminate].
  - destruct (last_colon_ok rh && host_bytes_ok rh); [tauto|discriminate].
Qed.

(* the authority: nothing or a userinfo ending in "@" (the LAST "@" of the authority), then the raw host *)
Definition uprefix (up : bytes) : Prop := up = [] \/ exists ui, up = ui ++ [atsign].

Lemma parse_authority_struct au user h : parse_authority au = Some (user, h) ->
  exists up rh, au = up ++ rh /\ uprefix up /\ notin atsign rh = true /\ parse_host rh = Some h /\ pct_decode rh = Some h.
Proof.
  unfold parse_authority. destruct (cut_last atsign au) as [[ui hp]|] eqn:CL.
  - destruct (cut_last_some _ _ _ _ CL) as [E N]. destruct (parse_host hp) as [h'|] eqn:PH; [|discriminate].
    destruct (parse_userinfo ui); [|discriminate]. intros H. inversion H; subst.
    exists (ui ++ [atsign]), hp. split; [rewrite <- app_assoc; reflexivity|]. split; [right; exists ui; reflexivity|].
    split; [exact N|]. split; [exact PH|apply parse_host_decode; exact PH].
  - destruct (parse_host au) as [h'|] eqn:PH; [|discriminate]. intros H. inversion H; subst.
    exists [], au. split; [reflexivity|]. split; [left; reflexivity|]. split; [|split; [exact PH|apply parse_host_decode; exact PH]].
    clear -CL. induction au as [|y b IH]; [reflexivity|]. cbn [cut_last] in CL.
    destruct (cut_last atsign b) as [[? ?]|]; [discriminate|]. destruct (Byte.eqb y atsign) eqn:Ey; [discriminate|].
    simpl. rewrite Ey. apply IH. reflexivity.
Qed.

(* conversely: a userinfo url.validUserinfo accepts and whose escapes are well formed, in front of a host without "@" *)
Definition userinfo_ok (ui : bytes) : bool := match parse_userinfo ui with Some _ => true | None => false end.

Lemma parse_authority_user ui rh h : userinfo_ok ui = true -> notin atsign rh = true -> parse_host rh = Some h ->
  exists user, parse_authority (ui ++ atsign :: rh) = Some (Some user, h).
Proof.
  intros U N PH. unfold parse_authority.
  assert (cut_last atsign (ui ++ atsign :: rh) = Some (ui, rh)) as ->.
  { clear U. induction ui as [|x r IH]; simpl.
    - rewrite (cut_last_none _ _ N). reflexivity.
    - rewrite IH. reflexivity. }
  rewrite PH. unfold userinfo_ok in U. destruct (parse_userinfo ui) as [up|]; [|discriminate]. exists up. reflexivity.
Qed.

Lemma parse_authority_plain rh h : notin atsign rh = true -> parse_host rh = Some h -> parse_authority rh = Some (None, h).
Proof. intros N PH. unfold parse_authority. rewrite (cut_last_none _ _ N), PH. reflexivity. Qed.

(* ================================================================ the reading of a valid URL *)
Record ustruct (s sch up rh rp : bytes) (qo fo : option bytes) : Prop := {
  us_string : s = (sch ++ B "://" ++ up ++ rh ++ rp ++ tail_of qmark qo) ++ tail_of hash fo;
  us_nohash : notin hash (sch ++ B "://" ++ up ++ rh ++ rp ++ tail_of qmark qo) = true;
  us_scheme : forallb is_scheme_char sch = true;
  us_scheme_ne : sch <> [];
  us_user : uprefix up;
  us_user_noslash : notin slash up = true;
  us_user_noq : notin qmark up = true;
  us_host_noat : notin atsign rh = true;
  us_host_noslash : notin slash rh = true;
  us_host_noq : notin qmark rh = true;
  us_path_root : rp = [] \/ exists p, rp = slash :: p;
  us_path_noq : notin qmark rp = true
}.

Lemma lower_nonempty s : nonempty (lower s) = nonempty s.
Proof. destruct s; reflexivity. Qed.

Lemma notin_app_l c a b : notin c (a ++ b) = true -> notin c a = true.
Proof. rewrite notin_app, andb_true_iff. tauto. Qed.
Lemma notin_app_r c a b : notin c (a ++ b) = true -> notin c b = true.
Proof. rewrite notin_app, andb_true_iff. tauto. Qed.

Lemma is_prefix_2 a b s : is_prefix [a; b] s = true -> s = a :: b :: skipn 2 s.
Proof. intros H. apply is_prefix_true in H. exact H. Qed.

(* a raw host of the plain kind: no userinfo before it, no IP literal; parseHost accepts it as it is *)
Definition rawhost_ok (rh : bytes) : bool :=
  negb (existsb (fun b => Byte.eqb b atsign) rh) && negb (is_prefix [lbrack] rh) && last_colon_ok rh && host_bytes_ok rh.

Lemma rawhost_ok_parse rh h : rawhost_ok rh = true -> pct_decode rh = Some h ->
  notin atsign rh = true /\ parse_host rh = Some h.
Proof.
  unfold rawhost_ok. rewrite !andb_true_iff, !negb_true_iff. intros [[[H1 H2] H3] H4] D.
  split; [apply notin_existsb; exact H1|]. unfold parse_host. rewrite H2, H3, H4. exact D.
Qed.

Lemma core_valid_struct via nofrag u0 :
  url_parse_core via nofrag = UUrl u0 -> nonempty (uu_scheme u0) = true -> nonempty (uu_host u0) = true ->
  exists sch up rh rp qo,
    nofrag = sch ++ B "://" ++ up ++ rh ++ rp ++ tail_of qmark qo /\
    forallb is_scheme_char sch = true /\ sch <> [] /\
    uprefix up /\ notin slash up = true /\ notin qmark up = true /\ notin atsign rh = true /\
    notin slash rh = true /\ notin qmark rh = true /\
    (rp = [] \/ exists p, rp = slash :: p) /\ notin qmark rp = true /\
    uu_scheme u0 = lower sch /\ pct_decode rh = Some (uu_host u0) /\ pct_decode rp = Some (uu_path u0) /\ uu_query u0 = qo /\
    existsb is_ctl nofrag = false /\ parse_host rh = Some (uu_host u0) /\
    match sch with c0 :: _ => is_alpha c0 = true | [] => False end.
Proof.
  unfold url_parse_core. destruct (existsb is_ctl nofrag) eqn:Ctl; [discriminate|].
  destruct (via && negb (nonempty nofrag)); [discriminate|].
  destruct (bytes_eqb nofrag [star]); [intros H; inversion H; subst; discriminate|].
  destruct (get_scheme nofrag) as [|sch0 rest0] eqn:G; [discriminate|].
  destruct (IriNfP.cut_byte_spec qmark rest0) as [Nq Eq]. destruct (cut_byte qmark rest0) as [rest query]. cbn [fst snd] in Nq, Eq.
  rewrite lower_nonempty.
  destruct (nonempty sch0) eqn:Ns.
  2:{ (* no scheme: whatever the branch, the scheme of the result is empty *)
      intros H Hs Hh. exfalso. destruct sch0; [|discriminate]. unfold set_path in H.
      repeat match type of H with
             | (if ?c then _ else _) = _ => destruct c
             | (let '(_, _) := ?c in _) = _ => destruct c
             | match ?c with _ => _ end = _ => destruct c
             end; try discriminate; inversion H; subst u0; discriminate. }
  assert (Hne : sch0 <> []) by (destruct sch0; [discriminate|congruence]).
  destruct (get_scheme_spec _ _ _ G Hne) as [Es Hsch].
  destruct (is_prefix [slash] rest) eqn:R; cbn [negb andb orb].
  2:{ intros H _ Hh. inversion H; subst u0. discriminate. }
  destruct (is_prefix (B "//") rest) eqn:R2.
  2:{ intros H _ Hh. unfold set_path in H. destruct (pct_decode rest); [|discriminate]. inversion H; subst u0. discriminate. }
  destruct (IriNfP.cut_byte_spec slash (skipn 2 rest)) as [Nsl Esl].
  destruct (cut_byte slash (skipn 2 rest)) as [au pr]. cbn [fst snd] in Nsl, Esl.
  destruct (parse_authority au) as [[user h]|] eqn:PA; [|discriminate].
  unfold set_path. cbn [uu_scheme uu_opaque uu_user uu_host uu_query uu_frag uu_rawfrag uu_omit].
  match goal with |- context [pct_decode ?x] => destruct (pct_decode x) as [d|] eqn:PD end; [|discriminate].
  intros H _ _. inversion H; subst u0; clear H. cbn [uu_scheme uu_host uu_path uu_query].
  destruct (parse_authority_struct au user h PA) as [up [rh [Eau [Hup [Nat [PH Dh]]]]]].
  exists sch0, up, rh, (tail_of slash pr), query.
  pose proof (is_prefix_2 _ _ _ R2) as Er. rewrite Esl in Er.
  assert (Nq2 : notin qmark (au ++ tail_of slash pr) = true).
  { rewrite Er in Nq. simpl in Nq. exact Nq. }
  rewrite Eau in Nsl, Nq2, Er.
  split; [rewrite Es, Eq, Er; simpl; rewrite <- !app_assoc; reflexivity|].
  split; [exact Hsch|]. split; [exact Hne|]. split; [exact Hup|].
  split; [apply (notin_app_l _ _ _ Nsl)|]. split; [apply (notin_app_l _ _ _ (notin_app_l _ _ _ Nq2))|].
  split; [exact Nat|]. split; [apply (notin_app_r _ _ _ Nsl)|]. split; [apply (notin_app_r _ _ _ (notin_app_l _ _ _ Nq2))|].
  split; [destruct pr as [p0|]; [right; exists p0; reflexivity|left; reflexivity]|].
  split; [apply (notin_app_r _ _ _ Nq2)|]. split; [reflexivity|]. split; [exact Dh|].
  split; [destruct pr; exact PD|]. split; [reflexivity|]. split; [reflexivity|]. split; [exact PH|].
  exact (get_scheme_alpha _ _ _ G Hne).
Qed.

Definition frag_fields (fo : option bytes) : option (bytes * bytes) :=
  match fo with
  | None | Some [] => Some ([], [])
  | Some f => match pct_decode f with
              | Some d => Some (d, if bytes_eqb f (frag_escape d) then [] else f)
              | None => None
              end
  end.

Lemma core_frag_nil via s u0 : url_parse_core via s = UUrl u0 -> uu_frag u0 = [].
Proof.
  unfold url_parse_core, set_path. intros H.
  repeat match type of H with
         | (if ?c then _ else _) = _ => destruct c
         | (let '(_, _) := ?c in _) = _ => destruct c
         | match ?c with _ => _ end = _ => destruct c
         end; try discriminate; inversion H; subst u0; reflexivity.
Qed.

(* everything url.Parse established on the way *)
Lemma classify_u_full s u : url_classify_u s = UValid u ->
  exists sch up rh rp qo fo, ustruct s sch up rh rp qo fo /\
    u_scheme u = lower sch /\ pct_decode rh = Some (u_host u) /\ pct_decode rp = Some (u_path u) /\ u_query u = opt_or_nil qo /\
    existsb is_ctl (sch ++ B "://" ++ up ++ rh ++ rp ++ tail_of qmark qo) = false /\ parse_host rh = Some (u_host u) /\
    match sch with c0 :: _ => is_alpha c0 = true | [] => False end /\
    (exists rf, frag_fields fo = Some (u_frag u, rf)) /\ u_host u <> [].
Proof.
  unfold url_classify_u. destruct s as [|c0 s0]; [discriminate|]. remember (c0 :: s0) as s eqn:Hs. clear Hs.
  unfold url_parse_u. destruct (IriNfP.cut_byte_spec hash s) as [Nh Eh]. destruct (cut_byte hash s) as [nofrag frag]. cbn [fst snd] in Nh, Eh.
  destruct (url_parse_core false nofrag) as [u0| |] eqn:PC; try discriminate.
  assert (K : forall uu, uu_scheme uu = uu_scheme u0 -> uu_host uu = uu_host u0 -> uu_path uu = uu_path u0 -> uu_query uu = uu_query u0 ->
    (exists rf, frag_fields frag = Some (uu_frag uu, rf)) ->
    (if nonempty (uu_scheme uu) && nonempty (uu_host uu)
     then UValid {| u_scheme := uu_scheme uu; u_host := uu_host uu; u_path := uu_path uu;
                    u_query := match uu_query uu with Some q => q | None => [] end; u_frag := uu_frag uu |}
     else UFallback) = UValid u ->
    exists sch up rh rp qo fo, ustruct s sch up rh rp qo fo /\
      u_scheme u = lower sch /\ pct_decode rh = Some (u_host u) /\ pct_decode rp = Some (u_path u) /\ u_query u = opt_or_nil qo /\
      existsb is_ctl (sch ++ B "://" ++ up ++ rh ++ rp ++ tail_of qmark qo) = false /\ parse_host rh = Some (u_host u) /\
      match sch with c1 :: _ => is_alpha c1 = true | [] => False end /\
      (exists rf, frag_fields fo = Some (u_frag u, rf)) /\ u_host u <> []).
  { intros uu E1 E2 E3 E4 FF. rewrite E1, E2, E3, E4.
    destruct (nonempty (uu_scheme u0)) eqn:N1; [|discriminate]. destruct (nonempty (uu_host u0)) eqn:N2; [|discriminate].
    cbn [andb]. intros H. inversion H; subst u; clear H. cbn [u_scheme u_host u_path u_query u_frag].
    destruct (core_valid_struct false nofrag u0 PC N1 N2) as [sch [up [rh [rp [qo [En [Hsch [Hne [Hup [Us [Uq [Nat [Nsl [Nq [Hroot [Nqp [Esc [Dh [Dp [Eq [Ctl [PH Ha]]]]]]]]]]]]]]]]]]]]]].
    exists sch, up, rh, rp, qo, frag. split; [constructor; try assumption|].
    - rewrite Eh at 1. rewrite En. reflexivity.
    - rewrite <- En. exact Nh.
    - rewrite Eq. split; [exact Esc|]. split; [exact Dh|]. split; [exact Dp|]. split; [destruct qo; reflexivity|].
      split; [rewrite <- En; exact Ctl|]. split; [exact PH|]. split; [exact Ha|]. split; [exact FF|].
      destruct (uu_host u0); [discriminate N2|discriminate]. }
  pose proof (core_frag_nil _ _ _ PC) as F0.
  destruct frag as [[|f0 f]|].
  - apply K; try reflexivity. exists []. rewrite F0. reflexivity.
  - destruct (pct_decode (f0 :: f)) as [fd|] eqn:FD; [|discriminate]. apply K; try reflexivity.
    cbn [uu_frag]. unfold frag_fields. rewrite FD. eexists. reflexivity.
  - apply K; try reflexivity. exists []. rewrite F0. reflexivity.
Qed.

Lemma classify_u_struct s u : url_classify_u s = UValid u ->
  exists sch up rh rp qo fo, ustruct s sch up rh rp qo fo /\
    u_scheme u = lower sch /\ pct_decode rh = Some (u_host u) /\ pct_decode rp = Some (u_path u) /\ u_query u = opt_or_nil qo.
Proof.
  intros H. destruct (classify_u_full s u H) as [sch [up [rh [rp [qo [fo [S [E1 [E2 [E3 [E4 _]]]]]]]]]]].
  exists sch, up, rh, rp, qo, fo. auto.
Qed.

(* ================================================================ alphabets *)
Lemma scheme_char_ascii_all : forallb (fun b => implb (is_scheme_char b) (is_asciib b)) all_bytes = true.
Proof. vm_compute. reflexivity. Qed.
Lemma scheme_ascii sch : forallb is_scheme_char sch = true -> forallb is_asciib sch = true.
Proof. apply forallb_impl. intros x Hx. pose proof (sweep _ scheme_char_ascii_all x) as S. cbv beta in S. rewrite Hx in S. exact S. Qed.

(* ================================================================ the fast path, component by component *)
Lemma uc_tail d o : is_delim d = true -> scanon (tail_of d o) = match o with Some y => byteN d :: scanon y | None => [] end.
Proof. intros D. destruct o as [y|]; [|reflexivity]. simpl. rewrite (uc_cons_ascii d y (delim_ascii d D)), (canon_delim_self d D). reflexivity. Qed.

Lemma starts_tail d o : is_delim d = true -> starts (tail_of d o).
Proof. intros D. destruct o; [apply starts_ascii, delim_ascii; exact D|exact I]. Qed.

Definition hostpN (n : N) : bool := isnt slash n && isnt qmark n.

Lemma colon_delim : is_delim colon = true. Proof. reflexivity. Qed.
Lemma qmark_delim : is_delim qmark = true. Proof. reflexivity. Qed.
Lemma hash_delim : is_delim hash = true. Proof. reflexivity. Qed.
Lemma atsign_delim : is_delim atsign = true. Proof. reflexivity. Qed.

Lemma forallb_and {A} (P Q : A -> bool) l : forallb P l = true -> forallb Q l = true -> forallb (fun x => P x && Q x) l = true.
Proof. rewrite !forallb_forall. intros H1 H2 x Hx. rewrite (H1 x Hx), (H2 x Hx). reflexivity. Qed.

(* unique reading from the right: what follows the LAST occurrence of a number *)
Lemma suffix_unique_N (P : N -> bool) x y d d' r r' :
  forallb P r = true -> forallb P r' = true -> P d = false -> P d' = false ->
  x ++ d :: r = y ++ d' :: r' -> x = y /\ r = r'.
Proof.
  intros Hr Hr' Hd Hd' E. apply (f_equal (@rev N)) in E. rewrite !rev_app_distr in E. cbn [rev] in E. rewrite <- !app_assoc in E. cbn [app] in E.
  apply (span_unique_N P) in E.
  - destruct E as [E1 E2]. injection E2 as _ E3. split.
    + rewrite <- (rev_involutive x), E3, rev_involutive. reflexivity.
    + rewrite <- (rev_involutive r), E1, rev_involutive. reflexivity.
  - rewrite forallb_forall in *. intros z Hz. apply Hr. apply in_rev. exact Hz.
  - rewrite forallb_forall in *. intros z Hz. apply Hr'. apply in_rev. exact Hz.
  - exact Hd.
  - exact Hd'.
Qed.

(* the host is what follows the last "@" of the authority, on both sides *)
Lemma auth_host_u upa ha upb hb :
  uprefix upa -> uprefix upb -> notin atsign ha = true -> notin atsign hb = true ->
  scanon (upa ++ ha) = scanon (upb ++ hb) -> scanon ha = scanon hb.
Proof.
  intros Ua Ub Na Nb E.
  assert (At : forall ui h, scanon ((ui ++ [atsign]) ++ h) = scanon ui ++ byteN atsign :: scanon h).
  { intros ui h. rewrite <- app_assoc. cbn [app]. rewrite (uc_app_ascii ui atsign h eq_refl), (canon_delim_self atsign atsign_delim). reflexivity. }
  assert (No : forall h, notin atsign h = true -> ~ In (byteN atsign) (scanon h)).
  { intros h Nh Hin. apply (uc_in_delim h atsign atsign_delim) in Hin. unfold notin in Nh. rewrite forallb_forall in Nh.
    specialize (Nh _ Hin). rewrite beqb_refl in Nh. discriminate. }
  destruct Ua as [->|[uia ->]], Ub as [->|[uib ->]].
  - exact E.
  - exfalso. rewrite At in E. cbn [app] in E. apply (No ha Na). rewrite E. apply in_or_app. right. left. reflexivity.
  - exfalso. rewrite At in E. cbn [app] in E. apply (No hb Nb). rewrite <- E. apply in_or_app. right. left. reflexivity.
  - rewrite !At in E. apply (suffix_unique_N (isnt atsign)) in E.
    + tauto.
    + apply notin_scanon; [exact atsign_delim|exact Na].
    + apply notin_scanon; [exact atsign_delim|exact Nb].
    + unfold isnt. rewrite N.eqb_refl. reflexivity.
    + unfold isnt. rewrite N.eqb_refl. reflexivity.
Qed.

Lemma fast_strings_u a b cs sa ua ha pa qa fa sb ub hb pb qb fb :
  ustruct a sa ua ha pa qa fa -> ustruct b sb ub hb pb qb fb ->
  scanon (strip_for cs a) = scanon (strip_for cs b) ->
  (cs = true -> scanon sa = scanon sb) /\
  scanon ha = scanon hb /\ scanon pa = scanon pb /\ scanon (opt_or_nil qa) = scanon (opt_or_nil qb).
Proof.
  intros Sa Sb Hf.
  assert (strip_fragment a = sa ++ B "://" ++ ua ++ ha ++ pa ++ tail_of qmark qa) as Fa.
  { rewrite (us_string _ _ _ _ _ _ _ Sa) at 1. apply strip_fragment_cut; [|apply (us_nohash _ _ _ _ _ _ _ Sa)].
    pose proof (us_scheme_ne _ _ _ _ _ _ _ Sa). destruct sa; [congruence|discriminate]. }
  assert (strip_fragment b = sb ++ B "://" ++ ub ++ hb ++ pb ++ tail_of qmark qb) as Fb.
  { rewrite (us_string _ _ _ _ _ _ _ Sb) at 1. apply strip_fragment_cut; [|apply (us_nohash _ _ _ _ _ _ _ Sb)].
    pose proof (us_scheme_ne _ _ _ _ _ _ _ Sb). destruct sb; [congruence|discriminate]. }
  assert (notin colon sa = true) as Ca by (apply (notin_class is_scheme_char); [reflexivity|apply (us_scheme _ _ _ _ _ _ _ Sa)]).
  assert (notin colon sb = true) as Cb by (apply (notin_class is_scheme_char); [reflexivity|apply (us_scheme _ _ _ _ _ _ _ Sb)]).
  assert (Sep : forall r, scanon (B "://" ++ r) = [byteN colon; byteN slash; byteN slash] ++ scanon r).
  { intros r. change (B "://" ++ r) with (colon :: slash :: slash :: r). rewrite !uc_cons_ascii by reflexivity. reflexivity. }
  assert (Sch : forall s r, scanon (s ++ B "://" ++ r) = scanon s ++ byteN colon :: [byteN slash; byteN slash] ++ scanon r).
  { intros s r. change (B "://" ++ r) with (colon :: slash :: slash :: r). rewrite (uc_app_ascii s colon) by reflexivity.
    rewrite !uc_cons_ascii by reflexivity. reflexivity. }
  (* everything after the scheme *)
  assert ((cs = true -> scanon sa = scanon sb) /\
          scanon (ua ++ ha ++ pa ++ tail_of qmark qa) = scanon (ub ++ hb ++ pb ++ tail_of qmark qb)) as [Hs Hrest].
  { unfold strip_for in Hf. destruct cs.
    - rewrite Fa, Fb, !Sch in Hf.
      apply (span_unique_N (isnt colon)) in Hf;
        [|apply notin_scanon; [exact colon_delim|exact Ca]|apply notin_scanon; [exact colon_delim|exact Cb]
         |simpl; unfold isnt; rewrite N.eqb_refl; reflexivity|simpl; unfold isnt; rewrite N.eqb_refl; reflexivity].
      destruct Hf as [H1 H2]. split; [intros _; exact H1|]. inversion H2. reflexivity.
    - rewrite Fa, Fb, !strip_scheme_cut in Hf by assumption. split; [discriminate|].
      rewrite !Sep in Hf. apply app_inv_head in Hf. exact Hf. }
  split; [exact Hs|].
  (* authority *)
  assert (StA : starts (pa ++ tail_of qmark qa)).
  { destruct (us_path_root _ _ _ _ _ _ _ Sa) as [->|[p ->]]; [apply starts_tail; exact qmark_delim|apply starts_ascii; reflexivity]. }
  assert (StB : starts (pb ++ tail_of qmark qb)).
  { destruct (us_path_root _ _ _ _ _ _ _ Sb) as [->|[p ->]]; [apply starts_tail; exact qmark_delim|apply starts_ascii; reflexivity]. }
  rewrite (app_assoc ua ha), (app_assoc ub hb) in Hrest.
  rewrite (uc_app_sync (ua ++ ha) _ StA), (uc_app_sync (ub ++ hb) _ StB) in Hrest.
  rewrite (uc_app_sync pa _ (starts_tail qmark qa qmark_delim)), (uc_app_sync pb _ (starts_tail qmark qb qmark_delim)) in Hrest.
  rewrite !(uc_tail qmark) in Hrest by exact qmark_delim.
  assert (StopH : forall p q, (p = [] \/ exists p0, p = slash :: p0) ->
            stopsN hostpN (scanon p ++ match q with Some y => byteN qmark :: scanon y | None => [] end)).
  { intros p q [->|[p0 ->]].
    - destruct q; simpl; [reflexivity|exact I].
    - rewrite (uc_cons_ascii slash p0 eq_refl). simpl. reflexivity. }
  assert (AuA : forallb hostpN (scanon (ua ++ ha)) = true).
  { apply forallb_and; apply notin_scanon; try reflexivity; rewrite notin_app.
    - rewrite (us_user_noslash _ _ _ _ _ _ _ Sa), (us_host_noslash _ _ _ _ _ _ _ Sa). reflexivity.
    - rewrite (us_user_noq _ _ _ _ _ _ _ Sa), (us_host_noq _ _ _ _ _ _ _ Sa). reflexivity. }
  assert (AuB : forallb hostpN (scanon (ub ++ hb)) = true).
  { apply forallb_and; apply notin_scanon; try reflexivity; rewrite notin_app.
    - rewrite (us_user_noslash _ _ _ _ _ _ _ Sb), (us_host_noslash _ _ _ _ _ _ _ Sb). reflexivity.
    - rewrite (us_user_noq _ _ _ _ _ _ _ Sb), (us_host_noq _ _ _ _ _ _ _ Sb). reflexivity. }
  apply (span_unique_N hostpN) in Hrest;
    [|exact AuA|exact AuB|apply StopH; apply (us_path_root _ _ _ _ _ _ _ Sa)|apply StopH; apply (us_path_root _ _ _ _ _ _ _ Sb)].
  destruct Hrest as [Hau Hrest].
  split; [exact (auth_host_u ua ha ub hb (us_user _ _ _ _ _ _ _ Sa) (us_user _ _ _ _ _ _ _ Sb)
                   (us_host_noat _ _ _ _ _ _ _ Sa) (us_host_noat _ _ _ _ _ _ _ Sb) Hau)|].
  (* path *)
  apply (span_unique_N (isnt qmark)) in Hrest;
    [|apply notin_scanon; [exact qmark_delim|apply (us_path_noq _ _ _ _ _ _ _ Sa)]
     |apply notin_scanon; [exact qmark_delim|apply (us_path_noq _ _ _ _ _ _ _ Sb)]
     |destruct qa; simpl; [unfold isnt; rewrite N.eqb_refl; reflexivity|exact I]
     |destruct qb; simpl; [unfold isnt; rewrite N.eqb_refl; reflexivity|exact I]].
  destruct Hrest as [Hp Hq]. split; [exact Hp|].
  destruct qa, qb; try discriminate; [injection Hq as Hq; exact Hq|reflexivity].
Qed.

(* the scheme url.Parse hands out is lower-cased; scheme bytes are ASCII *)
Lemma lower_byte_ascii_all : forallb (fun b => implb (is_asciib b) (is_asciib (lower_byte b))) all_bytes = true.
Proof. vm_compute. reflexivity. Qed.
Lemma lower_ascii s : forallb is_asciib s = true -> forallb is_asciib (lower s) = true.
Proof.
  intros H. unfold lower. rewrite forallb_forall in *. intros x Hx. apply in_map_iff in Hx. destruct Hx as [y [<- Hy]].
  specialize (H y Hy). pose proof (sweep _ lower_byte_ascii_all y) as S. cbv beta in S. rewrite H in S. exact S.
Qed.

(* ALL byte strings: no condition but that both parse to a URL with scheme and host *)
Theorem fast_u a b cs u w :
  url_classify_u a = UValid u -> url_classify_u b = UValid w ->
  sfold_eqb (strip_for cs a) (strip_for cs b) = true ->
  (cs = true -> scanon (u_scheme u) = scanon (u_scheme w)) /\
  scanon (u_host u) = scanon (u_host w) /\
  scanon (clean_url_path path_clean (u_path u)) = scanon (clean_url_path path_clean (u_path w)) /\
  scanon (u_query u) = scanon (u_query w).
Proof.
  intros Ha Hb Hf. apply sfold_eqb_eq in Hf.
  destruct (classify_u_struct a u Ha) as [sa [ua [ha [pa [qa [fa [Sa [Sca [Dha [Dpa Qa]]]]]]]]]].
  destruct (classify_u_struct b w Hb) as [sb [ub [hb [pb [qb [fb [Sb [Scb [Dhb [Dpb Qb]]]]]]]]]].
  destruct (fast_strings_u a b cs _ _ _ _ _ _ _ _ _ _ _ _ Sa Sb Hf) as [Hs [Hh [Hp Hq]]].
  split; [|split; [|split]].
  - intros Hcs. rewrite Sca, Scb.
    pose proof (scheme_ascii _ (us_scheme _ _ _ _ _ _ _ Sa)) as Aa. pose proof (scheme_ascii _ (us_scheme _ _ _ _ _ _ _ Sb)) as Ab.
    apply (scanon_ascii_lower _ _ (lower_ascii _ Aa) (lower_ascii _ Ab)). rewrite !lower_idem.
    apply (scanon_ascii_lower _ _ Aa Ab). exact (Hs Hcs).
  - exact (pct_decode_scanon ha hb _ _ Hh Dha Dhb).
  - apply clean_url_path_feq. exact (pct_decode_scanon pa pb _ _ Hp Dpa Dpb).
  - rewrite Qa, Qb. exact Hq.
Qed.

(* ================================================================ the converse: url.Parse on a string read that way *)
Lemma get_scheme_go_app pre : forall first acc whole rest,
  forallb is_scheme_char pre = true ->
  (first = true -> match pre with c0 :: _ => is_alpha c0 = true | [] => False end) ->
  (first = false -> acc <> []) ->
  get_scheme_go first acc whole (pre ++ colon :: rest) = GS (rev acc ++ pre) rest.
Proof.
  induction pre as [|c pre IH]; intros first acc whole rest Hp Hf Ha.
  - destruct first; [destruct (Hf eq_refl)|]. cbn [app get_scheme_go]. change (is_alpha colon) with false.
    change (is_digit colon || byte_in colon (B "+-.")) with false. cbn iota. rewrite beqb_refl, app_nil_r. reflexivity.
  - cbn [app get_scheme_go]. cbn [forallb] in Hp. apply andb_true_iff in Hp. destruct Hp as [Hc Hp].
    assert (Next : get_scheme_go false (c :: acc) whole (pre ++ colon :: rest) = GS (rev acc ++ c :: pre) rest).
    { rewrite (IH false (c :: acc) whole rest Hp); [|discriminate|intros _; discriminate].
      simpl. rewrite <- app_assoc. reflexivity. }
    destruct (is_alpha c) eqn:Ea; [exact Next|].
    unfold is_scheme_char in Hc. rewrite Ea in Hc. cbn [orb] in Hc. rewrite Hc.
    destruct first; [|exact Next]. specialize (Hf eq_refl). simpl in Hf. congruence.
Qed.

Lemma get_scheme_app sch rest :
  forallb is_scheme_char sch = true -> match sch with c0 :: _ => is_alpha c0 = true | [] => False end ->
  get_scheme (sch ++ colon :: rest) = GS sch rest.
Proof.
  intros Hs Ha. unfold get_scheme. rewrite (get_scheme_go_app sch true [] _ rest Hs (fun _ => Ha)); [reflexivity|discriminate].
Qed.

Lemma cut_byte_app_tail c x o : notin c x = true -> cut_byte c (x ++ tail_of c o) = (x, o).
Proof.
  intros Hn. induction x as [|a x IH]; simpl.
  - destruct o; [simpl; rewrite beqb_refl|]; reflexivity.
  - simpl in Hn. rewrite andb_true_iff, negb_true_iff in Hn. destruct Hn as [Ha Hn]. rewrite Ha, (IH Hn). reflexivity.
Qed.

(* with any authority url.parseAuthority accepts *)
Lemma parse_core_auth via sch au rp qo user h d :
  forallb is_scheme_char sch = true -> match sch with c0 :: _ => is_alpha c0 = true | [] => False end ->
  existsb is_ctl (sch ++ B "://" ++ au ++ rp ++ tail_of qmark qo) = false ->
  notin slash au = true -> notin qmark (au ++ rp) = true -> parse_authority au = Some (user, h) ->
  (rp = [] \/ exists p, rp = slash :: p) -> pct_decode rp = Some d ->
  url_parse_core via (sch ++ B "://" ++ au ++ rp ++ tail_of qmark qo) =
  UUrl {| uu_scheme := lower sch; uu_opaque := []; uu_user := user; uu_host := h; uu_path := d;
          uu_rawpath := if bytes_eqb rp (path_escape d) then [] else rp;
          uu_query := qo; uu_frag := []; uu_rawfrag := []; uu_omit := false |}.
Proof.
  intros Hs Ha Hctl Hsl Hq PA Hroot Dp.
  unfold url_parse_core. rewrite Hctl.
  assert (nonempty (sch ++ B "://" ++ au ++ rp ++ tail_of qmark qo) = true) as ->.
  { destruct sch; [destruct Ha|reflexivity]. }
  rewrite andb_false_r.
  assert (bytes_eqb (sch ++ B "://" ++ au ++ rp ++ tail_of qmark qo) [star] = false) as ->.
  { apply bytes_eqb_neq. destruct sch as [|c0 [|c1 t]]; [destruct Ha|discriminate|discriminate]. }
  change (sch ++ B "://" ++ au ++ rp ++ tail_of qmark qo) with (sch ++ colon :: (B "//" ++ au ++ rp ++ tail_of qmark qo)).
  rewrite (get_scheme_app sch _ Hs Ha).
  replace (B "//" ++ au ++ rp ++ tail_of qmark qo) with ((B "//" ++ au ++ rp) ++ tail_of qmark qo) by (rewrite <- !app_assoc; reflexivity).
  rewrite (cut_byte_app_tail qmark (B "//" ++ au ++ rp) qo) by exact Hq.
  rewrite lower_nonempty. assert (nonempty sch = true) as -> by (destruct sch; [destruct Ha|reflexivity]).
  change (is_prefix [slash] (B "//" ++ au ++ rp)) with true. change (is_prefix (B "//") (B "//" ++ au ++ rp)) with true.
  cbn [negb andb orb]. change (skipn 2 (B "//" ++ au ++ rp)) with (au ++ rp).
  assert (exists pr, rp = tail_of slash pr) as [pr Epr].
  { destruct Hroot as [->|[p ->]]; [exists None|exists (Some p)]; reflexivity. }
  subst rp. rewrite (cut_byte_app_tail slash au pr Hsl). rewrite PA.
  unfold set_path. change (match pr with Some p => slash :: p | None => [] end) with (tail_of slash pr).
  cbn [uu_scheme uu_opaque uu_user uu_host uu_query uu_frag uu_rawfrag uu_omit].
  rewrite Dp. reflexivity.
Qed.

Lemma parse_u_auth sch au rp qo fo user h d :
  forallb is_scheme_char sch = true -> match sch with c0 :: _ => is_alpha c0 = true | [] => False end ->
  existsb is_ctl (sch ++ B "://" ++ au ++ rp ++ tail_of qmark qo) = false ->
  notin hash (sch ++ B "://" ++ au ++ rp ++ tail_of qmark qo) = true ->
  notin slash au = true -> notin qmark (au ++ rp) = true -> parse_authority au = Some (user, h) ->
  (rp = [] \/ exists p, rp = slash :: p) -> pct_decode rp = Some d ->
  url_parse_u ((sch ++ B "://" ++ au ++ rp ++ tail_of qmark qo) ++ tail_of hash fo) =
  match frag_fields fo with
  | Some (fd, rf) =>
      UUrl {| uu_scheme := lower sch; uu_opaque := []; uu_user := user; uu_host := h; uu_path := d;
              uu_rawpath := if bytes_eqb rp (path_escape d) then [] else rp;
              uu_query := qo; uu_frag := fd; uu_rawfrag := rf; uu_omit := false |}
  | None => UErr
  end.
Proof.
  intros Hs Ha Hctl Hnh Hsl Hq PA Hroot Dp.
  unfold url_parse_u. rewrite (cut_byte_app_tail hash _ fo Hnh).
  rewrite (parse_core_auth false sch au rp qo user h d Hs Ha Hctl Hsl Hq PA Hroot Dp).
  unfold frag_fields. destruct fo as [[|f0 f]|]; try reflexivity.
  destruct (pct_decode (f0 :: f)); reflexivity.
Qed.

(* the plain case: no userinfo, no IP literal *)
Lemma parse_core_struct via sch rh rp qo h d :
  forallb is_scheme_char sch = true -> match sch with c0 :: _ => is_alpha c0 = true | [] => False end ->
  existsb is_ctl (sch ++ B "://" ++ rh ++ rp ++ tail_of qmark qo) = false ->
  notin slash rh = true -> notin qmark (rh ++ rp) = true -> rawhost_ok rh = true -> pct_decode rh = Some h ->
  (rp = [] \/ exists p, rp = slash :: p) -> pct_decode rp = Some d ->
  url_parse_core via (sch ++ B "://" ++ rh ++ rp ++ tail_of qmark qo) =
  UUrl {| uu_scheme := lower sch; uu_opaque := []; uu_user := None; uu_host := h; uu_path := d;
          uu_rawpath := if bytes_eqb rp (path_escape d) then [] else rp;
          uu_query := qo; uu_frag := []; uu_rawfrag := []; uu_omit := false |}.
Proof.
  intros Hs Ha Hctl Hsl Hq Hok Dh Hroot Dp. destruct (rawhost_ok_parse rh h Hok Dh) as [Nat PH].
  apply parse_core_auth; try assumption. apply parse_authority_plain; assumption.
Qed.

Lemma parse_u_struct sch rh rp qo fo h d :
  forallb is_scheme_char sch = true -> match sch with c0 :: _ => is_alpha c0 = true | [] => False end ->
  existsb is_ctl (sch ++ B "://" ++ rh ++ rp ++ tail_of qmark qo) = false ->
  notin hash (sch ++ B "://" ++ rh ++ rp ++ tail_of qmark qo) = true ->
  notin slash rh = true -> notin qmark (rh ++ rp) = true -> rawhost_ok rh = true -> pct_decode rh = Some h ->
  (rp = [] \/ exists p, rp = slash :: p) -> pct_decode rp = Some d ->
  url_parse_u ((sch ++ B "://" ++ rh ++ rp ++ tail_of qmark qo) ++ tail_of hash fo) =
  match frag_fields fo with
  | Some (fd, rf) =>
      UUrl {| uu_scheme := lower sch; uu_opaque := []; uu_user := None; uu_host := h; uu_path := d;
              uu_rawpath := if bytes_eqb rp (path_escape d) then [] else rp;
              uu_query := qo; uu_frag := fd; uu_rawfrag := rf; uu_omit := false |}
  | None => UErr
  end.
Proof.
  intros Hs Ha Hctl Hnh Hsl Hq Hok Dh Hroot Dp. destruct (rawhost_ok_parse rh h Hok Dh) as [Nat PH].
  apply parse_u_auth; try assumption. apply parse_authority_plain; assumption.
Qed.

(* ================================================================ userinfo is not part of what IRI.Equals compares *)
Lemma userinfo_char_facts_all : forallb (fun b => implb (userinfo_char b)
   (negb (Byte.eqb b slash) && negb (Byte.eqb b qmark) && negb (Byte.eqb b hash) && negb (is_ctl b))) all_bytes = true.
Proof. vm_compute. reflexivity. Qed.

Lemma userinfo_ok_chars ui : userinfo_ok ui = true ->
  notin slash ui = true /\ notin qmark ui = true /\ notin hash ui = true /\ existsb is_ctl ui = false.
Proof.
  unfold userinfo_ok, parse_userinfo. destruct (forallb userinfo_char ui) eqn:F; [|discriminate]. intros _.
  induction ui as [|x r IH]; [repeat split|]. cbn [forallb] in F. apply andb_true_iff in F. destruct F as [Fx Fr].
  destruct (IH Fr) as [I1 [I2 [I3 I4]]]. pose proof (sweep _ userinfo_char_facts_all x) as S. cbv beta in S. rewrite Fx in S.
  cbn [implb] in S. rewrite !andb_true_iff, !negb_true_iff in S. destruct S as [[[S1 S2] S3] S4].
  simpl. rewrite S1, S2, S3, S4, I1, I2, I3, I4. repeat split.
Qed.

Lemma classify_u_unfold s : s <> [] -> url_classify_u s =
  match url_parse_u s with
  | UUrl u =>
      if nonempty (uu_scheme u) && nonempty (uu_host u)
      then UValid {| u_scheme := uu_scheme u; u_host := uu_host u; u_path := uu_path u;
                     u_query := match uu_query u with Some q => q | None => [] end; u_frag := uu_frag u |}
      else UFallback
  | UErr => UFallback
  | UOut => UUnmodelled
  end.
Proof. destruct s; [congruence|reflexivity]. Qed.

Lemma scheme_app_nonempty sch x y : match sch with c0 :: _ => is_alpha c0 = true | [] => False end -> (sch ++ x) ++ y <> [].
Proof. destruct sch; [intros []|discriminate]. Qed.

Lemma existsb_app_false {A} (P : A -> bool) x y : existsb P (x ++ y) = false <-> existsb P x = false /\ existsb P y = false.
Proof. rewrite existsb_app, orb_false_iff. tauto. Qed.

(* the same IRI without its userinfo parses to the same scheme, host, path, query and fragment: URL.User is the only
   difference, and IRI.Equals does not look at it *)
Theorem classify_u_drop_userinfo s u : url_classify_u s = UValid u ->
  exists sch up rest fo, s = (sch ++ B "://" ++ up ++ rest) ++ tail_of hash fo /\ uprefix up /\
    url_classify_u ((sch ++ B "://" ++ rest) ++ tail_of hash fo) = UValid u.
Proof.
  intros H. destruct (classify_u_full s u H) as [sch [up [rh [rp [qo [fo [S [E1 [E2 [E3 [E4 [Ctl [PH [Ha [[rf FF] Hne]]]]]]]]]]]]]]].
  exists sch, up, (rh ++ rp ++ tail_of qmark qo), fo. split; [exact (us_string _ _ _ _ _ _ _ S)|]. split; [exact (us_user _ _ _ _ _ _ _ S)|].
  pose proof (us_nohash _ _ _ _ _ _ _ S) as Nh.
  assert (Nh' : notin hash (sch ++ B "://" ++ rh ++ rp ++ tail_of qmark qo) = true).
  { rewrite !notin_app in *. rewrite !andb_true_iff in *. tauto. }
  assert (Ctl' : existsb is_ctl (sch ++ B "://" ++ rh ++ rp ++ tail_of qmark qo) = false).
  { rewrite !existsb_app_false in *. tauto. }
  assert (Nq : notin qmark (rh ++ rp) = true).
  { rewrite notin_app, (us_host_noq _ _ _ _ _ _ _ S), (us_path_noq _ _ _ _ _ _ _ S). reflexivity. }
  pose proof (parse_u_auth sch rh rp qo fo None (u_host u) (u_path u) (us_scheme _ _ _ _ _ _ _ S) Ha Ctl' Nh'
                (us_host_noslash _ _ _ _ _ _ _ S) Nq (parse_authority_plain rh _ (us_host_noat _ _ _ _ _ _ _ S) PH)
                (us_path_root _ _ _ _ _ _ _ S) E3) as PU.
  rewrite (classify_u_unfold _ (scheme_app_nonempty sch _ _ Ha)).
  rewrite PU, FF. cbn [uu_scheme uu_host uu_path uu_query uu_frag]. rewrite lower_nonempty.
  assert (nonempty sch = true) as -> by (destruct sch; [destruct Ha|reflexivity]).
  assert (nonempty (u_host u) = true) as -> by (destruct (u_host u); [congruence|reflexivity]). cbn [andb].
  destruct u as [us uh upth uq uf]. cbn [u_scheme u_host u_path u_query u_frag] in *. rewrite <- E1, E4.
  destruct qo; reflexivity.
Qed.

(* and any userinfo url.validUserinfo accepts can be put in front of a host *)
Theorem classify_u_add_userinfo sch ui rh rp qo fo h d :
  forallb is_scheme_char sch = true -> match sch with c0 :: _ => is_alpha c0 = true | [] => False end ->
  existsb is_ctl (sch ++ B "://" ++ rh ++ rp ++ tail_of qmark qo) = false ->
  notin hash (sch ++ B "://" ++ rh ++ rp ++ tail_of qmark qo) = true ->
  notin slash rh = true -> notin qmark (rh ++ rp) = true -> notin atsign rh = true -> parse_host rh = Some h ->
  (rp = [] \/ exists p, rp = slash :: p) -> pct_decode rp = Some d -> userinfo_ok ui = true ->
  url_classify_u ((sch ++ B "://" ++ (ui ++ atsign :: rh) ++ rp ++ tail_of qmark qo) ++ tail_of hash fo) =
  url_classify_u ((sch ++ B "://" ++ rh ++ rp ++ tail_of qmark qo) ++ tail_of hash fo).
Proof.
  intros Hs Ha Ctl Nh Nsl Nq Nat PH Hroot Dp U.
  destruct (userinfo_ok_chars ui U) as [U1 [U2 [U3 U4]]].
  destruct (parse_authority_user ui rh h U Nat PH) as [user PA].
  assert (Ctl' : existsb is_ctl (sch ++ B "://" ++ (ui ++ atsign :: rh) ++ rp ++ tail_of qmark qo) = false).
  { rewrite !existsb_app_false in *. cbn [existsb]. rewrite orb_false_iff. change (is_ctl atsign) with false. tauto. }
  assert (Nh' : notin hash (sch ++ B "://" ++ (ui ++ atsign :: rh) ++ rp ++ tail_of qmark qo) = true).
  { rewrite !notin_app in *. cbn [notin forallb]. fold (notin hash rh). rewrite !andb_true_iff in *. change (Byte.eqb atsign hash) with false. tauto. }
  assert (Nsl' : notin slash (ui ++ atsign :: rh) = true).
  { rewrite notin_app. cbn [notin forallb]. fold (notin slash rh). rewrite U1, Nsl. reflexivity. }
  assert (Nq' : notin qmark ((ui ++ atsign :: rh) ++ rp) = true).
  { rewrite !notin_app in *. cbn [notin forallb]. fold (notin qmark rh). rewrite !andb_true_iff in *. change (Byte.eqb atsign qmark) with false. tauto. }
  pose proof (parse_u_auth sch (ui ++ atsign :: rh) rp qo fo (Some user) h d Hs Ha Ctl' Nh' Nsl' Nq' PA Hroot Dp) as P1.
  pose proof (parse_u_auth sch rh rp qo fo None h d Hs Ha Ctl Nh Nsl Nq (parse_authority_plain rh h Nat PH) Hroot Dp) as P2.
  rewrite !(classify_u_unfold _ (scheme_app_nonempty sch _ _ Ha)), P1, P2. destruct (frag_fields fo) as [[fd rf]|]; reflexivity.
Qed.
