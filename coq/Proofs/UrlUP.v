(* What url_classify_u = UValid says about the string (the reading  scheme "://" rawhost rawpath ["?" query]
   ["#" fragment]  with host and path percent-decoded), and the consequence for IRI.Equals: on IRIs that are valid
   UTF-8 the string fast path (strings.EqualFold after cutting fragment and scheme) implies the URL comparison of
   scheme, host and cleaned path, and EqualFold-equal raw queries.  Model: Model/UrlU.v, Model/IriEqU.v. *)
From AP.Model Require Import Prelude Bytes Url IriEq IriNf Vocab Pred CollIri Utf8 FoldTab Fold UrlU IriEqU.
From AP.Proofs Require Import NlvP LowerP IriEqP SortP IriGenP IriNfP IriXP CollIriP Utf8P FoldP DecodeUP CleanUP.

(* ================================================================ url.getScheme *)
Lemma get_scheme_go_spec s : forall first acc whole sch rest,
  get_scheme_go first acc whole s = GS sch rest -> sch <> [] ->
  exists pre, sch = rev acc ++ pre /\ s = pre ++ colon :: rest /\ forallb is_scheme_char pre = true.
Proof.
  induction s as [|c r IH]; intros first acc whole sch rest H Hne.
  - cbn [get_scheme_go] in H. inversion H; subst. exfalso. apply Hne. reflexivity.
  - cbn [get_scheme_go] in H. destruct (is_alpha c) eqn:Ea.
    + destruct (IH _ _ _ _ _ H Hne) as [pre [E1 [E2 E3]]]. exists (c :: pre). simpl in E1. rewrite <- app_assoc in E1.
      split; [exact E1|]. split; [rewrite E2; reflexivity|]. cbn [forallb]. unfold is_scheme_char at 1. rewrite Ea. exact E3.
    + destruct (is_digit c || byte_in c (B "+-.")) eqn:Ed.
      * destruct first; [inversion H; subst; exfalso; apply Hne; reflexivity|].
        destruct (IH _ _ _ _ _ H Hne) as [pre [E1 [E2 E3]]]. exists (c :: pre). simpl in E1. rewrite <- app_assoc in E1.
        split; [exact E1|]. split; [rewrite E2; reflexivity|]. cbn [forallb]. unfold is_scheme_char at 1. rewrite Ea.
        rewrite <- orb_assoc. cbn [orb]. rewrite Ed. exact E3.
      * destruct (Byte.eqb c colon) eqn:Ec.
        -- destruct first; [discriminate|]. inversion H; subst. apply beqb_eq in Ec. subst c.
           exists []. rewrite app_nil_r. auto.
        -- inversion H; subst. exfalso. apply Hne. reflexivity.
Qed.

Lemma get_scheme_spec s sch rest : get_scheme s = GS sch rest -> sch <> [] ->
  s = sch ++ colon :: rest /\ forallb is_scheme_char sch = true.
Proof.
  intros H Hne. destruct (get_scheme_go_spec s true [] s sch rest H Hne) as [pre [E1 [E2 E3]]].
  simpl in E1. subst pre. auto.
Qed.

Lemma get_scheme_alpha s sch rest : get_scheme s = GS sch rest -> sch <> [] ->
  match sch with c0 :: _ => is_alpha c0 = true | [] => False end.
Proof.
  intros H Hne. unfold get_scheme in H. destruct s as [|c r]; [cbn in H; inversion H; subst; congruence|].
  cbn [get_scheme_go] in H. destruct (is_alpha c) eqn:Ea.
  - destruct (get_scheme_go_spec r false [c] (c :: r) sch rest H Hne) as [pre [E _]]. simpl in E. subst sch. exact Ea.
  - destruct (is_digit c || byte_in c (B "+-.")); [inversion H; subst; congruence|].
    destruct (Byte.eqb c colon); [discriminate|inversion H; subst; congruence].
Qed.

(* ================================================================ the reading of a valid URL *)
Record ustruct (s sch rh rp : bytes) (qo fo : option bytes) : Prop := {
  us_string : s = (sch ++ B "://" ++ rh ++ rp ++ tail_of qmark qo) ++ tail_of hash fo;
  us_nohash : notin hash (sch ++ B "://" ++ rh ++ rp ++ tail_of qmark qo) = true;
  us_scheme : forallb is_scheme_char sch = true;
  us_scheme_ne : sch <> [];
  us_host_noslash : notin slash rh = true;
  us_host_noq : notin qmark rh = true;
  us_path_root : rp = [] \/ exists p, rp = slash :: p;
  us_path_noq : notin qmark rp = true
}.

Lemma lower_nonempty s : nonempty (lower s) = nonempty s.
Proof. destruct s; reflexivity. Qed.

Lemma notin_app_l c a b : notin c (a ++ b) = true -> notin c a = true.
Proof. rewrite notin_app, andb_true_iff. tauto. Qed.
Lemma notin_app_r c a b : notin c (a ++ b) = true -> notin c b = true.
Proof. rewrite notin_app, andb_true_iff. tauto. Qed.

Lemma is_prefix_2 a b s : is_prefix [a; b] s = true -> s = a :: b :: skipn 2 s.
Proof. intros H. apply is_prefix_true in H. exact H. Qed.

(* what the theorems need of a raw host: parseHost accepts it as it is (no userinfo, no IP literal) *)
Definition rawhost_ok (rh : bytes) : bool :=
  negb (existsb (fun b => Byte.eqb b atsign) rh) && negb (is_prefix [lbrack] rh) && last_colon_ok rh && host_bytes_ok rh.

Lemma core_valid_struct via nofrag u0 :
  url_parse_core via nofrag = UUrl u0 -> nonempty (uu_scheme u0) = true -> nonempty (uu_host u0) = true ->
  exists sch rh rp qo,
    nofrag = sch ++ B "://" ++ rh ++ rp ++ tail_of qmark qo /\
    forallb is_scheme_char sch = true /\ sch <> [] /\ notin slash rh = true /\ notin qmark rh = true /\
    (rp = [] \/ exists p, rp = slash :: p) /\ notin qmark rp = true /\
    uu_scheme u0 = lower sch /\ pct_decode rh = Some (uu_host u0) /\ pct_decode rp = Some (uu_path u0) /\ uu_query u0 = qo /\
    existsb is_ctl nofrag = false /\ rawhost_ok rh = true /\
    match sch with c0 :: _ => is_alpha c0 = true | [] => False end.
Proof.
  unfold url_parse_core. destruct (existsb is_ctl nofrag) eqn:Ctl; [discriminate|].
  destruct (via && negb (nonempty nofrag)); [discriminate|].
  destruct (bytes_eqb nofrag [star]); [intros H; inversion H; subst; discriminate|].
  destruct (get_scheme nofrag) as [|sch0 rest0] eqn:G; [discriminate|].
  destruct (IriNfP.cut_byte_spec qmark rest0) as [Nq Eq]. destruct (cut_byte qmark rest0) as [rest query]. cbn [fst snd] in Nq, Eq.
  rewrite lower_nonempty.
  destruct (nonempty sch0) eqn:Ns.
  2:{ (* no scheme: whatever the branch, the scheme of the result is empty *)
      intros H Hs Hh. exfalso. destruct sch0; [|discriminate]. unfold set_path in H.
      repeat match type of H with
             | (if ?c then _ else _) = _ => destruct c
             | (let '(_, _) := ?c in _) = _ => destruct c
             | match ?c with _ => _ end = _ => destruct c
             end; try discriminate; inversion H; subst u0; discriminate. }
  assert (Hne : sch0 <> []) by (destruct sch0; [discriminate|congruence]).
  destruct (get_scheme_spec _ _ _ G Hne) as [Es Hsch].
  destruct (is_prefix [slash] rest) eqn:R; cbn [negb andb orb].
  2:{ intros H _ Hh. inversion H; subst u0. discriminate. }
  destruct (is_prefix (B "//") rest) eqn:R2.
  2:{ intros H _ Hh. unfold set_path in H. destruct (pct_decode rest); [|discriminate]. inversion H; subst u0. discriminate. }
  destruct (IriNfP.cut_byte_spec slash (skipn 2 rest)) as [Nsl Esl].
  destruct (cut_byte slash (skipn 2 rest)) as [au pr]. cbn [fst snd] in Nsl, Esl.
  destruct (existsb (fun b => Byte.eqb b atsign) au) eqn:At; [discriminate|]. destruct (is_prefix [lbrack] au) eqn:Lb; [discriminate|].
  destruct (parse_host au) as [h|] eqn:PH; [|discriminate].
  unfold set_path. cbn [uu_scheme uu_opaque uu_host uu_query uu_frag uu_rawfrag uu_omit].
  match goal with |- context [pct_decode ?x] => destruct (pct_decode x) as [d|] eqn:PD end; [|discriminate].
  intros H _ _. inversion H; subst u0; clear H. cbn [uu_scheme uu_host uu_path uu_query].
  exists sch0, au, (tail_of slash pr), query.
  pose proof (is_prefix_2 _ _ _ R2) as Er. rewrite Esl in Er.
  assert (Nq2 : notin qmark (au ++ tail_of slash pr) = true).
  { rewrite Er in Nq. simpl in Nq. exact Nq. }
  repeat split.
  - rewrite Es, Eq, Er. simpl. rewrite <- !app_assoc. reflexivity.
  - exact Hsch.
  - exact Hne.
  - exact Nsl.
  - apply (notin_app_l _ _ _ Nq2).
  - destruct pr as [p0|]; [right; exists p0; reflexivity|left; reflexivity].
  - apply (notin_app_r _ _ _ Nq2).
  - unfold parse_host in PH. destruct (last_colon_ok au && host_bytes_ok au); [exact PH|discriminate].
  - destruct pr; exact PD.
  - unfold rawhost_ok. rewrite At, Lb. unfold parse_host in PH. cbn [negb andb]. destruct (last_colon_ok au && host_bytes_ok au); [reflexivity|discriminate].
  - exact (get_scheme_alpha _ _ _ G Hne).
Qed.

Lemma classify_u_struct s u : url_classify_u s = UValid u ->
  exists sch rh rp qo fo, ustruct s sch rh rp qo fo /\
    u_scheme u = lower sch /\ pct_decode rh = Some (u_host u) /\ pct_decode rp = Some (u_path u) /\ u_query u = opt_or_nil qo.
Proof.
  unfold url_classify_u. destruct s as [|c0 s0]; [discriminate|]. remember (c0 :: s0) as s eqn:Hs. clear Hs.
  unfold url_parse_u. destruct (IriNfP.cut_byte_spec hash s) as [Nh Eh]. destruct (cut_byte hash s) as [nofrag frag]. cbn [fst snd] in Nh, Eh.
  destruct (url_parse_core false nofrag) as [u0| |] eqn:PC; try discriminate.
  assert (K : forall uu, uu_scheme uu = uu_scheme u0 -> uu_host uu = uu_host u0 -> uu_path uu = uu_path u0 -> uu_query uu = uu_query u0 ->
    (if nonempty (uu_scheme uu) && nonempty (uu_host uu)
     then UValid {| u_scheme := uu_scheme uu; u_host := uu_host uu; u_path := uu_path uu;
                    u_query := match uu_query uu with Some q => q | None => [] end; u_frag := uu_frag uu |}
     else UFallback) = UValid u ->
    exists sch rh rp qo fo, ustruct s sch rh rp qo fo /\
      u_scheme u = lower sch /\ pct_decode rh = Some (u_host u) /\ pct_decode rp = Some (u_path u) /\ u_query u = opt_or_nil qo).
  { intros uu E1 E2 E3 E4. rewrite E1, E2, E3, E4.
    destruct (nonempty (uu_scheme u0)) eqn:N1; [|discriminate]. destruct (nonempty (uu_host u0)) eqn:N2; [|discriminate].
    cbn [andb]. intros H. inversion H; subst u; clear H. cbn [u_scheme u_host u_path u_query].
    destruct (core_valid_struct false nofrag u0 PC N1 N2) as [sch [rh [rp [qo [En [Hsch [Hne [Nsl [Nq [Hroot [Nqp [Esc [Dh [Dp [Eq _]]]]]]]]]]]]]]].
    exists sch, rh, rp, qo, frag. split; [constructor; try assumption|].
    - rewrite Eh at 1. rewrite En. reflexivity.
    - rewrite <- En. exact Nh.
    - rewrite Eq. repeat split; try assumption; try (destruct qo; reflexivity). }
  destruct frag as [[|f0 f]|].
  - apply K; reflexivity.
  - destruct (pct_decode (f0 :: f)); [|discriminate]. apply K; reflexivity.
  - apply K; reflexivity.
Qed.

(* ================================================================ validity of the parts *)
Lemma utf8_valid_app_head x y : (y = [] \/ exists c y0, y = c :: y0 /\ is_asciib c = true) ->
  utf8_valid (x ++ y) = utf8_valid x && utf8_valid y.
Proof.
  intros [->|[c [y0 [-> A]]]].
  - rewrite app_nil_r. simpl. rewrite andb_true_r. reflexivity.
  - rewrite (utf8_valid_split x c y0 A), (utf8_valid_cons c y0), (lead_ascii c A). reflexivity.
Qed.

Lemma scheme_char_ascii_all : forallb (fun b => implb (is_scheme_char b) (is_asciib b)) all_bytes = true.
Proof. vm_compute. reflexivity. Qed.
Lemma scheme_ascii sch : forallb is_scheme_char sch = true -> forallb is_asciib sch = true.
Proof. apply forallb_impl. intros x Hx. pose proof (sweep _ scheme_char_ascii_all x) as S. cbv beta in S. rewrite Hx in S. exact S. Qed.

Lemma tail_head_ascii c o : is_asciib c = true -> tail_of c o = [] \/ exists c' y0, tail_of c o = c' :: y0 /\ is_asciib c' = true.
Proof. intros A. destruct o; [right; eexists _, _; split; [reflexivity|exact A]|left; reflexivity]. Qed.

Lemma ustruct_valid s sch rh rp qo fo : ustruct s sch rh rp qo fo -> utf8_valid s = true ->
  utf8_valid rh = true /\ utf8_valid rp = true /\ utf8_valid (opt_or_nil qo) = true.
Proof.
  intros S V. rewrite (us_string _ _ _ _ _ _ S) in V.
  rewrite (utf8_valid_app_head _ (tail_of hash fo) (tail_head_ascii hash fo eq_refl)) in V.
  apply andb_true_iff in V. destruct V as [V _].
  rewrite (utf8_valid_app sch _ (utf8_valid_ascii _ (scheme_ascii _ (us_scheme _ _ _ _ _ _ S)))) in V.
  change (B "://" ++ rh ++ rp ++ tail_of qmark qo) with (colon :: slash :: slash :: (rh ++ rp ++ tail_of qmark qo)) in V.
  rewrite !utf8_valid_cons in V. change (lead_of colon) with LAscii in V. change (lead_of slash) with LAscii in V.
  assert (Hy : rp ++ tail_of qmark qo = [] \/ exists c y0, rp ++ tail_of qmark qo = c :: y0 /\ is_asciib c = true).
  { destruct (us_path_root _ _ _ _ _ _ S) as [->|[p ->]]; [apply (tail_head_ascii qmark qo eq_refl)|].
    right. eexists _, _. split; [reflexivity|reflexivity]. }
  rewrite (utf8_valid_app_head rh _ Hy) in V. apply andb_true_iff in V. destruct V as [V1 V].
  rewrite (utf8_valid_app_head rp _ (tail_head_ascii qmark qo eq_refl)) in V. apply andb_true_iff in V. destruct V as [V2 V3].
  repeat split; try assumption. destruct qo as [q|]; [|reflexivity]. cbn [tail_of] in V3. rewrite utf8_valid_cons in V3. exact V3.
Qed.

(* ================================================================ the fast path, component by component *)
Lemma uc_app_sync x y : starts y -> ucanon (x ++ y) = ucanon x ++ ucanon y.
Proof. apply (ucanon_app_sync fold_tab). Qed.

Lemma uc_tail d o : is_delim d = true -> ucanon (tail_of d o) = match o with Some y => byteN d :: ucanon y | None => [] end.
Proof. intros D. destruct o as [y|]; [|reflexivity]. simpl. rewrite (uc_cons_ascii d y (delim_ascii d D)), (canon_delim_self d D). reflexivity. Qed.

Lemma starts_tail d o : is_delim d = true -> starts (tail_of d o).
Proof. intros D. destruct o; [apply starts_ascii, delim_ascii; exact D|exact I]. Qed.

Definition hostpN (n : N) : bool := isnt slash n && isnt qmark n.

Lemma colon_delim : is_delim colon = true. Proof. reflexivity. Qed.
Lemma qmark_delim : is_delim qmark = true. Proof. reflexivity. Qed.
Lemma hash_delim : is_delim hash = true. Proof. reflexivity. Qed.

Lemma forallb_and {A} (P Q : A -> bool) l : forallb P l = true -> forallb Q l = true -> forallb (fun x => P x && Q x) l = true.
Proof. rewrite !forallb_forall. intros H1 H2 x Hx. rewrite (H1 x Hx), (H2 x Hx). reflexivity. Qed.

Lemma fast_strings_u a b cs sa ha pa qa fa sb hb pb qb fb :
  ustruct a sa ha pa qa fa -> ustruct b sb hb pb qb fb ->
  ucanon (strip_for cs a) = ucanon (strip_for cs b) ->
  (cs = true -> ucanon sa = ucanon sb) /\
  ucanon ha = ucanon hb /\ ucanon pa = ucanon pb /\ ucanon (opt_or_nil qa) = ucanon (opt_or_nil qb).
Proof.
  intros Sa Sb Hf.
  assert (strip_fragment a = sa ++ B "://" ++ ha ++ pa ++ tail_of qmark qa) as Fa.
  { rewrite (us_string _ _ _ _ _ _ Sa) at 1. apply strip_fragment_cut; [|apply (us_nohash _ _ _ _ _ _ Sa)].
    pose proof (us_scheme_ne _ _ _ _ _ _ Sa). destruct sa; [congruence|discriminate]. }
  assert (strip_fragment b = sb ++ B "://" ++ hb ++ pb ++ tail_of qmark qb) as Fb.
  { rewrite (us_string _ _ _ _ _ _ Sb) at 1. apply strip_fragment_cut; [|apply (us_nohash _ _ _ _ _ _ Sb)].
    pose proof (us_scheme_ne _ _ _ _ _ _ Sb). destruct sb; [congruence|discriminate]. }
  assert (notin colon sa = true) as Ca by (apply (notin_class is_scheme_char); [reflexivity|apply (us_scheme _ _ _ _ _ _ Sa)]).
  assert (notin colon sb = true) as Cb by (apply (notin_class is_scheme_char); [reflexivity|apply (us_scheme _ _ _ _ _ _ Sb)]).
  assert (Sep : forall r, ucanon (B "://" ++ r) = [byteN colon; byteN slash; byteN slash] ++ ucanon r).
  { intros r. change (B "://" ++ r) with (colon :: slash :: slash :: r). rewrite !uc_cons_ascii by reflexivity. reflexivity. }
  assert (Sch : forall s r, ucanon (s ++ B "://" ++ r) = ucanon s ++ byteN colon :: [byteN slash; byteN slash] ++ ucanon r).
  { intros s r. change (B "://" ++ r) with (colon :: slash :: slash :: r). rewrite (uc_app_ascii s colon) by reflexivity.
    rewrite !uc_cons_ascii by reflexivity. reflexivity. }
  (* everything after the scheme *)
  assert ((cs = true -> ucanon sa = ucanon sb) /\
          ucanon (ha ++ pa ++ tail_of qmark qa) = ucanon (hb ++ pb ++ tail_of qmark qb)) as [Hs Hrest].
  { unfold strip_for in Hf. destruct cs.
    - rewrite Fa, Fb, !Sch in Hf.
      apply (span_unique_N (isnt colon)) in Hf;
        [|apply notin_ucanon; [exact colon_delim|exact Ca]|apply notin_ucanon; [exact colon_delim|exact Cb]
         |simpl; unfold isnt; rewrite N.eqb_refl; reflexivity|simpl; unfold isnt; rewrite N.eqb_refl; reflexivity].
      destruct Hf as [H1 H2]. split; [intros _; exact H1|]. inversion H2. reflexivity.
    - rewrite Fa, Fb, !strip_scheme_cut in Hf by assumption. split; [discriminate|].
      rewrite !Sep in Hf. apply app_inv_head in Hf. exact Hf. }
  split; [exact Hs|].
  (* host *)
  assert (StA : starts (pa ++ tail_of qmark qa)).
  { destruct (us_path_root _ _ _ _ _ _ Sa) as [->|[p ->]]; [apply starts_tail; exact qmark_delim|apply starts_ascii; reflexivity]. }
  assert (StB : starts (pb ++ tail_of qmark qb)).
  { destruct (us_path_root _ _ _ _ _ _ Sb) as [->|[p ->]]; [apply starts_tail; exact qmark_delim|apply starts_ascii; reflexivity]. }
  rewrite (uc_app_sync ha _ StA), (uc_app_sync hb _ StB) in Hrest.
  rewrite (uc_app_sync pa _ (starts_tail qmark qa qmark_delim)), (uc_app_sync pb _ (starts_tail qmark qb qmark_delim)) in Hrest.
  rewrite !(uc_tail qmark) in Hrest by exact qmark_delim.
  assert (StopH : forall p q, (p = [] \/ exists p0, p = slash :: p0) ->
            stopsN hostpN (ucanon p ++ match q with Some y => byteN qmark :: ucanon y | None => [] end)).
  { intros p q [->|[p0 ->]].
    - destruct q; simpl; [reflexivity|exact I].
    - rewrite (uc_cons_ascii slash p0 eq_refl). simpl. reflexivity. }
  apply (span_unique_N hostpN) in Hrest;
    [|apply forallb_and; apply notin_ucanon; try reflexivity; [apply (us_host_noslash _ _ _ _ _ _ Sa)|apply (us_host_noq _ _ _ _ _ _ Sa)]
     |apply forallb_and; apply notin_ucanon; try reflexivity; [apply (us_host_noslash _ _ _ _ _ _ Sb)|apply (us_host_noq _ _ _ _ _ _ Sb)]
     |apply StopH; apply (us_path_root _ _ _ _ _ _ Sa)|apply StopH; apply (us_path_root _ _ _ _ _ _ Sb)].
  destruct Hrest as [Hh Hrest]. split; [exact Hh|].
  (* path *)
  apply (span_unique_N (isnt qmark)) in Hrest;
    [|apply notin_ucanon; [exact qmark_delim|apply (us_path_noq _ _ _ _ _ _ Sa)]
     |apply notin_ucanon; [exact qmark_delim|apply (us_path_noq _ _ _ _ _ _ Sb)]
     |destruct qa; simpl; [unfold isnt; rewrite N.eqb_refl; reflexivity|exact I]
     |destruct qb; simpl; [unfold isnt; rewrite N.eqb_refl; reflexivity|exact I]].
  destruct Hrest as [Hp Hq]. split; [exact Hp|].
  destruct qa, qb; try discriminate; [injection Hq as Hq; exact Hq|reflexivity].
Qed.

(* the scheme url.Parse hands out is lower-cased; scheme bytes are ASCII *)
Lemma lower_byte_ascii_all : forallb (fun b => implb (is_asciib b) (is_asciib (lower_byte b))) all_bytes = true.
Proof. vm_compute. reflexivity. Qed.
Lemma lower_ascii s : forallb is_asciib s = true -> forallb is_asciib (lower s) = true.
Proof.
  intros H. unfold lower. rewrite forallb_forall in *. intros x Hx. apply in_map_iff in Hx. destruct Hx as [y [<- Hy]].
  specialize (H y Hy). pose proof (sweep _ lower_byte_ascii_all y) as S. cbv beta in S. rewrite H in S. exact S.
Qed.

Theorem fast_u a b cs u w :
  utf8_valid a = true -> utf8_valid b = true ->
  url_classify_u a = UValid u -> url_classify_u b = UValid w ->
  ufold_eqb (strip_for cs a) (strip_for cs b) = true ->
  (cs = true -> ucanon (u_scheme u) = ucanon (u_scheme w)) /\
  ucanon (u_host u) = ucanon (u_host w) /\
  ucanon (clean_url_path path_clean (u_path u)) = ucanon (clean_url_path path_clean (u_path w)) /\
  ucanon (u_query u) = ucanon (u_query w).
Proof.
  intros Va Vb Ha Hb Hf. apply ufold_eqb_eq in Hf.
  destruct (classify_u_struct a u Ha) as [sa [ha [pa [qa [fa [Sa [Sca [Dha [Dpa Qa]]]]]]]]].
  destruct (classify_u_struct b w Hb) as [sb [hb [pb [qb [fb [Sb [Scb [Dhb [Dpb Qb]]]]]]]]].
  destruct (ustruct_valid _ _ _ _ _ _ Sa Va) as [Vha [Vpa _]]. destruct (ustruct_valid _ _ _ _ _ _ Sb Vb) as [Vhb [Vpb _]].
  destruct (fast_strings_u a b cs _ _ _ _ _ _ _ _ _ _ Sa Sb Hf) as [Hs [Hh [Hp Hq]]].
  split; [|split; [|split]].
  - intros Hcs. rewrite Sca, Scb.
    pose proof (scheme_ascii _ (us_scheme _ _ _ _ _ _ Sa)) as Aa. pose proof (scheme_ascii _ (us_scheme _ _ _ _ _ _ Sb)) as Ab.
    apply (ucanon_ascii_lower _ _ (lower_ascii _ Aa) (lower_ascii _ Ab)). rewrite !lower_idem.
    apply (ucanon_ascii_lower _ _ Aa Ab). exact (Hs Hcs).
  - exact (pct_decode_ucanon ha hb _ _ Vha Vhb Hh Dha Dhb).
  - apply clean_url_path_feq. exact (pct_decode_ucanon pa pb _ _ Vpa Vpb Hp Dpa Dpb).
  - rewrite Qa, Qb. exact Hq.
Qed.

(* ================================================================ the converse: url.Parse on a string read that way *)
Lemma get_scheme_go_app pre : forall first acc whole rest,
  forallb is_scheme_char pre = true ->
  (first = true -> match pre with c0 :: _ => is_alpha c0 = true | [] => False end) ->
  (first = false -> acc <> []) ->
  get_scheme_go first acc whole (pre ++ colon :: rest) = GS (rev acc ++ pre) rest.
Proof.
  induction pre as [|c pre IH]; intros first acc whole rest Hp Hf Ha.
  - destruct first; [destruct (Hf eq_refl)|]. cbn [app get_scheme_go]. change (is_alpha colon) with false.
    change (is_digit colon || byte_in colon (B "+-.")) with false. cbn iota. rewrite beqb_refl, app_nil_r. reflexivity.
  - cbn [app get_scheme_go]. cbn [forallb] in Hp. apply andb_true_iff in Hp. destruct Hp as [Hc Hp].
    assert (Next : get_scheme_go false (c :: acc) whole (pre ++ colon :: rest) = GS (rev acc ++ c :: pre) rest).
    { rewrite (IH false (c :: acc) whole rest Hp); [|discriminate|intros _; discriminate].
      simpl. rewrite <- app_assoc. reflexivity. }
    destruct (is_alpha c) eqn:Ea; [exact Next|].
    unfold is_scheme_char in Hc. rewrite Ea in Hc. cbn [orb] in Hc. rewrite Hc.
    destruct first; [|exact Next]. specialize (Hf eq_refl). simpl in Hf. congruence.
Qed.

Lemma get_scheme_app sch rest :
  forallb is_scheme_char sch = true -> match sch with c0 :: _ => is_alpha c0 = true | [] => False end ->
  get_scheme (sch ++ colon :: rest) = GS sch rest.
Proof.
  intros Hs Ha. unfold get_scheme. rewrite (get_scheme_go_app sch true [] _ rest Hs (fun _ => Ha)); [reflexivity|discriminate].
Qed.

Lemma cut_byte_app_tail c x o : notin c x = true -> cut_byte c (x ++ tail_of c o) = (x, o).
Proof.
  intros Hn. induction x as [|a x IH]; simpl.
  - destruct o; [simpl; rewrite beqb_refl|]; reflexivity.
  - simpl in Hn. rewrite andb_true_iff, negb_true_iff in Hn. destruct Hn as [Ha Hn]. rewrite Ha, (IH Hn). reflexivity.
Qed.

Definition frag_fields (fo : option bytes) : option (bytes * bytes) :=
  match fo with
  | None | Some [] => Some ([], [])
  | Some f => match pct_decode f with
              | Some d => Some (d, if bytes_eqb f (frag_escape d) then [] else f)
              | None => None
              end
  end.

Lemma parse_core_struct via sch rh rp qo h d :
  forallb is_scheme_char sch = true -> match sch with c0 :: _ => is_alpha c0 = true | [] => False end ->
  existsb is_ctl (sch ++ B "://" ++ rh ++ rp ++ tail_of qmark qo) = false ->
  notin slash rh = true -> notin qmark (rh ++ rp) = true -> rawhost_ok rh = true -> pct_decode rh = Some h ->
  (rp = [] \/ exists p, rp = slash :: p) -> pct_decode rp = Some d ->
  url_parse_core via (sch ++ B "://" ++ rh ++ rp ++ tail_of qmark qo) =
  UUrl {| uu_scheme := lower sch; uu_opaque := []; uu_host := h; uu_path := d;
          uu_rawpath := if bytes_eqb rp (path_escape d) then [] else rp;
          uu_query := qo; uu_frag := []; uu_rawfrag := []; uu_omit := false |}.
Proof.
  intros Hs Ha Hctl Hsl Hq Hok Dh Hroot Dp.
  unfold url_parse_core. rewrite Hctl.
  assert (nonempty (sch ++ B "://" ++ rh ++ rp ++ tail_of qmark qo) = true) as ->.
  { destruct sch; [destruct Ha|reflexivity]. }
  rewrite andb_false_r.
  assert (bytes_eqb (sch ++ B "://" ++ rh ++ rp ++ tail_of qmark qo) [star] = false) as ->.
  { apply bytes_eqb_neq. destruct sch as [|c0 [|c1 t]]; [destruct Ha|discriminate|discriminate]. }
  change (sch ++ B "://" ++ rh ++ rp ++ tail_of qmark qo) with (sch ++ colon :: (B "//" ++ rh ++ rp ++ tail_of qmark qo)).
  rewrite (get_scheme_app sch _ Hs Ha).
  replace (B "//" ++ rh ++ rp ++ tail_of qmark qo) with ((B "//" ++ rh ++ rp) ++ tail_of qmark qo) by (rewrite <- !app_assoc; reflexivity).
  rewrite (cut_byte_app_tail qmark (B "//" ++ rh ++ rp) qo) by exact Hq.
  rewrite lower_nonempty. assert (nonempty sch = true) as -> by (destruct sch; [destruct Ha|reflexivity]).
  change (is_prefix [slash] (B "//" ++ rh ++ rp)) with true. change (is_prefix (B "//") (B "//" ++ rh ++ rp)) with true.
  cbn [negb andb orb]. change (skipn 2 (B "//" ++ rh ++ rp)) with (rh ++ rp).
  assert (exists pr, rp = tail_of slash pr) as [pr Epr].
  { destruct Hroot as [->|[p ->]]; [exists None|exists (Some p)]; reflexivity. }
  subst rp. rewrite (cut_byte_app_tail slash rh pr Hsl).
  unfold rawhost_ok in Hok. rewrite !andb_true_iff, !negb_true_iff in Hok. destruct Hok as [[[H1 H2] H3] H4].
  rewrite H1, H2. unfold parse_host. rewrite H3, H4, Dh. cbn [andb].
  unfold set_path. change (match pr with Some p => slash :: p | None => [] end) with (tail_of slash pr).
  rewrite Dp. reflexivity.
Qed.

Lemma parse_u_struct sch rh rp qo fo h d :
  forallb is_scheme_char sch = true -> match sch with c0 :: _ => is_alpha c0 = true | [] => False end ->
  existsb is_ctl (sch ++ B "://" ++ rh ++ rp ++ tail_of qmark qo) = false ->
  notin hash (sch ++ B "://" ++ rh ++ rp ++ tail_of qmark qo) = true ->
  notin slash rh = true -> notin qmark (rh ++ rp) = true -> rawhost_ok rh = true -> pct_decode rh = Some h ->
  (rp = [] \/ exists p, rp = slash :: p) -> pct_decode rp = Some d ->
  url_parse_u ((sch ++ B "://" ++ rh ++ rp ++ tail_of qmark qo) ++ tail_of hash fo) =
  match frag_fields fo with
  | Some (fd, rf) =>
      UUrl {| uu_scheme := lower sch; uu_opaque := []; uu_host := h; uu_path := d;
              uu_rawpath := if bytes_eqb rp (path_escape d) then [] else rp;
              uu_query := qo; uu_frag := fd; uu_rawfrag := rf; uu_omit := false |}
  | None => UErr
  end.
Proof.
  intros Hs Ha Hctl Hnh Hsl Hq Hok Dh Hroot Dp.
  unfold url_parse_u. rewrite (cut_byte_app_tail hash _ fo Hnh).
  rewrite (parse_core_struct false sch rh rp qo h d Hs Ha Hctl Hsl Hq Hok Dh Hroot Dp).
  unfold frag_fields. destruct fo as [[|f0 f]|]; try reflexivity.
  destruct (pct_decode (f0 :: f)); reflexivity.
Qed.
