(* Facts about the UTF-8 decoder of Model/Utf8.v the IRI theorems need: decoding is compositional at every place
   where a rune can begin (runes_app_sync), a valid string decodes independently of what follows (runes_app_valid),
   ASCII bytes decode to themselves and nothing else decodes to an ASCII rune. *)
From AP.Model Require Import Prelude Bytes Url IriEq IriNf Vocab Pred CollIri Utf8.
From AP.Proofs Require Import NlvP LowerP.

(* ================================================================ per-byte facts *)
Definition is_asciib (b : byte) : bool := (byteN b <? 128)%N.

Lemma lead_ascii_all : forallb (fun b => match lead_of b with LAscii => is_asciib b | _ => negb (is_asciib b) end) all_bytes = true.
Proof. vm_compute. reflexivity. Qed.
Lemma lead_ascii b : is_asciib b = true -> lead_of b = LAscii.
Proof. intros H. pose proof (sweep _ lead_ascii_all b) as S. cbv beta in S. destruct (lead_of b); try reflexivity; rewrite H in S; discriminate. Qed.
Lemma lead_nonascii b : is_asciib b = false -> lead_of b <> LAscii.
Proof. intros H E. pose proof (sweep _ lead_ascii_all b) as S. cbv beta in S. rewrite E, H in S. discriminate. Qed.

Lemma cont_not_ascii_all : forallb (fun b => implb (is_cont b) (negb (is_asciib b))) all_bytes = true.
Proof. vm_compute. reflexivity. Qed.
Lemma ascii_not_cont b : is_asciib b = true -> is_cont b = false.
Proof. intros H. pose proof (sweep _ cont_not_ascii_all b) as S. cbv beta in S. rewrite H in S. destruct (is_cont b); [discriminate|reflexivity]. Qed.

(* a decoded rune that is not an ASCII byte is >= 0x80 *)
Lemma rune2_big_all : forallb (fun p0 => match lead_of p0 with L2 => forallb (fun b1 => (128 <=? rune2 p0 b1)%N) all_bytes | _ => true end) all_bytes = true.
Proof. vm_compute. reflexivity. Qed.
Lemma hi3_big_all : forallb (fun p0 => match lead_of p0 with L3 lo hi => forallb (fun b1 => implb (in_rng lo hi b1) (128 <=? hi3 p0 b1)%N) all_bytes | _ => true end) all_bytes = true.
Proof. vm_compute. reflexivity. Qed.
Lemma hi4_big_all : forallb (fun p0 => match lead_of p0 with L4 lo hi => forallb (fun b1 => implb (in_rng lo hi b1) (128 <=? hi4 p0 b1)%N) all_bytes | _ => true end) all_bytes = true.
Proof. vm_compute. reflexivity. Qed.

Lemma rune2_big p0 b1 : lead_of p0 = L2 -> (128 <= rune2 p0 b1)%N.
Proof.
  intros E. pose proof (sweep _ rune2_big_all p0) as S. cbv beta in S. rewrite E in S.
  rewrite forallb_forall in S. apply N.leb_le. apply S. apply all_bytes_in.
Qed.
Lemma rune3_big p0 b1 b2 lo hi : lead_of p0 = L3 lo hi -> in_rng lo hi b1 = true -> (128 <= rune3 p0 b1 b2)%N.
Proof.
  intros E R. pose proof (sweep _ hi3_big_all p0) as S. cbv beta in S. rewrite E in S.
  rewrite forallb_forall in S. specialize (S b1 (all_bytes_in b1)). rewrite R in S. apply N.leb_le in S.
  unfold rune3. lia.
Qed.
Lemma rune4_big p0 b1 b2 b3 lo hi : lead_of p0 = L4 lo hi -> in_rng lo hi b1 = true -> (128 <= rune4 p0 b1 b2 b3)%N.
Proof.
  intros E R. pose proof (sweep _ hi4_big_all p0) as S. cbv beta in S. rewrite E in S.
  rewrite forallb_forall in S. specialize (S b1 (all_bytes_in b1)). rewrite R in S. apply N.leb_le in S.
  unfold rune4. lia.
Qed.

(* a decoded rune is below 0x110000 *)
Lemma lo6_lt b : (lo6 b < 64)%N.
Proof. unfold lo6. apply N.mod_lt. discriminate. Qed.
Lemma rune2_limit_all : forallb (fun p0 => forallb (fun b1 => (rune2 p0 b1 <? rune_limit)%N) all_bytes) all_bytes = true.
Proof. vm_compute. reflexivity. Qed.
Lemma hi3_limit_all : forallb (fun p0 => forallb (fun b1 => (hi3 p0 b1 + 63 <? rune_limit)%N) all_bytes) all_bytes = true.
Proof. vm_compute. reflexivity. Qed.
Lemma hi4_limit_all : forallb (fun p0 => match lead_of p0 with L4 lo hi => forallb (fun b1 => implb (in_rng lo hi b1) (hi4 p0 b1 + 4095 <? rune_limit)%N) all_bytes | _ => true end) all_bytes = true.
Proof. vm_compute. reflexivity. Qed.

Lemma rune2_limit p0 b1 : lead_of p0 = L2 -> (rune2 p0 b1 < rune_limit)%N.
Proof.
  intros _. pose proof (sweep _ rune2_limit_all p0) as S. cbv beta in S.
  rewrite forallb_forall in S. apply N.ltb_lt. apply S. apply all_bytes_in.
Qed.
Lemma rune3_limit p0 b1 b2 lo hi : lead_of p0 = L3 lo hi -> (rune3 p0 b1 b2 < rune_limit)%N.
Proof.
  intros _. pose proof (sweep _ hi3_limit_all p0) as S. cbv beta in S.
  rewrite forallb_forall in S. specialize (S b1 (all_bytes_in b1)). apply N.ltb_lt in S.
  pose proof (lo6_lt b2). unfold rune3. lia.
Qed.
Lemma rune4_limit p0 b1 b2 b3 lo hi : lead_of p0 = L4 lo hi -> in_rng lo hi b1 = true -> (rune4 p0 b1 b2 b3 < rune_limit)%N.
Proof.
  intros E R. pose proof (sweep _ hi4_limit_all p0) as S. cbv beta in S. rewrite E in S.
  rewrite forallb_forall in S. specialize (S b1 (all_bytes_in b1)). rewrite R in S. apply N.ltb_lt in S.
  pose proof (lo6_lt b2). pose proof (lo6_lt b3). unfold rune4. lia.
Qed.

Section Err.
  (* what an invalid byte decodes to: U+FFFD for Go's own decoding (runes), the byte kept apart for iri.go equalFold
     (srunes); the lemmas need only that it is not an ASCII rune *)
  Variable err : byte -> N.
  Hypothesis err_big : forall b, (128 <= err b)%N.
  Local Notation runes := (runes_with err).

(* ================================================================ unfolding *)
Lemma runes_cons p0 r : runes (p0 :: r) =
  match lead_of p0 with
  | LAscii => byteN p0 :: runes r
  | LBad => err p0 :: runes r
  | L2 => match r with
          | b1 :: r1 => if is_cont b1 then rune2 p0 b1 :: runes r1 else err p0 :: runes r
          | _ => err p0 :: runes r
          end
  | L3 lo hi => match r with
          | b1 :: b2 :: r2 => if is_cont b1 && in_rng lo hi b1 && is_cont b2 then rune3 p0 b1 b2 :: runes r2 else err p0 :: runes r
          | _ => err p0 :: runes r
          end
  | L4 lo hi => match r with
          | b1 :: b2 :: b3 :: r3 => if is_cont b1 && in_rng lo hi b1 && is_cont b2 && is_cont b3
                                    then rune4 p0 b1 b2 b3 :: runes r3 else err p0 :: runes r
          | _ => err p0 :: runes r
          end
  end.
Proof. reflexivity. Qed.

Lemma runes_ascii_cons c r : is_asciib c = true -> runes (c :: r) = byteN c :: runes r.
Proof. intros H. rewrite runes_cons, (lead_ascii c H). reflexivity. Qed.

(* what can stand where a rune begins: the end of the string or a byte that is not a continuation byte *)
Definition starts (y : bytes) : Prop := match y with [] => True | c :: _ => is_cont c = false end.

(* ================================================================ decoding is compositional at rune starts *)
Lemma runes_app_sync_n n : forall x y, length x <= n -> starts y -> runes (x ++ y) = runes x ++ runes y.
Proof.
  induction n as [|n IH]; intros x y Hl Hy.
  - destruct x; [reflexivity|simpl in Hl; lia].
  - destruct y as [|c y']; [rewrite !app_nil_r; reflexivity|]. simpl in Hy.
    destruct x as [|p0 r]; [reflexivity|]. simpl in Hl.
    assert (IHr : forall z, length z <= length r -> runes (z ++ c :: y') = runes z ++ runes (c :: y')) by (intros z Hz; apply IH; [lia|exact Hy]).
    change ((p0 :: r) ++ c :: y') with (p0 :: (r ++ c :: y')). rewrite (runes_cons p0 (r ++ c :: y')), (runes_cons p0 r).
    destruct (lead_of p0) as [| | |lo hi|lo hi].
    + cbn [app]. f_equal. apply IHr. lia.
    + cbn [app]. f_equal. apply IHr. lia.
    + destruct r as [|b1 r1].
      * cbn [app]. rewrite Hy. reflexivity.
      * cbn [app]. destruct (is_cont b1).
        -- cbn [app]. f_equal. apply IHr. simpl. lia.
        -- change (b1 :: r1 ++ c :: y') with ((b1 :: r1) ++ c :: y'). rewrite IHr by lia. reflexivity.
    + destruct r as [|b1 [|b2 r2]].
      * cbn [app]. destruct y' as [|c2 y'']; [reflexivity|]. rewrite Hy. reflexivity.
      * cbn [app]. rewrite Hy, andb_false_r. change (b1 :: c :: y') with ([b1] ++ c :: y').
        rewrite IHr by (simpl; lia). reflexivity.
      * cbn [app]. destruct (is_cont b1 && in_rng lo hi b1 && is_cont b2).
        -- cbn [app]. f_equal. apply IHr. simpl. lia.
        -- change (b1 :: b2 :: r2 ++ c :: y') with ((b1 :: b2 :: r2) ++ c :: y'). rewrite IHr by lia. reflexivity.
    + destruct r as [|b1 [|b2 [|b3 r3]]].
      * cbn [app]. destruct y' as [|c2 [|c3 y'']]; try reflexivity. rewrite Hy. reflexivity.
      * cbn [app]. destruct y' as [|c2 y''].
        -- change [b1; c] with ([b1] ++ [c]). rewrite IHr by (simpl; lia). reflexivity.
        -- rewrite Hy, andb_false_r. cbn [andb]. change (b1 :: c :: c2 :: y'') with ([b1] ++ c :: c2 :: y'').
           rewrite IHr by (simpl; lia). reflexivity.
      * cbn [app]. rewrite Hy, andb_false_r. change (b1 :: b2 :: c :: y') with ([b1; b2] ++ c :: y').
        rewrite IHr by (simpl; lia). reflexivity.
      * cbn [app]. destruct (is_cont b1 && in_rng lo hi b1 && is_cont b2 && is_cont b3).
        -- cbn [app]. f_equal. apply IHr. simpl. lia.
        -- change (b1 :: b2 :: b3 :: r3 ++ c :: y') with ((b1 :: b2 :: b3 :: r3) ++ c :: y'). rewrite IHr by lia. reflexivity.
Qed.

Lemma runes_app_sync x y : starts y -> runes (x ++ y) = runes x ++ runes y.
Proof. apply (runes_app_sync_n (length x)). lia. Qed.

Lemma starts_ascii c y : is_asciib c = true -> starts (c :: y).
Proof. intros H. simpl. apply ascii_not_cont. exact H. Qed.

(* at an ASCII byte *)
Lemma runes_app_ascii x c y : is_asciib c = true -> runes (x ++ c :: y) = runes x ++ byteN c :: runes y.
Proof. intros H. rewrite runes_app_sync by (apply starts_ascii; exact H). rewrite (runes_ascii_cons c y H). reflexivity. Qed.

(* ================================================================ a valid string decodes whatever follows *)
Lemma utf8_valid_cons p0 r : utf8_valid (p0 :: r) =
  match lead_of p0 with
  | LAscii => utf8_valid r
  | LBad => false
  | L2 => match r with b1 :: r1 => is_cont b1 && utf8_valid r1 | _ => false end
  | L3 lo hi => match r with b1 :: b2 :: r2 => is_cont b1 && in_rng lo hi b1 && is_cont b2 && utf8_valid r2 | _ => false end
  | L4 lo hi => match r with b1 :: b2 :: b3 :: r3 => is_cont b1 && in_rng lo hi b1 && is_cont b2 && is_cont b3 && utf8_valid r3 | _ => false end
  end.
Proof. reflexivity. Qed.

Lemma runes_app_valid_n n : forall x y, length x <= n -> utf8_valid x = true -> runes (x ++ y) = runes x ++ runes y.
Proof.
  induction n as [|n IH]; intros x y Hl Hv.
  - destruct x; [reflexivity|simpl in Hl; lia].
  - destruct x as [|p0 r]; [reflexivity|]. simpl in Hl.
    change ((p0 :: r) ++ y) with (p0 :: (r ++ y)). rewrite !runes_cons. rewrite utf8_valid_cons in Hv.
    destruct (lead_of p0) as [| | |lo hi|lo hi].
    + cbn [app]. f_equal. apply IH; [lia|exact Hv].
    + discriminate.
    + destruct r as [|b1 r1]; [discriminate|]. apply andb_true_iff in Hv. destruct Hv as [H1 Hv].
      cbn [app]. rewrite H1. cbn [andb app]. f_equal. apply IH; [simpl in Hl; lia|exact Hv].
    + destruct r as [|b1 [|b2 r2]]; try discriminate. apply andb_true_iff in Hv. destruct Hv as [H1 Hv].
      cbn [app]. rewrite H1. cbn [andb app]. f_equal. apply IH; [simpl in Hl; lia|exact Hv].
    + destruct r as [|b1 [|b2 [|b3 r3]]]; try discriminate. apply andb_true_iff in Hv. destruct Hv as [H1 Hv].
      cbn [app]. rewrite H1. cbn [andb app]. f_equal. apply IH; [simpl in Hl; lia|exact Hv].
Qed.

Lemma runes_app_valid x y : utf8_valid x = true -> runes (x ++ y) = runes x ++ runes y.
Proof. apply (runes_app_valid_n (length x)). lia. Qed.

(* validity of a concatenation, given the first part is valid *)
Lemma utf8_valid_app_n n : forall x y, length x <= n -> utf8_valid x = true -> utf8_valid (x ++ y) = utf8_valid y.
Proof.
  induction n as [|n IH]; intros x y Hl Hv.
  - destruct x; [reflexivity|simpl in Hl; lia].
  - destruct x as [|p0 r]; [reflexivity|]. simpl in Hl.
    change ((p0 :: r) ++ y) with (p0 :: (r ++ y)). rewrite utf8_valid_cons in *.
    destruct (lead_of p0) as [| | |lo hi|lo hi].
    + apply IH; [lia|exact Hv].
    + discriminate.
    + destruct r as [|b1 r1]; [discriminate|]. apply andb_true_iff in Hv. destruct Hv as [H1 Hv].
      cbn [app]. rewrite H1. cbn [andb]. apply IH; [simpl in Hl; lia|exact Hv].
    + destruct r as [|b1 [|b2 r2]]; try discriminate. apply andb_true_iff in Hv. destruct Hv as [H1 Hv].
      cbn [app]. rewrite H1. cbn [andb]. apply IH; [simpl in Hl; lia|exact Hv].
    + destruct r as [|b1 [|b2 [|b3 r3]]]; try discriminate. apply andb_true_iff in Hv. destruct Hv as [H1 Hv].
      cbn [app]. rewrite H1. cbn [andb]. apply IH; [simpl in Hl; lia|exact Hv].
Qed.
Lemma utf8_valid_app x y : utf8_valid x = true -> utf8_valid (x ++ y) = utf8_valid y.
Proof. apply (utf8_valid_app_n (length x)). lia. Qed.

(* cutting a valid string before an ASCII byte leaves two valid strings *)
Lemma utf8_valid_split_n n : forall x c y, length x <= n -> is_asciib c = true ->
  utf8_valid (x ++ c :: y) = utf8_valid x && utf8_valid y.
Proof.
  induction n as [|n IH]; intros x c y Hl Hc.
  - destruct x; [|simpl in Hl; lia]. cbn [app]. rewrite utf8_valid_cons, (lead_ascii c Hc). reflexivity.
  - destruct x as [|p0 r]; [simpl app; rewrite utf8_valid_cons, (lead_ascii c Hc); reflexivity|]. simpl in Hl.
    assert (NC := ascii_not_cont c Hc).
    change ((p0 :: r) ++ c :: y) with (p0 :: (r ++ c :: y)). rewrite !utf8_valid_cons.
    destruct (lead_of p0) as [| | |lo hi|lo hi].
    + apply IH; [lia|exact Hc].
    + reflexivity.
    + destruct r as [|b1 r1]; cbn [app].
      * rewrite NC. reflexivity.
      * rewrite <- andb_assoc. f_equal. apply IH; [simpl in Hl; lia|exact Hc].
    + destruct r as [|b1 [|b2 r2]]; cbn [app].
      * destruct y as [|c2 y']; [reflexivity|]. rewrite NC. reflexivity.
      * rewrite NC, andb_false_r. reflexivity.
      * rewrite <- !andb_assoc. do 3 f_equal. apply IH; [simpl in Hl; lia|exact Hc].
    + destruct r as [|b1 [|b2 [|b3 r3]]]; cbn [app].
      * destruct y as [|c2 [|c3 y']]; try reflexivity. rewrite NC. reflexivity.
      * destruct y as [|c2 y']; [reflexivity|]. rewrite NC, andb_false_r. reflexivity.
      * rewrite NC, andb_false_r. reflexivity.
      * rewrite <- !andb_assoc. do 4 f_equal. apply IH; [simpl in Hl; lia|exact Hc].
Qed.
Lemma utf8_valid_split x c y : is_asciib c = true -> utf8_valid (x ++ c :: y) = utf8_valid x && utf8_valid y.
Proof. apply (utf8_valid_split_n (length x)). lia. Qed.

(* ================================================================ ASCII *)
Lemma is_ascii_asciib b : CollIri.is_ascii b = is_asciib b.
Proof. reflexivity. Qed.

Lemma runes_ascii s : forallb is_asciib s = true -> runes s = map byteN s.
Proof.
  induction s as [|c s IH]; [reflexivity|]. simpl forallb. rewrite andb_true_iff. intros [Hc Hs].
  rewrite (runes_ascii_cons c s Hc), (IH Hs). reflexivity.
Qed.

Lemma utf8_valid_ascii s : forallb is_asciib s = true -> utf8_valid s = true.
Proof.
  induction s as [|c s IH]; [reflexivity|]. simpl forallb. rewrite andb_true_iff. intros [Hc Hs].
  rewrite utf8_valid_cons, (lead_ascii c Hc). apply IH. exact Hs.
Qed.

(* every rune of a string is an ASCII byte of the string or is >= 0x80 *)
Lemma runes_in_n n : forall s r, length s <= n -> In r (runes s) ->
  (128 <= r)%N \/ exists b, In b s /\ is_asciib b = true /\ r = byteN b.
Proof.
  induction n as [|n IH]; intros s r Hl Hin.
  - destruct s; [destruct Hin|simpl in Hl; lia].
  - destruct s as [|p0 t]; [destruct Hin|]. simpl in Hl. rewrite runes_cons in Hin.
    assert (Tail : forall z, length z <= n -> incl z t -> In r (runes z) ->
                   (128 <= r)%N \/ exists b, In b (p0 :: t) /\ is_asciib b = true /\ r = byteN b).
    { intros z Hz Hi Hr. destruct (IH z r Hz Hr) as [H|[b [Hb [Ha Er]]]]; [left; exact H|].
      right. exists b. split; [right; apply Hi; exact Hb|auto]. }
    assert (Err : (128 <= err p0)%N) by apply err_big.
    destruct (lead_of p0) as [| | |lo hi|lo hi] eqn:L.
    + destruct Hin as [E|Hin]; [|apply (Tail t); [lia|apply incl_refl|exact Hin]].
      right. exists p0. split; [left; reflexivity|]. split; [|symmetry; exact E].
      destruct (is_asciib p0) eqn:A; [reflexivity|]. exfalso. exact (lead_nonascii p0 A L).
    + destruct Hin as [E|Hin]; [left; rewrite <- E; exact Err|apply (Tail t); [lia|apply incl_refl|exact Hin]].
    + destruct t as [|b1 r1].
      * destruct Hin as [E|[]]. left; rewrite <- E; exact Err.
      * destruct (is_cont b1).
        -- destruct Hin as [E|Hin]; [left; rewrite <- E; apply rune2_big; exact L|].
           apply (Tail r1); [simpl in Hl; lia|apply incl_tl, incl_refl|exact Hin].
        -- destruct Hin as [E|Hin]; [left; rewrite <- E; exact Err|apply (Tail (b1 :: r1)); [lia|apply incl_refl|exact Hin]].
    + destruct t as [|b1 [|b2 r2]];
        try (destruct Hin as [E|Hin]; [left; rewrite <- E; exact Err|match type of Hin with In _ (runes ?z) => apply (Tail z); [simpl in *; lia|apply incl_refl|exact Hin] end]).
      destruct (is_cont b1 && in_rng lo hi b1 && is_cont b2) eqn:C.
      * destruct Hin as [E|Hin].
        -- left. rewrite <- E. apply (rune3_big p0 b1 b2 lo hi L).
           apply andb_true_iff in C. destruct C as [C _]. apply andb_true_iff in C. tauto.
        -- apply (Tail r2); [simpl in Hl; lia|do 2 apply incl_tl; apply incl_refl|exact Hin].
      * destruct Hin as [E|Hin]; [left; rewrite <- E; exact Err|match type of Hin with In _ (runes ?z) => apply (Tail z); [simpl in *; lia|apply incl_refl|exact Hin] end].
    + destruct t as [|b1 [|b2 [|b3 r3]]];
        try (destruct Hin as [E|Hin]; [left; rewrite <- E; exact Err|match type of Hin with In _ (runes ?z) => apply (Tail z); [simpl in *; lia|apply incl_refl|exact Hin] end]).
      destruct (is_cont b1 && in_rng lo hi b1 && is_cont b2 && is_cont b3) eqn:C.
      * destruct Hin as [E|Hin].
        -- left. rewrite <- E. apply (rune4_big p0 b1 b2 b3 lo hi L).
           apply andb_true_iff in C. destruct C as [C _]. apply andb_true_iff in C. destruct C as [C _].
           apply andb_true_iff in C. tauto.
        -- apply (Tail r3); [simpl in Hl; lia|do 3 apply incl_tl; apply incl_refl|exact Hin].
      * destruct Hin as [E|Hin]; [left; rewrite <- E; exact Err|match type of Hin with In _ (runes ?z) => apply (Tail z); [simpl in *; lia|apply incl_refl|exact Hin] end].
Qed.

Lemma runes_in s r : In r (runes s) -> (128 <= r)%N \/ exists b, In b s /\ is_asciib b = true /\ r = byteN b.
Proof. apply (runes_in_n (length s)). lia. Qed.

Lemma byteN_inj a b : byteN a = byteN b -> a = b.
Proof.
  unfold byteN. intros H. apply (f_equal Byte.of_N) in H. rewrite !Byte.of_to_N in H. inversion H. reflexivity.
Qed.

(* an ASCII rune occurs in the decoding exactly when the byte occurs in the string *)
Lemma runes_in_ascii s c : is_asciib c = true -> (In (byteN c) (runes s) <-> In c s).
Proof.
  intros Hc. split.
  - intros H. destruct (runes_in s _ H) as [H1|[b [Hb [_ E]]]].
    + unfold is_asciib in Hc. apply N.ltb_lt in Hc. lia.
    + apply byteN_inj in E. subst b. exact Hb.
  - intros H. destruct (in_split _ _ H) as [x [y E]]. subst s. rewrite (runes_app_ascii x c y Hc).
    apply in_or_app. right. left. reflexivity.
Qed.

Lemma runes_nil s : runes s = [] -> s = [].
Proof.
  destruct s as [|p0 r]; [reflexivity|]. rewrite runes_cons.
  destruct (lead_of p0); try discriminate.
  - destruct r as [|b1 r1]; [discriminate|]. destruct (is_cont b1); discriminate.
  - destruct r as [|b1 [|b2 r2]]; try discriminate. destruct (_ && _); discriminate.
  - destruct r as [|b1 [|b2 [|b3 r3]]]; try discriminate. destruct (_ && _); discriminate.
Qed.

(* ================================================================ a valid string begins with a complete rune *)
Lemma cont_lead_bad_all : forallb (fun b => implb (is_cont b) (match lead_of b with LBad => true | _ => false end)) all_bytes = true.
Proof. vm_compute. reflexivity. Qed.
Lemma lead_not_cont b : (match lead_of b with LBad => false | _ => true end) = true -> is_cont b = false.
Proof.
  intros H. pose proof (sweep _ cont_lead_bad_all b) as S. cbv beta in S.
  destruct (is_cont b); [|reflexivity]. simpl in S. destruct (lead_of b); discriminate.
Qed.
Lemma lead_ascii_inv b : lead_of b = LAscii -> is_asciib b = true.
Proof. intros E. pose proof (sweep _ lead_ascii_all b) as S. cbv beta in S. rewrite E in S. exact S. Qed.
Lemma lead_multi_nonascii b : (match lead_of b with LAscii => false | _ => true end) = true -> is_asciib b = false.
Proof.
  intros H. pose proof (sweep _ lead_ascii_all b) as S. cbv beta in S.
  destruct (lead_of b); try discriminate; apply negb_true_iff in S; exact S.
Qed.
Lemma cont_nonascii b : is_cont b = true -> is_asciib b = false.
Proof. intros H. destruct (is_asciib b) eqn:A; [|reflexivity]. rewrite (ascii_not_cont b A) in H. discriminate. Qed.

Lemma valid_chunk c r : utf8_valid (c :: r) = true ->
  exists ch rest x, c :: r = ch ++ rest /\ utf8_valid ch = true /\ utf8_valid rest = true /\ runes ch = [x]
    /\ length rest < length (c :: r) /\ is_cont c = false
    /\ ((is_asciib c = true /\ ch = [c] /\ x = byteN c)
        \/ ((128 <= x)%N /\ forallb (fun b => negb (is_asciib b)) ch = true)).
Proof.
  rewrite utf8_valid_cons. destruct (lead_of c) as [| | |lo hi|lo hi] eqn:L; intros H.
  - exists [c], r, (byteN c). repeat split.
    + rewrite utf8_valid_cons, L. reflexivity.
    + exact H.
    + rewrite runes_cons, L. reflexivity.
    + simpl. lia.
    + apply lead_not_cont. rewrite L. reflexivity.
    + left. repeat split. apply lead_ascii_inv. exact L.
  - discriminate.
  - destruct r as [|b1 r1]; [discriminate|]. apply andb_true_iff in H. destruct H as [H1 H].
    exists [c; b1], r1, (rune2 c b1). repeat split.
    + rewrite utf8_valid_cons, L, H1. reflexivity.
    + exact H.
    + rewrite runes_cons, L, H1. reflexivity.
    + simpl. lia.
    + apply lead_not_cont. rewrite L. reflexivity.
    + right. split; [apply rune2_big; exact L|]. cbn [forallb].
      rewrite (lead_multi_nonascii c) by (rewrite L; reflexivity). rewrite (cont_nonascii b1 H1). reflexivity.
  - destruct r as [|b1 [|b2 r2]]; try discriminate.
    apply andb_true_iff in H. destruct H as [H1 H]. pose proof H1 as H1'.
    apply andb_true_iff in H1. destruct H1 as [H1 H3]. apply andb_true_iff in H1. destruct H1 as [H1 H2].
    exists [c; b1; b2], r2, (rune3 c b1 b2). repeat split.
    + rewrite utf8_valid_cons, L, H1'. reflexivity.
    + exact H.
    + rewrite runes_cons, L, H1'. reflexivity.
    + simpl. lia.
    + apply lead_not_cont. rewrite L. reflexivity.
    + right. split; [apply (rune3_big c b1 b2 lo hi L H2)|]. cbn [forallb].
      rewrite (lead_multi_nonascii c) by (rewrite L; reflexivity). rewrite (cont_nonascii b1 H1), (cont_nonascii b2 H3). reflexivity.
  - destruct r as [|b1 [|b2 [|b3 r3]]]; try discriminate.
    apply andb_true_iff in H. destruct H as [H1 H]. pose proof H1 as H1'.
    apply andb_true_iff in H1. destruct H1 as [H1 H4]. apply andb_true_iff in H1. destruct H1 as [H1 H3].
    apply andb_true_iff in H1. destruct H1 as [H1 H2].
    exists [c; b1; b2; b3], r3, (rune4 c b1 b2 b3). repeat split.
    + rewrite utf8_valid_cons, L, H1'. reflexivity.
    + exact H.
    + rewrite runes_cons, L, H1'. reflexivity.
    + simpl. lia.
    + apply lead_not_cont. rewrite L. reflexivity.
    + right. split; [apply (rune4_big c b1 b2 b3 lo hi L H2)|]. cbn [forallb].
      rewrite (lead_multi_nonascii c) by (rewrite L; reflexivity).
      rewrite (cont_nonascii b1 H1), (cont_nonascii b2 H3), (cont_nonascii b3 H4). reflexivity.
Qed.
End Err.

(* the two decodings agree on valid UTF-8 *)
Lemma runes_valid_any_n err err' n : forall s, length s <= n -> utf8_valid s = true -> runes_with err s = runes_with err' s.
Proof.
  induction n as [|n IH]; intros s Hl V; [destruct s; [reflexivity|simpl in Hl; lia]|].
  destruct s as [|p0 r]; [reflexivity|]. simpl in Hl. rewrite !runes_cons. rewrite utf8_valid_cons in V.
  destruct (lead_of p0) as [| | |lo hi|lo hi].
  - f_equal. apply IH; [lia|exact V].
  - discriminate.
  - destruct r as [|b1 r1]; [discriminate|]. apply andb_true_iff in V. destruct V as [H1 V]. rewrite H1.
    f_equal. apply IH; [simpl in Hl; lia|exact V].
  - destruct r as [|b1 [|b2 r2]]; try discriminate. apply andb_true_iff in V. destruct V as [H1 V]. rewrite H1.
    f_equal. apply IH; [simpl in Hl; lia|exact V].
  - destruct r as [|b1 [|b2 [|b3 r3]]]; try discriminate. apply andb_true_iff in V. destruct V as [H1 V]. rewrite H1.
    f_equal. apply IH; [simpl in Hl; lia|exact V].
Qed.
Lemma runes_valid_any err err' s : utf8_valid s = true -> runes_with err s = runes_with err' s.
Proof. apply (runes_valid_any_n err err' (length s)). lia. Qed.

Lemma lax_err_big b : (128 <= lax_err b)%N.
Proof. unfold lax_err, rune_error. lia. Qed.
Lemma strict_err_big b : (128 <= strict_err b)%N.
Proof. unfold strict_err, rune_limit. lia. Qed.
