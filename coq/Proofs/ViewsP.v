From AP.Model Require Import Prelude Vocab Layout Views.

Lemma fid_beq_eq a b : fid_beq a b = true <-> a = b.
Proof. split; [apply internal_fid_dec_bl|apply internal_fid_dec_lb]. Qed.

Lemma fid_beq_refl a : fid_beq a a = true.
Proof. apply fid_beq_eq; reflexivity. Qed.

Section ViewsP.
  Variable layout_of : kind -> list fdecl.
  Variable sizeof_kind : kind -> nat.

  Notation backing := (backing layout_of).
  Notation prefix_compatible := (prefix_compatible layout_of sizeof_kind).
  Notation view_fields := (view_fields layout_of sizeof_kind).
  Notation view_write := (view_write layout_of).

  Lemma same_field_spec a b : same_field a b = true <-> a = b \/ a = ren b.
  Proof. unfold same_field. rewrite orb_true_iff, !fid_beq_eq. tauto. Qed.

  (* what "backed" gives: a field of the source at the same offset, of the same Go type and size,
     named alike up to ren *)
  Lemma backing_spec src d s :
    backing src d = Some s ->
    In s (layout_of src) /\ fd_off s = fd_off d /\ gotype_eqb (fd_type s) (fd_type d) = true /\
    fd_size s = fd_size d /\ (fd_fid s = fd_fid d \/ fd_fid s = ren (fd_fid d)).
  Proof.
    unfold Views.backing, find_at. destruct (find _ (layout_of src)) as [s'|] eqn:E; [|discriminate].
    apply find_some in E. destruct E as [Hin Hoff]. apply Nat.eqb_eq in Hoff.
    destruct (gotype_eqb (fd_type s') (fd_type d)) eqn:Et; simpl; [|discriminate].
    destruct (Nat.eqb (fd_size s') (fd_size d)) eqn:Es; simpl; [|discriminate].
    destruct (same_field (fd_fid s') (fd_fid d)) eqn:Ef; [|discriminate].
    intros H; inversion H; subst s'. apply Nat.eqb_eq in Es. apply same_field_spec in Ef.
    repeat split; auto.
  Qed.

  (* the generic soundness theorem for a pointer reinterpretation *)
  Lemma view_sound dst src :
    prefix_compatible dst src = true ->
    sizeof_kind dst <= sizeof_kind src /\
    forall d, In d (layout_of dst) ->
      exists s, backing src d = Some s /\ In s (layout_of src) /\ fd_off s = fd_off d /\
                gotype_eqb (fd_type s) (fd_type d) = true /\ fd_size s = fd_size d /\
                (fd_fid s = fd_fid d \/ fd_fid s = ren (fd_fid d)).
  Proof.
    unfold Views.prefix_compatible. rewrite andb_true_iff, Nat.leb_le, forallb_forall.
    intros [Hsz Hall]. split; [exact Hsz|]. intros d Hd. specialize (Hall d Hd).
    unfold field_backed in Hall. destruct (backing src d) as [s|] eqn:E; [|discriminate].
    exists s. split; [reflexivity|]. apply backing_spec. exact E.
  Qed.

  Lemma view_fields_of_some src ds fs :
    (forall d, In d ds -> field_backed layout_of src d = true) ->
    exists out, view_fields_of layout_of src ds fs = Some out.
  Proof.
    induction ds as [|d r IH]; intros H; simpl; [eexists; reflexivity|].
    assert (field_backed layout_of src d = true) as Hd by (apply H; left; reflexivity).
    unfold field_backed in Hd. destruct (backing src d) as [s|] eqn:E; [|discriminate].
    destruct IH as [out Hout]; [intros d' Hd'; apply H; right; exact Hd'|].
    rewrite Hout. destruct (getf (fd_fid s) fs); eexists; reflexivity.
  Qed.

  Lemma view_fields_of_get src ds fs out :
    NoDup (map fd_fid ds) ->
    view_fields_of layout_of src ds fs = Some out ->
    forall d, In d ds -> exists s, backing src d = Some s /\ getf (fd_fid d) out = getf (fd_fid s) fs.
  Proof.
    revert out. induction ds as [|d0 r IH]; intros out ND Hv d Hd; [destruct Hd|].
    simpl in Hv. destruct (backing src d0) as [s0|] eqn:E0; [|discriminate].
    destruct (view_fields_of layout_of src r fs) as [out'|] eqn:Er; [|discriminate].
    inversion ND as [|? ? Hnotin ND']; subst.
    assert (forall d', In d' r -> getf (fd_fid d0) out' = None -> True) as _ by trivial.
    assert (getf (fd_fid d0) out' = None) as Hnone.
    { clear - Er Hnotin. revert out' Er. induction r as [|d1 r IHr]; intros out' Er; simpl in Er.
      - inversion Er; reflexivity.
      - destruct (backing src d1) as [s1|]; [|discriminate].
        destruct (view_fields_of layout_of src r fs) as [o2|] eqn:E2; [|discriminate].
        assert (fd_fid d0 <> fd_fid d1) as Hne by (intro Heq; apply Hnotin; left; auto).
        assert (getf (fd_fid d0) o2 = None) as H2 by (apply IHr; [intro Hin; apply Hnotin; right; exact Hin|reflexivity]).
        destruct (getf (fd_fid s1) fs); inversion Er; subst; simpl; [|exact H2].
        destruct (fid_beq (fd_fid d0) (fd_fid d1)) eqn:Eb; [apply fid_beq_eq in Eb; contradiction|exact H2]. }
    destruct Hd as [<-|Hd].
    - exists s0. split; [exact E0|].
      destruct (getf (fd_fid s0) fs) as [v|] eqn:Eg; inversion Hv; subst; simpl.
      + rewrite fid_beq_refl. reflexivity.
      + exact Hnone.
    - destruct (IH out' ND' eq_refl d Hd) as [s [Hb Hg]]. exists s. split; [exact Hb|].
      assert (fd_fid d <> fd_fid d0) as Hne.
      { intro Heq. apply Hnotin. rewrite <- Heq. apply in_map. exact Hd. }
      destruct (getf (fd_fid s0) fs); inversion Hv; subst; simpl; [|exact Hg].
      destruct (fid_beq (fd_fid d) (fd_fid d0)) eqn:Eb; [apply fid_beq_eq in Eb; contradiction|exact Hg].
  Qed.

  (* reading through a sound view: every field of the view type holds what the backing field of the
     original holds (the same field, or OrderedItems for Items and vice versa) *)
  Lemma view_faithful dst src fs :
    prefix_compatible dst src = true -> NoDup (map fd_fid (layout_of dst)) ->
    exists out, view_fields dst src fs = Some out /\
      forall d, In d (layout_of dst) ->
        exists s, backing src d = Some s /\ (fd_fid s = fd_fid d \/ fd_fid s = ren (fd_fid d)) /\
                  getf (fd_fid d) out = getf (fd_fid s) fs.
  Proof.
    intros Hpc ND. pose proof Hpc as Hpc'. unfold Views.prefix_compatible in Hpc.
    rewrite andb_true_iff, forallb_forall in Hpc. destruct Hpc as [Hsz Hall].
    unfold Views.view_fields. rewrite Hsz.
    destruct (view_fields_of_some src (layout_of dst) fs Hall) as [out Hout].
    exists out. split; [exact Hout|]. intros d Hd.
    destruct (view_fields_of_get src _ fs out ND Hout d Hd) as [s [Hb Hg]].
    exists s. split; [exact Hb|]. split; [|exact Hg].
    apply backing_spec in Hb. tauto.
  Qed.

  (* writing through a sound view of a pointer is a write to the backing field of the original *)
  Lemma view_write_through dst src f v fs d :
    prefix_compatible dst src = true -> find_fid f (layout_of dst) = Some d ->
    exists s, backing src d = Some s /\ view_write dst src f v fs = Some (setf (fd_fid s) v fs).
  Proof.
    intros Hpc Hf. apply view_sound in Hpc. destruct Hpc as [_ Hall].
    assert (In d (layout_of dst)) as Hd by (unfold find_fid in Hf; apply find_some in Hf; tauto).
    destruct (Hall d Hd) as [s [Hb _]]. exists s. split; [exact Hb|].
    unfold Views.view_write. rewrite Hf, Hb. reflexivity.
  Qed.

  (* an unsound site is refused by the condition: a view type larger than the source never passes *)
  Lemma widening_rejected dst src : sizeof_kind src < sizeof_kind dst -> prefix_compatible dst src = false.
  Proof.
    intros H. unfold Views.prefix_compatible. apply andb_false_iff. left. apply Nat.leb_gt. exact H.
  Qed.
End ViewsP.
