(* PredTab.walk_views (builder b57: OnObject handed a list inside the predicate interpreter, written by hand "after
   OnObject") against OnTab.visit (builder b49: the specification the GENERATED bodies of Gen/OnT.v are proved equal to).

   Both describe the loop of OnObject over the members of a list.  They differ in what they produce:
     visit       a trace of the POINTERS the callback was handed (OvItem (IObj true KObject vf): the member seen
                 through the layout of Object - vf = the member's properties at the offsets of Object's fields, as
                 Model/Conv.conv_item computes them from Gen/Conv.v and Gen/Layout.v) and the outcome (nil / error),
                 for any callback, which may answer with an error at any call;
     walk_views  the list of VIEWS (VI (IObj true KObject fs): the member retagged, its WHOLE property list shared)
                 and a flag (false: a member ToObject refuses ended the walk); the callback never answers with an error.
   The correspondence proved here, for every conversion table satisfying the decidable [struct_conv_ok], every guard that
   passes over nil members and links, every callback, all lists at any depth:
     [wv_members d g i] = the longest prefix of [kept g i] (b49: the members the walk gets to, nested lists opened,
                          passed-over members dropped, in order) whose members ToObject accepts
     fst (walk_views d i) = map (view_at d) (wv_members d g i)
     snd (walk_views d i) = all of [kept g i] was accepted
     visit .. i tr        = feed cb (map (ptr_of ..) (wv_members d g i)) (snd (walk_views d i)) tr
                            ([feed]: hand the pointers over one by one; the callback's error ends it; at the end nil when
                            the flag is true, the conversion error when it is false)
     and member by member: the view carries the member's property list fs, the pointer the list vf with
                            vf = fs (the member is an Object) or view_fields Object k fs = Some vf (a cast).
   Definitions and proofs; statements in Props/C20.v. *)
From AP.Model Require Import Prelude Bytes Vocab Pred Layout Views Conv Dispatch TabEq OnTab OnGen.
From AP.Model Require Equal PredTab.
From AP.Proofs Require Import NlvP TabEqP OnTabP.
From Coq Require Import Lia.

(* ------------------------------------------------------------------ definitions *)
(* does To<d> accept the member (a struct whose layout d is a prefix of) *)
Definition castable (d : kind) (m : item) : bool :=
  match m with IObj _ k _ => Equal.cast_ok d k | _ => false end.
(* the view of PredTab for a member: retagged, the property list shared *)
Definition view_at (d : kind) (m : item) : PredTab.pv :=
  match m with IObj _ _ fs => PredTab.VI (IObj true d fs) | _ => PredTab.VZero end.

Fixpoint take_while {A} (f : A -> bool) (l : list A) : list A :=
  match l with [] => [] | x :: r => if f x then x :: take_while f r else [] end.

(* a guard that passes over nil members and over links (helpers.go OnObject: IsNil(it) || IsLink(it)) *)
Definition both_guard (g : loop_guard) : bool := guard_skips_nil g && guard_skips_links g.

(* the members both walks get to and convert *)
Definition wv_members (d : kind) (g : loop_guard) (i : item) : list item := take_while (castable d) (kept g i).

(* hand the pointers to the callback one after the other *)
Fixpoint feed (cb : otrace -> oval -> bool) (ps : list oval) (ok : bool) (tr : otrace) : otrace * outcome (list oval) :=
  match ps with
  | [] => (tr, if ok then r_nil else r_err)
  | p :: r => if cb tr p then (tr ++ [p], r_err) else feed cb r ok (tr ++ [p])
  end.

(* pointer and view of one member *)
Definition ptr_view_rel (layout_of : kind -> list fdecl) (sizeof_kind : kind -> nat) (d : kind)
           (m : item) (p : oval) (v : PredTab.pv) : Prop :=
  exists p0 k fs vf, m = IObj p0 k fs /\ Equal.cast_ok d k = true /\
    v = PredTab.VI (IObj true d fs) /\ p = OvItem (IObj true d vf) /\
    (vf = fs \/ view_fields layout_of sizeof_kind d k fs = Some vf).

(* the decidable condition on a conversion table: To<d> of a struct of each kind that is no Link, in both forms,
   answers with a pointer of kind d exactly where Equal.cast_ok says so and with an error elsewhere; an IRI that is not
   nil is answered with an error *)
Definition non_link_kinds : list kind := filter (fun k => negb (kind_beq k KLink)) all_kinds.
Definition struct_conv_ok (layout_of : kind -> list fdecl) (sizeof_kind : kind -> nat) (refl : list (kind * kind))
           (ct : list (bytes * list conv_case * conv_action)) (tofn : bytes) (d : kind) : bool :=
  match to_target tofn, find (fun t => bytes_eqb (fst (fst t)) tofn) ct with
  | Some d', Some t =>
      kind_beq d d' &&
      forallb (fun k => forallb (fun p =>
          match conv_item layout_of sizeof_kind refl (snd (fst t)) (snd t) d (IObj p k []) with
          | CRView _ (IObj true d'' []) => kind_beq d d'' && Equal.cast_ok d k
          | CRErr => negb (Equal.cast_ok d k)
          | _ => false
          end) [true; false]) non_link_kinds &&
      forallb (fun p => match conv_item layout_of sizeof_kind refl (snd (fst t)) (snd t) d (IIri p (B "x")) with
                        | CRErr => true | _ => false end) [true; false]
  | _, _ => false
  end.

(* the guard of a list helper of a table passes over nil members and links *)
Definition helper_guard_both (tbl : list ofn) (h : bytes * bytes) : bool :=
  match struct_matches tbl h with Some g => both_guard g | None => false end.

Definition h_object : bytes * bytes := (B "OnObject", B "ToObject").

(* diagnoses (evaluated first, so that a broken obligation names what moved): the helper and the guard found; the
   first struct kind and form (pointer?) on which the conversion table and Equal.cast_ok part *)
Definition helper_guard_diag (tbl : list ofn) (h : bytes * bytes) : option (bytes * option loop_guard) :=
  match struct_matches tbl h with
  | Some g => if both_guard g then None else Some (fst h, Some g)
  | None => Some (fst h, None)
  end.
Inductive conv_diag := CdNoTable | CdTarget (d : kind) | CdKind (k : kind) (ptr : bool) (r : conv_result) | CdIri (ptr : bool).
Definition struct_conv_first_bad (layout_of : kind -> list fdecl) (sizeof_kind : kind -> nat) (refl : list (kind * kind))
           (ct : list (bytes * list conv_case * conv_action)) (tofn : bytes) (d : kind) : option conv_diag :=
  match to_target tofn, find (fun t => bytes_eqb (fst (fst t)) tofn) ct with
  | Some d', Some t =>
      if negb (kind_beq d d') then Some (CdTarget d') else
      match find (fun kp =>
          negb match conv_item layout_of sizeof_kind refl (snd (fst t)) (snd t) d (IObj (snd kp) (fst kp) []) with
               | CRView _ (IObj true d'' []) => kind_beq d d'' && Equal.cast_ok d (fst kp)
               | CRErr => negb (Equal.cast_ok d (fst kp))
               | _ => false
               end) (flat_map (fun k => [(k, true); (k, false)]) non_link_kinds) with
      | Some kp => Some (CdKind (fst kp) (snd kp)
                           (conv_item layout_of sizeof_kind refl (snd (fst t)) (snd t) d (IObj (snd kp) (fst kp) [])))
      | None =>
          match find (fun p => negb match conv_item layout_of sizeof_kind refl (snd (fst t)) (snd t) d (IIri p (B "x")) with
                                    | CRErr => true | _ => false end) [true; false] with
          | Some p => Some (CdIri p)
          | None => None
          end
      end
  | _, _ => Some CdNoTable
  end.

(* ------------------------------------------------------------------ lists *)
Lemma take_while_app {A} (f : A -> bool) a b :
  take_while f (a ++ b) = if forallb f a then a ++ take_while f b else take_while f a.
Proof.
  induction a as [|x a IH]; [reflexivity|]. cbn [app take_while forallb].
  destruct (f x); [|reflexivity]. cbn [andb]. rewrite IH. destruct (forallb f a); reflexivity.
Qed.

Lemma wv_kind_beq_eq a b : kind_beq a b = true -> a = b.
Proof. destruct a, b; try discriminate; reflexivity. Qed.

Lemma take_while_all {A} (f : A -> bool) a : forallb f a = true -> take_while f a = a.
Proof.
  induction a as [|x a IH]; [reflexivity|]. cbn [take_while forallb]. destruct (f x); [|discriminate].
  intro H. rewrite (IH H). reflexivity.
Qed.

Lemma skips_both g m : both_guard g = true -> skips g m = is_nil m || is_link m.
Proof.
  unfold both_guard, skips. intro H. apply andb_true_iff in H. destruct H as [-> ->]. reflexivity.
Qed.

(* ------------------------------------------------------------------ walk_views over the members visit gets to *)
Definition wv_go (d : kind) : list item -> list PredTab.pv * bool :=
  fix go (l : list item) : list PredTab.pv * bool :=
    match l with
    | [] => ([], true)
    | m :: r => if is_nil m || is_link m then go r
                else let (a, ok) := PredTab.walk_views d m in
                     if ok then let (b, ok') := go r in (a ++ b, ok') else (a, false)
    end.

Lemma walk_views_items d p l : PredTab.walk_views d (IItems p (Some l)) = wv_go d l.
Proof. reflexivity. Qed.

Lemma walk_views_iris d g p lo : both_guard g = true ->
  PredTab.walk_views d (IIris p lo) =
  (map (view_at d) (take_while (castable d) (kept g (IIris p lo))), forallb (castable d) (kept g (IIris p lo))).
Proof.
  intro Hg. cbn [PredTab.walk_views kept].
  replace (PredTab.lst lo) with (olst lo) by (destruct lo; reflexivity).
  induction (olst lo) as [|s r IH]; [reflexivity|].
  cbn [map filter forallb]. rewrite (skips_both g _ Hg).
  replace (is_link (IIri false s)) with false by reflexivity. rewrite orb_false_r.
  destruct (is_nil (IIri false s)) eqn:N; cbn [negb andb].
  - exact IH.
  - reflexivity.
Qed.

Theorem walk_views_kept d g : both_guard g = true ->
  forall n i, item_size i <= n -> is_item_collection i = true ->
    PredTab.walk_views d i =
    (map (view_at d) (take_while (castable d) (kept g i)), forallb (castable d) (kept g i)).
Proof.
  intro Hg. induction n as [|n IH]; intros i Hs Hc.
  - destruct i as [|k|p s|p k fs|p [l|]|p lo]; simpl in Hs; lia.
  - destruct i as [|k|p s|p k fs|p lo|p lo]; try discriminate.
    + destruct lo as [l|]; [|reflexivity]. rewrite walk_views_items, kept_items.
      assert (Hsz : forall x, In x l -> item_size x <= n) by (intros x Hx; pose proof (size_member p l x Hx); lia).
      clear Hs Hc. induction l as [|m r IHl]; [reflexivity|].
      assert (Hr : forall x, In x r -> item_size x <= n) by (intros x Hx; apply Hsz; right; exact Hx).
      specialize (IHl Hr). cbn [wv_go kept_go]. fold (wv_go d). rewrite (skips_both g m Hg).
      destruct (is_nil m || is_link m) eqn:S; [exact IHl|].
      rewrite take_while_app, forallb_app. rewrite IHl.
      destruct m as [|k|p' s|p' k fs|p' lo'|p' lo']; try discriminate S.
      * reflexivity.
      * cbn [PredTab.walk_views castable take_while forallb app]. destruct (Equal.cast_ok d k); reflexivity.
      * rewrite (IH (IItems p' lo')); [|apply Hsz; left; reflexivity|reflexivity].
        destruct (forallb (castable d) (kept g (IItems p' lo'))) eqn:A; [|reflexivity].
        cbn [andb]. rewrite map_app, (take_while_all _ _ A). reflexivity.
      * rewrite (IH (IIris p' lo')); [|apply Hsz; left; reflexivity|reflexivity].
        destruct (forallb (castable d) (kept g (IIris p' lo'))) eqn:A; [|reflexivity].
        cbn [andb]. rewrite map_app, (take_while_all _ _ A). reflexivity.
    + apply walk_views_iris; exact Hg.
Qed.

(* ------------------------------------------------------------------ visit over the same members *)
Section Feed.
  Variable conv : bytes -> option (item -> conv_result).
  Variable targ : bool * kind.
  Variable cb : otrace -> oval -> bool.
  Variable tofn : bytes.
  Variable d : kind.

  (* the conversion answers (pointer, nil) where the member is castable and (_, error) where it is not *)
  Definition member_regular (m : item) : Prop :=
    (castable d m = true /\ exists p, leaf conv targ tofn [OvItem m] = Ok [p; OvNil]) \/
    (castable d m = false /\ exists x, leaf conv targ tofn [OvItem m] = Ok [x; OvErr]).

  Lemma walk_feed g l : (forall m, In m l -> skips g m = false /\ member_regular m) ->
    forall tr, walk_with (visit_one conv targ cb tofn) g l tr =
               feed cb (map (ptr_of conv targ tofn) (take_while (castable d) l)) (forallb (castable d) l) tr.
  Proof.
    induction l as [|m r IH]; intros H tr; [reflexivity|].
    assert (Hr : forall x, In x r -> skips g x = false /\ member_regular x) by (intros x Hx; apply H; right; exact Hx).
    destruct (H m (or_introl eq_refl)) as [S [[C [p L]]|[C [x L]]]];
      cbn [walk_with take_while forallb]; rewrite S, C; unfold visit_one; rewrite L.
    - cbn [map feed andb].
      assert (P : ptr_of conv targ tofn m = p) by (unfold ptr_of; rewrite L; reflexivity). rewrite P.
      destruct (cb tr p); cbn [and_then]; [reflexivity|]. apply IH; exact Hr.
    - reflexivity.
  Qed.
End Feed.

(* ------------------------------------------------------------------ conversions read off tables *)
Section Tables.
  Variable layout_of : kind -> list fdecl.
  Variable sizeof_kind : kind -> nat.
  Variable refl : list (kind * kind).

  Lemma view_fields_of_some src ds fs fs' :
    view_fields_of layout_of src ds fs = None -> view_fields_of layout_of src ds fs' = None.
  Proof.
    induction ds as [|x r IH]; [discriminate|]. cbn [view_fields_of].
    destruct (backing layout_of src x) as [s|]; [|reflexivity].
    destruct (view_fields_of layout_of src r fs) as [o|] eqn:E.
    - destruct (getf (fd_fid s) fs); discriminate.
    - intros _. rewrite (IH eq_refl). reflexivity.
  Qed.

  Lemma view_fields_shape dst src fs fs' :
    view_fields layout_of sizeof_kind dst src fs = None -> view_fields layout_of sizeof_kind dst src fs' = None.
  Proof.
    unfold view_fields. destruct (Nat.leb _ _); [|reflexivity]. apply view_fields_of_some.
  Qed.

  Notation CI := (conv_item layout_of sizeof_kind refl).

  (* the answer on a struct depends on its properties only through the properties of the view *)
  Lemma conv_item_obj tbl dflt d p k fs :
    (forall a d'', CI tbl dflt d (IObj p k []) = CRView a (IObj true d'' []) ->
       exists vf, CI tbl dflt d (IObj p k fs) = CRView a (IObj true d'' vf) /\
                  ((d'' = k /\ vf = fs) \/ view_fields layout_of sizeof_kind d'' k fs = Some vf)) /\
    (CI tbl dflt d (IObj p k []) = CRErr -> CI tbl dflt d (IObj p k fs) = CRErr).
  Proof.
    unfold conv_item. cbn [shape_of is_nil].
    destruct (find_case tbl (CK k, p)) as [c|].
    - destruct (cv_action c) as [| |[d0|o]|[d0|o]| | | | | |]; split; intros; try discriminate.
      + match goal with H : CRView _ _ = CRView _ _ |- _ => injection H as <- <- end.
        exists fs. split; [reflexivity|left; split; reflexivity].
      + match goal with H : CRView _ _ = CRView _ _ |- _ => injection H as <- <- end.
        exists fs. split; [reflexivity|left; split; reflexivity].
      + destruct (view_fields layout_of sizeof_kind d0 k []) as [v0|] eqn:E0; [|discriminate].
        match goal with H : CRView _ _ = CRView _ _ |- _ => injection H as <- <- -> end.
        destruct (view_fields layout_of sizeof_kind d0 k fs) as [vf|] eqn:E.
        * exists vf. split; [reflexivity|right; reflexivity].
        * rewrite (view_fields_shape d0 k fs [] E) in E0. discriminate.
      + destruct (view_fields layout_of sizeof_kind d0 k []); discriminate.
      + destruct (view_fields layout_of sizeof_kind d0 k []) as [v0|] eqn:E0; [|discriminate].
        match goal with H : CRView _ _ = CRView _ _ |- _ => injection H as <- <- -> end.
        destruct (view_fields layout_of sizeof_kind d0 k fs) as [vf|] eqn:E.
        * exists vf. split; [reflexivity|right; reflexivity].
        * rewrite (view_fields_shape d0 k fs [] E) in E0. discriminate.
      + destruct (view_fields layout_of sizeof_kind d0 k []); discriminate.
    - split; [intros a d'' H|intro H]; destruct dflt; destruct p; try discriminate H; try exact H.
      all: cbn [is_nil] in H; destruct (reflect_ok refl k d); discriminate H.
  Qed.

  (* ... and on an IRI that is not nil not on the IRI *)
  Lemma conv_item_iri tbl dflt d p s :
    is_nil (IIri p s) = false -> CI tbl dflt d (IIri p (B "x")) = CRErr -> CI tbl dflt d (IIri p s) = CRErr.
  Proof.
    intro N. unfold conv_item. cbn [shape_of]. rewrite N.
    replace (is_nil (IIri p (B "x"))) with false by reflexivity.
    destruct (find_case tbl (CKOther (B "IRI"), p)) as [c|].
    - destruct (cv_action c) as [| |[d0|o]|[d0|o]| | | | | |]; intro H; try discriminate H.
    - destruct dflt; intro H; try discriminate H; reflexivity.
  Qed.

  Variable ct : list (bytes * list conv_case * conv_action).
  Notation CONV := (conv_of_tables layout_of sizeof_kind refl ct).

  Lemma in_non_link k : kind_beq k KLink = false -> In k non_link_kinds.
  Proof. intro H. destruct k; try discriminate H; vm_compute; tauto. Qed.

  (* what the condition gives for one member the walk converts *)
  Theorem struct_conv_member targ tofn d : struct_conv_ok layout_of sizeof_kind refl ct tofn d = true ->
    forall m, is_nil m = false -> is_link m = false -> is_item_collection m = false ->
      (castable d m = true /\
       ptr_view_rel layout_of sizeof_kind d m (ptr_of CONV targ tofn m) (view_at d m) /\
       leaf CONV targ tofn [OvItem m] = Ok [ptr_of CONV targ tofn m; OvNil]) \/
      (castable d m = false /\ exists x, leaf CONV targ tofn [OvItem m] = Ok [x; OvErr]).
  Proof.
    unfold struct_conv_ok. intro H.
    destruct (to_target tofn) as [d'|] eqn:T; [|discriminate].
    destruct (find (fun t => bytes_eqb (fst (fst t)) tofn) ct) as [t|] eqn:F; [|discriminate].
    apply andb_true_iff in H; destruct H as [H H3]. apply andb_true_iff in H; destruct H as [H1 H2].
    apply wv_kind_beq_eq in H1. subst d'.
    assert (L : forall m, leaf CONV targ tofn [OvItem m] =
                          conv_out d (conv_item layout_of sizeof_kind refl (snd (fst t)) (snd t) d m)).
    { intro m. destruct (to_name_not_fixed tofn d T) as [E1 [E2 [E3 [E4 E5]]]].
      unfold leaf. rewrite E1, E2, E3, E4, E5, T. unfold conv_of_tables. rewrite T, F. reflexivity. }
    intros m Nn Nl Nc.
    destruct m as [|k|p s|p k fs|p lo|p lo]; try discriminate.
    - (* an IRI that is not nil *)
      right. split; [reflexivity|].
      rewrite forallb_forall in H3.
      assert (Hp : In p [true; false]) by (destruct p; simpl; tauto).
      specialize (H3 p Hp).
      destruct (conv_item layout_of sizeof_kind refl (snd (fst t)) (snd t) d (IIri p (B "x"))) eqn:E; try discriminate H3.
      rewrite L, (conv_item_iri _ _ d p s Nn E). eexists; reflexivity.
    - (* a struct that is no Link *)
      assert (Hk : In k non_link_kinds) by (apply in_non_link; destruct k; try reflexivity; discriminate Nl).
      rewrite forallb_forall in H2. specialize (H2 k Hk). rewrite forallb_forall in H2.
      assert (Hp : In p [true; false]) by (destruct p; simpl; tauto).
      specialize (H2 p Hp).
      destruct (conv_item_obj (snd (fst t)) (snd t) d p k fs) as [V Er].
      destruct (conv_item layout_of sizeof_kind refl (snd (fst t)) (snd t) d (IObj p k [])) as [| | | |a v| |] eqn:E;
        try discriminate H2.
      + right. apply negb_true_iff in H2. split; [exact H2|]. rewrite L, (Er eq_refl). eexists; reflexivity.
      + destruct v as [|k0|p0 s0|[|] d'' [|? ?]|p0 lo0|p0 lo0]; try discriminate H2.
        apply andb_true_iff in H2; destruct H2 as [D C]. apply wv_kind_beq_eq in D. subst d''.
        destruct (V a d eq_refl) as [vf [Ev R]].
        assert (P : ptr_of CONV targ tofn (IObj p k fs) = OvItem (IObj true d vf)).
        { unfold ptr_of. rewrite L, Ev. reflexivity. }
        left. split; [exact C|]. split.
        * exists p, k, fs, vf. split; [reflexivity|]. split; [exact C|]. split; [reflexivity|]. split; [exact P|].
          destruct R as [[_ ->]|R]; [left; reflexivity|right; exact R].
        * rewrite P, L, Ev. reflexivity.
  Qed.
End Tables.

(* ------------------------------------------------------------------ THE statement *)
Section Tie.
  Variable layout_of : kind -> list fdecl.
  Variable sizeof_kind : kind -> nat.
  Variable refl : list (kind * kind).
  Variable ct : list (bytes * list conv_case * conv_action).
  Notation CONV := (conv_of_tables layout_of sizeof_kind refl ct).

  Theorem walk_views_is_visit targ cb tofn d g :
    struct_conv_ok layout_of sizeof_kind refl ct tofn d = true -> both_guard g = true ->
    forall i, is_item_collection i = true ->
      PredTab.walk_views d i = (map (view_at d) (wv_members d g i), forallb (castable d) (kept g i)) /\
      (forall tr, visit CONV targ cb tofn g true i tr =
                  feed cb (map (ptr_of CONV targ tofn) (wv_members d g i)) (snd (PredTab.walk_views d i)) tr) /\
      Forall (fun m => ptr_view_rel layout_of sizeof_kind d m (ptr_of CONV targ tofn m) (view_at d m)) (wv_members d g i).
  Proof.
    intros Hc Hg i Hi.
    assert (Hn : guard_skips_nil g = true) by (unfold both_guard in Hg; apply andb_true_iff in Hg; tauto).
    pose proof (walk_views_kept d g Hg (item_size i) i (le_n _) Hi) as W.
    pose proof (kept_members targ g Hn (item_size i) i (le_n _)) as K.
    assert (M : forall m, In m (kept g i) -> is_nil m = false /\ is_link m = false /\ is_item_collection m = false).
    { intros m Hm. destruct (K m Hm) as [S [N C]]. rewrite (skips_both g m Hg) in S.
      apply orb_false_iff in S. tauto. }
    split; [exact W|]. split.
    - intro tr. rewrite (visit_is_flat CONV targ cb tofn g true Hn (item_size i) i (le_n _) Hi tr).
      rewrite W. cbn [snd]. apply walk_feed. intros m Hm. split; [exact (proj1 (K m Hm))|].
      destruct (M m Hm) as [N [L C]].
      destruct (struct_conv_member layout_of sizeof_kind refl ct targ tofn d Hc m N L C) as [[A [_ B0]]|[A B0]].
      + left. split; [exact A|]. eexists; exact B0.
      + right. split; [exact A|exact B0].
    - unfold wv_members. apply Forall_forall. intros m Hm.
      assert (Hk : In m (kept g i) /\ castable d m = true).
      { revert Hm. generalize (kept g i). induction l as [|x r IH]; [intros []|].
        cbn [take_while]. destruct (castable d x) eqn:E; [|intros []].
        intros [<-|Hm]; [split; [left; reflexivity|exact E]|].
        destruct (IH Hm) as [A B0]. split; [right; exact A|exact B0]. }
      destruct Hk as [Hk Cm]. destruct (M m Hk) as [N [L C]].
      destruct (struct_conv_member layout_of sizeof_kind refl ct targ tofn d Hc m N L C) as [[_ [R _]]|[A _]].
      + exact R.
      + rewrite Cm in A. discriminate.
  Qed.

  (* through b49's tie: the interpreter of the GENERATED body of the helper, on a list *)
  Theorem walk_views_is_generated_walk targ cb tbl h d :
    on_shapes_ok tbl = true -> In h list_helpers -> helper_guard_both tbl h = true ->
    struct_conv_ok layout_of sizeof_kind refl ct (snd h) d = true ->
    exists g, struct_matches tbl h = Some g /\ both_guard g = true /\
      forall i fuel, is_item_collection i = true -> on_fuel i <= fuel ->
        run_on CONV targ cb tbl fuel (fst h) i =
        feed cb (map (ptr_of CONV targ (snd h)) (wv_members d g i)) (snd (PredTab.walk_views d i)) [] /\
        fst (PredTab.walk_views d i) = map (view_at d) (wv_members d g i) /\
        Forall (fun m => ptr_view_rel layout_of sizeof_kind d m (ptr_of CONV targ (snd h) m) (view_at d m)) (wv_members d g i).
  Proof.
    intros Hs Hh Hg Hc.
    destruct (list_helper_is_visit CONV targ cb tbl Hs h Hh) as [g [Hm Hrun]].
    unfold helper_guard_both in Hg. rewrite Hm in Hg.
    exists g. split; [exact Hm|]. split; [exact Hg|].
    intros i fuel Hi Hf.
    destruct (walk_views_is_visit targ cb (snd h) d g Hc Hg i Hi) as [W [V R]].
    split; [|split].
    - rewrite (Hrun i fuel Hf). unfold visit_struct. apply V.
    - rewrite W. reflexivity.
    - exact R.
  Qed.
End Tie.

(* a callback that never answers with an error (the closures of the predicates): the trace is the pointers, the
   outcome follows the flag *)
Lemma feed_never_errs ps ok tr : feed cb_ok ps ok tr = (tr ++ ps, if ok then r_nil else r_err).
Proof.
  revert tr. induction ps as [|p r IH]; intro tr; cbn [feed]; [rewrite app_nil_r; reflexivity|].
  unfold cb_ok at 1. rewrite IH, <- app_assoc. reflexivity.
Qed.

(* ------------------------------------------------------------------ the tables of this run *)
Lemma gen_object_conv_first_bad :
  struct_conv_first_bad AP.Gen.Layout.layout_of AP.Gen.Layout.sizeof_kind AP.Gen.Conv.reflect_convertible
                        AP.Gen.Conv.conv_tables (B "ToObject") KObject = None.
Proof. vm_compute. reflexivity. Qed.
Lemma gen_object_guard_diag : helper_guard_diag gen_on_fns h_object = None.
Proof. vm_compute. reflexivity. Qed.

Lemma gen_object_conv_ok :
  struct_conv_ok AP.Gen.Layout.layout_of AP.Gen.Layout.sizeof_kind AP.Gen.Conv.reflect_convertible
                 AP.Gen.Conv.conv_tables (B "ToObject") KObject = true.
Proof. vm_compute. reflexivity. Qed.

Lemma gen_object_guard_both : helper_guard_both gen_on_fns h_object = true.
Proof. vm_compute. reflexivity. Qed.

Lemma h_object_in : In h_object list_helpers.
Proof. left. reflexivity. Qed.

(* ------------------------------------------------------------------ NotEmpty on a list, over the generated walk *)
(* b57's C20_not_empty_list_table_tie read through the theorem above: the members whose notEmptyObject decides are
   the members whose ToObject pointers the interpreter of the GENERATED OnObject body hands to a callback that never
   answers with an error, in the same order *)
From AP.Model Require PredList.
From AP.Proofs Require PredListP.

Theorem not_empty_list_generated_walk layout_of sizeof_kind refl ct ptbl otbl :
  PredTab.pred_table_ok ptbl = true -> on_shapes_ok otbl = true -> helper_guard_both otbl h_object = true ->
  struct_conv_ok layout_of sizeof_kind refl ct (B "ToObject") KObject = true ->
  exists g, struct_matches otbl h_object = Some g /\
    forall p lo, is_nil (IItems p lo) = false -> PredListP.views_typed (IItems p lo) = true ->
      PredTab.sem_pred ptbl (B "NotEmpty") (IItems p lo)
        = Ok (PredList.ne_after true (map (view_at KObject) (wv_members KObject g (IItems p lo)))) /\
      forall targ fuel, on_fuel (IItems p lo) <= fuel ->
        fst (run_on (conv_of_tables layout_of sizeof_kind refl ct) targ cb_ok otbl fuel (B "OnObject") (IItems p lo))
          = map (ptr_of (conv_of_tables layout_of sizeof_kind refl ct) targ (B "ToObject")) (wv_members KObject g (IItems p lo)).
Proof.
  intros Hp Hs Hg Hc.
  destruct (walk_views_is_generated_walk layout_of sizeof_kind refl ct (false, KObject) cb_ok otbl h_object KObject
              Hs h_object_in Hg Hc) as [g [Hm [Hb _]]].
  exists g. split; [exact Hm|]. intros p lo Hn Ht. split.
  - rewrite (PredListP.not_empty_list_tie ptbl Hp p lo Hn Ht). unfold PredList.ne_list_spec.
    destruct (walk_views_is_visit layout_of sizeof_kind refl ct (false, KObject) cb_ok (B "ToObject") KObject g Hc Hb
                (IItems p lo) eq_refl) as [W _].
    rewrite W. reflexivity.
  - intros targ fuel Hf.
    destruct (walk_views_is_generated_walk layout_of sizeof_kind refl ct targ cb_ok otbl h_object KObject
                Hs h_object_in Hg Hc) as [g' [Hm' [_ Hrun]]].
    rewrite Hm in Hm'. injection Hm' as <-.
    destruct (Hrun (IItems p lo) fuel eq_refl Hf) as [R _].
    change (fst h_object) with (B "OnObject") in R. change (snd h_object) with (B "ToObject") in R.
    rewrite R, feed_never_errs. reflexivity.
Qed.
