(* Proofs about the write-effect condition of Model/WriteEff.v:
   - soundness: for EVERY table and EVERY pair of candidate sets, check_sets = true implies that no function
     reachable from the entry points by calls of any depth is an offender and that no node reachable through
     argument bindings of any depth is written (induction on the reachability derivations);
   - the search result is exact: what dfs returns is reachable (so the sets the condition is evaluated on are the
     reachable sets, not merely supersets);
   - the instances for the table generated on this run (vm_compute). *)
From Coq Require Import FMapPositive.
From AP.Model Require Import Prelude WriteEff WriteEffInst ReadOnly Effects.
From AP.Gen Require Import WriteEffects.

Lemma root_eqb_eq : forall a b, root_eqb a b = true -> a = b.
Proof.
  intros a b; destruct a, b; simpl; intro H; try discriminate; try reflexivity;
    try (apply andb_true_iff in H; destruct H as [H1 H2]; apply N.eqb_eq in H1; apply N.eqb_eq in H2; subst; reflexivity);
    apply N.eqb_eq in H; subst; reflexivity.
Qed.

Lemma root_eqb_refl : forall a, root_eqb a a = true.
Proof. intro a; destruct a; simpl; try reflexivity; try (rewrite !N.eqb_refl; reflexivity); apply N.eqb_refl. Qed.

Lemma node_eqb_eq : forall a b, node_eqb a b = true -> a = b.
Proof.
  intros [f r] [g s]; unfold node_eqb; simpl; intro H.
  apply andb_true_iff in H; destruct H as [H1 H2].
  apply N.eqb_eq in H1; apply root_eqb_eq in H2; subst; reflexivity.
Qed.

Lemma node_eqb_refl : forall a, node_eqb a a = true.
Proof. intros [f r]; unfold node_eqb; simpl; rewrite N.eqb_refl, root_eqb_refl; reflexivity. Qed.

Lemma mem_f_In : forall f L, mem_f f L = true -> In f L.
Proof.
  intros f L H; unfold mem_f in H; apply existsb_exists in H; destruct H as [x [Hx He]].
  apply N.eqb_eq in He; subst; exact Hx.
Qed.

Lemma In_mem_f : forall f L, In f L -> mem_f f L = true.
Proof. intros f L H; unfold mem_f; apply existsb_exists; exists f; split; [exact H | apply N.eqb_refl]. Qed.

Lemma mem_n_In : forall n L, mem_n n L = true -> In n L.
Proof.
  intros n L H; unfold mem_n in H; apply existsb_exists in H; destruct H as [x [Hx He]].
  apply node_eqb_eq in He; subst; exact Hx.
Qed.

Lemma In_mem_n : forall n L, In n L -> mem_n n L = true.
Proof. intros n L H; unfold mem_n; apply existsb_exists; exists n; split; [exact H | apply node_eqb_refl]. Qed.

(* what membership in the keyed sets means *)
Lemma fkey_inj : forall a b, fkey a = fkey b -> a = b.
Proof. intros a b H; unfold fkey in H. apply (f_equal Pos.pred_N) in H. rewrite !N.pos_pred_succ in H. exact H. Qed.

Lemma fset_of_mem : forall L f, fset_mem f (fset_of L) = true -> In f L.
Proof.
  induction L as [|x L IH]; intros f H; simpl in H.
  - unfold fset_mem in H; rewrite PositiveMap.gempty in H; discriminate.
  - unfold fset_mem, fset_add in H. destruct (Pos.eq_dec (fkey f) (fkey x)) as [E|E].
    + left; symmetry; exact (fkey_inj _ _ E).
    + rewrite PositiveMap.gso in H by exact E. right; apply IH; exact H.
Qed.

Lemma mem_root_In : forall r l, mem_root r l = true -> In r l.
Proof.
  intros r l H; unfold mem_root in H; apply existsb_exists in H; destruct H as [x [Hx He]].
  apply root_eqb_eq in He; subst; exact Hx.
Qed.

Lemma nset_of_mem : forall L n, nset_mem n (nset_of L) = true -> In n L.
Proof.
  induction L as [|x L IH]; intros n H; simpl in H.
  - unfold nset_mem in H; rewrite PositiveMap.gempty in H; discriminate.
  - unfold nset_mem, nset_add in H. destruct (Pos.eq_dec (fkey (fst n)) (fkey (fst x))) as [E|E].
    + rewrite E, PositiveMap.gss in H. simpl in H. apply orb_true_iff in H; destruct H as [H|H].
      * left. apply root_eqb_eq in H. destruct n as [nf nr], x as [xf xr]; simpl in *.
        apply fkey_inj in E; subst; reflexivity.
      * right; apply IH. unfold nset_mem. rewrite E.
        destruct (PositiveMap.find (fkey (fst x)) (nset_of L)) as [l|]; [exact H | simpl in H; discriminate].
    + rewrite PositiveMap.gso in H by exact E. right; apply IH; exact H.
Qed.

Section Sound.
  Variable T : list fn.
  Variables Ext Glob : list bytes.

  Lemma freach_in : forall E FR,
    forallb (fun f => fset_mem f (fset_of FR)) E = true -> closed_f T FR = true ->
    forall f, freach T E f -> In f FR.
  Proof.
    intros E FR HE HC f HR; induction HR as [f Hf | f g HR IH Hg].
    - apply fset_of_mem; rewrite forallb_forall in HE; apply HE; exact Hf.
    - unfold closed_f in HC; cbv zeta in HC; rewrite forallb_forall in HC; specialize (HC f IH).
      rewrite forallb_forall in HC; apply fset_of_mem; apply HC; exact Hg.
  Qed.

  Lemma nreach_in : forall E S FR NR,
    forallb (fun f => fset_mem f (fset_of FR)) E = true -> closed_f T FR = true ->
    forallb (fun n => nset_mem n (nset_of NR)) S = true ->
    forallb (fun f => forallb (fun n => nset_mem n (nset_of NR)) (taint_of T f)) FR = true ->
    closed_n T NR = true ->
    forall n, nreach T E S n -> In n NR.
  Proof.
    intros E S FR NR HE HC HS HT HN n HR; induction HR as [n Hn | f n Hf Hn | n m HR IH Hm].
    - apply nset_of_mem; rewrite forallb_forall in HS; apply HS; exact Hn.
    - pose proof (freach_in E FR HE HC f Hf) as Hin.
      rewrite forallb_forall in HT; specialize (HT f Hin); rewrite forallb_forall in HT.
      apply nset_of_mem; apply HT; exact Hn.
    - unfold closed_n in HN; cbv zeta in HN; rewrite forallb_forall in HN; specialize (HN n IH).
      rewrite forallb_forall in HN; apply nset_of_mem; apply HN; exact Hm.
  Qed.

  Theorem check_sets_sound : forall pol E S FR NR,
    check_sets T Ext Glob pol E S FR NR = true ->
    (forall f, freach T E f -> fn_bad T Ext Glob pol f = false) /\
    (forall n, nreach T E S n -> node_bad T n = false).
  Proof.
    intros pol E S FR NR H; unfold check_sets in H; cbv zeta in H.
    repeat (apply andb_true_iff in H; let H2 := fresh "H" in destruct H as [H H2]).
    split.
    - intros f Hf; pose proof (freach_in E FR H H5 f Hf) as Hin.
      rewrite forallb_forall in H4; specialize (H4 f Hin); apply negb_true_iff in H4; exact H4.
    - intros n Hn; pose proof (nreach_in E S FR NR H H5 H3 H2 H1 n Hn) as Hin.
      rewrite forallb_forall in H0; specialize (H0 n Hin); apply negb_true_iff in H0; exact H0.
  Qed.

  Theorem check_sound : forall pol fuel E S,
    check T Ext Glob pol fuel E S = true ->
    (forall f, freach T E f -> fn_bad T Ext Glob pol f = false) /\
    (forall n, nreach T E S n -> node_bad T n = false).
  Proof. intros pol fuel E S H; exact (check_sets_sound pol E S _ _ H). Qed.

  (* what "not an offender" says, statement by statement *)
  Lemma node_bad_false : forall n, node_bad T n = false ->
    (forall w, In w (writes_of T (fst n)) -> mem_root (snd n) (w_roots w) = false) /\
    (forall c e mask smask, In c (calls_of T (fst n)) -> c_callee c = CExt e mask smask ->
                      mem_root (snd n) (masked_roots mask smask (c_args c)) = false).
  Proof.
    intros n H; unfold node_bad in H; apply orb_false_iff in H; destruct H as [H1 H2]; split.
    - intros w Hw. destruct (mem_root (snd n) (w_roots w)) eqn:E; [|reflexivity].
      assert (existsb (fun w => mem_root (snd n) (w_roots w)) (writes_of T (fst n)) = true) as X
        by (apply existsb_exists; exists w; split; assumption).
      rewrite X in H1; discriminate.
    - intros c e mask smask Hc He. destruct (mem_root (snd n) (masked_roots mask smask (c_args c))) eqn:E; [|reflexivity].
      assert (existsb (call_writes_root (snd n)) (calls_of T (fst n)) = true) as X.
      { apply existsb_exists; exists c; split; [exact Hc|]. unfold call_writes_root; rewrite He; exact E. }
      rewrite X in H2; discriminate.
  Qed.

  Lemma fn_bad_false : forall pol f, fn_bad T Ext Glob pol f = false ->
    (forall w, In w (writes_of T f) -> existsb outside (w_roots w) = false /\ (forall s, w_kind w <> WUnrec s)) /\
    (forall c, In c (calls_of T f) -> call_bad Ext Glob pol c = false).
  Proof.
    intros pol f H; unfold fn_bad in H; apply orb_false_iff in H; destruct H as [H1 H2]; split.
    - intros w Hw. assert (write_bad w = false) as X.
      { destruct (write_bad w) eqn:E; [|reflexivity].
        assert (existsb write_bad (writes_of T f) = true) as Y by (apply existsb_exists; exists w; split; assumption).
        rewrite Y in H1; discriminate. }
      unfold write_bad in X; apply orb_false_iff in X; destruct X as [X1 X2]; split; [exact X1|].
      intros s Hs; rewrite Hs in X2; discriminate.
    - intros c Hc. destruct (call_bad Ext Glob pol c) eqn:E; [|reflexivity].
      assert (existsb (call_bad Ext Glob pol) (calls_of T f) = true) as Y by (apply existsb_exists; exists c; split; assumption).
      rewrite Y in H2; discriminate.
  Qed.

  (* the search returns reachable elements only *)
  Lemma dfs_sound : forall (A V : Type) (mem : A -> V -> bool) (add : A -> V -> V) (succ : A -> list A) (R : A -> Prop),
    (forall x y, R x -> In y (succ x) -> R y) ->
    forall fuel work visited vs,
      (forall x, In x work -> R x) -> (forall x, In x visited -> R x) ->
      forall x, In x (dfs mem add succ fuel work visited vs) -> R x.
  Proof.
    intros A V mem add succ R Hstep fuel; induction fuel as [|k IH]; intros work visited vs Hw Hv x Hx; simpl in Hx.
    - apply Hv; exact Hx.
    - destruct work as [|y w]; [apply Hv; exact Hx|].
      destruct (mem y vs).
      + apply (IH w visited vs); [intros z Hz; apply Hw; right; exact Hz | exact Hv | exact Hx].
      + apply (IH (succ y ++ w) (y :: visited) (add y vs)).
        * intros z Hz; apply in_app_or in Hz; destruct Hz as [Hz|Hz];
            [apply (Hstep y z); [apply Hw; left; reflexivity | exact Hz] | apply Hw; right; exact Hz].
        * intros z [Hz|Hz]; [subst; apply Hw; left; reflexivity | apply Hv; exact Hz].
        * exact Hx.
  Qed.

  Lemma reach_f_reachable : forall fuel E f, In f (reach_f T fuel E) -> freach T E f.
  Proof.
    intros fuel E f H; unfold reach_f in H.
    apply (dfs_sound N fset fset_mem fset_add (fn_succ T) (freach T E)) with
      (fuel := fuel) (work := E) (visited := []) (vs := PositiveMap.empty unit).
    - intros x y Hx Hy; exact (fr_step T E x y Hx Hy).
    - intros x Hx; exact (fr_entry T E x Hx).
    - intros x [].
    - exact H.
  Qed.

  Lemma reach_n_reachable : forall fuel E S n, In n (reach_n T fuel E S) -> nreach T E S n.
  Proof.
    intros fuel E S n H; unfold reach_n in H.
    apply (dfs_sound node nset nset_mem nset_add (node_succ T) (nreach T E S)) with
      (fuel := fuel) (work := S ++ flat_map (taint_of T) (reach_f T fuel E)) (visited := [])
      (vs := PositiveMap.empty (list root)).
    - intros x y Hx Hy; exact (nr_step T E S x y Hx Hy).
    - intros x Hx; apply in_app_or in Hx; destruct Hx as [Hx|Hx]; [exact (nr_start T E S x Hx)|].
      apply in_flat_map in Hx; destruct Hx as [f [Hf Hx]].
      exact (nr_taint T E S f x (reach_f_reachable fuel E f Hf) Hx).
    - intros x [].
    - exact H.
  Qed.

  (* with a passing check the computed sets are exactly the reachable ones *)
  Theorem check_exact : forall pol fuel E S,
    check T Ext Glob pol fuel E S = true ->
    (forall f, freach T E f <-> In f (reach_f T fuel E)) /\
    (forall n, nreach T E S n <-> In n (reach_n T fuel E S)).
  Proof.
    intros pol fuel E S H; unfold check, check_sets in H; cbv zeta in H.
    repeat (apply andb_true_iff in H; let H2 := fresh "H" in destruct H as [H H2]).
    split; intro x; split.
    - exact (freach_in E _ H H5 x).
    - exact (reach_f_reachable fuel E x).
    - exact (nreach_in E S _ _ H H5 H3 H2 H1 x).
    - exact (reach_n_reachable fuel E S x).
  Qed.

  (* the diagnosis function answers None only when the condition holds *)
  Lemma first_bad_none : forall Files pol fuel E S,
    first_bad T Ext Glob Files pol fuel E S = None -> check T Ext Glob pol fuel E S = true.
  Proof.
    intros Files pol fuel E S H; unfold first_bad in H; unfold check.
    destruct (first_some (fn_offence T Ext Glob Files pol) (reach_f T fuel E)); [discriminate|].
    destruct (first_some (node_offence T Ext Glob Files) (reach_n T fuel E S)); [discriminate|].
    destruct (check_sets T Ext Glob pol E S (reach_f T fuel E) (reach_n T fuel E S)); [reflexivity|discriminate].
  Qed.
End Sound.

(* ------------------------------------------------------------------ the table of this run *)

(* diagnosis first: when the table of this run does not satisfy the condition, these are the lemmas that fail, and
   the error message shows the first offender ("Unable to unify None with Some (OffParamWrite ...)") *)
Lemma we_first_bad_ro_none' :
  first_bad we_table we_externals we_globals we_files pol_ro we_fuel we_entries we_starts = None.
Proof. vm_compute. reflexivity. Qed.

Lemma we_first_bad_dec_none' :
  first_bad we_table we_externals we_globals we_files pol_dec we_fuel we_dec_entries [] = None.
Proof. vm_compute. reflexivity. Qed.

Lemma we_first_bad_ro_none : we_first_bad_ro = None.
Proof. unfold we_first_bad_ro. exact we_first_bad_ro_none'. Qed.

Lemma we_first_bad_dec_none : we_first_bad_dec = None.
Proof. unfold we_first_bad_dec. exact we_first_bad_dec_none'. Qed.

(* stated on the unfolded form: the soundness theorem is applied to it without any conversion *)
Lemma we_ro_holds : check we_table we_externals we_globals pol_ro we_fuel we_entries we_starts = true.
Proof. exact (first_bad_none we_table we_externals we_globals we_files pol_ro we_fuel we_entries we_starts we_first_bad_ro_none'). Qed.

Lemma we_dec_holds : check we_table we_externals we_globals pol_dec we_fuel we_dec_entries [] = true.
Proof. exact (first_bad_none we_table we_externals we_globals we_files pol_dec we_fuel we_dec_entries [] we_first_bad_dec_none'). Qed.


Lemma we_ro_sound :
  (forall f, freach we_table we_entries f -> fn_bad we_table we_externals we_globals pol_ro f = false) /\
  (forall n, nreach we_table we_entries we_starts n -> node_bad we_table n = false).
Proof. exact (check_sound we_table we_externals we_globals pol_ro we_fuel we_entries we_starts we_ro_holds). Qed.

Lemma we_dec_sound :
  (forall f, freach we_table we_dec_entries f -> fn_bad we_table we_externals we_globals pol_dec f = false) /\
  (forall n, nreach we_table we_dec_entries [] n -> node_bad we_table n = false).
Proof. exact (check_sound we_table we_externals we_globals pol_dec we_fuel we_dec_entries [] we_dec_holds). Qed.

Lemma we_entries_cover : read_only_ops_are_entries = true.
Proof. vm_compute. reflexivity. Qed.

Lemma we_hooks : hooks_never_written we_table we_globals = true.
Proof. vm_compute. reflexivity. Qed.

Lemma we_store_modelled : store_modelled_ok we_table we_externals = true.
Proof. vm_compute. reflexivity. Qed.

(* the translator's fixture comes out as written down in Model/WriteEffInst.v *)
Lemma we_fixture : fixture_ok = true.
Proof. vm_compute. reflexivity. Qed.

(* the tags of store_modelled are the constructors of Effects.bufop / Effects.valop, in both directions *)
Definition bufop_tag (o : bufop) : bytes :=
  match o with
  | BWrite _ => B "BWrite" | BComma => B "BComma" | BPropName _ => B "BPropName" | BValue _ => B "BValue"
  | BProp _ _ => B "BProp" | BStringValue _ => B "BStringValue" | BNlvProp _ _ => B "BNlvProp"
  end.

Definition valop_tag (o : valop) : bytes :=
  match o with
  | VEscapeQuote _ => B "VEscapeQuote" | VEscapeQuotePinned _ => B "VEscapeQuotePinned" | VUnescape _ => B "VUnescape"
  | VLrvMarshal _ _ => B "VLrvMarshal" | VNlvMarshal _ => B "VNlvMarshal"
  end.

Definition buf_tags : list bytes := flat_map (fun e => match snd e with SBuf t => [t] | _ => [] end) store_modelled.
Definition val_tags : list bytes := flat_map (fun e => match snd e with SVal t => [t] | _ => [] end) store_modelled.

Lemma store_tags_buf : forall o : bufop, name_in (bufop_tag o) buf_tags = true.
Proof. intro o; destruct o; vm_compute; reflexivity. Qed.

(* the pinned escapeQuote is a record of removed code: it has no function in the tree *)
Lemma store_tags_val : forall o : valop,
  valop_tag o = B "VEscapeQuotePinned" \/ name_in (valop_tag o) val_tags = true.
Proof. intro o; destruct o; try (right; vm_compute; reflexivity); left; reflexivity. Qed.

Definition all_buf_tags : list bytes :=
  [B "BWrite"; B "BComma"; B "BPropName"; B "BValue"; B "BProp"; B "BStringValue"; B "BNlvProp"].
Definition all_val_tags : list bytes := [B "VEscapeQuote"; B "VUnescape"; B "VLrvMarshal"; B "VNlvMarshal"].

Lemma store_tags_are_ops :
  forallb (fun t => name_in t all_buf_tags) buf_tags = true /\ forallb (fun t => name_in t all_val_tags) val_tags = true.
Proof. split; vm_compute; reflexivity. Qed.

(* ------------------------------------------------------------------ witnesses *)

Lemma ex_filter_refuted :
  ex_check T_filter = false /\
  ex_first_bad T_filter = Some (OffParamWrite "helper" (RP 0%N 0%N) "x.go" 7%N "write statement") /\
  nreach T_filter (entries T_filter ex_spec) (starts T_filter ex_spec) (1%N, RP 0%N 0%N) /\
  node_bad T_filter (1%N, RP 0%N 0%N) = true.
Proof.
  split; [vm_compute; reflexivity|]. split; [vm_compute; reflexivity|]. split; [|vm_compute; reflexivity].
  apply (nr_step T_filter _ _ (0%N, RP 0%N 0%N) (1%N, RP 0%N 0%N)).
  - apply nr_start; vm_compute; left; reflexivity.
  - vm_compute; right; left; reflexivity.
Qed.

Lemma ex_copy_holds : ex_check T_copy = true.
Proof. vm_compute. reflexivity. Qed.

Lemma ex_pool_refuted :
  ex_check T_pool = false /\ ex_first_bad T_pool = Some (OffCall "L.M" "x.go" 3%N "*sync.Pool.Get").
Proof. split; vm_compute; reflexivity. Qed.

(* non-vacuity on the generated table: the read-only receiver of an encoder really reaches the list helpers
   (gobEncodeItems' parameter, JSONWriteItemCollectionValue's list parameter) *)
Lemma we_reaches_list_helpers :
  nreach we_table we_entries we_starts (we_index (B "gobEncodeItems"), RP 0%N 0%N) /\
  nreach we_table we_entries we_starts (we_index (B "JSONWriteItemCollectionValue"), RP 1%N 0%N) /\
  freach we_table we_entries (we_index (B "stringBytes")).
Proof.
  assert (mem_n (we_index (B "gobEncodeItems"), RP 0%N 0%N) (reach_n we_table we_fuel we_entries we_starts)
          && mem_n (we_index (B "JSONWriteItemCollectionValue"), RP 1%N 0%N) (reach_n we_table we_fuel we_entries we_starts)
          && mem_f (we_index (B "stringBytes")) (reach_f we_table we_fuel we_entries) = true) as H
    by (vm_cast_no_check (eq_refl true)).
  apply andb_true_iff in H; destruct H as [H H3]; apply andb_true_iff in H; destruct H as [H1 H2].
  split; [|split].
  - apply (reach_n_reachable we_table we_fuel); apply mem_n_In; exact H1.
  - apply (reach_n_reachable we_table we_fuel); apply mem_n_In; exact H2.
  - apply (reach_f_reachable we_table we_fuel); apply mem_f_In; exact H3.
Qed.

Lemma we_entries_nontrivial :
  name_in (B "Object.MarshalJSON") we_entry_names = true /\ name_in (B "Object.GobEncode") we_entry_names = true /\
  name_in (B "ItemsEqual") we_entry_names = true /\ name_in (B "OnObject") we_entry_names = true /\
  name_in (B "Activity.Format") we_entry_names = true /\ name_in (B "JSONWriteItemCollectionValue") we_entry_names = true /\
  (300 <=? N.of_nat (length we_entries))%N = true.
Proof. repeat split; vm_compute; reflexivity. Qed.
