(* WsParseP.v - fastjson reads every JSON text, with any white space between the tokens, as the tree of
   the text without the white space (Model/WsDoc.v; generalises TextP.parse_tree / parse_doc, which cover
   strings and objects printed without white space). *)
From AP.Model Require Import Prelude Nlv Text WsDoc.
From AP.Proofs Require Import NlvP TextP.

(* ------------------------------------------------------------------ unfolding equations of parseValue *)
Lemma fj_value_other n c r :
  Byte.eqb c bLB = false -> Byte.eqb c bLK = false -> Byte.eqb c bQ = false ->
  Byte.eqb c x74 = false -> Byte.eqb c x66 = false -> Byte.eqb c x6e = false ->
  fj_value (S n) (c :: r) = match fj_raw_number (c :: r) with Some (tok, t) => Ok (FNum tok, t) | None => Err end.
Proof.
  intros H1 H2 H3 H4 H5 H6. cbn [fj_value]. rewrite H1, H2, H3, H4, H5, H6. reflexivity.
Qed.

Lemma fj_value_arr n r : fj_value (S n) (bLK :: r) =
  match skipws r with
  | [] => Err
  | c1 :: r1 => if Byte.eqb c1 bRK then Ok (FArr [], r1) else arr_loop (S (length r)) (fj_value n) (skipws r) []
  end.
Proof. reflexivity. Qed.

Lemma fj_value_true n tail : fj_value (S n) (B "true" ++ tail) = Ok (FTrue, tail).
Proof. reflexivity. Qed.
Lemma fj_value_false n tail : fj_value (S n) (B "false" ++ tail) = Ok (FFalse, tail).
Proof. reflexivity. Qed.
Lemma fj_value_null n tail : fj_value (S n) (B "null" ++ tail) = Ok (FNull, tail).
Proof. reflexivity. Qed.

Lemma arr_loop_S f pv s acc : arr_loop (S f) pv s acc =
  match pv (skipws s) with
  | Ok (v, s1) =>
      match skipws s1 with
      | c :: s2 =>
          if Byte.eqb c bCM then arr_loop f pv s2 (v :: acc)
          else if Byte.eqb c bRK then Ok (FArr (rev (v :: acc)), s2)
          else Err
      | [] => Err
      end
  | Err => Err
  | Panic p => Panic p
  | OutOfFuel => OutOfFuel
  end.
Proof. reflexivity. Qed.

Local Arguments fj_value : simpl never.
Local Arguments obj_loop : simpl never.
Local Arguments arr_loop : simpl never.
Local Arguments wprint : simpl never.
Local Arguments fj_raw_string : simpl never.

(* ------------------------------------------------------------------ raw_closed is TextP.raw_ok *)
Lemma raw_closed_ok_n n : forall e, length e <= n -> raw_closed e = raw_ok e.
Proof.
  induction n as [|n IH]; intros e Hl.
  - destruct e; [reflexivity|simpl in Hl; lia].
  - destruct e as [|c r]; [reflexivity|]. simpl in Hl. simpl.
    destruct (Byte.eqb c bQ); [reflexivity|]. destruct (Byte.eqb c bBS).
    + destruct r as [|d r1]; [reflexivity|]. simpl in Hl. apply IH. lia.
    + apply IH. lia.
Qed.
Lemma raw_closed_ok e : raw_closed e = raw_ok e.
Proof. apply (raw_closed_ok_n (length e)). lia. Qed.

(* ------------------------------------------------------------------ bytes *)
(* [nn s]: s does not continue a number token *)
Definition nn (s : bytes) : Prop := match s with [] => True | c :: _ => is_numch c = false end.

Lemma ws_not_numch c : is_ws c = true -> is_numch c = false.
Proof.
  assert (S : forallb (fun c => negb (is_ws c) || negb (is_numch c)) all_bytes = true) by (vm_compute; reflexivity).
  pose proof (byte_sweep _ S c) as Hc. cbv beta in Hc. intros H. rewrite H in Hc. simpl in Hc.
  apply negb_true_iff in Hc. exact Hc.
Qed.

(* a number byte is not white space and is none of the bytes parseValue dispatches on before it tries a number;
   it is not a closing bracket either *)
Definition numch_other (c : byte) : bool :=
  negb (is_ws c) && negb (Byte.eqb c bLB) && negb (Byte.eqb c bLK) && negb (Byte.eqb c bQ)
  && negb (Byte.eqb c x74) && negb (Byte.eqb c x66) && negb (Byte.eqb c x6e)
  && negb (Byte.eqb c bRK) && negb (Byte.eqb c bRB).
Lemma numch_other_ok c : is_numch c = true -> numch_other c = true.
Proof.
  assert (S : forallb (fun c => negb (is_numch c) || numch_other c) all_bytes = true) by (vm_compute; reflexivity).
  pose proof (byte_sweep _ S c) as Hc. cbv beta in Hc. intros H. rewrite H in Hc. exact Hc.
Qed.

(* ------------------------------------------------------------------ white space *)
Lemma skipws_app w x : wf_ws w = true -> skipws (w ++ x) = skipws x.
Proof.
  induction w as [|b r IH]; intros H; [reflexivity|]. simpl in H. apply andb_true_iff in H. destruct H as [Hb Hr].
  simpl. rewrite Hb. apply IH, Hr.
Qed.

Lemma skipws_ws_then c w x : wf_ws w = true -> is_ws c = false -> skipws (w ++ c :: x) = c :: x.
Proof. intros Hw Hc. rewrite skipws_app by exact Hw. apply skipws_nows, Hc. Qed.

Lemma skipws_idem s : skipws (skipws s) = skipws s.
Proof.
  induction s as [|b r IH]; [reflexivity|]. simpl. destruct (is_ws b) eqn:Hb; [exact IH|].
  simpl. rewrite Hb. reflexivity.
Qed.

Lemma nn_ws_then c w x : wf_ws w = true -> is_numch c = false -> nn (w ++ c :: x).
Proof.
  intros Hw Hc. destruct w as [|b r]; [exact Hc|]. simpl in Hw. apply andb_true_iff in Hw.
  simpl. apply ws_not_numch. tauto.
Qed.

Lemma nn_ws w : wf_ws w = true -> nn w.
Proof.
  intros Hw. destruct w as [|b r]; [exact I|]. simpl in Hw. apply andb_true_iff in Hw.
  simpl. apply ws_not_numch. tauto.
Qed.

(* the loops look at their input only behind its white space *)
Lemma arr_loop_skipws fuel pv s acc : arr_loop fuel pv (skipws s) acc = arr_loop fuel pv s acc.
Proof. destruct fuel as [|f]; [reflexivity|]. rewrite !arr_loop_S, skipws_idem. reflexivity. Qed.
Lemma obj_loop_skipws fuel pv s acc : obj_loop fuel pv (skipws s) acc = obj_loop fuel pv s acc.
Proof. destruct fuel as [|f]; [reflexivity|]. rewrite !obj_loop_S, skipws_idem. reflexivity. Qed.

(* ------------------------------------------------------------------ number tokens *)
Lemma raw_number_cons i sg c r : raw_number i sg (c :: r) =
  if is_numch c then
    match raw_number (S i) sg r with Some (a, t) => Some (c :: a, t) | None => None end
  else if Nat.eqb i 0 || (Nat.eqb i 1 && sg) then
    if infnan3 (c :: r) then Some (firstn 3 (c :: r), skipn 3 (c :: r)) else None
  else Some ([], c :: r).
Proof. reflexivity. Qed.

Lemma raw_number_run tok : forall i sg tail, forallb is_numch tok = true ->
  raw_number i sg (tok ++ tail) =
  match raw_number (i + length tok) sg tail with Some (a, t) => Some (tok ++ a, t) | None => None end.
Proof.
  induction tok as [|c r IH]; intros i sg tail H.
  - simpl. rewrite Nat.add_0_r. destruct (raw_number i sg tail) as [[a t]|]; reflexivity.
  - simpl in H. apply andb_true_iff in H. destruct H as [Hc Hr].
    simpl app. rewrite raw_number_cons, Hc, (IH (S i) sg tail Hr). simpl length. rewrite Nat.add_succ_r. simpl.
    destruct (raw_number (S (i + length r)) sg tail) as [[a t]|]; reflexivity.
Qed.

Lemma raw_number_stop j sg tail :
  nn tail -> Nat.eqb j 0 || (Nat.eqb j 1 && sg) = false -> raw_number j sg tail = Some ([], tail).
Proof.
  intros Hn Hj. destruct tail as [|c r]; [reflexivity|]. simpl in Hn. rewrite raw_number_cons, Hn, Hj. reflexivity.
Qed.

(* parseValue on a number token, behind which the input ends or goes on with a byte that is not a number byte *)
Lemma num_token n tok tail : wf_num tok = true -> nn tail -> fj_value (S n) (tok ++ tail) = Ok (FNum tok, tail).
Proof.
  intros Hw Hn. destruct tok as [|c r]; [discriminate|]. unfold wf_num in Hw. apply andb_true_iff in Hw.
  destruct Hw as [Hall Hsign]. pose proof Hall as Hc. simpl in Hc. apply andb_true_iff in Hc. destruct Hc as [Hc _].
  pose proof (numch_other_ok c Hc) as Ho. unfold numch_other in Ho. rewrite !andb_true_iff, !negb_true_iff in Ho.
  destruct Ho as [[[[[[[[_ O1] O2] O3] O4] O5] O6] _] _].
  change ((c :: r) ++ tail) with (c :: (r ++ tail)). rewrite (fj_value_other n c (r ++ tail) O1 O2 O3 O4 O5 O6).
  unfold fj_raw_number. change (c :: r ++ tail) with ((c :: r) ++ tail).
  rewrite (raw_number_run (c :: r) 0 _ tail Hall). simpl plus.
  rewrite raw_number_stop; [rewrite app_nil_r; reflexivity|exact Hn|].
  simpl length. simpl Nat.eqb. simpl orb. fold (is_sign c).
  destruct (is_sign c); [|apply andb_false_r]. simpl in Hsign. destruct r; [discriminate|reflexivity].
Qed.

(* ------------------------------------------------------------------ strings *)
Lemma raw_string_closed raw tail : raw_closed raw = true -> fj_raw_string (raw ++ bQ :: tail) = Some (raw, tail).
Proof.
  intros H. rewrite raw_closed_ok in H. rewrite (raw_scan_app_n (length raw)); [|lia|exact H].
  rewrite fj_raw_string_cons. change (Byte.eqb bQ bQ) with true. cbv iota. rewrite app_nil_r. reflexivity.
Qed.

Lemma str_token n raw tail : raw_closed raw = true -> fj_value (S n) (bQ :: raw ++ bQ :: tail) = Ok (FStr raw, tail).
Proof. intros H. rewrite fj_value_str, (raw_string_closed _ _ H). reflexivity. Qed.

(* ------------------------------------------------------------------ the printer *)
Lemma wprint_arr_nil inner : wprint (WArr inner []) = bLK :: inner ++ [bRK].
Proof. reflexivity. Qed.
Lemma wprint_arr_cons inner x l :
  wprint (WArr inner (x :: l)) = bLK :: (welem_bytes wprint x ++ wsep (map (welem_bytes wprint) l)) ++ [bRK].
Proof. reflexivity. Qed.
Lemma wprint_obj_nil inner : wprint (WObj inner []) = bLB :: inner ++ [bRB].
Proof. reflexivity. Qed.
Lemma wprint_obj_cons inner m ms :
  wprint (WObj inner (m :: ms)) = bLB :: (wmem_bytes wprint m ++ wsep (map (wmem_bytes wprint) ms)) ++ [bRB].
Proof. reflexivity. Qed.

Lemma wsep_len l : length l <= length (wsep l).
Proof. induction l as [|x r IH]; simpl; [lia|]. rewrite app_length. lia. Qed.

(* a printed value starts with a byte that is neither white space nor a closing bracket *)
Lemma wprint_head t : wf_wt t = true ->
  exists c r, wprint t = c :: r /\ is_ws c = false /\ Byte.eqb c bRK = false.
Proof.
  intros H. destruct t as [raw|tok| | | |inner l|inner ms];
    try (eexists; eexists; split; [reflexivity|split; reflexivity]).
  simpl in H. destruct tok as [|c r]; [discriminate|]. unfold wf_num in H. simpl in H.
  rewrite !andb_true_iff in H. destruct H as [[Hc _] _].
  pose proof (numch_other_ok c Hc) as Ho. unfold numch_other in Ho. rewrite !andb_true_iff, !negb_true_iff in Ho.
  exists c, r. split; [reflexivity|]. tauto.
Qed.

Lemma skipws_wprint t x : wf_wt t = true -> skipws (wprint t ++ x) = wprint t ++ x.
Proof. intros H. destruct (wprint_head t H) as [c [r [E [Hc _]]]]. rewrite E. simpl app. apply skipws_nows, Hc. Qed.

Ltac lnorm := repeat first [rewrite <- app_assoc | progress cbn [app]].

(* ------------------------------------------------------------------ parseArray on printed elements *)
Lemma warr_loop_step f pv a e b c Y acc :
  wf_ws a = true -> wf_wt e = true -> wf_ws b = true -> is_ws c = false -> is_numch c = false ->
  (forall tl, nn tl -> pv (wprint e ++ tl) = Ok (strip e, tl)) ->
  arr_loop (S f) pv (a ++ wprint e ++ b ++ c :: Y) acc =
  if Byte.eqb c bCM then arr_loop f pv Y (strip e :: acc)
  else if Byte.eqb c bRK then Ok (FArr (rev (strip e :: acc)), Y)
  else Err.
Proof.
  intros Ha He Hb Hc Hn Hpv. rewrite arr_loop_S, (skipws_app a _ Ha), (skipws_wprint e _ He).
  rewrite (Hpv _ (nn_ws_then c b Y Hb Hn)). rewrite (skipws_ws_then c b Y Hb Hc). reflexivity.
Qed.

Definition elem_ok (pv : bytes -> outcome (fjv * bytes)) (x : bytes * wt * bytes) : Prop :=
  wf_elem wf_wt x = true /\ forall tl, nn tl -> pv (wprint (snd (fst x)) ++ tl) = Ok (strip (snd (fst x)), tl).

Lemma arr_loop_elems pv : forall l x acc fuel tail,
  length l < fuel -> (forall y, In y (x :: l) -> elem_ok pv y) ->
  arr_loop fuel pv (welem_bytes wprint x ++ wsep (map (welem_bytes wprint) l) ++ bRK :: tail) acc
  = Ok (FArr (rev acc ++ map (fun x : bytes * wt * bytes => strip (snd (fst x))) (x :: l)), tail).
Proof.
  induction l as [|y l IH]; intros [[a e] b] acc fuel tail Hf Hok;
    (destruct fuel as [|f]; [simpl in Hf; lia|]);
    destruct (Hok _ (or_introl eq_refl)) as [Hw Hpv]; unfold wf_elem in Hw; cbn [fst snd] in Hw, Hpv;
    rewrite !andb_true_iff in Hw; destruct Hw as [[Ha He] Hb];
    unfold welem_bytes at 1; cbn [map wsep fst snd]; lnorm.
  - rewrite (warr_loop_step f pv a e b bRK tail acc Ha He Hb eq_refl eq_refl Hpv). reflexivity.
  - rewrite (warr_loop_step f pv a e b bCM _ acc Ha He Hb eq_refl eq_refl Hpv).
    change (Byte.eqb bCM bCM) with true. cbv iota.
    rewrite (IH y (strip e :: acc) f tail).
    + cbn [rev map fst snd]. rewrite <- app_assoc. reflexivity.
    + simpl in Hf. lia.
    + intros z Hz. apply Hok. right. exact Hz.
Qed.

(* ------------------------------------------------------------------ parseObject on printed members *)
Lemma wobj_loop_step f pv a k b c v d c2 Y acc :
  wf_ws a = true -> raw_closed k = true -> wf_ws b = true -> wf_ws c = true -> wf_wt v = true -> wf_ws d = true ->
  is_ws c2 = false -> is_numch c2 = false ->
  (forall tl, nn tl -> pv (wprint v ++ tl) = Ok (strip v, tl)) ->
  obj_loop (S f) pv (a ++ bQ :: k ++ bQ :: b ++ bCO :: c ++ wprint v ++ d ++ c2 :: Y) acc =
  if Byte.eqb c2 bCM then obj_loop f pv Y ((k, strip v) :: acc)
  else if Byte.eqb c2 bRB then Ok (FObj (rev ((k, strip v) :: acc)), Y)
  else Err.
Proof.
  intros Ha Hk Hb Hc Hv Hd Hc2 Hn Hpv. rewrite obj_loop_S.
  rewrite (skipws_ws_then bQ a _ Ha eq_refl). change (negb (Byte.eqb bQ bQ)) with false. cbv iota.
  rewrite (raw_string_closed k _ Hk).
  rewrite (skipws_ws_then bCO b _ Hb eq_refl). change (negb (Byte.eqb bCO bCO)) with false. cbv iota.
  rewrite (skipws_app c _ Hc), (skipws_wprint v _ Hv).
  rewrite (Hpv _ (nn_ws_then c2 d Y Hd Hn)). rewrite (skipws_ws_then c2 d Y Hd Hc2). reflexivity.
Qed.

Definition mem_ok (pv : bytes -> outcome (fjv * bytes)) (m : wmem wt) : Prop :=
  wf_mem wf_wt m = true /\ forall tl, nn tl -> pv (wprint (wm_v m) ++ tl) = Ok (strip (wm_v m), tl).

Lemma obj_loop_mems pv : forall ms m acc fuel tail,
  length ms < fuel -> (forall y, In y (m :: ms) -> mem_ok pv y) ->
  obj_loop fuel pv (wmem_bytes wprint m ++ wsep (map (wmem_bytes wprint) ms) ++ bRB :: tail) acc
  = Ok (FObj (rev acc ++ map (fun m : wmem wt => (wm_rawkey m, strip (wm_v m))) (m :: ms)), tail).
Proof.
  induction ms as [|y ms IH]; intros [a k b c v d] acc fuel tail Hf Hok;
    (destruct fuel as [|f]; [simpl in Hf; lia|]);
    destruct (Hok _ (or_introl eq_refl)) as [Hw Hpv]; unfold wf_mem in Hw;
    cbn [wm_ws_before_key wm_rawkey wm_ws_before_colon wm_ws_after_colon wm_v wm_ws_after_value] in Hw, Hpv;
    rewrite !andb_true_iff in Hw; destruct Hw as [[[[[Ha Hk] Hb] Hc] Hv] Hd];
    unfold wmem_bytes at 1;
    cbn [map wsep wm_ws_before_key wm_rawkey wm_ws_before_colon wm_ws_after_colon wm_v wm_ws_after_value]; lnorm.
  - rewrite (wobj_loop_step f pv a k b c v d bRB tail acc Ha Hk Hb Hc Hv Hd eq_refl eq_refl Hpv). reflexivity.
  - rewrite (wobj_loop_step f pv a k b c v d bCM _ acc Ha Hk Hb Hc Hv Hd eq_refl eq_refl Hpv).
    change (Byte.eqb bCM bCM) with true. cbv iota.
    rewrite (IH y ((k, strip v) :: acc) f tail).
    + cbn [rev map wm_rawkey wm_v]. rewrite <- app_assoc. reflexivity.
    + simpl in Hf. lia.
    + intros z Hz. apply Hok. right. exact Hz.
Qed.

(* ------------------------------------------------------------------ parseValue on printed documents *)
Lemma wdepth_pos t : 1 <= wdepth t.
Proof. destruct t; simpl; lia. Qed.

Lemma wdepth_elem y l : In y l ->
  wdepth (snd (fst y)) <= fold_right (fun (x : bytes * wt * bytes) m => Nat.max (wdepth (snd (fst x))) m) 0 l.
Proof.
  induction l as [|x r IH]; intros H; [destruct H|]. simpl. destruct H as [->|H]; [lia|]. specialize (IH H). lia.
Qed.
Lemma wdepth_mem y ms : In y ms ->
  wdepth (wm_v y) <= fold_right (fun (x : wmem wt) m => Nat.max (wdepth (wm_v x)) m) 0 ms.
Proof.
  induction ms as [|x r IH]; intros H; [destruct H|]. simpl. destruct H as [->|H]; [lia|]. specialize (IH H). lia.
Qed.

Definition is_wnum (t : wt) : bool := match t with WNum _ => true | _ => false end.

(* parseValue reads back every printed document, whatever follows it - except that a number token must not
   be followed by a number byte (the token would be longer) *)
Theorem ws_parse_value_gen : forall n t tail, wf_wt t = true -> wdepth t <= n ->
  (is_wnum t = true -> nn tail) ->
  fj_value n (wprint t ++ tail) = Ok (strip t, tail).
Proof.
  induction n as [|n IH]; intros t tail Hw Hd Hn.
  - pose proof (wdepth_pos t). lia.
  - destruct t as [raw|tok| | | |inner l|inner ms].
    + change (wprint (WStr raw)) with (bQ :: raw ++ [bQ]). lnorm. apply str_token, Hw.
    + apply num_token; [exact Hw|apply Hn; reflexivity].
    + apply fj_value_true.
    + apply fj_value_false.
    + apply fj_value_null.
    + simpl in Hw. apply andb_true_iff in Hw. destruct Hw as [Hi Hl]. destruct l as [|x l].
      * rewrite wprint_arr_nil. lnorm. rewrite fj_value_arr, (skipws_ws_then bRK inner tail Hi eq_refl). reflexivity.
      * rewrite wprint_arr_cons. lnorm. rewrite fj_value_arr.
        assert (Hx : wf_elem wf_wt x = true) by (simpl in Hl; apply andb_true_iff in Hl; tauto).
        destruct x as [[a e] b]. unfold wf_elem in Hx. cbn [fst snd] in Hx. rewrite !andb_true_iff in Hx.
        destruct Hx as [[Ha He] Hb].
        destruct (wprint_head e He) as [c [r [E [Hc Hk]]]].
        assert (Hs : skipws (welem_bytes wprint (a, e, b) ++ wsep (map (welem_bytes wprint) l) ++ bRK :: tail)
                     = c :: r ++ b ++ wsep (map (welem_bytes wprint) l) ++ bRK :: tail).
        { unfold welem_bytes at 1. cbn [fst snd]. lnorm. rewrite (skipws_app a _ Ha), E. lnorm.
          apply skipws_nows, Hc. }
        rewrite Hs, Hk, <- Hs, arr_loop_skipws.
        rewrite (arr_loop_elems (fj_value n) l (a, e, b) [] _ tail).
        -- reflexivity.
        -- rewrite !app_length. pose proof (wsep_len (map (welem_bytes wprint) l)) as Hlen.
           rewrite map_length in Hlen. lia.
        -- intros y Hy. split; [rewrite forallb_forall in Hl; apply Hl, Hy|].
           intros tl Htl. apply IH; [|simpl in Hd; pose proof (wdepth_elem y _ Hy) as Hy'; simpl in Hy'; lia|intros _; exact Htl].
           rewrite forallb_forall in Hl. specialize (Hl y Hy). unfold wf_elem in Hl. rewrite !andb_true_iff in Hl. tauto.
    + simpl in Hw. apply andb_true_iff in Hw. destruct Hw as [Hi Hl]. destruct ms as [|m ms].
      * rewrite wprint_obj_nil. lnorm. rewrite fj_value_obj, (skipws_ws_then bRB inner tail Hi eq_refl). reflexivity.
      * rewrite wprint_obj_cons. lnorm. rewrite fj_value_obj.
        assert (Hm : wf_mem wf_wt m = true) by (simpl in Hl; apply andb_true_iff in Hl; tauto).
        destruct m as [a k b c v d]. unfold wf_mem in Hm.
        cbn [wm_ws_before_key wm_rawkey wm_ws_before_colon wm_ws_after_colon wm_v wm_ws_after_value] in Hm.
        rewrite !andb_true_iff in Hm. destruct Hm as [[[[[Ha Hk] Hb] Hc] Hv] Hd'].
        assert (Hs : exists r, skipws (wmem_bytes wprint (WM a k b c v d) ++ wsep (map (wmem_bytes wprint) ms) ++ bRB :: tail)
                     = bQ :: r).
        { unfold wmem_bytes at 1.
          cbn [wm_ws_before_key wm_rawkey wm_ws_before_colon wm_ws_after_colon wm_v wm_ws_after_value]. lnorm.
          eexists. apply (skipws_ws_then bQ a _ Ha eq_refl). }
        destruct Hs as [r Hs]. rewrite Hs. change (Byte.eqb bQ bRB) with false. cbv iota. rewrite <- Hs, obj_loop_skipws.
        rewrite (obj_loop_mems (fj_value n) ms (WM a k b c v d) [] _ tail).
        -- reflexivity.
        -- rewrite !app_length. pose proof (wsep_len (map (wmem_bytes wprint) ms)) as Hlen.
           rewrite map_length in Hlen. lia.
        -- intros y Hy. split; [rewrite forallb_forall in Hl; apply Hl, Hy|].
           intros tl Htl. apply IH; [|simpl in Hd; pose proof (wdepth_mem y _ Hy) as Hy'; simpl in Hy'; lia|intros _; exact Htl].
           rewrite forallb_forall in Hl. specialize (Hl y Hy). unfold wf_mem in Hl. rewrite !andb_true_iff in Hl. tauto.
Qed.

(* the statement with the side condition on the tail for every kind of value *)
Theorem ws_parse_value : forall n t tail, wf_wt t = true -> wdepth t <= n ->
  (match tail with [] => True | c :: _ => is_numch c = false end) ->
  fj_value n (wprint t ++ tail) = Ok (strip t, tail).
Proof. intros n t tail Hw Hd Hn. apply ws_parse_value_gen; [exact Hw|exact Hd|intros _; exact Hn]. Qed.

(* behind anything but a number the tail is arbitrary *)
Corollary ws_parse_value_nonnum : forall n t tail, wf_wt t = true -> wdepth t <= n -> is_wnum t = false ->
  fj_value n (wprint t ++ tail) = Ok (strip t, tail).
Proof. intros n t tail Hw Hd Hn. apply ws_parse_value_gen; [exact Hw|exact Hd|rewrite Hn; discriminate]. Qed.

(* ------------------------------------------------------------------ ParseBytes *)
Lemma skipws_all w : wf_ws w = true -> skipws w = [].
Proof. intros H. rewrite <- (app_nil_r w). apply (skipws_app w [] H). Qed.

Theorem ws_parse : forall pre t post, wf_ws pre = true -> wf_ws post = true -> wf_wt t = true -> wdepth t <= 300 ->
  fj_parse (pre ++ wprint t ++ post) = Ok (strip t).
Proof.
  intros pre t post Hpre Hpost Hw Hd. unfold fj_parse.
  rewrite (skipws_app pre _ Hpre), (skipws_wprint t post Hw).
  rewrite (ws_parse_value 300 t post Hw Hd (nn_ws post Hpost)), (skipws_all post Hpost). reflexivity.
Qed.

(* white space between the tokens does not change the tree: two texts that differ only in their white space
   (the same tree once it is forgotten) parse to the same result *)
Corollary ws_insignificant : forall pre1 t1 post1 pre2 t2 post2,
  wf_ws pre1 = true -> wf_ws post1 = true -> wf_wt t1 = true -> wdepth t1 <= 300 ->
  wf_ws pre2 = true -> wf_ws post2 = true -> wf_wt t2 = true -> wdepth t2 <= 300 ->
  strip t1 = strip t2 ->
  fj_parse (pre1 ++ wprint t1 ++ post1) = fj_parse (pre2 ++ wprint t2 ++ post2).
Proof.
  intros pre1 t1 post1 pre2 t2 post2 A1 B1 C1 D1 A2 B2 C2 D2 E.
  rewrite (ws_parse pre1 t1 post1 A1 B1 C1 D1), (ws_parse pre2 t2 post2 A2 B2 C2 D2), E. reflexivity.
Qed.

(* ------------------------------------------------------------------ the decoration without white space *)
Section fjv_induction.
  Variable P : fjv -> Prop.
  Hypothesis HObj : forall kvs, (forall kv, In kv kvs -> P (snd kv)) -> P (FObj kvs).
  Hypothesis HArr : forall l, (forall e, In e l -> P e) -> P (FArr l).
  Hypothesis HStr : forall raw, P (FStr raw).
  Hypothesis HNum : forall tok, P (FNum tok).
  Hypothesis HTrue : P FTrue.
  Hypothesis HFalse : P FFalse.
  Hypothesis HNull : P FNull.
  Fixpoint fjv_induction (v : fjv) : P v :=
    match v with
    | FObj kvs =>
        HObj kvs ((fix go (l : list (bytes * fjv)) : forall kv, In kv l -> P (snd kv) :=
                     match l with
                     | [] => fun kv H => match H with end
                     | x :: r => fun kv H =>
                         match H with
                         | or_introl E => match E in _ = y return P (snd y) with eq_refl => fjv_induction (snd x) end
                         | or_intror H' => go r kv H'
                         end
                     end) kvs)
    | FArr l =>
        HArr l ((fix go (l : list fjv) : forall e, In e l -> P e :=
                   match l with
                   | [] => fun e H => match H with end
                   | x :: r => fun e H =>
                       match H with
                       | or_introl E => match E in _ = y return P y with eq_refl => fjv_induction x end
                       | or_intror H' => go r e H'
                       end
                   end) l)
    | FStr raw => HStr raw
    | FNum tok => HNum tok
    | FTrue => HTrue
    | FFalse => HFalse
    | FNull => HNull
    end.
End fjv_induction.

Lemma strip_wt_of_fjv v : strip (wt_of_fjv v) = v.
Proof.
  induction v as [kvs IH|l IH|raw|tok| | |] using fjv_induction; try reflexivity.
  - simpl. f_equal. rewrite map_map. cbn [wm_rawkey wm_v].
    rewrite <- (map_id kvs) at 2. apply map_ext_in. intros [k v] H. simpl. f_equal. apply (IH _ H).
  - simpl. f_equal. rewrite map_map. cbn [fst snd].
    rewrite <- (map_id l) at 2. apply map_ext_in. intros e H. apply (IH _ H).
Qed.

(* ------------------------------------------------------------------ the printer of Text.v is this printer *)
Definition wm_of_kv (kv : bytes * jt) : wmem wt := WM [] (sbody false (fst kv)) [] [] (wt_of_fjv (fj_of (snd kv))) [].

Lemma wmem_bytes_kv kv : jprint (snd kv) = wprint (wt_of_fjv (fj_of (snd kv))) ->
  string_bytes (fst kv) ++ bCO :: jprint (snd kv) = wmem_bytes wprint (wm_of_kv kv).
Proof.
  intros H. unfold wmem_bytes, wm_of_kv.
  cbn [wm_ws_before_key wm_rawkey wm_ws_before_colon wm_ws_after_colon wm_v wm_ws_after_value].
  rewrite string_bytes_head, H, app_nil_r. lnorm. reflexivity.
Qed.

Lemma pm_is_wsep ms : (forall m, In m ms -> jprint (snd m) = wprint (wt_of_fjv (fj_of (snd m)))) ->
  pm jprint false ms = wsep (map (wmem_bytes wprint) (map wm_of_kv ms)).
Proof.
  induction ms as [|kv r IH]; intros H; [reflexivity|].
  rewrite pm_cons. cbn [map wsep]. rewrite <- (wmem_bytes_kv kv) by (apply H; left; reflexivity).
  rewrite IH by (intros m Hm; apply H; right; exact Hm). lnorm. reflexivity.
Qed.

Lemma jprint_is_wprint_n n : forall j, jdepth j <= n -> jprint j = wprint (wt_of_fjv (fj_of j)).
Proof.
  induction n as [|n IH]; intros j Hd.
  - destruct j; simpl in Hd; lia.
  - destruct j as [t|ms]; [reflexivity|].
    assert (Hm : forall m, In m ms -> jprint (snd m) = wprint (wt_of_fjv (fj_of (snd m)))).
    { intros m Hm. apply IH. simpl in Hd. pose proof (jdepth_member m ms Hm). lia. }
    change (wt_of_fjv (fj_of (JO ms)))
      with (WObj [] (map (fun kv : bytes * fjv => WM [] (fst kv) [] [] (wt_of_fjv (snd kv)) [])
                         (map (fun kv : bytes * jt => (sbody false (fst kv), fj_of (snd kv))) ms))).
    rewrite map_map. change (map _ ms) with (map wm_of_kv ms).
    destruct ms as [|kv r]; [reflexivity|].
    cbn [map]. rewrite wprint_obj_cons.
    change (jprint (JO (kv :: r))) with (bLB :: pm jprint true (kv :: r) ++ [bRB]). rewrite pm_cons.
    rewrite <- (wmem_bytes_kv kv) by (apply Hm; left; reflexivity).
    rewrite pm_is_wsep by (intros m Hx; apply Hm; right; exact Hx). lnorm. reflexivity.
Qed.

Lemma jprint_is_wprint : forall j, jprint j = wprint (wt_of_fjv (fj_of j)).
Proof. intros j. apply (jprint_is_wprint_n (jdepth j)). lia. Qed.

(* ------------------------------------------------------------------ the text without any white space *)
Section wt_induction.
  Variable P : wt -> Prop.
  Hypothesis HStr : forall raw, P (WStr raw).
  Hypothesis HNum : forall tok, P (WNum tok).
  Hypothesis HTrue : P WTrue.
  Hypothesis HFalse : P WFalse.
  Hypothesis HNull : P WNull.
  Hypothesis HArr : forall inner l, (forall x, In x l -> P (snd (fst x))) -> P (WArr inner l).
  Hypothesis HObj : forall inner ms, (forall m, In m ms -> P (wm_v m)) -> P (WObj inner ms).
  Fixpoint wt_induction (t : wt) : P t :=
    match t with
    | WStr raw => HStr raw
    | WNum tok => HNum tok
    | WTrue => HTrue
    | WFalse => HFalse
    | WNull => HNull
    | WArr inner l =>
        HArr inner l ((fix go (l : list (bytes * wt * bytes)) : forall x, In x l -> P (snd (fst x)) :=
                         match l with
                         | [] => fun x H => match H with end
                         | y :: r => fun x H =>
                             match H with
                             | or_introl E =>
                                 match E in _ = z return P (snd (fst z)) with eq_refl => wt_induction (snd (fst y)) end
                             | or_intror H' => go r x H'
                             end
                         end) l)
    | WObj inner ms =>
        HObj inner ms ((fix go (l : list (wmem wt)) : forall m, In m l -> P (wm_v m) :=
                          match l with
                          | [] => fun m H => match H with end
                          | y :: r => fun m H =>
                              match H with
                              | or_introl E =>
                                  match E in _ = z return P (wm_v z) with eq_refl => wt_induction (wm_v y) end
                              | or_intror H' => go r m H'
                              end
                          end) ms)
    end.
End wt_induction.

Lemma fold_max_map {A B} (f : A -> nat) (g : B -> nat) (h : A -> B) l :
  (forall x, In x l -> g (h x) = f x) ->
  fold_right (fun x m => Nat.max (g x) m) 0 (map h l) = fold_right (fun x m => Nat.max (f x) m) 0 l.
Proof.
  induction l as [|x r IH]; intros H; [reflexivity|]. simpl. rewrite (H x) by (left; reflexivity).
  rewrite IH by (intros y Hy; apply H; right; exact Hy). reflexivity.
Qed.

Lemma wdepth_compact t : wdepth (wt_of_fjv (strip t)) = wdepth t.
Proof.
  induction t as [raw|tok| | | |inner l IH|inner ms IH] using wt_induction; try reflexivity.
  - simpl. f_equal. rewrite map_map. apply (fold_max_map (fun x => wdepth (snd (fst x)))). exact IH.
  - simpl. f_equal. rewrite map_map. apply (fold_max_map (fun x => wdepth (wm_v x))). exact IH.
Qed.

Lemma wf_compact t : wf_wt t = true -> wf_wt (wt_of_fjv (strip t)) = true.
Proof.
  induction t as [raw|tok| | | |inner l IH|inner ms IH] using wt_induction; intros H; try exact H; try reflexivity.
  - simpl in H. apply andb_true_iff in H. destruct H as [_ H]. rewrite forallb_forall in H.
    simpl. rewrite map_map. apply forallb_forall. intros y Hy. apply in_map_iff in Hy. destruct Hy as [x [<- Hx]].
    unfold wf_elem. cbn [fst snd wf_ws forallb]. rewrite andb_true_r. apply (IH x Hx).
    specialize (H x Hx). unfold wf_elem in H. rewrite !andb_true_iff in H. tauto.
  - simpl in H. apply andb_true_iff in H. destruct H as [_ H]. rewrite forallb_forall in H.
    simpl. rewrite map_map. apply forallb_forall. intros y Hy. apply in_map_iff in Hy. destruct Hy as [x [<- Hx]].
    specialize (H x Hx). unfold wf_mem in H. rewrite !andb_true_iff in H. destruct H as [[[[[_ Hk] _] _] Hv] _].
    unfold wf_mem. cbn [wm_ws_before_key wm_rawkey wm_ws_before_colon wm_ws_after_colon wm_v wm_ws_after_value fst snd wf_ws forallb].
    rewrite Hk, (IH x Hx Hv). reflexivity.
Qed.

(* a text with white space parses to what the same text without any white space parses to *)
Corollary ws_compact : forall pre t post, wf_ws pre = true -> wf_ws post = true -> wf_wt t = true -> wdepth t <= 300 ->
  fj_parse (pre ++ wprint t ++ post) = fj_parse (wprint (wt_of_fjv (strip t))).
Proof.
  intros pre t post A B C D0.
  rewrite <- (app_nil_r (wprint (wt_of_fjv (strip t)))).
  change (wprint (wt_of_fjv (strip t)) ++ []) with ([] ++ wprint (wt_of_fjv (strip t)) ++ []).
  apply ws_insignificant; try assumption; try reflexivity.
  - apply wf_compact, C.
  - rewrite wdepth_compact. exact D0.
  - rewrite strip_wt_of_fjv. reflexivity.
Qed.

(* ------------------------------------------------------------------ number tokens: what wf_num leaves out *)
(* Among the runs of number bytes, wf_num is exactly the set of tokens that come back as FNum tok when a byte
   that is not a number byte follows (here: a space) *)
Lemma wf_num_exact n tok : forallb is_numch tok = true ->
  fj_value (S n) (tok ++ [x20]) = Ok (FNum tok, [x20]) -> wf_num tok = true.
Proof.
  intros Hall H. destruct tok as [|c [|d r]].
  - cbv in H. discriminate.
  - unfold wf_num. rewrite Hall. simpl. destruct (is_sign c) eqn:Hs; [|reflexivity].
    unfold is_sign in Hs. apply orb_true_iff in Hs. destruct Hs as [Hs|Hs]; apply beqb_eq in Hs; subst c;
      cbv in H; discriminate.
  - unfold wf_num. rewrite Hall. simpl. apply orb_true_r.
Qed.

(* a lone sign is a number at the very end of the input, and an error anywhere else *)
Example lone_sign_at_end : fj_parse (B "-") = Ok (FNum (B "-")) /\ fj_parse (B " +") = Ok (FNum (B "+")).
Proof. split; vm_compute; reflexivity. Qed.
Example lone_sign_elsewhere : fj_parse (B "- ") = Err /\ fj_parse (B "[-]") = Err /\ fj_parse (B "[+ ,1]") = Err.
Proof. repeat split; vm_compute; reflexivity. Qed.
(* inf and nan (not JSON) are numbers for fastjson; they are not in wf_num *)
Example infnan_tokens :
  fj_parse (B " nan ") = Ok (FNum (B "nan")) /\ fj_parse (B "-Inf") = Ok (FNum (B "-Inf"))
  /\ fj_parse (B "[NaN,+inf]") = Ok (FArr [FNum (B "NaN"); FNum (B "+inf")]).
Proof. repeat split; vm_compute; reflexivity. Qed.
(* why a number token must not be followed by a number byte: the two are one token, or an error *)
Example number_then_numch :
  fj_value 1 (B "1" ++ B "2") = Ok (FNum (B "12"), []) /\ fj_parse (B "1 2") = Err.
Proof. split; vm_compute; reflexivity. Qed.
(* only the four JSON white space bytes are skipped: a form feed is an error *)
Example form_feed_not_skipped : fj_parse (x0c :: B "1") = Err /\ fj_parse (B "[1" ++ [x0b] ++ B "]") = Err.
Proof. split; vm_compute; reflexivity. Qed.

(* ------------------------------------------------------------------ an example *)
Definition ws_sp : bytes := [x20].
Definition ws_tab : bytes := [x09].
Definition ws_lf : bytes := [x0a].
Definition ws_cr : bytes := [x0d].

(* an object with two members: the first key contains an escaped quote and its value is the array
   [1, -2.5e+3, true, null, [], {}]; the value of the second is an object with a string (with a \u escape) and,
   under the empty key, false.  White space at every gap (see ex_text / ex_compact). *)
Definition ex_doc : wt :=
  WObj [] [
    WM (ws_lf ++ ws_tab) (B "a\""b") ws_sp (ws_sp ++ ws_sp)
       (WArr [] [ (ws_sp, WNum (B "1"), ws_tab);
                  (ws_cr ++ ws_lf, WNum (B "-2.5e+3"), []);
                  (ws_tab, WTrue, ws_sp);
                  ([], WNull, ws_lf);
                  (ws_sp, WArr (ws_tab ++ ws_lf) [], ws_sp);
                  (ws_sp, WObj (ws_cr ++ ws_lf ++ ws_sp) [], ws_cr ++ ws_lf) ])
       (ws_cr ++ ws_lf);
    WM (ws_tab ++ ws_tab) (B "k") [] ws_tab
       (WObj [] [ WM ws_sp (B "x") ws_tab ws_lf (WStr (B "y z\u00e9")) ws_cr;
                  WM [] (B "") [] [] WFalse [] ])
       ws_lf
  ].

Definition ex_text : bytes :=
  B "{" ++ ws_lf ++ ws_tab ++ B """a\""b"" :  [ 1" ++ ws_tab ++ B "," ++ ws_cr ++ ws_lf ++ B "-2.5e+3," ++ ws_tab
  ++ B "true ,null" ++ ws_lf ++ B ", [" ++ ws_tab ++ ws_lf ++ B "] , {" ++ ws_cr ++ ws_lf ++ B " }" ++ ws_cr ++ ws_lf
  ++ B "]" ++ ws_cr ++ ws_lf ++ B "," ++ ws_tab ++ ws_tab ++ B """k"":" ++ ws_tab ++ B "{ ""x""" ++ ws_tab ++ B ":"
  ++ ws_lf ++ B """y z\u00e9""" ++ ws_cr ++ B ","""":false}" ++ ws_lf ++ B "}".

Definition ex_compact : bytes :=
  B "{""a\""b"":[1,-2.5e+3,true,null,[],{}],""k"":{""x"":""y z\u00e9"","""":false}}".

Example ex_doc_wf : wf_wt ex_doc = true /\ wdepth ex_doc = 3.
Proof. split; vm_compute; reflexivity. Qed.
Example ex_doc_text : wprint ex_doc = ex_text.
Proof. vm_compute. reflexivity. Qed.
Example ex_doc_compact : wprint (wt_of_fjv (strip ex_doc)) = ex_compact.
Proof. vm_compute. reflexivity. Qed.
Example ex_doc_strip : strip ex_doc =
  FObj [(B "a\""b", FArr [FNum (B "1"); FNum (B "-2.5e+3"); FTrue; FNull; FArr []; FObj []]);
        (B "k", FObj [(B "x", FStr (B "y z\u00e9")); ([], FFalse)])].
Proof. vm_compute. reflexivity. Qed.

(* by the theorems (not by running the parser) *)
Example ex_doc_parse : fj_parse (ws_lf ++ ex_text ++ ws_cr ++ ws_lf) = Ok (strip ex_doc).
Proof.
  rewrite <- ex_doc_text. apply ws_parse; try reflexivity; try apply ex_doc_wf.
  destruct ex_doc_wf as [_ ->]. lia.
Qed.
Example ex_doc_same : fj_parse (ws_lf ++ ex_text ++ ws_cr ++ ws_lf) = fj_parse ex_compact.
Proof.
  rewrite <- ex_doc_text, <- ex_doc_compact. apply ws_compact; try reflexivity; try apply ex_doc_wf.
  destruct ex_doc_wf as [_ ->]. lia.
Qed.
(* and by running the parser *)
Example ex_doc_run : fj_parse (ws_lf ++ ex_text ++ ws_cr ++ ws_lf) = Ok (strip ex_doc) /\ fj_parse ex_compact = Ok (strip ex_doc).
Proof. split; vm_compute; reflexivity. Qed.
