(* The reader on the xsd:duration grammar (Model/JsonDec.v xsd_duration_grammar, the former parse_xsd_duration: None on
   every text outside [-]P[nY][nM][nD][T[nH][nM][n[.n]S]]) and the model of xsd.Unmarshal on all byte strings
   (Model/XsdRead.v) agree wherever the grammar reader answers:
     xsd_grammar_agrees : xsd_duration_grammar s = Some d -> parse_xsd_duration s = Some d
   so every theorem about the grammar reader (Proofs/C01TimeP.v dur_roundtrip) carries over to the total reader the
   decoder model uses.  The float32 part: for a decimal below 1e9 the float32 does not overflow and the product with
   1e9 stays below 2^63 (f32_nanos_small), from the definition of the rounding (no property of rn_float is assumed). *)
From AP.Model Require Import Prelude Bytes Vocab JsonLeaf JsonDec XsdRead.
From AP.Proofs Require Import TextP XsdReadP.
Open Scope Z_scope.

(* ------------------------------------------------------------------ int64 wrapping *)
Lemma xwrap64_wrap64 z : xwrap64 z = wrap64 z.
Proof. reflexivity. Qed.

Lemma xwrap_add a v : xwrap64 (xwrap64 a + v) = xwrap64 (a + v).
Proof.
  unfold xwrap64. f_equal.
  replace ((a + 2 ^ 63) mod 2 ^ 64 - 2 ^ 63 + v + 2 ^ 63) with ((a + 2 ^ 63) mod 2 ^ 64 + v) by lia.
  rewrite Zplus_mod_idemp_l. f_equal. lia.
Qed.

Lemma xwrap_neg a : xwrap64 (xwrap64 a * -1) = xwrap64 (-1 * a).
Proof.
  unfold xwrap64. f_equal.
  replace (((a + 2 ^ 63) mod 2 ^ 64 - 2 ^ 63) * -1 + 2 ^ 63) with (2 ^ 64 - (a + 2 ^ 63) mod 2 ^ 64)
    by (set (t := (a + 2 ^ 63) mod 2 ^ 64); change (2 ^ 64) with (2 * 2 ^ 63); lia).
  rewrite Zminus_mod_idemp_r.
  replace (2 ^ 64 - (a + 2 ^ 63)) with (-1 * a + 2 ^ 63) by (change (2 ^ 64) with (2 * 2 ^ 63); lia).
  reflexivity.
Qed.

Lemma xwrap_small z : 0 <= z < 2 ^ 63 -> xwrap64 z = z.
Proof. intros H. unfold xwrap64. change (2 ^ 64) with (2 * 2 ^ 63). rewrite Z.mod_small by lia. lia. Qed.

(* ------------------------------------------------------------------ the float32 of a decimal below 1e9 *)
Lemma pow2_pos e : 0 <= e -> 0 < 2 ^ e.
Proof. intros H. apply Z.pow_pos_nonneg; lia. Qed.

Lemma f32_nanos_small p q : 0 < p -> 0 < q -> p < 10 ^ 9 * q ->
  f32_nanos p q = Some (let '(m, e) := rn32 p q in if 0 <=? e then m * 2 ^ e * 1000000000 else m * 1000000000 / 2 ^ (- e)) /\
  0 <= (let '(m, e) := rn32 p q in if 0 <=? e then m * 2 ^ e * 1000000000 else m * 1000000000 / 2 ^ (- e)).
Proof.
  intros Hp Hq Hpq. unfold f32_nanos.
  assert (Hb : forall m e, rn32 p q = (m, e) ->
            e <= 104 /\ 0 <= (if 0 <=? e then m * 2 ^ e * 1000000000 else m * 1000000000 / 2 ^ (- e)) < 2 ^ 63).
  2:{ destruct (rn32 p q) as [m e] eqn:E. destruct (Hb m e eq_refl) as [H1 [H0 H2]].
      assert (L : (104 <? e) = false) by (apply Z.ltb_ge; lia). rewrite L.
      apply Z.ltb_lt in H2. rewrite H2. split; [reflexivity|exact H0]. }
  intros m e. unfold rn32, rn_float.
  set (e0 := Z.log2 p - Z.log2 q - (24 - 1)).
  assert (He0 : e0 <= 7).
  { assert (Z.log2 p <= Z.log2 (10 ^ 9 * q)) by (apply Z.log2_le_mono; lia).
    assert (Z.log2 (10 ^ 9 * q) <= Z.log2 (10 ^ 9) + Z.log2 q + 1) by (apply Z.log2_mul_above; lia).
    change (Z.log2 (10 ^ 9)) with 29 in *. unfold e0. lia. }
  destruct (scale_div p q e0) as [n0 d0].
  set (e1 := if n0 / d0 <? 2 ^ (24 - 1) then e0 - 1 else e0).
  assert (He1 : e1 <= 7) by (unfold e1; destruct (n0 / d0 <? 2 ^ (24 - 1)); lia).
  clearbody e1. clear e0 He0 n0 d0.
  unfold scale_div.
  assert (B63 : 2 ^ 63 = 9223372036854775808) by reflexivity.
  assert (B24 : 2 ^ 24 = 16777216) by reflexivity.
  assert (B23 : 2 ^ (24 - 1) = 8388608) by reflexivity.
  assert (B9 : 10 ^ 9 = 1000000000) by reflexivity.
  destruct (0 <=? e1) eqn:Ee.
  - (* e1 >= 0: n = p, d = q * 2^e1 *)
    apply Z.leb_le in Ee.
    set (P2 := 2 ^ e1). assert (HP2 : 0 < P2 <= 128).
    { split; [apply pow2_pos; lia|]. change 128 with (2 ^ 7). apply Z.pow_le_mono_r; lia. }
    set (m0 := p / (q * P2)).
    assert (Hm0 : 0 <= m0 /\ m0 * P2 < 10 ^ 9).
    { assert (0 < q * P2) by nia. split; [apply Z.div_pos; lia|].
      assert (q * P2 * m0 <= p) by (apply Z.mul_div_le; lia). nia. }
    set (m' := if (q * P2 <? 2 * (p mod (q * P2))) || ((2 * (p mod (q * P2)) =? q * P2) && Z.odd m0) then m0 + 1 else m0).
    assert (Hm' : 0 <= m' <= m0 + 1) by (unfold m'; destruct ((q * P2 <? 2 * (p mod (q * P2))) || ((2 * (p mod (q * P2)) =? q * P2) && Z.odd m0)); lia).
    destruct (m' =? 2 ^ 24) eqn:E24; intros R; injection R as Rm Re; rewrite <- Rm, <- Re; clear Rm Re m e.
    + apply Z.eqb_eq in E24. assert (L : (0 <=? e1 + 1) = true) by (apply Z.leb_le; lia). rewrite L.
      split; [lia|]. replace (2 ^ (e1 + 1)) with (2 * P2) by (unfold P2; rewrite Z.pow_add_r by lia; change (2 ^ 1) with 2; ring). change (Z.pow_pos 2 23) with 8388608; rewrite B63. rewrite B24 in E24. rewrite B9 in Hm0. split; nia.
    + assert (L : (0 <=? e1) = true) by (apply Z.leb_le; lia). rewrite L.
      split; [lia|]. fold P2. rewrite B63. rewrite B9 in Hm0. split; nia.
  - (* e1 < 0: n = p * 2^(-e1), d = q *)
    apply Z.leb_gt in Ee.
    set (P2 := 2 ^ (- e1)). assert (HP2 : 0 < P2) by (apply pow2_pos; lia).
    set (m0 := p * P2 / q).
    assert (Hm0 : 0 <= m0 /\ m0 < 10 ^ 9 * P2).
    { split; [apply Z.div_pos; nia|]. assert (q * m0 <= p * P2) by (apply Z.mul_div_le; lia). nia. }
    set (m' := if (q <? 2 * (p * P2 mod q)) || ((2 * (p * P2 mod q) =? q) && Z.odd m0) then m0 + 1 else m0).
    assert (Hm' : 0 <= m' <= m0 + 1) by (unfold m'; destruct ((q <? 2 * (p * P2 mod q)) || ((2 * (p * P2 mod q) =? q) && Z.odd m0)); lia).
    destruct (m' =? 2 ^ 24) eqn:E24; intros R; injection R as Rm Re; rewrite <- Rm, <- Re; clear Rm Re m e.
    + split; [lia|]. destruct (0 <=? e1 + 1) eqn:L.
      * apply Z.leb_le in L. assert (e1 + 1 = 0) by lia. replace (e1 + 1) with 0 by lia. change (Z.pow_pos 2 23) with 8388608; rewrite B63. change (2 ^ 0) with 1. lia.
      * apply Z.leb_gt in L. change (Z.pow_pos 2 23) with 8388608; rewrite B63.
        split; [apply Z.div_pos; [lia|apply pow2_pos; lia]|].
        apply Z.div_lt_upper_bound; [apply pow2_pos; lia|].
        assert (1 <= 2 ^ (- (e1 + 1))) by (pose proof (pow2_pos (- (e1 + 1)) ltac:(lia)); lia). nia.
    + assert (L : (0 <=? e1) = false) by (apply Z.leb_gt; lia). rewrite L.
      split; [lia|]. fold P2. rewrite B63.
      split; [apply Z.div_pos; [nia|lia]|].
      apply Z.div_lt_upper_bound; [lia|]. rewrite B9 in Hm0. nia.
Qed.

(* ------------------------------------------------------------------ digits *)
Lemma digit_facts b : is_digit b = true ->
  Byte.eqb b x2b = false /\ Byte.eqb b x2d = false /\ Byte.eqb b x2e = false /\ valid_tag b = false /\
  valid_float_byte b = true /\ Byte.eqb b x54 = false /\ 0 <= Z.of_N (byteN b) - 48 <= 9.
Proof.
  assert (S : forallb (fun b => negb (is_digit b) ||
                (negb (Byte.eqb b x2b) && negb (Byte.eqb b x2d) && negb (Byte.eqb b x2e) && negb (valid_tag b) &&
                 valid_float_byte b && negb (Byte.eqb b x54) && (0 <=? Z.of_N (byteN b) - 48) && (Z.of_N (byteN b) - 48 <=? 9))) all_bytes = true)
    by (vm_compute; reflexivity).
  pose proof (byte_sweep _ S b) as Hb. cbv beta in Hb. intros H. rewrite H in Hb. cbn [negb orb] in Hb.
  rewrite !andb_true_iff, !negb_true_iff, !Z.leb_le in Hb. tauto.
Qed.

Lemma dot_facts : valid_tag x2e = false /\ valid_float_byte x2e = true.
Proof. split; reflexivity. Qed.

Lemma parse_nat_go_dec s : forall acc n, parse_nat_go s acc = Some n -> forallb is_digit s = true /\ dec_val s acc = n.
Proof.
  induction s as [|b r IH]; intros acc n H.
  - inversion H. split; reflexivity.
  - cbn [parse_nat_go] in H. unfold digit_val in H. destruct (is_digit b) eqn:E; [|discriminate].
    apply IH in H. destruct H as [H1 H2]. cbn [forallb dec_val]. rewrite E, H1. split; [reflexivity|exact H2].
Qed.

Lemma parse_nat_dec s n : parse_nat s = Some n -> s <> [] /\ forallb is_digit s = true /\ dec_val s 0 = n.
Proof.
  unfold parse_nat. destruct s as [|b r]; [discriminate|]. intros H. split; [discriminate|]. exact (parse_nat_go_dec _ _ _ H).
Qed.

Lemma dec_parse_nat_go s : forallb is_digit s = true -> forall acc, parse_nat_go s acc = Some (dec_val s acc).
Proof.
  induction s as [|b r IH]; intros H acc; [reflexivity|].
  cbn [forallb] in H. apply andb_true_iff in H. destruct H as [Hb Hr].
  cbn [parse_nat_go dec_val]. unfold digit_val. rewrite Hb. apply IH. exact Hr.
Qed.

Lemma pow10_S n : 10 ^ Z.of_nat (S n) = 10 * 10 ^ Z.of_nat n.
Proof. rewrite Nat2Z.inj_succ, Z.pow_succ_r by lia. reflexivity. Qed.

Lemma pow10_pos n : 0 < 10 ^ Z.of_nat n.
Proof. apply Z.pow_pos_nonneg; lia. Qed.

Lemma dec_val_bounds s : forallb is_digit s = true -> forall acc, 0 <= acc ->
  acc * 10 ^ Z.of_nat (length s) <= dec_val s acc < (acc + 1) * 10 ^ Z.of_nat (length s).
Proof.
  induction s as [|b r IH]; intros H acc Ha.
  - cbn [length dec_val]. change (10 ^ Z.of_nat 0) with 1. lia.
  - cbn [forallb] in H. apply andb_true_iff in H. destruct H as [Hb Hr].
    destruct (digit_facts b Hb) as [_ [_ [_ [_ [_ [_ Hv]]]]]].
    cbn [length dec_val]. rewrite pow10_S. pose proof (pow10_pos (length r)) as Hp.
    specialize (IH Hr (acc * 10 + (Z.of_N (byteN b) - 48)) ltac:(lia)). nia.
Qed.

Lemma dec_val_app a : forall b acc, dec_val (a ++ b) acc = dec_val b (dec_val a acc).
Proof. induction a as [|x a IH]; intros b acc; [reflexivity|]. cbn [app dec_val]. apply IH. Qed.

Lemma dec_val_shift b : forall acc, dec_val b acc = acc * 10 ^ Z.of_nat (length b) + dec_val b 0.
Proof.
  induction b as [|x r IH]; intros acc.
  - cbn [dec_val length]. change (10 ^ Z.of_nat 0) with 1. lia.
  - cbn [dec_val length]. rewrite (IH (acc * 10 + (Z.of_N (byteN x) - 48))), (IH (0 * 10 + (Z.of_N (byteN x) - 48))), pow10_S. ring.
Qed.

Lemma pow10_le a b : (a <= b)%nat -> 10 ^ Z.of_nat a <= 10 ^ Z.of_nat b.
Proof. intros H. apply Z.pow_le_mono_r; lia. Qed.

(* ------------------------------------------------------------------ the scans *)
Definition take_digs : bytes -> bytes :=
  fix take (l : bytes) : bytes := match l with b :: r => if is_digit b then b :: take r else [] | [] => [] end.

Lemma take_split s : s = take_digs s ++ skipn (length (take_digs s)) s /\ forallb is_digit (take_digs s) = true.
Proof.
  induction s as [|b r IH]; [split; reflexivity|].
  cbn [take_digs]. destruct (is_digit b) eqn:E.
  - fold take_digs. cbn [length skipn app forallb]. rewrite E. destruct IH as [I1 I2]. rewrite <- I1, I2. split; reflexivity.
  - split; reflexivity.
Qed.

Definition num_byte (b : byte) : bool := valid_float_byte b && negb (valid_tag b).

Lemma digits_num_bytes ds : forallb is_digit ds = true -> forallb num_byte ds = true.
Proof.
  induction ds as [|b r IH]; [reflexivity|]. cbn [forallb]. intros H. apply andb_true_iff in H. destruct H as [Hb Hr].
  destruct (digit_facts b Hb) as [_ [_ [_ [H4 [H5 _]]]]]. unfold num_byte at 1. rewrite H4, H5, (IH Hr). reflexivity.
Qed.

Lemma load_uint_num ds : forall acc u r, forallb num_byte ds = true -> valid_tag u = true ->
  load_uint (ds ++ u :: r) acc = Some (rev acc ++ ds, u, r).
Proof.
  induction ds as [|b ds IH]; intros acc u r Hd Hu.
  - cbn [app load_uint]. rewrite Hu, app_nil_r. reflexivity.
  - cbn [forallb] in Hd. apply andb_true_iff in Hd. destruct Hd as [Hb Hr]. unfold num_byte in Hb.
    apply andb_true_iff in Hb. destruct Hb as [H1 H2]. apply negb_true_iff in H2.
    cbn [app load_uint]. rewrite H2, H1, (IH (b :: acc) u r Hr Hu). cbn [rev]. rewrite <- app_assoc. reflexivity.
Qed.

Lemma fd_frac fp : forall ai af, forallb is_digit fp = true -> float_digits fp true ai af = (rev ai, rev af ++ fp, []).
Proof.
  induction fp as [|c r IH]; intros ai af H.
  - cbn [float_digits]. rewrite app_nil_r. reflexivity.
  - cbn [forallb] in H. apply andb_true_iff in H. destruct H as [Hc Hr].
    destruct (digit_facts c Hc) as [_ [_ [H3 _]]]. cbn [float_digits]. rewrite H3.
    change (x_isdigit c) with (is_digit c). rewrite Hc. rewrite (IH ai (c :: af) Hr). cbn [rev]. rewrite <- app_assoc. reflexivity.
Qed.

Lemma fd_int ip : forall ai, forallb is_digit ip = true -> float_digits ip false ai [] = (rev ai ++ ip, [], []).
Proof.
  induction ip as [|c r IH]; intros ai H.
  - cbn [float_digits rev]. rewrite app_nil_r. reflexivity.
  - cbn [forallb] in H. apply andb_true_iff in H. destruct H as [Hc Hr].
    destruct (digit_facts c Hc) as [_ [_ [H3 _]]]. cbn [float_digits]. rewrite H3.
    change (x_isdigit c) with (is_digit c). rewrite Hc. rewrite (IH (c :: ai) Hr). cbn [rev]. rewrite <- app_assoc. reflexivity.
Qed.

Lemma fd_int_frac ip : forall ai fp, forallb is_digit ip = true -> forallb is_digit fp = true ->
  float_digits (ip ++ x2e :: fp) false ai [] = (rev ai ++ ip, fp, []).
Proof.
  induction ip as [|c r IH]; intros ai fp H Hf.
  - cbn [app float_digits]. change (Byte.eqb x2e x2e) with true. cbv iota. rewrite (fd_frac fp ai [] Hf). cbn [rev app]. rewrite app_nil_r. reflexivity.
  - cbn [forallb] in H. apply andb_true_iff in H. destruct H as [Hc Hr].
    destruct (digit_facts c Hc) as [_ [_ [H3 _]]]. cbn [app float_digits]. rewrite H3.
    change (x_isdigit c) with (is_digit c). rewrite Hc. rewrite (IH (c :: ai) fp Hr Hf). cbn [rev]. rewrite <- app_assoc. reflexivity.
Qed.

Lemma split_sign_digit b r : is_digit b = true -> split_sign (b :: r) = (false, b :: r).
Proof. intros H. destruct (digit_facts b H) as [H1 [H2 _]]. unfold split_sign. rewrite H1, H2. reflexivity. Qed.

(* ------------------------------------------------------------------ the seconds *)
Lemma sec_agree ip fp num : forallb is_digit ip = true -> ip <> [] -> forallb is_digit fp = true -> (length ip <= 9)%nat ->
  float_digits num false [] [] = (ip, fp, []) -> split_sign num = (false, num) ->
  exists ns, sec_nanos ip fp = Some ns /\ parse_sec_nanos num = Some ns /\ 0 <= ns.
Proof.
  intros Hi Hne Hf L9 HF HS.
  unfold sec_nanos, parse_sec_nanos. rewrite HS, HF.
  assert (Pi : parse_nat ip = Some (dec_val ip 0)) by (unfold parse_nat; destruct ip; [congruence|apply dec_parse_nat_go; exact Hi]).
  assert (Pf : match fp with [] => Some 0 | _ :: _ => parse_nat fp end = Some (dec_val fp 0))
    by (destruct fp; [reflexivity|unfold parse_nat; apply dec_parse_nat_go; exact Hf]).
  rewrite Pi, Pf.
  assert (Ep : dec_val (ip ++ fp) 0 = dec_val ip 0 * 10 ^ Z.of_nat (length fp) + dec_val fp 0)
    by (rewrite dec_val_app, dec_val_shift; reflexivity).
  destruct ip as [|a ip']; [congruence|]. cbn [app]. change (a :: ip' ++ fp) with ((a :: ip') ++ fp). rewrite Ep.
  set (p := dec_val (a :: ip') 0 * 10 ^ Z.of_nat (length fp) + dec_val fp 0) in *.
  destruct (p =? 0) eqn:E0; [exists 0; repeat split; lia|].
  apply Z.eqb_neq in E0.
  pose proof (dec_val_bounds _ Hi 0 ltac:(lia)) as Bi. pose proof (dec_val_bounds _ Hf 0 ltac:(lia)) as Bf.
  pose proof (pow10_pos (length fp)) as Pk. pose proof (pow10_le _ _ L9) as P9. change (10 ^ Z.of_nat 9) with (10 ^ 9) in P9.
  assert (Hp : 0 < p) by (unfold p in *; nia).
  assert (Hq : p < 10 ^ 9 * 10 ^ Z.of_nat (length fp)) by (unfold p; nia).
  destruct (f32_nanos_small p (10 ^ Z.of_nat (length fp)) Hp Pk Hq) as [F1 F2].
  rewrite F1. destruct (rn32 p (10 ^ Z.of_nat (length fp))) as [m e].
  eexists. split; [reflexivity|]. split; [reflexivity|exact F2].
Qed.

(* ------------------------------------------------------------------ one item *)
Definition item_step (F : nat) (it1 : bool) (s1 : bytes) (d : Z) : outcome (Z * bytes) :=
  match load_uint s1 [] with
  | None => Err
  | Some (num, tag, rest) =>
      match tag_value num tag it1 with
      | None => Err
      | Some v => if Nat.leb (length rest) 1 then Ok (xwrap64 (d + v), rest) else xsd_loop F it1 rest (xwrap64 (d + v))
      end
  end.

Lemma xsd_loop_S F it b r d :
  xsd_loop (S F) it (b :: r) d = if Byte.eqb b x54 then item_step F true r d else item_step F it (b :: r) d.
Proof. cbn [xsd_loop rd obind]. destruct (Byte.eqb b x54); reflexivity. Qed.

Definition parts_item (f : nat) (it : bool) (s : bytes) (acc : Z) : option Z :=
  let ds := take_digs s in
  match parse_nat ds, skipn (length ds) s with
  | Some n, u :: r =>
      if Nat.ltb 9 (length ds) then None
      else if it then
        if Byte.eqb u x48 then match add_part acc (n * 3600000000000) with Some a => xsd_parts f true r a | None => None end
        else if Byte.eqb u x4d then match add_part acc (n * 60000000000) with Some a => xsd_parts f true r a | None => None end
        else if Byte.eqb u x53 then
          match sec_nanos ds [] with Some ns => xsd_parts f true r (acc + ns) | None => None end
        else if Byte.eqb u x2e then
          let fs := take_digs r in
          match fs, skipn (length fs) r with
          | _ :: _, sb :: r' =>
              if Byte.eqb sb x53 && Nat.leb (length fs) 30 then
                match sec_nanos ds fs with Some ns => xsd_parts f true r' (acc + ns) | None => None end
              else None
          | _, _ => None
          end
        else None
      else
        if Byte.eqb u x59 then match add_part acc (n * 356 * 86400000000000) with Some a => xsd_parts f false r a | None => None end
        else if Byte.eqb u x4d then match add_part acc (n * 30 * 86400000000000) with Some a => xsd_parts f false r a | None => None end
        else if Byte.eqb u x44 then match add_part acc (n * 86400000000000) with Some a => xsd_parts f false r a | None => None end
        else None
  | _, _ => None
  end.

Lemma parts_unfold f it s acc : xsd_parts (S f) it s acc =
  match s with
  | [] => Some acc
  | t :: r0 => if negb it && Byte.eqb t x54 then match r0 with [] => None | _ => xsd_parts f true r0 acc end
               else parts_item f it s acc
  end.
Proof. reflexivity. Qed.

Lemma parts_one f it b a : xsd_parts f it [b] a = None.
Proof.
  destruct f; [reflexivity|]. rewrite parts_unfold. destruct (negb it && Byte.eqb b x54); [reflexivity|].
  unfold parts_item. cbn [take_digs]. destruct (is_digit b).
  - cbn [length skipn]. destruct (parse_nat [b]); reflexivity.
  - reflexivity.
Qed.

Definition loop_ih (f : nat) : Prop :=
  forall it s acc n, xsd_parts f it s acc = Some n -> s <> [] -> forall F, (length s <= F)%nat ->
  exists rest, xsd_loop F it s (xwrap64 acc) = Ok (xwrap64 n, rest).

(* what follows an item *)
Lemma cont f (IH : loop_ih f) it r acc v n F : xsd_parts f it r (acc + v) = Some n -> (length r <= F)%nat ->
  exists rest, (if Nat.leb (length r) 1 then Ok (xwrap64 (xwrap64 acc + v), r)
                else xsd_loop F it r (xwrap64 (xwrap64 acc + v))) = Ok (xwrap64 n, rest).
Proof.
  intros H L. rewrite xwrap_add. destruct r as [|b1 [|b2 r2]].
  - destruct f; [discriminate|]. inversion H. exists []. reflexivity.
  - rewrite parts_one in H. discriminate.
  - cbn [length Nat.leb]. apply IH; [exact H|discriminate|exact L].
Qed.

Lemma item_step_at F it s1 num tag rest d v : load_uint s1 [] = Some (num, tag, rest) -> tag_value num tag it = Some v ->
  item_step F it s1 d = if Nat.leb (length rest) 1 then Ok (xwrap64 (d + v), rest) else xsd_loop F it rest (xwrap64 (d + v)).
Proof. intros H1 H2. unfold item_step. rewrite H1, H2. reflexivity. Qed.

Lemma int_tag ds nn u (it : bool) K : parse_nat ds = Some nn -> (length ds <= 9)%nat -> Byte.eqb u x53 = false ->
  (if it then time_base u else date_base u) = K -> 0 <= K -> nn * K < 2 ^ 63 ->
  tag_value ds u it = Some (nn * K).
Proof.
  intros HP L9 HS HK K0 KB. apply parse_nat_dec in HP. destruct HP as [Hne [Hd Hv]].
  unfold tag_value. rewrite HS.
  assert (PI : parse_int32 ds = Some nn).
  { unfold parse_int32. destruct ds as [|b r]; [congruence|].
    assert (Hb : is_digit b = true) by (cbn [forallb] in Hd; apply andb_true_iff in Hd; tauto).
    rewrite (split_sign_digit b r Hb). change (forallb x_isdigit (b :: r)) with (forallb is_digit (b :: r)). rewrite Hd, Hv.
    pose proof (dec_val_bounds _ Hd 0 ltac:(lia)) as Bd. rewrite Hv in Bd. pose proof (pow10_le _ _ L9) as P9.
    change (10 ^ Z.of_nat 9) with 1000000000 in P9.
    assert (Lt : (nn <? 2 ^ 31) = true) by (apply Z.ltb_lt; change (2 ^ 31) with 2147483648; lia). rewrite Lt. reflexivity. }
  rewrite PI, HK.
  assert (N0 : 0 <= nn) by (pose proof (dec_val_bounds _ Hd 0 ltac:(lia)) as Bd; rewrite Hv in Bd; pose proof (pow10_pos (length ds)); lia).
  rewrite xwrap_small by nia. replace (K * nn) with (nn * K) by ring.
  assert (Lz : (nn * K <? 0) = false) by (apply Z.ltb_ge; nia). rewrite Lz. reflexivity.
Qed.

Lemma int_item f (IH : loop_ih f) (it : bool) s ds u r nn V K acc n F :
  s = ds ++ u :: r -> forallb is_digit ds = true -> parse_nat ds = Some nn -> (length ds <= 9)%nat ->
  valid_tag u = true -> Byte.eqb u x53 = false -> (if it then time_base u else date_base u) = K -> 0 <= K -> V = nn * K ->
  match add_part acc V with Some a => xsd_parts f it r a | None => None end = Some n -> (length s <= S F)%nat ->
  exists rest, item_step F it s (xwrap64 acc) = Ok (xwrap64 n, rest).
Proof.
  intros Es Hd HP L9 Hu HS HK K0 EV H L. unfold add_part in H. destruct (V <? 2 ^ 63) eqn:EB; [|discriminate].
  apply Z.ltb_lt in EB. subst V.
  rewrite (item_step_at F it s ds u r (xwrap64 acc) (nn * K)).
  - apply (cont f IH); [exact H|]. subst s. rewrite app_length in L. cbn [length] in L. lia.
  - subst s. rewrite (load_uint_num ds [] u r (digits_num_bytes ds Hd) Hu). reflexivity.
  - apply int_tag; assumption.
Qed.

Lemma sec_tag num it ns : parse_sec_nanos num = Some ns -> 0 <= ns -> tag_value num x53 it = Some ns.
Proof.
  intros H H0. unfold tag_value. change (Byte.eqb x53 x53) with true. cbv iota. rewrite H.
  assert (Lz : (ns <? 0) = false) by (apply Z.ltb_ge; lia). rewrite Lz. reflexivity.
Qed.

Lemma item_agree f (IH : loop_ih f) it s acc n F : s <> [] -> parts_item f it s acc = Some n -> (length s <= S F)%nat ->
  exists rest, item_step F it s (xwrap64 acc) = Ok (xwrap64 n, rest).
Proof.
  intros Hne H L. unfold parts_item in H. cbv zeta in H.
  destruct (take_split s) as [Es Hd]. set (ds := take_digs s) in *.
  destruct (parse_nat ds) as [nn|] eqn:EP; [|discriminate].
  destruct (skipn (length ds) s) as [|u r] eqn:ESK; [discriminate|].
  destruct (Nat.ltb 9 (length ds)) eqn:E9; [discriminate|]. apply Nat.ltb_ge in E9.
  destruct it.
  - destruct (Byte.eqb u x48) eqn:EH.
    { apply Byte.byte_dec_bl in EH. subst u.
      eapply (int_item f IH true s ds x48 r nn _ 3600000000000); try eassumption; try reflexivity; lia. }
    destruct (Byte.eqb u x4d) eqn:EM.
    { apply Byte.byte_dec_bl in EM. subst u.
      eapply (int_item f IH true s ds x4d r nn _ 60000000000); try eassumption; try reflexivity; lia. }
    destruct (Byte.eqb u x53) eqn:ES.
    { apply Byte.byte_dec_bl in ES. subst u.
      destruct (sec_nanos ds []) as [ns|] eqn:EN; [|discriminate].
      apply parse_nat_dec in EP. destruct EP as [Dne [_ _]].
      assert (Hsp : split_sign ds = (false, ds)).
      { destruct ds as [|b0 r0]; [congruence|]. apply split_sign_digit. cbn [forallb] in Hd. apply andb_true_iff in Hd. tauto. }
      destruct (sec_agree ds [] ds Hd Dne eq_refl E9 (fd_int ds [] Hd) Hsp) as [ns' [S1 [S2 S3]]].
      rewrite EN in S1. inversion S1; subst ns'.
      rewrite (item_step_at F true s ds x53 r (xwrap64 acc) ns).
      - apply (cont f IH); [exact H|]. rewrite Es, app_length in L. cbn [length] in L. lia.
      - rewrite Es at 1. rewrite (load_uint_num ds [] x53 r (digits_num_bytes ds Hd) eq_refl). reflexivity.
      - apply sec_tag; assumption. }
    destruct (Byte.eqb u x2e) eqn:ED; [|discriminate].
    apply Byte.byte_dec_bl in ED. subst u.
    destruct (take_split r) as [Er Hf]. set (fs := take_digs r) in *.
    destruct fs as [|f0 fs'] eqn:EFS; [discriminate|]. rewrite <- EFS in *.
    destruct (skipn (length fs) r) as [|sb r'] eqn:ESK2; [discriminate|].
    destruct (Byte.eqb sb x53) eqn:ESB; [|discriminate]. cbn [andb] in H.
    destruct (Nat.leb (length fs) 30); [|discriminate].
    apply Byte.byte_dec_bl in ESB. subst sb.
    destruct (sec_nanos ds fs) as [ns|] eqn:EN; [|discriminate].
    apply parse_nat_dec in EP. destruct EP as [Dne [_ _]].
    assert (Hsp : split_sign (ds ++ x2e :: fs) = (false, ds ++ x2e :: fs)).
    { destruct ds as [|b0 r0]; [congruence|]. cbn [app]. apply split_sign_digit. cbn [forallb] in Hd. apply andb_true_iff in Hd. tauto. }
    destruct (sec_agree ds fs (ds ++ x2e :: fs) Hd Dne Hf E9 (fd_int_frac ds [] fs Hd Hf) Hsp) as [ns' [S1 [S2 S3]]].
    rewrite EN in S1. inversion S1; subst ns'.
    assert (Es2 : s = (ds ++ x2e :: fs) ++ x53 :: r') by (rewrite Es at 1; rewrite Er at 1; rewrite <- app_assoc; reflexivity).
    rewrite (item_step_at F true s (ds ++ x2e :: fs) x53 r' (xwrap64 acc) ns).
    + apply (cont f IH); [exact H|]. rewrite Es2, app_length in L. cbn [length] in L. lia.
    + rewrite Es2 at 1. rewrite (load_uint_num (ds ++ x2e :: fs) [] x53 r'); [reflexivity| |reflexivity].
      rewrite forallb_app. cbn [forallb]. rewrite (digits_num_bytes ds Hd), (digits_num_bytes fs Hf). reflexivity.
    + apply sec_tag; assumption.
  - destruct (Byte.eqb u x59) eqn:EY.
    { apply Byte.byte_dec_bl in EY. subst u.
      eapply (int_item f IH false s ds x59 r nn _ (356 * 86400000000000)); try eassumption; try reflexivity; lia. }
    destruct (Byte.eqb u x4d) eqn:EM.
    { apply Byte.byte_dec_bl in EM. subst u.
      eapply (int_item f IH false s ds x4d r nn _ (30 * 86400000000000)); try eassumption; try reflexivity; lia. }
    destruct (Byte.eqb u x44) eqn:EDd; [|discriminate].
    apply Byte.byte_dec_bl in EDd. subst u.
    eapply (int_item f IH false s ds x44 r nn _ 86400000000000); try eassumption; try reflexivity; lia.
Qed.

Theorem parts_agree : forall f, loop_ih f.
Proof.
  induction f as [f IHf] using lt_wf_ind. unfold loop_ih. intros it s acc n H Hne F L.
  destruct f as [|f]; [discriminate|]. destruct s as [|t r0]; [congruence|].
  destruct F as [|F]; [cbn [length] in L; lia|].
  rewrite xsd_loop_S. rewrite parts_unfold in H.
  destruct (negb it && Byte.eqb t x54) eqn:ET.
  - apply andb_true_iff in ET. destruct ET as [_ ET]. rewrite ET.
    destruct r0 as [|t1 r1]; [discriminate|].
    destruct f as [|f2]; [discriminate|]. rewrite parts_unfold in H. cbn [negb andb] in H.
    apply (item_agree f2 (IHf f2 ltac:(lia)) true (t1 :: r1) acc n F); [discriminate|exact H|].
    cbn [length] in *. lia.
  - destruct (Byte.eqb t x54) eqn:ET2.
    + (* a T behind a T: the grammar reader gives up *)
      exfalso. unfold parts_item in H. cbn [take_digs] in H.
      apply Byte.byte_dec_bl in ET2. subst t. change (is_digit x54) with false in H. cbv iota in H. cbn in H. discriminate.
    + apply (item_agree f (IHf f ltac:(lia)) it (t :: r0) acc n F); [discriminate|exact H|exact L].
Qed.

(* ------------------------------------------------------------------ the whole text *)
Theorem xsd_grammar_agrees s d : xsd_duration_grammar s = Some d -> parse_xsd_duration s = Some d.
Proof.
  intros H. unfold parse_xsd_duration. f_equal. unfold xsd_duration_grammar in H.
  destruct s as [|b0 t]; [inversion H; reflexivity|].
  assert (Fin : forall neg body nanos, body <> [] -> xsd_parts 12 false body 0 = Some nanos ->
            obind (xsd_loop (length body) false body 0) (xsd_finish neg) = Ok (wrap64 ((if neg then -1 else 1) * nanos))).
  { intros neg body nanos Bne EX.
    destruct (parts_agree 12 false body 0 nanos EX Bne (length body) (le_n _)) as [rest EL].
    change (xwrap64 0) with 0 in EL. rewrite EL. cbn [obind]. unfold xsd_finish.
    pose proof (xsd_loop_rest _ _ _ _ _ _ EL) as LR.
    assert (LT : Nat.ltb 1 (length rest) = false) by (apply Nat.ltb_ge; exact LR). rewrite LT.
    destruct neg.
    - rewrite xwrap_neg. reflexivity.
    - replace (1 * nanos) with nanos by lia. reflexivity. }
  unfold read_duration, json_get_duration, parse_duration, xsd_unmarshal.
  destruct (Byte.eqb b0 x2d) eqn:E0.
  - destruct t as [|p rest]; [discriminate|]. cbn [tl rd obind].
    destruct (Byte.eqb p x50) eqn:EP; [|discriminate]. cbn [negb tl].
    destruct rest as [|c rest']; [discriminate|].
    destruct (xsd_parts 12 false (c :: rest') 0) as [nanos|] eqn:EX; [|discriminate].
    rewrite (Fin true (c :: rest') nanos ltac:(discriminate) EX). cbn [obind]. inversion H. reflexivity.
  - cbn [rd obind]. destruct (Byte.eqb b0 x50) eqn:EP; [|discriminate]. cbn [negb tl].
    destruct t as [|c rest']; [discriminate|].
    destruct (xsd_parts 12 false (c :: rest') 0) as [nanos|] eqn:EX; [|discriminate].
    rewrite (Fin false (c :: rest') nanos ltac:(discriminate) EX). cbn [obind]. inversion H. reflexivity.
Qed.
