(* The duration printer of the encoder model (Model/JsonLeaf.v fmt_xsd_duration = xsdDuration of encoding_json.go):
   * for EVERY duration of nanoseconds it is defined, and what it prints lies in the lexical space of xsd:duration
     (Spec/XsdDuration.v) - also for durations that are not whole seconds, whatever digits the float formatting
     of the seconds produces;
   * on whole seconds it is the printer the C01 round-trip theorems were proved for (fmt_xsd_duration_whole, the
     definition the model had before sub-second durations were modelled);
   * the writer before the fix "the most negative duration was written as -P" printed a text outside that space. *)
From AP.Model Require Import Prelude Bytes Vocab Json JsonLeaf.
From AP.Spec Require Import Rfc8259 XsdDuration.
From AP.Proofs Require Import JsonLeafGP.
Open Scope Z_scope.

(* ------------------------------------------------------------------ digits *)
Lemma digits_unsigned_int n : unsigned_int (digits n).
Proof. destruct (digits_digits n) as [Hne [Hd _]]. split; [exact Hne|exact Hd]. Qed.

Lemma digits_w_unsigned_int w n : unsigned_int (digits_w w n).
Proof. destruct (digits_w_digits w n) as [[Hne Hd] _]. split; [exact Hne|exact Hd]. Qed.

Lemma repeat_zero_digits k : forallb x_digit (repeat x30 k) = true.
Proof. induction k; [reflexivity|]. cbn [repeat forallb]. rewrite IHk. reflexivity. Qed.

(* strconv's %f of shortest digits: [0-9]+(\.[0-9]+)? whatever the digits and the exponent are *)
Lemma fmt_f_shortest_dec t q : unsigned_dec (fmt_f_shortest t q).
Proof.
  unfold fmt_f_shortest. destruct (0 <=? q).
  - left. destruct (digits_unsigned_int t) as [Hne Hd]. split.
    + intros K. apply app_eq_nil in K. destruct K as [K _]. contradiction.
    + rewrite forallb_app, Hd, repeat_zero_digits. reflexivity.
  - cbv zeta. right. eexists _, _. split; [reflexivity|]. split; [apply digits_unsigned_int|apply digits_w_unsigned_int].
Qed.

Lemma fmt_go_seconds_dec r : unsigned_dec (fmt_go_seconds r).
Proof. unfold fmt_go_seconds. destruct (go_seconds r) as [m e]. destruct (shortest64 m e) as [t q]. apply fmt_f_shortest_dec. Qed.

(* ------------------------------------------------------------------ every duration is printed, inside xsd:duration *)
Definition int_field (n : Z) (des : byte) : bytes := if 0 <? n then digits n ++ [des] else [].

Lemma int_field_opt n des : opt_field unsigned_int des (int_field n des).
Proof. unfold int_field. destruct (0 <? n); [right; exists (digits n); split; [reflexivity|apply digits_unsigned_int]|left; reflexivity]. Qed.

Lemma int_field_nonempty n des : 0 < n -> int_field n des <> [].
Proof.
  intros H. unfold int_field. apply Z.ltb_lt in H. rewrite H. intros K. apply app_eq_nil in K. destruct K; discriminate.
Qed.

Theorem fmt_xsd_defined d : exists b, fmt_xsd_duration d = Some b.
Proof. unfold fmt_xsd_duration. eexists. reflexivity. Qed.

Theorem fmt_xsd_is_duration d : exists b, fmt_xsd_duration d = Some b /\ Xsd_duration b.
Proof.
  unfold fmt_xsd_duration. eexists. split; [reflexivity|].
  destruct (d =? 0) eqn:Ez.
  { apply durationb_spec. vm_compute. reflexivity. }
  apply Z.eqb_neq in Ez. cbv zeta.
  set (a := Z.abs d). set (dd := a / ns_day). set (r := a mod ns_day).
  set (h := r / ns_hour). set (r1 := r mod ns_hour). set (mi := r1 / ns_min). set (r2 := r1 mod ns_min).
  assert (Ha : 0 < a) by (unfold a; lia).
  assert (Hr : 0 <= r < ns_day) by (apply Z.mod_pos_bound; reflexivity).
  assert (Hr1 : 0 <= r1 < ns_hour) by (apply Z.mod_pos_bound; reflexivity).
  assert (Hr2 : 0 <= r2 < ns_min) by (apply Z.mod_pos_bound; reflexivity).
  assert (Hdd : 0 <= dd) by (apply Z.div_pos; [lia|reflexivity]).
  assert (Hh : 0 <= h) by (apply Z.div_pos; [lia|reflexivity]).
  assert (Hmi : 0 <= mi) by (apply Z.div_pos; [lia|reflexivity]).
  assert (Ea : a = ns_day * dd + r) by (apply Z.div_mod; discriminate).
  assert (Er : r = ns_hour * h + r1) by (apply Z.div_mod; discriminate).
  assert (Er1 : r1 = ns_min * mi + r2) by (apply Z.div_mod; discriminate).
  set (secs := if 0 <? r2 then fmt_go_seconds r2 ++ B "S" else []).
  assert (Hsecs : opt_field unsigned_dec x53 secs).
  { unfold secs. destruct (0 <? r2); [right; exists (fmt_go_seconds r2); split; [reflexivity|apply fmt_go_seconds_dec]|left; reflexivity]. }
  set (tp := if 0 <? r then B "T" ++ (if 0 <? h then digits h ++ B "H" else []) ++ (if 0 <? mi then digits mi ++ B "M" else []) ++ secs else []).
  assert (Htp : tp = [] \/ time_part tp).
  { unfold tp. destruct (0 <? r) eqn:Er0; [|left; reflexivity]. right. apply Z.ltb_lt in Er0.
    change (B "T" ++ (if 0 <? h then digits h ++ B "H" else []) ++ (if 0 <? mi then digits mi ++ B "M" else []) ++ secs)
      with (x54 :: int_field h x48 ++ int_field mi x4d ++ secs).
    apply TimePart; [apply int_field_opt|apply int_field_opt|exact Hsecs|].
    intros K. apply app_eq_nil in K. destruct K as [K1 K]. apply app_eq_nil in K. destruct K as [K2 K3].
    destruct (Z_lt_le_dec 0 h) as [Ph|Nh]; [exact (int_field_nonempty h x48 Ph K1)|].
    destruct (Z_lt_le_dec 0 mi) as [Pm|Nm]; [exact (int_field_nonempty mi x4d Pm K2)|].
    assert (P2 : 0 < r2) by (unfold ns_hour, ns_min in *; lia).
    unfold secs in K3. apply Z.ltb_lt in P2. rewrite P2 in K3. apply app_eq_nil in K3. destruct K3; discriminate. }
  change ((if d <? 0 then [x2d] else []) ++ B "P" ++ (if 0 <? dd then digits dd ++ B "D" else []) ++ tp)
    with ((if d <? 0 then [x2d] else []) ++ x50 :: [] ++ [] ++ int_field dd x44 ++ tp).
  apply Duration.
  - destruct (d <? 0); [right|left]; reflexivity.
  - left. reflexivity.
  - left. reflexivity.
  - apply int_field_opt.
  - exact Htp.
  - cbn [app]. intros K. apply app_eq_nil in K. destruct K as [K1 K2].
    destruct (Z_lt_le_dec 0 dd) as [Pd|Nd]; [exact (int_field_nonempty dd x44 Pd K1)|].
    assert (Pr : 0 < r) by (unfold ns_day in *; lia).
    unfold tp in K2. apply Z.ltb_lt in Pr. rewrite Pr in K2. discriminate.
Qed.

(* ------------------------------------------------------------------ whole seconds *)
(* the definition the model had while it abstained on fractions of a second (and on zero) *)
Definition fmt_xsd_duration_whole (nanos : Z) : option bytes :=
  let a := Z.abs nanos in
  if (a mod 1000000000 =? 0) && negb (nanos =? 0) then
    let s := a / 1000000000 in
    let dd := s / 86400 in let r := s mod 86400 in
    let h := r / 3600 in let mi := (r mod 3600) / 60 in let se := r mod 60 in
    Some ((if nanos <? 0 then [x2d] else []) ++ B "P" ++
          (if 0 <? dd then digits dd ++ B "D" else []) ++
          (if 0 <? r then B "T" ++
             (if 0 <? h then digits h ++ B "H" else []) ++
             (if 0 <? mi then digits mi ++ B "M" else []) ++
             (if 0 <? se then digits se ++ B "S" else [])
           else []))
  else None.

(* a whole number of seconds below a minute is printed as that number: 59 evaluations of the float printer *)
Lemma whole_seconds_sweep :
  forallb (fun k => bytes_eqb (fmt_go_seconds (Z.of_nat k * 1000000000)) (digits (Z.of_nat k))) (seq 1 59) = true.
Proof. vm_compute. reflexivity. Qed.

Lemma bytes_eqb_true_eq a b : bytes_eqb a b = true -> a = b.
Proof.
  revert b. induction a as [|x a IH]; intros [|y b]; cbn; try discriminate; [reflexivity|].
  intros H. apply andb_true_iff in H. destruct H as [H1 H2]. apply Byte.byte_dec_bl in H1. subst y. f_equal. apply IH. exact H2.
Qed.

Lemma fmt_go_seconds_whole se : 1 <= se <= 59 -> fmt_go_seconds (se * 1000000000) = digits se.
Proof.
  intros H. pose proof whole_seconds_sweep as S. rewrite forallb_forall in S.
  specialize (S (Z.to_nat se)). rewrite Z2Nat.id in S by lia. apply bytes_eqb_true_eq. apply S.
  apply in_seq. lia.
Qed.

Theorem fmt_xsd_whole d : Z.abs d mod 1000000000 = 0 -> d <> 0 -> fmt_xsd_duration d = fmt_xsd_duration_whole d.
Proof.
  intros Hmod Hnz. unfold fmt_xsd_duration, fmt_xsd_duration_whole. cbv zeta.
  apply Z.eqb_eq in Hmod. rewrite Hmod. apply Z.eqb_neq in Hnz. rewrite Hnz. cbn [andb negb]. apply Z.eqb_eq in Hmod. f_equal.
  set (a := Z.abs d) in *. set (s := a / 1000000000).
  assert (Ea : a = s * 1000000000) by (pose proof (Z.div_mod a 1000000000 ltac:(discriminate)); unfold s; lia).
  set (r := s mod 86400).
  assert (Hr : 0 <= r < 86400) by (apply Z.mod_pos_bound; reflexivity).
  assert (E1 : a / ns_day = s / 86400).
  { rewrite Ea. change ns_day with (86400 * 1000000000). apply Z.div_mul_cancel_r; discriminate. }
  assert (E2 : a mod ns_day = r * 1000000000).
  { rewrite Ea. change ns_day with (86400 * 1000000000). rewrite Z.mul_mod_distr_r by discriminate. reflexivity. }
  rewrite E1, E2.
  assert (E3 : r * 1000000000 / ns_hour = r / 3600).
  { change ns_hour with (3600 * 1000000000). apply Z.div_mul_cancel_r; discriminate. }
  assert (E4 : (r * 1000000000) mod ns_hour = (r mod 3600) * 1000000000).
  { change ns_hour with (3600 * 1000000000). rewrite Z.mul_mod_distr_r by discriminate. reflexivity. }
  rewrite E3, E4.
  assert (E5 : (r mod 3600) * 1000000000 / ns_min = r mod 3600 / 60).
  { change ns_min with (60 * 1000000000). apply Z.div_mul_cancel_r; discriminate. }
  assert (E6 : ((r mod 3600) * 1000000000) mod ns_min = (r mod 60) * 1000000000).
  { change ns_min with (60 * 1000000000). rewrite Z.mul_mod_distr_r by discriminate. f_equal.
    symmetry. apply Znumtheory.Zmod_div_mod; [reflexivity|reflexivity|]. exists 60. reflexivity. }
  rewrite E5, E6.
  assert (Hse : 0 <= r mod 60 < 60) by (apply Z.mod_pos_bound; reflexivity).
  assert (G1 : (0 <? r * 1000000000) = (0 <? r)).
  { destruct (0 <? r) eqn:K; [apply Z.ltb_lt in K; apply Z.ltb_lt; lia|apply Z.ltb_ge in K; apply Z.ltb_ge; lia]. }
  assert (G2 : (0 <? r mod 60 * 1000000000) = (0 <? r mod 60)).
  { destruct (0 <? r mod 60) eqn:K; [apply Z.ltb_lt in K; apply Z.ltb_lt; lia|apply Z.ltb_ge in K; apply Z.ltb_ge; lia]. }
  rewrite G1, G2.
  destruct (0 <? r mod 60) eqn:K; [|reflexivity]. apply Z.ltb_lt in K.
  rewrite (fmt_go_seconds_whole (r mod 60)) by lia. reflexivity.
Qed.

(* ------------------------------------------------------------------ the writer before the fix *)
Theorem fmt_xsd_negate_pinned_refuted :
  exists d b, - 2 ^ 63 <= d < 2 ^ 63 /\ fmt_xsd_duration_negate_pinned d = Some b /\ ~ Xsd_duration b /\
              exists b', fmt_xsd_duration d = Some b' /\ b' = B "-P106751DT23H47M16.854775808S" /\ Xsd_duration b'.
Proof.
  exists (- 2 ^ 63), (B "-P"). split; [split; [reflexivity|reflexivity]|]. split; [vm_compute; reflexivity|]. split.
  - intros K. apply durationb_spec in K. vm_compute in K. discriminate.
  - eexists. split; [vm_compute; reflexivity|]. split; [reflexivity|]. apply durationb_spec. vm_compute. reflexivity.
Qed.

(* non-vacuity and fidelity samples: the texts are the ones xsdDuration returns (the harness compares a grid on every
   run): a double rounding in Duration.Seconds shows in the digits of 1534577137 ns *)
Example fmt_xsd_samples :
  fmt_xsd_duration 1 = Some (B "PT0.000000001S") /\ fmt_xsd_duration 1500000000 = Some (B "PT1.5S") /\
  fmt_xsd_duration 59500000000 = Some (B "PT59.5S") /\ fmt_xsd_duration (-1000000) = Some (B "-PT0.001S") /\
  fmt_xsd_duration 86400000000000 = Some (B "P1D") /\
  fmt_xsd_duration 9223372036854775807 = Some (B "P106751DT23H47M16.854775807S") /\
  fmt_xsd_duration 1534577137 = Some (B "PT1.5345771369999999S") /\
  fmt_xsd_duration 3600000000001 = Some (B "PT1H0.000000001S") /\ fmt_xsd_duration 0 = Some (B "PT0S").
Proof. repeat split; vm_compute; reflexivity. Qed.
