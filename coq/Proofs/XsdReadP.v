(* Model/XsdRead.v: totality of the recovered reader and the exact set of texts on which xsd.Unmarshal itself panics.
   - xsd_loop_returns       : entered on a non-empty suffix with fuel >= its length, the loop of Unmarshal returns a value
                              or an error: no index read out of range, no fuel exhaustion (every item consumes input)
   - xsd_loop_rest          : the position the loop stops at leaves at most one byte: the "more bytes than we are able
                              to parse" test after the loop is dead code, and that one byte is never read
   - xsd_unmarshal_panic_iff: xsd.Unmarshal panics EXACTLY on the one-byte text "-"
   - xsd_unmarshal_returns  : on every other byte string it returns a value or an error
   - parse_duration_total / json_get_duration_total : the recovered reader returns on ALL byte strings *)
From AP.Model Require Import Prelude Bytes JsonLeaf XsdRead.
Open Scope Z_scope.

Definition xreturns {A} (o : outcome A) : Prop := (exists a, o = Ok a) \/ o = Err.

Lemma load_uint_shorter : forall s acc num tag rest,
  load_uint s acc = Some (num, tag, rest) -> (length rest < length s)%nat.
Proof.
  induction s as [|a s IH]; simpl; intros acc num tag rest H; [discriminate|].
  destruct (valid_tag a).
  - inversion H; subst. lia.
  - destruct (valid_float_byte a); [|discriminate]. apply IH in H. lia.
Qed.

Lemma xsd_loop_returns : forall f it s d, (length s <= f)%nat -> s <> [] -> xreturns (xsd_loop f it s d).
Proof.
  induction f as [|f IH]; intros it s d L N.
  - destruct s; [congruence|simpl in L; lia].
  - destruct s as [|b r]; [congruence|]. cbn [xsd_loop rd obind].
    assert (K : forall s1 it1, (length s1 <= S (length r))%nat ->
              xreturns (match load_uint s1 [] with
                        | None => Err
                        | Some (num, tag, rest) =>
                            match tag_value num tag it1 with
                            | None => Err
                            | Some v => if Nat.leb (length rest) 1 then Ok (xwrap64 (d + v), rest)
                                        else xsd_loop f it1 rest (xwrap64 (d + v))
                            end
                        end)).
    { intros s1 it1 L1. destruct (load_uint s1 []) as [[[num tag] rest]|] eqn:E; [|right; reflexivity].
      destruct (tag_value num tag it1) as [v|]; [|right; reflexivity].
      destruct (Nat.leb (length rest) 1) eqn:L2; [left; eexists; reflexivity|].
      apply load_uint_shorter in E. apply IH.
      - simpl in L. lia.
      - destruct rest; [discriminate L2|congruence]. }
    destruct (Byte.eqb b x54); cbn [tl].
    + apply K. simpl. lia.
    + apply K. simpl. lia.
Qed.

Lemma xsd_loop_rest : forall f it s d d' rest, xsd_loop f it s d = Ok (d', rest) -> (length rest <= 1)%nat.
Proof.
  induction f as [|f IH]; intros it s d d' rest H; [discriminate|].
  destruct s as [|b r]; [discriminate|]. cbn [xsd_loop rd obind] in H.
  assert (K : forall s1 it1,
            match load_uint s1 [] with
            | None => Err
            | Some (num, tag, rest0) =>
                match tag_value num tag it1 with
                | None => Err
                | Some v => if Nat.leb (length rest0) 1 then Ok (xwrap64 (d + v), rest0)
                            else xsd_loop f it1 rest0 (xwrap64 (d + v))
                end
            end = Ok (d', rest) -> (length rest <= 1)%nat).
  { intros s1 it1 H1. destruct (load_uint s1 []) as [[[num tag] rest0]|]; [|discriminate].
    destruct (tag_value num tag it1) as [v|]; [|discriminate].
    destruct (Nat.leb (length rest0) 1) eqn:L2.
    - inversion H1; subst. apply Nat.leb_le. exact L2.
    - eapply IH. exact H1. }
  destruct (Byte.eqb b x54); cbn [tl] in H; eapply K; exact H.
Qed.

(* what Unmarshal does behind the sign and the P *)
Lemma xsd_unmarshal_returns_from : forall s2 neg, s2 <> [] ->
  xreturns (obind (xsd_loop (length s2) false s2 0) (xsd_finish neg)).
Proof.
  intros s2 neg N. destruct (xsd_loop_returns (length s2) false s2 0 (le_n _) N) as [[[d rest] E]|E]; rewrite E; cbn [obind].
  - unfold xsd_finish. destruct (Nat.ltb 1 (length rest)); [right; reflexivity|left; eexists; reflexivity].
  - right; reflexivity.
Qed.

Theorem xsd_unmarshal_cases : forall data,
  (data = [x2d] /\ xsd_unmarshal data = Panic IndexOutOfRange) \/ (data <> [x2d] /\ xreturns (xsd_unmarshal data)).
Proof.
  intros data. destruct data as [|b0 t]; [right; split; [discriminate|right; reflexivity]|].
  unfold xsd_unmarshal. destruct (Byte.eqb b0 x2d) eqn:E0; cbn [tl].
  - apply Byte.byte_dec_bl in E0. subst b0. destruct t as [|b t'].
    + left. split; reflexivity.
    + right. split; [discriminate|]. cbn [rd obind]. destruct (Byte.eqb b x50); cbn [negb]; [|right; reflexivity].
      cbn [tl]. destruct t' as [|c t'']; [right; reflexivity|]. apply xsd_unmarshal_returns_from. discriminate.
  - right. split.
    + intros H. inversion H; subst. vm_compute in E0. discriminate.
    + cbn [rd obind]. destruct (Byte.eqb b0 x50); cbn [negb]; [|right; reflexivity].
      cbn [tl]. destruct t as [|c t']; [right; reflexivity|]. apply xsd_unmarshal_returns_from. discriminate.
Qed.

Theorem xsd_unmarshal_panic_iff : forall data, (exists p, xsd_unmarshal data = Panic p) <-> data = [x2d].
Proof.
  intros data. destruct (xsd_unmarshal_cases data) as [[E P]|[N R]].
  - split; [intros _; exact E|intros _; eexists; exact P].
  - split; [|intros E; congruence]. intros [p P]. destruct R as [[a R]|R]; rewrite R in P; discriminate.
Qed.

Theorem xsd_unmarshal_returns : forall data, data <> [x2d] -> xreturns (xsd_unmarshal data).
Proof. intros data N. destruct (xsd_unmarshal_cases data) as [[E _]|[_ R]]; [congruence|exact R]. Qed.

(* the kind of the panic is the index read behind the sign *)
Theorem xsd_unmarshal_panic_kind : forall data p, xsd_unmarshal data = Panic p -> p = IndexOutOfRange /\ data = [x2d].
Proof.
  intros data p P. destruct (xsd_unmarshal_cases data) as [[E Q]|[_ R]].
  - rewrite Q in P. inversion P. split; [reflexivity|exact E].
  - destruct R as [[a R]|R]; rewrite R in P; discriminate.
Qed.

Theorem xsd_unmarshal_no_fuel : forall data, xsd_unmarshal data <> OutOfFuel.
Proof.
  intros data P. destruct (xsd_unmarshal_cases data) as [[_ Q]|[_ R]].
  - rewrite Q in P. discriminate.
  - destruct R as [[a R]|R]; rewrite R in P; discriminate.
Qed.

Theorem parse_duration_total : forall s, exists r, parse_duration s = Ok r.
Proof.
  intros s. unfold parse_duration. destruct (xsd_unmarshal s) eqn:E; try (eexists; reflexivity).
  exfalso. exact (xsd_unmarshal_no_fuel s E).
Qed.

Theorem json_get_duration_total : forall s, exists d, json_get_duration s = Ok d.
Proof.
  intros s. unfold json_get_duration. destruct s as [|b r]; [eexists; reflexivity|].
  destruct (parse_duration_total (b :: r)) as [x E]. rewrite E. cbn [obind]. eexists; reflexivity.
Qed.

(* what the recovered reader returns, from what Unmarshal did *)
Theorem parse_duration_spec : forall s,
  parse_duration s = Ok (match xsd_unmarshal s with Ok d => Some d | _ => None end).
Proof.
  intros s. unfold parse_duration. destruct (xsd_unmarshal s) eqn:E; try reflexivity.
  exfalso. exact (xsd_unmarshal_no_fuel s E).
Qed.

(* the pinned JSONGetDuration panics exactly on "-" *)
Theorem json_get_duration_pinned_panic_iff : forall s, (exists p, json_get_duration_pinned s = Panic p) <-> s = [x2d].
Proof.
  intros s. split.
  - intros [p P]. unfold json_get_duration_pinned in P. destruct s as [|b r]; [discriminate|].
    destruct (xsd_unmarshal (b :: r)) eqn:E; try discriminate.
    apply xsd_unmarshal_panic_kind in E. exact (proj2 E).
  - intros E. subst. exists IndexOutOfRange. reflexivity.
Qed.
