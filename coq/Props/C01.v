(* C01 - JSON encode->decode round trip preserves every vocabulary property.
   Model: Model/JsonCodec.v: [enc] = interpreter of the write tables (Gen/JsonW.v) producing the exact
   bytes of MarshalJSON; [dec] = byte-level fastjson model (Model/Text.v) + interpreter of the read tables
   (Gen/JsonR.v) + the type dispatch of JSONLoadItem (Gen/Switches.v).  Both directions are compared with
   the real code inside Coq on every run (Cases_C02: bytes of the encoder; Cases_C01_dec: value decoded from
   the bytes the library wrote), and the round trip itself is evaluated natively on the real code with a
   reflection oracle (field by field, up to the documented normal form).
   This file: the table conditions - finite, so vm_compute is a proof - under which no property can be
   dropped, renamed or moved: every field of every type has exactly one write entry and one read entry,
   both under the term the type declares, with a writer and a getter of the field's Go type, and a write
   guard that holds for every set value (negative numbers included).
   PARTIAL: the generic theorem `tables ok -> forall x, wf_vocab x -> dec (enc x) = Some (Ok (norm x))`
   is not proved; its instances are checked by C01_roundtrip_example (in Coq) and by the native round trips
   (every type x every field x every admissible shape exhaustively, random deep values beyond). *)
From AP.Model Require Import Prelude Bytes Vocab Layout Json JsonLeaf JsonTables JsonEnc JsonCheck JsonCodec.
From AP.Gen Require Import Layout JsonW JsonR.

Theorem C01_write_tables : check_all_w jw_tables layout_of = [].
Proof. vm_compute. reflexivity. Qed.

Theorem C01_read_tables : check_all_r jw_tables jr_tables layout_of = [].
Proof. vm_compute. reflexivity. Qed.

Theorem C01_tables_recognised : tables_recognised_w jw_tables = true /\ tables_recognised_r jr_tables = true.
Proof. split; vm_compute; reflexivity. Qed.

(* a nested value of several types goes through the modelled encoder and decoder and comes back in the
   normal form: pointer forms, the lone tagged string untagged, the one-element list as its element *)
Definition c01_example : item :=
  IObj false KActivity
    [(F_ID, FStr (B "https://example.com/activities/1")); (F_Type, FStr (B "Create"));
     (F_Name, FNlv (Some [(B "en", B "a name")]));
     (F_Summary, FNlv (Some [(B "en", B "hello"); (B "fr", B "salut")]));
     (F_Published, FTime {| vsecs := 1700000000; vnanos := 0; voff := 3600 |});
     (F_To, FItems (Some [IIri false (B "https://www.w3.org/ns/activitystreams#Public");
                          IObj true KActor [(F_ID, FStr (B "https://example.com/actors/bob")); (F_Type, FStr (B "Person"));
                                            (F_Inbox, FItem (IIri false (B "https://example.com/actors/bob/inbox")))]]));
     (F_Duration, FDur (-90000000000));
     (F_Actor, FItem (IIri false (B "https://example.com/actors/alice")));
     (F_Object, FItem (IObj true KPlace [(F_ID, FStr (B "https://example.com/places/1")); (F_Type, FStr (B "Place"));
                                         (F_Latitude, FFloat (-33250000)); (F_Radius, FInt (-7));
                                         (F_Attachment, FItem (IItems false (Some [IIri false (B "https://example.com/a/1")])))]))].

Definition c01_example_norm : item :=
  IObj true KActivity
    [(F_ID, FStr (B "https://example.com/activities/1")); (F_Type, FStr (B "Create"));
     (F_Name, FNlv (Some [(B "-", B "a name")]));
     (F_Published, FTime {| vsecs := 1700000000; vnanos := 0; voff := 0 |});
     (F_Summary, FNlv (Some [(B "en", B "hello"); (B "fr", B "salut")]));
     (F_To, FItems (Some [IIri false (B "https://www.w3.org/ns/activitystreams#Public");
                          IObj true KActor [(F_ID, FStr (B "https://example.com/actors/bob")); (F_Type, FStr (B "Person"));
                                            (F_Inbox, FItem (IIri false (B "https://example.com/actors/bob/inbox")))]]));
     (F_Duration, FDur (-90000000000));
     (F_Actor, FItem (IIri false (B "https://example.com/actors/alice")));
     (F_Object, FItem (IObj true KPlace [(F_ID, FStr (B "https://example.com/places/1")); (F_Type, FStr (B "Place"));
                                         (F_Attachment, FItem (IIri false (B "https://example.com/a/1")));
                                         (F_Latitude, FFloat (-33250000)); (F_Radius, FInt (-7))]))].

Example C01_roundtrip_example :
  exists b, enc c01_example = Some b /\ dec b = Some (Ok c01_example_norm).
Proof.
  exists (match enc c01_example with Some b => b | None => [] end).
  split; vm_compute; reflexivity.
Qed.

(* ---- durations (fix 5a7198d) ---- *)
(* the pinned writer (xsd.Marshal of go-xsd-duration) did not write what the reader reads back: 29 days went out as
   "P1M" and came back as 30 days; the witness is replayed on the code by the harness probes *)
Theorem C01_duration_pinned_refuted : exists d : Z,
  (d mod 1000000000 = 0)%Z /\ d <> 0%Z /\
  exists b, JsonLeaf.fmt_xsd_duration_pinned d = Some b /\ JsonDec.parse_xsd_duration b <> Some d.
Proof.
  exists (29 * 86400 * 1000000000)%Z. split; [reflexivity|]. split; [discriminate|].
  eexists. split; [vm_compute; reflexivity|]. vm_compute. discriminate.
Qed.
(* the repaired writer on the same witness and on the boundaries of the month / year rounding *)
Example C01_duration_witnesses_repaired :
  forallb (fun days => match JsonLeaf.fmt_xsd_duration (days * 86400 * 1000000000 + 5000000000) with
                       | Some b => match JsonDec.parse_xsd_duration b with
                                   | Some d => (d =? days * 86400 * 1000000000 + 5000000000)%Z
                                   | None => false end
                       | None => false end)
          [0; 1; 27; 28; 29; 30; 31; 59; 335; 336; 340; 355; 356; 357; 385; 3650; 106751]%Z = true.
Proof. vm_compute. reflexivity. Qed.
